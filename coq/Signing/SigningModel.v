(* Signing/SigningModel.v — executable, code-shaped model of transaction signing
   (core/types/transaction_signing.go, transaction.go, gen_tx_json.go,
   crypto/crypto.go ValidateSignatureValues).  Definitions only: extracted.

   Primitives: the hash H (crypto.Keccak256), public-key recovery
   (crypto.Ecrecover, secp256k1), signing (crypto.Sign) and key -> address
   (crypto.PubkeyToAddress) are Section variables.  In the extracted model H is
   Lib.Keccak.keccak256 and the other three are oracle tables recorded by the
   harness from the real implementation. *)
From AQ Require Import Lib.Bytes Rlp.RlpSpec.
Local Open Scope N_scope.

(* crypto/crypto.go: secp256k1_N, secp256k1_halfN = N / 2 *)
Definition secp_n : N := 115792089237316195423570985008687907852837564279074904382605163141518161494337.
Definition secp_half_n : N := secp_n / 2.

(* txdata (transaction.go): uint64 nonce/gas, *big.Int price/value/V/R/S (never
   negative: they come from rlp, hexutil.Big or SetBytes), *common.Address
   recipient (nil = contract creation), payload. *)
Record tx := mkTx {
  t_nonce : N; t_price : N; t_gas : N; t_to : option bytes; t_value : N; t_data : bytes;
  t_v : N; t_r : N; t_s : N }.

Inductive signer := Frontier | Homestead | EIP155 (chain_id : N).

Inductive err := EChain | ESig | ERecover | EPub.
Inductive res (A : Type) := Ok (a : A) | Err (e : err) | Panic.
Arguments Ok {A} a. Arguments Err {A} e. Arguments Panic {A}.

(* FrontierSigner.Equal / HomesteadSigner.Equal / EIP155Signer.Equal: concrete
   type assertion (a HomesteadSigner is not a FrontierSigner), chain ids compared *)
Definition signer_equal (a b : signer) : bool :=
  match a, b with
  | Frontier, Frontier => true
  | Homestead, Homestead => true
  | EIP155 c1, EIP155 c2 => c1 =? c2
  | _, _ => false
  end.

(* big.Int.BitLen *)
Definition bitlen (n : N) : N := N.size n.

(* transaction.go isProtectedV *)
Definition is_protected_v (v : N) : bool :=
  if bitlen v <=? 8 then negb (v =? 27) && negb (v =? 28) else true.

(* transaction_signing.go deriveChainId: the uint64 branch computes (v - 35) / 2
   with uint64 wrap-around for v < 35 *)
Definition derive_chain_id (v : N) : N :=
  if bitlen v <=? 64 then
    if (v =? 27) || (v =? 28) then 0 else ((v + two64 - 35) mod two64) / 2
  else (v - 35) / 2.

(* crypto.ValidateSignatureValues(v byte, r, s, homestead) *)
Definition validate_sig (v r s : N) (homestead : bool) : bool :=
  if negb (v =? 0) && negb (v =? 1) then false
  else if (r <? 1) || (s <? 1) then false
  else if homestead && (secp_half_n <? s) then false
  else (r <? secp_n) && (s <? secp_n).

(* ---- which signer the node applies (params/config.go isForked, IsHomestead, IsEIP155;
   types.MakeSigner; core.NewTxPool) ---- *)
Record chain_cfg := mkCfg { cc_chain_id : N; cc_homestead : option N; cc_eip155 : option N }.
(* isForked(s, head): a nil fork block is never active *)
Definition is_forked (s : option N) (head : N) : bool :=
  match s with Some b => b <=? head | None => false end.
(* types.MakeSigner(config, blockNumber): used by ApplyTransaction / StateProcessor *)
Definition make_signer (cfg : chain_cfg) (num : N) : signer :=
  if is_forked (cc_eip155 cfg) num then EIP155 (cc_chain_id cfg)
  else if is_forked (cc_homestead cfg) num then Homestead
  else Frontier.
(* core.NewTxPool: signer: types.NewEIP155Signer(chainconfig.ChainId), whatever the height *)
Definition pool_signer (cfg : chain_cfg) : signer := EIP155 (cc_chain_id cfg).

(* ---- what is hashed ---- *)
Definition uint_item (n : N) : item := Str (be_of_N n).
(* *common.Address inside []interface{} / with `rlp:"nil"`: nil -> 0x80 *)
Definition to_item (o : option bytes) : item := match o with None => Str [] | Some a => Str a end.
Definition sig_fields (t : tx) : list item :=
  [uint_item (t_nonce t); uint_item (t_price t); uint_item (t_gas t); to_item (t_to t);
   uint_item (t_value t); Str (t_data t)].
(* FrontierSigner.Hash (also Homestead) and EIP155Signer.Hash: the list handed to rlpHash *)
Definition sighash_item (sg : signer) (t : tx) : item :=
  match sg with
  | EIP155 c => Lst (sig_fields t ++ [uint_item c; uint_item 0; uint_item 0])
  | _ => Lst (sig_fields t)
  end.
(* Transaction.EncodeRLP: the nine txdata fields *)
Definition tx_item (t : tx) : item :=
  Lst (sig_fields t ++ [uint_item (t_v t); uint_item (t_r t); uint_item (t_s t)]).
Definition encode_tx (t : tx) : bytes := encode (tx_item t).

(* Transaction.DecodeRLP -> rlp struct decoding of txdata: uint64 (no leading
   zero, <= 8 bytes), big ints (no leading zero), `rlp:"nil"` pointer to a
   20-byte array (the empty string -> nil; an empty list is rejected since the
   rlp nil-pointer fix), byte slice *)
Definition item_to_addr (x : item) : option (option bytes) :=
  match x with
  | Str [] => Some None
  | Str a => if lenN a =? 20 then Some (Some a) else None
  | Lst _ => None
  end.
Definition item_to_bytes (x : item) : option bytes :=
  match x with Str s => Some s | Lst _ => None end.
Definition tx_of_item (x : item) : option tx :=
  match x with
  | Lst [n; p; g; to; v; d; sv; sr; ss] =>
    match item_to_uint 64 n, item_to_uint 0 p, item_to_uint 64 g, item_to_addr to,
          item_to_uint 0 v, item_to_bytes d, item_to_uint 0 sv, item_to_uint 0 sr, item_to_uint 0 ss with
    | Some n', Some p', Some g', Some to', Some v', Some d', Some sv', Some sr', Some ss' =>
        Some (mkTx n' p' g' to' v' d' sv' sr' ss')
    | _, _, _, _, _, _, _, _, _ => None
    end
  | _ => None
  end.
Definition decode_tx (b : bytes) : option tx :=
  match decode_exact b with Some x => tx_of_item x | None => None end.

(* common.BytesToAddress(h[12:]): Keccak256 always returns 32 bytes; an abstract
   H of another length is cropped / padded the way BytesToAddress does *)
Definition addr_of_hash (h : bytes) : bytes := left_pad 20 (skipn 12 h).

(* FrontierSigner.SignatureValues / EIP155Signer.SignatureValues: sig is
   [R || S || V]; byte arithmetic on sig[64] wraps *)
Definition sig_v (sig : bytes) : N := b2n (nth 64 sig x00).
Definition signature_values (sg : signer) (sig : bytes) : res (N * N * N) :=
  if negb (lenN sig =? 65) then Panic
  else
    let r := N_of_be (firstn 32 sig) in
    let s := N_of_be (firstn 32 (skipn 32 sig)) in
    match sg with
    | EIP155 c =>
        if c =? 0 then Ok (r, s, (sig_v sig + 27) mod 256)
        else Ok (r, s, (sig_v sig + 35) mod 256 + 2 * c)
    | _ => Ok (r, s, (sig_v sig + 27) mod 256)
    end.

(* Transaction.WithSignature *)
Definition with_signature (sg : signer) (t : tx) (sig : bytes) : res tx :=
  match signature_values sg sig with
  | Ok (r, s, v) => Ok (mkTx (t_nonce t) (t_price t) (t_gas t) (t_to t) (t_value t) (t_data t) v r s)
  | Err e => Err e
  | Panic => Panic
  end.

(* result of types.SignTx.  SSignErr: crypto.Sign failed; SMismatch: "sender mismatch" *)
Inductive sign_res := SOk (t : tx) | SSignErr | SSenderErr (e : err) | SMismatch | SPanic.

Section Prims.
  Variable H : bytes -> bytes.                            (* crypto.Keccak256 *)
  Variable ecrecover : bytes -> bytes -> option bytes.    (* crypto.Ecrecover hash sig65 -> 65-byte public key *)
  Variable sign : bytes -> bytes -> option bytes.         (* crypto.Sign hash key -> sig65; argument order (key, hash) here *)
  Variable pub_addr : bytes -> bytes.                     (* crypto.PubkeyToAddress(prv.PubKey()) *)

  Definition sighash (sg : signer) (t : tx) : bytes := H (encode (sighash_item sg t)).
  Definition tx_hash (t : tx) : bytes := H (encode_tx t).

  (* the tail of recoverPlain: build the 65-byte signature, recover, check the
     0x04 prefix, hash the public key.  r, s < 2^256 here (validated before), so
     the two `copy(sig[32-len(r):32], r)` cannot go out of range. *)
  Definition sig65 (r s v : N) : bytes := be_fixed 32 r ++ be_fixed 32 s ++ [n2b v].
  Definition recover_addr (h : bytes) (r s v : N) : res bytes :=
    match ecrecover h (sig65 r s v) with
    | None => Err ERecover
    | Some pub =>
      match pub with
      | [] => Err EPub
      | p0 :: rest => if b2n p0 =? 4 then Ok (addr_of_hash (H rest)) else Err EPub
      end
    end.

  (* recoverPlain(sighash, R, S, Vb, homestead).  Vb is a big.Int that may be
     negative for the EIP-155 signer (V - 2c - 8): BitLen and Uint64 look at the
     absolute value; V := byte(Vb.Uint64() - 27) wraps in uint64, then truncates. *)
  Definition recover_plain (h : bytes) (r s : N) (vb : Z) (homestead : bool) : res bytes :=
    let a := Z.to_N (Z.abs vb) in
    if 8 <? bitlen a then Err ESig
    else
      let v := ((a mod two64 + two64 - 27) mod two64) mod 256 in
      if negb (validate_sig v r s homestead) then Err ESig
      else recover_addr h r s v.

  (* FrontierSigner.Sender / HomesteadSigner.Sender / EIP155Signer.Sender *)
  Definition sender_signer (sg : signer) (t : tx) : res bytes :=
    match sg with
    | Frontier => recover_plain (sighash Frontier t) (t_r t) (t_s t) (Z.of_N (t_v t)) false
    | Homestead => recover_plain (sighash Homestead t) (t_r t) (t_s t) (Z.of_N (t_v t)) true
    | EIP155 c =>
        if negb (is_protected_v (t_v t)) then
          recover_plain (sighash Homestead t) (t_r t) (t_s t) (Z.of_N (t_v t)) true
        else if negb (derive_chain_id (t_v t) =? c) then Err EChain
        else recover_plain (sighash (EIP155 c) t) (t_r t) (t_s t)
                           (Z.of_N (t_v t) - Z.of_N (2 * c) - 8)%Z false
    end.

  (* types.Sender with the `from` cache (sigCache{signer, from}) *)
  Definition cache := option (signer * bytes).
  Definition sender_cached (sg : signer) (t : tx) (c : cache) : res bytes * cache :=
    match c with
    | Some (sg', a) =>
        if signer_equal sg' sg then (Ok a, c)
        else match sender_signer sg t with
             | Ok a' => (Ok a', Some (sg, a'))
             | other => (other, c)
             end
    | None =>
        match sender_signer sg t with
        | Ok a' => (Ok a', Some (sg, a'))
        | other => (other, c)
        end
    end.

  (* types.SignTx: hash, sign, attach, recover, compare with the key's address.
     SErr: crypto.Sign failed; SMismatch: "sender mismatch" *)
  Definition sign_tx (sg : signer) (key : bytes) (t : tx) : sign_res :=
    match sign key (sighash sg t) with
    | None => SSignErr
    | Some sig =>
      match with_signature sg t sig with
      | Panic => SPanic
      | Err e => SSenderErr e
      | Ok t' =>
        match sender_signer sg t' with
        | Ok from => if bytes_eqb from (pub_addr key) then SOk t' else SMismatch
        | Err e => SSenderErr e
        | Panic => SPanic
        end
      end
    end.
End Prims.

(* ---- JSON field codec (common/hexutil): quantities are "0x" + minimal hex ---- *)
Definition hex_digit (n : N) : byte := if n <? 10 then n2b (48 + n) else n2b (87 + n).
Fixpoint hex_digits_fuel (fuel : nat) (n : N) (acc : bytes) : bytes :=
  match fuel with
  | O => acc
  | S f => if n =? 0 then acc else hex_digits_fuel f (n / 16) (hex_digit (n mod 16) :: acc)
  end.
(* hexutil.EncodeBig / EncodeUint64 *)
Definition enc_quantity (n : N) : bytes :=
  x30 :: x78 :: (if n =? 0 then [x30] else hex_digits_fuel (N.to_nat (N.size n)) n []).

(* hexutil decodeNibble *)
Definition nibble (c : byte) : option N :=
  let n := b2n c in
  if (48 <=? n) && (n <=? 57) then Some (n - 48)
  else if (65 <=? n) && (n <=? 70) then Some (n - 55)
  else if (97 <=? n) && (n <=? 102) then Some (n - 87)
  else None.
Fixpoint nibbles_acc (acc : N) (l : bytes) : option N :=
  match l with
  | [] => Some acc
  | c :: t => match nibble c with Some d => nibbles_acc (acc * 16 + d) t | None => None end
  end.
(* hexutil.Big.UnmarshalText / Uint64.UnmarshalText via checkNumberText:
   the empty string is accepted as 0; prefix 0x or 0X; "0x" alone, a leading
   zero digit, more than maxlen digits, or a non-hex digit are errors *)
Definition dec_quantity (maxlen : N) (s : bytes) : option N :=
  match s with
  | [] => Some 0
  | c0 :: c1 :: raw =>
      if (b2n c0 =? 48) && ((b2n c1 =? 120) || (b2n c1 =? 88)) then
        match raw with
        | [] => None
        | d :: rest =>
            if (b2n d =? 48) && negb (lenN rest =? 0) then None
            else if maxlen <? lenN raw then None
            else nibbles_acc 0 raw
        end
      else None
  | _ => None
  end.

(* Transaction.UnmarshalJSON after the field decoding: recompute the recovery id
   from V (Uint64 arithmetic wraps) and ValidateSignatureValues(…, false) *)
Definition json_v_byte (v : N) : N :=
  if is_protected_v v then
    let c := derive_chain_id v mod two64 in
    ((v mod two64 + 2 * two64 - 35 + (two64 - (2 * c) mod two64)) mod two64) mod 256
  else ((v mod two64 + two64 - 27) mod two64) mod 256.
Definition json_accepts (t : tx) : bool := validate_sig (json_v_byte (t_v t)) (t_r t) (t_s t) false.

(* ---- Transaction.UnmarshalJSON (gen_tx_json.go + hexutil + common.Address/Hash) at the member level ----
   A member as encoding/json hands it to the field decoders: absent or null (the
   pointer stays nil), a JSON string (its raw content), or a value of another type. *)
Inductive jfield := JAbsent | JS (s : bytes) | JBad.

Fixpoint hex_pairs (l : bytes) : option bytes :=
  match l with
  | [] => Some []
  | a :: t =>
    match t with
    | [] => None
    | b :: t' =>
      match nibble a, nibble b, hex_pairs t' with
      | Some x, Some y, Some r => Some (n2b (16 * x + y) :: r)
      | _, _, _ => None
      end
    end
  end.
(* hexutil.Bytes.UnmarshalText: "" is accepted (empty), otherwise 0x/0X prefix and an even number of hex digits *)
Definition dec_hexbytes (s : bytes) : option bytes :=
  match s with
  | [] => Some []
  | c0 :: c1 :: raw =>
      if (b2n c0 =? 48) && ((b2n c1 =? 120) || (b2n c1 =? 88)) then hex_pairs raw else None
  | _ => None
  end.
(* hexutil.UnmarshalFixedText for common.Address (20) / common.Hash (32) *)
Definition dec_fixed (w : N) (s : bytes) : option bytes :=
  match dec_hexbytes s with Some b => if lenN b =? w then Some b else None | None => None end.

Record tx_json := mkTxJson {
  j_nonce : jfield; j_price : jfield; j_gas : jfield; j_to : jfield; j_value : jfield; j_input : jfield;
  j_v : jfield; j_r : jfield; j_s : jfield; j_hash : jfield }.

(* gencodec:"required" quantity member *)
Definition req_quantity (maxlen : N) (f : jfield) : option N :=
  match f with JS s => dec_quantity maxlen s | _ => None end.

(* txdata.UnmarshalJSON then the signature check of Transaction.UnmarshalJSON.  The
   "hash" member must be well-formed when present; its VALUE is not used: the
   decoded transaction's hash is that of its own RLP encoding (tx_hash). *)
Definition tx_of_json (j : tx_json) : option tx :=
  match req_quantity 16 (j_nonce j), req_quantity 64 (j_price j), req_quantity 16 (j_gas j),
        req_quantity 64 (j_value j), req_quantity 64 (j_v j), req_quantity 64 (j_r j), req_quantity 64 (j_s j) with
  | Some n, Some p, Some g, Some v, Some sv, Some sr, Some ss =>
    match (match j_to j with JAbsent => Some None | JS s => option_map Some (dec_fixed 20 s) | JBad => None end),
          (match j_input j with JS s => dec_hexbytes s | _ => None end),
          (match j_hash j with JAbsent => true | JS s => (match dec_fixed 32 s with Some _ => true | None => false end) | JBad => false end) with
    | Some to, Some d, true =>
        let t := mkTx n p g to v d sv sr ss in if json_accepts t then Some t else None
    | _, _, _ => None
    end
  | _, _, _, _, _, _, _ => None
  end.

(* hexutil.Encode: "0x" + lower-case hex (hexutil.Bytes, common.Address, common.Hash MarshalText) *)
Definition enc_hexbytes (b : bytes) : bytes :=
  x30 :: x78 :: flat_map (fun c => [hex_digit (b2n c / 16); hex_digit (b2n c mod 16)]) b.
(* txdata.MarshalJSON as members (Transaction.MarshalJSON adds the hash h) *)
Definition json_of_tx (t : tx) (h : bytes) : tx_json :=
  mkTxJson (JS (enc_quantity (t_nonce t))) (JS (enc_quantity (t_price t))) (JS (enc_quantity (t_gas t)))
    (match t_to t with Some a => JS (enc_hexbytes a) | None => JAbsent end)
    (JS (enc_quantity (t_value t))) (JS (enc_hexbytes (t_data t)))
    (JS (enc_quantity (t_v t))) (JS (enc_quantity (t_r t))) (JS (enc_quantity (t_s t))) (JS (enc_hexbytes h)).

(* ---- a transaction OBJECT: the fields plus the `from` cache (atomic.Value holding sigCache) ---- *)
Section Objects.
  Variable H : bytes -> bytes.
  Variable ecrecover : bytes -> bytes -> option bytes.

  (* types.Sender called with each signer of the list in turn on one object *)
  Fixpoint sender_seq (t : tx) (c : cache) (sgs : list signer) : list (res bytes) * cache :=
    match sgs with
    | [] => ([], c)
    | sg :: rest =>
      let '(r, c1) := sender_cached H ecrecover sg t c in
      let '(rs, c2) := sender_seq t c1 rest in (r :: rs, c2)
    end.

  (* Transaction.WithSignature on an object: cpy := &Transaction{data: tx.data} - the copy starts with
     an EMPTY cache whatever the original has cached *)
  Definition with_signature_obj (sg : signer) (o : tx * cache) (sig : bytes) : res (tx * cache) :=
    match with_signature sg (fst o) sig with
    | Ok t' => Ok (t', None)
    | Err e => Err e
    | Panic => Panic
    end.

  (* the two halves of types.Sender as separate atomic events, for interleavings of concurrent callers:
     the Load with the Equal test, and the Store of a pair the caller computed *)
  Definition cache_load (c : cache) (sg : signer) : option bytes :=
    match c with Some (sg', a) => if signer_equal sg' sg then Some a else None | None => None end.
  Definition cache_store (c : cache) (p : signer * bytes) : cache := Some p.
End Objects.
