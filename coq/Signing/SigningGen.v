(* Signing/SigningGen.v — the signer-selection model against the table the
   translator regenerates from the current source on every run
   (Generated/GenSigners.v: the built-in chain configurations and the signer
   types.MakeSigner really returns on a lattice of heights around their forks). *)
From AQ Require Import Lib.Bytes Signing.SigningModel Signing.SigningProofs Generated.GenSigners.
Local Open Scope N_scope.

Definition cfg_of (x : N * option N * option N) : chain_cfg :=
  match x with (cid, hb, eb) => mkCfg cid hb eb end.

(* kind / chain id encoding of the probe table *)
Definition signer_code (sg : signer) : N * N :=
  match sg with Frontier => (0, 0) | Homestead => (1, 0) | EIP155 c => (2, c) end.

Definition probe_ok (p : nat * N * N * N) : bool :=
  match p with
  | (i, h, kind, cid) =>
    match nth_error gen_signer_configs i with
    | None => false
    | Some x => let '(k, c) := signer_code (make_signer (cfg_of x) h) in (k =? kind) && (c =? cid)
    end
  end.

Lemma make_signer_probes_ok : forallb probe_ok gen_signer_probes = true.
Proof. vm_compute. reflexivity. Qed.

(* on every probed (built-in configuration, height) the model selects the signer the code selects *)
Theorem make_signer_spec :
  forall i h kind cid, In (i, h, kind, cid) gen_signer_probes ->
    exists x, nth_error gen_signer_configs i = Some x /\
              signer_code (make_signer (cfg_of x) h) = (kind, cid).
Proof.
  intros i h kind cid Hin.
  pose proof (proj1 (forallb_forall probe_ok gen_signer_probes) make_signer_probes_ok _ Hin) as P.
  unfold probe_ok in P. destruct (nth_error gen_signer_configs i) as [x|]; [|discriminate].
  exists x. split; [reflexivity|].
  destruct (signer_code (make_signer (cfg_of x) h)) as [k c].
  apply andb_true_iff in P. destruct P as [P1 P2]. apply N.eqb_eq in P1, P2. now subst.
Qed.

(* every built-in configuration enables replay protection with its own chain id,
   and the table is not empty *)
Lemma builtin_configs_protected :
  gen_signer_configs <> [] /\ gen_signer_probes <> [] /\
  forallb (fun x => match cc_eip155 (cfg_of x) with Some _ => true | None => false end) gen_signer_configs = true.
Proof. vm_compute. repeat split; discriminate. Qed.

(* the general shape of the selection *)
Theorem make_signer_eip155_iff cfg n c :
  make_signer cfg n = EIP155 c <-> is_forked (cc_eip155 cfg) n = true /\ c = cc_chain_id cfg.
Proof.
  unfold make_signer. destruct (is_forked (cc_eip155 cfg) n).
  - split; [intros E; injection E as <-; auto|intros [_ ->]; reflexivity].
  - destruct (is_forked (cc_homestead cfg) n); split; try discriminate; intros [E _]; discriminate.
Qed.

(* what the state processor attributes at height n: a replay-protected
   transaction only if it carries the configuration's chain id *)
Theorem applied_sender_chain H ecrecover cfg n t a :
  sender_signer H ecrecover (make_signer cfg n) t = Ok a ->
  is_protected_v (t_v t) = true ->
  is_forked (cc_eip155 cfg) n = true /\ derive_chain_id (t_v t) = cc_chain_id cfg.
Proof.
  intros S P. unfold make_signer in S. destruct (is_forked (cc_eip155 cfg) n) eqn:F.
  - split; [reflexivity|]. now destruct (eip155_sender_chain _ _ _ _ _ S P).
  - exfalso. assert (Hs : exists sg, (sg = Homestead \/ sg = Frontier) /\ sender_signer H ecrecover sg t = Ok a).
    { destruct (is_forked (cc_homestead cfg) n); eauto. }
    destruct Hs as (sg & Hsg & S').
    apply sender_ok_inv in S'. destruct S' as (v & Hv & E & _).
    assert (E' : t_v t = 27 + v) by (destruct Hsg as [-> | ->]; exact E).
    unfold is_protected_v in P. rewrite E' in P.
    assert (L : bitlen (27 + v) <= 8) by (apply lt_bitlen; change (2 ^ 8) with 256; lia).
    destruct (N.leb_spec (bitlen (27 + v)) 8); [|lia].
    assert (v = 0 \/ v = 1) as [-> | ->] by lia; cbn in P; discriminate.
Qed.

(* the pool attributes a replay-protected transaction only under the configuration's chain id, at any height *)
Theorem pool_sender_chain H ecrecover cfg t a :
  sender_signer H ecrecover (pool_signer cfg) t = Ok a ->
  is_protected_v (t_v t) = true -> derive_chain_id (t_v t) = cc_chain_id cfg.
Proof. intros S P. now destruct (eip155_sender_chain _ _ _ _ _ S P). Qed.
