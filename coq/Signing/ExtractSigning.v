(* Extraction of the signing model for ocaml/signing/driver.ml.  ExtrOcamlBasic only. *)
From AQ Require Import Lib.Bytes Lib.ExtractBase Lib.Keccak Rlp.RlpSpec Signing.SigningModel.
Require Extraction.
Require Import ExtrOcamlBasic.
Extraction "../ocaml/signing/model.ml" base_anchor keccak256
  secp_n secp_half_n signer_equal is_protected_v derive_chain_id validate_sig
  sighash_item tx_item encode_tx decode_tx signature_values with_signature
  sighash tx_hash recover_addr recover_plain sender_signer sender_cached sign_tx
  make_signer pool_signer tx_of_json json_of_tx enc_hexbytes sender_seq with_signature_obj cache_load enc_quantity dec_quantity json_v_byte json_accepts encode.
