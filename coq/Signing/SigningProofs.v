(* Signing/SigningProofs.v — lemmas about Signing/SigningModel.v (property C12).
   Primitive functions (H, ecrecover, sign, pub_addr) are Section variables; no
   theorem assumes anything false of a real hash or of ECDSA: where security of a
   primitive is needed the conclusion exhibits the collision / forgery instead. *)
From AQ Require Import Lib.Bytes Rlp.RlpSpec Rlp.RlpProofs Signing.SigningModel.
From Coq Require Import ZifyBool ZifyN ZifyNat.
Local Open Scope N_scope.
Ltac Zify.zify_post_hook ::= Z.div_mod_to_equations.

(* ---------- RLP facts used here ---------- *)
Lemma encode_inj x y : fits x = true -> fits y = true -> encode x = encode y -> x = y.
Proof.
  intros Hx Hy E. pose proof (decode_encode x [] Hx) as Dx. pose proof (decode_encode y [] Hy) as Dy.
  rewrite E in Dx. rewrite Dx in Dy. congruence.
Qed.

Lemma Lst_inj l1 l2 : Lst l1 = Lst l2 -> l1 = l2.
Proof. congruence. Qed.

Lemma be_of_N_inj a b : be_of_N a = be_of_N b -> a = b.
Proof. intros E. rewrite <- (N_of_be_of_N a), <- (N_of_be_of_N b). now rewrite E. Qed.

(* ---------- bit length ---------- *)
Lemma bitlen_le n k : bitlen n <= k -> n < 2 ^ k.
Proof.
  intros Hs. unfold bitlen in Hs. pose proof (N.size_gt n) as G.
  assert (2 ^ N.size n <= 2 ^ k) by (apply N.pow_le_mono_r; lia). lia.
Qed.
Lemma bitlen_gt n k : k < bitlen n -> 2 ^ k <= n.
Proof.
  intros Hs. unfold bitlen in Hs. destruct n as [|p]; [simpl in Hs; lia|].
  pose proof (N.size_le (N.pos p)) as G.
  assert (2 ^ (N.succ k) <= 2 ^ N.size (N.pos p)) by (apply N.pow_le_mono_r; lia).
  rewrite N.pow_succ_r' in H. rewrite N.succ_double_spec in G. lia.
Qed.
Lemma lt_bitlen n k : n < 2 ^ k -> bitlen n <= k.
Proof.
  intros Hn. destruct (N.le_gt_cases (bitlen n) k) as [|G]; [assumption|].
  apply bitlen_gt in G. lia.
Qed.
Lemma le_bitlen n k : 2 ^ k <= n -> k < bitlen n.
Proof.
  intros Hn. destruct (N.le_gt_cases (bitlen n) k) as [G|]; [|assumption].
  apply bitlen_le in G. lia.
Qed.

Lemma two64_val : two64 = 2 ^ 64. Proof. reflexivity. Qed.

(* ---------- ValidateSignatureValues ---------- *)
Lemma validate_sig_bool v r s hs :
  validate_sig v r s hs =
  ((v =? 0) || (v =? 1)) && negb (r <? 1) && negb (s <? 1) && negb (hs && (secp_half_n <? s)) &&
  (r <? secp_n) && (s <? secp_n).
Proof.
  unfold validate_sig.
  destruct (v =? 0), (v =? 1), (r <? 1), (s <? 1), hs, (secp_half_n <? s), (r <? secp_n), (s <? secp_n); reflexivity.
Qed.

Theorem validate_spec v r s hs :
  validate_sig v r s hs = true <->
  (v = 0 \/ v = 1) /\ 1 <= r < secp_n /\ 1 <= s < secp_n /\ (hs = true -> s <= secp_half_n).
Proof.
  rewrite validate_sig_bool. generalize secp_n secp_half_n. intros n hn.
  rewrite !andb_true_iff, orb_true_iff, !negb_true_iff, andb_false_iff, !N.eqb_eq, !N.ltb_lt, !N.ltb_ge.
  split.
  - intros (((((Hv & Hr) & Hs) & Hh) & Hrn) & Hsn). repeat split; try assumption.
    intros ->. destruct Hh as [Hh|Hh]; [discriminate|exact Hh].
  - intros (Hv & (Hr & Hrn) & (Hs & Hsn) & Hh). repeat split; try assumption.
    destruct hs; [right; now apply Hh|now left].
Qed.

(* ---------- V arithmetic ---------- *)
Lemma protected_eip155_v c v : v < 2 -> is_protected_v (35 + 2 * c + v) = true.
Proof.
  intros Hv. unfold is_protected_v.
  destruct (N.leb_spec (bitlen (35 + 2 * c + v)) 8); [|reflexivity].
  destruct (N.eqb_spec (35 + 2 * c + v) 27), (N.eqb_spec (35 + 2 * c + v) 28); try lia; reflexivity.
Qed.

Lemma derive_chain_id_eip155 c v : v < 2 -> derive_chain_id (35 + 2 * c + v) = c.
Proof.
  intros Hv. unfold derive_chain_id. set (V := 35 + 2 * c + v).
  destruct (N.leb_spec (bitlen V) 64) as [L|L].
  - apply bitlen_le in L. rewrite <- two64_val in L.
    destruct (N.eqb_spec V 27), (N.eqb_spec V 28); cbn [orb]; try (unfold V in *; lia).
    unfold V in *. unfold two64 in *. lia.
  - unfold V. lia.
Qed.

Lemma unprotected_27_28 v : is_protected_v v = false -> v = 27 \/ v = 28.
Proof.
  unfold is_protected_v. destruct (N.leb_spec (bitlen v) 8); [|discriminate].
  destruct (N.eqb_spec v 27), (N.eqb_spec v 28); cbn; intros; try discriminate; lia.
Qed.

(* protected V with derived chain id c and |V - 2c - 8| in {27, 28}: V = 35 + 2c + v *)
Lemma eip155_v_shape c V v :
  is_protected_v V = true -> derive_chain_id V = c -> v < 2 ->
  Z.abs (Z.of_N V - Z.of_N (2 * c) - 8)%Z = Z.of_N (27 + v) -> V = 35 + 2 * c + v.
Proof.
  intros Hp Hc Hv Habs. unfold is_protected_v, derive_chain_id in *.
  destruct (N.leb_spec (bitlen V) 64) as [L|L].
  - apply bitlen_le in L. rewrite <- two64_val in L.
    destruct (N.leb_spec (bitlen V) 8) as [L8|L8].
    + destruct (N.eqb_spec V 27), (N.eqb_spec V 28); cbn in Hp; try discriminate. cbn [orb] in Hc.
      unfold two64 in *. lia.
    + apply bitlen_gt in L8. change (2 ^ 8) with 256 in L8.
      destruct (N.eqb_spec V 27), (N.eqb_spec V 28); try lia. cbn [orb] in Hc.
      unfold two64 in *. lia.
  - apply bitlen_gt in L. change (2 ^ 64) with 18446744073709551616 in L. lia.
Qed.

(* byte(Vb.Uint64() - 27) for |Vb| < 256, by enumeration (small proof term) *)
Definition v_narrow (x : N) : N := ((x mod two64 + two64 - 27) mod two64) mod 256.
Lemma v_narrow_table : forallb (fun k => v_narrow (N.of_nat k) =? (if 27 <=? N.of_nat k then N.of_nat k - 27 else N.of_nat k + 229)) (seq 0 256) = true.
Proof. vm_compute. reflexivity. Qed.
Lemma v_narrow_spec x : x < 256 -> v_narrow x = if 27 <=? x then x - 27 else x + 229.
Proof.
  intros Hx. pose proof (proj1 (forallb_forall _ _) v_narrow_table (N.to_nat x)) as T.
  cbv beta in T. rewrite N2Nat.id in T. apply N.eqb_eq, T. apply in_seq. lia.
Qed.

Lemma secp_n_odd : secp_n = 2 * secp_half_n + 1.
Proof. vm_compute. reflexivity. Qed.

Section Prims.
  Variable H : bytes -> bytes.
  Variable ecrecover : bytes -> bytes -> option bytes.

  Notation sighash := (sighash H).
  Notation recover_addr := (recover_addr H ecrecover).
  Notation recover_plain := (recover_plain H ecrecover).
  Notation sender_signer := (sender_signer H ecrecover).
  Notation sender_cached := (sender_cached H ecrecover).

  (* two different byte strings with the same hash *)
  Definition collision (a b : bytes) : Prop := a <> b /\ H a = H b.

  (* ---------- what the signing hash covers ---------- *)
  Definition to_wf (t : tx) : Prop := match t_to t with Some a => a <> [] | None => True end.
  Definition same_signed_fields (t1 t2 : tx) : Prop :=
    t_nonce t1 = t_nonce t2 /\ t_price t1 = t_price t2 /\ t_gas t1 = t_gas t2 /\
    t_to t1 = t_to t2 /\ t_value t1 = t_value t2 /\ t_data t1 = t_data t2.
  (* the chain id a signer's hash commits to *)
  Definition hash_domain (sg : signer) : option N := match sg with EIP155 c => Some c | _ => None end.

  Lemma to_item_inj t1 t2 : to_wf t1 -> to_wf t2 -> to_item (t_to t1) = to_item (t_to t2) -> t_to t1 = t_to t2.
  Proof.
    unfold to_wf. destruct (t_to t1) as [a|], (t_to t2) as [b|]; cbn; intros W1 W2 E; try congruence.
  Qed.

  Lemma sig_fields_inj t1 t2 r1 r2 : to_wf t1 -> to_wf t2 ->
    sig_fields t1 ++ r1 = sig_fields t2 ++ r2 -> same_signed_fields t1 t2 /\ r1 = r2.
  Proof.
    intros W1 W2 E. unfold sig_fields, uint_item in E. cbn [app] in E.
    injection E as E1 E2 E3 E4 E5 E6 E7.
    repeat split; try (now apply be_of_N_inj); try assumption. now apply to_item_inj.
  Qed.

  Lemma sighash_item_inj sg1 sg2 t1 t2 : to_wf t1 -> to_wf t2 ->
    sighash_item sg1 t1 = sighash_item sg2 t2 -> same_signed_fields t1 t2 /\ hash_domain sg1 = hash_domain sg2.
  Proof.
    intros W1 W2 E.
    assert (G : forall sg t, exists r, sighash_item sg t = Lst (sig_fields t ++ r) /\
                (r = [] /\ hash_domain sg = None \/ exists c, r = [uint_item c; uint_item 0; uint_item 0] /\ hash_domain sg = Some c)).
    { intros [| |c] t; cbn; [exists []|exists []|eexists]; (split; [now rewrite ?app_nil_r|]); eauto. }
    destruct (G sg1 t1) as (r1 & E1 & D1), (G sg2 t2) as (r2 & E2 & D2).
    rewrite E1, E2 in E. apply Lst_inj in E. destruct (sig_fields_inj _ _ _ _ W1 W2 E) as [S R].
    split; [assumption|].
    destruct D1 as [[-> ->]|(c1 & -> & ->)], D2 as [[-> ->]|(c2 & -> & ->)]; try discriminate; try reflexivity.
    injection R as R. unfold uint_item in R. f_equal. apply be_of_N_inj. congruence.
  Qed.

  Lemma same_fields_sighash_item sg t1 t2 : same_signed_fields t1 t2 -> sighash_item sg t1 = sighash_item sg t2.
  Proof.
    intros (E1 & E2 & E3 & E4 & E5 & E6). unfold sighash_item, sig_fields. now rewrite E1, E2, E3, E4, E5, E6.
  Qed.

  Theorem sighash_injective sg1 sg2 t1 t2 :
    to_wf t1 -> to_wf t2 ->
    fits (sighash_item sg1 t1) = true -> fits (sighash_item sg2 t2) = true ->
    sighash sg1 t1 = sighash sg2 t2 ->
    (same_signed_fields t1 t2 /\ hash_domain sg1 = hash_domain sg2) \/
    collision (encode (sighash_item sg1 t1)) (encode (sighash_item sg2 t2)).
  Proof.
    intros W1 W2 F1 F2 E. unfold SigningModel.sighash in E.
    destruct (bytes_eqb_spec (encode (sighash_item sg1 t1)) (encode (sighash_item sg2 t2))) as [Eq|Ne].
    - left. apply sighash_item_inj; try assumption. now apply encode_inj.
    - right. split; assumption.
  Qed.

  (* ---------- recoverPlain ---------- *)
  Lemma recover_plain_ok h r s vb hs a :
    recover_plain h r s vb hs = Ok a ->
    exists v, v < 2 /\ Z.abs vb = Z.of_N (27 + v) /\ validate_sig v r s hs = true /\ recover_addr h r s v = Ok a.
  Proof.
    unfold SigningModel.recover_plain. set (x := Z.to_N (Z.abs vb)).
    destruct (N.ltb_spec 8 (bitlen x)) as [L|L]; [discriminate|].
    apply bitlen_le in L. change (2 ^ 8) with 256 in L.
    set (v := ((x mod two64 + two64 - 27) mod two64) mod 256).
    destruct (validate_sig v r s hs) eqn:V; cbn [negb]; [|discriminate].
    intros R. exists v. pose proof (proj1 (validate_spec _ _ _ _) V) as (Hv & _).
    assert (Hx : x = 27 + v).
    { fold (v_narrow x) in v. unfold v in Hv |- *. rewrite (v_narrow_spec x L) in *.
      destruct (N.leb_spec 27 x); lia. }
    repeat split; try assumption; try lia.
  Qed.

  Lemma recover_plain_run h r s v hs :
    v < 2 -> validate_sig v r s hs = true ->
    recover_plain h r s (Z.of_N (27 + v)) hs = recover_addr h r s v.
  Proof.
    intros Hv V. unfold SigningModel.recover_plain.
    replace (Z.to_N (Z.abs (Z.of_N (27 + v)))) with (27 + v) by lia.
    destruct (N.ltb_spec 8 (bitlen (27 + v))) as [L|L].
    - apply bitlen_gt in L. change (2 ^ 8) with 256 in L. lia.
    - fold (v_narrow (27 + v)). rewrite (v_narrow_spec (27 + v)) by lia.
      destruct (N.leb_spec 27 (27 + v)); [|lia]. replace (27 + v - 27) with v by lia. now rewrite V.
  Qed.

  (* the signer whose hash and S-rule EIP155Signer.Sender really applies *)
  Definition eff_signer (sg : signer) (t : tx) : signer :=
    match sg with
    | EIP155 c => if is_protected_v (t_v t) then EIP155 c else Homestead
    | s => s
    end.
  Definition enforces_low_s (sg : signer) : bool := match sg with Homestead => true | _ => false end.
  Definition v_of (sg : signer) (v : N) : N := match sg with EIP155 c => 35 + 2 * c + v | _ => 27 + v end.

  Lemma sender_ok_inv sg t a :
    sender_signer sg t = Ok a ->
    exists v, v < 2 /\ t_v t = v_of (eff_signer sg t) v /\
      validate_sig v (t_r t) (t_s t) (enforces_low_s (eff_signer sg t)) = true /\
      recover_addr (sighash (eff_signer sg t) t) (t_r t) (t_s t) v = Ok a.
  Proof.
    destruct sg as [| |c]; cbn [SigningModel.sender_signer eff_signer].
    - intros R. apply recover_plain_ok in R. destruct R as (v & Hv & Ha & Hval & Hr).
      exists v. cbn [v_of eff_signer enforces_low_s]. rewrite ?P. repeat split; try assumption. lia.
    - intros R. apply recover_plain_ok in R. destruct R as (v & Hv & Ha & Hval & Hr).
      exists v. cbn [v_of eff_signer enforces_low_s]. rewrite ?P. repeat split; try assumption. lia.
    - destruct (is_protected_v (t_v t)) eqn:P; cbn [negb].
      + destruct (N.eqb_spec (derive_chain_id (t_v t)) c) as [C|C]; cbn [negb]; [|discriminate].
        intros R. apply recover_plain_ok in R. destruct R as (v & Hv & Ha & Hval & Hr).
        exists v. cbn [v_of eff_signer enforces_low_s]. rewrite ?P. repeat split; try assumption. now apply eip155_v_shape.
      + intros R. apply recover_plain_ok in R. destruct R as (v & Hv & Ha & Hval & Hr).
        exists v. cbn [v_of eff_signer enforces_low_s]. rewrite ?P. repeat split; try assumption. lia.
  Qed.

  Lemma eff_signer_protected c t v : v < 2 -> t_v t = 35 + 2 * c + v -> eff_signer (EIP155 c) t = EIP155 c.
  Proof. intros Hv E. cbn. now rewrite E, protected_eip155_v. Qed.

  (* forward direction for the EIP-155 signer on a protected V *)
  Lemma sender_eip155_run c t v :
    v < 2 -> t_v t = 35 + 2 * c + v -> validate_sig v (t_r t) (t_s t) false = true ->
    sender_signer (EIP155 c) t = recover_addr (sighash (EIP155 c) t) (t_r t) (t_s t) v.
  Proof.
    intros Hv E V. cbn [SigningModel.sender_signer]. rewrite E, protected_eip155_v by assumption. cbn [negb].
    rewrite derive_chain_id_eip155 by assumption. rewrite N.eqb_refl. cbn [negb].
    replace (Z.of_N (35 + 2 * c + v) - Z.of_N (2 * c) - 8)%Z with (Z.of_N (27 + v)) by lia.
    now apply recover_plain_run.
  Qed.

  (* ---------- 2. mutation of a signed field ---------- *)
  (* If a transaction t that differs from the signed t0 in a signed field (or in
     the chain id its hash commits to) is attributed to address a, then a valid
     signature recovering to a exists on a hash different from the one that was
     signed for t0 — an ECDSA existential forgery against a — or H collides. *)
  Theorem mutation_changes_sender sg0 t0 sg t a :
    to_wf t0 -> to_wf t ->
    fits (sighash_item sg0 t0) = true -> fits (sighash_item (eff_signer sg t) t) = true ->
    ~ (same_signed_fields t0 t /\ hash_domain sg0 = hash_domain (eff_signer sg t)) ->
    sender_signer sg t = Ok a ->
    (exists h r s v, h <> sighash sg0 t0 /\ recover_addr h r s v = Ok a) \/
    collision (encode (sighash_item sg0 t0)) (encode (sighash_item (eff_signer sg t) t)).
  Proof.
    intros W0 W F0 F Hdiff S. apply sender_ok_inv in S. destruct S as (v & Hv & _ & _ & R).
    destruct (bytes_eqb_spec (sighash (eff_signer sg t) t) (sighash sg0 t0)) as [E|NE].
    - symmetry in E. destruct (sighash_injective _ _ _ _ W0 W F0 F E) as [Same|Col]; [contradiction|now right].
    - left. exists (sighash (eff_signer sg t) t), (t_r t), (t_s t), v. split; assumption.
  Qed.

  (* ---------- 2. mutation of a signature component ---------- *)
  (* Two transactions with the same signed fields, both attributed to a under the
     same rules but with different (V,R,S): then two different signatures on one
     hash recover to a; under Homestead rules both have S <= N/2 (so the second
     is not the trivial (r, N-s, 1-v) malleation: a strong forgery against a). *)
  Theorem signature_mutation sg t1 t2 a :
    same_signed_fields t1 t2 -> eff_signer sg t1 = eff_signer sg t2 ->
    (t_v t1, t_r t1, t_s t1) <> (t_v t2, t_r t2, t_s t2) ->
    sender_signer sg t1 = Ok a -> sender_signer sg t2 = Ok a ->
    exists h v1 v2,
      (v1, t_r t1, t_s t1) <> (v2, t_r t2, t_s t2) /\
      recover_addr h (t_r t1) (t_s t1) v1 = Ok a /\ recover_addr h (t_r t2) (t_s t2) v2 = Ok a /\
      (enforces_low_s (eff_signer sg t1) = true -> t_s t1 <= secp_half_n /\ t_s t2 <= secp_half_n).
  Proof.
    intros Same Eff Hne S1 S2.
    apply sender_ok_inv in S1. destruct S1 as (v1 & Hv1 & E1 & Val1 & R1).
    apply sender_ok_inv in S2. destruct S2 as (v2 & Hv2 & E2 & Val2 & R2).
    rewrite <- Eff in E2, Val2, R2. unfold SigningModel.sighash in R1, R2 |- *.
    rewrite <- (same_fields_sighash_item _ _ _ Same) in R2.
    exists (H (encode (sighash_item (eff_signer sg t1) t1))), v1, v2. repeat split; try assumption.
    - intros E. apply Hne. injection E as -> -> ->. rewrite E1, E2. reflexivity.
    - apply validate_spec in Val1. intuition.
    - apply validate_spec in Val2. intuition.
  Qed.

  (* ---------- 3. chain binding ---------- *)
  Theorem eip155_chain_bound c t :
    is_protected_v (t_v t) = true -> derive_chain_id (t_v t) <> c -> sender_signer (EIP155 c) t = Err EChain.
  Proof.
    intros P C. cbn [SigningModel.sender_signer]. rewrite P. cbn [negb].
    destruct (N.eqb_spec (derive_chain_id (t_v t)) c); [contradiction|reflexivity].
  Qed.

  (* a V produced for chain c1 (35 + 2 c1 + recovery id) is rejected by every other chain *)
  Theorem eip155_replay_protected c1 c2 v t :
    v < 2 -> t_v t = 35 + 2 * c1 + v -> c1 <> c2 -> sender_signer (EIP155 c2) t = Err EChain.
  Proof.
    intros Hv E Hc. apply eip155_chain_bound; rewrite E.
    - now apply protected_eip155_v.
    - now rewrite derive_chain_id_eip155.
  Qed.

  (* a replay-protected transaction is attributed by an EIP-155 signer only when
     its V carries that signer's chain id *)
  Theorem eip155_sender_chain c t a :
    sender_signer (EIP155 c) t = Ok a -> is_protected_v (t_v t) = true ->
    derive_chain_id (t_v t) = c /\ exists v, v < 2 /\ t_v t = 35 + 2 * c + v.
  Proof.
    intros S P. apply sender_ok_inv in S. destruct S as (v & Hv & E & _). cbn [eff_signer] in E. rewrite P in E. cbn [v_of] in E.
    split; [rewrite E; now apply derive_chain_id_eip155|eauto].
  Qed.

  (* ---------- 4. signature ranges ---------- *)
  Theorem sender_sig_in_range sg t a :
    sender_signer sg t = Ok a ->
    1 <= t_r t < secp_n /\ 1 <= t_s t < secp_n /\
    (enforces_low_s (eff_signer sg t) = true -> t_s t <= secp_half_n).
  Proof.
    intros S. apply sender_ok_inv in S. destruct S as (v & _ & _ & Val & _).
    apply validate_spec in Val. intuition.
  Qed.

  Theorem high_s_rejected sg t a :
    enforces_low_s (eff_signer sg t) = true -> secp_half_n < t_s t -> sender_signer sg t <> Ok a.
  Proof.
    intros E Hs S. apply sender_sig_in_range in S. destruct S as (_ & _ & L). specialize (L E). lia.
  Qed.

  (* EIP155Signer.Sender calls recoverPlain with homestead=false: the malleated
     form of an accepted protected transaction is accepted too, for the same
     sender.  The premise is the algebraic fact about ECDSA recovery
     (r, N-s, 1-v) ~ (r, s, v); the oracle tables recorded from the real
     secp256k1 code satisfy it (see the concrete witness in Properties/C12.v). *)
  Definition malleate (c : N) (t : tx) : tx :=
    mkTx (t_nonce t) (t_price t) (t_gas t) (t_to t) (t_value t) (t_data t)
         (4 * c + 71 - t_v t) (t_r t) (secp_n - t_s t).

  Theorem eip155_accepts_malleated c t a :
    (forall h r s v, v < 2 -> 1 <= s < secp_n ->
       ecrecover h (sig65 r (secp_n - s) (1 - v)) = ecrecover h (sig65 r s v)) ->
    is_protected_v (t_v t) = true -> sender_signer (EIP155 c) t = Ok a ->
    sender_signer (EIP155 c) (malleate c t) = Ok a /\
    (t_s t <= secp_half_n -> secp_half_n < t_s (malleate c t)) /\ malleate c t <> t.
  Proof.
    intros Mall P S. pose proof S as S0. apply sender_ok_inv in S.
    destruct S as (v & Hv & E & Val & R). cbn [eff_signer] in E, R, Val. rewrite P in E, R, Val.
    cbn [v_of enforces_low_s] in E, R, Val.
    apply validate_spec in Val. destruct Val as (_ & Hr & Hs & _).
    assert (EV : t_v (malleate c t) = 35 + 2 * c + (1 - v)) by (cbn [malleate t_v]; lia).
    split; [|split].
    - rewrite (sender_eip155_run c (malleate c t) (1 - v)); try assumption; try lia.
      + cbn [malleate t_r t_s]. unfold SigningModel.recover_addr in R |- *.
        assert (SH : sighash (EIP155 c) (malleate c t) = sighash (EIP155 c) t) by reflexivity.
        rewrite SH. rewrite Mall by lia. exact R.
      + apply validate_spec. cbn [malleate t_r t_s]. repeat split; try lia; discriminate.
    - cbn [malleate t_s]. unfold secp_half_n. generalize secp_n_odd. intros O. lia.
    - intros Eq. apply (f_equal t_v) in Eq. rewrite EV, E in Eq. lia.
  Qed.

  (* ---------- 5. the sender cache ---------- *)
  Lemma signer_equal_eq a b : signer_equal a b = true -> a = b.
  Proof.
    destruct a, b; cbn; intros E; try discriminate; try reflexivity.
    apply N.eqb_eq in E. now subst.
  Qed.

  Definition cache_valid (t : tx) (c : cache) : Prop :=
    match c with Some (sg', a') => sender_signer sg' t = Ok a' | None => True end.

  Theorem cache_sound sg t c r c' :
    cache_valid t c -> sender_cached sg t c = (r, c') -> r = sender_signer sg t /\ cache_valid t c'.
  Proof.
    unfold SigningModel.sender_cached. intros V.
    destruct c as [[sg' a']|].
    - destruct (signer_equal sg' sg) eqn:Eq.
      + apply signer_equal_eq in Eq. subst sg'. intros E. injection E as <- <-. cbn in V. now rewrite V.
      + destruct (sender_signer sg t) eqn:S; intros E; injection E as <- <-; (split; [reflexivity|]); cbn; assumption.
    - destruct (sender_signer sg t) eqn:S; intros E; injection E as <- <-; (split; [reflexivity|]); cbn; auto.
  Qed.
End Prims.

Section SignPrims.
  Variable H : bytes -> bytes.
  Variable ecrecover : bytes -> bytes -> option bytes.
  Variable sign : bytes -> bytes -> option bytes.
  Variable pub_addr : bytes -> bytes.
  Notation sighash := (sighash H).
  Notation sender_signer := (sender_signer H ecrecover).
  Notation sign_tx := (sign_tx H ecrecover sign pub_addr).

  (* ---------- 2. SignTx: the result is attributed to the key ---------- *)
  Theorem signed_tx_sender sg key t t' :
    sign_tx sg key t = SOk t' ->
    sender_signer sg t' = Ok (pub_addr key) /\ same_signed_fields t t'.
  Proof.
    unfold SigningModel.sign_tx. destruct (sign key (sighash sg t)) as [sig|]; [|discriminate].
    unfold with_signature. destruct (signature_values sg sig) as [[[r s] v]|e|] eqn:SV; try discriminate.
    match goal with |- context [sender_signer sg ?x] => set (tt := x) end.
    destruct (sender_signer sg tt) as [from|e|] eqn:S; try discriminate.
    destruct (bytes_eqb_spec from (pub_addr key)) as [->|]; [|discriminate].
    intros E. injection E as <-. split; [assumption|]. unfold same_signed_fields, tt. cbn. tauto.
  Qed.

End SignPrims.

(* ---------- 6. RLP round trip ---------- *)
Definition tx_rlp_wf (t : tx) : Prop :=
  t_nonce t < two64 /\ t_gas t < two64 /\
  (match t_to t with Some a => lenN a = 20 | None => True end) /\ fits (tx_item t) = true.

Lemma item_to_uint_any n : item_to_uint 0 (uint_item n) = Some n.
Proof. unfold item_to_uint, uint_item. rewrite be_of_N_no_lead0. cbn. now rewrite N_of_be_of_N. Qed.

Lemma item_to_uint_64 n : n < two64 -> item_to_uint 64 (uint_item n) = Some n.
Proof.
  intros Hn. unfold item_to_uint, uint_item. rewrite be_of_N_no_lead0.
  pose proof (be_of_N_len_le n 8 Hn) as L.
  destruct (N.leb_spec (lenN (be_of_N n) * 8) 64); [|lia]. cbn. now rewrite N_of_be_of_N.
Qed.

Theorem decode_encode_tx t : tx_rlp_wf t -> decode_tx (encode_tx t) = Some t.
Proof.
  intros (Hn & Hg & Hto & F). unfold decode_tx, encode_tx. rewrite (decode_exact_encode _ F).
  unfold tx_item, sig_fields. cbn [app tx_of_item].
  rewrite (item_to_uint_64 _ Hn), (item_to_uint_64 _ Hg), !item_to_uint_any.
  assert (A : item_to_addr (to_item (t_to t)) = Some (t_to t)).
  { destruct (t_to t) as [a|]; cbn; [|reflexivity].
    destruct a as [|x a]; [cbn in Hto; lia|]. cbn [item_to_addr]. now rewrite Hto. }
  rewrite A. cbn. now destruct t.
Qed.

(* ---------- concrete witness for the high-S defect of EIP155Signer.Sender ---------- *)
From AQ Require Import Lib.Keccak.

(* crypto.Ecrecover as a finite table (what the extracted model is run with) *)
Definition table_ecrecover (tbl : list (bytes * bytes * option bytes)) (h sg : bytes) : option bytes :=
  match find (fun e => bytes_eqb (fst (fst e)) h && bytes_eqb (snd (fst e)) sg) tbl with
  | Some e => snd e
  | None => None
  end.

(* A transaction signed for chain id 3 by the real implementation, in its malleated
   form (r, N-s, v xor 1), and the crypto.Ecrecover answers recorded for it. *)
Definition w_tx : tx := mkTx 152512 17871806350176492281 386360179 (Some [x8c; x95; xae; x95; xec; x73; x71; x26; x60; x92; x60; x22; xb2; xa6; xe3; x21; x7f; x5d; xe1; x93]) 100 []
  42
  7130476628726637152785598416077327513864572355250292763033661797879206187613
  110369616545668403547057487953219604044537343871376404412979181579958035663488.
Definition w_table : list (bytes * bytes * option bytes) :=
 [  ([x38; x1d; x86; x78; x22; x88; x0b; xb2; xc4; xb8; x0e; x8f; x03; x6a; x34; x43; x9a; xec; x3f; x42; x3d; xc7; x85; xf8; xab; xf0; xd8; x03; x24; xbd; x71; x96],
   [x0f; xc3; xb4; xed; xaf; xa1; x77; x16; x69; x3c; xf8; x1b; x60; x63; x09; x9b; x2e; xe8; x02; xda; xcb; x88; x0c; xfa; x8a; xc3; x80; xc6; x3d; xf5; x12; x5d; xf4; x02; xfd; x3d; x66; xed; x08; x58; x89; xb4; xe5; x19; x80; x81; xff; xb7; x7f; xb5; x3c; xa0; x12; x4b; x57; x74; xe4; x42; xfe; xea; x81; xf7; xca; x80; x00],
   Some [x04; x07; x73; x35; x65; x3d; x8c; x87; x24; x15; x96; xf5; xdd; x0f; xe2; xe2; x81; x86; x9f; xef; xd8; x6b; xb2; x46; xa0; x83; x62; x22; x42; x2a; xe3; x49; xbf; x74; x9f; xb4; x8f; xc1; x07; x44; x60; xb7; x99; x65; xea; x9b; x9f; x90; x24; x3e; x80; x17; xba; xab; x67; x73; x68; x39; x42; x5b; x65; x9d; xd6; xb4; xbd]);
  ([x38; x1d; x86; x78; x22; x88; x0b; xb2; xc4; xb8; x0e; x8f; x03; x6a; x34; x43; x9a; xec; x3f; x42; x3d; xc7; x85; xf8; xab; xf0; xd8; x03; x24; xbd; x71; x96],
   [x0f; xc3; xb4; xed; xaf; xa1; x77; x16; x69; x3c; xf8; x1b; x60; x63; x09; x9b; x2e; xe8; x02; xda; xcb; x88; x0c; xfa; x8a; xc3; x80; xc6; x3d; xf5; x12; x5d; xf4; x02; xfd; x3d; x66; xed; x08; x58; x89; xb4; xe5; x19; x80; x81; xff; xb7; x7f; xb5; x3c; xa0; x12; x4b; x57; x74; xe4; x42; xfe; xea; x81; xf7; xca; x80; x01],
   Some [x04; xab; xdc; x3f; x05; x2e; xba; xc0; xd7; xa1; x51; xf7; x16; x25; x4f; xbf; x54; x4e; xf3; xc6; xee; x87; x24; x22; x24; xd4; xbb; xa7; xa1; xbd; x3f; xc7; x4d; x6c; x9c; xb2; xd1; xbb; x99; x60; x2f; x5d; x40; x6d; x69; xbb; x9f; x04; xaf; xb2; x8f; x09; xb6; x01; xcd; xba; xbd; xcd; x3e; xf5; x29; xa2; x2d; x2b; x67]);
  ([xcf; x09; xe8; xd9; xbc; x4f; x2c; xe4; xc1; x20; x0c; xe1; x57; x21; x12; x6b; xb3; xd1; x19; xac; x99; x84; x6a; xe4; xa0; x1a; xb8; x73; x58; xbe; xd5; xfb],
   [x0f; xc3; xb4; xed; xaf; xa1; x77; x16; x69; x3c; xf8; x1b; x60; x63; x09; x9b; x2e; xe8; x02; xda; xcb; x88; x0c; xfa; x8a; xc3; x80; xc6; x3d; xf5; x12; x5d; xf4; x02; xfd; x3d; x66; xed; x08; x58; x89; xb4; xe5; x19; x80; x81; xff; xb7; x7f; xb5; x3c; xa0; x12; x4b; x57; x74; xe4; x42; xfe; xea; x81; xf7; xca; x80; x00],
   Some [x04; xed; xf2; x83; x65; xf3; x72; xc7; xb4; x78; x52; xb7; x4f; x79; x30; xb9; xda; xeb; x27; x58; x31; x75; x76; x77; x32; x62; x35; x8a; xef; xad; x40; x5c; x7c; x59; x1c; x70; xd1; x82; x14; xb8; xbf; x30; x67; x83; x32; xc0; x12; x24; x8f; x29; xbb; xed; x47; x5b; x98; xcf; xc9; x7c; xae; xec; xe0; x7c; x83; x43; xc5]);
  ([xcf; x09; xe8; xd9; xbc; x4f; x2c; xe4; xc1; x20; x0c; xe1; x57; x21; x12; x6b; xb3; xd1; x19; xac; x99; x84; x6a; xe4; xa0; x1a; xb8; x73; x58; xbe; xd5; xfb],
   [x0f; xc3; xb4; xed; xaf; xa1; x77; x16; x69; x3c; xf8; x1b; x60; x63; x09; x9b; x2e; xe8; x02; xda; xcb; x88; x0c; xfa; x8a; xc3; x80; xc6; x3d; xf5; x12; x5d; xf4; x02; xfd; x3d; x66; xed; x08; x58; x89; xb4; xe5; x19; x80; x81; xff; xb7; x7f; xb5; x3c; xa0; x12; x4b; x57; x74; xe4; x42; xfe; xea; x81; xf7; xca; x80; x01],
   Some [x04; x0d; xc3; xe9; x16; x9b; xd3; x4e; xbe; x68; xf9; x0a; x44; xcb; x6a; xaa; xac; x22; x94; x3f; x40; x23; xa8; x7f; x89; xf1; x36; x4a; xe0; x11; x0c; xd4; xcb; xd1; x97; xb5; xa5; x08; x68; x83; x48; x6b; xdf; x7f; x54; xdb; xe5; x4b; xe1; xf3; x9c; x3e; xe7; xad; x2e; xd2; x29; x5f; x32; xbd; xb1; x08; xf8; xa3; x2b])].
Definition w_sender : bytes := [xe3; xb5; x56; xa6; x34; x75; x12; xa5; x75; xf4; x17; xd5; x91; x34; xb5; xb6; x02; xb8; xdb; x4e].

Lemma eip155_high_s_witness :
  sender_signer keccak256 (table_ecrecover w_table) (EIP155 3) w_tx = Ok w_sender /\
  is_protected_v (t_v w_tx) = true /\ secp_half_n < t_s w_tx.
Proof. vm_compute. repeat split. Qed.

(* ---------- 7. JSON hex quantities (hexutil.Big / hexutil.Uint64) round trip ---------- *)
Lemma nibble_hex_digit d : d < 16 -> nibble (hex_digit d) = Some d /\ (d <> 0 -> b2n (hex_digit d) <> 48).
Proof.
  intros Hd.
  assert (C : d = 0 \/ d = 1 \/ d = 2 \/ d = 3 \/ d = 4 \/ d = 5 \/ d = 6 \/ d = 7 \/ d = 8 \/ d = 9 \/
              d = 10 \/ d = 11 \/ d = 12 \/ d = 13 \/ d = 14 \/ d = 15) by lia.
  repeat (destruct C as [->|C]; [split; [reflexivity|first [intros Hz; exfalso; apply Hz; reflexivity|intros _; vm_compute; discriminate]]|]).
  subst. split; [reflexivity|intros _; vm_compute; discriminate].
Qed.

Lemma nibbles_acc_app a p q :
  nibbles_acc a (p ++ q) = match nibbles_acc a p with Some b => nibbles_acc b q | None => None end.
Proof.
  revert a. induction p as [|c p IH]; intros a; cbn [app nibbles_acc]; [reflexivity|].
  destruct (nibble c); [apply IH|reflexivity].
Qed.

Lemma hex_digits_fuel_spec f : forall n acc,
  n < 2 ^ N.of_nat f ->
  exists pre, hex_digits_fuel f n acc = pre ++ acc /\
    (forall a, nibbles_acc a pre = Some (a * 16 ^ lenN pre + n)) /\
    (n = 0 -> pre = []) /\
    (n <> 0 -> (exists h t, pre = h :: t /\ b2n h <> 48) /\ 16 ^ (lenN pre - 1) <= n).
Proof.
  induction f as [|f IH]; intros n acc Hn.
  - cbn in Hn. assert (n = 0) by lia. subst. exists []. cbn. repeat split; try lia; try reflexivity.
    intros a. f_equal. lia.
  - cbn [hex_digits_fuel]. destruct (N.eqb_spec n 0) as [->|Hnz].
    + exists []. cbn. repeat split; try lia; try reflexivity. intros a. f_equal. lia.
    + assert (Hq : n / 16 < 2 ^ N.of_nat f).
      { rewrite Nat2N.inj_succ, N.pow_succ_r' in Hn.
        assert (1 <= 2 ^ N.of_nat f) by (pose proof (N.pow_nonzero 2 (N.of_nat f)); lia). lia. }
      destruct (IH (n / 16) (hex_digit (n mod 16) :: acc) Hq) as (pre & E & Hv & Hz & Hnzp).
      assert (Hd : n mod 16 < 16) by lia.
      destruct (nibble_hex_digit _ Hd) as [Nib Nz].
      exists (pre ++ [hex_digit (n mod 16)]). split; [|split; [|split]].
      * rewrite E. now rewrite <- app_assoc.
      * intros a. rewrite nibbles_acc_app, Hv. cbn [nibbles_acc]. rewrite Nib. f_equal.
        rewrite lenN_app. change (lenN [hex_digit (n mod 16)]) with 1.
        rewrite N.pow_add_r. change (16 ^ 1) with 16. lia.
      * intros; lia.
      * intros _. rewrite lenN_app. change (lenN [hex_digit (n mod 16)]) with 1.
        destruct (N.eqb_spec (n / 16) 0) as [Q0|Q0].
        -- rewrite (Hz Q0). cbn [app]. split.
           ++ exists (hex_digit (n mod 16)), []. split; [reflexivity|]. apply Nz. lia.
           ++ change (lenN (@nil byte) + 1 - 1) with 0. cbn. lia.
        -- destruct (Hnzp Q0) as ((h & t & -> & Hh) & Hb). split.
           ++ exists h, (t ++ [hex_digit (n mod 16)]). split; [reflexivity|assumption].
           ++ rewrite lenN_cons in *. replace (1 + lenN t + 1 - 1) with (N.succ (1 + lenN t - 1)) by lia.
              rewrite N.pow_succ_r'. lia.
Qed.

Theorem quantity_roundtrip maxlen n :
  1 <= maxlen -> n < 16 ^ maxlen -> dec_quantity maxlen (enc_quantity n) = Some n.
Proof.
  intros Hm Hn. unfold enc_quantity. destruct (N.eqb_spec n 0) as [->|Hnz].
  - cbn [dec_quantity]. change (b2n x30 =? 48) with true. change (b2n x78 =? 120) with true. cbn [andb orb].
    change (lenN (@nil byte)) with 0. cbn [N.eqb negb andb]. change (lenN [x30]) with 1.
    destruct (N.ltb_spec maxlen 1); [lia|]. reflexivity.
  - assert (Hsz : n < 2 ^ N.of_nat (N.to_nat (N.size n))).
    { rewrite N2Nat.id. destruct n; [lia|apply N.size_gt]. }
    destruct (hex_digits_fuel_spec _ n [] Hsz) as (pre & E & Hv & _ & Hnzp).
    rewrite E, app_nil_r. destruct (Hnzp Hnz) as ((h & t & -> & Hh) & Hb).
    cbn [dec_quantity]. change (b2n x30 =? 48) with true. change (b2n x78 =? 120) with true. cbn [andb orb].
    destruct (N.eqb_spec (b2n h) 48) as [|_]; [contradiction|]. cbn [andb].
    destruct (N.ltb_spec maxlen (lenN (h :: t))) as [L|L].
    + exfalso. assert (16 ^ maxlen <= 16 ^ (lenN (h :: t) - 1)) by (apply N.pow_le_mono_r; lia). lia.
    + rewrite Hv. f_equal; lia.
Qed.

(* ---------- 8. Transaction.UnmarshalJSON at the member level ---------- *)
Definition set_hash (j : tx_json) (h : jfield) : tx_json :=
  mkTxJson (j_nonce j) (j_price j) (j_gas j) (j_to j) (j_value j) (j_input j) (j_v j) (j_r j) (j_s j) h.

Definition hash_member_ok (h : jfield) : bool :=
  match h with JAbsent => true | JS s => (match dec_fixed 32 s with Some _ => true | None => false end) | JBad => false end.

(* the value of the "hash" member has no influence on the decoded transaction (hence none on
   tx_hash / sighash / sender of it): any two well-formed hash members give the same result *)
Theorem json_hash_member_ignored j h1 h2 :
  hash_member_ok h1 = true -> hash_member_ok h2 = true ->
  tx_of_json (set_hash j h1) = tx_of_json (set_hash j h2).
Proof.
  intros H1 H2. unfold tx_of_json, set_hash. cbn [j_nonce j_price j_gas j_to j_value j_input j_v j_r j_s j_hash].
  unfold hash_member_ok in H1, H2.
  destruct (req_quantity 16 (j_nonce j)), (req_quantity 64 (j_price j)), (req_quantity 16 (j_gas j)),
    (req_quantity 64 (j_value j)), (req_quantity 64 (j_v j)), (req_quantity 64 (j_r j)), (req_quantity 64 (j_s j));
    try reflexivity.
  now rewrite H1, H2.
Qed.

(* what is accepted has all required members, a valid signature range, and decodes member by member *)
Theorem json_accepted_fields j t :
  tx_of_json j = Some t ->
  req_quantity 16 (j_nonce j) = Some (t_nonce t) /\ req_quantity 64 (j_price j) = Some (t_price t) /\
  req_quantity 16 (j_gas j) = Some (t_gas t) /\ req_quantity 64 (j_value j) = Some (t_value t) /\
  req_quantity 64 (j_v j) = Some (t_v t) /\ req_quantity 64 (j_r j) = Some (t_r t) /\
  req_quantity 64 (j_s j) = Some (t_s t) /\
  (exists s, j_input j = JS s /\ dec_hexbytes s = Some (t_data t)) /\
  json_accepts t = true /\ hash_member_ok (j_hash j) = true.
Proof.
  unfold tx_of_json, hash_member_ok.
  destruct (req_quantity 16 (j_nonce j)), (req_quantity 64 (j_price j)), (req_quantity 16 (j_gas j)),
    (req_quantity 64 (j_value j)), (req_quantity 64 (j_v j)), (req_quantity 64 (j_r j)), (req_quantity 64 (j_s j));
    try discriminate.
  destruct (match j_to j with JAbsent => Some None | JS s => option_map Some (dec_fixed 20 s) | JBad => None end) as [to|]; try discriminate.
  destruct (j_input j) as [|s|] eqn:Ei; try discriminate.
  destruct (dec_hexbytes s) as [d|] eqn:Ed; try discriminate.
  destruct (match j_hash j with JAbsent => true | JS s0 => match dec_fixed 32 s0 with Some _ => true | None => false end | JBad => false end) eqn:Eh; try discriminate.
  destruct (json_accepts _) eqn:Ea; try discriminate.
  intros E. injection E as <-. cbn. repeat split; try reflexivity; try assumption. eauto.
Qed.

(* ---------- 9. `fits` from plain size bounds ---------- *)
Lemma enc_len_le k c : lenN c < two64 -> lenN (enc k c) <= lenN c + 9.
Proof.
  intros Hc.
  assert (Hh : forall off, lenN (enc_hdr off (lenN c)) <= 9).
  { intros off. unfold enc_hdr. destruct (N.ltb_spec (lenN c) 56).
    - change (lenN [n2b (off + lenN c)]) with 1. lia.
    - rewrite lenN_cons. pose proof (be_len_bounds (lenN c)). lia. }
  destruct k; cbn [enc].
  - destruct (is_single_low c) eqn:E; [lia|]. rewrite lenN_app. pose proof (Hh 128). lia.
  - rewrite lenN_app. pose proof (Hh 192). lia.
Qed.

Lemma str_fits_len s : lenN s < two64 -> fits (Str s) = true /\ lenN (encode (Str s)) <= lenN s + 9.
Proof.
  intros Hs. split.
  - cbn [fits]. destruct (N.ltb_spec (lenN s) two64); [reflexivity|lia].
  - rewrite encode_Str. now apply enc_len_le.
Qed.

Lemma uint_item_fits n : n < 2 ^ 256 -> fits (uint_item n) = true /\ lenN (encode (uint_item n)) <= 41.
Proof.
  intros Hn. unfold uint_item.
  pose proof (be_of_N_len_le n 32) as L. change (256 ^ 32) with (2 ^ 256) in L. specialize (L Hn).
  assert (lenN (be_of_N n) < two64) by (unfold two64; lia).
  destruct (str_fits_len _ H) as [F Le]. split; [exact F|lia].
Qed.

(* plain bounds: 256-bit numbers, a recipient of at most 20 bytes, less than 4 GiB of data *)
Definition tx_bounded (t : tx) : Prop :=
  t_nonce t < 2 ^ 256 /\ t_price t < 2 ^ 256 /\ t_gas t < 2 ^ 256 /\ t_value t < 2 ^ 256 /\
  t_v t < 2 ^ 256 /\ t_r t < 2 ^ 256 /\ t_s t < 2 ^ 256 /\
  (match t_to t with Some a => lenN a <= 20 | None => True end) /\ lenN (t_data t) < 2 ^ 32.
Definition signer_bounded (sg : signer) : Prop := match sg with EIP155 c => c < 2 ^ 256 | _ => True end.

Lemma fits_list_app l1 l2 : fits_list (l1 ++ l2) = fits_list l1 && fits_list l2.
Proof. unfold fits_list. apply forallb_app. Qed.

Lemma encode_list_app l1 l2 : encode_list (l1 ++ l2) = encode_list l1 ++ encode_list l2.
Proof. unfold encode_list. apply flat_map_app. Qed.

Lemma sig_fields_fits t : tx_bounded t ->
  fits_list (sig_fields t) = true /\ lenN (encode_list (sig_fields t)) <= 4 * 41 + 29 + 2 ^ 32 + 9.
Proof.
  intros (Hn & Hp & Hg & Hv & _ & _ & _ & Hto & Hd).
  destruct (uint_item_fits _ Hn) as [F1 L1], (uint_item_fits _ Hp) as [F2 L2],
           (uint_item_fits _ Hg) as [F3 L3], (uint_item_fits _ Hv) as [F5 L5].
  assert (Hsa : exists sa, to_item (t_to t) = Str sa /\ lenN sa <= 20).
  { destruct (t_to t) as [a|]; [exists a|exists []]; split; try reflexivity; try assumption. cbn. lia. }
  destruct Hsa as (sa & E4 & Hsa).
  assert (Hto' : lenN sa < two64) by (unfold two64; lia).
  destruct (str_fits_len _ Hto') as [F4 L4].
  assert (Hd' : lenN (t_data t) < two64) by (unfold two64; lia).
  destruct (str_fits_len _ Hd') as [F6 L6].
  unfold sig_fields, fits_list. cbn [forallb]. rewrite E4, F1, F2, F3, F4, F5, F6. split; [reflexivity|].
  rewrite !encode_list_cons, !lenN_app. change (lenN (encode_list [])) with 0.
  lia.
Qed.

Theorem tx_bounded_fits sg t :
  tx_bounded t -> signer_bounded sg -> fits (sighash_item sg t) = true /\ fits (tx_item t) = true.
Proof.
  intros B Bs. pose proof (sig_fields_fits t B) as [Ff Lf].
  destruct B as (_ & _ & _ & _ & Hv & Hr & Hs & _ & _).
  assert (Tail : forall a b c, a < 2 ^ 256 -> b < 2 ^ 256 -> c < 2 ^ 256 ->
            fits (Lst (sig_fields t ++ [uint_item a; uint_item b; uint_item c])) = true).
  { intros a b c Ha Hb Hc.
    destruct (uint_item_fits _ Ha) as [F1 L1], (uint_item_fits _ Hb) as [F2 L2], (uint_item_fits _ Hc) as [F3 L3].
    rewrite fits_Lst, fits_list_app, Ff. unfold fits_list at 1. cbn [forallb]. rewrite F1, F2, F3. cbn [andb].
    rewrite encode_list_app, lenN_app, !encode_list_cons, !lenN_app. change (lenN (encode_list [])) with 0.
    destruct (N.ltb_spec (lenN (encode_list (sig_fields t)) +
       (lenN (encode (uint_item a)) + (lenN (encode (uint_item b)) + (lenN (encode (uint_item c)) + 0)))) two64) as [|G];
      [reflexivity|]. unfold two64 in G. lia. }
  split.
  - assert (Z256 : 0 < 2 ^ 256) by (apply N.neq_0_lt_0, N.pow_nonzero; discriminate).
    assert (Plain : fits (Lst (sig_fields t)) = true).
    { rewrite fits_Lst, Ff. destruct (N.ltb_spec (lenN (encode_list (sig_fields t))) two64) as [|G]; [reflexivity|unfold two64 in G; lia]. }
    destruct sg as [| |c]; cbn [sighash_item]; [exact Plain|exact Plain|].
    exact (Tail c 0 0 Bs Z256 Z256).
  - unfold tx_item. now apply Tail.
Qed.

(* the two security statements with plain size bounds in place of `fits` *)
Lemma eff_signer_bounded sg t : signer_bounded sg -> signer_bounded (eff_signer sg t).
Proof. destruct sg as [| |c]; cbn; try tauto. destruct (is_protected_v (t_v t)); cbn; tauto. Qed.

Theorem sighash_injective_bounded H sg1 sg2 t1 t2 :
  to_wf t1 -> to_wf t2 -> tx_bounded t1 -> tx_bounded t2 -> signer_bounded sg1 -> signer_bounded sg2 ->
  sighash H sg1 t1 = sighash H sg2 t2 ->
  (same_signed_fields t1 t2 /\ hash_domain sg1 = hash_domain sg2) \/
  collision H (encode (sighash_item sg1 t1)) (encode (sighash_item sg2 t2)).
Proof.
  intros W1 W2 B1 B2 S1 S2. apply sighash_injective; try assumption.
  - apply (tx_bounded_fits sg1 t1 B1 S1).
  - apply (tx_bounded_fits sg2 t2 B2 S2).
Qed.

Theorem mutation_changes_sender_bounded H ecrecover sg0 t0 sg t a :
  to_wf t0 -> to_wf t -> tx_bounded t0 -> tx_bounded t -> signer_bounded sg0 -> signer_bounded sg ->
  ~ (same_signed_fields t0 t /\ hash_domain sg0 = hash_domain (eff_signer sg t)) ->
  sender_signer H ecrecover sg t = Ok a ->
  (exists h r s v, h <> sighash H sg0 t0 /\ recover_addr H ecrecover h r s v = Ok a) \/
  collision H (encode (sighash_item sg0 t0)) (encode (sighash_item (eff_signer sg t) t)).
Proof.
  intros W0 W B0 B S0 S. apply mutation_changes_sender; try assumption.
  - apply (tx_bounded_fits sg0 t0 B0 S0).
  - apply (tx_bounded_fits _ t B (eff_signer_bounded sg t S)).
Qed.

(* ---------- 10. SignTx succeeds (liveness) when the signing primitive is correct ---------- *)
Lemma secp_n_lt_2_256 : secp_n < 2 ^ 256.
Proof. vm_compute. reflexivity. Qed.

Lemma sig65_parts r s v :
  r < 2 ^ 256 -> s < 2 ^ 256 -> v < 256 ->
  lenN (sig65 r s v) = 65 /\ N_of_be (firstn 32 (sig65 r s v)) = r /\
  N_of_be (firstn 32 (skipn 32 (sig65 r s v))) = s /\ sig_v (sig65 r s v) = v.
Proof.
  intros Hr Hs Hv. unfold sig65, sig_v.
  pose proof (be_fixed_length 32 r) as Lr. pose proof (be_fixed_length 32 s) as Ls.
  split; [|split; [|split]].
  - unfold lenN. rewrite !app_length, Lr, Ls. reflexivity.
  - rewrite firstn_app, Lr, firstn_all2 by lia. cbn [Nat.sub firstn]. rewrite app_nil_r.
    apply N_of_be_fixed. exact Hr.
  - rewrite skipn_app, Lr, skipn_all2 by lia. cbn [Nat.sub skipn app].
    rewrite firstn_app, Ls, firstn_all2 by lia. cbn [Nat.sub firstn]. rewrite app_nil_r.
    apply N_of_be_fixed. exact Hs.
  - rewrite app_nth2 by lia. rewrite Lr. rewrite app_nth2 by (rewrite Ls; lia). rewrite Ls. cbn.
    now apply b2n_n2b.
Qed.

Section SignLive.
  Variable H : bytes -> bytes.
  Variable ecrecover : bytes -> bytes -> option bytes.
  Variable sign : bytes -> bytes -> option bytes.
  Variable pub_addr : bytes -> bytes.

  (* what crypto.Sign is expected to return: [R || S || recid] with R, S in range, S low,
     recovering to the key's address *)
  Definition sign_correct : Prop :=
    forall key h sig, sign key h = Some sig ->
      exists r s v, sig = sig65 r s v /\ v < 2 /\ 1 <= r < secp_n /\ 1 <= s <= secp_half_n /\
        recover_addr H ecrecover h r s v = Ok (pub_addr key).

  Theorem sign_tx_succeeds sg key t sig :
    sign_correct -> sg <> EIP155 0 -> sign key (sighash H sg t) = Some sig ->
    exists t', sign_tx H ecrecover sign pub_addr sg key t = SOk t' /\ same_signed_fields t t' /\
               sender_signer H ecrecover sg t' = Ok (pub_addr key).
  Proof.
    intros SC Hsg Sg. destruct (SC _ _ _ Sg) as (r & s & v & -> & Hv & Hr & Hs & Rec).
    pose proof secp_n_lt_2_256 as N256. pose proof secp_n_odd as Odd.
    assert (Hr256 : r < 2 ^ 256) by lia. assert (Hs256 : s < 2 ^ 256) by lia.
    destruct (sig65_parts r s v Hr256 Hs256 ltac:(lia)) as (L & Er & Es & Ev).
    assert (Val : forall hs, validate_sig v r s hs = true).
    { intros hs. apply validate_spec. repeat split; try lia. }
    unfold SigningModel.sign_tx. rewrite Sg. unfold with_signature, signature_values.
    rewrite L. cbn [N.eqb Pos.eqb negb]. rewrite Er, Es, Ev.
    set (mk := fun vv => mkTx (t_nonce t) (t_price t) (t_gas t) (t_to t) (t_value t) (t_data t) vv r s).
    assert (Same : forall vv, same_signed_fields t (mk vv)) by (intros; unfold same_signed_fields, mk; cbn; tauto).
    assert (SH : forall sg' vv, sighash H sg' (mk vv) = sighash H sg' t).
    { intros sg' vv. unfold SigningModel.sighash. now rewrite <- (same_fields_sighash_item sg' _ _ (Same vv)). }
    assert (Done : forall t', sender_signer H ecrecover sg t' = Ok (pub_addr key) -> same_signed_fields t t' ->
              exists t'', match sender_signer H ecrecover sg t' with
                          | Ok from => if bytes_eqb from (pub_addr key) then SOk t' else SMismatch
                          | Err e => SSenderErr e | Panic => SPanic end = SOk t'' /\ same_signed_fields t t'' /\
                          sender_signer H ecrecover sg t'' = Ok (pub_addr key)).
    { intros t' S' Sm. exists t'. rewrite S', bytes_eqb_refl. auto. }
    destruct sg as [| |c].
    - replace ((v + 27) mod 256) with (27 + v) by lia. apply Done; [|apply Same].
      cbn [SigningModel.sender_signer t_r t_s t_v]. fold (mk (27 + v)).
      rewrite (recover_plain_run H ecrecover _ r s v false Hv (Val false)), SH. exact Rec.
    - replace ((v + 27) mod 256) with (27 + v) by lia. apply Done; [|apply Same].
      cbn [SigningModel.sender_signer t_r t_s t_v]. fold (mk (27 + v)).
      rewrite (recover_plain_run H ecrecover _ r s v true Hv (Val true)), SH. exact Rec.
    - destruct (N.eqb_spec c 0) as [->|Hc]; [contradiction|].
      replace ((v + 35) mod 256 + 2 * c) with (35 + 2 * c + v) by lia. apply Done; [|apply Same].
      fold (mk (35 + 2 * c + v)).
      rewrite (sender_eip155_run H ecrecover c (mk (35 + 2 * c + v)) v Hv eq_refl (Val false)).
      cbn [mk t_r t_s]. rewrite SH. exact Rec.
  Qed.
End SignLive.

(* ---------- 11. whole-transaction JSON round trip at the member level ---------- *)
Lemma hex_pairs_enc b :
  hex_pairs (flat_map (fun c => [hex_digit (b2n c / 16); hex_digit (b2n c mod 16)]) b) = Some b.
Proof.
  induction b as [|c b IH]; [reflexivity|].
  cbn [flat_map app hex_pairs]. pose proof (b2n_lt c) as L.
  destruct (nibble_hex_digit (b2n c / 16) ltac:(lia)) as [N1 _].
  destruct (nibble_hex_digit (b2n c mod 16) ltac:(lia)) as [N2 _].
  rewrite N1, N2, IH. replace (16 * (b2n c / 16) + b2n c mod 16) with (b2n c) by lia.
  now rewrite n2b_b2n.
Qed.

Lemma dec_enc_hexbytes b : dec_hexbytes (enc_hexbytes b) = Some b.
Proof. unfold dec_hexbytes, enc_hexbytes. change (b2n x30 =? 48) with true. change (b2n x78 =? 120) with true. cbn [andb orb]. apply hex_pairs_enc. Qed.

Lemma dec_fixed_enc w b : lenN b = w -> dec_fixed w (enc_hexbytes b) = Some b.
Proof. intros L. unfold dec_fixed. rewrite dec_enc_hexbytes, L, N.eqb_refl. reflexivity. Qed.

(* MarshalJSON then UnmarshalJSON returns the same transaction (so the same hash and sender),
   for every transaction UnmarshalJSON's own signature check accepts, with 64-bit nonce / gas and
   256-bit amounts (hexutil.Big's limit) *)
Theorem json_roundtrip t h :
  t_nonce t < 2 ^ 64 -> t_gas t < 2 ^ 64 ->
  t_price t < 2 ^ 256 -> t_value t < 2 ^ 256 -> t_v t < 2 ^ 256 -> t_r t < 2 ^ 256 -> t_s t < 2 ^ 256 ->
  (match t_to t with Some a => lenN a = 20 | None => True end) -> lenN h = 32 ->
  json_accepts t = true ->
  tx_of_json (json_of_tx t h) = Some t.
Proof.
  intros Hn Hg Hp Hv Hsv Hsr Hss Hto Hh Acc.
  unfold tx_of_json, json_of_tx, req_quantity.
  cbn [j_nonce j_price j_gas j_to j_value j_input j_v j_r j_s j_hash].
  rewrite !(quantity_roundtrip 16) by (try lia; change (16 ^ 16) with (2 ^ 64); assumption).
  rewrite !(quantity_roundtrip 64) by (try lia; change (16 ^ 64) with (2 ^ 256); assumption).
  rewrite dec_enc_hexbytes, (dec_fixed_enc 32 h Hh).
  assert (T : match match t_to t with Some a => JS (enc_hexbytes a) | None => JAbsent end with
              | JAbsent => Some None | JS s => option_map Some (dec_fixed 20 s) | JBad => None end = Some (t_to t)).
  { destruct (t_to t) as [a|]; [|reflexivity]. now rewrite (dec_fixed_enc 20 a Hto). }
  rewrite T. replace (mkTx (t_nonce t) (t_price t) (t_gas t) (t_to t) (t_value t) (t_data t) (t_v t) (t_r t) (t_s t)) with t by now destruct t.
  now rewrite Acc.
Qed.

(* ---------- 12. one RLP encoding per transaction ---------- *)
Lemma item_to_uint_inv bits x n : item_to_uint bits x = Some n -> x = uint_item n.
Proof.
  destruct x as [s|l]; cbn [item_to_uint]; [|discriminate].
  destruct (no_lead0 s) eqn:NL; cbn [andb]; [|discriminate].
  destruct ((bits =? 0) || (lenN s * 8 <=? bits)); [|discriminate].
  intros E. injection E as <-. unfold uint_item. now rewrite be_of_N_of_be.
Qed.

Lemma item_to_addr_inv x o : item_to_addr x = Some o -> x = to_item o.
Proof.
  destruct x as [s|l]; cbn [item_to_addr]; [|discriminate].
  destruct s as [|c s]; [intros E; injection E as <-; reflexivity|].
  destruct (lenN (c :: s) =? 20); [|discriminate]. intros E. injection E as <-. reflexivity.
Qed.

(* whatever decodes as a transaction is exactly that transaction's canonical encoding: two
   different byte strings never decode to the same transaction, and tx_hash t = H b *)
Theorem decode_tx_canonical b t : decode_tx b = Some t -> b = encode_tx t.
Proof.
  unfold decode_tx, encode_tx. destruct (decode_exact b) as [x|] eqn:D; [|discriminate].
  apply decode_exact_canonical in D. intros T. rewrite D. f_equal.
  destruct x as [s|l]; [discriminate|]. cbn [tx_of_item] in T.
  destruct l as [|n [|p [|g [|to [|v [|d [|sv [|sr [|ss [|extra l]]]]]]]]]]; try discriminate.
  destruct (item_to_uint 64 n) eqn:E1; [|discriminate].
  destruct (item_to_uint 0 p) eqn:E2; [|discriminate].
  destruct (item_to_uint 64 g) eqn:E3; [|discriminate].
  destruct (item_to_addr to) eqn:E4; [|discriminate].
  destruct (item_to_uint 0 v) eqn:E5; [|discriminate].
  destruct (item_to_bytes d) eqn:E6; [|discriminate].
  destruct (item_to_uint 0 sv) eqn:E7; [|discriminate].
  destruct (item_to_uint 0 sr) eqn:E8; [|discriminate].
  destruct (item_to_uint 0 ss) eqn:E9; [|discriminate].
  injection T as <-. unfold tx_item, sig_fields. cbn [app t_nonce t_price t_gas t_to t_value t_data t_v t_r t_s].
  apply item_to_uint_inv in E1, E2, E3, E5, E7, E8, E9. apply item_to_addr_inv in E4.
  destruct d as [ds|]; [|discriminate]. cbn in E6. injection E6 as <-. now subst.
Qed.

(* ---------- 13. the sender cache under sequences and interleavings of callers ---------- *)
Section CacheSeq.
  Variable H : bytes -> bytes.
  Variable ecrecover : bytes -> bytes -> option bytes.
  Notation sender_signer := (sender_signer H ecrecover).

  (* any number of Sender calls with any signers, in any order, on one object: every answer is what
     the signer passed computes from the fields; the cache stays valid *)
  Theorem sender_seq_sound : forall sgs t c,
    cache_valid H ecrecover t c ->
    fst (sender_seq H ecrecover t c sgs) = map (fun sg => sender_signer sg t) sgs /\
    cache_valid H ecrecover t (snd (sender_seq H ecrecover t c sgs)).
  Proof.
    induction sgs as [|sg rest IH]; intros t c V; [split; [reflexivity|exact V]|].
    cbn [sender_seq map]. destruct (sender_cached H ecrecover sg t c) as [r c1] eqn:E.
    destruct (cache_sound H ecrecover sg t c r c1 V E) as [-> V1].
    destruct (sender_seq H ecrecover t c1 rest) as [rs c2] eqn:E2.
    specialize (IH t c1 V1). rewrite E2 in IH. cbn [fst snd] in *. destruct IH as [-> V2]. split; [reflexivity|exact V2].
  Qed.

  (* concurrent callers: Load and Store are separate atomic events.  A hit is sound for a valid cache;
     storing a pair some caller computed keeps the cache valid - so under every interleaving of the
     Loads and Stores of any set of callers every answer (hit or computed) is the signer's own *)
  Theorem cache_hit_sound t c sg a :
    cache_valid H ecrecover t c -> cache_load c sg = Some a -> sender_signer sg t = Ok a.
  Proof.
    unfold cache_load, cache_valid. destruct c as [[sg' a']|]; [|discriminate].
    destruct (signer_equal sg' sg) eqn:Eq; [|discriminate]. apply signer_equal_eq in Eq. subst.
    intros V E. injection E as <-. exact V.
  Qed.

  Theorem interleaved_stores_valid t : forall (stores : list (signer * bytes)) c,
    cache_valid H ecrecover t c ->
    Forall (fun p => sender_signer (fst p) t = Ok (snd p)) stores ->
    cache_valid H ecrecover t (fold_left cache_store stores c).
  Proof.
    induction stores as [|[sg a] rest IH]; intros c V F; [exact V|].
    inversion F as [|? ? Hp Fr]; subst. cbn [fold_left]. apply IH; [|exact Fr]. exact Hp.
  Qed.

  (* WithSignature: the copy's cache is empty, hence valid for the NEW fields; every later answer on the
     copy is computed from the copy's own signature, whatever the original had cached *)
  Theorem with_signature_fresh_cache sg o sig t' c' sgs :
    with_signature_obj sg o sig = Ok (t', c') ->
    c' = None /\ fst (sender_seq H ecrecover t' c' sgs) = map (fun s => sender_signer s t') sgs.
  Proof.
    unfold with_signature_obj. destruct (with_signature sg (fst o) sig) as [t1| |]; try discriminate.
    intros E. injection E as <- <-. split; [reflexivity|]. apply sender_seq_sound. exact I.
  Qed.

  (* ---------- 14. the two entrances: RLP (no signature checks) and JSON (range check, no low-S check) ---------- *)
  Inductive entrance := EntRLP (b : bytes) | EntJSON (j : tx_json).
  Definition enter (e : entrance) : option tx :=
    match e with EntRLP b => decode_tx b | EntJSON j => tx_of_json j end.

  (* whatever entrance a transaction came through, an attributed sender is the address recovered from a
     signature in range over exactly the hash of the chain domain that applies (and low-S where Homestead
     rules apply): nothing an entrance lets through can be attributed otherwise *)
  Theorem entrance_sender_sound e t sg a :
    enter e = Some t -> sender_signer sg t = Ok a ->
    exists v, v < 2 /\ t_v t = v_of (eff_signer sg t) v /\
      1 <= t_r t < secp_n /\ 1 <= t_s t < secp_n /\
      (enforces_low_s (eff_signer sg t) = true -> t_s t <= secp_half_n) /\
      recover_addr H ecrecover (sighash H (eff_signer sg t) t) (t_r t) (t_s t) v = Ok a.
  Proof.
    intros _ S. destruct (sender_ok_inv H ecrecover sg t a S) as (v & Hv & Ev & Val & R).
    apply validate_spec in Val. destruct Val as (_ & Hr & Hs & Hl). exists v. repeat split; try assumption; try lia.
  Qed.

  (* what the JSON entrance refuses and the RLP entrance admits: out-of-range R, S and V bytes other
     than 27/28 (or 35+2c+{0,1}); neither refuses S > N/2 *)
  Theorem json_entrance_admits j t :
    enter (EntJSON j) = Some t -> validate_sig (json_v_byte (t_v t)) (t_r t) (t_s t) false = true.
  Proof. cbn [enter]. intros E. apply json_accepted_fields in E. unfold json_accepts in E. tauto. Qed.

  Theorem rlp_entrance_admits_everything t :
    tx_rlp_wf t -> enter (EntRLP (encode_tx t)) = Some t.
  Proof. apply decode_encode_tx. Qed.
End CacheSeq.

(* ---------- 15. chain ids of any size: nothing is narrowed ---------- *)
Section WideChains.
  Variable H : bytes -> bytes.
  Variable ecrecover : bytes -> bytes -> option bytes.

  (* chain ids are unbounded naturals in the model; two different ones - however large, however
     congruent modulo 2^32 or 2^64 - never share a signing hash, short of an H collision *)
  Theorem sighash_differs_across_chains c1 c2 t :
    c1 <> c2 -> to_wf t ->
    fits (sighash_item (EIP155 c1) t) = true -> fits (sighash_item (EIP155 c2) t) = true ->
    sighash H (EIP155 c1) t = sighash H (EIP155 c2) t ->
    collision H (encode (sighash_item (EIP155 c1) t)) (encode (sighash_item (EIP155 c2) t)).
  Proof.
    intros Ne W F1 F2 E. destruct (sighash_injective H _ _ _ _ W W F1 F2 E) as [[_ D]|C]; [|exact C].
    cbn in D. injection D as D. contradiction.
  Qed.

  (* cross-chain replay, V rewritten or not: if t2 carries the signed fields of t1 (signed for chain c1)
     and is attributed to a under the EIP-155 signer of another chain c2, then a signature recovering to
     a exists on a hash other than the one signed for c1 - or H collides.  No bound on c1, c2. *)
  Theorem cross_chain_replay c1 c2 t1 t2 a :
    c1 <> c2 -> to_wf t1 -> to_wf t2 ->
    fits (sighash_item (EIP155 c1) t1) = true -> fits (sighash_item (EIP155 c2) t2) = true ->
    is_protected_v (t_v t2) = true ->
    sender_signer H ecrecover (EIP155 c2) t2 = Ok a ->
    (exists h r s v, h <> sighash H (EIP155 c1) t1 /\ recover_addr H ecrecover h r s v = Ok a) \/
    collision H (encode (sighash_item (EIP155 c1) t1)) (encode (sighash_item (EIP155 c2) t2)).
  Proof.
    intros Ne W1 W2 F1 F2 P S.
    assert (Eff : eff_signer (EIP155 c2) t2 = EIP155 c2) by (cbn; now rewrite P).
    pose proof (mutation_changes_sender H ecrecover (EIP155 c1) t1 (EIP155 c2) t2 a W1 W2 F1) as M.
    rewrite Eff in M. apply M; try assumption.
    intros [_ D]. cbn in D. injection D as D. contradiction.
  Qed.
End WideChains.
