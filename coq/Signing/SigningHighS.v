(* Signing/SigningHighS.v — "high-S signatures are rejected" (property C12) at full
   strength with its exact carve-out, and the refutation of the uncarved clause. *)
From AQ Require Import Lib.Bytes Lib.Keccak Signing.SigningModel Signing.SigningProofs.
Local Open Scope N_scope.
Set Default Timeout 60.

(* the only signers that attribute a sender to a transaction with S > N/2:
   FrontierSigner (no low-S rule, by specification) and EIP155Signer on a
   replay-protected V (recoverPlain called with homestead=false: the finding) *)
Definition high_s_carve_out (sg : signer) (t : tx) : Prop :=
  sg = Frontier \/ exists c, sg = EIP155 c /\ is_protected_v (t_v t) = true.

Lemma enforces_low_s_outside sg t :
  ~ high_s_carve_out sg t -> enforces_low_s (eff_signer sg t) = true.
Proof.
  unfold high_s_carve_out. intros N. destruct sg as [| |c]; cbn.
  - exfalso. apply N. now left.
  - reflexivity.
  - destruct (is_protected_v (t_v t)) eqn:P; [|reflexivity].
    exfalso. apply N. right. exists c. split; reflexivity.
Qed.

Theorem high_s_rejected_full H ecrecover sg t a :
  ~ high_s_carve_out sg t -> secp_half_n < t_s t -> sender_signer H ecrecover sg t <> Ok a.
Proof. intros N. apply high_s_rejected. now apply enforces_low_s_outside. Qed.

(* equivalently: an accepted high-S transaction lies in the carve-out *)
Theorem high_s_accepted_only_in_carve_out H ecrecover sg t a :
  sender_signer H ecrecover sg t = Ok a -> secp_half_n < t_s t ->
  sg = Frontier \/ exists c, sg = EIP155 c /\ is_protected_v (t_v t) = true.
Proof.
  intros S Hs. destruct sg as [| |c].
  - now left.
  - exfalso. eapply (high_s_rejected H ecrecover Homestead t a); [reflexivity|exact Hs|exact S].
  - destruct (is_protected_v (t_v t)) eqn:P.
    + right. exists c. split; reflexivity.
    + exfalso. eapply (high_s_rejected H ecrecover (EIP155 c) t a); [cbn; now rewrite P|exact Hs|exact S].
Qed.

(* the uncarved clause (every signer but Frontier rejects S > N/2) is false of the code *)
Theorem high_s_rejected_refuted :
  ~ (forall H ecrecover (sg : signer) (t : tx) (a : bytes),
       sg <> Frontier -> secp_half_n < t_s t -> sender_signer H ecrecover sg t <> Ok a).
Proof.
  intros All. destruct eip155_high_s_witness as (S & _ & Hs).
  exact (All keccak256 (table_ecrecover w_table) (EIP155 3) w_tx w_sender ltac:(discriminate) Hs S).
Qed.
