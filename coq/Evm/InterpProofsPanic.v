(* Evm/InterpProofsPanic.v — C07 "never crashes", the part that is proved: in one iteration of the loop of
   Interpreter.Run nothing before operation.execute can panic (table lookup, validateStack,
   enforceRestrictions, the memorySize function, the overflow checks, the gas function: every stack index
   they read is covered by the arity validateStack checked, on the regenerated tables).  A Go panic of an
   iteration can therefore only come out of the execute function (or a frame below it). *)
From Coq Require Import ZArith List Bool String Lia ZifyBool ZifyNat.
From AQ Require Import Lib.Bytes Evm.OpsModel Evm.OpsProofsGas Evm.Interp Evm.InterpProofs.
Import ListNotations.
Local Open Scope Z_scope.
Set Default Timeout 300.

(* the deepest stack index (+1) a memorySize / gas function reads *)
Definition need_mem (m : memfn) : Z :=
  match m with
  | M_none => 0 | M_sha3 | M_return | M_revert | M_log => 2 | M_calldatacopy | M_returndatacopy | M_codecopy => 3
  | M_extcodecopy => 4 | M_mload | M_mstore | M_mstore8 => 1 | M_create => 3 | M_call => 7
  | M_delegatecall | M_staticcall => 6 | M_unknown => 2000
  end.
Definition need_gas (g : gasfn) : Z :=
  match g with
  | G_exp | G_sha3 | G_log _ => 2 | G_calldatacopy | G_codecopy | G_returndatacopy => 3 | G_extcodecopy => 4
  | G_sstore => 2 | G_suicide => 1 | G_call | G_callcode => 3 | G_delegatecall | G_staticcall => 1
  | G_unknown => 2000 | _ => 0
  end.
Definition arity_ok (c : cop) : bool :=
  negb (c_valid c) || ((need_mem (c_mem c) <=? c_pops c) && (need_gas (c_gas c) <=? c_pops c) && (c_pops c <=? 17)).
Lemma tables_arity_ok : forall s, forallb arity_ok (ctbl_of s) = true.
Proof. intros []; vm_compute; reflexivity. Qed.
Lemma nth_arity_ok : forall s n, arity_ok (nth n (ctbl_of s) invalid_cop) = true.
Proof.
  intros s n. destruct (nth_in_or_default n (ctbl_of s) invalid_cop) as [Hin | Hd].
  - pose proof (tables_arity_ok s) as H. rewrite forallb_forall in H. apply H, Hin.
  - rewrite Hd. reflexivity.
Qed.

Lemma back_some : forall st n, Z.of_nat n < blen st -> exists v, back st n = Some v.
Proof.
  intros st n H. unfold back. destruct (nth_error st n) eqn:E; [eauto|].
  apply nth_error_None in E. unfold blen in H. lia.
Qed.

Ltac have_back st n H :=
  let v := fresh "v" in let Hv := fresh "Hv" in
  destruct (back_some st n) as [v Hv]; [cbn; lia|]; rewrite Hv in *.

Lemma mem_size_big_some : forall m st, need_mem m <= blen st -> need_mem m < 2000 -> mem_size_big m st <> None.
Proof.
  intros m st H Hk. destruct m; cbn [need_mem] in *; cbn [mem_size_big]; try discriminate; try lia;
    repeat match goal with
    | |- context[back st ?n] => let v := fresh "v" in let Hv := fresh "Hv" in
                                 destruct (back_some st n) as [v Hv]; [cbn; lia|]; rewrite Hv
    end; discriminate.
Qed.

Lemma memoryGasCost_no_panic : forall a b c, memoryGasCost a b c <> Panic.
Proof. intros. unfold memoryGasCost. repeat match goal with |- context[if ?b then _ else _] => destruct b end; discriminate. Qed.
Lemma gas_mem_words_no_panic : forall base pw ml la ms len, gas_mem_words base pw ml la ms len <> Panic.
Proof.
  intros. unfold gas_mem_words. pose proof (memoryGasCost_no_panic ml la ms).
  destruct (memoryGasCost ml la ms) as [[? ?]|?|]; try congruence; try discriminate.
  repeat match goal with
  | |- context[let '(_, _) := ?t in _] => destruct t
  | |- context[if ?b then _ else _] => destruct b
  end; discriminate.
Qed.
Lemma gas_mem_base_no_panic : forall base ml la ms, gas_mem_base base ml la ms <> Panic.
Proof.
  intros. unfold gas_mem_base. pose proof (memoryGasCost_no_panic ml la ms).
  destruct (memoryGasCost ml la ms) as [[? ?]|?|]; try congruence; try discriminate.
  destruct (SafeAdd _ _) as [? []]; discriminate.
Qed.
Lemma gasLog_no_panic : forall n ml la ms rq, gasLog n ml la ms rq <> Panic.
Proof.
  intros. unfold gasLog. pose proof (memoryGasCost_no_panic ml la ms).
  destruct (bigUint64 rq) as [? []]; try discriminate.
  destruct (memoryGasCost ml la ms) as [[? ?]|?|]; try congruence; try discriminate.
  repeat match goal with
  | |- context[let '(_, _) := ?t in _] => destruct t
  | |- context[if ?b then _ else _] => destruct b
  end; discriminate.
Qed.
Lemma gasExp_no_panic : forall gt x, gasExp gt x <> Panic.
Proof. intros. unfold gasExp. destruct (SafeAdd _ _) as [? []]; discriminate. Qed.
Lemma callGas_no_panic : forall gt a b c, callGas gt a b c <> Panic.
Proof. intros. unfold callGas. repeat match goal with |- context[if ?b then _ else _] => destruct b end; discriminate. Qed.
Lemma call_gas_tail_no_panic : forall e w a g l c, call_gas_tail e w a g l c <> Panic.
Proof.
  intros. unfold call_gas_tail. pose proof (callGas_no_panic (ig_base (e_gt e)) a g c).
  destruct (callGas _ _ _ _); try congruence; try discriminate. destruct (SafeAdd _ _) as [? []]; discriminate.
Qed.
Lemma lift_pair_no_panic : forall w r, r <> Panic -> lift_pair w r <> Panic.
Proof. intros w [[? ?]|?|] H; try discriminate. congruence. Qed.

Lemma gas_cost_no_panic : forall e w fr g ms, need_gas g <= blen (f_stack fr) -> need_gas g < 2000 ->
  gas_cost e w fr g ms <> Panic.
Proof.
  intros e w fr g ms H Hk. set (st := f_stack fr) in *.
  destruct g; cbn [need_gas] in *; cbn [gas_cost]; fold st; try discriminate; try lia;
    repeat match goal with
    | |- context[back st ?n] => let v := fresh "v" in let Hv := fresh "Hv" in
                                 destruct (back_some st n) as [v Hv]; [cbn; lia|]; rewrite Hv
    end;
    try (apply lift_pair_no_panic;
         first [apply gas_mem_words_no_panic | apply gas_mem_base_no_panic | apply gasLog_no_panic | apply memoryGasCost_no_panic]).
  - pose proof (gasExp_no_panic (ig_base (e_gt e)) v). destruct (gasExp _ _); try congruence; discriminate.
  - repeat match goal with |- context[if ?b then _ else _] => destruct b end; discriminate.
  - pose proof (memoryGasCost_no_panic (blen (f_mem fr)) (f_last fr) ms).
    destruct (memoryGasCost _ _ _) as [[? ?]|?|]; try congruence; try discriminate.
    destruct (SafeAdd _ _) as [? []]; try discriminate. apply call_gas_tail_no_panic.
  - pose proof (memoryGasCost_no_panic (blen (f_mem fr)) (f_last fr) ms).
    destruct (memoryGasCost _ _ _) as [[? ?]|?|]; try congruence; try discriminate.
    destruct (SafeAdd _ _) as [? []]; try discriminate. apply call_gas_tail_no_panic.
  - pose proof (memoryGasCost_no_panic (blen (f_mem fr)) (f_last fr) ms).
    destruct (memoryGasCost _ _ _) as [[? ?]|?|]; try congruence; try discriminate.
    destruct (SafeAdd _ _) as [? []]; try discriminate. apply call_gas_tail_no_panic.
  - pose proof (memoryGasCost_no_panic (blen (f_mem fr)) (f_last fr) ms).
    destruct (memoryGasCost _ _ _) as [[? ?]|?|]; try congruence; try discriminate.
    destruct (SafeAdd _ _) as [? []]; try discriminate. apply call_gas_tail_no_panic.
  - discriminate.
Qed.

Theorem step_panics_only_in_execute : forall rec e w fr o, wf_env e ->
  (forall w1 fr1 x temp, exec rec e w1 fr1 x temp <> X_panic) ->
  step rec e w fr = S_done o -> o_res o <> R_panic.
Proof.
  intros rec e w fr o Hwf Hexec H. unfold step in H.
  set (op := get_op (f_code fr) (f_pc fr)) in *.
  set (c := nth (Z.to_nat op) (e_tbl e) invalid_cop) in *.
  destruct (wf_tbl e Hwf) as [s Hs].
  assert (Har : arity_ok c = true) by (subst c; rewrite Hs; apply nth_arity_ok).
  destruct (negb (c_valid c)) eqn:Hv; [injection H as <-; discriminate|].
  unfold arity_ok in Har. rewrite Hv in Har. cbn [orb] in Har. apply andb_prop in Har as [Har Hp17]. apply andb_prop in Har as [Ham Hag].
  destruct (validateStack _ _ _) as [[]|?|] eqn:Hvs; [|injection H as <-; discriminate|].
  2: { exfalso. unfold validateStack in Hvs. repeat match type of Hvs with context[if ?b then _ else _] => destruct b end; discriminate. }
  apply validateStack_spec in Hvs. destruct Hvs as [Hpops _].
  destruct (restricted e fr op c); [injection H as <-; discriminate|].
  pose proof (mem_size_big_some (c_mem c) (f_stack fr) ltac:(lia)) as Hmsb.
  assert (Hmk : need_mem (c_mem c) < 2000).
  { destruct (c_mem c); cbn [need_mem] in *; lia. }
  specialize (Hmsb Hmk).
  destruct (mem_size_big _ _) as [msb|]; [|congruence].
  destruct (match msb with Some b => run_memorySize b | None => Ok 0 end) as [ms|?|] eqn:Hms; [|injection H as <-; discriminate|].
  2: { exfalso. destruct msb as [b|]; [|discriminate]. unfold run_memorySize in Hms.
       destruct (bigUint64 b) as [? []]; try discriminate. destruct (SafeMul _ _) as [? []]; discriminate. }
  assert (Hgk : need_gas (c_gas c) < 2000).
  { destruct (c_gas c); cbn [need_gas] in *; lia. }
  pose proof (gas_cost_no_panic e w fr (c_gas c) ms ltac:(lia) Hgk) as Hgnp.
  destruct (gas_cost e w fr (c_gas c) ms) as [g|?|]; [|injection H as <-; discriminate|congruence].
  destruct (f_gas fr <? g_cost g); [injection H as <-; discriminate|].
  match type of H with context[exec rec e (g_world g) ?f1 ?x (g_temp g)] => pose proof (Hexec (g_world g) f1 x (g_temp g)) as Hx; destruct (exec rec e (g_world g) f1 x (g_temp g)) end;
    try congruence; try (injection H as <-; discriminate).
  repeat match type of H with context[if ?b then _ else _] => destruct b end; try discriminate; injection H as <-; discriminate.
Qed.
