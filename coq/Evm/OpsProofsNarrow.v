(* Evm/OpsProofsNarrow.v — the narrowing of a 256-bit stack word to a machine
   word (x.Uint64(), x.Int64()) in the instruction model is harmless because of
   the guards in front of it: operands with bits above 64 behave as the
   specification says. *)
From Coq Require Import ZArith List Bool Lia ZifyBool.
From AQ Require Import Evm.OpsModel Evm.OpsSpec Evm.OpsProofsArith.
Import ListNotations.
Local Open Scope Z_scope.

(* ------------------------------------------------------------ the primitive *)

Theorem narrow_id : forall x, 0 <= x < two64 -> big_Uint64 x = x.
Proof. exact big_Uint64_small. Qed.

(* narrowing forgets everything above bit 64: this is exactly what a missing
   guard would expose *)
Theorem narrow_high_bits_differ : forall k r, 0 < k -> 0 <= r < two64 ->
  big_Uint64 (k * two64 + r) = r.
Proof.
  intros k r Hk Hr. pose proof two64_eq as E.
  unfold big_Uint64, wrap64. rewrite Z.abs_eq by nia.
  rewrite Z.add_comm. rewrite Z.mod_add by lia. apply Z.mod_small. assumption.
Qed.

(* an operand with a bit above 64 is at least 2^64 *)
Lemma high_ge k r : 0 < k -> 0 <= r -> two64 <= k * two64 + r.
Proof. intros. pose proof two64_eq. nia. Qed.

(* ------------------------------------------------------------ BLOCKHASH *)

(* inside the range num < number < 2^64 so big_Uint64 num = num *)
Theorem op_BLOCKHASH_spec : forall getHash number num, 0 <= number < two64 -> word num ->
  op_BLOCKHASH getHash number num = spec_BLOCKHASH getHash number num.
Proof.
  intros getHash number num Hn Hw. unfold op_BLOCKHASH, spec_BLOCKHASH. unfold word in Hw.
  destruct (Z.gtb_spec num (number - 257)); destruct (Z.leb_spec (number - 256) num); try lia;
  cbn [andb]; [|reflexivity].
  destruct (Z.ltb_spec num number); [|reflexivity].
  rewrite big_Uint64_small by lia. reflexivity.
Qed.

Theorem op_BLOCKHASH_high_bits : forall getHash number k r,
  0 <= number < two64 -> 0 < k -> 0 <= r -> word (k * two64 + r) ->
  op_BLOCKHASH getHash number (k * two64 + r) = 0.
Proof.
  intros getHash number k r Hn Hk Hr Hw. pose proof (high_ge k r Hk Hr).
  unfold op_BLOCKHASH.
  destruct (Z.ltb_spec (k * two64 + r) number); [lia|].
  rewrite andb_false_r. reflexivity.
Qed.

(* ------------------------------------------------------------ BYTE, shifts, SIGNEXTEND *)

Theorem op_BYTE_high_bits : forall k r v, 0 < k -> 0 <= r -> word (k * two64 + r) -> word v ->
  op_BYTE (k * two64 + r) v = 0.
Proof.
  intros k r v Hk Hr Hw Hv. pose proof (high_ge k r Hk Hr). pose proof two64_eq.
  unfold op_BYTE. destruct (Z.ltb_spec (k * two64 + r) 32); [lia|reflexivity].
Qed.

Theorem op_SHL_high_bits : forall k r v, 0 < k -> 0 <= r -> word (k * two64 + r) -> word v ->
  op_SHL (k * two64 + r) v = 0.
Proof.
  intros k r v Hk Hr Hw Hv. pose proof (high_ge k r Hk Hr). pose proof two64_eq.
  unfold op_SHL. rewrite (U256_small (k * two64 + r)) by assumption.
  destruct (Z.geb_spec (k * two64 + r) 256); [reflexivity|lia].
Qed.

Theorem op_SHR_high_bits : forall k r v, 0 < k -> 0 <= r -> word (k * two64 + r) -> word v ->
  op_SHR (k * two64 + r) v = 0.
Proof.
  intros k r v Hk Hr Hw Hv. pose proof (high_ge k r Hk Hr). pose proof two64_eq.
  unfold op_SHR. rewrite (U256_small (k * two64 + r)) by assumption.
  destruct (Z.geb_spec (k * two64 + r) 256); [reflexivity|lia].
Qed.

Theorem op_SIGNEXTEND_high_bits : forall k r v, 0 < k -> 0 <= r -> word (k * two64 + r) -> word v ->
  op_SIGNEXTEND (k * two64 + r) v = v.
Proof.
  intros k r v Hk Hr Hw Hv. pose proof (high_ge k r Hk Hr). pose proof two64_eq.
  unfold op_SIGNEXTEND. destruct (Z.ltb_spec (k * two64 + r) 31); [lia|reflexivity].
Qed.

(* ------------------------------------------------------------ memoryCall *)

Lemma sgn_eqb_0 l : (Z.sgn l =? 0) = (l =? 0).
Proof. destruct l; reflexivity. Qed.

Theorem memoryCall_spec : forall inOff inSize retOff retSize,
  word inOff -> word inSize -> word retOff -> word retSize ->
  memoryCall inOff inSize retOff retSize =
  Z.max (if retSize =? 0 then 0 else retOff + retSize) (if inSize =? 0 then 0 else inOff + inSize).
Proof.
  intros inOff inSize retOff retSize _ _ _ _. unfold memoryCall, calcMemSize.
  rewrite !sgn_eqb_0.
  set (x := if retSize =? 0 then 0 else retOff + retSize).
  set (y := if inSize =? 0 then 0 else inOff + inSize).
  destruct (Z.ltb_spec x y); lia.
Qed.
