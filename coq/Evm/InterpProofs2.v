(* Evm/InterpProofs2.v — the invariant of the interpreter loop of Evm/Interp.v (C07): gas never
   grows and strictly decreases on every non-halting step, a child frame gets strictly less gas than
   its parent had, no frame runs deeper than CallCreateDepth+1 (evm.depth; Yellow-Paper depth
   CallCreateDepth), and fuel above the gas is never exhausted (termination). *)
From Coq Require Import ZArith List Bool String Lia ZifyBool.
From AQ Require Import Lib.Bytes Evm.OpsModel Evm.OpsProofsGas Evm.Interp Evm.InterpProofs.
Import ListNotations.
Local Open Scope Z_scope.
Set Default Timeout 120.

Definition DMAX : Z := CallCreateDepth + 1.
Definition tr_ok (tr : list tentry) : Prop := Forall (fun t => 1 <= t_depth t <= DMAX) tr.

(* what is known of an outcome that was given [gas]: gas bounded, no fuel exhaustion below the
   bound B, the trace only has entries of admissible depth *)
Definition out_good (o : outcome) (gas B : Z) (tr0 : list tentry) : Prop :=
  0 <= o_gas o <= gas /\ (gas < B -> o_res o <> R_fuel) /\ (tr_ok tr0 -> tr_ok (o_trace o)).

Definition rec_good (rec : interp_t) (B : Z) : Prop :=
  forall w fr, 0 <= f_gas fr -> 1 <= f_depth fr <= DMAX -> out_good (rec w fr) (f_gas fr) B (f_trace fr).

Ltac og := unfold out_good; cbn; repeat split; intros; try lia; auto; try discriminate.

Lemma precompile_gas_nonneg : forall a input og, 0 <= precompile_gas a input og.
Proof.
  intros. unfold precompile_gas.
  repeat match goal with |- context[if ?b then _ else _] => destruct b end; try lia; apply wrap64_nonneg.
Qed.

Lemma modexp_gas_nonneg : forall input n, modexp_gas input = Ok n -> 0 <= n.
Proof.
  intros input n H. unfold modexp_gas in H.
  destruct (modexp_header input) as [[[[bl el] ml] rest]|?|]; try discriminate.
  match type of H with match ?x with _ => _ end = _ => destruct x as [eh|?|]; try discriminate end.
  injection H as <-. destruct (BitLen _ >? 64); [rewrite maxU64_val; lia | apply big_Uint64_nonneg].
Qed.

Lemma run_precompile_good : forall e w a input gas rd tr ro B, 0 <= gas ->
  out_good (run_precompile e w a input gas rd tr ro) gas B tr.
Proof.
  intros e w a input gas rd tr ro B Hg. unfold run_precompile.
  destruct (a =? 5).
  - destruct (modexp_gas input) as [need|?|] eqn:Hm; [|og|og].
    apply modexp_gas_nonneg in Hm.
    destruct (gas <? need) eqn:Hlt; [og|]. destruct (modexp_run input); og.
  - unfold out_good.
    destruct (e_precomp e a input) as [[og' result]|]; [|cbn; repeat split; try lia; try discriminate; auto].
    pose proof (precompile_gas_nonneg a input og') as Hn.
    destruct (gas <? precompile_gas a input og') eqn:Hlt; [cbn; repeat split; try lia; try discriminate; auto|].
    destruct (a =? 4); [cbn; repeat split; try lia; try discriminate; auto|].
    destruct result; cbn; repeat split; try lia; try discriminate; auto.
Qed.

Lemma run_contract_good : forall rec e w ca fr rd B, rec_good rec B ->
  0 <= f_gas fr -> 1 <= f_depth fr <= DMAX ->
  out_good (run_contract rec e w ca fr rd) (f_gas fr) B (f_trace fr).
Proof.
  intros rec e w ca fr rd B Hrec Hg Hd. unfold run_contract.
  destruct (is_precompile e ca); [apply run_precompile_good; assumption | apply Hrec; assumption].
Qed.

Lemma finish_call_good : forall snap o gas B tr, out_good o gas B tr -> out_good (finish_call snap o) gas B tr.
Proof.
  intros snap o gas B tr (Hg & Hf & Ht). unfold finish_call, out_good.
  destruct (o_res o) eqn:Hr; cbn [o_gas o_res o_trace]; try rewrite Hr; repeat split; try lia; auto; try discriminate.
Qed.

Lemma mkout_good : forall r gas w rd tr ro B, 0 <= gas -> r <> R_fuel -> out_good (mkout r gas w rd tr ro) gas B tr.
Proof. intros. unfold out_good, mkout. cbn. repeat split; try lia; auto. Qed.

Lemma new_frame_fields : forall code input self caller value gas ro depth tr,
  let fr := new_frame code input self caller value gas ro depth tr in
  f_gas fr = gas /\ f_depth fr = depth /\ f_trace fr = tr.
Proof. intros. cbn. auto. Qed.

Lemma depth_guard : forall depth, 0 <= depth -> (depth >? CallCreateDepth) = false -> 1 <= depth + 1 <= DMAX.
Proof. intros. unfold DMAX. lia. Qed.

Lemma do_call_good : forall rec e w rd tr depth ro caller addr input gas value B,
  rec_good rec B -> 0 <= gas -> 0 <= depth ->
  out_good (do_call rec e w rd tr depth ro caller addr input gas value) gas B tr.
Proof.
  intros rec e w rd tr depth ro caller addr input gas value B Hrec Hg Hd. unfold do_call.
  destruct (depth >? CallCreateDepth) eqn:Hdep; [apply mkout_good; [assumption | discriminate]|].
  destruct (negb (can_transfer w caller value)); [apply mkout_good; [assumption | discriminate]|].
  destruct (_ && _); [apply mkout_good; [assumption | discriminate]|].
  apply finish_call_good.
  match goal with |- out_good (run_contract _ _ _ _ ?fr _) _ _ _ =>
    change gas with (f_gas fr) at 2; change tr with (f_trace fr) at 2 end.
  apply run_contract_good; cbn [new_frame f_gas f_depth]; auto using depth_guard.
Qed.

Lemma do_callcode_good : forall rec e w rd tr depth ro caller addr input gas value B,
  rec_good rec B -> 0 <= gas -> 0 <= depth ->
  out_good (do_callcode rec e w rd tr depth ro caller addr input gas value) gas B tr.
Proof.
  intros rec e w rd tr depth ro caller addr input gas value B Hrec Hg Hd. unfold do_callcode.
  destruct (depth >? CallCreateDepth) eqn:Hdep; [apply mkout_good; [assumption | discriminate]|].
  destruct (negb (can_transfer w caller value)); [apply mkout_good; [assumption | discriminate]|].
  apply finish_call_good.
  match goal with |- out_good (run_contract _ _ _ _ ?fr _) _ _ _ =>
    change gas with (f_gas fr) at 2; change tr with (f_trace fr) at 2 end.
  apply run_contract_good; cbn [new_frame f_gas f_depth]; auto using depth_guard.
Qed.

Lemma do_delegatecall_good : forall rec e w rd tr depth ro self pc pv addr input gas B,
  rec_good rec B -> 0 <= gas -> 0 <= depth ->
  out_good (do_delegatecall rec e w rd tr depth ro self pc pv addr input gas) gas B tr.
Proof.
  intros rec e w rd tr depth ro self pc pv addr input gas B Hrec Hg Hd. unfold do_delegatecall.
  destruct (depth >? CallCreateDepth) eqn:Hdep; [apply mkout_good; [assumption | discriminate]|].
  apply finish_call_good.
  match goal with |- out_good (run_contract _ _ _ _ ?fr _) _ _ _ =>
    change gas with (f_gas fr) at 2; change tr with (f_trace fr) at 2 end.
  apply run_contract_good; cbn [new_frame f_gas f_depth]; auto using depth_guard.
Qed.

Lemma set_out_ro_good : forall o ro gas B tr, out_good o gas B tr -> out_good (set_out_ro o ro) gas B tr.
Proof. intros o ro gas B tr H. exact H. Qed.

Lemma do_staticcall_good : forall rec e w rd tr depth ro caller addr input gas B,
  rec_good rec B -> 0 <= gas -> 0 <= depth ->
  out_good (do_staticcall rec e w rd tr depth ro caller addr input gas) gas B tr.
Proof.
  intros rec e w rd tr depth ro caller addr input gas B Hrec Hg Hd. unfold do_staticcall.
  destruct (depth >? CallCreateDepth) eqn:Hdep; [apply mkout_good; [assumption | discriminate]|].
  assert (Hfin : forall o, out_good o gas B tr -> out_good (if ro then o else set_out_ro o false) gas B tr)
    by (intros o Ho; destruct ro; [exact Ho | apply set_out_ro_good, Ho]).
  apply Hfin.
  apply finish_call_good.
  match goal with |- out_good (run_contract _ _ _ _ ?fr _) _ _ _ =>
    change gas with (f_gas fr) at 2; change tr with (f_trace fr) at 2 end.
  apply run_contract_good; cbn [new_frame f_gas f_depth]; auto using depth_guard.
Qed.

Lemma do_create_good : forall rec e w rd tr depth ro caller code gas value B,
  rec_good rec B -> 0 <= gas -> 0 <= depth ->
  out_good (do_create rec e w rd tr depth ro caller code gas value) gas B tr.
Proof.
  intros rec e w rd tr depth ro caller code gas value B Hrec Hg Hd. unfold do_create.
  destruct (depth >? CallCreateDepth) eqn:Hdep; [apply mkout_good; [assumption | discriminate]|].
  destruct (negb (can_transfer w caller value)); [apply mkout_good; [assumption | discriminate]|].
  destruct (_ || _); [og|].
  match goal with |- context[run_contract rec e ?w3 ?a ?fr rd] =>
    pose proof (run_contract_good rec e w3 a fr rd B Hrec) as Hrc; set (o := run_contract rec e w3 a fr rd) in * end.
  cbn [new_frame f_gas f_depth f_trace] in Hrc. specialize (Hrc Hg (depth_guard _ Hd Hdep)).
  destruct Hrc as (Hgas & Hfuel & Htr).
  destruct (o_res o) eqn:Hr.
  - (* ok *)
    pose proof (wrap64_nonneg (blen ret * CreateDataGas)) as Hcd.
    destruct (e_eip158 e && (blen (ret_of (R_ok ret)) >? MaxCodeSize)); cbn [andb orb negb ret_of].
    + og.
    + destruct (o_gas o <? wrap64 (blen ret * CreateDataGas)) eqn:Hlt; cbn [negb andb orb];
        destruct (e_homestead e); cbn [negb andb orb]; og.
  - (* revert *)
    unfold out_good; cbn [o_gas o_res o_trace];
      repeat match goal with |- context[if ?b then _ else _] => destruct b end; repeat split; intros; try lia; auto; try discriminate.
  - (* err *)
    unfold out_good; cbn [o_gas o_res o_trace];
      repeat match goal with |- context[if ?b then _ else _] => destruct b end; repeat split; intros; try lia; auto; try discriminate.
  - unfold out_good. rewrite Hr. repeat split; intros; try lia; auto; try discriminate.
  - unfold out_good. repeat split; intros; try lia; auto. exfalso. apply Hfuel; auto.
Qed.

(* ------------------------------------------------------------------ one instruction *)

Definition needs_child (x : execfn) : bool :=
  match x with E_call | E_callcode | E_delegatecall | E_staticcall | E_create => true | _ => false end.

(* the gas a call instruction hands to its callee beyond what remains in the frame *)
Definition extra_of (x : execfn) (st : list Z) (temp : Z) : Z :=
  match x with
  | E_call | E_callcode =>
      match back st 2 with Some v => if Z.sgn v =? 0 then temp else temp + CallStipend | None => temp end
  | E_delegatecall | E_staticcall => temp
  | _ => 0
  end.

Definition xres_good (fr1 : frame) (x : execfn) (lim B : Z) (r : xres) : Prop :=
  match r with
  | X_ok _ fr' _ => 0 <= f_gas fr' <= lim /\ f_depth fr' = f_depth fr1 /\ (tr_ok (f_trace fr1) -> tr_ok (f_trace fr'))
  | X_fuel => needs_child x = true /\ ~ (lim < B)
  | _ => True
  end.

Lemma U256_sgn : forall v, Z.sgn (U256 v) <> 0 -> Z.sgn v <> 0.
Proof. intros v H Hv. apply H. assert (v = 0) by lia. subst v. reflexivity. Qed.

Lemma call_return_good : forall w fr1 x rest ro rs o childgas B lim,
  0 <= f_gas fr1 -> out_good o childgas B (f_trace fr1) -> needs_child x = true ->
  f_gas fr1 + childgas <= lim ->
  xres_good fr1 x lim B (call_return w fr1 rest ro rs o).
Proof.
  intros w fr1 x rest ro rs o childgas B lim Hg (Hgas & Hfuel & Htr) Hx Hlim. unfold call_return.
  assert (Hw : 0 <= wrap64 (f_gas fr1 + o_gas o) <= lim).
  { split; [apply wrap64_nonneg|]. pose proof (wrap64_le (f_gas fr1 + o_gas o)). lia. }
  destruct (o_res o) eqn:Hr; cbn [xres_good]; auto.
  - destruct (mem_set _ _ _ _); cbn [xres_good after_child f_gas f_depth f_trace]; auto.
  - destruct (mem_set _ _ _ _); cbn [xres_good after_child f_gas f_depth f_trace]; auto.
  - split; [assumption|]. intro Hb. apply Hfuel; [lia | reflexivity].
Qed.

Ltac crush_simple :=
  repeat match goal with
  | |- xres_good _ _ _ _ (match ?t with _ => _ end) => destruct t eqn:?
  | |- xres_good _ _ _ _ (let '(_, _) := ?t in _) => destruct t eqn:?
  | |- xres_good _ _ _ _ (if ?t then _ else _) => destruct t eqn:?
  | |- xres_good _ _ _ _ (lift_mem _ _ _ ?r) => unfold lift_mem
  end;
  cbn [xres_good set_stack set_stack_mem set_pc_stack set_pc f_gas f_depth f_trace needs_child];
  try (repeat split; auto; lia).

Lemma exec_good : forall rec e w fr1 x temp B,
  rec_good rec B -> 0 <= f_gas fr1 -> 1 <= f_depth fr1 <= DMAX -> (is_call_exec x = true -> 0 <= temp) ->
  xres_good fr1 x (f_gas fr1 + extra_of x (f_stack fr1) temp) B (exec rec e w fr1 x temp).
Proof.
  intros rec e w fr1 x temp B Hrec Hg Hd Ht0.
  destruct x; unfold exec; cbn [extra_of]; try rewrite Z.add_0_r; try solve [crush_simple];
    try (assert (Ht : 0 <= temp) by (apply Ht0; reflexivity)).
  - (* create *)
    destruct (f_stack fr1) as [|value [|offset [|size r]]]; cbn [xres_good]; auto.
    destruct (mem_get _ _ _) as [input|?|]; cbn [xres_good]; auto.
    set (gas := if e_eip150 e then f_gas fr1 - f_gas fr1 / 64 else f_gas fr1).
    assert (Hgas : 0 <= gas <= f_gas fr1).
    { subst gas. destruct (e_eip150 e); [|lia]. pose proof (Z.div_pos (f_gas fr1) 64 Hg ltac:(lia)).
      assert (f_gas fr1 / 64 <= f_gas fr1) by (apply Z.div_le_upper_bound; lia). lia. }
    pose proof (do_create_good rec e w (f_rdata fr1) (f_trace fr1) (f_depth fr1) (f_ro fr1) (f_self fr1) input gas value B Hrec
                  ltac:(lia) ltac:(lia)) as (Hog & Hfuel & Htr).
    match goal with |- context[do_create ?a ?b ?c ?d ?e' ?f ?g ?h ?i ?j ?k] => set (o := do_create a b c d e' f g h i j k) in * end.
    assert (Hw : 0 <= wrap64 (f_gas fr1 - gas + o_gas o) <= f_gas fr1).
    { split; [apply wrap64_nonneg|]. pose proof (wrap64_le (f_gas fr1 - gas + o_gas o)). lia. }
    destruct (o_res o) eqn:Hr; cbn [xres_good after_child f_gas f_depth f_trace needs_child]; auto.
    split; [reflexivity|]. intro Hb. apply Hfuel; [lia | reflexivity].
  - (* call *)
    destruct (f_stack fr1) as [|g0 [|addr [|value0 [|inOff [|inSize [|retOff [|retSize r]]]]]]] eqn:Hst; cbn [xres_good]; auto.
    destruct (mem_get _ _ _) as [args|?|]; cbn [xres_good]; auto.
    cbn [back nth_error].
    apply call_return_good with (childgas := if negb (Z.sgn (U256 value0) =? 0) then wrap64 (temp + CallStipend) else temp); auto.
    + apply do_call_good; auto; [|lia]. destruct (negb _); [apply wrap64_nonneg | lia].
    + destruct (Z.sgn (U256 value0) =? 0) eqn:Hz; cbn [negb].
      * destruct (Z.sgn value0 =? 0); unfold CallStipend; lia.
      * assert (Z.sgn value0 <> 0) by (apply U256_sgn; lia).
        destruct (Z.sgn value0 =? 0) eqn:Hz'; [lia|]. pose proof (wrap64_le (temp + CallStipend)). unfold CallStipend in *. lia.
  - (* callcode *)
    destruct (f_stack fr1) as [|g0 [|addr [|value0 [|inOff [|inSize [|retOff [|retSize r]]]]]]] eqn:Hst; cbn [xres_good]; auto.
    destruct (mem_get _ _ _) as [args|?|]; cbn [xres_good]; auto.
    cbn [back nth_error].
    apply call_return_good with (childgas := if negb (Z.sgn (U256 value0) =? 0) then wrap64 (temp + CallStipend) else temp); auto.
    + apply do_callcode_good; auto; [|lia]. destruct (negb _); [apply wrap64_nonneg | lia].
    + destruct (Z.sgn (U256 value0) =? 0) eqn:Hz; cbn [negb].
      * destruct (Z.sgn value0 =? 0); unfold CallStipend; lia.
      * assert (Z.sgn value0 <> 0) by (apply U256_sgn; lia).
        destruct (Z.sgn value0 =? 0) eqn:Hz'; [lia|]. pose proof (wrap64_le (temp + CallStipend)). unfold CallStipend in *. lia.
  - (* delegatecall *)
    destruct (f_stack fr1) as [|g0 [|addr [|inOff [|inSize [|retOff [|retSize r]]]]]] eqn:Hst; cbn [xres_good]; auto.
    destruct (mem_get _ _ _) as [args|?|]; cbn [xres_good]; auto.
    apply call_return_good with (childgas := temp); auto; [|lia].
    apply do_delegatecall_good; auto; lia.
  - (* staticcall *)
    destruct (f_stack fr1) as [|g0 [|addr [|inOff [|inSize [|retOff [|retSize r]]]]]] eqn:Hst; cbn [xres_good]; auto.
    destruct (mem_get _ _ _) as [args|?|]; cbn [xres_good]; auto.
    apply call_return_good with (childgas := temp); auto; [|lia].
    apply do_staticcall_good; auto; lia.
Qed.

(* ------------------------------------------------------------------ one iteration of the loop *)

Lemma tr_ok_cons : forall d pc op g c m st tr, 1 <= d <= DMAX -> tr_ok tr -> tr_ok (mk_tentry d pc op g c m st :: tr).
Proof. intros. constructor; [cbn; assumption | assumption]. Qed.

Ltac done_fail := cbn [fail mkout o_gas o_res o_trace]; repeat split; intros; try lia; auto; try discriminate.

Lemma step_good : forall rec e w fr B, wf_env e -> rec_good rec B -> 0 <= f_gas fr -> 1 <= f_depth fr <= DMAX ->
  match step rec e w fr with
  | S_next _ fr' => 0 <= f_gas fr' < f_gas fr /\ f_depth fr' = f_depth fr /\ (tr_ok (f_trace fr) -> tr_ok (f_trace fr'))
  | S_done o => 0 <= o_gas o <= f_gas fr /\ (f_gas fr <= B -> o_res o <> R_fuel) /\ (tr_ok (f_trace fr) -> tr_ok (o_trace o))
  end.
Proof.
  intros rec e w fr B Hwf Hrec Hg Hd. unfold step.
  set (op := get_op (f_code fr) (f_pc fr)).
  set (c := nth (Z.to_nat op) (e_tbl e) invalid_cop).
  assert (Hok : cop_ok c = true).
  { destruct (wf_tbl e Hwf) as [s Hs]. subst c. rewrite Hs. apply nth_cop_ok. }
  destruct (negb (c_valid c)) eqn:Hv; [done_fail|].
  unfold cop_ok in Hok. rewrite Hv in Hok. cbn [orb] in Hok.
  apply andb_prop in Hok as [Hok Hpushes]. apply andb_prop in Hok as [Hok Hpops].
  apply andb_prop in Hok as [Hok Hwrites]. apply andb_prop in Hok as [Hok Hchild].
  apply andb_prop in Hok as [Hok Hcompat]. apply andb_prop in Hok as [Hmin0 Hmin1].
  destruct (validateStack _ _ _); [|done_fail|done_fail].
  destruct (restricted e fr op c); [done_fail|].
  destruct (mem_size_big _ _) as [msb|]; [|done_fail].
  destruct (match msb with Some b => run_memorySize b | None => Ok 0 end) as [memorySize|?|]; [|done_fail|done_fail].
  destruct (gas_cost e w fr (c_gas c) memorySize) as [g|?|] eqn:Hgc; [|done_fail|done_fail].
  apply gas_cost_facts in Hgc; [|assumption]. destruct Hgc as [Hmin Hcallf].
  destruct (f_gas fr <? g_cost g) eqn:Hlt; [done_fail|].
  match goal with |- context[exec rec e (g_world g) ?f1 (c_exec c) (g_temp g)] => set (fr1 := f1) end.
  assert (Hg1 : f_gas fr1 = f_gas fr - g_cost g) by reflexivity.
  assert (Hd1 : f_depth fr1 = f_depth fr) by reflexivity.
  assert (Hst1 : f_stack fr1 = f_stack fr) by reflexivity.
  assert (Htr1 : tr_ok (f_trace fr) -> tr_ok (f_trace fr1)).
  { intro Ht. subst fr1. cbn [f_trace]. destruct (e_trace e); [apply tr_ok_cons; assumption | assumption]. }
  assert (Hrd1 : True) by exact I.
  set (lim := f_gas fr1 + extra_of (c_exec c) (f_stack fr1) (g_temp g)).
  assert (Hlim : lim <= f_gas fr /\ (c_halts c || c_reverts c = false -> lim < f_gas fr) /\
                 (needs_child (c_exec c) = true -> lim < f_gas fr) /\ (is_call_exec (c_exec c) = true -> 0 <= g_temp g)).
  { subst lim. rewrite Hg1, Hst1.
    assert (Hnh : c_halts c || c_reverts c = false -> 1 <= g_cost g).
    { intro Hh. rewrite Hh in Hmin1. cbn [orb] in Hmin1. lia. }
    destruct (c_exec c) eqn:Hx; cbn [extra_of needs_child is_call_exec orb negb] in *;
      try (repeat split; intros; try discriminate; try lia; try (specialize (Hnh ltac:(assumption)); lia); fail).
    - (* call *) destruct (c_gas c); cbn [compat] in Hcompat; try discriminate.
      destruct Hcallf as (Ht & Hc1 & Hc2). unfold CallStipend, CallValueTransferGas in *.
      destruct (back (f_stack fr) 2) as [v|]; [|repeat split; intros; lia].
      destruct (Z.sgn v =? 0) eqn:Hz; [repeat split; intros; lia|].
      specialize (Hc2 v eq_refl ltac:(lia)). repeat split; intros; lia.
    - (* callcode *) destruct (c_gas c); cbn [compat] in Hcompat; try discriminate.
      destruct Hcallf as (Ht & Hc1 & Hc2). unfold CallStipend, CallValueTransferGas in *.
      destruct (back (f_stack fr) 2) as [v|]; [|repeat split; intros; lia].
      destruct (Z.sgn v =? 0) eqn:Hz; [repeat split; intros; lia|].
      specialize (Hc2 v eq_refl ltac:(lia)). repeat split; intros; lia.
    - (* delegatecall *) destruct (c_gas c); cbn [compat] in Hcompat; try discriminate.
      destruct Hcallf as (Ht & Hc1). repeat split; intros; lia.
    - (* staticcall *) destruct (c_gas c); cbn [compat] in Hcompat; try discriminate.
      destruct Hcallf as (Ht & Hc1). repeat split; intros; lia. }
  destruct Hlim as (Hl1 & Hl2 & Hl3 & Hl4).
  assert (Hcost0 : 0 <= g_cost g) by lia.
  pose proof (exec_good rec e (g_world g) fr1 (c_exec c) (g_temp g) B Hrec ltac:(lia) ltac:(lia) Hl4) as Hex.
  fold lim in Hex.
  destruct (exec rec e (g_world g) fr1 (c_exec c) (g_temp g)) as [w2 fr2 res| er | |]; cbn [xres_good] in Hex.
  - destruct Hex as (Hgas2 & Hdep2 & Htr2).
    set (fr3 := if c_returns c then set_rdata fr2 res else fr2).
    assert (H3 : f_gas fr3 = f_gas fr2 /\ f_depth fr3 = f_depth fr2 /\ f_trace fr3 = f_trace fr2).
    { subst fr3. destruct (c_returns c); cbn; auto. }
    destruct H3 as (H3g & H3d & H3t).
    destruct (c_reverts c) eqn:Hrev; [cbn [mkout o_gas o_res o_trace]; rewrite H3g, H3t; repeat split; intros; try lia; auto; discriminate|].
    destruct (c_halts c) eqn:Hhalt; [cbn [mkout o_gas o_res o_trace]; rewrite H3g, H3t; repeat split; intros; try lia; auto; discriminate|].
    specialize (Hl2 eq_refl).
    destruct (c_jumps c); cbn [set_pc set_pc_stack f_gas f_depth f_trace]; rewrite ?H3g, ?H3d, ?H3t; repeat split; intros; try lia; auto.
  - cbn [mkout o_gas o_res o_trace]. repeat split; intros; try lia; auto; discriminate.
  - cbn [mkout o_gas o_res o_trace]. repeat split; intros; try lia; auto; discriminate.
  - destruct Hex as (Hnc & Hnb). cbn [mkout o_gas o_res o_trace]. repeat split; intros; try lia; auto.
Qed.

(* ------------------------------------------------------------------ the loop *)

Lemma interp_of_good : forall lp B, rec_good lp B -> rec_good (interp_of lp) B.
Proof.
  intros lp B H w fr Hg Hd. unfold interp_of. destruct (f_code fr); [|apply H; assumption].
  unfold out_good, mkout. cbn. repeat split; intros; try lia; auto; discriminate.
Qed.

(* with B = fuel: whatever the fuel, gas is bounded and depth respected; fuel above the gas is never exhausted *)
Lemma loop_good : forall fuel e, wf_env e -> rec_good (loop fuel e) (Z.of_nat fuel).
Proof.
  induction fuel as [|f IH]; intros e Hwf w fr Hg Hd.
  - cbn [loop]. unfold out_good, mkout. cbn. repeat split; intros; try lia; auto.
  - cbn [loop].
    assert (Hrec : rec_good (interp_of (loop f e)) (Z.of_nat f)) by (apply interp_of_good, IH; assumption).
    pose proof (step_good (interp_of (loop f e)) e w fr (Z.of_nat f) Hwf Hrec ltac:(lia) Hd) as Hs.
    destruct (step _ e w fr) as [w' fr' | o].
    + destruct Hs as (Hg' & Hd' & Ht').
      destruct (IH e Hwf w' fr' ltac:(lia) ltac:(lia)) as (Ha & Hb & Hc).
      unfold out_good. repeat split; intros; try lia; auto. apply Hb. lia.
    + destruct Hs as (Ha & Hb & Hc). unfold out_good. repeat split; intros; try lia; auto. apply Hb. lia.
Qed.
