(* Evm/OpsProofsState.v — what the state-touching instructions do, stated about the instruction
   bodies [exec] of the interpreter model AQ.Evm.Interp (property C07's model, imported, not
   edited), with the world's getters (get_state, get_balance, get_code, w_logs, has_suicided) as
   the abstract state interface of the Yellow Paper (sigma[a]_s[k], sigma[a]_b, sigma[a]_c, logs). *)
From Coq Require Import ZArith List Bool Lia ZifyBool.
From AQ Require Import Evm.OpsModel Evm.OpsSpec Evm.OpsProofsGas Evm.OpsProofsMem Evm.OpsProofsEnv
  Evm.Interp Evm.InterpProofsStatic.
Import ListNotations.
Local Open Scope Z_scope.

(* ------------------------------------------------------------------ the world is a lawful state *)

Theorem get_state_set_state : forall w a k v a' k',
  get_state (set_state w a k v) a' k' = if (a' =? a) && (k' =? k) then v else get_state w a' k'.
Proof.
  intros. unfold get_state, set_state. rewrite find_put.
  destruct (a' =? a) eqn:Ea; cbn [andb].
  - cbn [a_storage]. rewrite aget_aset. assert (a' = a) by lia. subst a'.
    destruct (k' =? k); [reflexivity|].
    unfold get_or_new. destruct (find_acct w a); reflexivity.
  - reflexivity.
Qed.

Theorem set_state_keeps_accounts : forall w a k v a',
  get_balance (set_state w a k v) a' = get_balance w a' /\
  get_code (set_state w a k v) a' = get_code w a' /\
  get_nonce (set_state w a k v) a' = get_nonce w a'.
Proof.
  intros. unfold get_balance, get_code, get_nonce, set_state. rewrite find_put.
  destruct (a' =? a) eqn:Ea.
  - assert (a' = a) by lia. subst a'. cbn [a_balance a_code a_nonce].
    unfold get_or_new. destruct (find_acct w a); repeat split; reflexivity.
  - repeat split; reflexivity.
Qed.

Theorem get_balance_add_balance : forall w a x a',
  get_balance (add_balance w a x) a' = if a' =? a then get_balance w a + x else get_balance w a'.
Proof.
  intros. unfold get_balance, add_balance. rewrite find_put.
  destruct (a' =? a) eqn:Ea; [|reflexivity].
  cbn [a_balance]. unfold get_or_new. destruct (find_acct w a); reflexivity.
Qed.

Theorem add_log_spec : forall w l,
  w_logs (add_log w l) = l :: w_logs w /\ w_accts (add_log w l) = w_accts w /\ w_refund (add_log w l) = w_refund w.
Proof. intros. repeat split; reflexivity. Qed.

(* ------------------------------------------------------------------ words, addresses *)

Lemma tt256_W : tt256 = W. Proof. reflexivity. Qed.
Lemma hash_of_word : forall x, word x -> hash_of x = x.
Proof.
  intros x [H1 H2]. unfold hash_of. rewrite Z.abs_eq by lia. rewrite tt256_W. apply Z.mod_small. lia.
Qed.
Lemma addr_of_word : forall x, 0 <= x -> addr_of x = x mod 2 ^ 160.
Proof. intros x H. unfold addr_of, tt160. rewrite Z.abs_eq by lia. reflexivity. Qed.

(* ------------------------------------------------------------------ SLOAD / SSTORE / BALANCE / EXTCODE* *)

Theorem exec_SLOAD_spec : forall rec e w fr temp loc r, f_stack fr = loc :: r -> word loc ->
  exec rec e w fr E_sload temp = X_ok w (set_stack fr (get_state w (f_self fr) loc :: r)) [].
Proof. intros rec e w fr temp loc r Hs Hl. unfold exec. rewrite Hs. rewrite hash_of_word by exact Hl. reflexivity. Qed.

Theorem exec_SSTORE_spec : forall rec e w fr temp loc v r, f_stack fr = loc :: v :: r -> word loc -> word v ->
  exec rec e w fr E_sstore temp = X_ok (set_state w (f_self fr) loc v) (set_stack fr r) [].
Proof.
  intros rec e w fr temp loc v r Hs Hl Hv. unfold exec. rewrite Hs.
  rewrite (hash_of_word loc) by exact Hl. rewrite (hash_of_word v) by exact Hv. reflexivity.
Qed.

(* what a later SLOAD sees after SSTORE loc v by the account [self]: v at (self, loc), every other
   slot of every account as before *)
Theorem sstore_then_sload : forall w self loc v a k,
  get_state (set_state w self loc v) a k = if (a =? self) && (k =? loc) then v else get_state w a k.
Proof. intros. apply get_state_set_state. Qed.

Theorem exec_BALANCE_spec : forall rec e w fr temp a r, f_stack fr = a :: r -> word a ->
  exec rec e w fr E_balance temp = X_ok w (set_stack fr (get_balance w (a mod 2 ^ 160) :: r)) [].
Proof. intros rec e w fr temp a r Hs [Ha _]. unfold exec. rewrite Hs. rewrite addr_of_word by exact Ha. reflexivity. Qed.

Theorem exec_EXTCODESIZE_spec : forall rec e w fr temp a r, f_stack fr = a :: r -> word a ->
  exec rec e w fr E_extcodesize temp = X_ok w (set_stack fr (blen (get_code w (a mod 2 ^ 160)) :: r)) [].
Proof. intros rec e w fr temp a r Hs [Ha _]. unfold exec. rewrite Hs. rewrite addr_of_word by exact Ha. reflexivity. Qed.

Theorem exec_EXTCODECOPY_spec : forall rec e w fr temp a memOff codeOff len r,
  f_stack fr = a :: memOff :: codeOff :: len :: r -> word a -> word codeOff ->
  0 <= memOff -> 0 <= len -> memOff + len <= blen (f_mem fr) -> blen (f_mem fr) < 2 ^ 62 ->
  blen (get_code w (a mod 2 ^ 160)) < 2 ^ 62 ->
  exec rec e w fr E_extcodecopy temp =
    X_ok w (set_stack_mem fr r (spec_DATACOPY (f_mem fr) (get_code w (a mod 2 ^ 160)) memOff codeOff len)) [].
Proof.
  intros rec e w fr temp a memOff codeOff len r Hs [Ha _] Hc Hm Hl Hb Hmm Hcc.
  unfold exec. rewrite Hs. rewrite addr_of_word by exact Ha.
  rewrite op_DATACOPY_spec by assumption. reflexivity.
Qed.

(* ------------------------------------------------------------------ LOGn *)

Lemma map_hash_of_words : forall l, Forall word l -> map hash_of l = l.
Proof. induction 1 as [|x l Hx Hl IH]; cbn [map]; [reflexivity|]. rewrite hash_of_word by exact Hx. now rewrite IH. Qed.

Lemma mem_get_range : forall mem off len, blen mem < 2 ^ 62 -> 0 <= off -> 0 < len -> off + len <= blen mem ->
  mem_get mem (big_Int64 off) (big_Int64 len) = Ok (spec_data mem off (Z.to_nat len)).
Proof.
  intros mem off len Hm H0 Hl Hb.
  rewrite (big_Int64_small off) by lia. rewrite (big_Int64_small len) by lia.
  unfold mem_get.
  destruct (len =? 0) eqn:E0; [lia|]. clear E0.
  destruct (blen mem >? off) eqn:E1; [|lia].
  destruct (len <? 0) eqn:E2; [lia|].
  destruct ((off <? 0) || (off + len >? blen mem)) eqn:E3; [lia|].
  rewrite slice_spec_data by lia. reflexivity.
Qed.

(* LOGn appends one entry (address of the executing account, the n topics, the memory range) and
   removes its n+2 operands *)
Theorem exec_LOG_spec : forall rec e w fr temp n mStart mSize topics r,
  0 <= n <= 4 -> Z.of_nat (length topics) = n -> Forall word topics ->
  f_stack fr = mStart :: mSize :: topics ++ r ->
  blen (f_mem fr) < 2 ^ 62 -> 0 <= mStart -> 0 < mSize -> mStart + mSize <= blen (f_mem fr) ->
  exec rec e w fr (E_log n) temp =
    X_ok (add_log w (mk_log (f_self fr) topics (spec_data (f_mem fr) mStart (Z.to_nat mSize)))) (set_stack fr r) [].
Proof.
  intros rec e w fr temp n mStart mSize topics r Hn Hlen Hw Hs Hm H0 Hl Hb.
  unfold exec. rewrite Hs.
  assert (Hn' : Z.to_nat n = length topics) by lia.
  rewrite app_length.
  destruct (Z.of_nat (length topics + length r) <? n) eqn:E; [lia|].
  rewrite Hn'. rewrite firstn_app, Nat.sub_diag, firstn_all. cbn [firstn]. rewrite app_nil_r.
  rewrite skipn_app, Nat.sub_diag, skipn_all. cbn [skipn app].
  rewrite map_hash_of_words by exact Hw.
  rewrite mem_get_range by assumption. reflexivity.
Qed.

(* an empty data range: Memory.Get returns nil whatever the offset *)
Theorem exec_LOG_empty : forall rec e w fr temp n mStart topics r,
  0 <= n <= 4 -> Z.of_nat (length topics) = n -> Forall word topics ->
  f_stack fr = mStart :: 0 :: topics ++ r ->
  exec rec e w fr (E_log n) temp = X_ok (add_log w (mk_log (f_self fr) topics [])) (set_stack fr r) [].
Proof.
  intros rec e w fr temp n mStart topics r Hn Hlen Hw Hs.
  unfold exec. rewrite Hs.
  assert (Hn' : Z.to_nat n = length topics) by lia.
  rewrite app_length.
  destruct (Z.of_nat (length topics + length r) <? n) eqn:E; [lia|].
  rewrite Hn'. rewrite firstn_app, Nat.sub_diag, firstn_all. cbn [firstn]. rewrite app_nil_r.
  rewrite skipn_app, Nat.sub_diag, skipn_all. cbn [skipn app].
  rewrite map_hash_of_words by exact Hw. reflexivity.
Qed.

(* ------------------------------------------------------------------ SELFDESTRUCT *)

Lemma get_balance_suicide : forall w a a', get_balance (suicide w a) a' = if a' =? a then 0 else get_balance w a'.
Proof.
  intros. unfold suicide. destruct (find_acct w a) as [acc|] eqn:F.
  - unfold get_balance. rewrite find_put. destruct (a' =? a); reflexivity.
  - destruct (a' =? a) eqn:E; [|reflexivity]. assert (a' = a) by lia. subst. unfold get_balance. now rewrite F.
Qed.

Theorem exec_SELFDESTRUCT_spec : forall rec e w fr temp a r, f_stack fr = a :: r -> word a ->
  let b := a mod 2 ^ 160 in
  exists w', exec rec e w fr E_suicide temp = X_ok w' (set_stack fr r) [] /\
    get_balance w' (f_self fr) = 0 /\
    (b <> f_self fr -> get_balance w' b = get_balance w b + get_balance w (f_self fr)) /\
    (forall c, c <> b -> c <> f_self fr -> get_balance w' c = get_balance w c) /\
    (exist w (f_self fr) = true \/ b = f_self fr -> has_suicided w' (f_self fr) = true).
Proof.
  intros rec e w fr temp a r Hs [Ha _] b.
  unfold exec. rewrite Hs. rewrite addr_of_word by exact Ha. fold b.
  eexists. split; [reflexivity|].
  split; [rewrite get_balance_suicide, Z.eqb_refl; reflexivity|].
  split.
  { intro Hne. rewrite get_balance_suicide. assert (b =? f_self fr = false) as -> by lia.
    rewrite get_balance_add_balance, Z.eqb_refl. reflexivity. }
  split.
  { intros c Hc1 Hc2. rewrite get_balance_suicide. assert (c =? f_self fr = false) as -> by lia.
    rewrite get_balance_add_balance. assert (c =? b = false) as -> by lia. reflexivity. }
  intro H. unfold has_suicided, suicide.
  assert (Hex : exists acc, find_acct (add_balance w b (get_balance w (f_self fr))) (f_self fr) = Some acc).
  { unfold add_balance. rewrite find_put. destruct (f_self fr =? b) eqn:E; [eauto|].
    destruct H as [H|H]; [|lia]. unfold exist in H. destruct (find_acct w (f_self fr)); [eauto|discriminate]. }
  destruct Hex as [acc Hacc]. rewrite Hacc. rewrite find_put, Z.eqb_refl. reflexivity.
Qed.

(* when the beneficiary is the account itself the balance is destroyed *)
Theorem selfdestruct_to_self_burns : forall rec e w fr temp a r, f_stack fr = a :: r -> word a ->
  a mod 2 ^ 160 = f_self fr ->
  exists w', exec rec e w fr E_suicide temp = X_ok w' (set_stack fr r) [] /\ get_balance w' (f_self fr) = 0.
Proof.
  intros rec e w fr temp a r Hs Ha _.
  destruct (exec_SELFDESTRUCT_spec rec e w fr temp a r Hs Ha) as [w' [H1 [H2 _]]]. eauto.
Qed.

(* ------------------------------------------------------------------ message calls *)

Theorem do_call_depth_limit : forall rec e w rd tr depth ro caller addr input gas value, depth > CallCreateDepth ->
  let o := do_call rec e w rd tr depth ro caller addr input gas value in
  o_res o = R_err IE_Depth [] /\ o_gas o = gas /\ o_world o = w.
Proof.
  intros. unfold o, do_call. assert (depth >? CallCreateDepth = true) as -> by lia. repeat split; reflexivity.
Qed.

Theorem do_call_insufficient_balance : forall rec e w rd tr depth ro caller addr input gas value,
  depth <= CallCreateDepth -> get_balance w caller < value ->
  let o := do_call rec e w rd tr depth ro caller addr input gas value in
  o_res o = R_err IE_InsufficientBalance [] /\ o_gas o = gas /\ o_world o = w.
Proof.
  intros. unfold o, do_call. assert (depth >? CallCreateDepth = false) as -> by lia.
  unfold can_transfer. assert (get_balance w caller >=? value = false) as -> by lia.
  repeat split; reflexivity.
Qed.

(* EIP-158: a call without value to an account that does not exist (and is no precompile) does nothing *)
Theorem do_call_dead_account_noop : forall rec e w rd tr depth ro caller addr input gas,
  depth <= CallCreateDepth -> 0 <= get_balance w caller -> exist w addr = false -> is_precompile e addr = false -> e_eip158 e = true ->
  let o := do_call rec e w rd tr depth ro caller addr input gas 0 in
  o_res o = R_ok [] /\ o_gas o = gas /\ o_world o = w.
Proof.
  intros rec e w rd tr depth ro caller addr input gas Hd Hb He Hp H158 o.
  unfold o, do_call. assert (depth >? CallCreateDepth = false) as -> by lia.
  unfold can_transfer. assert (get_balance w caller >=? 0 = true) as -> by lia.
  rewrite He, Hp, H158. cbn. repeat split; reflexivity.
Qed.

(* otherwise the callee's code runs, in a fresh frame (self = addr, caller, value, gas, input, one
   level deeper), in the world where the value has been moved; a failure restores the snapshot *)
Theorem do_call_transfers : forall rec e w rd tr depth ro caller addr input gas value,
  depth <= CallCreateDepth -> value <= get_balance w caller -> exist w addr = true ->
  do_call rec e w rd tr depth ro caller addr input gas value =
    let w2 := transfer w caller addr value in
    finish_call w (run_contract rec e w2 addr
       (new_frame (get_code w2 addr) input addr caller value gas ro (depth + 1) tr) rd).
Proof.
  intros. unfold do_call. assert (depth >? CallCreateDepth = false) as -> by lia.
  unfold can_transfer. assert (get_balance w caller >=? value = true) as -> by lia.
  rewrite H1. cbn [negb andb]. reflexivity.
Qed.

(* the tail of CALL / CALLCODE / DELEGATECALL / STATICCALL once the child outcome o is back *)
Theorem call_return_ok : forall w fr rest ro rs o ret m, o_res o = R_ok ret ->
  mem_set (f_mem fr) (big_Uint64 ro) (big_Uint64 rs) ret = Ok m ->
  call_return w fr rest ro rs o =
    X_ok (o_world o) (after_child fr (1 :: rest) m (wrap64 (f_gas fr + o_gas o)) (o_rd o) (o_trace o) (o_ro o)) ret.
Proof. intros w fr rest ro rs o ret m Hr Hm. unfold call_return. rewrite Hr. cbn [ret_of]. rewrite Hm. reflexivity. Qed.

Theorem call_return_revert : forall w fr rest ro rs o ret m, o_res o = R_revert ret ->
  mem_set (f_mem fr) (big_Uint64 ro) (big_Uint64 rs) ret = Ok m ->
  call_return w fr rest ro rs o =
    X_ok (o_world o) (after_child fr (0 :: rest) m (wrap64 (f_gas fr + o_gas o)) (o_rd o) (o_trace o) (o_ro o)) ret.
Proof. intros w fr rest ro rs o ret m Hr Hm. unfold call_return. rewrite Hr. cbn [ret_of]. rewrite Hm. reflexivity. Qed.

Theorem call_return_error : forall w fr rest ro rs o er x, o_res o = R_err er x ->
  call_return w fr rest ro rs o =
    X_ok (o_world o) (after_child fr (0 :: rest) (f_mem fr) (wrap64 (f_gas fr + o_gas o)) (o_rd o) (o_trace o) (o_ro o)) x.
Proof. intros w fr rest ro rs o er x Hr. unfold call_return. rewrite Hr. reflexivity. Qed.

(* CALL: the input is the specified memory range; the callee receives callGasTemp, plus the
   stipend exactly when value is transferred *)
Theorem exec_CALL_spec : forall rec e w fr temp g addr value inOffset inSize retOffset retSize r,
  f_stack fr = g :: addr :: value :: inOffset :: inSize :: retOffset :: retSize :: r ->
  word addr -> word value -> blen (f_mem fr) < 2 ^ 62 -> 0 <= inOffset -> 0 < inSize -> inOffset + inSize <= blen (f_mem fr) ->
  exec rec e w fr E_call temp =
    call_return w fr r retOffset retSize
      (do_call rec e w (f_rdata fr) (f_trace fr) (f_depth fr) (f_ro fr) (f_self fr) (addr mod 2 ^ 160)
               (spec_data (f_mem fr) inOffset (Z.to_nat inSize))
               (if value =? 0 then temp else wrap64 (temp + CallStipend)) value).
Proof.
  intros rec e w fr temp g addr value inOffset inSize retOffset retSize r Hs [Ha _] Hv Hm H0 Hl Hb.
  unfold exec. rewrite Hs. rewrite mem_get_range by assumption.
  rewrite addr_of_word by exact Ha.
  assert (HU : U256 value = value).
  { unfold U256. change tt256m1 with (Z.ones 256). rewrite Z.land_ones by lia.
    destruct Hv as [V1 V2]. apply Z.mod_small. split; [lia|]. exact V2. }
  rewrite HU.
  destruct Hv as [V1 _].
  destruct (value =? 0) eqn:E.
  - assert (value = 0) by lia. subst value. reflexivity.
  - assert (Z.sgn value =? 0 = false) as -> by lia. reflexivity.
Qed.

(* CREATE under EIP-150: the child receives all but one 64th of the gas left *)
Theorem exec_CREATE_gas_63_64 : forall rec e w fr temp value offset size r input,
  f_stack fr = value :: offset :: size :: r -> e_eip150 e = true ->
  mem_get (f_mem fr) (big_Int64 offset) (big_Int64 size) = Ok input ->
  let o := do_create rec e w (f_rdata fr) (f_trace fr) (f_depth fr) (f_ro fr) (f_self fr) input (f_gas fr - f_gas fr / 64) value in
  forall w' fr' res, exec rec e w fr E_create temp = X_ok w' fr' res ->
    w' = o_world o /\ f_gas fr' = wrap64 (f_gas fr - (f_gas fr - f_gas fr / 64) + o_gas o).
Proof.
  intros rec e w fr temp value offset size r input Hs H150 Hm o w' fr' res.
  unfold exec. rewrite Hs, Hm, H150. fold o.
  destruct (o_res o); intro H; try discriminate H; injection H as <- <- _; split; reflexivity.
Qed.

(* ------------------------------------------------------------------ conjunctions quoted by Properties/C08.v *)

(* the world of the interpreter model is a lawful state *)
Theorem state_laws_all :
  (forall w a k v a' k',
  get_state (set_state w a k v) a' k' = if (a' =? a) && (k' =? k) then v else get_state w a' k') /\
  (forall w a k v a',
  get_balance (set_state w a k v) a' = get_balance w a' /\
  get_code (set_state w a k v) a' = get_code w a' /\
  get_nonce (set_state w a k v) a' = get_nonce w a') /\
  (forall w a x a',
  get_balance (add_balance w a x) a' = if a' =? a then get_balance w a + x else get_balance w a') /\
  (forall w l,
  w_logs (add_log w l) = l :: w_logs w /\ w_accts (add_log w l) = w_accts w /\ w_refund (add_log w l) = w_refund w).
Proof. exact (conj get_state_set_state (conj set_state_keeps_accounts (conj get_balance_add_balance add_log_spec))). Qed.

(* state-touching instruction bodies of Interp.exec against the world's getters *)
Theorem state_ops_all :
  (forall rec e w fr temp loc r, f_stack fr = loc :: r -> word loc ->
  exec rec e w fr E_sload temp = X_ok w (set_stack fr (get_state w (f_self fr) loc :: r)) []) /\
  (forall rec e w fr temp loc v r, f_stack fr = loc :: v :: r -> word loc -> word v ->
  exec rec e w fr E_sstore temp = X_ok (set_state w (f_self fr) loc v) (set_stack fr r) []) /\
  (forall rec e w fr temp a r, f_stack fr = a :: r -> word a ->
  exec rec e w fr E_balance temp = X_ok w (set_stack fr (get_balance w (a mod 2 ^ 160) :: r)) []) /\
  (forall rec e w fr temp a r, f_stack fr = a :: r -> word a ->
  exec rec e w fr E_extcodesize temp = X_ok w (set_stack fr (blen (get_code w (a mod 2 ^ 160)) :: r)) []) /\
  (forall rec e w fr temp a memOff codeOff len r,
  f_stack fr = a :: memOff :: codeOff :: len :: r -> word a -> word codeOff ->
  0 <= memOff -> 0 <= len -> memOff + len <= blen (f_mem fr) -> blen (f_mem fr) < 2 ^ 62 ->
  blen (get_code w (a mod 2 ^ 160)) < 2 ^ 62 ->
  exec rec e w fr E_extcodecopy temp =
    X_ok w (set_stack_mem fr r (spec_DATACOPY (f_mem fr) (get_code w (a mod 2 ^ 160)) memOff codeOff len)) []) /\
  (forall rec e w fr temp n mStart mSize topics r,
  0 <= n <= 4 -> Z.of_nat (length topics) = n -> Forall word topics ->
  f_stack fr = mStart :: mSize :: topics ++ r ->
  blen (f_mem fr) < 2 ^ 62 -> 0 <= mStart -> 0 < mSize -> mStart + mSize <= blen (f_mem fr) ->
  exec rec e w fr (E_log n) temp =
    X_ok (add_log w (mk_log (f_self fr) topics (spec_data (f_mem fr) mStart (Z.to_nat mSize)))) (set_stack fr r) []) /\
  (forall rec e w fr temp n mStart topics r,
  0 <= n <= 4 -> Z.of_nat (length topics) = n -> Forall word topics ->
  f_stack fr = mStart :: 0 :: topics ++ r ->
  exec rec e w fr (E_log n) temp = X_ok (add_log w (mk_log (f_self fr) topics [])) (set_stack fr r) []) /\
  (forall rec e w fr temp a r, f_stack fr = a :: r -> word a ->
  let b := a mod 2 ^ 160 in
  exists w', exec rec e w fr E_suicide temp = X_ok w' (set_stack fr r) [] /\
    get_balance w' (f_self fr) = 0 /\
    (b <> f_self fr -> get_balance w' b = get_balance w b + get_balance w (f_self fr)) /\
    (forall c, c <> b -> c <> f_self fr -> get_balance w' c = get_balance w c) /\
    (exist w (f_self fr) = true \/ b = f_self fr -> has_suicided w' (f_self fr) = true)).
Proof. exact (conj exec_SLOAD_spec (conj exec_SSTORE_spec (conj exec_BALANCE_spec (conj exec_EXTCODESIZE_spec (conj exec_EXTCODECOPY_spec (conj exec_LOG_spec (conj exec_LOG_empty exec_SELFDESTRUCT_spec))))))). Qed.

(* message calls: entry conditions of evm.Call, the return tail, stipend, 63/64 for CREATE *)
Theorem call_ops_all :
  (forall rec e w rd tr depth ro caller addr input gas value, depth > CallCreateDepth ->
  let o := do_call rec e w rd tr depth ro caller addr input gas value in
  o_res o = R_err IE_Depth [] /\ o_gas o = gas /\ o_world o = w) /\
  (forall rec e w rd tr depth ro caller addr input gas value,
  depth <= CallCreateDepth -> get_balance w caller < value ->
  let o := do_call rec e w rd tr depth ro caller addr input gas value in
  o_res o = R_err IE_InsufficientBalance [] /\ o_gas o = gas /\ o_world o = w) /\
  (forall rec e w rd tr depth ro caller addr input gas,
  depth <= CallCreateDepth -> 0 <= get_balance w caller -> exist w addr = false -> is_precompile e addr = false -> e_eip158 e = true ->
  let o := do_call rec e w rd tr depth ro caller addr input gas 0 in
  o_res o = R_ok [] /\ o_gas o = gas /\ o_world o = w) /\
  (forall rec e w rd tr depth ro caller addr input gas value,
  depth <= CallCreateDepth -> value <= get_balance w caller -> exist w addr = true ->
  do_call rec e w rd tr depth ro caller addr input gas value =
    let w2 := transfer w caller addr value in
    finish_call w (run_contract rec e w2 addr
       (new_frame (get_code w2 addr) input addr caller value gas ro (depth + 1) tr) rd)) /\
  (forall w fr rest ro rs o ret m, o_res o = R_ok ret ->
  mem_set (f_mem fr) (big_Uint64 ro) (big_Uint64 rs) ret = Ok m ->
  call_return w fr rest ro rs o =
    X_ok (o_world o) (after_child fr (1 :: rest) m (wrap64 (f_gas fr + o_gas o)) (o_rd o) (o_trace o) (o_ro o)) ret) /\
  (forall w fr rest ro rs o ret m, o_res o = R_revert ret ->
  mem_set (f_mem fr) (big_Uint64 ro) (big_Uint64 rs) ret = Ok m ->
  call_return w fr rest ro rs o =
    X_ok (o_world o) (after_child fr (0 :: rest) m (wrap64 (f_gas fr + o_gas o)) (o_rd o) (o_trace o) (o_ro o)) ret) /\
  (forall w fr rest ro rs o er x, o_res o = R_err er x ->
  call_return w fr rest ro rs o =
    X_ok (o_world o) (after_child fr (0 :: rest) (f_mem fr) (wrap64 (f_gas fr + o_gas o)) (o_rd o) (o_trace o) (o_ro o)) x) /\
  (forall rec e w fr temp g addr value inOffset inSize retOffset retSize r,
  f_stack fr = g :: addr :: value :: inOffset :: inSize :: retOffset :: retSize :: r ->
  word addr -> word value -> blen (f_mem fr) < 2 ^ 62 -> 0 <= inOffset -> 0 < inSize -> inOffset + inSize <= blen (f_mem fr) ->
  exec rec e w fr E_call temp =
    call_return w fr r retOffset retSize
      (do_call rec e w (f_rdata fr) (f_trace fr) (f_depth fr) (f_ro fr) (f_self fr) (addr mod 2 ^ 160)
               (spec_data (f_mem fr) inOffset (Z.to_nat inSize))
               (if value =? 0 then temp else wrap64 (temp + CallStipend)) value)) /\
  (forall rec e w fr temp value offset size r input,
  f_stack fr = value :: offset :: size :: r -> e_eip150 e = true ->
  mem_get (f_mem fr) (big_Int64 offset) (big_Int64 size) = Ok input ->
  let o := do_create rec e w (f_rdata fr) (f_trace fr) (f_depth fr) (f_ro fr) (f_self fr) input (f_gas fr - f_gas fr / 64) value in
  forall w' fr' res, exec rec e w fr E_create temp = X_ok w' fr' res ->
    w' = o_world o /\ f_gas fr' = wrap64 (f_gas fr - (f_gas fr - f_gas fr / 64) + o_gas o)).
Proof. exact (conj do_call_depth_limit (conj do_call_insufficient_balance (conj do_call_dead_account_noop (conj do_call_transfers (conj call_return_ok (conj call_return_revert (conj call_return_error (conj exec_CALL_spec exec_CREATE_gas_63_64)))))))). Qed.

