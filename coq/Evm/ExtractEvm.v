(* Extraction of the EVM instruction model + specification for ocaml/evm/driver.ml.  ExtrOcamlBasic only. *)
From AQ Require Import Lib.Bytes Lib.ExtractBase Evm.OpsModel Evm.OpsSpec Evm.OpsTableSpec Evm.OpsKeccak Evm.OpsMemStep.
Require Extraction.
Require Import ExtrOcamlBasic.
Extraction "../ocaml/evm/model.ml" base_anchor
  exec_arith spec_arith wordb
  toWordSize run_memorySize calcMemSize memoryGasCost
  gasCallDataCopy gasReturnDataCopy gasCodeCopy gasExtCodeCopy gasSha3
  gasMLoad gasMStore gasMStore8 gasCreate gasReturn gasLog gasExp callGas validateStack
  GasTableHomestead GasTableHF1
  codeBitmap has select_iset select_gastable arith_const_gas
  ceil32 Cmem Mexp mem_fee G_sha3 G_copy G_log G_exp C_gascap
  spec_valid
  op_MLOAD op_MSTORE op_MSTORE8 op_MSIZE op_CALLDATALOAD op_DATACOPY op_RETURNDATACOPY op_PUSH op_DUP op_SWAP
  op_JUMP op_JUMPI mem_resize getDataBig
  spec_CALLDATALOAD spec_PUSH spec_MLOAD spec_MSTORE spec_MSTORE8 spec_DATACOPY spec_DUP spec_SWAP
  op_SHA3 keccakZ spec_SHA3 op_ENV spec_ENV op_POP enforceRestrictions select_rules
  GasTableHomestead_full GasTableHF1_full select_gastable_full gasBalance gasExtCodeSize gasSLoad gasSStore gasCall gasCallCode
  gasDelegateCall gasStaticCall gasSuicide
  prepare_mem run_MLOAD run_MSTORE run_MSTORE8 run_DATACOPY run_RETURNDATACOPY run_SHA3 run_RETURN run_LOG
  op_BLOCKHASH spec_BLOCKHASH memoryCall memoryCreate
  C_sstore R_sstore C_extra C_call C_xfer C_selfdestruct R_selfdestruct.
