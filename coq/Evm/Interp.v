(* Evm/Interp.v — executable, code-shaped model of the EVM interpreter loop and the call /
   create machinery of /repo/core/vm (interpreter.go Run, evm.go Call/CallCode/DelegateCall/
   StaticCall/Create, contract.go UseGas, contracts.go RunPrecompiledContract, the state-touching
   instructions of instructions.go and their gas functions of gas_table.go).  Definitions only;
   proofs are in InterpProofs*.v.  The pure instructions, the memory/gas helper functions and the
   jump-destination analysis are those of Evm/OpsModel.v (property C08).

   What every instruction does (validity, stack arity, flags, the NAME of its execute / gasCost /
   memorySize function and the constant of constGasFunc) is read from the tables regenerated from
   core/vm/jump_table.go on every run (Generated/GenJumpTables.v): [compile] turns a table entry
   into a [cop] by looking the names up, and the tables the interpreter uses are
   [Eval vm_compute in map compile tbl_xxx].

   World: accounts (nonce, balance, code, storage, suicided flag; an address without an entry does
   not exist), logs, refund counter.  A snapshot is a copy of the world.
   Conventions as in OpsModel.v: big.Int = Z, uint64 = Z with explicit wrap64, stack head = top,
   byte strings = list Z, Go panic = an explicit result. *)
From Coq Require Import ZArith List Bool String.
From AQ Require Import Lib.Bytes Lib.Keccak Rlp.RlpSpec Evm.OpsModel Generated.GenJumpTables.
Import ListNotations.
Local Open Scope Z_scope.

(* ------------------------------------------------------------------ compiled table entries *)

Inductive execfn : Type :=
| E_arith (op : Z)   (* the 25 instructions of OpsModel.exec_arith, by the opcode exec_arith uses *)
| E_stop | E_sha3 | E_address | E_balance | E_origin | E_caller | E_callvalue | E_calldataload
| E_calldatasize | E_calldatacopy | E_codesize | E_codecopy | E_gasprice | E_extcodesize | E_extcodecopy
| E_returndatasize | E_returndatacopy | E_blockhash | E_coinbase | E_timestamp | E_number | E_difficulty
| E_gaslimit | E_pop | E_mload | E_mstore | E_mstore8 | E_sload | E_sstore | E_jump | E_jumpi | E_pc | E_msize
| E_gas | E_jumpdest | E_push (n : Z) | E_dup (n : Z) | E_swap (n : Z) | E_log (n : Z)
| E_create | E_call | E_callcode | E_return | E_delegatecall | E_staticcall | E_revert | E_suicide
| E_unknown.

Inductive gasfn : Type :=
| G_const (g : Z) | G_exp | G_sha3 | G_balance | G_calldatacopy | G_codecopy | G_extcodesize | G_extcodecopy
| G_returndatacopy | G_mload | G_mstore | G_mstore8 | G_sload | G_sstore | G_push | G_dup | G_swap | G_log (n : Z)
| G_create | G_call | G_callcode | G_return | G_revert | G_delegatecall | G_staticcall | G_suicide | G_unknown.

Inductive memfn : Type :=
| M_none | M_sha3 | M_calldatacopy | M_returndatacopy | M_codecopy | M_extcodecopy | M_mload | M_mstore8 | M_mstore
| M_create | M_call | M_delegatecall | M_staticcall | M_return | M_revert | M_log | M_unknown.

Record cop : Type := mk_cop {
  c_valid : bool; c_pops : Z; c_pushes : Z;
  c_halts : bool; c_jumps : bool; c_writes : bool; c_reverts : bool; c_returns : bool;
  c_exec : execfn; c_gas : gasfn; c_mem : memfn }.

Local Open Scope string_scope.
Definition exec_names : list (string * execfn) := [
  ("opAdd", E_arith 0x01); ("opMul", E_arith 0x02); ("opSub", E_arith 0x03); ("opDiv", E_arith 0x04);
  ("opSdiv", E_arith 0x05); ("opMod", E_arith 0x06); ("opSmod", E_arith 0x07); ("opAddmod", E_arith 0x08);
  ("opMulmod", E_arith 0x09); ("opExp", E_arith 0x0a); ("opSignExtend", E_arith 0x0b);
  ("opLt", E_arith 0x10); ("opGt", E_arith 0x11); ("opSlt", E_arith 0x12); ("opSgt", E_arith 0x13);
  ("opEq", E_arith 0x14); ("opIszero", E_arith 0x15); ("opAnd", E_arith 0x16); ("opOr", E_arith 0x17);
  ("opXor", E_arith 0x18); ("opNot", E_arith 0x19); ("opByte", E_arith 0x1a);
  ("opSHL", E_arith 0x1b); ("opSHR", E_arith 0x1c); ("opSAR", E_arith 0x1d);
  ("opStop", E_stop); ("opSha3", E_sha3); ("opAddress", E_address); ("opBalance", E_balance);
  ("opOrigin", E_origin); ("opCaller", E_caller); ("opCallValue", E_callvalue);
  ("opCallDataLoad", E_calldataload); ("opCallDataSize", E_calldatasize); ("opCallDataCopy", E_calldatacopy);
  ("opCodeSize", E_codesize); ("opCodeCopy", E_codecopy); ("opGasprice", E_gasprice);
  ("opExtCodeSize", E_extcodesize); ("opExtCodeCopy", E_extcodecopy);
  ("opReturnDataSize", E_returndatasize); ("opReturnDataCopy", E_returndatacopy);
  ("opBlockhash", E_blockhash); ("opCoinbase", E_coinbase); ("opTimestamp", E_timestamp);
  ("opNumber", E_number); ("opDifficulty", E_difficulty); ("opGasLimit", E_gaslimit); ("opPop", E_pop);
  ("opMload", E_mload); ("opMstore", E_mstore); ("opMstore8", E_mstore8); ("opSload", E_sload);
  ("opSstore", E_sstore); ("opJump", E_jump); ("opJumpi", E_jumpi); ("opPc", E_pc); ("opMsize", E_msize);
  ("opGas", E_gas); ("opJumpdest", E_jumpdest); ("opCreate", E_create); ("opCall", E_call);
  ("opCallCode", E_callcode); ("opReturn", E_return); ("opDelegateCall", E_delegatecall);
  ("opStaticCall", E_staticcall); ("opRevert", E_revert); ("opSuicide", E_suicide) ].

Definition gas_names : list (string * gasfn) := [
  ("gasExp", G_exp); ("gasSha3", G_sha3); ("gasBalance", G_balance); ("gasCallDataCopy", G_calldatacopy);
  ("gasCodeCopy", G_codecopy); ("gasExtCodeSize", G_extcodesize); ("gasExtCodeCopy", G_extcodecopy);
  ("gasReturnDataCopy", G_returndatacopy); ("gasMLoad", G_mload); ("gasMStore", G_mstore);
  ("gasMStore8", G_mstore8); ("gasSLoad", G_sload); ("gasSStore", G_sstore); ("gasPush", G_push);
  ("gasDup", G_dup); ("gasSwap", G_swap); ("gasCreate", G_create); ("gasCall", G_call);
  ("gasCallCode", G_callcode); ("gasReturn", G_return); ("gasRevert", G_revert);
  ("gasDelegateCall", G_delegatecall); ("gasStaticCall", G_staticcall); ("gasSuicide", G_suicide) ].

Definition mem_names : list (string * memfn) := [
  ("", M_none); ("memorySha3", M_sha3); ("memoryCallDataCopy", M_calldatacopy);
  ("memoryReturnDataCopy", M_returndatacopy); ("memoryCodeCopy", M_codecopy);
  ("memoryExtCodeCopy", M_extcodecopy); ("memoryMLoad", M_mload); ("memoryMStore8", M_mstore8);
  ("memoryMStore", M_mstore); ("memoryCreate", M_create); ("memoryCall", M_call);
  ("memoryDelegateCall", M_delegatecall); ("memoryStaticCall", M_staticcall); ("memoryReturn", M_return);
  ("memoryRevert", M_revert); ("memoryLog", M_log) ].

Definition lookup {A} (l : list (string * A)) (name : string) (d : A) : A :=
  match find (fun p => String.eqb (fst p) name) l with Some p => snd p | None => d end.

Definition compile_exec (name : string) (arg : Z) : execfn :=
  if String.eqb name "makePush" then E_push arg
  else if String.eqb name "makeDup" then E_dup arg
  else if String.eqb name "makeSwap" then E_swap arg
  else if String.eqb name "makeLog" then E_log arg
  else lookup exec_names name E_unknown.
Definition compile_gas (name : string) (arg : Z) : gasfn :=
  if String.eqb name "constGasFunc" then G_const arg
  else if String.eqb name "makeGasLog" then G_log arg
  else lookup gas_names name G_unknown.
Definition compile_mem (name : string) : memfn := lookup mem_names name M_unknown.

Definition compile (o : opinfo) : cop :=
  mk_cop (oi_valid o) (oi_pops o) (oi_pushes o) (oi_halts o) (oi_jumps o) (oi_writes o) (oi_reverts o)
         (oi_returns o) (compile_exec (oi_exec o) (oi_exec_arg o)) (compile_gas (oi_gas o) (oi_gas_arg o))
         (compile_mem (oi_mem o)).
Local Close Scope string_scope.

(* the tables the interpreter runs on: computed from the regenerated tables when this file is
   compiled (InterpProofs.v: ctbl_is_compiled) *)
Definition ctbl_frontier : list cop := Eval vm_compute in map compile tbl_frontier.
Definition ctbl_homestead : list cop := Eval vm_compute in map compile tbl_homestead.
Definition ctbl_byzantium : list cop := Eval vm_compute in map compile tbl_byzantium.
Definition ctbl_constantinople : list cop := Eval vm_compute in map compile tbl_constantinople.
Definition ctbl_spring : list cop := Eval vm_compute in map compile tbl_spring.

Definition ctbl_of (s : iset) : list cop :=
  match s with Frontier => ctbl_frontier | Homestead => ctbl_homestead | Byzantium => ctbl_byzantium
             | Constantinople => ctbl_constantinople | Spring => ctbl_spring end.

Definition invalid_cop : cop := mk_cop false 0 0 false false false false false E_unknown G_unknown M_none.

(* ------------------------------------------------------------------ params (InterpProofs.v: params_match_interp) *)

Definition CallValueTransferGas : Z := 9000.
Definition CallNewAccountGas : Z := 25000.
Definition CallStipend : Z := 2300.
Definition SstoreSetGas : Z := 20000.
Definition SstoreResetGas : Z := 5000.
Definition SstoreClearGas : Z := 5000.
Definition SstoreRefundGas : Z := 15000.
Definition SuicideRefundGas : Z := 24000.
Definition CreateDataGas : Z := 200.
Definition MaxCodeSize : Z := 24576.
Definition CallCreateDepth : Z := 1024.

(* params.GasTable: all the fields *)
Record igt : Type := { ig_base : gastable; ig_ExtcodeSize : Z; ig_Balance : Z; ig_SLoad : Z; ig_Suicide : Z }.
Definition IGasTableHomestead : igt :=
  {| ig_base := GasTableHomestead; ig_ExtcodeSize := 700; ig_Balance := 400; ig_SLoad := 200; ig_Suicide := 5000 |}.
Definition IGasTableHF1 : igt :=
  {| ig_base := GasTableHF1; ig_ExtcodeSize := 700; ig_Balance := 400; ig_SLoad := 200; ig_Suicide := 5000 |}.

(* ------------------------------------------------------------------ world (core/state through vm.StateDB) *)

Record account : Type := mk_account {
  a_nonce : Z; a_balance : Z; a_code : list Z; a_storage : list (Z * Z); a_suicided : bool }.
Record logentry : Type := mk_log { l_addr : Z; l_topics : list Z; l_data : list Z }.
(* w_logs: most recent first *)
Record world : Type := mk_world { w_accts : list (Z * account); w_logs : list logentry; w_refund : Z }.

Definition empty_account : account := mk_account 0 0 [] [] false.

Fixpoint aget {V} (l : list (Z * V)) (k : Z) : option V :=
  match l with [] => None | (k', v) :: r => if k' =? k then Some v else aget r k end.
Fixpoint aset {V} (l : list (Z * V)) (k : Z) (v : V) : list (Z * V) :=
  match l with
  | [] => [(k, v)]
  | (k', v') :: r => if k' =? k then (k, v) :: r else (k', v') :: aset r k v
  end.

Definition find_acct (w : world) (a : Z) : option account := aget (w_accts w) a.
Definition put_acct (w : world) (a : Z) (acc : account) : world :=
  mk_world (aset (w_accts w) a acc) (w_logs w) (w_refund w).

(* StateDB.Exist / Empty / getters (statedb.go) *)
Definition exist (w : world) (a : Z) : bool := match find_acct w a with Some _ => true | None => false end.
Definition acct_empty (acc : account) : bool :=
  (a_nonce acc =? 0) && (a_balance acc =? 0) && match a_code acc with [] => true | _ => false end.
Definition empty (w : world) (a : Z) : bool := match find_acct w a with Some acc => acct_empty acc | None => true end.
Definition get_balance (w : world) (a : Z) : Z := match find_acct w a with Some acc => a_balance acc | None => 0 end.
Definition get_nonce (w : world) (a : Z) : Z := match find_acct w a with Some acc => a_nonce acc | None => 0 end.
Definition get_code (w : world) (a : Z) : list Z := match find_acct w a with Some acc => a_code acc | None => [] end.
Definition get_state (w : world) (a k : Z) : Z :=
  match find_acct w a with
  | Some acc => match aget (a_storage acc) k with Some v => v | None => 0 end
  | None => 0
  end.
Definition has_suicided (w : world) (a : Z) : bool :=
  match find_acct w a with Some acc => a_suicided acc | None => false end.

(* GetOrNewStateObject *)
Definition get_or_new (w : world) (a : Z) : account :=
  match find_acct w a with Some acc => acc | None => empty_account end.

(* StateDB.AddBalance / SubBalance: the object is created even for a zero amount *)
Definition add_balance (w : world) (a amount : Z) : world :=
  let acc := get_or_new w a in
  put_acct w a (mk_account (a_nonce acc) (a_balance acc + amount) (a_code acc) (a_storage acc) (a_suicided acc)).
Definition sub_balance (w : world) (a amount : Z) : world :=
  let acc := get_or_new w a in
  put_acct w a (mk_account (a_nonce acc) (a_balance acc - amount) (a_code acc) (a_storage acc) (a_suicided acc)).
Definition set_nonce (w : world) (a n : Z) : world :=
  let acc := get_or_new w a in
  put_acct w a (mk_account n (a_balance acc) (a_code acc) (a_storage acc) (a_suicided acc)).
Definition set_code (w : world) (a : Z) (code : list Z) : world :=
  let acc := get_or_new w a in
  put_acct w a (mk_account (a_nonce acc) (a_balance acc) code (a_storage acc) (a_suicided acc)).
Definition set_state (w : world) (a k v : Z) : world :=
  let acc := get_or_new w a in
  put_acct w a (mk_account (a_nonce acc) (a_balance acc) (a_code acc) (aset (a_storage acc) k v) (a_suicided acc)).
(* StateDB.CreateAccount: a fresh object; the balance of a previous object is carried over *)
Definition create_account (w : world) (a : Z) : world :=
  put_acct w a (mk_account 0 (get_balance w a) [] [] false).
(* StateDB.Suicide *)
Definition suicide (w : world) (a : Z) : world :=
  match find_acct w a with
  | Some acc => put_acct w a (mk_account (a_nonce acc) 0 (a_code acc) (a_storage acc) true)
  | None => w
  end.
Definition add_refund (w : world) (g : Z) : world := mk_world (w_accts w) (w_logs w) (wrap64 (w_refund w + g)).
Definition add_log (w : world) (l : logentry) : world := mk_world (w_accts w) (l :: w_logs w) (w_refund w).

(* core/evm.go CanTransfer / Transfer *)
Definition can_transfer (w : world) (a amount : Z) : bool := get_balance w a >=? amount.
Definition transfer (w : world) (from to amount : Z) : world := add_balance (sub_balance w from amount) to amount.

(* ------------------------------------------------------------------ environment, frames, results *)

Inductive ierr : Type :=
| IE_op (e : verr)           (* the errors of OpsModel *)
| IE_WriteProtection         (* errWriteProtection *)
| IE_Depth                   (* ErrDepth *)
| IE_InsufficientBalance     (* ErrInsufficientBalance *)
| IE_Collision               (* ErrContractAddressCollision *)
| IE_CodeStoreOutOfGas       (* ErrCodeStoreOutOfGas *)
| IE_MaxCodeSize             (* errMaxCodeSizeExceeded *)
| IE_Precompile              (* an error returned by a precompiled contract *)
| IE_OracleMissing.          (* the precompile oracle table has no entry: reported as a divergence *)

(* one CaptureState event: depth, pc, opcode, gas before, cost, memory length, the stack *)
Record tentry : Type := mk_tentry { t_depth : Z; t_pc : Z; t_op : Z; t_gas : Z; t_cost : Z; t_mem : Z; t_stack : list Z }.

Record env : Type := mk_env {
  e_tbl : list cop; e_gt : igt;
  e_homestead : bool; e_eip150 : bool; e_eip158 : bool; e_byzantium : bool;
  e_origin : Z; e_gasprice : Z; e_coinbase : Z; e_gaslimit : Z; e_number : Z; e_time : Z; e_difficulty : Z;
  e_blockhash : Z -> Z;
  (* precompile oracle: address, input -> (RequiredGas, Some output | None = the contract failed) *)
  e_precomp : Z -> list Z -> option (Z * option (list Z));
  e_trace : bool }.

Record frame : Type := mk_frame {
  f_pc : Z; f_stack : list Z; f_mem : list Z; f_last : Z (* Memory.lastGasCost *); f_gas : Z;
  f_code : list Z; f_input : list Z;
  f_rdata : list Z (* interpreter.returnData *);
  f_self : Z; f_caller : Z; f_value : Z; f_ro : bool (* interpreter.readOnly *);
  f_depth : Z (* evm.depth while the frame runs: 1 for the outermost frame *);
  f_trace : list tentry (* most recent first *) }.

Inductive rres : Type :=
| R_ok (ret : list Z)       (* err == nil *)
| R_revert (ret : list Z)   (* errExecutionReverted *)
| R_err (e : ierr) (ret : list Z)   (* any other error; ret = the byte slice returned with it (Create) *)
| R_panic                   (* a Go runtime panic *)
| R_fuel.                   (* the model ran out of fuel (InterpProofs.v: impossible when fuel > gas) *)

(* what a frame / a Call / a Create hands back: result, gas left, world, interpreter.returnData, trace,
   and (Create) the contract address *)
Record outcome : Type := mk_out { o_res : rres; o_gas : Z; o_world : world; o_rd : list Z; o_trace : list tentry; o_addr : Z;
  o_ro : bool (* interpreter.readOnly when the call is back: mutable interpreter state, see do_staticcall *) }.

Definition is_failure (r : rres) : bool := match r with R_ok _ => false | _ => true end.
Definition ret_of (r : rres) : list Z := match r with R_ok x => x | R_revert x => x | R_err _ x => x | _ => [] end.

(* ------------------------------------------------------------------ helpers *)

Definition tt160 : Z := 2 ^ 160.
(* common.BigToAddress / BigToHash of a non-negative big.Int *)
Definition addr_of (x : Z) : Z := Z.abs x mod tt160.
Definition hash_of (x : Z) : Z := Z.abs x mod tt256.

Definition hashZ (data : list Z) : list Z := map b2z (keccak256 (map z2b data)).

(* crypto.CreateAddress: Keccak256(rlp([address, nonce]))[12:] *)
Definition create_address (a nonce : Z) : Z :=
  be_to_Z (skipn 12 (map b2z (keccak256 (encode (Lst [Str (map z2b (be_fixedZ 20 a)); Str (be_of_N (Z.to_N nonce))]))))).

(* contract.GetOp *)
Definition get_op (code : list Z) (pc : Z) : Z :=
  if pc <? blen code then nth (Z.to_nat pc) code 0 else 0.

Definition is_precompile (e : env) (a : Z) : bool :=
  (1 <=? a) && (a <=? (if e_byzantium e then 8 else 4)).

(* common.go getData(data, start, size uint64) — the uint64 variant the precompiles use.  The
   wrap of start+size, the slice expression and the allocation of RightPadBytes are explicit:
   data[start:end] with end < start and make([]byte, l) beyond the allocator's limit are Go panics *)
Definition maxAlloc : Z := 2 ^ 48.
Definition getDataU (data : list Z) (start size : Z) : res (list Z) :=
  let length := blen data in
  let start1 := if start >? length then length else start in
  let end0 := wrap64 (start1 + size) in
  let end1 := if end0 >? length then length else end0 in
  if end1 <? start1 then Panic
  else
    let sl := slice data start1 end1 in
    let l := to_int64 size in                        (* int(size) *)
    if l <=? blen sl then Ok sl
    else if l >? maxAlloc then Panic                 (* makeslice: len out of range *)
    else Ok (sl ++ repeat 0 (Z.to_nat (l - blen sl))).

(* the three 32-byte length fields of a bigModExp input and the rest of the input *)
Definition modexp_header (input : list Z) : res (Z * Z * Z * list Z) :=
  match getDataU input 0 32, getDataU input 32 32, getDataU input 64 32 with
  | Ok b, Ok e, Ok m => Ok (be_to_Z b, be_to_Z e, be_to_Z m, if blen input >? 96 then skipn 96 input else [])
  | _, _, _ => Panic
  end.

(* contracts.go bigModExp.RequiredGas *)
Definition modexp_gas (input : list Z) : res Z :=
  match modexp_header input with
  | Ok (baseLen, expLen, modLen, rest) =>
      let expHeadR :=
        if blen rest <=? baseLen then Ok []
        else if expLen >? 32 then getDataU rest (big_Uint64 baseLen) 32
        else getDataU rest (big_Uint64 baseLen) (big_Uint64 expLen) in
      match expHeadR with
      | Ok eh =>
          let expHead := be_to_Z eh in
          let msb := if BitLen expHead >? 0 then BitLen expHead - 1 else 0 in
          let adjExpLen := (if expLen >? 32 then 8 * (expLen - 32) else 0) + msb in
          let g := Z.max modLen baseLen in
          let g1 := if g <=? 64 then g * g
                    else if g <=? 1024 then g * g / 4 + (96 * g - 3072)
                    else g * g / 16 + (480 * g - 199680) in
          let g2 := g1 * Z.max adjExpLen 1 / 20 in
          Ok (if BitLen g2 >? 64 then maxU64 else big_Uint64 g2)
      | Err er => Err er
      | Panic => Panic
      end
  | Err er => Err er
  | Panic => Panic
  end.

(* x^y mod m by square and multiply over the bits of y (big.Int.Exp with m > 0, y >= 0) *)
Fixpoint powmod_pos (x : Z) (y : positive) (m : Z) : Z :=
  match y with
  | xH => x mod m
  | xO p => let h := powmod_pos x p m in (h * h) mod m
  | xI p => let h := powmod_pos x p m in (h * h mod m) * (x mod m) mod m
  end.
Definition powmod (x y m : Z) : Z := match y with Zpos p => powmod_pos x p m | _ => 1 mod m end.

(* contracts.go bigModExp.Run: the lengths are truncated to uint64 *)
Definition modexp_run (input : list Z) : res (list Z) :=
  match modexp_header input with
  | Ok (baseLenB, expLenB, modLenB, rest) =>
      let baseLen := big_Uint64 baseLenB in
      let expLen := big_Uint64 expLenB in
      let modLen := big_Uint64 modLenB in
      if (baseLen =? 0) && (modLen =? 0) then Ok []
      else
        match getDataU rest 0 baseLen with
        | Ok bb =>
          match getDataU rest baseLen expLen with
          | Ok eb =>
            match getDataU rest (wrap64 (baseLen + expLen)) modLen with
            | Ok mb =>
                let m := be_to_Z mb in
                let l := to_int64 modLen in
                if l >? maxAlloc then Panic
                else if BitLen m =? 0 then Ok (repeat 0 (Z.to_nat l))
                else Ok (be_fixedZ (Z.to_nat l) (powmod (be_to_Z bb) (be_to_Z eb) m))
            | Err er => Err er | Panic => Panic end
          | Err er => Err er | Panic => Panic end
        | Err er => Err er | Panic => Panic end
  | Err er => Err er
  | Panic => Panic
  end.

(* contracts.go RequiredGas of the other contracts (a price for an address that is none is taken from the oracle) *)
Definition precompile_gas (a : Z) (input : list Z) (oracle_gas : Z) : Z :=
  let words := wrap64 (blen input + 31) / 32 in
  if a =? 1 then 3000
  else if a =? 2 then wrap64 (words * 12 + 60)
  else if a =? 3 then wrap64 (words * 120 + 600)
  else if a =? 4 then wrap64 (words * 3 + 15)
  else if a =? 6 then 500
  else if a =? 7 then 40000
  else if a =? 8 then wrap64 (100000 + (blen input / 192) * 80000)
  else wrap64 oracle_gas.   (* RequiredGas returns a uint64 *)

Definition mkout (r : rres) (gas : Z) (w : world) (rd : list Z) (tr : list tentry) (ro : bool) : outcome := mk_out r gas w rd tr 0 ro.

(* contracts.go RunPrecompiledContract.  bigModExp (5) and dataCopy (4) are modelled completely; the
   outputs of the others come from the oracle *)
Definition run_precompile (e : env) (w : world) (a : Z) (input : list Z) (gas : Z) (rd : list Z) (tr : list tentry) (ro : bool) : outcome :=
  if a =? 5 then
    match modexp_gas input with
    | Ok need =>
        if gas <? need then mkout (R_err (IE_op ErrOutOfGas) []) gas w rd tr ro
        else match modexp_run input with
             | Ok out => mkout (R_ok out) (gas - need) w rd tr ro
             | _ => mkout R_panic (gas - need) w rd tr ro
             end
    | _ => mkout R_panic gas w rd tr ro
    end
  else
  match e_precomp e a input with
  | None => mkout (R_err IE_OracleMissing []) gas w rd tr ro
  | Some (og, result) =>
      let need := precompile_gas a input og in
      if gas <? need then mkout (R_err (IE_op ErrOutOfGas) []) gas w rd tr ro
      else if a =? 4 then mkout (R_ok input) (gas - need) w rd tr ro        (* dataCopy.Run *)
      else match result with
           | Some out => mkout (R_ok out) (gas - need) w rd tr ro
           | None => mkout (R_err IE_Precompile []) (gas - need) w rd tr ro
           end
  end.

Definition new_frame (code input : list Z) (self caller value gas : Z) (ro : bool) (depth : Z) (tr : list tentry) : frame :=
  mk_frame 0 [] [] 0 gas code input [] self caller value ro depth tr.

(* the interpreter on a fresh frame: what [rec] stands for below *)
Definition interp_t := world -> frame -> outcome.

(* evm.go run(): precompile or interpreter; [rd] is interpreter.returnData at this point (it is only
   reset when Interpreter.Run is entered) *)
Definition run_contract (rec : interp_t) (e : env) (w : world) (codeaddr : Z) (fr : frame) (rd : list Z) : outcome :=
  if is_precompile e codeaddr then run_precompile e w codeaddr (f_input fr) (f_gas fr) rd (f_trace fr) (f_ro fr)
  else rec w fr.

(* the tail shared by the four call kinds: revert to the snapshot on any error, and consume all
   gas unless the error is errExecutionReverted *)
Definition finish_call (snapshot : world) (o : outcome) : outcome :=
  match o_res o with
  | R_ok _ => o
  | R_revert _ => mk_out (o_res o) (o_gas o) snapshot (o_rd o) (o_trace o) (o_addr o) (o_ro o)
  | R_err _ _ => mk_out (o_res o) 0 snapshot (o_rd o) (o_trace o) (o_addr o) (o_ro o)
  | R_panic => o
  | R_fuel => o
  end.

(* evm.Call; [depth] is evm.depth at the time of the call *)
Definition do_call (rec : interp_t) (e : env) (w : world) (rd : list Z) (tr : list tentry) (depth : Z) (ro : bool)
           (caller addr : Z) (input : list Z) (gas value : Z) : outcome :=
  if depth >? CallCreateDepth then mkout (R_err IE_Depth []) gas w rd tr ro
  else if negb (can_transfer w caller value) then mkout (R_err IE_InsufficientBalance []) gas w rd tr ro
  else
    let snapshot := w in
    if negb (exist w addr) && negb (is_precompile e addr) && e_eip158 e && (Z.sgn value =? 0)
    then mkout (R_ok []) gas w rd tr ro
    else
      let w1 := if negb (exist w addr) then create_account w addr else w in
      let w2 := transfer w1 caller addr value in
      let fr := new_frame (get_code w2 addr) input addr caller value gas ro (depth + 1) tr in
      finish_call snapshot (run_contract rec e w2 addr fr rd).

(* evm.CallCode *)
Definition do_callcode (rec : interp_t) (e : env) (w : world) (rd : list Z) (tr : list tentry) (depth : Z) (ro : bool)
           (caller addr : Z) (input : list Z) (gas value : Z) : outcome :=
  if depth >? CallCreateDepth then mkout (R_err IE_Depth []) gas w rd tr ro
  else if negb (can_transfer w caller value) then mkout (R_err IE_InsufficientBalance []) gas w rd tr ro
  else
    let fr := new_frame (get_code w addr) input caller caller value gas ro (depth + 1) tr in
    finish_call w (run_contract rec e w addr fr rd).

(* evm.DelegateCall: the caller and the value of the parent frame are kept *)
Definition do_delegatecall (rec : interp_t) (e : env) (w : world) (rd : list Z) (tr : list tentry) (depth : Z) (ro : bool)
           (self parent_caller parent_value addr : Z) (input : list Z) (gas : Z) : outcome :=
  if depth >? CallCreateDepth then mkout (R_err IE_Depth []) gas w rd tr ro
  else
    let fr := new_frame (get_code w addr) input self parent_caller parent_value gas ro (depth + 1) tr in
    finish_call w (run_contract rec e w addr fr rd).

(* evm.StaticCall.  interpreter.readOnly is mutable state of the interpreter, not a parameter:
     if !evm.interpreter.readOnly { evm.interpreter.readOnly = true; defer func() { evm.interpreter.readOnly = false }() }
   [ro] is the flag when StaticCall is entered; the callee (and every frame below it) runs with the flag
   on; the flag is switched off again on return exactly when this call switched it on.  The flag every
   call hands back is [o_ro]; the caller goes on with it (after_child).  InterpProofsStatic.v proves
   that every call kind hands back the flag it was entered with (flag_discipline), i.e. that the
   mutable flag behaves like a parameter passed down. *)
Definition set_out_ro (o : outcome) (ro : bool) : outcome :=
  mk_out (o_res o) (o_gas o) (o_world o) (o_rd o) (o_trace o) (o_addr o) ro.
Definition do_staticcall (rec : interp_t) (e : env) (w : world) (rd : list Z) (tr : list tentry) (depth : Z) (ro : bool)
           (caller addr : Z) (input : list Z) (gas : Z) : outcome :=
  if depth >? CallCreateDepth then mkout (R_err IE_Depth []) gas w rd tr ro
  else
    let fr := new_frame (get_code w addr) input addr caller 0 gas true (depth + 1) tr in
    let o := finish_call w (run_contract rec e w addr fr rd) in
    if ro then o else set_out_ro o false.

(* evm.Create *)
Definition do_create (rec : interp_t) (e : env) (w : world) (rd : list Z) (tr : list tentry) (depth : Z) (ro : bool)
           (caller : Z) (code : list Z) (gas value : Z) : outcome :=
  if depth >? CallCreateDepth then mkout (R_err IE_Depth []) gas w rd tr ro
  else if negb (can_transfer w caller value) then mkout (R_err IE_InsufficientBalance []) gas w rd tr ro
  else
    let nonce := get_nonce w caller in
    let w0 := set_nonce w caller (wrap64 (nonce + 1)) in
    let addr := create_address caller nonce in
    if negb (get_nonce w0 addr =? 0) || match get_code w0 addr with [] => false | _ => true end
    then mk_out (R_err IE_Collision []) 0 w0 rd tr 0 ro
    else
      let snapshot := w0 in
      let w1 := create_account w0 addr in
      let w2 := if e_eip158 e then set_nonce w1 addr 1 else w1 in
      let w3 := transfer w2 caller addr value in
      let fr := new_frame code [] addr caller value gas ro (depth + 1) tr in
      let o := run_contract rec e w3 addr fr rd in
      match o_res o with
      | R_panic | R_fuel => o
      | _ =>
        let ret := ret_of (o_res o) in
        let exceeded := e_eip158 e && (blen ret >? MaxCodeSize) in
        (* store the code if the run succeeded *)
        let '(res1, gas1, wa) :=
          match o_res o with
          | R_ok _ =>
              if exceeded then (o_res o, o_gas o, o_world o)
              else
                let createDataGas := wrap64 (blen ret * CreateDataGas) in
                if o_gas o <? createDataGas then (R_err IE_CodeStoreOutOfGas ret, o_gas o, o_world o)
                else (o_res o, o_gas o - createDataGas, set_code (o_world o) addr ret)
          | r => (r, o_gas o, o_world o)
          end in
        let failed := match res1 with R_ok _ => false | _ => true end in
        let is_cso := match res1 with R_err IE_CodeStoreOutOfGas _ => true | _ => false end in
        let is_rev := match res1 with R_revert _ => true | _ => false end in
        let revert := exceeded || (failed && (e_homestead e || negb is_cso)) in
        let wb := if revert then snapshot else wa in
        let gas2 := if revert && negb is_rev then 0 else gas1 in
        let res2 := if exceeded && negb failed then R_err IE_MaxCodeSize ret else res1 in
        mk_out res2 gas2 wb (o_rd o) (o_trace o) addr (o_ro o)
      end.

(* ------------------------------------------------------------------ one instruction *)

Definition back (st : list Z) (n : nat) : option Z := nth_error st n.

(* memory_table.go: the big.Int the memorySize function returns; None = stack index out of range *)
Definition mem_size_big (m : memfn) (st : list Z) : option (option Z) :=
  let cs (o l : nat) := match back st o, back st l with Some a, Some b => Some (Some (calcMemSize a b)) | _, _ => None end in
  let cs2 (o1 l1 o2 l2 : nat) :=
    match back st o1, back st l1, back st o2, back st l2 with
    | Some a, Some b, Some c, Some d => Some (Some (Z.max (calcMemSize a b) (calcMemSize c d)))
    | _, _, _, _ => None
    end in
  let fixed (l : Z) := match back st 0 with Some a => Some (Some (calcMemSize a l)) | None => None end in
  match m with
  | M_none => Some None
  | M_sha3 => cs 0%nat 1%nat
  | M_calldatacopy | M_returndatacopy | M_codecopy => cs 0%nat 2%nat
  | M_extcodecopy => cs 1%nat 3%nat
  | M_mload | M_mstore => fixed 32
  | M_mstore8 => fixed 1
  | M_create => cs 1%nat 2%nat
  | M_call => cs2 5%nat 6%nat 3%nat 4%nat
  | M_delegatecall | M_staticcall => cs2 4%nat 5%nat 2%nat 3%nat
  | M_return | M_revert => cs 0%nat 1%nat
  | M_log => cs 0%nat 1%nat
  | M_unknown => None
  end.

(* what a gas function hands back: cost, new Memory.lastGasCost, world (AddRefund), evm.callGasTemp *)
Record gasres : Type := mk_gasres { g_cost : Z; g_last : Z; g_world : world; g_temp : Z }.

Definition lift_pair (w : world) (r : res (Z * Z)) : res gasres :=
  match r with Ok (c, l) => Ok (mk_gasres c l w 0) | Err e => Err e | Panic => Panic end.

(* the tail of gasCall / gasCallCode / gasDelegateCall / gasStaticCall: base gas [gas] (already
   including the memory fee), then callGas and the final addition *)
Definition call_gas_tail (e : env) (w : world) (avail gas last' callCost : Z) : res gasres :=
  match callGas (ig_base (e_gt e)) avail gas callCost with
  | Ok temp =>
      let '(total, o) := SafeAdd gas temp in
      if o then Err ErrGasUintOverflow else Ok (mk_gasres total last' w temp)
  | Err er => Err er
  | Panic => Panic
  end.

(* gas_table.go, by the name bound in the table.  A stack index out of range is a Go panic. *)
Definition gas_cost (e : env) (w : world) (fr : frame) (g : gasfn) (memorySize : Z) : res gasres :=
  let st := f_stack fr in
  let ml := blen (f_mem fr) in
  let la := f_last fr in
  let gt := e_gt e in
  let with1 (n : nat) (f : Z -> res (Z * Z)) := match back st n with Some x => lift_pair w (f x) | None => Panic end in
  match g with
  | G_const c => Ok (mk_gasres c la w 0)
  | G_push | G_dup | G_swap => Ok (mk_gasres GasFastestStep la w 0)
  | G_balance => Ok (mk_gasres (ig_Balance gt) la w 0)
  | G_extcodesize => Ok (mk_gasres (ig_ExtcodeSize gt) la w 0)
  | G_sload => Ok (mk_gasres (ig_SLoad gt) la w 0)
  | G_exp => match back st 1 with
             | Some x => match gasExp (ig_base gt) x with Ok c => Ok (mk_gasres c la w 0) | Err er => Err er | Panic => Panic end
             | None => Panic end
  | G_sha3 => with1 1%nat (gasSha3 ml la memorySize)
  | G_calldatacopy => with1 2%nat (gasCallDataCopy ml la memorySize)
  | G_codecopy => with1 2%nat (gasCodeCopy ml la memorySize)
  | G_returndatacopy => with1 2%nat (gasReturnDataCopy ml la memorySize)
  | G_extcodecopy => with1 3%nat (gasExtCodeCopy (ig_base gt) ml la memorySize)
  | G_mload => lift_pair w (gasMLoad ml la memorySize)
  | G_mstore => lift_pair w (gasMStore ml la memorySize)
  | G_mstore8 => lift_pair w (gasMStore8 ml la memorySize)
  | G_create => lift_pair w (gasCreate ml la memorySize)
  | G_return | G_revert => lift_pair w (gasReturn ml la memorySize)
  | G_log n => with1 1%nat (gasLog n ml la memorySize)
  | G_sstore =>
      (* gasSStore: y = Back(1), x = Back(0) *)
      match back st 0, back st 1 with
      | Some x, Some y =>
          let val := get_state w (f_self fr) (hash_of x) in
          if (val =? 0) && negb (hash_of y =? 0) then Ok (mk_gasres SstoreSetGas la w 0)
          else if negb (val =? 0) && (hash_of y =? 0) then Ok (mk_gasres SstoreClearGas la (add_refund w SstoreRefundGas) 0)
          else Ok (mk_gasres SstoreResetGas la w 0)
      | _, _ => Panic
      end
  | G_suicide =>
      match back st 0 with
      | Some x =>
          let gas :=
            if e_eip150 e then
              let address := addr_of x in
              ig_Suicide gt +
              (if e_eip158 e
               then (if empty w address && negb (Z.sgn (get_balance w (f_self fr)) =? 0) then gt_CreateBySuicide (ig_base gt) else 0)
               else (if negb (exist w address) then gt_CreateBySuicide (ig_base gt) else 0))
            else 0 in
          let w' := if negb (has_suicided w (f_self fr)) then add_refund w SuicideRefundGas else w in
          Ok (mk_gasres gas la w' 0)
      | None => Panic
      end
  | G_call =>
      match back st 0, back st 1, back st 2 with
      | Some callCost, Some a, Some v =>
          let transfersValue := negb (Z.sgn v =? 0) in
          let address := addr_of a in
          let gas0 := gt_Calls (ig_base gt) in
          let gas1 := gas0 + (if e_eip158 e
                              then (if transfersValue && empty w address then CallNewAccountGas else 0)
                              else (if negb (exist w address) then CallNewAccountGas else 0)) in
          let gas2 := gas1 + (if transfersValue then CallValueTransferGas else 0) in
          match memoryGasCost ml la memorySize with
          | Ok (memoryGas, last') =>
              let '(gas3, o) := SafeAdd gas2 memoryGas in
              if o then Err ErrGasUintOverflow else call_gas_tail e w (f_gas fr) gas3 last' callCost
          | Err er => Err er
          | Panic => Panic
          end
      | _, _, _ => Panic
      end
  | G_callcode =>
      match back st 0, back st 2 with
      | Some callCost, Some v =>
          let gas2 := gt_Calls (ig_base gt) + (if negb (Z.sgn v =? 0) then CallValueTransferGas else 0) in
          match memoryGasCost ml la memorySize with
          | Ok (memoryGas, last') =>
              let '(gas3, o) := SafeAdd gas2 memoryGas in
              if o then Err ErrGasUintOverflow else call_gas_tail e w (f_gas fr) gas3 last' callCost
          | Err er => Err er
          | Panic => Panic
          end
      | _, _ => Panic
      end
  | G_delegatecall | G_staticcall =>
      match back st 0 with
      | Some callCost =>
          match memoryGasCost ml la memorySize with
          | Ok (memoryGas, last') =>
              let '(gas3, o) := SafeAdd memoryGas (gt_Calls (ig_base gt)) in
              if o then Err ErrGasUintOverflow else call_gas_tail e w (f_gas fr) gas3 last' callCost
          | Err er => Err er
          | Panic => Panic
          end
      | None => Panic
      end
  | G_unknown => Panic
  end.

(* result of operation.execute *)
Inductive xres : Type :=
| X_ok (w : world) (fr : frame) (res : list Z)   (* err == nil; res is the returned byte slice *)
| X_err (e : ierr)
| X_panic
| X_fuel.

Definition set_stack (fr : frame) (st : list Z) : frame :=
  mk_frame (f_pc fr) st (f_mem fr) (f_last fr) (f_gas fr) (f_code fr) (f_input fr) (f_rdata fr) (f_self fr)
           (f_caller fr) (f_value fr) (f_ro fr) (f_depth fr) (f_trace fr).
Definition set_stack_mem (fr : frame) (st mem : list Z) : frame :=
  mk_frame (f_pc fr) st mem (f_last fr) (f_gas fr) (f_code fr) (f_input fr) (f_rdata fr) (f_self fr)
           (f_caller fr) (f_value fr) (f_ro fr) (f_depth fr) (f_trace fr).
Definition set_pc_stack (fr : frame) (pc : Z) (st : list Z) : frame :=
  mk_frame pc st (f_mem fr) (f_last fr) (f_gas fr) (f_code fr) (f_input fr) (f_rdata fr) (f_self fr)
           (f_caller fr) (f_value fr) (f_ro fr) (f_depth fr) (f_trace fr).
Definition set_pc (fr : frame) (pc : Z) : frame := set_pc_stack fr pc (f_stack fr).
Definition set_rdata (fr : frame) (rd : list Z) : frame :=
  mk_frame (f_pc fr) (f_stack fr) (f_mem fr) (f_last fr) (f_gas fr) (f_code fr) (f_input fr) rd (f_self fr)
           (f_caller fr) (f_value fr) (f_ro fr) (f_depth fr) (f_trace fr).
(* after a child came back: stack, memory, gas, interpreter.returnData, trace *)
Definition after_child (fr : frame) (st mem : list Z) (gas : Z) (rd : list Z) (tr : list tentry) (ro : bool) : frame :=
  mk_frame (f_pc fr) st mem (f_last fr) gas (f_code fr) (f_input fr) rd (f_self fr)
           (f_caller fr) (f_value fr) ro (f_depth fr) tr.

Definition lift_mem (w : world) (fr : frame) (st : list Z) (r : res (list Z)) : xres :=
  match r with Ok m => X_ok w (set_stack_mem fr st m) [] | Err e => X_err (IE_op e) | Panic => X_panic end.

(* the tail shared by opCall / opCallCode / opDelegateCall / opStaticCall once the child [o] is back *)
Definition call_return (w : world) (fr : frame) (rest : list Z) (retOffset retSize : Z) (o : outcome) : xres :=
  match o_res o with
  | R_panic => X_panic
  | R_fuel => X_fuel
  | r =>
      let ret := ret_of r in
      let flag := match r with R_ok _ => 1 | _ => 0 end in
      let memr := match r with
                  | R_ok _ | R_revert _ => mem_set (f_mem fr) (big_Uint64 retOffset) (big_Uint64 retSize) ret
                  | _ => Ok (f_mem fr) end in
      match memr with
      | Ok m => X_ok (o_world o) (after_child fr (flag :: rest) m (wrap64 (f_gas fr + o_gas o)) (o_rd o) (o_trace o) (o_ro o)) ret
      | Err er => X_err (IE_op er)
      | Panic => X_panic
      end
  end.

(* instructions.go, by the name bound in the table.  [fr] has the gas already deducted and the
   memory already resized; [temp] is evm.callGasTemp.  A stack shape that does not fit is a Go
   panic (index out of range in Stack.pop). *)
Definition exec (rec : interp_t) (e : env) (w : world) (fr : frame) (x : execfn) (temp : Z) : xres :=
  let st := f_stack fr in
  let mem := f_mem fr in
  let push1 (v : Z) := X_ok w (set_stack fr (v :: st)) [] in
  match x with
  | E_arith op =>
      match exec_arith op st with
      | Ok st' => X_ok w (set_stack fr st') [] | Err er => X_err (IE_op er) | Panic => X_panic end
  | E_stop | E_jumpdest => X_ok w fr []
  | E_sha3 =>
      match st with
      | offset :: size :: r =>
          match mem_get mem (big_Int64 offset) (big_Int64 size) with
          | Ok data => X_ok w (set_stack fr (be_to_Z (hashZ data) :: r)) []
          | Err er => X_err (IE_op er) | Panic => X_panic end
      | _ => X_panic end
  | E_address => push1 (f_self fr)
  | E_balance => match st with a :: r => X_ok w (set_stack fr (get_balance w (addr_of a) :: r)) [] | _ => X_panic end
  | E_origin => push1 (e_origin e)
  | E_caller => push1 (f_caller fr)
  | E_callvalue => push1 (f_value fr)
  | E_calldataload => match st with i :: r => X_ok w (set_stack fr (op_CALLDATALOAD (f_input fr) i :: r)) [] | _ => X_panic end
  | E_calldatasize => push1 (op_CALLDATASIZE (f_input fr))
  | E_calldatacopy =>
      match st with a :: b :: c :: r => lift_mem w fr r (op_DATACOPY mem (f_input fr) a b c) | _ => X_panic end
  | E_codesize => push1 (blen (f_code fr))
  | E_codecopy =>
      match st with a :: b :: c :: r => lift_mem w fr r (op_DATACOPY mem (f_code fr) a b c) | _ => X_panic end
  | E_gasprice => push1 (e_gasprice e)
  | E_extcodesize => match st with a :: r => X_ok w (set_stack fr (blen (get_code w (addr_of a)) :: r)) [] | _ => X_panic end
  | E_extcodecopy =>
      match st with a :: b :: c :: d :: r => lift_mem w fr r (op_DATACOPY mem (get_code w (addr_of a)) b c d) | _ => X_panic end
  | E_returndatasize => push1 (blen (f_rdata fr))
  | E_returndatacopy =>
      match st with a :: b :: c :: r => lift_mem w fr r (op_RETURNDATACOPY mem (f_rdata fr) a b c) | _ => X_panic end
  | E_blockhash =>
      match st with
      | num :: r =>
          let n := e_number e - 257 in
          X_ok w (set_stack fr ((if (num >? n) && (num <? e_number e) then e_blockhash e (big_Uint64 num) else 0) :: r)) []
      | _ => X_panic end
  | E_coinbase => push1 (e_coinbase e)
  | E_timestamp => push1 (U256 (e_time e))
  | E_number => push1 (U256 (e_number e))
  | E_difficulty => push1 (U256 (e_difficulty e))
  | E_gaslimit => push1 (U256 (e_gaslimit e))
  | E_pop => match st with _ :: r => X_ok w (set_stack fr r) [] | _ => X_panic end
  | E_mload =>
      match st with
      | off :: r => match op_MLOAD mem off with Ok v => X_ok w (set_stack fr (v :: r)) [] | Err er => X_err (IE_op er) | Panic => X_panic end
      | _ => X_panic end
  | E_mstore => match st with a :: v :: r => lift_mem w fr r (op_MSTORE mem a v) | _ => X_panic end
  | E_mstore8 => match st with a :: v :: r => lift_mem w fr r (op_MSTORE8 mem a v) | _ => X_panic end
  | E_sload => match st with loc :: r => X_ok w (set_stack fr (get_state w (f_self fr) (hash_of loc) :: r)) [] | _ => X_panic end
  | E_sstore =>
      match st with loc :: v :: r => X_ok (set_state w (f_self fr) (hash_of loc) (hash_of v)) (set_stack fr r) [] | _ => X_panic end
  | E_jump =>
      match st with
      | pos :: r => match op_JUMP (f_code fr) pos with Ok pc' => X_ok w (set_pc_stack fr pc' r) [] | Err er => X_err (IE_op er) | Panic => X_panic end
      | _ => X_panic end
  | E_jumpi =>
      match st with
      | pos :: cond :: r =>
          match op_JUMPI (f_code fr) (f_pc fr) pos cond with
          | Ok pc' => X_ok w (set_pc_stack fr pc' r) [] | Err er => X_err (IE_op er) | Panic => X_panic end
      | _ => X_panic end
  | E_pc => push1 (f_pc fr)
  | E_msize => push1 (op_MSIZE mem)
  | E_gas => push1 (f_gas fr)
  | E_push n =>
      let '(v, pc') := op_PUSH (f_code fr) (f_pc fr) n n in
      X_ok w (set_pc_stack fr pc' (v :: st)) []
  | E_dup n => match op_DUP n st with Ok st' => X_ok w (set_stack fr st') [] | Err er => X_err (IE_op er) | Panic => X_panic end
  | E_swap n => match op_SWAP n st with Ok st' => X_ok w (set_stack fr st') [] | Err er => X_err (IE_op er) | Panic => X_panic end
  | E_log n =>
      match st with
      | mStart :: mSize :: r =>
          if Z.of_nat (length r) <? n then X_panic
          else
            let topics := map hash_of (firstn (Z.to_nat n) r) in
            match mem_get mem (big_Int64 mStart) (big_Int64 mSize) with
            | Ok d => X_ok (add_log w (mk_log (f_self fr) topics d)) (set_stack fr (skipn (Z.to_nat n) r)) []
            | Err er => X_err (IE_op er) | Panic => X_panic end
      | _ => X_panic end
  | E_create =>
      match st with
      | value :: offset :: size :: r =>
          match mem_get mem (big_Int64 offset) (big_Int64 size) with
          | Ok input =>
              let gas := if e_eip150 e then f_gas fr - f_gas fr / 64 else f_gas fr in
              let left := f_gas fr - gas in                                   (* contract.UseGas(gas) *)
              let o := do_create rec e w (f_rdata fr) (f_trace fr) (f_depth fr) (f_ro fr) (f_self fr) input gas value in
              match o_res o with
              | R_panic => X_panic
              | R_fuel => X_fuel
              | rr =>
                  let is_cso := match rr with R_err IE_CodeStoreOutOfGas _ => true | _ => false end in
                  let failed := is_failure rr in
                  let pushed :=
                    if e_homestead e && is_cso then 0
                    else if failed && negb is_cso then 0
                    else o_addr o in
                  let res := match rr with R_revert ret => ret | _ => [] end in
                  X_ok (o_world o) (after_child fr (pushed :: r) mem (wrap64 (left + o_gas o)) (o_rd o) (o_trace o) (o_ro o)) res
              end
          | Err er => X_err (IE_op er) | Panic => X_panic end
      | _ => X_panic end
  | E_call =>
      match st with
      | _ :: addr :: value0 :: inOffset :: inSize :: retOffset :: retSize :: r =>
          let value := U256 value0 in
          match mem_get mem (big_Int64 inOffset) (big_Int64 inSize) with
          | Ok args =>
              let gas := if negb (Z.sgn value =? 0) then wrap64 (temp + CallStipend) else temp in
              call_return w fr r retOffset retSize
                (do_call rec e w (f_rdata fr) (f_trace fr) (f_depth fr) (f_ro fr) (f_self fr) (addr_of addr) args gas value)
          | Err er => X_err (IE_op er) | Panic => X_panic end
      | _ => X_panic end
  | E_callcode =>
      match st with
      | _ :: addr :: value0 :: inOffset :: inSize :: retOffset :: retSize :: r =>
          let value := U256 value0 in
          match mem_get mem (big_Int64 inOffset) (big_Int64 inSize) with
          | Ok args =>
              let gas := if negb (Z.sgn value =? 0) then wrap64 (temp + CallStipend) else temp in
              call_return w fr r retOffset retSize
                (do_callcode rec e w (f_rdata fr) (f_trace fr) (f_depth fr) (f_ro fr) (f_self fr) (addr_of addr) args gas value)
          | Err er => X_err (IE_op er) | Panic => X_panic end
      | _ => X_panic end
  | E_delegatecall =>
      match st with
      | _ :: addr :: inOffset :: inSize :: retOffset :: retSize :: r =>
          match mem_get mem (big_Int64 inOffset) (big_Int64 inSize) with
          | Ok args =>
              call_return w fr r retOffset retSize
                (do_delegatecall rec e w (f_rdata fr) (f_trace fr) (f_depth fr) (f_ro fr) (f_self fr) (f_caller fr) (f_value fr)
                                 (addr_of addr) args temp)
          | Err er => X_err (IE_op er) | Panic => X_panic end
      | _ => X_panic end
  | E_staticcall =>
      match st with
      | _ :: addr :: inOffset :: inSize :: retOffset :: retSize :: r =>
          match mem_get mem (big_Int64 inOffset) (big_Int64 inSize) with
          | Ok args =>
              call_return w fr r retOffset retSize
                (do_staticcall rec e w (f_rdata fr) (f_trace fr) (f_depth fr) (f_ro fr) (f_self fr) (addr_of addr) args temp)
          | Err er => X_err (IE_op er) | Panic => X_panic end
      | _ => X_panic end
  | E_return | E_revert =>
      match st with
      | offset :: size :: r =>
          match mem_get mem (big_Int64 offset) (big_Int64 size) with
          | Ok ret => X_ok w (set_stack fr r) ret | Err er => X_err (IE_op er) | Panic => X_panic end
      | _ => X_panic end
  | E_suicide =>
      match st with
      | a :: r =>
          let balance := get_balance w (f_self fr) in
          X_ok (suicide (add_balance w (addr_of a) balance) (f_self fr)) (set_stack fr r) []
      | _ => X_panic end
  | E_unknown => X_panic
  end.

Inductive sres : Type :=
| S_next (w : world) (fr : frame)   (* the loop goes on *)
| S_done (o : outcome).             (* Run returns *)

Definition fail (w : world) (fr : frame) (er : ierr) : sres := S_done (mkout (R_err er []) (f_gas fr) w (f_rdata fr) (f_trace fr) (f_ro fr)).

(* interpreter.go enforceRestrictions *)
Definition restricted (e : env) (fr : frame) (op : Z) (c : cop) : bool :=
  e_byzantium e && f_ro fr &&
  (c_writes c || ((op =? 0xf1) && match back (f_stack fr) 2 with Some v => BitLen v >? 0 | None => false end)).

(* one iteration of the loop of Interpreter.Run *)
Definition step (rec : interp_t) (e : env) (w : world) (fr : frame) : sres :=
  let op := get_op (f_code fr) (f_pc fr) in
  let c := nth (Z.to_nat op) (e_tbl e) invalid_cop in
  if negb (c_valid c) then fail w fr (IE_op ErrInvalidOpcode)
  else
  match validateStack (c_pops c) (c_pushes c) (blen (f_stack fr)) with
  | Err er => fail w fr (IE_op er)
  | Panic => S_done (mkout R_panic (f_gas fr) w (f_rdata fr) (f_trace fr) (f_ro fr))
  | Ok _ =>
  (* CALL in a static context reads Back(2): validateStack has already checked 7 items *)
  if restricted e fr op c then fail w fr IE_WriteProtection
  else
  match mem_size_big (c_mem c) (f_stack fr) with
  | None => S_done (mkout R_panic (f_gas fr) w (f_rdata fr) (f_trace fr) (f_ro fr))
  | Some msb =>
  match (match msb with None => Ok 0 | Some b => run_memorySize b end) with
  | Err er => fail w fr (IE_op er)
  | Panic => S_done (mkout R_panic (f_gas fr) w (f_rdata fr) (f_trace fr) (f_ro fr))
  | Ok memorySize =>
  match gas_cost e w fr (c_gas c) memorySize with
  | Panic => S_done (mkout R_panic (f_gas fr) w (f_rdata fr) (f_trace fr) (f_ro fr))
  | Err _ => fail w fr (IE_op ErrOutOfGas)
  | Ok g =>
  if f_gas fr <? g_cost g then fail (g_world g) fr (IE_op ErrOutOfGas)
  else
    let mem1 := if memorySize >? 0 then mem_resize (f_mem fr) memorySize else f_mem fr in
    let tr1 := if e_trace e
               then mk_tentry (f_depth fr) (f_pc fr) op (f_gas fr) (g_cost g) (blen mem1) (f_stack fr) :: f_trace fr
               else f_trace fr in
    let fr1 := mk_frame (f_pc fr) (f_stack fr) mem1 (g_last g) (f_gas fr - g_cost g) (f_code fr) (f_input fr)
                        (f_rdata fr) (f_self fr) (f_caller fr) (f_value fr) (f_ro fr) (f_depth fr) tr1 in
    match exec rec e (g_world g) fr1 (c_exec c) (g_temp g) with
    | X_panic => S_done (mkout R_panic (f_gas fr1) (g_world g) (f_rdata fr1) tr1 (f_ro fr1))
    | X_fuel => S_done (mkout R_fuel (f_gas fr1) (g_world g) (f_rdata fr1) tr1 (f_ro fr1))
    | X_err er => S_done (mkout (R_err er []) (f_gas fr1) (g_world g) (f_rdata fr1) tr1 (f_ro fr1))
    | X_ok w2 fr2 res =>
        let fr3 := if c_returns c then set_rdata fr2 res else fr2 in
        if c_reverts c then S_done (mkout (R_revert res) (f_gas fr3) w2 (f_rdata fr3) (f_trace fr3) (f_ro fr3))
        else if c_halts c then S_done (mkout (R_ok res) (f_gas fr3) w2 (f_rdata fr3) (f_trace fr3) (f_ro fr3))
        else if c_jumps c then S_next w2 fr3
        else S_next w2 (set_pc fr3 (wrap64 (f_pc fr3 + 1)))
    end
  end end end end.

(* Interpreter.Run on a fresh frame, given the loop: nothing happens when there is no code *)
Definition interp_of (lp : interp_t) : interp_t :=
  fun w fr => match f_code fr with
              | [] => mkout (R_ok []) (f_gas fr) w [] (f_trace fr) (f_ro fr)
              | _ => lp w fr
              end.

(* the loop of Interpreter.Run; every iteration and every nested frame consumes one unit of fuel *)
Fixpoint loop (fuel : nat) (e : env) (w : world) (fr : frame) {struct fuel} : outcome :=
  match fuel with
  | O => mkout R_fuel (f_gas fr) w (f_rdata fr) (f_trace fr) (f_ro fr)
  | S f =>
      match step (interp_of (loop f e)) e w fr with
      | S_next w' fr' => loop f e w' fr'
      | S_done o => o
      end
  end.

Definition interp (fuel : nat) (e : env) : interp_t := interp_of (loop fuel e).

(* ------------------------------------------------------------------ entry points (what the harness drives) *)

(* vm.NewEVM(...).Call(AccountRef(caller), addr, input, gas, value): evm.depth = 0, readOnly off *)
Definition call_top (fuel : nat) (e : env) (w : world) (caller addr : Z) (input : list Z) (gas value : Z) : outcome :=
  do_call (interp fuel e) e w [] [] 0 false caller addr input gas value.
(* vm.NewEVM(...).Create(AccountRef(caller), code, gas, value) *)
Definition create_top (fuel : nat) (e : env) (w : world) (caller : Z) (code : list Z) (gas value : Z) : outcome :=
  do_create (interp fuel e) e w [] [] 0 false caller code gas value.

(* the environment of a chain configuration at a height (params.ChainConfig.Rules / IsXxx, NewInterpreter) *)
Record forkcfg : Type := { fc_cc : chaincfg; fc_eip150 : option Z; fc_eip158 : option Z }.
Definition mainnet_cfg : forkcfg :=
  {| fc_cc := {| cc_homestead := Some 0; cc_byzantium := Some 36050; cc_constantinople := None; cc_hf5 := Some 22800; cc_hf1 := Some 3600 |};
     fc_eip150 := Some 0; fc_eip158 := Some 36050 |}.
Definition select_igt (c : chaincfg) (num : Z) : igt := if isForked (cc_hf1 c) num then IGasTableHF1 else IGasTableHomestead.
Definition env_of (fc : forkcfg) (num : Z) (origin gasprice coinbase gaslimit time difficulty : Z) (bh : Z -> Z)
           (pc : Z -> list Z -> option (Z * option (list Z))) (trace : bool) : env :=
  mk_env (ctbl_of (select_iset (fc_cc fc) num)) (select_igt (fc_cc fc) num)
         (isForked (cc_homestead (fc_cc fc)) num) (isForked (fc_eip150 fc) num) (isForked (fc_eip158 fc) num)
         (isForked (cc_byzantium (fc_cc fc)) num)
         origin gasprice coinbase gaslimit num time difficulty bh pc trace.
