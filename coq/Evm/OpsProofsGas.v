(* Evm/OpsProofsGas.v — the gas arithmetic of /repo/core/vm (gas_table.go, gas.go,
   common.go, stack_table.go, memory-size step of interpreter.go) as modelled in
   OpsModel.v, against the Yellow-Paper formulas of OpsSpec.v. *)
From Coq Require Import ZArith List Bool Lia ZifyBool.
From AQ Require Import Evm.OpsModel Evm.OpsSpec.
Import ListNotations.
Local Open Scope Z_scope.

#[local] Ltac Zify.zify_post_hook ::= Z.div_mod_to_equations.

(* ------------------------------------------------------------------ numeric facts *)

Lemma two64_val : two64 = 18446744073709551616.
Proof. reflexivity. Qed.

Lemma maxU64_val : maxU64 = 18446744073709551615.
Proof. reflexivity. Qed.

Lemma wrap64_small : forall x, 0 <= x < two64 -> wrap64 x = x.
Proof. intros x H. unfold wrap64. apply Z.mod_small; exact H. Qed.

Lemma BitLen_gt64 : forall v, 0 <= v -> (BitLen v >? 64) = (two64 <=? v).
Proof.
  intros v Hv. unfold BitLen. rewrite Z.abs_eq by exact Hv.
  destruct (v =? 0) eqn:E.
  - assert (v = 0) by lia. subst v. reflexivity.
  - assert (0 < v) by lia.
    pose proof (Z.log2_le_pow2 v 64 H) as L. fold two64 in L.
    destruct (two64 <=? v) eqn:E2.
    + assert (64 <= Z.log2 v) by (apply L; lia). lia.
    + assert (~ 64 <= Z.log2 v) by (intro K; apply L in K; lia). lia.
Qed.

Lemma big_Uint64_small : forall v, 0 <= v < two64 -> big_Uint64 v = v.
Proof.
  intros v H. unfold big_Uint64. rewrite Z.abs_eq by lia. apply wrap64_small; exact H.
Qed.

Lemma bigUint64_spec : forall v, 0 <= v -> bigUint64 v = (wrap64 v, two64 <=? v).
Proof.
  intros v H. unfold bigUint64, big_Uint64. rewrite Z.abs_eq by exact H.
  rewrite BitLen_gt64 by exact H. reflexivity.
Qed.

Lemma SafeAdd_spec : forall x y, SafeAdd x y = (wrap64 (x + y), maxU64 <? x + y).
Proof.
  intros x y. unfold SafeAdd. f_equal. lia.
Qed.

Lemma SafeMul_spec : forall x y, 0 <= x -> 0 <= y ->
  SafeMul x y = (wrap64 (x * y), maxU64 <? x * y).
Proof.
  intros x y Hx Hy. unfold SafeMul.
  pose proof maxU64_val as M.
  destruct (x =? 0) eqn:Ex.
  - assert (x = 0) by lia. subst x. rewrite Z.mul_0_l. reflexivity.
  - destruct (y =? 0) eqn:Ey.
    + assert (y = 0) by lia. subst y. rewrite Z.mul_0_r. reflexivity.
    + cbn [orb]. f_equal.
      assert (0 < x) by lia.
      pose proof (Z.div_mod maxU64 x ltac:(lia)) as D.
      pose proof (Z.mod_pos_bound maxU64 x H) as B.
      set (q := maxU64 / x) in *. set (r := maxU64 mod x) in *.
      destruct (y >? q) eqn:E1; destruct (maxU64 <? x * y) eqn:E2; try reflexivity; exfalso.
      * assert (q + 1 <= y) by lia.
        assert (x * (q + 1) <= x * y) by (apply Z.mul_le_mono_nonneg_l; lia). lia.
      * assert (y <= q) by lia.
        assert (x * y <= x * q) by (apply Z.mul_le_mono_nonneg_l; lia). lia.
Qed.

(* ------------------------------------------------------------------ toWordSize *)

Theorem toWordSize_spec : forall n, 0 <= n < two64 -> toWordSize n = ceil32 n.
Proof.
  intros n H. unfold toWordSize, ceil32.
  pose proof two64_val as T. pose proof maxU64_val as M.
  destruct (n >? maxU64 - 31) eqn:E.
  - rewrite M. lia.
  - rewrite wrap64_small by lia. reflexivity.
Qed.

Lemma ceil32_nonneg : forall n, 0 <= n -> 0 <= ceil32 n.
Proof. intros n H. unfold ceil32. lia. Qed.

Lemma ceil32_mul32 : forall c, ceil32 (32 * c) = c.
Proof. intros c. unfold ceil32. lia. Qed.

Lemma ceil32_mono : forall a b, a <= b -> ceil32 a <= ceil32 b.
Proof. intros a b H. unfold ceil32. lia. Qed.

(* ------------------------------------------------------------------ run_memorySize *)

(* interpreter.go: memory size of a step from (offset, length) operands *)
Theorem run_memorySize_spec : forall off l, word off -> word l ->
  let need := if l =? 0 then 0 else off + l in
  run_memorySize (calcMemSize off l) =
    if 32 * ceil32 need <=? maxU64 then Ok (32 * ceil32 need) else Err ErrGasUintOverflow.
Proof.
  intros off l [Ho _] [Hl _] need.
  assert (Hc : calcMemSize off l = need).
  { unfold calcMemSize, need. destruct (l =? 0) eqn:E.
    - assert (l = 0) by lia. subst l. reflexivity.
    - assert (0 < l) by lia. rewrite (Z.sgn_pos l) by lia. reflexivity. }
  rewrite Hc.
  assert (Hn : 0 <= need) by (unfold need; destruct (l =? 0); lia).
  clearbody need. clear Hc.
  unfold run_memorySize. rewrite bigUint64_spec by exact Hn.
  pose proof two64_val as T. pose proof maxU64_val as M.
  destruct (two64 <=? need) eqn:E.
  - assert (two64 <= need) by lia.
    destruct (32 * ceil32 need <=? maxU64) eqn:E2; [|reflexivity].
    exfalso. unfold ceil32 in E2. lia.
  - rewrite wrap64_small by lia. rewrite toWordSize_spec by lia.
    pose proof (ceil32_nonneg need Hn) as Cn.
    rewrite SafeMul_spec by lia.
    rewrite (Z.mul_comm (ceil32 need) 32).
    set (c := ceil32 need) in *.
    destruct (32 * c <=? maxU64) eqn:E2.
    + assert (maxU64 <? 32 * c = false) as -> by lia.
      rewrite wrap64_small by lia. reflexivity.
    + assert (maxU64 <? 32 * c = true) as -> by lia. reflexivity.
Qed.

(* ------------------------------------------------------------------ Cmem *)

Lemma Cmem_mono : forall a b, 0 <= a <= b -> Cmem a <= Cmem b.
Proof.
  intros a b H. unfold Cmem.
  assert (a * a <= b * b) by (apply Z.mul_le_mono_nonneg; lia).
  assert (a * a / 512 <= b * b / 512) by (apply Z.div_le_mono; lia).
  lia.
Qed.

Lemma Cmem_nonneg : forall a, 0 <= a -> 0 <= Cmem a.
Proof.
  intros a H. pose proof (Cmem_mono 0 a ltac:(lia)) as K.
  change (Cmem 0) with 0 in K. exact K.
Qed.

Lemma Cmem_small : forall a, 0 <= a < 2^32 -> Cmem a < 2^56.
Proof.
  intros a H. pose proof (Cmem_mono a (2^32 - 1) ltac:(lia)) as K.
  change (Cmem (2^32 - 1)) with 36028809887088637 in K. lia.
Qed.

Theorem Cmem_large : forall w, 2^32 <= w -> 2^55 <= Cmem w.
Proof.
  intros w H. pose proof (Cmem_mono (2^32) w ltac:(lia)) as K.
  change (Cmem (2^32)) with 36028809903865856 in K. lia.
Qed.

(* ------------------------------------------------------------------ memoryGasCost *)

(* memory is w0 words long and lastGasCost is what was charged for it *)
Theorem memoryGasCost_spec_partial : forall w0 n, 0 <= w0 < 2^32 -> 0 <= n <= 0x1FFFFFFFE0 ->
  memoryGasCost (32 * w0) (Cmem w0) n =
    Ok (Cmem (Z.max w0 (ceil32 n)) - Cmem w0, Cmem (Z.max w0 (ceil32 n))).
Proof.
  intros w0 n Hw Hn. unfold memoryGasCost.
  pose proof two64_val as T.
  destruct (n =? 0) eqn:E0.
  - assert (n = 0) by lia. subst n. change (ceil32 0) with 0.
    rewrite Z.max_l by lia. rewrite Z.sub_diag. reflexivity.
  - assert (n >? 0xffffffffe0 = false) as -> by lia.
    rewrite toWordSize_spec by lia.
    assert (Hc : 0 < ceil32 n < 2^32) by (unfold ceil32; lia).
    set (w := ceil32 n) in *. clearbody w.
    rewrite (wrap64_small (w * 32)) by lia.
    destruct (w * 32 >? 32 * w0) eqn:E1.
    + rewrite Z.max_r by lia.
      assert (Hsq : 0 <= w * w < two64).
      { assert (w * w <= (2^32 - 1) * (2^32 - 1)) by (apply Z.mul_le_mono_nonneg; lia). lia. }
      rewrite (wrap64_small (w * w)) by exact Hsq.
      unfold MemoryGas, QuadCoeffDiv.
      rewrite (wrap64_small (w * 3)) by lia.
      replace (w * 3 + w * w / 512) with (Cmem w) by (unfold Cmem; lia).
      pose proof (Cmem_small w ltac:(lia)) as Cs.
      pose proof (Cmem_nonneg w ltac:(lia)) as Cn.
      pose proof (Cmem_nonneg w0 ltac:(lia)) as Cn0.
      pose proof (Cmem_mono w0 w ltac:(lia)) as Cm.
      rewrite (wrap64_small (Cmem w)) by lia.
      rewrite wrap64_small by lia. reflexivity.
    + rewrite Z.max_l by lia. rewrite Z.sub_diag. reflexivity.
Qed.

Theorem memoryGasCost_error : forall memLen last n, 0xffffffffe0 < n ->
  memoryGasCost memLen last n = Err ErrGasUintOverflow.
Proof.
  intros memLen last n H. unfold memoryGasCost.
  assert (n =? 0 = false) as -> by lia.
  assert (n >? 0xffffffffe0 = true) as -> by lia. reflexivity.
Qed.

(* Between 0x1FFFFFFFE0 and 0xffffffffe0 the Go code computes words*words in
   uint64, which wraps: the function does not return the formula there. *)
Theorem memoryGasCost_refuted : exists w0 n, 0 <= w0 < 2^32 /\ 0 <= n <= 0xffffffffe0 /\
  memoryGasCost (32 * w0) (Cmem w0) n <> Ok (Cmem (Z.max w0 (ceil32 n)) - Cmem w0, Cmem (Z.max w0 (ceil32 n))).
Proof.
  exists 0, (2^37). split; [lia|]. split; [lia|].
  vm_compute. intro H. discriminate H.
Qed.

(* ------------------------------------------------------------------ dynamic gas functions *)

Theorem gas_mem_words_spec : forall base perword memLen last ms len fee last',
  0 <= base < 2^32 -> 0 < perword < 2^32 -> word len ->
  memoryGasCost memLen last ms = Ok (fee, last') -> 0 <= fee < two64 ->
  gas_mem_words base perword memLen last ms len =
    if (len <? two64) && (fee + base + perword * ceil32 len <=? maxU64)
    then Ok (fee + base + perword * ceil32 len, last') else Err ErrGasUintOverflow.
Proof.
  intros base perword memLen last ms len fee last' Hb Hp [Hl _] Hm Hf.
  unfold gas_mem_words. rewrite Hm.
  pose proof two64_val as T. pose proof maxU64_val as M.
  pose proof (ceil32_nonneg len Hl) as Cn.
  assert (Hpc : 0 <= perword * ceil32 len) by (apply Z.mul_nonneg_nonneg; lia).
  rewrite SafeAdd_spec.
  destruct (maxU64 <? fee + base) eqn:E1.
  { assert (fee + base + perword * ceil32 len <=? maxU64 = false) as -> by lia.
    rewrite andb_false_r. reflexivity. }
  rewrite bigUint64_spec by exact Hl.
  destruct (two64 <=? len) eqn:E2.
  { assert (len <? two64 = false) as -> by lia. reflexivity. }
  assert (len <? two64 = true) as -> by lia. rewrite andb_true_l.
  rewrite (wrap64_small len) by lia.
  rewrite toWordSize_spec by lia.
  rewrite SafeMul_spec by lia.
  rewrite (Z.mul_comm (ceil32 len) perword).
  set (pc := perword * ceil32 len) in *. clearbody pc.
  rewrite (wrap64_small (fee + base)) by lia.
  destruct (maxU64 <? pc) eqn:E3.
  { assert (fee + base + pc <=? maxU64 = false) as -> by lia. reflexivity. }
  rewrite (wrap64_small pc) by lia.
  rewrite SafeAdd_spec.
  destruct (maxU64 <? fee + base + pc) eqn:E4.
  { assert (fee + base + pc <=? maxU64 = false) as -> by lia. reflexivity. }
  assert (fee + base + pc <=? maxU64 = true) as -> by lia.
  rewrite wrap64_small by lia. reflexivity.
Qed.

Theorem gas_mem_words_mem_error : forall base perword memLen last ms len e,
  memoryGasCost memLen last ms = Err e -> gas_mem_words base perword memLen last ms len = Err e.
Proof.
  intros. unfold gas_mem_words. rewrite H. reflexivity.
Qed.

Theorem gas_mem_base_spec : forall base memLen last ms fee last', 0 <= base < 2^32 ->
  memoryGasCost memLen last ms = Ok (fee, last') -> 0 <= fee < two64 ->
  gas_mem_base base memLen last ms =
    if fee + base <=? maxU64 then Ok (fee + base, last') else Err ErrGasUintOverflow.
Proof.
  intros base memLen last ms fee last' Hb Hm Hf.
  unfold gas_mem_base. rewrite Hm. rewrite SafeAdd_spec.
  pose proof two64_val as T. pose proof maxU64_val as M.
  destruct (maxU64 <? fee + base) eqn:E1.
  - assert (fee + base <=? maxU64 = false) as -> by lia. reflexivity.
  - assert (fee + base <=? maxU64 = true) as -> by lia.
    rewrite wrap64_small by lia. reflexivity.
Qed.

Theorem gasLog_spec : forall n memLen last ms requested fee last', 0 <= n <= 4 -> word requested ->
  memoryGasCost memLen last ms = Ok (fee, last') -> 0 <= fee < two64 ->
  gasLog n memLen last ms requested =
    if (requested <? two64) && (fee + G_log n requested <=? maxU64)
    then Ok (fee + G_log n requested, last') else Err ErrGasUintOverflow.
Proof.
  intros n memLen last ms requested fee last' Hn [Hr _] Hm Hf.
  unfold gasLog, G_log. rewrite Hm.
  pose proof two64_val as T. pose proof maxU64_val as M.
  rewrite bigUint64_spec by exact Hr.
  destruct (two64 <=? requested) eqn:E0.
  { assert (requested <? two64 = false) as -> by lia. reflexivity. }
  assert (requested <? two64 = true) as -> by lia. rewrite andb_true_l.
  rewrite (wrap64_small requested) by lia.
  unfold LogGas, LogTopicGas, LogDataGas.
  rewrite SafeAdd_spec.
  destruct (maxU64 <? fee + 375) eqn:E1.
  { assert (fee + (375 + 375 * n + 8 * requested) <=? maxU64 = false) as -> by lia. reflexivity. }
  rewrite (wrap64_small (fee + 375)) by lia.
  rewrite (wrap64_small (n * 375)) by lia.
  rewrite SafeAdd_spec.
  destruct (maxU64 <? fee + 375 + n * 375) eqn:E2.
  { assert (fee + (375 + 375 * n + 8 * requested) <=? maxU64 = false) as -> by lia. reflexivity. }
  rewrite (wrap64_small (fee + 375 + n * 375)) by lia.
  rewrite SafeMul_spec by lia.
  destruct (maxU64 <? requested * 8) eqn:E3.
  { assert (fee + (375 + 375 * n + 8 * requested) <=? maxU64 = false) as -> by lia. reflexivity. }
  rewrite (wrap64_small (requested * 8)) by lia.
  rewrite SafeAdd_spec.
  destruct (maxU64 <? fee + 375 + n * 375 + requested * 8) eqn:E4.
  { assert (fee + (375 + 375 * n + 8 * requested) <=? maxU64 = false) as -> by lia. reflexivity. }
  assert (fee + (375 + 375 * n + 8 * requested) <=? maxU64 = true) as -> by lia.
  rewrite wrap64_small by lia.
  f_equal. f_equal. lia.
Qed.

Lemma BitLen_bytelen : forall e, 0 <= e -> (BitLen e + 7) / 8 = bytelen e.
Proof.
  intros e H. unfold BitLen, bytelen. rewrite Z.abs_eq by exact H.
  destruct (e =? 0) eqn:E.
  - assert (e = 0) by lia. subst e. reflexivity.
  - pose proof (Z.log2_nonneg e). lia.
Qed.

Lemma bytelen_bound : forall e, word e -> 0 <= bytelen e <= 32.
Proof.
  intros e [H0 H1]. unfold bytelen.
  destruct (e =? 0) eqn:E; [lia|].
  assert (0 < e) by lia.
  assert (Z.log2 e < 256).
  { apply Z.log2_lt_pow2; [lia|]. exact H1. }
  pose proof (Z.log2_nonneg e). lia.
Qed.

Theorem gasExp_spec : forall gt e, word e -> 0 <= gt_ExpByte gt < 2^32 ->
  gasExp gt e = Ok (G_exp (gt_ExpByte gt) e).
Proof.
  intros gt e He Hx. unfold gasExp, G_exp.
  pose proof (bytelen_bound e He) as Hb.
  destruct He as [He _]. rewrite BitLen_bytelen by exact He.
  set (bl := bytelen e) in *. clearbody bl. set (x := gt_ExpByte gt) in *. clearbody x.
  pose proof two64_val as T. pose proof maxU64_val as M.
  assert (Hp : 0 <= bl * x <= 32 * 2^32).
  { split; [apply Z.mul_nonneg_nonneg; lia|]. apply Z.mul_le_mono_nonneg; lia. }
  rewrite (wrap64_small (bl * x)) by lia.
  rewrite SafeAdd_spec. unfold GasSlowStep.
  assert (maxU64 <? bl * x + 10 = false) as -> by lia.
  rewrite wrap64_small by lia. f_equal. lia.
Qed.

(* instance: gasSha3 = gas_mem_words with 30 / 6, i.e. G_sha3 *)
Theorem gasSha3_formula : forall memLen last ms len fee last', word len ->
  memoryGasCost memLen last ms = Ok (fee, last') -> 0 <= fee < two64 ->
  gasSha3 memLen last ms len =
    if (len <? two64) && (fee + G_sha3 len <=? maxU64)
    then Ok (fee + G_sha3 len, last') else Err ErrGasUintOverflow.
Proof.
  intros memLen last ms len fee last' Hl Hm Hf.
  unfold gasSha3, G_sha3, Sha3Gas, Sha3WordGas.
  rewrite (gas_mem_words_spec 30 6 memLen last ms len fee last') by (assumption || lia).
  rewrite !Z.add_assoc. reflexivity.
Qed.

(* gasCallDataCopy (= gasCodeCopy = gasReturnDataCopy definitionally) with G_copy *)
Theorem gasCopy_formula : forall memLen last ms len fee last', word len ->
  memoryGasCost memLen last ms = Ok (fee, last') -> 0 <= fee < two64 ->
  gasCallDataCopy memLen last ms len =
    if (len <? two64) && (fee + G_copy len <=? maxU64)
    then Ok (fee + G_copy len, last') else Err ErrGasUintOverflow.
Proof.
  intros memLen last ms len fee last' Hl Hm Hf.
  unfold gasCallDataCopy, G_copy, GasFastestStep, CopyGas.
  rewrite (gas_mem_words_spec 3 3 memLen last ms len fee last') by (assumption || lia).
  rewrite !Z.add_assoc. reflexivity.
Qed.

Lemma gasCodeCopy_eq : gasCodeCopy = gasCallDataCopy.
Proof. reflexivity. Qed.
Lemma gasReturnDataCopy_eq : gasReturnDataCopy = gasCallDataCopy.
Proof. reflexivity. Qed.

(* ------------------------------------------------------------------ the whole dynamic-gas step *)

(* the dynamic-gas step of the interpreter for an instruction whose memory operands
   are (off,len) and whose gas function has the gas_mem_words shape *)
Definition step_gas_words (base perword w0 off len : Z) : res (Z * Z) :=
  match run_memorySize (calcMemSize off len) with
  | Ok ms => gas_mem_words base perword (32 * w0) (Cmem w0) ms len
  | Err e => Err e | Panic => Panic end.

(* With the hypotheses as first proposed (perword < 2^32) the sum can exceed
   MaxUint64 (perword = 2^32-1, off = 0, len = 2^37-32, w0 = 0), in which case the
   Go code reports errGasUintOverflow; the general statement therefore keeps the
   overflow test. *)
Theorem step_gas_words_spec_full : forall base perword w0 off len, 0 <= base < 2^32 -> 0 < perword < 2^32 ->
  0 <= w0 < 2^32 -> word off -> word len -> Mexp w0 off len < 2^32 ->
  step_gas_words base perword w0 off len =
    if mem_fee w0 off len + base + perword * ceil32 len <=? maxU64
    then Ok (mem_fee w0 off len + base + perword * ceil32 len, Cmem (Mexp w0 off len))
    else Err ErrGasUintOverflow.
Proof.
  intros base perword w0 off len Hb Hp Hw Ho Hl HM.
  unfold step_gas_words.
  rewrite (run_memorySize_spec off len Ho Hl). cbv zeta.
  pose proof two64_val as T. pose proof maxU64_val as M.
  destruct Ho as [Ho _]. pose proof Hl as Hlw. destruct Hl as [Hl _].
  unfold mem_fee. unfold Mexp in *.
  destruct (len =? 0) eqn:E0.
  - assert (len = 0) by lia. subst len.
    change (ceil32 0) with 0. change (32 * 0) with 0.
    assert (0 <=? maxU64 = true) as -> by lia.
    assert (Hm : memoryGasCost (32 * w0) (Cmem w0) 0 = Ok (0, Cmem w0)) by reflexivity.
    rewrite (gas_mem_words_spec base perword _ _ _ 0 0 (Cmem w0) Hb Hp Hlw Hm) by lia.
    change (ceil32 0) with 0. rewrite Z.sub_diag.
    assert (0 <? two64 = true) as -> by lia. reflexivity.
  - pose proof (ceil32_nonneg (off + len) ltac:(lia)) as Cn.
    assert (Hc : ceil32 (off + len) < 2^32) by lia.
    set (c := ceil32 (off + len)) in *.
    assert (32 * c <=? maxU64 = true) as -> by lia.
    assert (Hm := memoryGasCost_spec_partial w0 (32 * c) Hw ltac:(lia)).
    rewrite ceil32_mul32 in Hm.
    pose proof (Cmem_mono w0 (Z.max w0 c) ltac:(lia)) as Cm.
    pose proof (Cmem_small (Z.max w0 c) ltac:(lia)) as Cs.
    pose proof (Cmem_nonneg w0 ltac:(lia)) as C0.
    rewrite (gas_mem_words_spec base perword _ _ _ len _ _ Hb Hp Hlw Hm) by lia.
    assert (len < two64).
    { subst c. unfold ceil32 in Hc. lia. }
    assert (len <? two64 = true) as -> by lia. rewrite andb_true_l. reflexivity.
Qed.

(* the counterexample to the conclusion "always Ok" under perword < 2^32 *)
Theorem step_gas_words_overflow_witness :
  step_gas_words 0 (2^32 - 1) 0 0 (2^37 - 32) = Err ErrGasUintOverflow
  /\ Mexp 0 0 (2^37 - 32) < 2^32.
Proof. split; vm_compute; reflexivity. Qed.

(* STATEMENT CHANGED w.r.t. the first proposal: perword < 2^31 instead of 2^32
   (all per-word prices of the code are 3 or 6); see step_gas_words_spec_full. *)
Theorem step_gas_words_spec : forall base perword w0 off len, 0 <= base < 2^32 -> 0 < perword < 2^31 ->
  0 <= w0 < 2^32 -> word off -> word len -> Mexp w0 off len < 2^32 ->
  step_gas_words base perword w0 off len =
    Ok (mem_fee w0 off len + base + perword * ceil32 len, Cmem (Mexp w0 off len)).
Proof.
  intros base perword w0 off len Hb Hp Hw Ho Hl HM.
  rewrite step_gas_words_spec_full by (assumption || lia).
  pose proof two64_val as T. pose proof maxU64_val as M.
  destruct Ho as [Ho _]. destruct Hl as [Hl _].
  assert (Hw' : 0 <= w0 <= Mexp w0 off len) by (unfold Mexp; destruct (len =? 0); lia).
  pose proof (Cmem_small (Mexp w0 off len) ltac:(lia)) as Cs.
  pose proof (Cmem_nonneg w0 ltac:(lia)) as C0.
  assert (Hcl : 0 <= ceil32 len < 2^32).
  { split; [apply ceil32_nonneg; lia|].
    unfold Mexp in HM. destruct (len =? 0) eqn:E0.
    - assert (len = 0) by lia. subst len. change (ceil32 0) with 0. lia.
    - pose proof (ceil32_mono len (off + len) ltac:(lia)). lia. }
  assert (perword * ceil32 len <= 2^31 * 2^32) by (apply Z.mul_le_mono_nonneg; lia).
  unfold mem_fee.
  assert (Cmem (Mexp w0 off len) - Cmem w0 + base + perword * ceil32 len <=? maxU64 = true) as -> by lia.
  reflexivity.
Qed.

(* an overflow error of the memory-size step is reported only where the formula
   needs at least 2^32 words (cost >= 2^55 by Cmem_large).
   STATEMENT CHANGED: the unused quantifiers base, perword are dropped. *)
Theorem step_gas_words_error_far : forall w0 off len e, 0 <= w0 < 2^32 -> word off -> word len ->
  run_memorySize (calcMemSize off len) = Err e -> 2^32 <= Mexp w0 off len.
Proof.
  intros w0 off len e Hw Ho Hl H.
  rewrite (run_memorySize_spec off len Ho Hl) in H. cbv zeta in H.
  pose proof two64_val as T. pose proof maxU64_val as M.
  unfold Mexp. destruct (len =? 0) eqn:E0.
  - change (ceil32 0) with 0 in H. change (32 * 0) with 0 in H.
    assert (0 <=? maxU64 = true) as K by lia. rewrite K in H. discriminate H.
  - destruct (32 * ceil32 (off + len) <=? maxU64) eqn:E1; [discriminate H|]. lia.
Qed.

(* ------------------------------------------------------------------ gas.go callGas *)

Theorem callGas_spec : forall gt avail base cost, 0 <= base <= avail -> avail < two64 -> word cost ->
  0 < gt_CreateBySuicide gt ->
  callGas gt avail base cost = Ok (C_gascap avail base cost).
Proof.
  intros gt avail base cost Hb Ha [Hc _] Hg.
  unfold callGas, C_gascap, L64. cbv zeta.
  pose proof two64_val as T.
  assert (gt_CreateBySuicide gt >? 0 = true) as -> by lia.
  rewrite (wrap64_small (avail - base)) by lia.
  set (a := avail - base) in *. assert (0 <= a < two64) by lia. clearbody a.
  rewrite (wrap64_small (a - a / 64)) by lia.
  rewrite BitLen_gt64 by exact Hc.
  destruct (two64 <=? cost) eqn:E.
  - rewrite orb_true_l. f_equal. lia.
  - rewrite orb_false_l. rewrite big_Uint64_small by lia.
    destruct (a - a / 64 <? cost) eqn:E2; f_equal; lia.
Qed.

Theorem callGas_pre150 : forall gt avail base cost, word cost -> gt_CreateBySuicide gt <= 0 ->
  callGas gt avail base cost = if cost <? two64 then Ok cost else Err ErrGasUintOverflow.
Proof.
  intros gt avail base cost [Hc _] Hg.
  unfold callGas. cbv zeta.
  assert (gt_CreateBySuicide gt >? 0 = false) as -> by lia.
  rewrite BitLen_gt64 by exact Hc.
  destruct (two64 <=? cost) eqn:E.
  - assert (cost <? two64 = false) as -> by lia. reflexivity.
  - assert (cost <? two64 = true) as -> by lia. rewrite big_Uint64_small by lia. reflexivity.
Qed.

(* if base > avail the uint64 subtraction wraps; the result is still non-negative,
   so base + result > avail and the interpreter's UseGas(base+result) fails: the
   wrap cannot give gas away *)
Theorem callGas_wrap_harmless : forall gt avail base cost g, 0 <= avail < base -> base < two64 -> word cost ->
  callGas gt avail base cost = Ok g -> 0 <= g /\ avail < base + g.
Proof.
  intros gt avail base cost g Ha Hb [Hc _] H.
  assert (0 <= g); [|lia].
  pose proof two64_val as T.
  unfold callGas in H. cbv zeta in H.
  assert (Hw : forall x, 0 <= wrap64 x).
  { intro x. unfold wrap64. apply Z.mod_pos_bound. lia. }
  assert (Hu : 0 <= big_Uint64 cost) by (unfold big_Uint64; apply Hw).
  destruct (gt_CreateBySuicide gt >? 0).
  - destruct ((BitLen cost >? 64) || _).
    + inversion H. apply Hw.
    + destruct (BitLen cost >? 64); inversion H. subst g. exact Hu.
  - destruct (BitLen cost >? 64); inversion H. subst g. exact Hu.
Qed.

(* ------------------------------------------------------------------ stack_table.go *)

Theorem validateStack_spec : forall pop push len,
  validateStack pop push len = Ok tt <-> (pop <= len /\ len - pop + push <= 1024).
Proof.
  intros pop push len. unfold validateStack, StackLimit.
  destruct (len <? pop) eqn:E1.
  - split; [intro H; discriminate H | lia].
  - destruct (len + push - pop >? 1024) eqn:E2.
    + split; [intro H; discriminate H | lia].
    + split; [lia | reflexivity].
Qed.
