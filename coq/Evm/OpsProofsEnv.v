(* Evm/OpsProofsEnv.v — SHA3, the environment instructions, POP and the write protection
   check of OpsModel.v (instructions.go, interpreter.go) against OpsSpec.v. *)
From Coq Require Import ZArith List Bool Lia ZifyBool.
From AQ Require Import Evm.OpsModel Evm.OpsSpec Evm.OpsProofsGas Evm.OpsProofsMem.
Import ListNotations.
Local Open Scope Z_scope.

#[local] Ltac Zify.zify_post_hook ::= Z.div_mod_to_equations.

(* ------------------------------------------------------------------ helpers *)

Lemma U256_id : forall x, word x -> U256 x = x.
Proof.
  intros x H. unfold U256, tt256m1.
  replace (tt256 - 1) with (Z.ones 256) by (rewrite Z.ones_equiv; reflexivity).
  rewrite Z.land_ones by lia. apply Z.mod_small. exact H.
Qed.

Lemma two64_lt_W : two64 < W.
Proof. reflexivity. Qed.

Lemma p62_lt_W : 2 ^ 62 < W.
Proof. reflexivity. Qed.

Lemma big_Int64_small : forall x, 0 <= x < 2 ^ 63 -> big_Int64 x = x.
Proof.
  intros x H. unfold big_Int64. pose proof two64_val as T.
  rewrite big_Uint64_small by lia. apply to_int64_small. exact H.
Qed.

(* ------------------------------------------------------------------ SHA3 *)

(* SHA3 relative to any hash H on byte strings, under the interpreter's precondition that
   the memory covers the range *)
Theorem op_SHA3_spec : forall (H : list Z -> list Z) mem off len,
  blen mem < 2^62 -> 0 <= off -> 0 < len -> off + len <= blen mem ->
  op_SHA3_H H mem off len = Ok (spec_SHA3 H mem off len).
Proof.
  intros H mem off len Hm H0 Hl Hb. unfold op_SHA3_H, spec_SHA3.
  rewrite (big_Int64_small off) by lia. rewrite (big_Int64_small len) by lia.
  unfold mem_get.
  destruct (len =? 0) eqn:E0; [lia|]. clear E0.
  destruct (blen mem >? off) eqn:E1; [|lia].
  destruct (len <? 0) eqn:E2; [lia|].
  destruct ((off <? 0) || (off + len >? blen mem)) eqn:E3; [lia|].
  rewrite be_to_Z_spec. rewrite slice_spec_data by lia. reflexivity.
Qed.

(* size 0: Memory.Get returns nil whatever the offset *)
Theorem op_SHA3_empty : forall (H : list Z -> list Z) mem off, word off ->
  op_SHA3_H H mem off 0 = Ok (spec_be (H [])).
Proof.
  intros H mem off _. unfold op_SHA3_H.
  rewrite (big_Int64_small 0) by lia.
  unfold mem_get. rewrite Z.eqb_refl. rewrite be_to_Z_spec. reflexivity.
Qed.

Theorem op_SHA3_spec0 : forall (H : list Z -> list Z) mem off, word off ->
  op_SHA3_H H mem off 0 = Ok (spec_SHA3 H mem off 0).
Proof.
  intros H mem off Hw. rewrite op_SHA3_empty by exact Hw. reflexivity.
Qed.

(* the pushed word is a machine word when H returns 32 bytes *)
Theorem op_SHA3_word : forall (H : list Z -> list Z) mem off len v,
  (forall d, length (H d) = 32%nat /\ Forall (fun b => 0 <= b < 256) (H d)) ->
  op_SHA3_H H mem off len = Ok v -> word v.
Proof.
  intros H mem off len v HH E. unfold op_SHA3_H in E.
  destruct (mem_get mem (big_Int64 off) (big_Int64 len)) as [data|e|]; try discriminate.
  injection E as <-. rewrite be_to_Z_spec.
  destruct (HH data) as [L B].
  pose proof (spec_be_bound (H data) B) as Bd.
  unfold blen in Bd. rewrite L in Bd. change (Z.of_nat 32) with 32 in Bd.
  rewrite W_256 in Bd. exact Bd.
Qed.

(* ------------------------------------------------------------------ environment *)

Definition env_words (e : envinfo) : Prop :=
  word (e_address e) /\ word (e_caller e) /\ word (e_callvalue e) /\ word (e_origin e) /\ word (e_gasprice e) /\
  word (e_coinbase e) /\ word (e_time e) /\ word (e_number e) /\ word (e_difficulty e) /\ 0 <= e_gaslimit e < two64.

(* the Go code pushes the specified item of the environment *)
Theorem op_ENV_spec : forall op e input code ret mem pc gas, env_words e ->
  op_ENV op e input code ret mem pc gas =
  spec_ENV op (e_address e) (e_origin e) (e_caller e) (e_callvalue e) (e_gasprice e) input code ret
           (e_coinbase e) (e_time e) (e_number e) (e_difficulty e) (e_gaslimit e) pc (blen mem) gas.
Proof.
  intros op e input code ret mem pc gas (Ha & Hc & Hv & Ho & Hp & Hcb & Ht & Hn & Hd & Hl).
  unfold op_ENV.
  rewrite (big_Uint64_small (e_gaslimit e)) by exact Hl.
  rewrite (U256_id (e_time e)) by exact Ht.
  rewrite (U256_id (e_number e)) by exact Hn.
  rewrite (U256_id (e_difficulty e)) by exact Hd.
  rewrite (U256_id (e_gaslimit e)) by (pose proof two64_lt_W; unfold word; lia).
  destruct op as [|p|p]; [reflexivity| |reflexivity].
  do 7 (try (destruct p as [p|p|])); reflexivity.
Qed.

Theorem op_ENV_word : forall op e input code ret mem pc gas v, env_words e ->
  blen input < 2^62 -> blen code < 2^62 -> blen ret < 2^62 -> blen mem < 2^62 ->
  0 <= pc < two64 -> 0 <= gas < two64 ->
  op_ENV op e input code ret mem pc gas = Some v -> word v.
Proof.
  intros op e input code ret mem pc gas v He Hi Hc Hr Hm Hpc Hg E.
  rewrite op_ENV_spec in E by exact He.
  destruct He as (Ha & Hca & Hv & Ho & Hp & Hcb & Ht & Hn & Hd & Hl).
  pose proof two64_lt_W as T. pose proof p62_lt_W as P.
  assert (Bi : word (Z.of_nat (length input))) by (unfold word, blen in *; lia).
  assert (Bc : word (Z.of_nat (length code))) by (unfold word, blen in *; lia).
  assert (Br : word (Z.of_nat (length ret))) by (unfold word, blen in *; lia).
  assert (Bm : word (blen mem)) by (unfold word, blen in *; lia).
  assert (Bp : word pc) by (unfold word; lia).
  assert (Bg : word gas) by (unfold word; lia).
  assert (Bl : word (e_gaslimit e)) by (unfold word; lia).
  unfold spec_ENV in E.
  destruct op as [|p|p]; [discriminate| |discriminate].
  do 7 (try (destruct p as [p|p|])); try discriminate; injection E as <-; assumption.
Qed.

Theorem op_POP_spec : forall a st, op_POP (a :: st) = Ok st.
Proof. reflexivity. Qed.

(* ------------------------------------------------------------------ write protection *)

Lemma BitLen_pos_iff : forall v, 0 <= v -> (BitLen v >? 0) = negb (v =? 0).
Proof.
  intros v Hv. unfold BitLen. rewrite Z.abs_eq by exact Hv.
  destruct (v =? 0) eqn:E.
  - assert (v = 0) by lia. subst v. reflexivity.
  - pose proof (Z.log2_nonneg v). cbn [negb]. lia.
Qed.

Theorem enforceRestrictions_spec : forall isByz readOnly writes isCall value, word value ->
  enforceRestrictions isByz readOnly writes isCall value = true <->
  (isByz = true /\ readOnly = true /\ (writes = true \/ (isCall = true /\ value <> 0))).
Proof.
  intros isByz readOnly writes isCall value [H0 _]. unfold enforceRestrictions.
  rewrite BitLen_pos_iff by exact H0.
  destruct isByz, readOnly, writes, isCall, (value =? 0) eqn:E; cbn [andb orb negb];
    split; try discriminate; try tauto; try lia; intros; repeat split; auto; try lia.
Qed.
