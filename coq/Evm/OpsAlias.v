(* Evm/OpsAlias.v — the pointer discipline of instructions.go / stack.go / intpool.go made explicit
   (definitions only; extracted).  A stack slot is a REFERENCE (nat) to a mutable big.Int held in a
   heap; the intPool is a list of references.  Each instruction shape below is written as the Go code
   manipulates the pointers:
     R_bin f    x, y := pop(), pop(); *x = f *x *y; push(x); pool.put(y)          opAdd opSub opMul opDiv opMod opAnd opOr opXor opExp-like
     R_tern f   x, y, z := pop()x3;  *x = f *x *y *z; push(x); pool.put(y, z)     opAddmod opMulmod
     R_cmp f    x, y := pop(), pop(); r := pool.get() / new; *r = f *x *y; push(r); pool.put(x, y)   opLt opGt opSlt opSgt opEq
     R_un f     x := pop(); *x = f *x; push(x)                                    opNot
     R_test f   x := pop(); r := pool.get() / new; *r = f *x; push(r); pool.put(x)  opIszero
     R_peek f   th := pop(); val := peek(); *val = f *th *val; pool.put(th)       opByte opSHL opSHR (in place on the slot that stays)
     R_dup n    push(pool.get().Set(stack[n]))                                   a COPY
     R_swap n   exchanges the two references
     R_pop      pool.put(pop())
     R_push v   r := pool.get(); *r = v; push(r)
   [vstep] is the same instruction on values.  OpsProofsAlias.v proves that under the invariant
   "references on the stack and in the pool are pairwise distinct" the two agree and the invariant is
   preserved, i.e. no result depends on aliasing between slots. *)
From Coq Require Import ZArith List Bool Arith.
Import ListNotations.
Local Open Scope Z_scope.

Inductive rop : Type :=
| R_bin (f : Z -> Z -> Z)
| R_tern (f : Z -> Z -> Z -> Z)
| R_cmp (f : Z -> Z -> Z)
| R_un (f : Z -> Z)
| R_test (f : Z -> Z)
| R_peek (f : Z -> Z -> Z)
| R_dup (n : nat)
| R_swap (n : nat)
| R_pop
| R_push (v : Z).

Record rstate : Type := mk_rstate { rs_heap : nat -> Z; rs_next : nat; rs_stack : list nat; rs_pool : list nat }.

Definition hset (h : nat -> Z) (r : nat) (v : Z) : nat -> Z := fun k => if Nat.eqb k r then v else h k.

(* intPool.get: a pooled integer if there is one, else new(big.Int) *)
Definition pool_get (s : rstate) : nat * rstate :=
  match rs_pool s with
  | r :: p => (r, mk_rstate (rs_heap s) (rs_next s) (rs_stack s) p)
  | [] => (rs_next s, mk_rstate (rs_heap s) (S (rs_next s)) (rs_stack s) [])
  end.

Definition rstep (o : rop) (s : rstate) : option rstate :=
  let h := rs_heap s in
  match o, rs_stack s with
  | R_bin f, x :: y :: r => Some (mk_rstate (hset h x (f (h x) (h y))) (rs_next s) (x :: r) (y :: rs_pool s))
  | R_tern f, x :: y :: z :: r => Some (mk_rstate (hset h x (f (h x) (h y) (h z))) (rs_next s) (x :: r) (z :: y :: rs_pool s))
  | R_cmp f, x :: y :: r =>
      let '(q, s1) := pool_get (mk_rstate h (rs_next s) r (rs_pool s)) in
      Some (mk_rstate (hset (rs_heap s1) q (f (h x) (h y))) (rs_next s1) (q :: r) (y :: x :: rs_pool s1))
  | R_un f, x :: r => Some (mk_rstate (hset h x (f (h x))) (rs_next s) (x :: r) (rs_pool s))
  | R_test f, x :: r =>
      let '(q, s1) := pool_get (mk_rstate h (rs_next s) r (rs_pool s)) in
      Some (mk_rstate (hset (rs_heap s1) q (f (h x))) (rs_next s1) (q :: r) (x :: rs_pool s1))
  | R_peek f, th :: val :: r => Some (mk_rstate (hset h val (f (h th) (h val))) (rs_next s) (val :: r) (th :: rs_pool s))
  | R_dup n, st =>
      match nth_error st (n - 1) with
      | Some src =>
          let '(q, s1) := pool_get s in
          Some (mk_rstate (hset (rs_heap s1) q (h src)) (rs_next s1) (q :: st) (rs_pool s1))
      | None => None
      end
  | R_swap (S m), top :: rest =>
      match nth_error rest m with
      | Some other => Some (mk_rstate h (rs_next s) (other :: firstn m rest ++ top :: skipn (S m) rest) (rs_pool s))
      | None => None
      end
  | R_pop, x :: r => Some (mk_rstate h (rs_next s) r (x :: rs_pool s))
  | R_push v, st =>
      let '(q, s1) := pool_get s in
      Some (mk_rstate (hset (rs_heap s1) q v) (rs_next s1) (q :: st) (rs_pool s1))
  | _, _ => None
  end.

(* the same instruction on values *)
Definition vstep (o : rop) (st : list Z) : option (list Z) :=
  match o, st with
  | R_bin f, x :: y :: r => Some (f x y :: r)
  | R_tern f, x :: y :: z :: r => Some (f x y z :: r)
  | R_cmp f, x :: y :: r => Some (f x y :: r)
  | R_un f, x :: r => Some (f x :: r)
  | R_test f, x :: r => Some (f x :: r)
  | R_peek f, th :: val :: r => Some (f th val :: r)
  | R_dup n, st => match nth_error st (n - 1) with Some v => Some (v :: st) | None => None end
  | R_swap (S m), top :: rest =>
      match nth_error rest m with
      | Some other => Some (other :: firstn m rest ++ top :: skipn (S m) rest)
      | None => None
      end
  | R_pop, _ :: r => Some r
  | R_push v, st => Some (v :: st)
  | _, _ => None
  end.

Fixpoint rrun (ops : list rop) (s : rstate) : option rstate :=
  match ops with [] => Some s | o :: r => match rstep o s with Some s' => rrun r s' | None => None end end.
Fixpoint vrun (ops : list rop) (st : list Z) : option (list Z) :=
  match ops with [] => Some st | o :: r => match vstep o st with Some st' => vrun r st' | None => None end end.

Definition view (s : rstate) : list Z := map (rs_heap s) (rs_stack s).
