(* Evm/InterpProofsMemInv.v — C07 (6): the memory a frame holds is paid for.  Invariant of the
   interpreter loop: the memory is a whole number w of 32-byte words, Memory.lastGasCost = Cmem w =
   3w + w^2/512, and Cmem w <= gas spent by the frame so far (for a frame that was given less than
   2^32 gas: above 2^32 words the code's uint64 square wraps, OpsProofsGas.memoryGasCost_refuted). *)
From Coq Require Import ZArith List Bool String Lia ZifyBool ZifyNat.
From AQ Require Import Lib.Bytes Evm.OpsModel Evm.OpsSpec Evm.OpsProofsGas Evm.Interp Evm.InterpProofs Evm.InterpProofs2 Evm.InterpProofs3.
Import ListNotations.
Local Open Scope Z_scope.
Set Default Timeout 300.

(* ------------------------------------------------------------------ instructions keep the length of the memory *)

Lemma blen_nonneg : forall l, 0 <= blen l. Proof. intro. unfold blen. lia. Qed.

Lemma mem_set_len : forall m o s v m', 0 <= o -> 0 <= s < two64 -> mem_set m o s v = Ok m' -> blen m' = blen m.
Proof.
  intros m o s v m' Ho Hs H. unfold mem_set in H. pose proof two64_val as T.
  destruct (s >? blen m) eqn:E1; [discriminate|].
  destruct (s >? 0) eqn:E2; [|injection H as <-; reflexivity].
  destruct ((o >? wrap64 (o + s)) || (wrap64 (o + s) >? blen m)) eqn:E3; [discriminate|].
  apply orb_false_elim in E3 as [E3 E4].
  assert (Hw : wrap64 (o + s) = o + s).
  { unfold wrap64 in *. destruct (Z_lt_le_dec (o + s) two64) as [Hlt|Hge]; [apply Z.mod_small; lia|].
    exfalso. assert ((o + s) mod two64 = o + s - two64).
    { rewrite <- (Z.mod_small (o + s - two64) two64) by lia.
      replace (o + s - two64) with (o + s + (-1) * two64) by lia. rewrite Z.mod_add by lia. reflexivity. }
    lia. }
  rewrite Hw in *. injection H as <-. unfold blen in *.
  rewrite !app_length, !firstn_length, skipn_length. lia.
Qed.

Lemma op_MSTORE_len : forall m a v m', op_MSTORE m a v = Ok m' -> blen m' = blen m.
Proof.
  intros m a v m' H. unfold op_MSTORE in H. pose proof (wrap64_nonneg (Z.abs a)). pose proof two64_val.
  eapply mem_set_len; [| |exact H]; unfold big_Uint64; lia.
Qed.
Lemma op_MSTORE8_len : forall m a v m', op_MSTORE8 m a v = Ok m' -> blen m' = blen m.
Proof.
  intros m a v m' H. unfold op_MSTORE8 in H.
  destruct ((big_Int64 a <? 0) || (big_Int64 a >=? blen m)) eqn:E; [discriminate|].
  apply orb_false_elim in E as [E1 E2]. injection H as <-. unfold blen in *.
  rewrite app_length, firstn_length. cbn [app length]. rewrite skipn_length. lia.
Qed.
Lemma op_DATACOPY_len : forall m d a b c m', op_DATACOPY m d a b c = Ok m' -> blen m' = blen m.
Proof.
  intros m d a b c m' H. unfold op_DATACOPY in H. pose proof two64_val.
  pose proof (wrap64_nonneg (Z.abs a)). pose proof (wrap64_nonneg (Z.abs c)). pose proof (wrap64_lt (Z.abs c)).
  eapply mem_set_len; [| |exact H]; unfold big_Uint64; lia.
Qed.
Lemma op_RETURNDATACOPY_len : forall m d a b c m', op_RETURNDATACOPY m d a b c = Ok m' -> blen m' = blen m.
Proof.
  intros m d a b c m' H. unfold op_RETURNDATACOPY in H. pose proof two64_val.
  destruct (_ || _); [discriminate|].
  pose proof (wrap64_nonneg (Z.abs a)). pose proof (wrap64_nonneg (Z.abs c)). pose proof (wrap64_lt (Z.abs c)).
  eapply mem_set_len; [| |exact H]; unfold big_Uint64; lia.
Qed.

Lemma call_return_mem : forall w fr rest ro rs o w2 fr2 res,
  call_return w fr rest ro rs o = X_ok w2 fr2 res -> blen (f_mem fr2) = blen (f_mem fr) /\ f_last fr2 = f_last fr.
Proof.
  intros w fr rest ro rs o w2 fr2 res H. unfold call_return in H. pose proof two64_val.
  pose proof (wrap64_nonneg (Z.abs ro)). pose proof (wrap64_nonneg (Z.abs rs)). pose proof (wrap64_lt (Z.abs rs)).
  destruct (o_res o); try discriminate;
    try (destruct (mem_set _ _ _ _) eqn:Hm; try discriminate; apply mem_set_len in Hm; [|unfold big_Uint64; lia|unfold big_Uint64; lia]);
    injection H as _ <- _; cbn [after_child f_mem f_last]; auto.
Qed.

Ltac inv_mem H :=
  repeat match type of H with
  | match ?t with _ => _ end = _ => destruct t eqn:?; try discriminate
  | (let '(_, _) := ?t in _) = _ => destruct t eqn:?
  | (if ?t then _ else _) = _ => destruct t eqn:?; try discriminate
  | lift_mem _ _ _ _ = _ => unfold lift_mem in H
  end;
  injection H as _ <- _; cbn [set_stack set_stack_mem set_pc_stack set_pc f_mem f_last]; split; try reflexivity.

Lemma exec_mem : forall rec e w fr1 x temp w2 fr2 res,
  exec rec e w fr1 x temp = X_ok w2 fr2 res -> blen (f_mem fr2) = blen (f_mem fr1) /\ f_last fr2 = f_last fr1.
Proof.
  intros rec e w fr1 x temp w2 fr2 res H.
  destruct x; unfold exec in H;
    try solve [inv_mem H;
               first [ reflexivity | eapply op_DATACOPY_len; eassumption | eapply op_RETURNDATACOPY_len; eassumption
                     | eapply op_MSTORE_len; eassumption | eapply op_MSTORE8_len; eassumption ]].
  - destruct (f_stack fr1) as [|g0 [|addr [|value0 [|inOff [|inSize [|retOff [|retSize r]]]]]]]; try discriminate.
    destruct (mem_get _ _ _); try discriminate. eapply call_return_mem; eassumption.
  - destruct (f_stack fr1) as [|g0 [|addr [|value0 [|inOff [|inSize [|retOff [|retSize r]]]]]]]; try discriminate.
    destruct (mem_get _ _ _); try discriminate. eapply call_return_mem; eassumption.
  - destruct (f_stack fr1) as [|g0 [|addr [|inOff [|inSize [|retOff [|retSize r]]]]]]; try discriminate.
    destruct (mem_get _ _ _); try discriminate. eapply call_return_mem; eassumption.
  - destruct (f_stack fr1) as [|g0 [|addr [|inOff [|inSize [|retOff [|retSize r]]]]]]; try discriminate.
    destruct (mem_get _ _ _); try discriminate. eapply call_return_mem; eassumption.
  - discriminate H.
Qed.

(* ------------------------------------------------------------------ memoryGasCost under the invariant *)

Lemma Cmem_lin : forall w, 0 <= w -> 3 * w <= Cmem w.
Proof. intros w H. unfold Cmem. assert (0 <= w * w / 512) by (apply Z.div_pos; nia). lia. Qed.

(* the memory is w words and paid for (Cmem w < 2^32); the step asks for k words *)
Lemma mgc_inv : forall w k fee last', 0 <= w -> Cmem w < 2^32 -> 0 <= k ->
  memoryGasCost (32 * w) (Cmem w) (32 * k) = Ok (fee, last') -> fee < 2^32 ->
  last' = Cmem (Z.max w k) /\ fee = Cmem (Z.max w k) - Cmem w.
Proof.
  intros w k fee last' Hw Hc Hk H Hfee.
  pose proof (Cmem_lin w Hw) as Hl. pose proof two64_val as T.
  destruct (Z_le_gt_dec (32 * k) 0x1FFFFFFFE0) as [Hsmall | Hbig].
  - rewrite memoryGasCost_spec_partial in H by lia. rewrite ceil32_mul32 in H. injection H as <- <-. auto.
  - exfalso. unfold memoryGasCost in H.
    assert (32 * k =? 0 = false) as E0 by lia. rewrite E0 in H.
    destruct (32 * k >? 0xffffffffe0) eqn:E1; [discriminate|].
    rewrite toWordSize_spec in H by lia. rewrite ceil32_mul32 in H.
    rewrite (wrap64_small (k * 32)) in H by lia.
    assert (k * 32 >? 32 * w = true) as E2 by lia. rewrite E2 in H.
    unfold MemoryGas, QuadCoeffDiv in H.
    rewrite (wrap64_small (k * 3)) in H by lia.
    pose proof (wrap64_nonneg (k * k)) as Q0. pose proof (wrap64_lt (k * k)) as Q1.
    assert (Hq : 0 <= wrap64 (k * k) / 512 < 2^55).
    { split; [apply Z.div_pos; lia|]. apply Z.div_lt_upper_bound; lia. }
    rewrite (wrap64_small (k * 3 + wrap64 (k * k) / 512)) in H by lia.
    pose proof (Cmem_nonneg w Hw).
    rewrite wrap64_small in H by lia. injection H as <- _. lia.
Qed.

Lemma run_memorySize_mult : forall b ms, run_memorySize b = Ok ms -> exists k, 0 <= k /\ ms = 32 * k.
Proof.
  intros b ms H. unfold run_memorySize in H.
  destruct (bigUint64 b) as [memSize o]. destruct o; [discriminate|].
  destruct (SafeMul (toWordSize memSize) 32) as [m o2] eqn:Hs. destruct o2; [discriminate|].
  injection H as <-.
  assert (Ht : 0 <= toWordSize memSize).
  { unfold toWordSize. pose proof maxU64_val. destruct (_ >? _); [lia|]. pose proof (wrap64_nonneg (memSize + 31)).
    apply Z.div_pos; lia. }
  exists (toWordSize memSize). split; [exact Ht|].
  rewrite SafeMul_spec in Hs by lia.
  assert (H1 := f_equal fst Hs). assert (H2 := f_equal snd Hs). cbn [fst snd] in H1, H2.
  subst m. pose proof maxU64_val. pose proof two64_val. rewrite wrap64_small by lia. lia.
Qed.

Lemma mem_resize_len : forall m k w, blen m = 32 * w -> 0 <= k ->
  blen (if 32 * k >? 0 then mem_resize m (32 * k) else m) = 32 * Z.max w k.
Proof.
  intros m k w Hm Hk. pose proof (blen_nonneg m).
  destruct (32 * k >? 0) eqn:E; [|lia].
  unfold mem_resize. destruct (blen m <? 32 * k) eqn:E2; [|lia].
  unfold blen in *. rewrite app_length, repeat_length. lia.
Qed.

(* ------------------------------------------------------------------ every gas function charges the memory fee *)

Lemma gas_mem_words_fee : forall base pw ml la ms len g l, 0 <= base ->
  gas_mem_words base pw ml la ms len = Ok (g, l) ->
  exists fee, memoryGasCost ml la ms = Ok (fee, l) /\ 0 <= fee /\ fee + base <= g.
Proof.
  intros base pw ml la ms len g l Hb H. unfold gas_mem_words in H.
  destruct (memoryGasCost ml la ms) as [[fee last']|?|] eqn:Hm; try discriminate.
  pose proof (memoryGasCost_nonneg _ _ _ _ _ Hm) as Hf.
  destruct (SafeAdd fee base) as [gas1 o1] eqn:H1. destruct o1; [discriminate|].
  apply SafeAdd_ok in H1; try lia.
  destruct (bigUint64 len) as [words o2]. destruct o2; [discriminate|].
  pose proof (SafeMul_nonneg (toWordSize words) pw) as Hw.
  destruct (SafeMul (toWordSize words) pw) as [words' o3]. destruct o3; [discriminate|].
  destruct (SafeAdd gas1 words') as [gas2 o4] eqn:H4. destruct o4; [discriminate|].
  cbn in Hw. apply SafeAdd_ok in H4; try lia. injection H as <- <-. exists fee. repeat split; try lia.
Qed.

Lemma gas_mem_base_fee : forall base ml la ms g l, 0 <= base ->
  gas_mem_base base ml la ms = Ok (g, l) ->
  exists fee, memoryGasCost ml la ms = Ok (fee, l) /\ 0 <= fee /\ fee + base <= g.
Proof.
  intros base ml la ms g l Hb H. unfold gas_mem_base in H.
  destruct (memoryGasCost ml la ms) as [[fee last']|?|] eqn:Hm; try discriminate.
  pose proof (memoryGasCost_nonneg _ _ _ _ _ Hm) as Hf.
  destruct (SafeAdd fee base) as [gas1 o1] eqn:H1. destruct o1; [discriminate|].
  apply SafeAdd_ok in H1; try lia. injection H as <- <-. exists fee. repeat split; try lia.
Qed.

Lemma gasLog_fee : forall n ml la ms req g l, gasLog n ml la ms req = Ok (g, l) ->
  exists fee, memoryGasCost ml la ms = Ok (fee, l) /\ 0 <= fee /\ fee <= g.
Proof.
  intros n ml la ms req g l H. unfold gasLog in H.
  destruct (bigUint64 req) as [rs o0]. destruct o0; [discriminate|].
  destruct (memoryGasCost ml la ms) as [[fee last']|?|] eqn:Hm; try discriminate.
  pose proof (memoryGasCost_nonneg _ _ _ _ _ Hm) as Hf.
  destruct (SafeAdd fee LogGas) as [gas1 o1] eqn:H1. destruct o1; [discriminate|].
  apply SafeAdd_ok in H1; try (unfold LogGas; lia).
  pose proof (wrap64_nonneg (n * LogTopicGas)) as Hn.
  destruct (SafeAdd gas1 (wrap64 (n * LogTopicGas))) as [gas2 o2] eqn:H2. destruct o2; [discriminate|].
  apply SafeAdd_ok in H2; try (unfold LogGas in *; lia).
  pose proof (SafeMul_nonneg rs LogDataGas) as Hs.
  destruct (SafeMul rs LogDataGas) as [msg o3]. destruct o3; [discriminate|]. cbn in Hs.
  destruct (SafeAdd gas2 msg) as [gas3 o4] eqn:H4. destruct o4; [discriminate|].
  apply SafeAdd_ok in H4; try (unfold LogGas in *; lia). injection H as <- <-.
  exists fee. unfold LogGas in *. repeat split; try lia.
Qed.

Definition gas_uses_mem (g : gasfn) : bool :=
  match g with
  | G_sha3 | G_calldatacopy | G_codecopy | G_extcodecopy | G_returndatacopy | G_mload | G_mstore | G_mstore8 | G_log _
  | G_create | G_call | G_callcode | G_return | G_revert | G_delegatecall | G_staticcall => true
  | _ => false
  end.

(* the gas handed to a callee beyond what stays in the frame, seen from the gas function *)
Definition gextra (g : gasfn) (st : list Z) (temp : Z) : Z :=
  match g with
  | G_call | G_callcode =>
      match back st 2 with Some v => if Z.sgn v =? 0 then temp else temp + CallStipend | None => temp end
  | G_delegatecall | G_staticcall => temp
  | _ => 0
  end.

Lemma mgc_zero : forall ml la, memoryGasCost ml la 0 = Ok (0, la).
Proof. reflexivity. Qed.

Lemma gas_cost_mem : forall e w fr g ms r, wf_env e -> 0 <= gas_min g ->
  gas_cost e w fr g ms = Ok r -> (gas_uses_mem g = true \/ ms = 0) ->
  exists fee, memoryGasCost (blen (f_mem fr)) (f_last fr) ms = Ok (fee, g_last r) /\ 0 <= fee /\
              fee + gextra g (f_stack fr) (g_temp r) <= g_cost r.
Proof.
  intros e w fr g ms r Hwf Hmin H Hor.
  pose proof (gas_cost_facts e w fr g ms r Hwf H) as [Hlb Hcf].
  destruct Hwf as [_ Hcalls _ _ _ _ _ Hec].
  assert (Hnomem : gas_uses_mem g = false -> g_last r = f_last fr -> gextra g (f_stack fr) (g_temp r) = 0 ->
                   exists fee, memoryGasCost (blen (f_mem fr)) (f_last fr) ms = Ok (fee, g_last r) /\ 0 <= fee /\
                               fee + gextra g (f_stack fr) (g_temp r) <= g_cost r).
  { intros Hu Hl Hx. destruct Hor as [Hor|Hor]; [congruence|]. subst ms. exists 0. rewrite mgc_zero, Hl, Hx. repeat split; lia. }
  destruct g; cbn [gas_cost] in H;
    try (apply Hnomem; [reflexivity | injection H as <-; reflexivity | reflexivity]).
  - (* exp *) apply Hnomem; try reflexivity. destruct (back _ 1); [|discriminate]. destruct (gasExp _ _); try discriminate. injection H as <-. reflexivity.
  - destruct (back _ 1); [|discriminate]. apply lift_pair_inv in H as (c & l & Hr & ->).
    apply gas_mem_words_fee in Hr as (fee & Hm & Hf & Hb); [|unfold Sha3Gas; lia]. exists fee. cbn. unfold Sha3Gas in *. repeat split; auto; lia.
  - destruct (back _ 2); [|discriminate]. apply lift_pair_inv in H as (c & l & Hr & ->).
    apply gas_mem_words_fee in Hr as (fee & Hm & Hf & Hb); [|unfold GasFastestStep; lia]. exists fee. cbn. unfold GasFastestStep in *. repeat split; auto; lia.
  - destruct (back _ 2); [|discriminate]. apply lift_pair_inv in H as (c & l & Hr & ->).
    apply gas_mem_words_fee in Hr as (fee & Hm & Hf & Hb); [|unfold GasFastestStep; lia]. exists fee. cbn. unfold GasFastestStep in *. repeat split; auto; lia.
  - destruct (back _ 3); [|discriminate]. apply lift_pair_inv in H as (c & l & Hr & ->).
    apply gas_mem_words_fee in Hr as (fee & Hm & Hf & Hb); [|lia]. exists fee. cbn. repeat split; auto; lia.
  - destruct (back _ 2); [|discriminate]. apply lift_pair_inv in H as (c & l & Hr & ->).
    apply gas_mem_words_fee in Hr as (fee & Hm & Hf & Hb); [|unfold GasFastestStep; lia]. exists fee. cbn. unfold GasFastestStep in *. repeat split; auto; lia.
  - apply lift_pair_inv in H as (c & l & Hr & ->).
    apply gas_mem_base_fee in Hr as (fee & Hm & Hf & Hb); [|unfold GasFastestStep; lia]. exists fee. cbn. unfold GasFastestStep in *. repeat split; auto; lia.
  - apply lift_pair_inv in H as (c & l & Hr & ->).
    apply gas_mem_base_fee in Hr as (fee & Hm & Hf & Hb); [|unfold GasFastestStep; lia]. exists fee. cbn. unfold GasFastestStep in *. repeat split; auto; lia.
  - apply lift_pair_inv in H as (c & l & Hr & ->).
    apply gas_mem_base_fee in Hr as (fee & Hm & Hf & Hb); [|unfold GasFastestStep; lia]. exists fee. cbn. unfold GasFastestStep in *. repeat split; auto; lia.
  - (* sstore *) apply Hnomem; try reflexivity. destruct (back _ 0); [|discriminate]. destruct (back _ 1); [|discriminate].
    destruct (_ && _); [injection H as <-; reflexivity|]. destruct (_ && _); injection H as <-; reflexivity.
  - (* log *) destruct (back _ 1); [|discriminate]. apply lift_pair_inv in H as (c & l & Hr & ->).
    apply gasLog_fee in Hr as (fee & Hm & Hf & Hb). exists fee. cbn. repeat split; auto; lia.
  - (* create *) apply lift_pair_inv in H as (c & l & Hr & ->).
    apply gas_mem_base_fee in Hr as (fee & Hm & Hf & Hb); [|unfold CreateGas; lia]. exists fee. cbn. unfold CreateGas in *. repeat split; auto; lia.
  - (* call *)
    destruct (back _ 0) as [cc|]; [|discriminate]. destruct (back _ 1) as [a|]; [|discriminate].
    destruct (back (f_stack fr) 2) as [v|] eqn:Hv; [|discriminate].
    destruct (memoryGasCost _ _ _) as [[mg last']|?|] eqn:Hm; try discriminate.
    pose proof (memoryGasCost_nonneg _ _ _ _ _ Hm) as Hmg.
    match type of H with context[SafeAdd ?a mg] => set (g2 := a) in *; destruct (SafeAdd g2 mg) as [g3 o] eqn:Hs end.
    destruct o; [discriminate|].
    assert (Hg2 : gt_Calls (ig_base (e_gt e)) + (if negb (Z.sgn v =? 0) then CallValueTransferGas else 0) <= g2).
    { subst g2. unfold CallNewAccountGas, CallValueTransferGas.
      repeat match goal with |- context[if ?b then _ else _] => destruct b end; lia. }
    clearbody g2. unfold CallValueTransferGas in *.
    assert (0 <= g2) by (destruct (negb _); lia).
    apply SafeAdd_ok in Hs; [|lia|lia].
    unfold call_gas_tail in H. destruct (callGas _ _ _ _) as [temp|?|] eqn:Hc; try discriminate.
    apply callGas_nonneg in Hc.
    destruct (SafeAdd g3 temp) as [total o] eqn:Hs2. destruct o; [discriminate|].
    apply SafeAdd_ok in Hs2; [|lia|lia]. injection H as <-. exists mg. cbn [g_last g_cost g_temp gextra]. rewrite Hv.
    unfold CallStipend. destruct (Z.sgn v =? 0); cbn [negb] in Hg2; repeat split; auto; lia.
  - (* callcode *)
    destruct (back _ 0) as [cc|]; [|discriminate].
    destruct (back (f_stack fr) 2) as [v|] eqn:Hv; [|discriminate].
    destruct (memoryGasCost _ _ _) as [[mg last']|?|] eqn:Hm; try discriminate.
    pose proof (memoryGasCost_nonneg _ _ _ _ _ Hm) as Hmg.
    match type of H with context[SafeAdd ?a mg] => set (g2 := a) in *; destruct (SafeAdd g2 mg) as [g3 o] eqn:Hs end.
    destruct o; [discriminate|].
    assert (Hg2 : gt_Calls (ig_base (e_gt e)) + (if negb (Z.sgn v =? 0) then CallValueTransferGas else 0) <= g2) by (subst g2; lia).
    clearbody g2. unfold CallValueTransferGas in *.
    assert (0 <= g2) by (destruct (negb _); lia).
    apply SafeAdd_ok in Hs; [|lia|lia].
    unfold call_gas_tail in H. destruct (callGas _ _ _ _) as [temp|?|] eqn:Hc; try discriminate.
    apply callGas_nonneg in Hc.
    destruct (SafeAdd g3 temp) as [total o] eqn:Hs2. destruct o; [discriminate|].
    apply SafeAdd_ok in Hs2; [|lia|lia]. injection H as <-. exists mg. cbn [g_last g_cost g_temp gextra]. rewrite Hv.
    unfold CallStipend. destruct (Z.sgn v =? 0); cbn [negb] in Hg2; repeat split; auto; lia.
  - (* return *) apply lift_pair_inv in H as (c & l & Hr & ->). exists c. cbn.
    pose proof (memoryGasCost_nonneg _ _ _ _ _ Hr). repeat split; auto; lia.
  - (* revert *) apply lift_pair_inv in H as (c & l & Hr & ->). exists c. cbn.
    pose proof (memoryGasCost_nonneg _ _ _ _ _ Hr). repeat split; auto; lia.
  - (* delegatecall *)
    destruct (back _ 0) as [cc|]; [|discriminate].
    destruct (memoryGasCost _ _ _) as [[mg last']|?|] eqn:Hm; try discriminate.
    pose proof (memoryGasCost_nonneg _ _ _ _ _ Hm) as Hmg.
    destruct (SafeAdd mg _) as [g3 o] eqn:Hs. destruct o; [discriminate|].
    apply SafeAdd_ok in Hs; [|lia|lia].
    unfold call_gas_tail in H. destruct (callGas _ _ _ _) as [temp|?|] eqn:Hc; try discriminate.
    apply callGas_nonneg in Hc.
    destruct (SafeAdd g3 temp) as [total o] eqn:Hs2. destruct o; [discriminate|].
    apply SafeAdd_ok in Hs2; [|lia|lia]. injection H as <-. exists mg. cbn. repeat split; auto; lia.
  - (* staticcall *)
    destruct (back _ 0) as [cc|]; [|discriminate].
    destruct (memoryGasCost _ _ _) as [[mg last']|?|] eqn:Hm; try discriminate.
    pose proof (memoryGasCost_nonneg _ _ _ _ _ Hm) as Hmg.
    destruct (SafeAdd mg _) as [g3 o] eqn:Hs. destruct o; [discriminate|].
    apply SafeAdd_ok in Hs; [|lia|lia].
    unfold call_gas_tail in H. destruct (callGas _ _ _ _) as [temp|?|] eqn:Hc; try discriminate.
    apply callGas_nonneg in Hc.
    destruct (SafeAdd g3 temp) as [total o] eqn:Hs2. destruct o; [discriminate|].
    apply SafeAdd_ok in Hs2; [|lia|lia]. injection H as <-. exists mg. cbn. repeat split; auto; lia.
  - (* suicide *) apply Hnomem; try reflexivity. destruct (back _ 0); [|discriminate]. injection H as <-. reflexivity.
  - discriminate.
Qed.

(* ------------------------------------------------------------------ tables: an instruction with a memory operand has a gas function that charges it *)

Definition mem_compat (c : cop) : bool :=
  negb (c_valid c) || match c_mem c with M_none => true | M_unknown => false | _ => gas_uses_mem (c_gas c) end.
Lemma tables_mem_ok : forall s, forallb mem_compat (ctbl_of s) = true.
Proof. intros []; vm_compute; reflexivity. Qed.
Lemma nth_mem_compat : forall s n, mem_compat (nth n (ctbl_of s) invalid_cop) = true.
Proof.
  intros s n. destruct (nth_in_or_default n (ctbl_of s) invalid_cop) as [Hin | Hd].
  - pose proof (tables_mem_ok s) as H. rewrite forallb_forall in H. apply H, Hin.
  - rewrite Hd. reflexivity.
Qed.

Lemma extra_le : forall x g st temp, compat x g = true -> 0 <= gextra g st temp -> extra_of x st temp <= gextra g st temp.
Proof.
  intros x g st temp Hc Hn.
  destruct x; cbn [extra_of]; try exact Hn; destruct g; cbn [compat] in Hc; try discriminate; cbn [gextra]; lia.
Qed.

(* ------------------------------------------------------------------ the invariant *)

Definition mem_inv (G : Z) (fr : frame) : Prop :=
  exists w, 0 <= w /\ blen (f_mem fr) = 32 * w /\ f_last fr = Cmem w /\ Cmem w + f_gas fr <= G.

Lemma mem_inv_init : forall code input self caller value gas ro depth tr,
  mem_inv gas (new_frame code input self caller value gas ro depth tr).
Proof. intros. exists 0. cbn. repeat split; lia. Qed.

Lemma step_mem : forall rec e w fr B G, wf_env e -> rec_good rec B -> 0 <= f_gas fr -> 1 <= f_depth fr <= DMAX ->
  G < 2^32 -> mem_inv G fr ->
  match step rec e w fr with S_next _ fr' => mem_inv G fr' | S_done _ => True end.
Proof.
  intros rec e w fr B G Hwf Hrec Hg Hd HG (w0 & Hw0 & Hlen & Hlast & Hpaid). unfold step.
  set (op := get_op (f_code fr) (f_pc fr)).
  set (c := nth (Z.to_nat op) (e_tbl e) invalid_cop).
  destruct (wf_tbl e Hwf) as [s Hs].
  assert (Hok : cop_ok c = true) by (subst c; rewrite Hs; apply nth_cop_ok).
  assert (Hmc : mem_compat c = true) by (subst c; rewrite Hs; apply nth_mem_compat).
  destruct (negb (c_valid c)) eqn:Hv; [exact I|].
  unfold cop_ok in Hok. rewrite Hv in Hok. cbn [orb] in Hok.
  unfold mem_compat in Hmc. rewrite Hv in Hmc. cbn [orb] in Hmc.
  apply andb_prop in Hok as [Hok _]. apply andb_prop in Hok as [Hok _].
  apply andb_prop in Hok as [Hok _]. apply andb_prop in Hok as [Hok _].
  apply andb_prop in Hok as [Hok Hcompat]. apply andb_prop in Hok as [Hmin0 _].
  destruct (validateStack _ _ _); [|exact I|exact I].
  destruct (restricted e fr op c); [exact I|].
  destruct (mem_size_big (c_mem c) (f_stack fr)) as [msb|] eqn:Hmsb; [|exact I].
  destruct (match msb with Some b => run_memorySize b | None => Ok 0 end) as [memorySize|?|] eqn:Hms; [|exact I|exact I].
  assert (Hk : exists k, 0 <= k /\ memorySize = 32 * k).
  { destruct msb as [b|]; [apply run_memorySize_mult in Hms; exact Hms | injection Hms as <-; exists 0; lia]. }
  destruct Hk as (k & Hk0 & ->).
  assert (Hor : gas_uses_mem (c_gas c) = true \/ 32 * k = 0).
  { destruct (gas_uses_mem (c_gas c)) eqn:Hu; [left; reflexivity|right].
    destruct (c_mem c) eqn:Hcm; try rewrite Hu in Hmc; try discriminate Hmc.
    cbn [mem_size_big] in Hmsb. injection Hmsb as <-. assert (Hz : 0 = 32 * k) by congruence. lia. }
  destruct (gas_cost e w fr (c_gas c) (32 * k)) as [g|?|] eqn:Hgc; [|exact I|exact I].
  pose proof (gas_cost_facts e w fr (c_gas c) (32 * k) g Hwf Hgc) as [Hminle Hcallf].
  apply gas_cost_mem in Hgc; [|assumption|lia|assumption].
  destruct Hgc as (fee & Hmgc & Hfee0 & Hfee).
  destruct (f_gas fr <? g_cost g) eqn:Hlt; [exact I|].
  pose proof (Cmem_nonneg w0 Hw0) as Hc0.
  assert (Hgx : 0 <= gextra (c_gas c) (f_stack fr) (g_temp g)).
  { destruct (c_gas c); cbn [gextra]; try lia; unfold CallStipend; destruct Hcallf as (Ht & _); try lia;
      destruct (back (f_stack fr) 2) as [v|]; try lia; destruct (Z.sgn v =? 0); lia. }
  rewrite Hlen, Hlast in Hmgc.
  apply mgc_inv in Hmgc; try lia. destruct Hmgc as [Hl' Hfeeq].
  match goal with |- context[exec rec e (g_world g) ?f1 (c_exec c) (g_temp g)] => set (fr1 := f1) end.
  assert (Hm1 : blen (f_mem fr1) = 32 * Z.max w0 k) by (subst fr1; cbn [f_mem]; apply mem_resize_len; assumption).
  assert (Hcall4 : is_call_exec (c_exec c) = true -> 0 <= g_temp g).
  { intro Hx. destruct (c_exec c); try discriminate Hx; destruct (c_gas c); cbn [compat] in Hcompat; try discriminate; destruct Hcallf as (Ht & _); exact Ht. }
  assert (Hg1 : 0 <= f_gas fr1) by (change (f_gas fr1) with (f_gas fr - g_cost g); lia).
  assert (Hd1 : 1 <= f_depth fr1 <= DMAX) by exact Hd.
  pose proof (exec_good rec e (g_world g) fr1 (c_exec c) (g_temp g) B Hrec Hg1 Hd1 Hcall4) as Hex.
  pose proof (extra_le (c_exec c) (c_gas c) (f_stack fr1) (g_temp g) Hcompat Hgx) as Hxl.
  destruct (exec rec e (g_world g) fr1 (c_exec c) (g_temp g)) as [w2 fr2 res| er | |] eqn:Hexec; try exact I.
  cbn [xres_good] in Hex. destruct Hex as (Hgas2 & _ & _).
  apply exec_mem in Hexec. destruct Hexec as [Hm2 Hl2].
  assert (Hinv2 : mem_inv G fr2).
  { exists (Z.max w0 k). change (f_gas fr1) with (f_gas fr - g_cost g) in Hgas2. change (f_last fr1) with (g_last g) in Hl2.
    change (f_stack fr1) with (f_stack fr) in Hxl, Hgas2.
    repeat split; try lia; congruence. }
  set (fr3 := if c_returns c then set_rdata fr2 res else fr2).
  assert (Hinv3 : mem_inv G fr3) by (subst fr3; destruct (c_returns c); exact Hinv2).
  destruct (c_reverts c); [exact I|]. destruct (c_halts c); [exact I|].
  destruct (c_jumps c); exact Hinv3.
Qed.

(* ------------------------------------------------------------------ along the run of a frame *)

(* the states a frame goes through: iterations of the loop of Interpreter.Run (children run inside a step) *)
Inductive frame_reach (rec : interp_t) (e : env) : world -> frame -> world -> frame -> Prop :=
| reach_refl : forall w fr, frame_reach rec e w fr w fr
| reach_step : forall w fr w1 fr1 w2 fr2,
    step rec e w fr = S_next w1 fr1 -> frame_reach rec e w1 fr1 w2 fr2 -> frame_reach rec e w fr w2 fr2.

Theorem memory_bounded : forall fuel e code input self caller value gas ro depth tr w0 w fr,
  wf_env e -> 0 <= gas < 2^32 -> 1 <= depth <= CallCreateDepth + 1 ->
  frame_reach (interp fuel e) e w0 (new_frame code input self caller value gas ro depth tr) w fr ->
  exists words, 0 <= words /\ blen (f_mem fr) = 32 * words /\
                3 * words + words * words / 512 <= gas - f_gas fr /\ 0 <= f_gas fr.
Proof.
  intros fuel e code input self caller value gas ro depth tr w0 w fr Hwf Hgas Hdep Hreach.
  set (fr0 := new_frame code input self caller value gas ro depth tr) in *.
  assert (Hinv0 : mem_inv gas fr0 /\ 0 <= f_gas fr0 /\ 1 <= f_depth fr0 <= DMAX).
  { split; [apply mem_inv_init|]. subst fr0. cbn [new_frame f_gas f_depth]. unfold DMAX. lia. }
  clearbody fr0. revert Hinv0.
  induction Hreach as [w1 fr1 | w1 fr1 w2 fr2 w3 fr3 Hstep _ IH]; intros (Hinv & Hg & Hd).
  - destruct Hinv as (wd & Hw & Hl & _ & Hp). exists wd. unfold Cmem in Hp. repeat split; auto; lia.
  - apply IH.
    pose proof (step_mem (interp fuel e) e w1 fr1 (Z.of_nat fuel) gas Hwf (interp_good fuel e Hwf) Hg Hd ltac:(lia) Hinv) as Hm.
    pose proof (step_good (interp fuel e) e w1 fr1 (Z.of_nat fuel) Hwf (interp_good fuel e Hwf) Hg Hd) as Hs.
    rewrite Hstep in Hm, Hs. destruct Hs as (Hg' & Hd' & _). repeat split; try lia; assumption.
Qed.

(* the growth bound: the memory of a run is bounded by a function of the gas supplied — linearly by gas/3 words and,
   through the quadratic term, by sqrt(512 gas) words (whichever is smaller) *)
Theorem memory_growth_bound : forall fuel e code input self caller value gas ro depth tr w0 w fr,
  wf_env e -> 0 <= gas < 2^32 -> 1 <= depth <= CallCreateDepth + 1 ->
  frame_reach (interp fuel e) e w0 (new_frame code input self caller value gas ro depth tr) w fr ->
  exists words, blen (f_mem fr) = 32 * words /\ 0 <= words /\ 3 * words <= gas /\ words * words <= 512 * gas + 511.
Proof.
  intros until fr. intros Hwf Hgas Hdep Hreach.
  destruct (memory_bounded _ _ _ _ _ _ _ _ _ _ _ _ _ _ Hwf Hgas Hdep Hreach) as (wd & Hw & Hl & Hc & Hg).
  exists wd. assert (0 <= wd * wd / 512) by (apply Z.div_pos; nia).
  repeat split; try lia.
Qed.

(* non-vacuity: PUSH1 1 PUSH1 0 MSTORE reaches a frame holding one word after 12 gas (3 of them for the memory) *)
Ltac stepc := eapply reach_step; [ lazymatch goal with |- ?l = _ => let v := eval vm_compute in l in transitivity v; [vm_cast_no_check (eq_refl v) | reflexivity] end |].
Example mem_reach_nonvacuous : exists w fr,
  frame_reach (interp 10 (demo_env 40000)) (demo_env 40000) demo_world
              (new_frame [0x60;1;0x60;0;0x52;0] [] 0xbb 0xaa 0 100000 false 1 []) w fr /\
  blen (f_mem fr) = 32 /\ f_gas fr = 100000 - 12.
Proof.
  eexists. eexists. split.
  { stepc. stepc. stepc. apply reach_refl. }
  split; reflexivity.
Qed.
