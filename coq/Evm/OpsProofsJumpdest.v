(* analysis.go (codeBitmap / destinations.has) against the Yellow-Paper
   definition of valid jump destinations (OpsSpec.valid_jumpdest). *)
From Coq Require Import ZArith List Bool Lia ZifyBool.
From AQ Require Import Evm.OpsModel Evm.OpsSpec.
Import ListNotations.
Local Open Scope Z_scope.
Definition byteval (x : Z) : Prop := 0 <= x < 256.

Ltac dm := Z.div_mod_to_equations; lia.

(* ------------------------------------------------------------------ upd *)

Lemma upd_some : forall l i f, (i < length l)%nat -> exists l', upd l i f = Some l'.
Proof.
  induction l as [|x r IH]; intros i f H; simpl in *.
  - lia.
  - destruct i as [|i]; [eauto|].
    destruct (IH i f) as [r' Hr]; [lia|]. rewrite Hr. eauto.
Qed.

Lemma upd_spec : forall l i f l', upd l i f = Some l' ->
  length l' = length l /\
  forall j, nth_error l' j = if Nat.eqb j i then option_map f (nth_error l j) else nth_error l j.
Proof.
  induction l as [|x r IH]; intros i f l' H; simpl in H; [discriminate|].
  destruct i as [|i].
  - inversion H; subst. split; [reflexivity|]. intros [|j]; reflexivity.
  - destruct (upd r i f) as [r'|] eqn:E; [|discriminate]. inversion H; subst.
    destruct (IH _ _ _ E) as [Hl Hn]. split; [simpl; congruence|].
    intros [|j]; simpl; [reflexivity|apply Hn].
Qed.

(* ------------------------------------------------------------------ abstract view of the bit vector *)

Definition getbit (bits : list Z) (p : Z) : bool :=
  match nth_error bits (Z.to_nat (p / 8)) with
  | Some b => Z.testbit b (7 - p mod 8)
  | None => false
  end.

Lemma getbit_upd : forall bits i f bits' q, upd bits i f = Some bits' ->
  getbit bits' q =
  match nth_error bits (Z.to_nat (q / 8)) with
  | Some b => Z.testbit (if Nat.eqb (Z.to_nat (q / 8)) i then f b else b) (7 - q mod 8)
  | None => false
  end.
Proof.
  intros bits i f bits' q H. destruct (upd_spec _ _ _ _ H) as [_ Hn].
  unfold getbit. rewrite Hn.
  destruct (Nat.eqb (Z.to_nat (q / 8)) i); destruct (nth_error bits _); reflexivity.
Qed.

Lemma tb128 : forall m, 0 <= m -> Z.testbit 128 m = (m =? 7).
Proof.
  intros m Hm. change 128 with (2 ^ 7). rewrite Z.pow2_bits_eqb by lia.
  apply Z.eqb_sym.
Qed.

Lemma tb255 : forall m, 0 <= m -> Z.testbit 255 m = (m <? 8).
Proof.
  intros m Hm. change 255 with (Z.ones 8). destruct (Z.ltb_spec m 8).
  - apply Z.ones_spec_low; lia.
  - apply Z.ones_spec_high; lia.
Qed.

Lemma mask_bit : forall k m, 0 <= k -> 0 <= m -> Z.testbit (Z.shiftr 128 k) m = (m + k =? 7).
Proof. intros k m Hk Hm. rewrite Z.shiftr_spec by lia. apply tb128. lia. Qed.

Lemma mask_hi : forall k m, 0 <= k -> 0 <= m -> Z.testbit (Z.shiftr 255 k) m = (m + k <? 8).
Proof. intros k m Hk Hm. rewrite Z.shiftr_spec by lia. apply tb255. lia. Qed.

Lemma mask_lo : forall k m, 0 <= k -> 0 <= m < 8 ->
  Z.testbit (Z.land (Z.lnot (Z.shiftr 255 k)) 255) m = (8 <=? m + k).
Proof.
  intros k m Hk Hm. rewrite Z.land_spec, Z.lnot_spec, mask_hi, tb255 by lia. lia.
Qed.

Lemma land_mask : forall b k, 0 <= k <= 7 ->
  (Z.land b (Z.shiftr 128 k) =? 0) = negb (Z.testbit b (7 - k)).
Proof.
  intros b k Hk. destruct (Z.testbit b (7 - k)) eqn:E; cbn [negb].
  - apply Z.eqb_neq. intro H0.
    assert (Hb : Z.testbit (Z.land b (Z.shiftr 128 k)) (7 - k) = true).
    { rewrite Z.land_spec, mask_bit, E by lia. lia. }
    rewrite H0, Z.bits_0 in Hb. discriminate.
  - apply Z.eqb_eq. apply Z.bits_inj'. intros n Hn.
    rewrite Z.land_spec, mask_bit, Z.bits_0 by lia.
    destruct (Z.eqb_spec (n + k) 7) as [e|e].
    + replace n with (7 - k) by lia. rewrite E. reflexivity.
    + apply andb_false_r.
Qed.

Lemma nth_error_in : forall (l : list Z) i, 0 <= i < Z.of_nat (length l) ->
  exists b, nth_error l (Z.to_nat i) = Some b.
Proof.
  intros l i H. destruct (nth_error l (Z.to_nat i)) as [b|] eqn:E; [eauto|].
  apply nth_error_None in E. lia.
Qed.

Lemma nth_error_out : forall (l : list Z) i b, 0 <= i -> nth_error l (Z.to_nat i) = Some b ->
  i < Z.of_nat (length l).
Proof.
  intros l i b Hi H. assert (Hs : nth_error l (Z.to_nat i) <> None) by congruence.
  apply nth_error_Some in Hs. lia.
Qed.

Lemma codeSegment_getbit : forall m p, 0 <= p -> p / 8 < Z.of_nat (length m) ->
  bv_codeSegment m p = Some (negb (getbit m p)).
Proof.
  intros m p Hp Hr. unfold bv_codeSegment, getbit.
  destruct (nth_error_in m (p / 8)) as [b Hb]; [dm|]. rewrite Hb.
  rewrite land_mask by dm. reflexivity.
Qed.

Lemma bv_set_spec : forall bits p, 0 <= p -> p / 8 < Z.of_nat (length bits) ->
  exists bits', bv_set bits p = Some bits' /\ length bits' = length bits /\
    forall q, 0 <= q -> getbit bits' q = (q =? p) || getbit bits q.
Proof.
  intros bits p Hp Hr. unfold bv_set.
  destruct (upd_some bits (Z.to_nat (p / 8)) (fun b => Z.lor b (Z.shiftr 128 (p mod 8))))
    as [bits' E]; [dm|].
  exists bits'. split; [exact E|]. split; [apply (upd_spec _ _ _ _ E)|].
  intros q Hq. rewrite (getbit_upd _ _ _ _ q E). unfold getbit.
  destruct (nth_error bits (Z.to_nat (q / 8))) as [b|] eqn:En.
  - destruct (Nat.eqb_spec (Z.to_nat (q / 8)) (Z.to_nat (p / 8))) as [e|e].
    + rewrite Z.lor_spec, mask_bit by dm.
      assert (q / 8 = p / 8) by dm.
      destruct (Z.testbit b (7 - q mod 8)); dm.
    + assert (q / 8 <> p / 8) by dm.
      destruct (Z.testbit b (7 - q mod 8)); dm.
  - apply nth_error_None in En. dm.
Qed.

Lemma bv_set8_spec : forall bits p, 0 <= p -> p / 8 + 1 < Z.of_nat (length bits) ->
  exists bits', bv_set8 bits p = Some bits' /\ length bits' = length bits /\
    forall q, 0 <= q -> getbit bits' q = ((p <=? q) && (q <? p + 8)) || getbit bits q.
Proof.
  intros bits p Hp Hr. unfold bv_set8.
  destruct (upd_some bits (Z.to_nat (p / 8)) (fun b => Z.lor b (Z.shiftr 255 (p mod 8))))
    as [bits1 E1]; [dm|].
  rewrite E1. destruct (upd_spec _ _ _ _ E1) as [Hl1 Hn1].
  destruct (upd_some bits1 (Z.to_nat (p / 8 + 1))
              (fun b => Z.lor b (Z.land (Z.lnot (Z.shiftr 255 (p mod 8))) 255)))
    as [bits2 E2]; [dm|].
  exists bits2. split; [exact E2|]. destruct (upd_spec _ _ _ _ E2) as [Hl2 _].
  split; [congruence|].
  intros q Hq. rewrite (getbit_upd _ _ _ _ q E2). rewrite Hn1. unfold getbit.
  destruct (nth_error bits (Z.to_nat (q / 8))) as [b|] eqn:En.
  - destruct (Nat.eqb_spec (Z.to_nat (q / 8)) (Z.to_nat (p / 8))) as [e1|e1];
    destruct (Nat.eqb_spec (Z.to_nat (q / 8)) (Z.to_nat (p / 8 + 1))) as [e2|e2];
    cbn [option_map].
    + exfalso. dm.
    + rewrite Z.lor_spec, mask_hi by dm.
      assert (q / 8 = p / 8) by dm.
      destruct (Z.testbit b (7 - q mod 8)); dm.
    + rewrite Z.lor_spec, mask_lo by dm.
      assert (q / 8 = p / 8 + 1) by dm.
      destruct (Z.testbit b (7 - q mod 8)); dm.
    + assert (q / 8 <> p / 8) by dm. assert (q / 8 <> p / 8 + 1) by dm.
      destruct (Z.testbit b (7 - q mod 8)); dm.
  - apply nth_error_None in En.
    destruct (Nat.eqb (Z.to_nat (q / 8)) (Z.to_nat (p / 8))); cbn [option_map]; dm.
Qed.

(* ------------------------------------------------------------------ the two inner loops *)

Lemma set8_loop_spec : forall fuel bits pc n, 0 <= pc -> 0 <= n -> n < 8 * Z.of_nat fuel + 8 ->
  (pc + n) / 8 < Z.of_nat (length bits) ->
  exists bits' pc' n', set8_loop fuel bits pc n = Some (bits', pc', n') /\
    pc' + n' = pc + n /\ 0 <= n' < 8 /\ pc <= pc' /\
    length bits' = length bits /\
    forall q, 0 <= q -> getbit bits' q = ((pc <=? q) && (q <? pc')) || getbit bits q.
Proof.
  induction fuel as [|fuel IH]; intros bits pc n Hpc Hn Hf Hr; cbn [set8_loop];
    rewrite Z.geb_leb; destruct (Z.leb_spec 8 n) as [H8|H8].
  - lia.
  - exists bits, pc, n. repeat split; intros; lia.
  - destruct (bv_set8_spec bits pc Hpc) as (bits1 & E1 & Hl1 & Hg1); [dm|].
    rewrite E1.
    assert (Hr1 : (pc + 8 + (n - 8)) / 8 < Z.of_nat (length bits1)).
    { replace (pc + 8 + (n - 8)) with (pc + n) by lia. rewrite Hl1. exact Hr. }
    destruct (IH bits1 (pc + 8) (n - 8) ltac:(lia) ltac:(lia) ltac:(lia) Hr1)
      as (bits' & pc' & n' & E & Hsum & Hn' & Hle & Hl & Hg).
    exists bits', pc', n'. split; [exact E|]. repeat split; try lia.
    intros q Hq. rewrite Hg, Hg1 by lia. destruct (getbit bits q); lia.
  - exists bits, pc, n. repeat split; intros; lia.
Qed.

Lemma set1_loop_spec : forall fuel bits pc n, 0 <= pc -> 0 <= n <= Z.of_nat fuel ->
  (pc + n) / 8 < Z.of_nat (length bits) ->
  exists bits', set1_loop fuel bits pc n = Some (bits', pc + n) /\
    length bits' = length bits /\
    forall q, 0 <= q -> getbit bits' q = ((pc <=? q) && (q <? pc + n)) || getbit bits q.
Proof.
  induction fuel as [|fuel IH]; intros bits pc n Hpc Hn Hr; cbn [set1_loop];
    rewrite Z.gtb_ltb; destruct (Z.ltb_spec 0 n) as [H0|H0].
  - lia.
  - exists bits. replace (pc + n) with pc by lia. repeat split; intros; lia.
  - destruct (bv_set_spec bits pc Hpc) as (bits1 & E1 & Hl1 & Hg1); [dm|].
    rewrite E1.
    assert (Hr1 : (pc + 1 + (n - 1)) / 8 < Z.of_nat (length bits1)).
    { replace (pc + 1 + (n - 1)) with (pc + n) by lia. rewrite Hl1. exact Hr. }
    destruct (IH bits1 (pc + 1) (n - 1) ltac:(lia) ltac:(lia) Hr1) as (bits' & E & Hl & Hg).
    replace (pc + 1 + (n - 1)) with (pc + n) in * by lia.
    exists bits'. split; [exact E|]. split; [lia|].
    intros q Hq. rewrite Hg, Hg1 by lia. destruct (getbit bits q); lia.
  - exists bits. replace (pc + n) with pc by lia. repeat split; intros; lia.
Qed.

Lemma push_step : forall bits pc n, 0 <= pc -> 1 <= n <= 32 ->
  (pc + n) / 8 < Z.of_nat (length bits) ->
  exists bits1 pc1 n1 bits2,
    set8_loop 4 bits pc n = Some (bits1, pc1, n1) /\
    set1_loop 8 bits1 pc1 n1 = Some (bits2, pc + n) /\
    length bits2 = length bits /\
    forall q, 0 <= q -> getbit bits2 q = ((pc <=? q) && (q <? pc + n)) || getbit bits q.
Proof.
  intros bits pc n Hpc Hn Hr.
  destruct (set8_loop_spec 4 bits pc n ltac:(lia) ltac:(lia) ltac:(lia) Hr)
    as (bits1 & pc1 & n1 & E8 & Hsum & Hn1 & Hle & Hl1 & Hg1).
  assert (Hr1 : (pc1 + n1) / 8 < Z.of_nat (length bits1)).
  { rewrite Hsum, Hl1. exact Hr. }
  destruct (set1_loop_spec 8 bits1 pc1 n1 ltac:(lia) ltac:(lia) Hr1) as (bits2 & E1 & Hl2 & Hg2).
  rewrite Hsum in *.
  exists bits1, pc1, n1, bits2. split; [exact E8|]. split; [exact E1|]. split; [lia|].
  intros q Hq. rewrite Hg2, Hg1 by lia. destruct (getbit bits q); lia.
Qed.

(* ------------------------------------------------------------------ instruction starts *)

Lemma pushlen_nonneg : forall op, 0 <= pushlen op.
Proof. intros op. unfold pushlen. destruct ((96 <=? op) && (op <=? 127)) eqn:E; lia. Qed.

Lemma pushlen_model : forall op,
  ((op >=? PUSH1) && (op <=? PUSH32) = true -> pushlen op = op - PUSH1 + 1 /\ 1 <= pushlen op <= 32) /\
  ((op >=? PUSH1) && (op <=? PUSH32) = false -> pushlen op = 0).
Proof.
  intros op. unfold pushlen, PUSH1, PUSH32.
  destruct ((96 <=? op) && (op <=? 127)) eqn:E; split; intros H; lia.
Qed.

Lemma instr_start_nonneg : forall code j, instr_start code j -> 0 <= j.
Proof. induction 1; [lia|]. pose proof (pushlen_nonneg op). lia. Qed.

(* no instruction starts inside another one *)
Lemma no_overlap : forall code j, 0 <= j -> forall i op,
  instr_start code j -> instr_start code i -> nth_error code (Z.to_nat i) = Some op ->
  i < j -> i + 1 + pushlen op <= j.
Proof.
  intros code j Hj. pattern j. apply Z_lt_induction; [|exact Hj]. clear j Hj.
  intros j IH i op Hsj Hsi Hop Hlt.
  pose proof (instr_start_nonneg _ _ Hsi) as Hi0.
  inversion Hsj as [Hz | i' op' Hsi' Hop' Hi' Hjeq]; subst.
  - lia.
  - pose proof (pushlen_nonneg op'). pose proof (pushlen_nonneg op).
    destruct (Z.lt_trichotomy i i') as [H1|[H1|H1]].
    + assert (i + 1 + pushlen op <= i') by (apply (IH i'); auto; lia). lia.
    + subst i'. rewrite Hop in Hop'. inversion Hop'; subst. lia.
    + assert (i' + 1 + pushlen op' <= i) by (apply (IH i) with (i := i'); auto; lia). lia.
Qed.

(* ------------------------------------------------------------------ the outer loop *)

Definition inv (code bits : list Z) (pc : Z) : Prop :=
  0 <= pc /\ instr_start code pc /\
  (forall q, 0 <= q -> getbit bits q = true -> q < pc) /\
  (forall q, 0 <= q < pc -> (getbit bits q = false <-> instr_start code q)).

Lemma bitmap_loop_spec : forall code fuel bits pc,
  Z.of_nat (length code) - pc < Z.of_nat fuel ->
  Z.of_nat (length bits) = Z.of_nat (length code) / 8 + 5 ->
  inv code bits pc ->
  exists final, bitmap_loop fuel code bits pc = Some final /\
    Z.of_nat (length final) = Z.of_nat (length code) / 8 + 5 /\
    forall q, 0 <= q < Z.of_nat (length code) -> (getbit final q = false <-> instr_start code q).
Proof.
  intros code. induction fuel as [|fuel IH]; intros bits pc Hf Hlen (H0 & Hs & H3 & H4);
    cbn [bitmap_loop].
  - exists bits. split; [reflexivity|]. split; [exact Hlen|]. intros q Hq. apply H4. lia.
  - destruct (Z.ltb_spec pc (Z.of_nat (length code))) as [Hlt|Hge].
    2:{ exists bits. split; [reflexivity|]. split; [exact Hlen|]. intros q Hq. apply H4. lia. }
    destruct (nth_error_in code pc) as [op Hop]; [lia|]. rewrite Hop.
    destruct (pushlen_model op) as [Hpush Hnopush].
    destruct ((op >=? PUSH1) && (op <=? PUSH32)) eqn:Ep.
    + destruct (Hpush eq_refl) as [Hpl Hrange]. clear Hpush Hnopush.
      rewrite <- Hpl.
      assert (Hr1 : (pc + 1 + pushlen op) / 8 < Z.of_nat (length bits)).
      { rewrite Hlen. dm. }
      destruct (push_step bits (pc + 1) (pushlen op) ltac:(lia) ltac:(lia) Hr1) as
        (bits1 & pc1 & n1 & bits2 & E8 & E1 & Hl2 & Hg).
      rewrite E8, E1.
      apply IH; [lia|lia|].
      split; [lia|]. split; [apply is_next; assumption|]. split.
      * intros q Hq Hb. rewrite Hg in Hb by lia.
        destruct (getbit bits q) eqn:Eb; [apply H3 in Eb; lia|lia].
      * intros q Hq. rewrite Hg by lia.
        destruct (Z.lt_trichotomy q pc) as [Hc|[Hc|Hc]].
        -- replace ((pc + 1 <=? q) && (q <? pc + 1 + pushlen op)) with false by lia.
           cbn [orb]. apply H4. lia.
        -- subst q. replace ((pc + 1 <=? pc) && (pc <? pc + 1 + pushlen op)) with false by lia.
           cbn [orb]. split; [intros _; exact Hs|intros _].
           destruct (getbit bits pc) eqn:Eb; [apply H3 in Eb; lia|reflexivity].
        -- replace ((pc + 1 <=? q) && (q <? pc + 1 + pushlen op)) with true by lia.
           cbn [orb]. split; [discriminate|]. intros Hsq. exfalso.
           pose proof (no_overlap code q ltac:(lia) pc op Hsq Hs Hop Hc). lia.
    + pose proof (Hnopush eq_refl) as Hpl. clear Hpush Hnopush.
      apply IH; [lia|exact Hlen|].
      split; [lia|]. split.
      { replace (pc + 1) with (pc + 1 + pushlen op) by lia. apply is_next; assumption. }
      split.
      * intros q Hq Hb. apply H3 in Hb; lia.
      * intros q Hq. destruct (Z.eq_dec q pc) as [Hc|Hc].
        -- subst q. split; [intros _; exact Hs|intros _].
           destruct (getbit bits pc) eqn:Eb; [apply H3 in Eb; lia|reflexivity].
        -- apply H4. lia.
Qed.

Lemma getbit_zero : forall n q, getbit (repeat 0 n) q = false.
Proof.
  intros n q. unfold getbit.
  destruct (nth_error (repeat 0 n) (Z.to_nat (q / 8))) as [b|] eqn:E; [|reflexivity].
  apply nth_error_In, repeat_spec in E. subst b. apply Z.bits_0.
Qed.

Lemma codeBitmap_spec : forall code,
  exists m, codeBitmap code = Ok m /\
    Z.of_nat (length m) = Z.of_nat (length code) / 8 + 5 /\
    forall q, 0 <= q < Z.of_nat (length code) -> (getbit m q = false <-> instr_start code q).
Proof.
  intros code. unfold codeBitmap.
  destruct (bitmap_loop_spec code (S (length code))
              (repeat 0 (Z.to_nat (Z.of_nat (length code) / 8 + 1 + 4))) 0)
    as (m & E & Hl & Hm).
  - lia.
  - rewrite repeat_length. dm.
  - split; [lia|]. split; [constructor|]. split.
    + intros q _ Hb. rewrite getbit_zero in Hb. discriminate.
    + intros q Hq. lia.
  - rewrite E. eauto.
Qed.

(* ------------------------------------------------------------------ has *)

Lemma p62_lt_p64 : 2 ^ 62 < 2 ^ 64.
Proof. reflexivity. Qed.

Lemma bitlen_63 : forall d, 0 <= d -> (BitLen d >=? 63) = (2 ^ 62 <=? d).
Proof.
  intros d Hd. unfold BitLen. rewrite Z.abs_eq by lia.
  destruct (Z.eqb_spec d 0) as [e|e]; [subst; reflexivity|].
  destruct (Z.leb_spec (2 ^ 62) d) as [H|H].
  - apply Z.log2_le_pow2 in H; lia.
  - apply Z.log2_lt_pow2 in H; lia.
Qed.

Lemma udest_small : forall d, 0 <= d < 2 ^ 62 -> big_Uint64 d = d.
Proof.
  intros d Hd. unfold big_Uint64, wrap64, two64. rewrite Z.abs_eq by lia.
  apply Z.mod_small. pose proof p62_lt_p64. lia.
Qed.

Lemma udest_nonneg : forall d, 0 <= big_Uint64 d.
Proof.
  intros d. unfold big_Uint64, wrap64, two64. apply Z.mod_pos_bound. reflexivity.
Qed.

(* the analysis never indexes out of range (the Go code allocates len/8+1+4
   bytes for that reason) *)
Theorem has_no_panic : forall code d, Forall byteval code -> 0 <= d -> exists b, has code d = Ok b.
Proof.
  intros code d _ Hd. unfold has.
  destruct ((BitLen d >=? 63) || (big_Uint64 d >=? Z.of_nat (length code))) eqn:E; [eauto|].
  apply orb_false_iff in E. destruct E as [_ E2].
  pose proof (udest_nonneg d) as Hu. set (u := big_Uint64 d) in *.
  destruct (codeBitmap_spec code) as (m & Em & Hlm & _). rewrite Em.
  destruct (nth_error_in code u) as [op Hop]; [lia|]. rewrite Hop.
  rewrite codeSegment_getbit; [eauto|lia|]. rewrite Hlm. dm.
Qed.

Lemma has_out_of_range : forall code d, 0 <= d ->
  2 ^ 62 <= d \/ Z.of_nat (length code) <= d -> has code d = Ok false.
Proof.
  intros code d Hd Hor. unfold has. rewrite bitlen_63 by lia.
  destruct (Z.leb_spec (2 ^ 62) d) as [H|H]; [reflexivity|].
  rewrite udest_small by lia.
  replace (d >=? Z.of_nat (length code)) with true by lia. reflexivity.
Qed.

Lemma has_in_range : forall code d op, 0 <= d < 2 ^ 62 ->
  nth_error code (Z.to_nat d) = Some op ->
  exists m, has code d = Ok ((op =? JUMPDEST) && negb (getbit m d)) /\
    (getbit m d = false <-> instr_start code d).
Proof.
  intros code d op Hd Hop.
  pose proof (nth_error_out code d op ltac:(lia) Hop) as Hlt.
  destruct (codeBitmap_spec code) as (m & Em & Hlm & Hm).
  exists m. split; [|apply Hm; lia].
  unfold has. rewrite bitlen_63 by lia. rewrite udest_small by lia.
  replace ((2 ^ 62 <=? d) || (d >=? Z.of_nat (length code))) with false by lia.
  rewrite Em, Hop. rewrite codeSegment_getbit; [reflexivity|lia|]. rewrite Hlm. dm.
Qed.

(* for any code length (bounded only by what a Go slice can hold) and any
   256-bit destination, has = the Yellow-Paper predicate D(c) *)
Theorem jumpdest_spec : forall code d, Forall byteval code ->
  Z.of_nat (length code) < 2 ^ 62 -> 0 <= d < 2 ^ 256 ->
  (has code d = Ok true <-> valid_jumpdest code d).
Proof.
  intros code d _ Hlen Hd. unfold valid_jumpdest.
  destruct (nth_error code (Z.to_nat d)) as [op|] eqn:Hop.
  - pose proof (nth_error_out code d op ltac:(lia) Hop) as Hlt.
    destruct (has_in_range code d op ltac:(lia) Hop) as (m & Eh & Hm).
    rewrite Eh. unfold JUMPDEST. split.
    + intros H. injection H as H. apply andb_true_iff in H. destruct H as [Ho Hb].
      apply Z.eqb_eq in Ho. subst op. split; [lia|]. split; [reflexivity|].
      apply Hm. destruct (getbit m d); [discriminate|reflexivity].
    + intros (_ & Ho & Hs). injection Ho as Ho. subst op.
      apply Hm in Hs. rewrite Hs. reflexivity.
  - rewrite has_out_of_range.
    + split; [discriminate|]. intros (_ & Ho & _). discriminate.
    + lia.
    + right. apply nth_error_None in Hop. lia.
Qed.

