(* Evm/OpsProofs.v — the proofs about the EVM instruction model, by part:
   OpsProofsArith     op_X_spec for the arithmetic / comparison / bitwise / shift instructions
   OpsProofsGas       gas and memory-size functions = Yellow-Paper formulas, uint64 overflow explicit
   OpsProofsJumpdest  JUMPDEST analysis (codeBitmap / has) = valid jump destinations
   OpsProofsMem       stack / memory / call-data / code instructions = specification
   OpsProofsEnv       SHA3 (relative to H), environment instructions, write protection
   OpsProofsGasState  state-dependent gas functions (SSTORE, CALL family, SELFDESTRUCT, table lookups)
   OpsProofsTable     regenerated jump tables = specification table; fork -> table selection; constants
   and, below, the per-family conjunctions quoted by Properties/C08.v. *)
From Coq Require Import ZArith List Bool.
From AQ Require Export Evm.OpsModel Evm.OpsSpec Evm.OpsTableSpec
  Evm.OpsProofsArith Evm.OpsProofsGas Evm.OpsProofsJumpdest Evm.OpsProofsTable Evm.OpsProofsMem Evm.OpsProofsEnv Evm.OpsProofsGasState Evm.OpsProofsNarrow Evm.OpsProofsGasStep Evm.OpsMemStep Evm.OpsProofsMemGas Evm.OpsProofsMemStep Evm.OpsAlias Evm.OpsProofsAlias Evm.OpsProofsGasRules.
Import ListNotations.
Local Open Scope Z_scope.

(* every instruction of the family but SAR: model = specification for all operands *)
Theorem ops_spec_all :
  (forall a b, word a -> word b -> op_ADD a b = spec_ADD a b) /\
  (forall a b, word a -> word b -> op_MUL a b = spec_MUL a b) /\
  (forall a b, word a -> word b -> op_SUB a b = spec_SUB a b) /\
  (forall a b, word a -> word b -> op_DIV a b = spec_DIV a b) /\
  (forall a b, word a -> word b -> op_SDIV a b = spec_SDIV a b) /\
  (forall a b, word a -> word b -> op_MOD a b = spec_MOD a b) /\
  (forall a b, word a -> word b -> op_SMOD a b = spec_SMOD a b) /\
  (forall a b n, word a -> word b -> word n -> op_ADDMOD a b n = spec_ADDMOD a b n) /\
  (forall a b n, word a -> word b -> word n -> op_MULMOD a b n = spec_MULMOD a b n) /\
  (forall a e, word a -> word e -> op_EXP a e = spec_EXP a e) /\
  (forall b x, word b -> word x -> op_SIGNEXTEND b x = spec_SIGNEXTEND b x) /\
  (forall a b, word a -> word b -> op_LT a b = spec_LT a b) /\
  (forall a b, word a -> word b -> op_GT a b = spec_GT a b) /\
  (forall a b, word a -> word b -> op_SLT a b = spec_SLT a b) /\
  (forall a b, word a -> word b -> op_SGT a b = spec_SGT a b) /\
  (forall a b, word a -> word b -> op_EQ a b = spec_EQ a b) /\
  (forall a, word a -> op_ISZERO a = spec_ISZERO a) /\
  (forall a b, word a -> word b -> op_AND a b = spec_AND a b) /\
  (forall a b, word a -> word b -> op_OR a b = spec_OR a b) /\
  (forall a b, word a -> word b -> op_XOR a b = spec_XOR a b) /\
  (forall a, word a -> op_NOT a = spec_NOT a) /\
  (forall a b, word a -> word b -> op_BYTE a b = spec_BYTE a b) /\
  (forall a b, word a -> word b -> op_SHL a b = spec_SHL a b) /\
  (forall a b, word a -> word b -> op_SHR a b = spec_SHR a b).
Proof. exact (conj op_ADD_spec (conj op_MUL_spec (conj op_SUB_spec (conj op_DIV_spec (conj op_SDIV_spec (conj op_MOD_spec (conj op_SMOD_spec (conj op_ADDMOD_spec (conj op_MULMOD_spec (conj op_EXP_spec (conj op_SIGNEXTEND_spec (conj op_LT_spec (conj op_GT_spec (conj op_SLT_spec (conj op_SGT_spec (conj op_EQ_spec (conj op_ISZERO_spec (conj op_AND_spec (conj op_OR_spec (conj op_XOR_spec (conj op_NOT_spec (conj op_BYTE_spec (conj op_SHL_spec op_SHR_spec))))))))))))))))))))))). Qed.

(* memory size and memory expansion gas *)
Theorem memory_gas_all :
  (forall n, 0 <= n < two64 -> toWordSize n = ceil32 n) /\
  (forall off l, word off -> word l ->
  let need := if l =? 0 then 0 else off + l in
  run_memorySize (calcMemSize off l) =
    if 32 * ceil32 need <=? maxU64 then Ok (32 * ceil32 need) else Err ErrGasUintOverflow) /\
  (forall w0 n, 0 <= w0 < 2^32 -> 0 <= n <= 0x1FFFFFFFE0 ->
  memoryGasCost (32 * w0) (Cmem w0) n =
    Ok (Cmem (Z.max w0 (ceil32 n)) - Cmem w0, Cmem (Z.max w0 (ceil32 n)))) /\
  (forall memLen last n, 0xffffffffe0 < n ->
  memoryGasCost memLen last n = Err ErrGasUintOverflow) /\
  (forall w, 2^32 <= w -> 2^55 <= Cmem w).
Proof. exact (conj toWordSize_spec (conj run_memorySize_spec (conj memoryGasCost_spec_partial (conj memoryGasCost_error Cmem_large)))). Qed.

(* dynamic gas functions: exact, including the overflow error *)
Theorem dynamic_gas_all :
  (forall base perword memLen last ms len fee last',
  0 <= base < 2^32 -> 0 < perword < 2^32 -> word len ->
  memoryGasCost memLen last ms = Ok (fee, last') -> 0 <= fee < two64 ->
  gas_mem_words base perword memLen last ms len =
    if (len <? two64) && (fee + base + perword * ceil32 len <=? maxU64)
    then Ok (fee + base + perword * ceil32 len, last') else Err ErrGasUintOverflow) /\
  (forall base memLen last ms fee last', 0 <= base < 2^32 ->
  memoryGasCost memLen last ms = Ok (fee, last') -> 0 <= fee < two64 ->
  gas_mem_base base memLen last ms =
    if fee + base <=? maxU64 then Ok (fee + base, last') else Err ErrGasUintOverflow) /\
  (forall n memLen last ms requested fee last', 0 <= n <= 4 -> word requested ->
  memoryGasCost memLen last ms = Ok (fee, last') -> 0 <= fee < two64 ->
  gasLog n memLen last ms requested =
    if (requested <? two64) && (fee + G_log n requested <=? maxU64)
    then Ok (fee + G_log n requested, last') else Err ErrGasUintOverflow) /\
  (forall gt e, word e -> 0 <= gt_ExpByte gt < 2^32 ->
  gasExp gt e = Ok (G_exp (gt_ExpByte gt) e)) /\
  (forall memLen last ms len fee last', word len ->
  memoryGasCost memLen last ms = Ok (fee, last') -> 0 <= fee < two64 ->
  gasSha3 memLen last ms len =
    if (len <? two64) && (fee + G_sha3 len <=? maxU64)
    then Ok (fee + G_sha3 len, last') else Err ErrGasUintOverflow) /\
  (forall memLen last ms len fee last', word len ->
  memoryGasCost memLen last ms = Ok (fee, last') -> 0 <= fee < two64 ->
  gasCallDataCopy memLen last ms len =
    if (len <? two64) && (fee + G_copy len <=? maxU64)
    then Ok (fee + G_copy len, last') else Err ErrGasUintOverflow) /\
  (forall base perword w0 off len, 0 <= base < 2^32 -> 0 < perword < 2^31 ->
  0 <= w0 < 2^32 -> word off -> word len -> Mexp w0 off len < 2^32 ->
  step_gas_words base perword w0 off len =
    Ok (mem_fee w0 off len + base + perword * ceil32 len, Cmem (Mexp w0 off len))).
Proof. exact (conj gas_mem_words_spec (conj gas_mem_base_spec (conj gasLog_spec (conj gasExp_spec (conj gasSha3_formula (conj gasCopy_formula step_gas_words_spec)))))). Qed.

(* EIP-150 call gas *)
Theorem callGas_all :
  (forall gt avail base cost, 0 <= base <= avail -> avail < two64 -> word cost ->
  0 < gt_CreateBySuicide gt ->
  callGas gt avail base cost = Ok (C_gascap avail base cost)) /\
  (forall gt avail base cost, word cost -> gt_CreateBySuicide gt <= 0 ->
  callGas gt avail base cost = if cost <? two64 then Ok cost else Err ErrGasUintOverflow) /\
  (forall gt avail base cost g, 0 <= avail < base -> base < two64 -> word cost ->
  callGas gt avail base cost = Ok g -> 0 <= g /\ avail < base + g).
Proof. exact (conj callGas_spec (conj callGas_pre150 callGas_wrap_harmless)). Qed.


(* DUPn / SWAPn, zero-padded data access, CALLDATALOAD, PUSHn (also truncated by the end of the code) *)
Theorem stack_data_all :
  (forall n st, (1 <= n <= 16)%nat -> (n <= length st)%nat ->
  op_DUP (Z.of_nat n) st = Ok (spec_DUP n st)) /\
  (forall n st, (1 <= n <= 16)%nat -> (n + 1 <= length st)%nat ->
  op_SWAP (Z.of_nat n) st = Ok (spec_SWAP n st)) /\
  (forall n st, (1 <= n)%nat -> (length st < n)%nat ->
  op_DUP (Z.of_nat n) st = Panic) /\
  (forall d start size, blen d < 2^62 -> word start -> 0 <= size < 2^62 ->
  getDataBig d start size = spec_data d start (Z.to_nat size)) /\
  (forall d i, blen d < 2^62 -> word i ->
  op_CALLDATALOAD d i = spec_CALLDATALOAD d i) /\
  (forall code pc n, blen code < 2^62 -> 0 <= pc < blen code -> 1 <= n <= 32 ->
  op_PUSH code pc n n = (spec_PUSH n code pc, pc + n)).
Proof. exact (conj op_DUP_spec (conj op_SWAP_spec (conj op_DUP_underflow (conj getDataBig_spec (conj op_CALLDATALOAD_spec op_PUSH_spec))))). Qed.

(* memory instructions under the interpreter's precondition (memory already resized), RETURNDATACOPY bounds, JUMPI *)
Theorem memory_ops_all :
  (forall mem off v, bytesval mem -> blen mem < 2^62 -> 0 <= off ->
  off + 32 <= blen mem -> word v ->
  op_MSTORE mem off v = Ok (spec_MSTORE mem off v)) /\
  (forall mem off, blen mem < 2^62 -> 0 <= off -> off + 32 <= blen mem ->
  op_MLOAD mem off = Ok (spec_MLOAD mem off)) /\
  (forall mem off v, blen mem < 2^62 -> 0 <= off < blen mem -> word v ->
  op_MSTORE8 mem off v = Ok (spec_MSTORE8 mem off v)) /\
  (forall mem off v, bytesval mem -> blen mem < 2^62 -> 0 <= off ->
  off + 32 <= blen mem -> word v ->
  exists mem', op_MSTORE mem off v = Ok mem' /\ blen mem' = blen mem /\ op_MLOAD mem' off = Ok v) /\
  (forall mem d memOff dataOff len, blen mem < 2^62 -> blen d < 2^62 ->
  0 <= memOff -> 0 <= len -> memOff + len <= blen mem -> word dataOff ->
  op_DATACOPY mem d memOff dataOff len = Ok (spec_DATACOPY mem d memOff dataOff len)) /\
  (forall mem rd memOff dataOff len, blen rd < 2^62 ->
  word memOff -> word dataOff -> word len ->
  (op_RETURNDATACOPY mem rd memOff dataOff len = Err ErrReturnDataOutOfBounds
   <-> blen rd < dataOff + len)) /\
  (forall code pc pos, 0 <= pc < 2^62 -> op_JUMPI code pc pos 0 = Ok (pc + 1)) /\
  (forall code pc pos cond, cond <> 0 ->
  op_JUMPI code pc pos cond = op_JUMP code pos).
Proof. exact (conj op_MSTORE_spec (conj op_MLOAD_spec (conj op_MSTORE8_spec (conj mstore_mload (conj op_DATACOPY_spec (conj op_RETURNDATACOPY_bounds (conj op_JUMPI_not_taken op_JUMPI_taken))))))). Qed.

(* SHA3 for any hash H; environment instructions; POP; write protection *)
Theorem sha3_env_all :
  (forall (H : list Z -> list Z) mem off len,
  blen mem < 2^62 -> 0 <= off -> 0 < len -> off + len <= blen mem ->
  op_SHA3_H H mem off len = Ok (spec_SHA3 H mem off len)) /\
  (forall (H : list Z -> list Z) mem off, word off ->
  op_SHA3_H H mem off 0 = Ok (spec_SHA3 H mem off 0)) /\
  (forall (H : list Z -> list Z) mem off len v,
  (forall d, length (H d) = 32%nat /\ Forall (fun b => 0 <= b < 256) (H d)) ->
  op_SHA3_H H mem off len = Ok v -> word v) /\
  (forall op e input code ret mem pc gas, env_words e ->
  op_ENV op e input code ret mem pc gas =
  spec_ENV op (e_address e) (e_origin e) (e_caller e) (e_callvalue e) (e_gasprice e) input code ret
           (e_coinbase e) (e_time e) (e_number e) (e_difficulty e) (e_gaslimit e) pc (blen mem) gas) /\
  (forall op e input code ret mem pc gas v, env_words e ->
  blen input < 2^62 -> blen code < 2^62 -> blen ret < 2^62 -> blen mem < 2^62 ->
  0 <= pc < two64 -> 0 <= gas < two64 ->
  op_ENV op e input code ret mem pc gas = Some v -> word v) /\
  (forall a st, op_POP (a :: st) = Ok st) /\
  (forall isByz readOnly writes isCall value, word value ->
  enforceRestrictions isByz readOnly writes isCall value = true <->
  (isByz = true /\ readOnly = true /\ (writes = true \/ (isCall = true /\ value <> 0)))).
Proof. exact (conj op_SHA3_spec (conj op_SHA3_spec0 (conj op_SHA3_word (conj op_ENV_spec (conj op_ENV_word (conj op_POP_spec enforceRestrictions_spec)))))). Qed.

(* state-dependent gas functions, the state read passed as arguments *)
Theorem state_gas_all :
  (forall cur y, word cur -> word y ->
  gasSStore cur y = (C_sstore cur y, R_sstore cur y)) /\
  (forall g eip158 value empty exist w0 ms avail cost,
  gt_ok g -> 0 < gf_CreateBySuicide g -> word value -> word cost -> 0 <= w0 < 2^32 -> 0 <= ms <= 0x1FFFFFFFE0 -> avail < two64 ->
  let extra := C_extra (gf_Calls g) eip158 value empty exist in
  extra + memfee w0 ms <= avail ->
  gasCall g eip158 value empty exist (32 * w0) (Cmem w0) ms avail cost =
    Ok (C_call extra (memfee w0 ms) avail cost, C_gascap avail (extra + memfee w0 ms) cost, Cmem (Z.max w0 (ceil32 ms)))) /\
  (forall g eip158 value empty exist w0 ms avail cost r,
  gt_ok g -> word value -> word cost -> 0 <= w0 < 2^32 -> 0 <= ms <= 0x1FFFFFFFE0 -> 0 <= avail < two64 ->
  avail < C_extra (gf_Calls g) eip158 value empty exist + memfee w0 ms ->
  gasCall g eip158 value empty exist (32 * w0) (Cmem w0) ms avail cost = Ok r -> avail < fst (fst r)) /\
  (forall g value w0 ms avail cost,
  gt_ok g -> 0 < gf_CreateBySuicide g -> word value -> word cost -> 0 <= w0 < 2^32 -> 0 <= ms <= 0x1FFFFFFFE0 -> avail < two64 ->
  let extra := gf_Calls g + C_xfer value in
  extra + memfee w0 ms <= avail ->
  gasCallCode g value (32 * w0) (Cmem w0) ms avail cost =
    Ok (C_call extra (memfee w0 ms) avail cost, C_gascap avail (extra + memfee w0 ms) cost, Cmem (Z.max w0 (ceil32 ms)))) /\
  (forall g w0 ms avail cost,
  gt_ok g -> 0 < gf_CreateBySuicide g -> word cost -> 0 <= w0 < 2^32 -> 0 <= ms <= 0x1FFFFFFFE0 -> avail < two64 ->
  gf_Calls g + memfee w0 ms <= avail ->
  gasDelegateCall g (32 * w0) (Cmem w0) ms avail cost =
    Ok (C_call (gf_Calls g) (memfee w0 ms) avail cost, C_gascap avail (gf_Calls g + memfee w0 ms) cost, Cmem (Z.max w0 (ceil32 ms)))) /\
  (gasStaticCall = gasDelegateCall) /\
  (forall g eip150 eip158 empty exist bal already, gt_ok g ->
  gasSuicide g eip150 eip158 empty exist bal already =
    (C_selfdestruct (gf_Suicide g) (gf_CreateBySuicide g) eip150 eip158 empty exist bal, R_selfdestruct already)) /\
  (forall g,
  gasBalance g = gf_Balance g /\ gasExtCodeSize g = gf_ExtcodeSize g /\ gasSLoad g = gf_SLoad g) /\
  (forall g memLen last ms len fee last', gt_ok g -> word len ->
  memoryGasCost memLen last ms = Ok (fee, last') -> 0 <= fee < two64 ->
  gasExtCodeCopy (gt_of_full g) memLen last ms len =
    if (len <? two64) && (fee + gf_ExtcodeCopy g + 3 * ceil32 len <=? maxU64)
    then Ok (fee + gf_ExtcodeCopy g + 3 * ceil32 len, last') else Err ErrGasUintOverflow) /\
  (forall memLen last ms fee last',
  memoryGasCost memLen last ms = Ok (fee, last') -> 0 <= fee < two64 ->
  gasCreate memLen last ms = if fee + 32000 <=? maxU64 then Ok (fee + 32000, last') else Err ErrGasUintOverflow).
Proof. exact (conj gasSStore_spec (conj gasCall_spec (conj gasCall_unaffordable (conj gasCallCode_spec (conj gasDelegateCall_spec (conj gasStaticCall_eq (conj gasSuicide_spec (conj gas_table_lookups (conj gasExtCodeCopy_formula gasCreate_formula))))))))). Qed.

(* narrowing of 256-bit operands: identity under the Go guards, operands with bits above 64 give the specified result; BLOCKHASH; memory size of the call family *)
Theorem narrowing_all :
  (forall x, 0 <= x < two64 -> big_Uint64 x = x) /\
  (forall k r, 0 < k -> 0 <= r < two64 ->
  big_Uint64 (k * two64 + r) = r) /\
  (forall getHash number num, 0 <= number < two64 -> word num ->
  op_BLOCKHASH getHash number num = spec_BLOCKHASH getHash number num) /\
  (forall getHash number k r,
  0 <= number < two64 -> 0 < k -> 0 <= r -> word (k * two64 + r) ->
  op_BLOCKHASH getHash number (k * two64 + r) = 0) /\
  (forall k r v, 0 < k -> 0 <= r -> word (k * two64 + r) -> word v ->
  op_BYTE (k * two64 + r) v = 0) /\
  (forall k r v, 0 < k -> 0 <= r -> word (k * two64 + r) -> word v ->
  op_SHL (k * two64 + r) v = 0) /\
  (forall k r v, 0 < k -> 0 <= r -> word (k * two64 + r) -> word v ->
  op_SHR (k * two64 + r) v = 0) /\
  (forall k r v, 0 < k -> 0 <= r -> word (k * two64 + r) -> word v ->
  op_SIGNEXTEND (k * two64 + r) v = v) /\
  (forall inOff inSize retOff retSize,
  word inOff -> word inSize -> word retOff -> word retSize ->
  memoryCall inOff inSize retOff retSize =
  Z.max (if retSize =? 0 then 0 else retOff + retSize) (if inSize =? 0 then 0 else inOff + inSize)).
Proof. exact (conj narrow_id (conj narrow_high_bits_differ (conj op_BLOCKHASH_spec (conj op_BLOCKHASH_high_bits (conj op_BYTE_high_bits (conj op_SHL_high_bits (conj op_SHR_high_bits (conj op_SIGNEXTEND_high_bits memoryCall_spec)))))))). Qed.

(* the whole dynamic-gas step (operands -> memory size -> gas function) = Yellow-Paper cost on the domain memory < 2^32 words *)
Theorem step_gas_all :
  (forall base w0 off len, 0 <= base < 2^32 -> 0 <= w0 < 2^32 -> word off -> word len ->
  Mexp w0 off len < 2^32 ->
  step_gas_base base w0 off len = Ok (mem_fee w0 off len + base, Cmem (Mexp w0 off len))) /\
  (forall w0 off, 0 <= w0 < 2^32 -> word off -> Mexp w0 off 32 < 2^32 ->
  match run_memorySize (calcMemSize off 32) with
  | Ok ms => gasMLoad (32 * w0) (Cmem w0) ms | Err e => Err e | Panic => Panic end
  = Ok (mem_fee w0 off 32 + 3, Cmem (Mexp w0 off 32))) /\
  (forall w0 off, 0 <= w0 < 2^32 -> word off -> Mexp w0 off 32 < 2^32 ->
  match run_memorySize (calcMemSize off 32) with
  | Ok ms => gasMStore (32 * w0) (Cmem w0) ms | Err e => Err e | Panic => Panic end
  = Ok (mem_fee w0 off 32 + 3, Cmem (Mexp w0 off 32))) /\
  (forall w0 off, 0 <= w0 < 2^32 -> word off -> Mexp w0 off 1 < 2^32 ->
  match run_memorySize (calcMemSize off 1) with
  | Ok ms => gasMStore8 (32 * w0) (Cmem w0) ms | Err e => Err e | Panic => Panic end
  = Ok (mem_fee w0 off 1 + 3, Cmem (Mexp w0 off 1))) /\
  (forall w0 off len, 0 <= w0 < 2^32 -> word off -> word len -> Mexp w0 off len < 2^32 ->
  match run_memorySize (calcMemSize off len) with
  | Ok ms => gasCreate (32 * w0) (Cmem w0) ms | Err e => Err e | Panic => Panic end
  = Ok (mem_fee w0 off len + 32000, Cmem (Mexp w0 off len))) /\
  (forall w0 off len, 0 <= w0 < 2^32 -> word off -> word len -> Mexp w0 off len < 2^32 ->
  match run_memorySize (calcMemSize off len) with
  | Ok ms => gasReturn (32 * w0) (Cmem w0) ms | Err e => Err e | Panic => Panic end
  = Ok (mem_fee w0 off len, Cmem (Mexp w0 off len))) /\
  (forall n w0 off len, 0 <= n <= 4 -> 0 <= w0 < 2^32 -> word off -> word len ->
  Mexp w0 off len < 2^32 ->
  step_gas_log n w0 off len = Ok (mem_fee w0 off len + G_log n len, Cmem (Mexp w0 off len))) /\
  (forall w0 off len, 0 <= w0 < 2^32 -> word off -> word len -> Mexp w0 off len < 2^32 ->
  match run_memorySize (calcMemSize off len) with
  | Ok ms => gasSha3 (32 * w0) (Cmem w0) ms len | Err e => Err e | Panic => Panic end
  = Ok (mem_fee w0 off len + G_sha3 len, Cmem (Mexp w0 off len))) /\
  (forall w0 off len, 0 <= w0 < 2^32 -> word off -> word len -> Mexp w0 off len < 2^32 ->
  match run_memorySize (calcMemSize off len) with
  | Ok ms => gasCallDataCopy (32 * w0) (Cmem w0) ms len | Err e => Err e | Panic => Panic end
  = Ok (mem_fee w0 off len + G_copy len, Cmem (Mexp w0 off len))) /\
  (gasCodeCopy = gasCallDataCopy /\ gasReturnDataCopy = gasCallDataCopy).
Proof. exact (conj step_gas_base_spec (conj step_gas_MLOAD (conj step_gas_MSTORE (conj step_gas_MSTORE8 (conj step_gas_CREATE (conj step_gas_RETURN (conj step_gas_log_spec (conj step_gas_SHA3 (conj step_gas_COPY gasCopy_same))))))))). Qed.




(* memoryGasCost over the whole uint64 range, the wrap explicit; exact boundary of correctness; memory size of any step *)
Theorem memory_gas_total_all :
  (forall memLen last n, 0 <= memLen -> 0 <= last < two64 -> 0 <= n < two64 ->
  memoryGasCost memLen last n =
    if n =? 0 then Ok (0, last)
    else if n >? 0xffffffffe0 then Err ErrGasUintOverflow
    else if 32 * ceil32 n >? memLen then Ok (wrap64 (Cmem_code (ceil32 n) - last), Cmem_code (ceil32 n))
    else Ok (0, last)) /\
  (forall w, 0 <= w < 2^32 -> Cmem_code w = Cmem w) /\
  (forall w, 2^32 <= w < 2^35 -> Cmem_code w < Cmem w) /\
  (forall w0 n, 0 <= w0 < 2^32 -> 0 < n <= 0xffffffffe0 -> w0 < ceil32 n ->
  (memoryGasCost (32 * w0) (Cmem w0) n = Ok (Cmem (ceil32 n) - Cmem w0, Cmem (ceil32 n)) <-> ceil32 n < 2^32)) /\
  (forall memLen last n, 0 <= memLen -> 0 <= last < two64 -> 0 <= n < two64 ->
  (memoryGasCost memLen last n = Err ErrGasUintOverflow <-> 0xffffffffe0 < n) /\ memoryGasCost memLen last n <> Panic) /\
  (forall b, 0 <= b ->
  run_memorySize b = if 32 * ceil32 b <=? maxU64 then Ok (32 * ceil32 b) else Err ErrGasUintOverflow) /\
  (forall inOff inSize retOff retSize, word inOff -> word inSize -> word retOff -> word retSize ->
  let need := Z.max (if retSize =? 0 then 0 else retOff + retSize) (if inSize =? 0 then 0 else inOff + inSize) in
  run_memorySize (memoryCall inOff inSize retOff retSize) =
    if 32 * ceil32 need <=? maxU64 then Ok (32 * ceil32 need) else Err ErrGasUintOverflow).
Proof. exact (conj memoryGasCost_total (conj Cmem_code_below (conj Cmem_code_wraps (conj memoryGasCost_correct_iff (conj memoryGasCost_error_iff (conj run_memorySize_big run_memorySize_call_spec)))))). Qed.

(* memory instructions without the resize precondition, any 256-bit operands *)
Theorem memory_step_all :
  (forall avail mem last gasfn off len m' g l', mem_gated gasfn -> word off -> word len ->
  prepare_mem avail mem last gasfn off len = Ok (m', g, l') ->
  exists k, m' = mem ++ repeat 0 k /\ (len = 0 \/ off + len <= blen m') /\ blen m' <= Z.max (blen mem) MEMCAP /\
            gasfn (blen mem) last (if len =? 0 then 0 else 32 * ceil32 (off + len)) = Ok (g, l')) /\
  (forall avail mem last gasfn off len, (forall a b c, gasfn a b c <> Panic) -> word off -> word len ->
  match prepare_mem avail mem last gasfn off len with
  | Ok _ => True
  | Err e => e = ErrGasUintOverflow \/ e = ErrOutOfGas
  | Panic => False
  end) /\
  (forall avail mem last gasfn off len, word off -> word len -> len <> 0 -> two64 <= off + len ->
  prepare_mem avail mem last gasfn off len = Err ErrGasUintOverflow) /\
  (forall avail mem last gasfn off len, mem_gated gasfn -> (forall a b c, gasfn a b c <> Panic) ->
  word off -> word len -> len <> 0 -> MEMCAP < off + len ->
  exists e, prepare_mem avail mem last gasfn off len = Err e) /\
  (forall avail mem last off v m' g l', mem_bounded mem -> word off ->
  run_MLOAD avail mem last off = Ok (v, m', g, l') ->
  v = spec_MLOAD mem off /\ (exists k, m' = mem ++ repeat 0 k) /\ off + 32 <= blen m') /\
  (forall avail mem last off v m'' g l', mem_bounded mem -> bytesval mem -> word off -> word v ->
  run_MSTORE avail mem last off v = Ok (m'', g, l') ->
  exists k, m'' = spec_MSTORE (mem ++ repeat 0 k) off v /\ off + 32 <= blen (mem ++ repeat 0 k)) /\
  (forall avail mem last off v m'' g l', mem_bounded mem -> word off -> word v ->
  run_MSTORE8 avail mem last off v = Ok (m'', g, l') ->
  exists k, m'' = spec_MSTORE8 (mem ++ repeat 0 k) off v /\ off + 1 <= blen (mem ++ repeat 0 k)) /\
  (forall avail mem last data memOff dataOff len m'' g l', mem_bounded mem -> blen data < 2 ^ 62 ->
  word memOff -> word dataOff -> word len ->
  run_DATACOPY avail mem last data memOff dataOff len = Ok (m'', g, l') ->
  exists k, m'' = spec_DATACOPY (mem ++ repeat 0 k) data memOff dataOff len /\ (len = 0 \/ memOff + len <= blen (mem ++ repeat 0 k))) /\
  (forall (H : list Z -> list Z) avail mem last off len v m' g l', mem_bounded mem -> word off -> word len ->
  run_SHA3 H avail mem last off len = Ok (v, m', g, l') -> v = spec_SHA3 H mem off len) /\
  (forall gasfn avail mem last off len d m' g l', mem_gated gasfn -> mem_bounded mem -> word off -> word len ->
  run_RANGE gasfn avail mem last off len = Ok (d, m', g, l') -> d = spec_data mem off (Z.to_nat len)) /\
  (forall avail mem last rd memOff dataOff len, mem_bounded mem -> blen rd < 2 ^ 62 ->
  word memOff -> word dataOff -> word len ->
  match run_RETURNDATACOPY avail mem last rd memOff dataOff len with
  | Ok _ => dataOff + len <= blen rd
  | Err e => e = ErrGasUintOverflow \/ e = ErrOutOfGas \/ (e = ErrReturnDataOutOfBounds /\ blen rd < dataOff + len)
  | Panic => False
  end).
Proof. exact (conj prepare_mem_ok (conj prepare_mem_errors (conj prepare_mem_overflow (conj prepare_mem_above_cap (conj run_MLOAD_full (conj run_MSTORE_full (conj run_MSTORE8_full (conj run_DATACOPY_full (conj run_SHA3_full (conj run_RANGE_full run_RETURNDATACOPY_full)))))))))). Qed.

(* pointer discipline of the stack / intPool: results do not depend on aliasing *)
Theorem aliasing_all :
  (forall o s s', inv s -> rstep o s = Some s' ->
  inv s' /\ vstep o (view s) = Some (view s')) /\
  (forall ops s s', inv s -> rrun ops s = Some s' -> inv s' /\ vrun ops (view s) = Some (view s')) /\
  (forall ops s s', inv s -> rrun ops s = Some s' ->
  NoDup (rs_stack s') /\ (forall r, In r (rs_pool s') -> ~ In r (rs_stack s'))) /\
  (forall h, inv (mk_rstate h 0 [] [])).
Proof. exact (conj rstep_sound (conj rrun_sound (conj stack_refs_distinct inv_initial))). Qed.
