(* Evm/OpsSpec.v — what the EVM specification (Yellow Paper, appendix H, plus
   EIP-145 for the shifts) defines for each computational instruction, on machine
   words w in [0, 2^256).  Small and declarative; no reference to the Go code.
   Operands are named in stack order: s0 is the top of the stack (mu_s[0]). *)
From Coq Require Import ZArith List Bool Zpow_facts.
Import ListNotations.
Local Open Scope Z_scope.

Definition W : Z := 2 ^ 256.
Definition word (x : Z) : Prop := 0 <= x < W.
Definition wordb (x : Z) : bool := (0 <=? x) && (x <? W).

(* two's-complement views *)
Definition signed (x : Z) : Z := if x <? 2 ^ 255 then x else x - W.
Definition unsigned (x : Z) : Z := x mod W.

Definition b2w (b : bool) : Z := if b then 1 else 0.

(* 0x01..0x0b *)
Definition spec_ADD (a b : Z) : Z := (a + b) mod W.
Definition spec_MUL (a b : Z) : Z := (a * b) mod W.
Definition spec_SUB (a b : Z) : Z := (a - b) mod W.
Definition spec_DIV (a b : Z) : Z := if b =? 0 then 0 else a / b.
(* truncated signed division; -2^255 / -1 = -2^255 falls out of the reduction mod W *)
Definition spec_SDIV (a b : Z) : Z :=
  if b =? 0 then 0 else unsigned (Z.quot (signed a) (signed b)).
Definition spec_MOD (a b : Z) : Z := if b =? 0 then 0 else a mod b.
(* sign of the dividend: sgn(a) * (|a| mod |b|) *)
Definition spec_SMOD (a b : Z) : Z :=
  if b =? 0 then 0 else unsigned (Z.rem (signed a) (signed b)).
(* intermediate results are not reduced mod 2^256 *)
Definition spec_ADDMOD (a b n : Z) : Z := if n =? 0 then 0 else (a + b) mod n.
Definition spec_MULMOD (a b n : Z) : Z := if n =? 0 then 0 else (a * b) mod n.
Definition spec_EXP (a e : Z) : Z := (a ^ e) mod W.
(* executable form used by the driver (stdlib, proved equal to a^e mod W) *)
Definition spec_EXP_exec (a e : Z) : Z := Zpow_mod a e W.
(* SIGNEXTEND: b = size in bytes - 1 of the value to extend; x the value *)
Definition sext (k : Z) (x : Z) : Z :=          (* value of the low k bits of x read as signed *)
  let m := x mod 2 ^ k in if m <? 2 ^ (k - 1) then m else m - 2 ^ k.
Definition spec_SIGNEXTEND (b x : Z) : Z :=
  if b <? 31 then unsigned (sext (8 * (b + 1)) x) else x.

(* 0x10..0x1a *)
Definition spec_LT (a b : Z) : Z := b2w (a <? b).
Definition spec_GT (a b : Z) : Z := b2w (b <? a).
Definition spec_SLT (a b : Z) : Z := b2w (signed a <? signed b).
Definition spec_SGT (a b : Z) : Z := b2w (signed b <? signed a).
Definition spec_EQ (a b : Z) : Z := b2w (a =? b).
Definition spec_ISZERO (a : Z) : Z := b2w (a =? 0).
Definition spec_AND (a b : Z) : Z := Z.land a b.
Definition spec_OR (a b : Z) : Z := Z.lor a b.
Definition spec_XOR (a b : Z) : Z := Z.lxor a b.
Definition spec_NOT (a : Z) : Z := W - 1 - a.
(* byte i of x counting from the most significant byte of the 32-byte word *)
Definition spec_BYTE (i x : Z) : Z := if i <? 32 then (x / 2 ^ (8 * (31 - i))) mod 256 else 0.

(* EIP-145: 0x1b..0x1d, s0 = shift, s1 = value *)
Definition spec_SHL (s v : Z) : Z := if s <? 256 then (v * 2 ^ s) mod W else 0.
Definition spec_SHR (s v : Z) : Z := if s <? 256 then v / 2 ^ s else 0.
(* floor(signed v / 2^s); for s >= 256 that is 0 for v >= 0 and -1 otherwise *)
Definition spec_SAR (s v : Z) : Z :=
  if s <? 256 then unsigned (signed v / 2 ^ s)
  else if signed v <? 0 then W - 1 else 0.

(* evaluation by opcode on a stack (head = top); None = stack too short / not covered *)
Definition spec_arith (op : Z) (st : list Z) : option (list Z) :=
  let un (f : Z -> Z) := match st with a :: r => Some (f a :: r) | _ => None end in
  let bin (f : Z -> Z -> Z) := match st with a :: b :: r => Some (f a b :: r) | _ => None end in
  let ter (f : Z -> Z -> Z -> Z) := match st with a :: b :: c :: r => Some (f a b c :: r) | _ => None end in
  match op with
  | 0x01 => bin spec_ADD | 0x02 => bin spec_MUL | 0x03 => bin spec_SUB | 0x04 => bin spec_DIV
  | 0x05 => bin spec_SDIV | 0x06 => bin spec_MOD | 0x07 => bin spec_SMOD
  | 0x08 => ter spec_ADDMOD | 0x09 => ter spec_MULMOD | 0x0a => bin spec_EXP_exec
  | 0x0b => bin spec_SIGNEXTEND
  | 0x10 => bin spec_LT | 0x11 => bin spec_GT | 0x12 => bin spec_SLT | 0x13 => bin spec_SGT
  | 0x14 => bin spec_EQ | 0x15 => un spec_ISZERO | 0x16 => bin spec_AND | 0x17 => bin spec_OR
  | 0x18 => bin spec_XOR | 0x19 => un spec_NOT | 0x1a => bin spec_BYTE
  | 0x1b => bin spec_SHL | 0x1c => bin spec_SHR | 0x1d => bin spec_SAR
  | _ => None
  end.

(* ------------------------------------------------------------------ gas (appendix G/H) *)

Definition ceil32 (n : Z) : Z := (n + 31) / 32.

(* C_mem(a) = G_memory * a + floor(a^2 / 512), a in words *)
Definition Cmem (a : Z) : Z := 3 * a + a * a / 512.

(* memory expansion function M(s, f, l), in words *)
Definition Mexp (s f l : Z) : Z := if l =? 0 then s else Z.max s (ceil32 (f + l)).

(* cost of expanding from w0 words so that [f, f+l) is addressable *)
Definition mem_fee (w0 f l : Z) : Z := Cmem (Mexp w0 f l) - Cmem w0.

(* per-instruction dynamic parts (without the memory expansion fee) *)
Definition G_sha3 (len : Z) : Z := 30 + 6 * ceil32 len.
Definition G_copy (len : Z) : Z := 3 + 3 * ceil32 len.
Definition G_log (topics len : Z) : Z := 375 + 375 * topics + 8 * len.
(* number of bytes of e: 0 for 0, else floor(log256 e) + 1 *)
Definition bytelen (e : Z) : Z := if e =? 0 then 0 else Z.log2 e / 8 + 1.
Definition G_exp (expbyte e : Z) : Z := 10 + expbyte * bytelen e.
(* EIP-150: all but one 64th *)
Definition L64 (n : Z) : Z := n - n / 64.
Definition C_gascap (avail extra requested : Z) : Z := Z.min (L64 (avail - extra)) requested.

(* ------------------------------------------------------------------ jump destinations (9.4.3) *)

(* number of immediate bytes following opcode op *)
Definition pushlen (op : Z) : Z := if (0x60 <=? op) && (op <=? 0x7f) then op - 0x60 + 1 else 0.

(* positions at which an instruction starts: 0, and N(i, w) = i + 1 + pushlen(code[i]) *)
Inductive instr_start (code : list Z) : Z -> Prop :=
| is_zero : instr_start code 0
| is_next : forall i op, instr_start code i -> nth_error code (Z.to_nat i) = Some op -> 0 <= i ->
            instr_start code (i + 1 + pushlen op).

(* D(c): d is a valid jump destination of code *)
Definition valid_jumpdest (code : list Z) (d : Z) : Prop :=
  0 <= d /\ nth_error code (Z.to_nat d) = Some 0x5b /\ instr_start code d.

(* ------------------------------------------------------------------ memory, call data, code, stack (appendix H.2) *)

(* byte i of a byte string; 0 beyond its end *)
Definition byte_at (d : list Z) (i : Z) : Z :=
  if (i <? 0) || (Z.of_nat (length d) <=? i) then 0 else nth (Z.to_nat i) d 0.
(* the n bytes of d from position start, zeros beyond the end of d *)
Definition spec_data (d : list Z) (start : Z) (n : nat) : list Z :=
  map (fun k => byte_at d (start + Z.of_nat k)) (seq 0 n).
(* big-endian value *)
Fixpoint spec_be (bs : list Z) : Z :=
  match bs with [] => 0 | b :: r => b * 256 ^ Z.of_nat (length r) + spec_be r end.
(* the 32 bytes of a word, most significant first *)
Definition spec_word_bytes (v : Z) : list Z :=
  map (fun k => (v / 256 ^ (31 - Z.of_nat k)) mod 256) (seq 0 32).
(* memory with the bytes bs written at offset off (memory already large enough) *)
Definition spec_mem_write (mem : list Z) (off : Z) (bs : list Z) : list Z :=
  map (fun k => let i := Z.of_nat k in
                if (off <=? i) && (i <? off + Z.of_nat (length bs)) then nth (Z.to_nat (i - off)) bs 0
                else nth k mem 0) (seq 0 (length mem)).

Definition spec_CALLDATALOAD (d : list Z) (i : Z) : Z := spec_be (spec_data d i 32).
Definition spec_PUSH (n : Z) (code : list Z) (pc : Z) : Z := spec_be (spec_data code (pc + 1) (Z.to_nat n)).
Definition spec_MLOAD (mem : list Z) (off : Z) : Z := spec_be (spec_data mem off 32).
Definition spec_MSTORE (mem : list Z) (off v : Z) : list Z := spec_mem_write mem off (spec_word_bytes v).
Definition spec_MSTORE8 (mem : list Z) (off v : Z) : list Z := spec_mem_write mem off [v mod 256].
(* CALLDATACOPY / CODECOPY *)
Definition spec_DATACOPY (mem d : list Z) (memOff dataOff len : Z) : list Z :=
  spec_mem_write mem memOff (spec_data d dataOff (Z.to_nat len)).
(* DUPn: copy of the n-th item on top; SWAPn: exchange the top with the (n+1)-th item *)
Definition spec_DUP (n : nat) (st : list Z) : list Z := nth (n - 1) st 0 :: st.
Definition spec_SWAP (n : nat) (st : list Z) : list Z :=
  map (fun k => if Nat.eqb k 0 then nth n st 0 else if Nat.eqb k n then nth 0 st 0 else nth k st 0) (seq 0 (length st)).

(* SHA3 relative to the hash function H on byte strings *)
Definition spec_SHA3 (H : list Z -> list Z) (mem : list Z) (off len : Z) : Z :=
  spec_be (H (spec_data mem off (Z.to_nat len))).

(* environment instructions: the item of the execution environment I / block header I_H /
   machine state mu they push, as a machine word *)
Definition spec_ENV (op : Z) (Ia Io Is Iv Ip : Z) (Id Ib ret : list Z) (Hc Hs Hi Hd Hl : Z) (pc msize_bytes gas : Z) : option Z :=
  match op with
  | 0x30 => Some Ia | 0x32 => Some Io | 0x33 => Some Is | 0x34 => Some Iv
  | 0x36 => Some (Z.of_nat (length Id)) | 0x38 => Some (Z.of_nat (length Ib)) | 0x3a => Some Ip
  | 0x3d => Some (Z.of_nat (length ret))
  | 0x41 => Some Hc | 0x42 => Some Hs | 0x43 => Some Hi | 0x44 => Some Hd | 0x45 => Some Hl
  | 0x58 => Some pc | 0x59 => Some msize_bytes | 0x5a => Some gas
  | _ => None
  end.

(* ------------------------------------------------------------------ state-dependent gas (appendix G, H; EIP-150, EIP-161) *)

(* SSTORE: G_sset when a zero slot becomes non-zero, else G_sreset; refund R_sclear when a non-zero slot is cleared *)
Definition C_sstore (cur new : Z) : Z := if (cur =? 0) && negb (new =? 0) then 20000 else 5000.
Definition R_sstore (cur new : Z) : Z := if negb (cur =? 0) && (new =? 0) then 15000 else 0.

(* CALL: C_extra = G_call + C_xfer + C_new; dead = account empty (EIP-161) / non-existent (before) *)
Definition C_xfer (value : Z) : Z := if value =? 0 then 0 else 9000.
Definition C_new (eip158 : bool) (value : Z) (empty exist : bool) : Z :=
  if eip158 then (if empty && negb (value =? 0) then 25000 else 0) else (if exist then 0 else 25000).
Definition C_extra (gcall : Z) (eip158 : bool) (value : Z) (empty exist : bool) : Z :=
  gcall + C_xfer value + C_new eip158 value empty exist.
(* total charged for a call-type instruction: extra + memory + the capped gas passed on (which is
   also the callee's allowance before the stipend) *)
Definition C_call (extra memfee avail requested : Z) : Z :=
  extra + memfee + C_gascap avail (extra + memfee) requested.

(* SELFDESTRUCT: G_selfdestruct plus G_newaccount when the beneficiary is created by it; nothing before EIP-150; refund unless already scheduled *)
Definition C_selfdestruct (gsd gnew : Z) (eip150 eip158 empty exist balanceNonZero : bool) : Z :=
  if eip150 then gsd + (if eip158 then (if empty && balanceNonZero then gnew else 0) else (if exist then 0 else gnew)) else 0.
Definition R_selfdestruct (already : bool) : Z := if already then 0 else 24000.

(* BLOCKHASH: the hash of one of the 256 most recent complete blocks, else 0 *)
Definition spec_BLOCKHASH (getHash : Z -> Z) (number num : Z) : Z :=
  if (number - 256 <=? num) && (num <? number) then getHash num else 0.

(* ------------------------------------------------------------------ instruction sets *)

(* The opcode table the aquachain fork schedule prescribes is written out in
   OpsProofsTable.v (spec_table) next to the theorem that compares it with the
   generated tables. *)
