(* Evm/OpsProofsGasState.v — the state-dependent gas functions of /repo/core/vm/gas_table.go
   (gasSStore, gasCall, gasCallCode, gasDelegateCall, gasStaticCall, gasSuicide, gasBalance,
   gasExtCodeSize, gasSLoad, gasExtCodeCopy, gasCreate) as modelled in OpsModel.v, against the
   formulas of OpsSpec.v (appendix G/H, EIP-150, EIP-161). *)
From Coq Require Import ZArith List Bool Lia ZifyBool.
From AQ Require Import Evm.OpsModel Evm.OpsSpec Evm.OpsProofsGas.
Import ListNotations.
Local Open Scope Z_scope.

#[local] Ltac Zify.zify_post_hook ::= Z.div_mod_to_equations.

(* ------------------------------------------------------------------ gas tables *)

Definition gt_ok (g : gastable_full) : Prop :=
  0 <= gf_ExtcodeSize g < 2^32 /\ 0 <= gf_ExtcodeCopy g < 2^32 /\ 0 <= gf_Balance g < 2^32 /\ 0 <= gf_SLoad g < 2^32 /\
  0 <= gf_Calls g < 2^32 /\ 0 <= gf_Suicide g < 2^32 /\ 0 <= gf_ExpByte g < 2^32 /\ 0 <= gf_CreateBySuicide g < 2^32.

Lemma gt_ok_homestead : gt_ok GasTableHomestead_full.
Proof. unfold gt_ok; cbn; lia. Qed.

Lemma gt_ok_hf1 : gt_ok GasTableHF1_full.
Proof. unfold gt_ok; cbn; lia. Qed.

Theorem gas_table_lookups : forall g,
  gasBalance g = gf_Balance g /\ gasExtCodeSize g = gf_ExtcodeSize g /\ gasSLoad g = gf_SLoad g.
Proof. intro g. repeat split. Qed.

(* ------------------------------------------------------------------ SSTORE *)

(* (OpsProofsArith.U256_small, restated here: that library is not a dependency of this file) *)
Lemma U256_word_id : forall x, word x -> U256 x = x.
Proof.
  intros x [H0 H1]. unfold U256, tt256m1.
  replace (tt256 - 1) with (Z.ones 256) by (rewrite Z.ones_equiv; reflexivity).
  rewrite Z.land_ones by lia. apply Z.mod_small. split; [exact H0 | exact H1].
Qed.

Theorem gasSStore_spec : forall cur y, word cur -> word y ->
  gasSStore cur y = (C_sstore cur y, R_sstore cur y).
Proof.
  intros cur y Hc Hy. unfold gasSStore, C_sstore, R_sstore.
  rewrite (U256_word_id cur Hc), (U256_word_id y Hy).
  unfold SstoreSetGas, SstoreClearGas, SstoreRefundGas, SstoreResetGas.
  destruct (cur =? 0); destruct (y =? 0); reflexivity.
Qed.

(* ------------------------------------------------------------------ SELFDESTRUCT *)

Theorem gasSuicide_spec : forall g eip150 eip158 empty exist bal already, gt_ok g ->
  gasSuicide g eip150 eip158 empty exist bal already =
    (C_selfdestruct (gf_Suicide g) (gf_CreateBySuicide g) eip150 eip158 empty exist bal, R_selfdestruct already).
Proof.
  intros g eip150 eip158 empty exist bal already G.
  destruct G as (_ & _ & _ & _ & _ & Hs & _ & Hc).
  pose proof two64_val as T.
  unfold gasSuicide, C_selfdestruct, R_selfdestruct, SuicideRefundGas.
  rewrite (wrap64_small (gf_Suicide g + gf_CreateBySuicide g)) by lia.
  f_equal.
  - destruct eip150; [|reflexivity].
    destruct eip158; [destruct empty; destruct bal | destruct exist]; cbn; lia.
  - destruct already; reflexivity.
Qed.

(* ------------------------------------------------------------------ the CALL family *)

(* memory of w0 words, growing (or not) to cover ms bytes, on the proved domain of memoryGasCost *)
Definition memfee (w0 ms : Z) : Z := Cmem (Z.max w0 (ceil32 ms)) - Cmem w0.

Lemma memfee_bound : forall w0 ms, 0 <= w0 < 2^32 -> 0 <= ms <= 0x1FFFFFFFE0 -> 0 <= memfee w0 ms < 2^56.
Proof.
  intros w0 ms Hw Hms. unfold memfee.
  assert (Hc : 0 <= ceil32 ms < 2^32) by (unfold ceil32; lia).
  pose proof (Cmem_mono w0 (Z.max w0 (ceil32 ms)) ltac:(lia)) as Cm.
  pose proof (Cmem_small (Z.max w0 (ceil32 ms)) ltac:(lia)) as Cs.
  pose proof (Cmem_nonneg w0 ltac:(lia)) as C0.
  lia.
Qed.

Lemma sgn_zero_word : forall v, word v -> (Z.sgn v =? 0) = (v =? 0).
Proof.
  intros v [H _]. destruct (v =? 0) eqn:E.
  - assert (v = 0) by lia. subst v. reflexivity.
  - rewrite Z.sgn_pos by lia. reflexivity.
Qed.

Lemma C_gascap_bounds : forall avail base cost, 0 <= base <= avail -> 0 <= cost ->
  0 <= C_gascap avail base cost <= avail - base.
Proof.
  intros avail base cost Hb Hc. unfold C_gascap, L64. lia.
Qed.

(* the common tail: callGas on the base cost, then the checked addition *)
Definition call_tail (g : gastable_full) (gas3 avail cost last' : Z) : res (Z * Z * Z) :=
  match callGas (gt_of_full g) avail gas3 cost with
  | Ok temp =>
      let '(gas4, o2) := SafeAdd gas3 temp in
      if o2 then Err ErrGasUintOverflow else Ok (gas4, temp, last')
  | Err e => Err e
  | Panic => Panic
  end.

Lemma call_tail_spec : forall g base avail cost last',
  0 < gf_CreateBySuicide g -> 0 <= base <= avail -> avail < two64 -> word cost ->
  call_tail g base avail cost last' =
    Ok (base + C_gascap avail base cost, C_gascap avail base cost, last').
Proof.
  intros g base avail cost last' Hg Hb Ha Hc. unfold call_tail.
  rewrite callGas_spec by (assumption || exact Hg).
  pose proof (C_gascap_bounds avail base cost Hb ltac:(destruct Hc; assumption)) as B.
  pose proof two64_val as T. pose proof maxU64_val as M.
  rewrite SafeAdd_spec.
  set (t := C_gascap avail base cost) in *. clearbody t.
  assert (maxU64 <? base + t = false) as -> by lia.
  rewrite wrap64_small by lia. reflexivity.
Qed.

Lemma call_tail_unaffordable : forall g base avail cost last' r,
  0 <= avail < base -> base < two64 -> word cost ->
  call_tail g base avail cost last' = Ok r -> avail < fst (fst r).
Proof.
  intros g base avail cost last' r Ha Hb Hc H. unfold call_tail in H.
  destruct (callGas (gt_of_full g) avail base cost) as [temp|e|] eqn:E; try discriminate H.
  destruct (callGas_wrap_harmless _ _ _ _ _ Ha Hb Hc E) as [Ht Hlt].
  pose proof two64_val as T. pose proof maxU64_val as M.
  rewrite SafeAdd_spec in H.
  destruct (maxU64 <? base + temp) eqn:E2; [discriminate H|].
  rewrite wrap64_small in H by lia.
  inversion H. subst r. cbn. lia.
Qed.

(* the part of the CALL price that depends on the account and the value *)
Lemma gasCall_extra : forall g (eip158 : bool) value (empty exist : bool), gt_ok g -> word value ->
  (if negb (Z.sgn value =? 0)
   then wrap64 ((if eip158
                 then (if negb (Z.sgn value =? 0) && empty then wrap64 (gf_Calls g + CallNewAccountGas) else gf_Calls g)
                 else if negb exist then wrap64 (gf_Calls g + CallNewAccountGas) else gf_Calls g)
                + CallValueTransferGas)
   else (if eip158
         then (if negb (Z.sgn value =? 0) && empty then wrap64 (gf_Calls g + CallNewAccountGas) else gf_Calls g)
         else if negb exist then wrap64 (gf_Calls g + CallNewAccountGas) else gf_Calls g))
  = C_extra (gf_Calls g) eip158 value empty exist.
Proof.
  intros g eip158 value empty exist G Hv.
  destruct G as (_ & _ & _ & _ & Hc & _).
  pose proof two64_val as T.
  rewrite (sgn_zero_word value Hv).
  unfold C_extra, C_xfer, C_new, CallNewAccountGas, CallValueTransferGas.
  rewrite (wrap64_small (gf_Calls g + 25000)) by lia.
  destruct (value =? 0); destruct eip158; destruct empty; destruct exist; cbn;
    try rewrite wrap64_small by lia; lia.
Qed.

Lemma C_extra_bounds : forall gc eip158 value empty exist, 0 <= gc < 2^32 ->
  0 <= C_extra gc eip158 value empty exist < 2^32 + 34001.
Proof.
  intros. unfold C_extra, C_xfer, C_new.
  destruct (value =? 0); destruct eip158; destruct empty; destruct exist; cbn; lia.
Qed.

Theorem gasCall_spec : forall g eip158 value empty exist w0 ms avail cost,
  gt_ok g -> 0 < gf_CreateBySuicide g -> word value -> word cost -> 0 <= w0 < 2^32 -> 0 <= ms <= 0x1FFFFFFFE0 -> avail < two64 ->
  let extra := C_extra (gf_Calls g) eip158 value empty exist in
  extra + memfee w0 ms <= avail ->
  gasCall g eip158 value empty exist (32 * w0) (Cmem w0) ms avail cost =
    Ok (C_call extra (memfee w0 ms) avail cost, C_gascap avail (extra + memfee w0 ms) cost, Cmem (Z.max w0 (ceil32 ms))).
Proof.
  intros g eip158 value empty exist w0 ms avail cost G Hg Hv Hc Hw Hms Ha extra Hle.
  pose proof (gasCall_extra g eip158 value empty exist G Hv) as E. fold extra in E.
  pose proof (memfee_bound w0 ms Hw Hms) as Hm.
  assert (He : 0 <= extra < 2^32 + 34001).
  { apply C_extra_bounds. destruct G as (_ & _ & _ & _ & K & _). exact K. }
  pose proof two64_val as T. pose proof maxU64_val as M.
  unfold gasCall. cbv zeta. rewrite E.
  rewrite memoryGasCost_spec_partial by assumption. fold (memfee w0 ms).
  rewrite SafeAdd_spec.
  assert (maxU64 <? extra + memfee w0 ms = false) as -> by lia.
  rewrite (wrap64_small (extra + memfee w0 ms)) by lia.
  change (call_tail g (extra + memfee w0 ms) avail cost (Cmem (Z.max w0 (ceil32 ms))) =
          Ok (C_call extra (memfee w0 ms) avail cost, C_gascap avail (extra + memfee w0 ms) cost, Cmem (Z.max w0 (ceil32 ms)))).
  rewrite call_tail_spec by (assumption || lia). reflexivity.
Qed.

(* when the base cost alone exceeds the gas left, whatever is returned cannot be paid: the
   interpreter's UseGas fails *)
Theorem gasCall_unaffordable : forall g eip158 value empty exist w0 ms avail cost r,
  gt_ok g -> word value -> word cost -> 0 <= w0 < 2^32 -> 0 <= ms <= 0x1FFFFFFFE0 -> 0 <= avail < two64 ->
  avail < C_extra (gf_Calls g) eip158 value empty exist + memfee w0 ms ->
  gasCall g eip158 value empty exist (32 * w0) (Cmem w0) ms avail cost = Ok r -> avail < fst (fst r).
Proof.
  intros g eip158 value empty exist w0 ms avail cost r G Hv Hc Hw Hms Ha Hlt H.
  pose proof (gasCall_extra g eip158 value empty exist G Hv) as E.
  set (extra := C_extra (gf_Calls g) eip158 value empty exist) in *.
  pose proof (memfee_bound w0 ms Hw Hms) as Hm.
  assert (He : 0 <= extra < 2^32 + 34001).
  { apply C_extra_bounds. destruct G as (_ & _ & _ & _ & K & _). exact K. }
  pose proof two64_val as T. pose proof maxU64_val as M.
  unfold gasCall in H. cbv zeta in H. rewrite E in H.
  rewrite memoryGasCost_spec_partial in H by assumption. fold (memfee w0 ms) in H.
  rewrite SafeAdd_spec in H.
  assert (K : maxU64 <? extra + memfee w0 ms = false) by lia. rewrite K in H.
  rewrite (wrap64_small (extra + memfee w0 ms)) in H by lia.
  change (call_tail g (extra + memfee w0 ms) avail cost (Cmem (Z.max w0 (ceil32 ms))) = Ok r) in H.
  apply (call_tail_unaffordable g (extra + memfee w0 ms) avail cost (Cmem (Z.max w0 (ceil32 ms))) r);
    [lia | lia | exact Hc | exact H].
Qed.

Theorem gasCallCode_spec : forall g value w0 ms avail cost,
  gt_ok g -> 0 < gf_CreateBySuicide g -> word value -> word cost -> 0 <= w0 < 2^32 -> 0 <= ms <= 0x1FFFFFFFE0 -> avail < two64 ->
  let extra := gf_Calls g + C_xfer value in
  extra + memfee w0 ms <= avail ->
  gasCallCode g value (32 * w0) (Cmem w0) ms avail cost =
    Ok (C_call extra (memfee w0 ms) avail cost, C_gascap avail (extra + memfee w0 ms) cost, Cmem (Z.max w0 (ceil32 ms))).
Proof.
  intros g value w0 ms avail cost G Hg Hv Hc Hw Hms Ha extra Hle.
  pose proof (memfee_bound w0 ms Hw Hms) as Hm.
  pose proof two64_val as T. pose proof maxU64_val as M.
  assert (Hk : 0 <= gf_Calls g < 2^32) by (destruct G as (_ & _ & _ & _ & K & _); exact K).
  assert (E : (if negb (Z.sgn value =? 0) then wrap64 (gf_Calls g + CallValueTransferGas) else gf_Calls g) = extra).
  { rewrite (sgn_zero_word value Hv). unfold extra, C_xfer, CallValueTransferGas.
    rewrite wrap64_small by lia. destruct (value =? 0); cbn; lia. }
  assert (He : 0 <= extra < 2^32 + 9001).
  { unfold extra, C_xfer. destruct (value =? 0); lia. }
  unfold gasCallCode. cbv zeta. rewrite E.
  rewrite memoryGasCost_spec_partial by assumption. fold (memfee w0 ms).
  rewrite SafeAdd_spec.
  assert (maxU64 <? extra + memfee w0 ms = false) as -> by lia.
  rewrite (wrap64_small (extra + memfee w0 ms)) by lia.
  change (call_tail g (extra + memfee w0 ms) avail cost (Cmem (Z.max w0 (ceil32 ms))) =
          Ok (C_call extra (memfee w0 ms) avail cost, C_gascap avail (extra + memfee w0 ms) cost, Cmem (Z.max w0 (ceil32 ms)))).
  rewrite call_tail_spec by (assumption || lia). reflexivity.
Qed.

Theorem gasDelegateCall_spec : forall g w0 ms avail cost,
  gt_ok g -> 0 < gf_CreateBySuicide g -> word cost -> 0 <= w0 < 2^32 -> 0 <= ms <= 0x1FFFFFFFE0 -> avail < two64 ->
  gf_Calls g + memfee w0 ms <= avail ->
  gasDelegateCall g (32 * w0) (Cmem w0) ms avail cost =
    Ok (C_call (gf_Calls g) (memfee w0 ms) avail cost, C_gascap avail (gf_Calls g + memfee w0 ms) cost, Cmem (Z.max w0 (ceil32 ms))).
Proof.
  intros g w0 ms avail cost G Hg Hc Hw Hms Ha Hle.
  pose proof (memfee_bound w0 ms Hw Hms) as Hm.
  pose proof two64_val as T. pose proof maxU64_val as M.
  assert (Hk : 0 <= gf_Calls g < 2^32) by (destruct G as (_ & _ & _ & _ & K & _); exact K).
  unfold gasDelegateCall.
  rewrite memoryGasCost_spec_partial by assumption. fold (memfee w0 ms).
  rewrite SafeAdd_spec.
  rewrite (Z.add_comm (memfee w0 ms) (gf_Calls g)).
  assert (maxU64 <? gf_Calls g + memfee w0 ms = false) as -> by lia.
  rewrite (wrap64_small (gf_Calls g + memfee w0 ms)) by lia.
  change (call_tail g (gf_Calls g + memfee w0 ms) avail cost (Cmem (Z.max w0 (ceil32 ms))) =
          Ok (C_call (gf_Calls g) (memfee w0 ms) avail cost, C_gascap avail (gf_Calls g + memfee w0 ms) cost, Cmem (Z.max w0 (ceil32 ms)))).
  rewrite call_tail_spec by (assumption || lia). reflexivity.
Qed.

Theorem gasStaticCall_eq : gasStaticCall = gasDelegateCall.
Proof. reflexivity. Qed.

(* ------------------------------------------------------------------ instances of the first-wave generic theorems *)

Theorem gasExtCodeCopy_formula : forall g memLen last ms len fee last', gt_ok g -> word len ->
  memoryGasCost memLen last ms = Ok (fee, last') -> 0 <= fee < two64 ->
  gasExtCodeCopy (gt_of_full g) memLen last ms len =
    if (len <? two64) && (fee + gf_ExtcodeCopy g + 3 * ceil32 len <=? maxU64)
    then Ok (fee + gf_ExtcodeCopy g + 3 * ceil32 len, last') else Err ErrGasUintOverflow.
Proof.
  intros g memLen last ms len fee last' G Hl Hm Hf.
  destruct G as (_ & Hx & _).
  unfold gasExtCodeCopy, CopyGas. cbn [gt_of_full gt_ExtcodeCopy].
  apply (gas_mem_words_spec (gf_ExtcodeCopy g) 3 memLen last ms len fee last'); (assumption || lia).
Qed.

Theorem gasCreate_formula : forall memLen last ms fee last',
  memoryGasCost memLen last ms = Ok (fee, last') -> 0 <= fee < two64 ->
  gasCreate memLen last ms = if fee + 32000 <=? maxU64 then Ok (fee + 32000, last') else Err ErrGasUintOverflow.
Proof.
  intros memLen last ms fee last' Hm Hf.
  unfold gasCreate, CreateGas.
  apply (gas_mem_base_spec 32000 memLen last ms fee last'); (assumption || lia).
Qed.
