(* Evm/OpsProofsTable.v — the instruction sets of core/vm/jump_table.go, as
   regenerated from the current source (Generated/GenJumpTables.v), equal a
   hand-written specification table (validity per fork, stack arity, control
   flags, the semantic / gas / memory-size function bound to each opcode and the
   constant gas tier); NewInterpreter's fork -> table selection; and the gas
   constants hard-coded in OpsModel.v equal the ones of params/ and core/vm/gas.go
   (Generated/GenParamsEvm.v). *)
From Coq Require Import ZArith List Bool String Lia.
From AQ Require Import Evm.OpsModel Generated.GenJumpTables Generated.GenParamsEvm Evm.OpsTableSpec.
Import ListNotations.
Local Open Scope string_scope.
Local Open Scope Z_scope.

(* ------------------------------------------------------------------ generated = specification *)

Definition opinfo_eqb (a b : opinfo) : bool :=
  Bool.eqb (oi_valid a) (oi_valid b) && (oi_pops a =? oi_pops b) && (oi_pushes a =? oi_pushes b)
  && Bool.eqb (oi_halts a) (oi_halts b) && Bool.eqb (oi_jumps a) (oi_jumps b) && Bool.eqb (oi_writes a) (oi_writes b)
  && Bool.eqb (oi_reverts a) (oi_reverts b) && Bool.eqb (oi_returns a) (oi_returns b)
  && String.eqb (oi_exec a) (oi_exec b) && (oi_exec_arg a =? oi_exec_arg b)
  && String.eqb (oi_gas a) (oi_gas b) && (oi_gas_arg a =? oi_gas_arg b) && String.eqb (oi_mem a) (oi_mem b).

Lemma opinfo_eqb_eq a b : opinfo_eqb a b = true -> a = b.
Proof.
  destruct a, b; unfold opinfo_eqb; cbn.
  intros H.
  repeat match type of H with (_ && _) = true => apply andb_true_iff in H; let H' := fresh "H" in destruct H as [H H'] end.
  repeat match goal with
  | X : Bool.eqb _ _ = true |- _ => apply Bool.eqb_prop in X
  | X : (_ =? _) = true |- _ => apply Z.eqb_eq in X
  | X : String.eqb _ _ = true |- _ => apply String.eqb_eq in X
  end.
  subst. reflexivity.
Qed.

Definition all_ops : list Z := map Z.of_nat (seq 0 256).
Definition all_isets : list iset := [Frontier; Homestead; Byzantium; Constantinople; Spring].

Lemma all_ops_in op : 0 <= op < 256 -> In op all_ops.
Proof.
  intros H. unfold all_ops. apply in_map_iff. exists (Z.to_nat op). split.
  - apply Z2Nat.id; lia.
  - apply in_seq. lia.
Qed.
Lemma all_isets_in s : In s all_isets.
Proof. destruct s; cbn; tauto. Qed.

Definition table_check (s : iset) : bool :=
  Nat.eqb (List.length (gen_table s)) 256 &&
  forallb (fun op => match nth_error (gen_table s) (Z.to_nat op) with
                     | Some e => opinfo_eqb e (spec_op s op) && Bool.eqb (oi_valid e) (spec_valid s op)
                     | None => false end) all_ops.

Lemma table_check_all : forallb table_check all_isets = true.
Proof. vm_compute. reflexivity. Qed.

Theorem table_is_spec : forall s op, 0 <= op < 256 ->
  nth_error (gen_table s) (Z.to_nat op) = Some (spec_op s op).
Proof.
  intros s op Hop.
  pose proof table_check_all as H. rewrite forallb_forall in H.
  specialize (H s (all_isets_in s)). unfold table_check in H.
  apply andb_true_iff in H. destruct H as [_ H]. rewrite forallb_forall in H.
  specialize (H op (all_ops_in op Hop)).
  destruct (nth_error (gen_table s) (Z.to_nat op)) as [e|]; [|discriminate].
  apply andb_true_iff in H. destruct H as [H _]. apply opinfo_eqb_eq in H. now subst.
Qed.

Theorem table_length : forall s, List.length (gen_table s) = 256%nat.
Proof.
  intros s. pose proof table_check_all as H. rewrite forallb_forall in H.
  specialize (H s (all_isets_in s)). unfold table_check in H.
  apply andb_true_iff in H. destruct H as [H _]. now apply Nat.eqb_eq in H.
Qed.

(* the set of valid opcodes of each epoch is exactly the prescribed one *)
Theorem valid_set_spec : forall s op, 0 <= op < 256 ->
  option_map oi_valid (nth_error (gen_table s) (Z.to_nat op)) = Some (spec_valid s op).
Proof.
  intros s op Hop.
  pose proof table_check_all as H. rewrite forallb_forall in H.
  specialize (H s (all_isets_in s)). unfold table_check in H.
  apply andb_true_iff in H. destruct H as [_ H]. rewrite forallb_forall in H.
  specialize (H op (all_ops_in op Hop)).
  destruct (nth_error (gen_table s) (Z.to_nat op)) as [e|]; [|discriminate].
  apply andb_true_iff in H. destruct H as [_ H]. apply Bool.eqb_prop in H. cbn. now rewrite H.
Qed.

(* the constant gas the model charges for the arithmetic instructions is the one bound in the tables *)
Definition arith_gas_check (s : iset) : bool :=
  forallb (fun op => match arith_const_gas op with
                     | Some g => negb (spec_valid s op) ||
                                 (String.eqb (oi_gas (spec_op s op)) "constGasFunc" && (oi_gas_arg (spec_op s op) =? g))
                     | None => true end) all_ops.
Lemma arith_gas_check_all : forallb arith_gas_check all_isets = true.
Proof. vm_compute. reflexivity. Qed.
Theorem arith_gas_table : forall s op g, 0 <= op < 256 -> arith_const_gas op = Some g -> spec_valid s op = true ->
  oi_gas (spec_op s op) = "constGasFunc" /\ oi_gas_arg (spec_op s op) = g.
Proof.
  intros s op g Hop Hg Hv.
  pose proof arith_gas_check_all as H. rewrite forallb_forall in H.
  specialize (H s (all_isets_in s)). unfold arith_gas_check in H. rewrite forallb_forall in H.
  specialize (H op (all_ops_in op Hop)). rewrite Hg, Hv in H. cbn [negb orb] in H.
  apply andb_true_iff in H. destruct H as [H1 H2].
  apply String.eqb_eq in H1. apply Z.eqb_eq in H2. auto.
Qed.

(* ------------------------------------------------------------------ fork -> table selection *)

Definition active (s : option Z) (n : Z) : Prop := exists b, s = Some b /\ b <= n.

Lemma isForked_active s n : isForked s n = true <-> active s n.
Proof.
  unfold isForked, active. destruct s as [b|].
  - rewrite Z.leb_le. split; [intros H; exists b; auto | intros [b' [E H]]; inversion E; subst; auto].
  - split; [discriminate | intros [b [E _]]; discriminate].
Qed.

(* generic in the fork map: the instruction set installed at block n is the one of
   the latest epoch active at n, HF5 taking precedence *)
Theorem fork_selection_spec : forall c n,
  (select_iset c n = Spring <-> active (cc_hf5 c) n) /\
  (select_iset c n = Constantinople <-> ~ active (cc_hf5 c) n /\ active (cc_constantinople c) n) /\
  (select_iset c n = Byzantium <->
     ~ active (cc_hf5 c) n /\ ~ active (cc_constantinople c) n /\ active (cc_byzantium c) n) /\
  (select_iset c n = Homestead <->
     ~ active (cc_hf5 c) n /\ ~ active (cc_constantinople c) n /\ ~ active (cc_byzantium c) n /\ active (cc_homestead c) n) /\
  (select_iset c n = Frontier <->
     ~ active (cc_hf5 c) n /\ ~ active (cc_constantinople c) n /\ ~ active (cc_byzantium c) n /\ ~ active (cc_homestead c) n).
Proof.
  intros c n. unfold select_iset.
  rewrite <- !isForked_active.
  destruct (isForked (cc_hf5 c) n), (isForked (cc_constantinople c) n),
           (isForked (cc_byzantium c) n), (isForked (cc_homestead c) n);
    repeat split; intros; try discriminate; try tauto; try congruence;
    repeat match goal with H : _ /\ _ |- _ => destruct H end; try congruence; try tauto.
Qed.

Definition obs_check (g : gencfg) : bool :=
  forallb (fun o => match o with (h, name, e) =>
     String.eqb (iset_name (select_iset (cfg_of g) h)) name && (gt_ExpByte (select_gastable (cfg_of g) h) =? e) end)
    (gc_observed g).
Lemma obs_check_all : forallb obs_check gen_configs = true.
Proof. vm_compute. reflexivity. Qed.

(* what NewInterpreter really installed, for every built-in chain configuration on
   the lattice of heights around its fork blocks, is what the model selects *)
Theorem selection_observed : forall g h name e, In g gen_configs -> In (h, name, e) (gc_observed g) ->
  iset_name (select_iset (cfg_of g) h) = name /\ gt_ExpByte (select_gastable (cfg_of g) h) = e.
Proof.
  intros g h name e Hg Ho.
  pose proof obs_check_all as H. rewrite forallb_forall in H. specialize (H g Hg).
  unfold obs_check in H. rewrite forallb_forall in H. specialize (H _ Ho). cbn in H.
  apply andb_true_iff in H. destruct H as [H1 H2].
  apply String.eqb_eq in H1. apply Z.eqb_eq in H2. auto.
Qed.

(* main network, for every height: Homestead's instructions below HF5 = 22800, the
   Spring (= Constantinople) set from there on; gas table HF1 from block 3600 *)
Definition mainnet_cfg : option gencfg := find (fun g => String.eqb (gc_name g) "mainnet") gen_configs.

Theorem fork_selection_mainnet : exists g, mainnet_cfg = Some g /\
  forall n, 0 <= n ->
    select_iset (cfg_of g) n = (if n <? 22800 then Homestead else Spring) /\
    select_gastable (cfg_of g) n = (if n <? 3600 then GasTableHomestead else GasTableHF1).
Proof.
  eexists. split; [vm_compute; reflexivity|].
  intros n Hn. unfold select_iset, select_gastable, cfg_of, isForked.
  cbn [cc_hf5 cc_constantinople cc_byzantium cc_homestead cc_hf1
       gc_hf5 gc_constantinople gc_byzantium gc_homestead gc_hf1].
  rewrite !(Z.leb_antisym n).
  assert (E0 : (n <? 0) = false) by lia. rewrite E0.
  split.
  - destruct (n <? 22800) eqn:E1; cbn [negb]; [|reflexivity].
    assert (E2 : (n <? 36050) = true) by lia. rewrite E2. reflexivity.
  - destruct (n <? 3600); reflexivity.
Qed.

(* ------------------------------------------------------------------ chain rules and write protection *)

Definition rules_tuple (r : rules) : bool * bool * bool * bool * bool :=
  (r_homestead r, r_eip150 r, r_eip155 r, r_eip158 r, r_byzantium r).
Definition tuple5_eqb (a b : bool * bool * bool * bool * bool) : bool :=
  match a, b with (a1, a2, a3, a4, a5), (b1, b2, b3, b4, b5) =>
    Bool.eqb a1 b1 && Bool.eqb a2 b2 && Bool.eqb a3 b3 && Bool.eqb a4 b4 && Bool.eqb a5 b5 end.
Lemma tuple5_eqb_eq a b : tuple5_eqb a b = true -> a = b.
Proof.
  destruct a as [[[[a1 a2] a3] a4] a5], b as [[[[b1 b2] b3] b4] b5]; cbn.
  destruct a1, a2, a3, a4, a5, b1, b2, b3, b4, b5; cbn; intros H; try discriminate; reflexivity.
Qed.

Definition rules_check (g : genrules) : bool :=
  forallb (fun o => match o with (h, t, sp, cp) =>
     let r := select_rules (rcfg_of g) h in
     tuple5_eqb (rules_tuple r) t
     && Bool.eqb (enforceRestrictions (r_byzantium r) true true false 0) sp
     && Bool.eqb (enforceRestrictions (r_byzantium r) true false true 1) cp end) (gr_observed g).
Lemma rules_check_all : forallb rules_check gen_rules = true.
Proof. vm_compute. reflexivity. Qed.

(* the chain rules NewEVM really stored and what enforceRestrictions really answered in read-only
   mode (for SSTORE and for a CALL with value 1), for every built-in configuration on the lattice of
   heights, are what the model computes *)
Theorem rules_observed : forall g h t sp cp, In g gen_rules -> In (h, t, sp, cp) (gr_observed g) ->
  rules_tuple (select_rules (rcfg_of g) h) = t /\
  enforceRestrictions (r_byzantium (select_rules (rcfg_of g) h)) true true false 0 = sp /\
  enforceRestrictions (r_byzantium (select_rules (rcfg_of g) h)) true false true 1 = cp.
Proof.
  intros g h t sp cp Hg Ho.
  pose proof rules_check_all as H. rewrite forallb_forall in H. specialize (H g Hg).
  unfold rules_check in H. rewrite forallb_forall in H. specialize (H _ Ho). cbn beta iota zeta in H.
  apply andb_true_iff in H. destruct H as [H H3]. apply andb_true_iff in H. destruct H as [H1 H2].
  apply tuple5_eqb_eq in H1. apply Bool.eqb_prop in H2, H3. auto.
Qed.

Definition mainnet_rules : option genrules := find (fun g => String.eqb (gr_name g) "mainnet") gen_rules.

(* WHAT THE CODE DOES on the main network between HF5 (22800) and HF7 (36050): the Spring
   instruction set is installed (so STATICCALL, REVERT, RETURNDATASIZE/COPY and the shifts are valid)
   with the HF1 gas table, but the chain rules are still pre-Byzantium / pre-EIP-155/158 (those are
   tied to HF7), hence enforceRestrictions never refuses anything: a STATICCALL'ed callee may
   write state in that window. *)
Theorem mainnet_hf5_hf7_window : exists g gr, mainnet_cfg = Some g /\ mainnet_rules = Some gr /\
  forall n, 22800 <= n < 36050 ->
    select_iset (cfg_of g) n = Spring /\
    select_gastable (cfg_of g) n = GasTableHF1 /\
    rules_tuple (select_rules (rcfg_of gr) n) = (true, true, false, false, false) /\
    (forall readOnly writes isCall value,
        enforceRestrictions (r_byzantium (select_rules (rcfg_of gr) n)) readOnly writes isCall value = false) /\
    spec_valid Spring 0xfa = true /\ spec_valid Spring 0xfd = true /\ spec_valid Spring 0x3e = true /\ spec_valid Spring 0x1d = true.
Proof.
  eexists. eexists. split; [vm_compute; reflexivity|]. split; [vm_compute; reflexivity|].
  intros n Hn.
  unfold select_iset, select_gastable, select_rules, rules_tuple, cfg_of, rcfg_of, isForked.
  cbn [cc_hf5 cc_constantinople cc_byzantium cc_homestead cc_hf1
       gc_hf5 gc_constantinople gc_byzantium gc_homestead gc_hf1
       rc_homestead rc_eip150 rc_eip155 rc_eip158 rc_byzantium
       gr_homestead gr_eip150 gr_eip155 gr_eip158 gr_byzantium
       r_homestead r_eip150 r_eip155 r_eip158 r_byzantium].
  assert (E1 : (22800 <=? n) = true) by lia.
  assert (E2 : (3600 <=? n) = true) by lia.
  assert (E3 : (0 <=? n) = true) by lia.
  assert (E4 : (36050 <=? n) = false) by lia.
  rewrite ?E1, ?E2, ?E3, ?E4.
  repeat split; reflexivity.
Qed.

(* from HF7 on the rules are Byzantium's and read-only mode refuses writes *)
Theorem mainnet_after_hf7 : exists gr, mainnet_rules = Some gr /\
  forall n, 36050 <= n ->
    rules_tuple (select_rules (rcfg_of gr) n) = (true, true, true, true, true) /\
    enforceRestrictions (r_byzantium (select_rules (rcfg_of gr) n)) true true false 0 = true.
Proof.
  eexists. split; [vm_compute; reflexivity|].
  intros n Hn.
  unfold select_rules, rules_tuple, rcfg_of, isForked.
  cbn [rc_homestead rc_eip150 rc_eip155 rc_eip158 rc_byzantium
       gr_homestead gr_eip150 gr_eip155 gr_eip158 gr_byzantium
       r_homestead r_eip150 r_eip155 r_eip158 r_byzantium].
  assert (E3 : (0 <=? n) = true) by lia.
  assert (E4 : (36050 <=? n) = true) by lia.
  rewrite ?E3, ?E4. split; reflexivity.
Qed.

(* ------------------------------------------------------------------ constants *)

Theorem params_match :
  MemoryGas = gp_MemoryGas /\ QuadCoeffDiv = gp_QuadCoeffDiv /\ CopyGas = gp_CopyGas /\
  Sha3Gas = gp_Sha3Gas /\ Sha3WordGas = gp_Sha3WordGas /\ LogGas = gp_LogGas /\
  LogTopicGas = gp_LogTopicGas /\ LogDataGas = gp_LogDataGas /\ CreateGas = gp_CreateGas /\
  StackLimit = gp_StackLimit /\
  GasQuickStep = gp_GasQuickStep /\ GasFastestStep = gp_GasFastestStep /\ GasFastStep = gp_GasFastStep /\
  GasMidStep = gp_GasMidStep /\ GasSlowStep = gp_GasSlowStep /\ GasExtStep = gp_GasExtStep /\
  GasSlowStep = gp_ExpGas /\
  GasTableHomestead = {| gt_ExpByte := gp_Homestead_ExpByte; gt_CreateBySuicide := gp_Homestead_CreateBySuicide;
                         gt_Calls := gp_Homestead_Calls; gt_ExtcodeCopy := gp_Homestead_ExtcodeCopy |} /\
  GasTableHF1 = {| gt_ExpByte := gp_HF1_ExpByte; gt_CreateBySuicide := gp_HF1_CreateBySuicide;
                   gt_Calls := gp_HF1_Calls; gt_ExtcodeCopy := gp_HF1_ExtcodeCopy |} /\
  (* the Yellow-Paper tiers used by spec_op are the vm.Gas*Step constants *)
  Gbase = gp_GasQuickStep /\ Gverylow = gp_GasFastestStep /\ Glow = gp_GasFastStep /\
  Gmid = gp_GasMidStep /\ Ghigh = gp_GasSlowStep /\ Gblockhash = gp_GasExtStep.
Proof. repeat split; reflexivity. Qed.

Theorem params_match_state :
  SstoreSetGas = gp_SstoreSetGas /\ SstoreClearGas = gp_SstoreClearGas /\ SstoreResetGas = gp_SstoreResetGas /\
  SstoreRefundGas = gp_SstoreRefundGas /\ CallNewAccountGas = gp_CallNewAccountGas /\
  CallValueTransferGas = gp_CallValueTransferGas /\ SuicideRefundGas = gp_SuicideRefundGas /\ CallStipend = gp_CallStipend /\
  GasTableHomestead_full = {| gf_ExtcodeSize := gp_Homestead_ExtcodeSize; gf_ExtcodeCopy := gp_Homestead_ExtcodeCopy;
      gf_Balance := gp_Homestead_Balance; gf_SLoad := gp_Homestead_SLoad; gf_Calls := gp_Homestead_Calls;
      gf_Suicide := gp_Homestead_Suicide; gf_ExpByte := gp_Homestead_ExpByte; gf_CreateBySuicide := gp_Homestead_CreateBySuicide |} /\
  GasTableHF1_full = {| gf_ExtcodeSize := gp_HF1_ExtcodeSize; gf_ExtcodeCopy := gp_HF1_ExtcodeCopy;
      gf_Balance := gp_HF1_Balance; gf_SLoad := gp_HF1_SLoad; gf_Calls := gp_HF1_Calls;
      gf_Suicide := gp_HF1_Suicide; gf_ExpByte := gp_HF1_ExpByte; gf_CreateBySuicide := gp_HF1_CreateBySuicide |} /\
  gt_of_full GasTableHomestead_full = GasTableHomestead /\ gt_of_full GasTableHF1_full = GasTableHF1.
Proof. repeat split; reflexivity. Qed.
