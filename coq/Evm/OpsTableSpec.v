(* Evm/OpsTableSpec.v — hand-written specification of the instruction sets
   (definitions only; extracted for the driver).  For every epoch and opcode:
   validity, stack items removed / added, control flags, the semantic function,
   the gas function (or constant Yellow-Paper tier) and the memory-size function.
   OpsProofsTable.v proves that the tables regenerated from core/vm/jump_table.go
   (Generated/GenJumpTables.v) are exactly this. *)
From Coq Require Import ZArith List Bool String.
From AQ Require Import Evm.OpsModel Generated.GenJumpTables.
Import ListNotations.
Local Open Scope string_scope.
Local Open Scope Z_scope.

(* ------------------------------------------------------------------ specification table *)

(* Yellow-Paper gas tiers *)
Definition Gzero := 0. Definition Gjumpdest := 1. Definition Gbase := 2. Definition Gverylow := 3.
Definition Glow := 5. Definition Gmid := 8. Definition Ghigh := 10. Definition Gblockhash := 20.

Definition invalid_op : opinfo := mk_opinfo false 0 0 false false false false false "" (-1) "" (-1) "".
(* an ordinary instruction: delta items removed, alpha items added *)
Definition ins (delta alpha : Z) (exec : string) (earg : Z) (gas : string) (garg : Z) (mem : string) : opinfo :=
  mk_opinfo true delta alpha false false false false false exec earg gas garg mem.
(* constant-tier instruction *)
Definition tier (delta alpha : Z) (exec : string) (g : Z) : opinfo := ins delta alpha exec (-1) "constGasFunc" g "".
Definition with_flags (o : opinfo) (halts jumps writes reverts returns : bool) : opinfo :=
  mk_opinfo (oi_valid o) (oi_pops o) (oi_pushes o) halts jumps writes reverts returns
            (oi_exec o) (oi_exec_arg o) (oi_gas o) (oi_gas_arg o) (oi_mem o).

Definition since (from s : iset) : bool :=
  let rank x := match x with Frontier => 0 | Homestead => 1 | Byzantium => 2 | Constantinople => 3 | Spring => 4 end in
  rank from <=? rank s.

(* the instruction set aquachain prescribes for each epoch: Frontier's
   instructions; DELEGATECALL from Homestead; STATICCALL, RETURNDATASIZE,
   RETURNDATACOPY, REVERT from Byzantium; SHL, SHR, SAR from Constantinople;
   Spring (HF5) = Constantinople *)
Definition spec_fixed (s : iset) : list (Z * opinfo) := [
    (0x00, with_flags (tier 0 0 "opStop" Gzero) true false false false false);
    (0x01, tier 2 1 "opAdd" Gverylow);
    (0x02, tier 2 1 "opMul" Glow);
    (0x03, tier 2 1 "opSub" Gverylow);
    (0x04, tier 2 1 "opDiv" Glow);
    (0x05, tier 2 1 "opSdiv" Glow);
    (0x06, tier 2 1 "opMod" Glow);
    (0x07, tier 2 1 "opSmod" Glow);
    (0x08, tier 3 1 "opAddmod" Gmid);
    (0x09, tier 3 1 "opMulmod" Gmid);
    (0x0a, ins 2 1 "opExp" (-1) "gasExp" (-1) "");
    (0x0b, tier 2 1 "opSignExtend" Glow);
    (0x10, tier 2 1 "opLt" Gverylow);
    (0x11, tier 2 1 "opGt" Gverylow);
    (0x12, tier 2 1 "opSlt" Gverylow);
    (0x13, tier 2 1 "opSgt" Gverylow);
    (0x14, tier 2 1 "opEq" Gverylow);
    (0x15, tier 1 1 "opIszero" Gverylow);
    (0x16, tier 2 1 "opAnd" Gverylow);
    (0x17, tier 2 1 "opOr" Gverylow);
    (0x18, tier 2 1 "opXor" Gverylow);
    (0x19, tier 1 1 "opNot" Gverylow);
    (0x1a, tier 2 1 "opByte" Gverylow);
    (0x1b, if since Constantinople s then tier 2 1 "opSHL" Gverylow else invalid_op);
    (0x1c, if since Constantinople s then tier 2 1 "opSHR" Gverylow else invalid_op);
    (0x1d, if since Constantinople s then tier 2 1 "opSAR" Gverylow else invalid_op);
    (0x20, ins 2 1 "opSha3" (-1) "gasSha3" (-1) "memorySha3");
    (0x30, tier 0 1 "opAddress" Gbase);
    (0x31, ins 1 1 "opBalance" (-1) "gasBalance" (-1) "");
    (0x32, tier 0 1 "opOrigin" Gbase);
    (0x33, tier 0 1 "opCaller" Gbase);
    (0x34, tier 0 1 "opCallValue" Gbase);
    (0x35, tier 1 1 "opCallDataLoad" Gverylow);
    (0x36, tier 0 1 "opCallDataSize" Gbase);
    (0x37, ins 3 0 "opCallDataCopy" (-1) "gasCallDataCopy" (-1) "memoryCallDataCopy");
    (0x38, tier 0 1 "opCodeSize" Gbase);
    (0x39, ins 3 0 "opCodeCopy" (-1) "gasCodeCopy" (-1) "memoryCodeCopy");
    (0x3a, tier 0 1 "opGasprice" Gbase);
    (0x3b, ins 1 1 "opExtCodeSize" (-1) "gasExtCodeSize" (-1) "");
    (0x3c, ins 4 0 "opExtCodeCopy" (-1) "gasExtCodeCopy" (-1) "memoryExtCodeCopy");
    (0x3d, if since Byzantium s then tier 0 1 "opReturnDataSize" Gbase else invalid_op);
    (0x3e, if since Byzantium s then ins 3 0 "opReturnDataCopy" (-1) "gasReturnDataCopy" (-1) "memoryReturnDataCopy" else invalid_op);
    (0x40, tier 1 1 "opBlockhash" Gblockhash);
    (0x41, tier 0 1 "opCoinbase" Gbase);
    (0x42, tier 0 1 "opTimestamp" Gbase);
    (0x43, tier 0 1 "opNumber" Gbase);
    (0x44, tier 0 1 "opDifficulty" Gbase);
    (0x45, tier 0 1 "opGasLimit" Gbase);
    (0x50, tier 1 0 "opPop" Gbase);
    (0x51, ins 1 1 "opMload" (-1) "gasMLoad" (-1) "memoryMLoad");
    (0x52, ins 2 0 "opMstore" (-1) "gasMStore" (-1) "memoryMStore");
    (0x53, ins 2 0 "opMstore8" (-1) "gasMStore8" (-1) "memoryMStore8");
    (0x54, ins 1 1 "opSload" (-1) "gasSLoad" (-1) "");
    (0x55, with_flags (ins 2 0 "opSstore" (-1) "gasSStore" (-1) "") false false true false false);
    (0x56, with_flags (tier 1 0 "opJump" Gmid) false true false false false);
    (0x57, with_flags (tier 2 0 "opJumpi" Ghigh) false true false false false);
    (0x58, tier 0 1 "opPc" Gbase);
    (0x59, tier 0 1 "opMsize" Gbase);
    (0x5a, tier 0 1 "opGas" Gbase);
    (0x5b, tier 0 0 "opJumpdest" Gjumpdest);
    (0xf0, with_flags (ins 3 1 "opCreate" (-1) "gasCreate" (-1) "memoryCreate") false false true false true);
    (0xf1, with_flags (ins 7 1 "opCall" (-1) "gasCall" (-1) "memoryCall") false false false false true);
    (0xf2, with_flags (ins 7 1 "opCallCode" (-1) "gasCallCode" (-1) "memoryCall") false false false false true);
    (0xf3, with_flags (ins 2 0 "opReturn" (-1) "gasReturn" (-1) "memoryReturn") true false false false false);
    (0xf4, if since Homestead s then with_flags (ins 6 1 "opDelegateCall" (-1) "gasDelegateCall" (-1) "memoryDelegateCall") false false false false true else invalid_op);
    (0xfa, if since Byzantium s then with_flags (ins 6 1 "opStaticCall" (-1) "gasStaticCall" (-1) "memoryStaticCall") false false false false true else invalid_op);
    (0xfd, if since Byzantium s then with_flags (ins 2 0 "opRevert" (-1) "gasRevert" (-1) "memoryRevert") false false false true true else invalid_op);
    (0xff, with_flags (ins 1 0 "opSuicide" (-1) "gasSuicide" (-1) "") true false true false false)
  ].

Definition spec_op (s : iset) (op : Z) : opinfo :=
  match find (fun p => fst p =? op) (spec_fixed s) with
  | Some p => snd p
  | None =>
      if (0x60 <=? op) && (op <=? 0x7f) then ins 0 1 "makePush" (op - 0x5f) "gasPush" (-1) ""             (* PUSHn *)
      else if (0x80 <=? op) && (op <=? 0x8f) then ins (op - 0x7f) (op - 0x7f + 1) "makeDup" (op - 0x7f) "gasDup" (-1) ""   (* DUPn *)
      else if (0x90 <=? op) && (op <=? 0x9f) then ins (op - 0x8f + 1) (op - 0x8f + 1) "makeSwap" (op - 0x8f) "gasSwap" (-1) "" (* SWAPn *)
      else if (0xa0 <=? op) && (op <=? 0xa4)
           then with_flags (ins (op - 0xa0 + 2) 0 "makeLog" (op - 0xa0) "makeGasLog" (op - 0xa0) "memoryLog") false false true false false (* LOGn *)
      else invalid_op
  end.

(* the set of valid opcodes per epoch, stated on its own *)
Definition spec_valid (s : iset) (op : Z) : bool :=
  let rng a b := (a <=? op) && (op <=? b) in
  rng 0x00 0x0b || rng 0x10 0x1a || (since Constantinople s && rng 0x1b 0x1d) || (op =? 0x20)
  || rng 0x30 0x3c || (since Byzantium s && rng 0x3d 0x3e) || rng 0x40 0x45 || rng 0x50 0x5b
  || rng 0x60 0xa4 || rng 0xf0 0xf3 || (since Homestead s && (op =? 0xf4))
  || (since Byzantium s && ((op =? 0xfa) || (op =? 0xfd))) || (op =? 0xff).

(* the regenerated tables, by epoch *)
Definition gen_table (s : iset) : list opinfo :=
  match s with
  | Frontier => tbl_frontier | Homestead => tbl_homestead | Byzantium => tbl_byzantium
  | Constantinople => tbl_constantinople | Spring => tbl_spring
  end.


Definition cfg_of (g : gencfg) : chaincfg :=
  {| cc_homestead := gc_homestead g; cc_byzantium := gc_byzantium g; cc_constantinople := gc_constantinople g;
     cc_hf5 := gc_hf5 g; cc_hf1 := gc_hf1 g |}.
Definition iset_name (s : iset) : string :=
  match s with Frontier => "frontier" | Homestead => "homestead" | Byzantium => "byzantium"
             | Constantinople => "constantinople" | Spring => "spring" end.


(* the rules part of a built-in configuration as regenerated (gen_rules) *)
Definition rcfg_of (g : genrules) : rulescfg :=
  {| rc_homestead := gr_homestead g; rc_eip150 := gr_eip150 g; rc_eip155 := gr_eip155 g;
     rc_eip158 := gr_eip158 g; rc_byzantium := gr_byzantium g |}.
