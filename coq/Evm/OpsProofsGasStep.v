(* Evm/OpsProofsGasStep.v — the whole dynamic-gas step of the interpreter (operands -> memory
   size of the step (interpreter.go) -> gas function on a memory of w0 words charged Cmem w0) equals
   the Yellow-Paper cost, on the domain where the memory stays below 2^32 words, for the
   base-shaped functions (MLOAD MSTORE MSTORE8 CREATE RETURN/REVERT) and LOGn; SHA3 and the copies
   are instances of step_gas_words_spec (OpsProofsGas.v). *)
From Coq Require Import ZArith List Bool Lia ZifyBool.
From AQ Require Import Evm.OpsModel Evm.OpsSpec Evm.OpsProofsGas.
Import ListNotations.
Local Open Scope Z_scope.
#[local] Ltac Zify.zify_post_hook ::= Z.div_mod_to_equations.

(* the memory part of a step on the domain *)
Lemma mem_step : forall w0 off len, 0 <= w0 < 2^32 -> word off -> word len -> Mexp w0 off len < 2^32 ->
  exists ms, run_memorySize (calcMemSize off len) = Ok ms /\
    memoryGasCost (32 * w0) (Cmem w0) ms = Ok (mem_fee w0 off len, Cmem (Mexp w0 off len)) /\
    0 <= mem_fee w0 off len < 2^56 /\ len < two64 /\ 8 * len < 2^40.
Proof.
  intros w0 off len Hw Ho Hl HM.
  rewrite (run_memorySize_spec off len Ho Hl). cbv zeta.
  pose proof two64_val as T. pose proof maxU64_val as M.
  destruct Ho as [Ho _]. destruct Hl as [Hl _].
  unfold mem_fee. unfold Mexp in *.
  pose proof (Cmem_nonneg w0 ltac:(lia)) as C0.
  destruct (len =? 0) eqn:E0.
  - assert (len = 0) by lia. subst len.
    change (ceil32 0) with 0. change (32 * 0) with 0.
    assert (0 <=? maxU64 = true) as -> by lia.
    exists 0. split; [reflexivity|]. split.
    + rewrite Z.sub_diag. reflexivity.
    + lia.
  - pose proof (ceil32_nonneg (off + len) ltac:(lia)) as Cn.
    assert (Hc : ceil32 (off + len) < 2^32) by lia.
    assert (Hlen : off + len <= 32 * ceil32 (off + len)) by (unfold ceil32; lia).
    set (c := ceil32 (off + len)) in *.
    assert (32 * c <=? maxU64 = true) as -> by lia.
    exists (32 * c). split; [reflexivity|].
    assert (Hm := memoryGasCost_spec_partial w0 (32 * c) Hw ltac:(lia)).
    rewrite ceil32_mul32 in Hm.
    pose proof (Cmem_mono w0 (Z.max w0 c) ltac:(lia)) as Cm.
    pose proof (Cmem_small (Z.max w0 c) ltac:(lia)) as Cs.
    split; [exact Hm|]. lia.
Qed.

(* ---- base-shaped gas functions ---- *)

Definition step_gas_base (base w0 off len : Z) : res (Z * Z) :=
  match run_memorySize (calcMemSize off len) with
  | Ok ms => gas_mem_base base (32 * w0) (Cmem w0) ms | Err e => Err e | Panic => Panic end.

Theorem step_gas_base_spec : forall base w0 off len, 0 <= base < 2^32 -> 0 <= w0 < 2^32 -> word off -> word len ->
  Mexp w0 off len < 2^32 ->
  step_gas_base base w0 off len = Ok (mem_fee w0 off len + base, Cmem (Mexp w0 off len)).
Proof.
  intros base w0 off len Hb Hw Ho Hl HM.
  destruct (mem_step w0 off len Hw Ho Hl HM) as [ms [H1 [H2 [H3 [H4 H5]]]]].
  unfold step_gas_base. rewrite H1.
  pose proof two64_val as T. pose proof maxU64_val as M.
  rewrite (gas_mem_base_spec base _ _ _ _ _ Hb H2) by lia.
  assert (mem_fee w0 off len + base <=? maxU64 = true) as -> by lia. reflexivity.
Qed.

Lemma word_small : forall x, 0 <= x < 2^32 -> word x.
Proof. intros x H. unfold word. assert (2^32 < W) by (vm_compute; reflexivity). lia. Qed.

Theorem step_gas_MLOAD : forall w0 off, 0 <= w0 < 2^32 -> word off -> Mexp w0 off 32 < 2^32 ->
  match run_memorySize (calcMemSize off 32) with
  | Ok ms => gasMLoad (32 * w0) (Cmem w0) ms | Err e => Err e | Panic => Panic end
  = Ok (mem_fee w0 off 32 + 3, Cmem (Mexp w0 off 32)).
Proof. intros. apply (step_gas_base_spec 3); auto; try lia. apply word_small; lia. Qed.

Theorem step_gas_MSTORE : forall w0 off, 0 <= w0 < 2^32 -> word off -> Mexp w0 off 32 < 2^32 ->
  match run_memorySize (calcMemSize off 32) with
  | Ok ms => gasMStore (32 * w0) (Cmem w0) ms | Err e => Err e | Panic => Panic end
  = Ok (mem_fee w0 off 32 + 3, Cmem (Mexp w0 off 32)).
Proof. intros. apply (step_gas_base_spec 3); auto; try lia. apply word_small; lia. Qed.

Theorem step_gas_MSTORE8 : forall w0 off, 0 <= w0 < 2^32 -> word off -> Mexp w0 off 1 < 2^32 ->
  match run_memorySize (calcMemSize off 1) with
  | Ok ms => gasMStore8 (32 * w0) (Cmem w0) ms | Err e => Err e | Panic => Panic end
  = Ok (mem_fee w0 off 1 + 3, Cmem (Mexp w0 off 1)).
Proof. intros. apply (step_gas_base_spec 3); auto; try lia. apply word_small; lia. Qed.

Theorem step_gas_CREATE : forall w0 off len, 0 <= w0 < 2^32 -> word off -> word len -> Mexp w0 off len < 2^32 ->
  match run_memorySize (calcMemSize off len) with
  | Ok ms => gasCreate (32 * w0) (Cmem w0) ms | Err e => Err e | Panic => Panic end
  = Ok (mem_fee w0 off len + 32000, Cmem (Mexp w0 off len)).
Proof. intros. apply (step_gas_base_spec 32000); auto; lia. Qed.

(* gasReturn = gasRevert = memoryGasCost *)
Theorem step_gas_RETURN : forall w0 off len, 0 <= w0 < 2^32 -> word off -> word len -> Mexp w0 off len < 2^32 ->
  match run_memorySize (calcMemSize off len) with
  | Ok ms => gasReturn (32 * w0) (Cmem w0) ms | Err e => Err e | Panic => Panic end
  = Ok (mem_fee w0 off len, Cmem (Mexp w0 off len)).
Proof.
  intros w0 off len Hw Ho Hl HM.
  destruct (mem_step w0 off len Hw Ho Hl HM) as [ms [H1 [H2 _]]].
  rewrite H1. exact H2.
Qed.

(* ---- LOGn ---- *)

Definition step_gas_log (n w0 off len : Z) : res (Z * Z) :=
  match run_memorySize (calcMemSize off len) with
  | Ok ms => gasLog n (32 * w0) (Cmem w0) ms len | Err e => Err e | Panic => Panic end.

Theorem step_gas_log_spec : forall n w0 off len, 0 <= n <= 4 -> 0 <= w0 < 2^32 -> word off -> word len ->
  Mexp w0 off len < 2^32 ->
  step_gas_log n w0 off len = Ok (mem_fee w0 off len + G_log n len, Cmem (Mexp w0 off len)).
Proof.
  intros n w0 off len Hn Hw Ho Hl HM.
  destruct (mem_step w0 off len Hw Ho Hl HM) as [ms [H1 [H2 [H3 [H4 H5]]]]].
  unfold step_gas_log. rewrite H1.
  pose proof two64_val as T. pose proof maxU64_val as M.
  rewrite (gasLog_spec n _ _ _ len _ _ Hn Hl H2) by lia.
  assert (len <? two64 = true) as -> by lia.
  assert (mem_fee w0 off len + G_log n len <=? maxU64 = true) as ->.
  { unfold G_log. destruct Hl as [Hl _]. lia. }
  reflexivity.
Qed.

(* ---- instances of step_gas_words_spec ---- *)

Theorem step_gas_SHA3 : forall w0 off len, 0 <= w0 < 2^32 -> word off -> word len -> Mexp w0 off len < 2^32 ->
  match run_memorySize (calcMemSize off len) with
  | Ok ms => gasSha3 (32 * w0) (Cmem w0) ms len | Err e => Err e | Panic => Panic end
  = Ok (mem_fee w0 off len + G_sha3 len, Cmem (Mexp w0 off len)).
Proof.
  intros w0 off len Hw Ho Hl HM.
  pose proof (step_gas_words_spec 30 6 w0 off len ltac:(lia) ltac:(lia) Hw Ho Hl HM) as H.
  unfold step_gas_words in H. unfold gasSha3, Sha3Gas, Sha3WordGas. rewrite H. unfold G_sha3. f_equal. f_equal. lia.
Qed.

Theorem step_gas_COPY : forall w0 off len, 0 <= w0 < 2^32 -> word off -> word len -> Mexp w0 off len < 2^32 ->
  match run_memorySize (calcMemSize off len) with
  | Ok ms => gasCallDataCopy (32 * w0) (Cmem w0) ms len | Err e => Err e | Panic => Panic end
  = Ok (mem_fee w0 off len + G_copy len, Cmem (Mexp w0 off len)).
Proof.
  intros w0 off len Hw Ho Hl HM.
  pose proof (step_gas_words_spec 3 3 w0 off len ltac:(lia) ltac:(lia) Hw Ho Hl HM) as H.
  unfold step_gas_words in H. unfold gasCallDataCopy, GasFastestStep, CopyGas. rewrite H. unfold G_copy. f_equal. f_equal. lia.
Qed.

Theorem gasCopy_same : gasCodeCopy = gasCallDataCopy /\ gasReturnDataCopy = gasCallDataCopy.
Proof. split; reflexivity. Qed.
