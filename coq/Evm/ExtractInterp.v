(* Extraction of the EVM interpreter / call machinery model for ocaml/interp/driver.ml.  ExtrOcamlBasic only. *)
From AQ Require Import Lib.Bytes Lib.ExtractBase Evm.OpsModel Evm.Interp.
Require Extraction.
Require Import ExtrOcamlBasic.
Extraction "../ocaml/interp/model.ml" base_anchor
  call_top create_top env_of mainnet_cfg mk_world mk_account find_acct get_state create_address hashZ
  ctbl_of interp loop step.
