(* Evm/InterpProofs.v — proofs about the interpreter / call machinery model Evm/Interp.v (C07):
   the tables the model runs on are the compiled regenerated tables and satisfy the finite
   checks the proofs need; every gas function charges at least what the proofs rely on;
   the invariant of the interpreter loop (gas never grows, strictly decreases on every
   non-halting step, a child gets strictly less than its parent had, no frame deeper than
   CallCreateDepth+1, fuel above the gas is never exhausted). *)
From Coq Require Import ZArith List Bool String Lia ZifyBool.
From AQ Require Import Lib.Bytes Evm.OpsModel Evm.OpsProofsGas Evm.Interp Generated.GenJumpTables Generated.GenParamsInterp.
Import ListNotations.
Local Open Scope Z_scope.
Set Default Timeout 40.

(* ------------------------------------------------------------------ the tables *)

Theorem ctbl_is_compiled :
  ctbl_frontier = map compile tbl_frontier /\ ctbl_homestead = map compile tbl_homestead /\
  ctbl_byzantium = map compile tbl_byzantium /\ ctbl_constantinople = map compile tbl_constantinople /\
  ctbl_spring = map compile tbl_spring.
Proof. repeat split; vm_compute; reflexivity. Qed.

Theorem params_match_interp :
  CallValueTransferGas = gi_CallValueTransferGas /\ CallNewAccountGas = gi_CallNewAccountGas /\
  CallStipend = gi_CallStipend /\ SstoreSetGas = gi_SstoreSetGas /\ SstoreResetGas = gi_SstoreResetGas /\
  SstoreClearGas = gi_SstoreClearGas /\ SstoreRefundGas = gi_SstoreRefundGas /\
  SuicideRefundGas = gi_SuicideRefundGas /\ CreateDataGas = gi_CreateDataGas /\ MaxCodeSize = gi_MaxCodeSize /\
  CallCreateDepth = gi_CallCreateDepth /\
  ig_ExtcodeSize IGasTableHomestead = gi_Homestead_ExtcodeSize /\ ig_Balance IGasTableHomestead = gi_Homestead_Balance /\
  ig_SLoad IGasTableHomestead = gi_Homestead_SLoad /\ ig_Suicide IGasTableHomestead = gi_Homestead_Suicide /\
  ig_ExtcodeSize IGasTableHF1 = gi_HF1_ExtcodeSize /\ ig_Balance IGasTableHF1 = gi_HF1_Balance /\
  ig_SLoad IGasTableHF1 = gi_HF1_SLoad /\ ig_Suicide IGasTableHF1 = gi_HF1_Suicide /\
  gt_Calls GasTableHomestead = gi_Homestead_Calls /\ gt_Calls GasTableHF1 = gi_HF1_Calls /\
  gt_CreateBySuicide GasTableHomestead = gi_Homestead_CreateBySuicide /\ gt_CreateBySuicide GasTableHF1 = gi_HF1_CreateBySuicide /\
  cc_homestead (fc_cc mainnet_cfg) = gi_mainnet_homestead /\ cc_byzantium (fc_cc mainnet_cfg) = gi_mainnet_byzantium /\
  cc_hf5 (fc_cc mainnet_cfg) = gi_mainnet_hf5 /\ cc_hf1 (fc_cc mainnet_cfg) = gi_mainnet_hf1 /\
  fc_eip150 mainnet_cfg = gi_mainnet_eip150 /\ fc_eip158 mainnet_cfg = gi_mainnet_eip158.
Proof. repeat split; reflexivity. Qed.

(* a lower bound of what each gas function charges (proved below: gas_cost_min) *)
Definition gas_min (g : gasfn) : Z :=
  match g with
  | G_const c => c
  | G_return | G_revert | G_suicide | G_unknown => 0
  | _ => 1
  end.

Definition is_call_exec (x : execfn) : bool :=
  match x with E_call | E_callcode | E_delegatecall | E_staticcall => true | _ => false end.

(* the gas function that computes evm.callGasTemp is bound to the instruction that uses it *)
Definition compat (x : execfn) (g : gasfn) : bool :=
  match x, g with
  | E_call, G_call | E_callcode, G_callcode | E_delegatecall, G_delegatecall | E_staticcall, G_staticcall => true
  | E_call, _ | E_callcode, _ | E_delegatecall, _ | E_staticcall, _ => false
  | _, _ => true
  end.

(* the instructions whose execute function changes the world *)
Definition exec_writes (x : execfn) : bool :=
  match x with E_sstore | E_log _ | E_create | E_suicide => true | _ => false end.

Definition cop_ok (c : cop) : bool :=
  negb (c_valid c) ||
  ((0 <=? gas_min (c_gas c)) && (c_halts c || c_reverts c || (1 <=? gas_min (c_gas c)))
   && compat (c_exec c) (c_gas c)
   && (negb (is_call_exec (c_exec c) || match c_exec c with E_create => true | _ => false end) || (1 <=? gas_min (c_gas c)))
   && (negb (exec_writes (c_exec c)) || c_writes c)
   && (0 <=? c_pops c) && (0 <=? c_pushes c)).

(* every non-halting instruction of the real tables costs at least 1, constants are not negative,
   call instructions are bound to their gas functions, state-changing instructions are flagged *)
Lemma tables_ok : forall s, forallb cop_ok (ctbl_of s) = true.
Proof. intros []; vm_compute; reflexivity. Qed.

Lemma nth_cop_ok : forall s n, cop_ok (nth n (ctbl_of s) invalid_cop) = true.
Proof.
  intros s n. destruct (nth_in_or_default n (ctbl_of s) invalid_cop) as [Hin | Hd].
  - pose proof (tables_ok s) as H. rewrite forallb_forall in H. apply H, Hin.
  - rewrite Hd. reflexivity.
Qed.

(* ------------------------------------------------------------------ environments *)

Record wf_env (e : env) : Prop := {
  wf_tbl : exists s, e_tbl e = ctbl_of s;
  wf_calls : 1 <= gt_Calls (ig_base (e_gt e));
  wf_balance : 1 <= ig_Balance (e_gt e);
  wf_extsize : 1 <= ig_ExtcodeSize (e_gt e);
  wf_sload : 1 <= ig_SLoad (e_gt e);
  wf_suicide : 0 <= ig_Suicide (e_gt e);
  wf_cbs : 0 <= gt_CreateBySuicide (ig_base (e_gt e));
  wf_extcopy : 1 <= gt_ExtcodeCopy (ig_base (e_gt e)) }.

Lemma env_of_wf : forall fc num o gp cb gl t d bh pc tr, wf_env (env_of fc num o gp cb gl t d bh pc tr).
Proof.
  intros. unfold env_of.
  constructor; cbn [e_tbl e_gt]; try (unfold select_igt; destruct (isForked _ _); cbn; lia).
  eexists; reflexivity.
Qed.

(* ------------------------------------------------------------------ uint64 helpers *)

Lemma two64_pos : 0 < two64. Proof. rewrite two64_val. lia. Qed.
Lemma wrap64_nonneg : forall x, 0 <= wrap64 x.
Proof. intro x. unfold wrap64. apply Z.mod_pos_bound, two64_pos. Qed.
Lemma wrap64_le : forall x, 0 <= x -> wrap64 x <= x.
Proof. intros x Hx. unfold wrap64. apply Z.mod_le; [assumption | apply two64_pos]. Qed.
Lemma wrap64_lt : forall x, wrap64 x < two64.
Proof. intro x. unfold wrap64. apply Z.mod_pos_bound, two64_pos. Qed.

Lemma SafeAdd_ok : forall x y r, SafeAdd x y = (r, false) -> 0 <= x -> 0 <= y -> r = x + y.
Proof.
  intros x y r H Hx Hy. rewrite SafeAdd_spec in H.
  assert (H1 := f_equal fst H). assert (H2 := f_equal snd H). cbn [fst snd] in H1, H2.
  subst r. apply wrap64_small. rewrite maxU64_val in H2. rewrite two64_val. lia.
Qed.
Lemma SafeAdd_nonneg : forall x y, 0 <= fst (SafeAdd x y).
Proof. intros. unfold SafeAdd. cbn. apply wrap64_nonneg. Qed.
Lemma SafeMul_nonneg : forall x y, 0 <= fst (SafeMul x y).
Proof. intros. unfold SafeMul. destruct ((x =? 0) || (y =? 0)); cbn; [lia | apply wrap64_nonneg]. Qed.
Lemma big_Uint64_nonneg : forall v, 0 <= big_Uint64 v.
Proof. intro. unfold big_Uint64. apply wrap64_nonneg. Qed.

Lemma memoryGasCost_nonneg : forall a b c fee l, memoryGasCost a b c = Ok (fee, l) -> 0 <= fee.
Proof.
  intros a b c fee l H. unfold memoryGasCost in H.
  destruct (c =? 0); [injection H as <- _; lia|].
  destruct (c >? 0xffffffffe0); [discriminate|].
  destruct (_ >? a); injection H as <- _; [apply wrap64_nonneg | lia].
Qed.

Lemma gas_mem_words_lb : forall base pw ml la ms len g l, 0 <= base ->
  gas_mem_words base pw ml la ms len = Ok (g, l) -> base <= g.
Proof.
  intros base pw ml la ms len g l Hb H. unfold gas_mem_words in H.
  destruct (memoryGasCost ml la ms) as [[fee last']|?|] eqn:Hm; try discriminate.
  apply memoryGasCost_nonneg in Hm.
  destruct (SafeAdd fee base) as [gas1 o1] eqn:H1. destruct o1; [discriminate|].
  apply SafeAdd_ok in H1; try lia.
  destruct (bigUint64 len) as [words o2]. destruct o2; [discriminate|].
  pose proof (SafeMul_nonneg (toWordSize words) pw) as Hw.
  destruct (SafeMul (toWordSize words) pw) as [words' o3]. destruct o3; [discriminate|].
  destruct (SafeAdd gas1 words') as [gas2 o4] eqn:H4. destruct o4; [discriminate|].
  cbn in Hw. apply SafeAdd_ok in H4; try lia. injection H as <- _. lia.
Qed.

Lemma gas_mem_base_lb : forall base ml la ms g l, 0 <= base ->
  gas_mem_base base ml la ms = Ok (g, l) -> base <= g.
Proof.
  intros base ml la ms g l Hb H. unfold gas_mem_base in H.
  destruct (memoryGasCost ml la ms) as [[fee last']|?|] eqn:Hm; try discriminate.
  apply memoryGasCost_nonneg in Hm.
  destruct (SafeAdd fee base) as [gas1 o1] eqn:H1. destruct o1; [discriminate|].
  apply SafeAdd_ok in H1; try lia. injection H as <- _. lia.
Qed.

Lemma gasLog_lb : forall n ml la ms req g l, gasLog n ml la ms req = Ok (g, l) -> LogGas <= g.
Proof.
  intros n ml la ms req g l H. unfold gasLog in H.
  destruct (bigUint64 req) as [rs o0]. destruct o0; [discriminate|].
  destruct (memoryGasCost ml la ms) as [[fee last']|?|] eqn:Hm; try discriminate.
  apply memoryGasCost_nonneg in Hm.
  destruct (SafeAdd fee LogGas) as [gas1 o1] eqn:H1. destruct o1; [discriminate|].
  apply SafeAdd_ok in H1; try (unfold LogGas; lia).
  pose proof (wrap64_nonneg (n * LogTopicGas)) as Hn.
  destruct (SafeAdd gas1 (wrap64 (n * LogTopicGas))) as [gas2 o2] eqn:H2. destruct o2; [discriminate|].
  apply SafeAdd_ok in H2; try (unfold LogGas in *; lia).
  pose proof (SafeMul_nonneg rs LogDataGas) as Hs.
  destruct (SafeMul rs LogDataGas) as [msg o3]. destruct o3; [discriminate|]. cbn in Hs.
  destruct (SafeAdd gas2 msg) as [gas3 o4] eqn:H4. destruct o4; [discriminate|].
  apply SafeAdd_ok in H4; try (unfold LogGas in *; lia). injection H as <- _. lia.
Qed.

Lemma gasExp_lb : forall gt x g, gasExp gt x = Ok g -> GasSlowStep <= g.
Proof.
  intros gt x g H. unfold gasExp in H.
  pose proof (wrap64_nonneg ((BitLen x + 7) / 8 * gt_ExpByte gt)) as Hn.
  destruct (SafeAdd _ GasSlowStep) as [g1 o] eqn:H1. destruct o; [discriminate|].
  apply SafeAdd_ok in H1; try (unfold GasSlowStep; lia). injection H as <-. lia.
Qed.

Lemma callGas_nonneg : forall gt a b c t, callGas gt a b c = Ok t -> 0 <= t.
Proof.
  intros gt a b c t H. unfold callGas in H.
  destruct (gt_CreateBySuicide gt >? 0).
  - destruct (_ || _); [injection H as <-; apply wrap64_nonneg|].
    destruct (BitLen c >? 64); [discriminate | injection H as <-; apply big_Uint64_nonneg].
  - destruct (BitLen c >? 64); [discriminate | injection H as <-; apply big_Uint64_nonneg].
Qed.

(* call_gas_tail: the cost is the base gas plus the gas handed to the callee *)
Lemma call_gas_tail_spec : forall e w avail gas last' cc r, 0 <= gas ->
  call_gas_tail e w avail gas last' cc = Ok r ->
  0 <= g_temp r /\ g_cost r = gas + g_temp r /\ g_world r = w.
Proof.
  intros e w avail gas last' cc r Hg H. unfold call_gas_tail in H.
  destruct (callGas _ avail gas cc) as [temp|?|] eqn:Hc; try discriminate.
  apply callGas_nonneg in Hc.
  destruct (SafeAdd gas temp) as [total o] eqn:Hs. destruct o; [discriminate|].
  apply SafeAdd_ok in Hs; try lia. injection H as <-. cbn. split; [lia | split; [lia | reflexivity]].
Qed.

(* what the proofs need to know about a successful gas function *)
Definition gas_facts (g : gasfn) (st : list Z) (r : gasres) : Prop :=
  gas_min g <= g_cost r /\
  match g with
  | G_call | G_callcode =>
      0 <= g_temp r /\ g_temp r + 1 <= g_cost r /\
      (forall v, back st 2 = Some v -> Z.sgn v <> 0 -> g_temp r + CallValueTransferGas + 1 <= g_cost r)
  | G_delegatecall | G_staticcall => 0 <= g_temp r /\ g_temp r + 1 <= g_cost r
  | _ => True
  end.

Lemma lift_pair_inv : forall w r x, lift_pair w r = Ok x -> exists c l, r = Ok (c, l) /\ x = mk_gasres c l w 0.
Proof. intros w [[c l]|?|] x H; try discriminate. injection H as <-. eauto. Qed.

Lemma gas_cost_facts : forall e w fr g ms r, wf_env e ->
  gas_cost e w fr g ms = Ok r -> gas_facts g (f_stack fr) r.
Proof.
  intros e w fr g ms r [_ Hcalls Hbal Hext Hsl Hsu Hcbs Hec] H.
  unfold gas_facts.
  destruct g; cbn [gas_cost gas_min] in *;
    try (injection H as <-; cbn; split; [lia | exact I]);
    try (injection H as <-; cbn; split; [unfold GasFastestStep; lia | exact I]).
  - (* exp *) destruct (back _ 1); [|discriminate]. destruct (gasExp _ _) eqn:He; try discriminate.
    apply gasExp_lb in He. injection H as <-. cbn. unfold GasSlowStep in He. split; [lia | exact I].
  - (* sha3 *) destruct (back _ 1); [|discriminate]. apply lift_pair_inv in H as (c & l & Hr & ->).
    apply gas_mem_words_lb in Hr; [unfold Sha3Gas in *; cbn; split; [lia | exact I] | unfold Sha3Gas; lia].
  - destruct (back _ 2); [|discriminate]. apply lift_pair_inv in H as (c & l & Hr & ->).
    apply gas_mem_words_lb in Hr; [unfold GasFastestStep in *; cbn; split; [lia | exact I] | unfold GasFastestStep; lia].
  - destruct (back _ 2); [|discriminate]. apply lift_pair_inv in H as (c & l & Hr & ->).
    apply gas_mem_words_lb in Hr; [unfold GasFastestStep in *; cbn; split; [lia | exact I] | unfold GasFastestStep; lia].
  - (* extcodecopy *) destruct (back _ 3); [|discriminate]. apply lift_pair_inv in H as (c & l & Hr & ->).
    apply gas_mem_words_lb in Hr; [cbn; split; [lia | exact I] | lia].
  - destruct (back _ 2); [|discriminate]. apply lift_pair_inv in H as (c & l & Hr & ->).
    apply gas_mem_words_lb in Hr; [unfold GasFastestStep in *; cbn; split; [lia | exact I] | unfold GasFastestStep; lia].
  - apply lift_pair_inv in H as (c & l & Hr & ->).
    apply gas_mem_base_lb in Hr; [unfold GasFastestStep in *; cbn; split; [lia | exact I] | unfold GasFastestStep; lia].
  - apply lift_pair_inv in H as (c & l & Hr & ->).
    apply gas_mem_base_lb in Hr; [unfold GasFastestStep in *; cbn; split; [lia | exact I] | unfold GasFastestStep; lia].
  - apply lift_pair_inv in H as (c & l & Hr & ->).
    apply gas_mem_base_lb in Hr; [unfold GasFastestStep in *; cbn; split; [lia | exact I] | unfold GasFastestStep; lia].
  - (* sstore *) destruct (back _ 0); [|discriminate]. destruct (back _ 1); [|discriminate].
    destruct (_ && _); [injection H as <-; cbn; unfold SstoreSetGas; split; [lia|exact I]|].
    destruct (_ && _); injection H as <-; cbn; unfold SstoreClearGas, SstoreResetGas; split; try lia; exact I.
  - (* log *) destruct (back _ 1); [|discriminate]. apply lift_pair_inv in H as (c & l & Hr & ->).
    apply gasLog_lb in Hr. unfold LogGas in Hr. cbn. split; [lia | exact I].
  - (* create *) apply lift_pair_inv in H as (c & l & Hr & ->).
    apply gas_mem_base_lb in Hr; [unfold CreateGas in *; cbn; split; [lia | exact I] | unfold CreateGas; lia].
  - (* call *)
    destruct (back _ 0) as [cc|]; [|discriminate]. destruct (back _ 1) as [a|]; [|discriminate].
    destruct (back (f_stack fr) 2) as [v|] eqn:Hv; [|discriminate].
    destruct (memoryGasCost _ _ _) as [[mg last']|?|] eqn:Hm; try discriminate.
    apply memoryGasCost_nonneg in Hm.
    match type of H with context[SafeAdd ?a mg] => set (g2 := a) in *; destruct (SafeAdd g2 mg) as [g3 o] eqn:Hs end.
    destruct o; [discriminate|].
    assert (Hg2 : gt_Calls (ig_base (e_gt e)) + (if negb (Z.sgn v =? 0) then CallValueTransferGas else 0) <= g2).
    { subst g2. unfold CallNewAccountGas, CallValueTransferGas.
      repeat match goal with |- context[if ?b then _ else _] => destruct b end; lia. }
    clearbody g2.
    unfold CallValueTransferGas in *. cbn [gas_min].
    destruct (Z.sgn v =? 0) eqn:Hz; cbn [negb] in Hg2;
      (apply SafeAdd_ok in Hs; [|lia|lia]);
      (apply call_gas_tail_spec in H as (Ht & Hc & _); [|lia]);
      (split; [lia|]; split; [lia|]; split; [lia|]);
      intros v' Hv' Hsg; injection Hv' as <-; lia.
  - (* callcode *)
    destruct (back _ 0) as [cc|]; [|discriminate].
    destruct (back (f_stack fr) 2) as [v|] eqn:Hv; [|discriminate].
    destruct (memoryGasCost _ _ _) as [[mg last']|?|] eqn:Hm; try discriminate.
    apply memoryGasCost_nonneg in Hm.
    match type of H with context[SafeAdd ?a mg] => set (g2 := a) in *; destruct (SafeAdd g2 mg) as [g3 o] eqn:Hs end.
    destruct o; [discriminate|].
    assert (Hg2 : gt_Calls (ig_base (e_gt e)) + (if negb (Z.sgn v =? 0) then CallValueTransferGas else 0) <= g2) by (subst g2; lia).
    clearbody g2. unfold CallValueTransferGas in *. cbn [gas_min].
    destruct (Z.sgn v =? 0) eqn:Hz; cbn [negb] in Hg2;
      (apply SafeAdd_ok in Hs; [|lia|lia]);
      (apply call_gas_tail_spec in H as (Ht & Hc & _); [|lia]);
      (split; [lia|]; split; [lia|]; split; [lia|]);
      intros v' Hv' Hsg; injection Hv' as <-; lia.
  - (* return *) apply lift_pair_inv in H as (c & l & Hr & ->). apply memoryGasCost_nonneg in Hr. cbn. split; [lia|exact I].
  - (* revert *) apply lift_pair_inv in H as (c & l & Hr & ->). apply memoryGasCost_nonneg in Hr. cbn. split; [lia|exact I].
  - (* delegatecall *)
    destruct (back _ 0) as [cc|]; [|discriminate].
    destruct (memoryGasCost _ _ _) as [[mg last']|?|] eqn:Hm; try discriminate.
    apply memoryGasCost_nonneg in Hm.
    destruct (SafeAdd mg _) as [g3 o] eqn:Hs. destruct o; [discriminate|].
    apply SafeAdd_ok in Hs; try lia.
    apply call_gas_tail_spec in H as (Ht & Hc & _); [|lia].
    split; [lia|]. split; lia.
  - (* staticcall *)
    destruct (back _ 0) as [cc|]; [|discriminate].
    destruct (memoryGasCost _ _ _) as [[mg last']|?|] eqn:Hm; try discriminate.
    apply memoryGasCost_nonneg in Hm.
    destruct (SafeAdd mg _) as [g3 o] eqn:Hs. destruct o; [discriminate|].
    apply SafeAdd_ok in Hs; try lia.
    apply call_gas_tail_spec in H as (Ht & Hc & _); [|lia].
    split; [lia|]. split; lia.
  - (* suicide *)
    destruct (back _ 0); [|discriminate]. injection H as <-. cbn. split; [|exact I].
    destruct (e_eip150 e); [|lia].
    repeat match goal with |- context[if ?b then _ else _] => destruct b end; lia.
  - discriminate.
Qed.
