(* Evm/OpsProofsArith.v — the code-shaped model of the computational EVM
   instructions (OpsModel.v) agrees with the Yellow-Paper specification
   (OpsSpec.v) on machine words. *)
From Coq Require Import ZArith List Bool Lia Zpow_facts ZifyBool.
From AQ Require Import Evm.OpsModel Evm.OpsSpec.
Import ListNotations.
Local Open Scope Z_scope.

(* ------------------------------------------------------------ constants *)

Lemma W_tt256 : W = tt256.
Proof. reflexivity. Qed.

Lemma W_2_255 : W = 2 * tt255.
Proof. unfold W, tt255. change 256 with (1 + 255). rewrite Z.pow_add_r by lia. reflexivity. Qed.

Lemma tt255_pos : 0 < tt255.
Proof. unfold tt255. apply Z.pow_pos_nonneg; lia. Qed.

Lemma W_pos : 0 < W.
Proof. pose proof W_2_255. pose proof tt255_pos. lia. Qed.

Lemma W_pow : W = 2 ^ 256.
Proof. reflexivity. Qed.

Lemma U256_mod x : U256 x = x mod W.
Proof.
  unfold U256, tt256m1. rewrite W_pow.
  replace (tt256 - 1) with (Z.ones 256).
  - apply Z.land_ones. lia.
  - rewrite Z.ones_equiv. reflexivity.
Qed.

Lemma U256_word x : word (U256 x).
Proof. rewrite U256_mod. unfold word. apply Z.mod_pos_bound. apply W_pos. Qed.

Lemma U256_small x : word x -> U256 x = x.
Proof. intros. rewrite U256_mod. apply Z.mod_small. exact H. Qed.

Lemma signed_S256 x : signed x = S256 x.
Proof. reflexivity. Qed.

Lemma S256_cases x : word x ->
  (x < tt255 /\ S256 x = x) \/ (tt255 <= x /\ S256 x = x - W).
Proof.
  intros. unfold S256. rewrite <- W_tt256.
  destruct (Z.ltb_spec x tt255); [left|right]; split; auto.
Qed.

Lemma S256_range x : word x -> - tt255 <= S256 x < tt255.
Proof.
  intros H. pose proof W_2_255. unfold word in H.
  destruct (S256_cases x H) as [[? ->]|[? ->]]; lia.
Qed.

Lemma S256_idem x : word x -> S256 (S256 x) = S256 x.
Proof.
  intros H. pose proof (S256_range x H). unfold S256 at 1.
  destruct (Z.ltb_spec (S256 x) tt255); lia.
Qed.

Lemma S256_zero x : word x -> (S256 x = 0 <-> x = 0).
Proof.
  intros H. pose proof W_2_255. pose proof tt255_pos. unfold word in H.
  destruct (S256_cases x H) as [[? ->]|[? ->]]; lia.
Qed.

(* ------------------------------------------------------------ narrowing *)

Lemma two64_eq : two64 = 18446744073709551616.
Proof. reflexivity. Qed.

Lemma pow63_eq : 2 ^ 63 = 9223372036854775808.
Proof. reflexivity. Qed.

Lemma wrap64_small x : 0 <= x < two64 -> wrap64 x = x.
Proof. intros. unfold wrap64. apply Z.mod_small. assumption. Qed.

Lemma big_Uint64_small x : 0 <= x < two64 -> big_Uint64 x = x.
Proof. intros. unfold big_Uint64. rewrite Z.abs_eq by lia. apply wrap64_small. assumption. Qed.

Lemma big_Int64_small x : 0 <= x < 2 ^ 63 -> big_Int64 x = x.
Proof.
  intros H. pose proof two64_eq. pose proof pow63_eq.
  unfold big_Int64. rewrite big_Uint64_small by lia. unfold to_int64.
  destruct (Z.ltb_spec x (2 ^ 63)); lia.
Qed.

(* ------------------------------------------------------------ easy ones *)

Theorem op_ADD_spec : forall a b, word a -> word b -> op_ADD a b = spec_ADD a b.
Proof. intros. unfold op_ADD, spec_ADD. apply U256_mod. Qed.

Theorem op_MUL_spec : forall a b, word a -> word b -> op_MUL a b = spec_MUL a b.
Proof. intros. unfold op_MUL, spec_MUL. apply U256_mod. Qed.

Theorem op_SUB_spec : forall a b, word a -> word b -> op_SUB a b = spec_SUB a b.
Proof. intros. unfold op_SUB, spec_SUB. apply U256_mod. Qed.

Lemma div_word a b : word a -> 0 < b -> word (a / b).
Proof.
  unfold word. intros Ha Hb. split.
  - apply Z.div_pos; lia.
  - apply Z.le_lt_trans with a; [|lia].
    apply Z.div_le_upper_bound; [lia|]. nia.
Qed.

Theorem op_DIV_spec : forall a b, word a -> word b -> op_DIV a b = spec_DIV a b.
Proof.
  intros a b Ha Hb. unfold op_DIV, spec_DIV, big_Div.
  destruct (Z.eqb_spec b 0) as [->|Hn].
  - reflexivity.
  - assert (0 < b) by (unfold word in Hb; lia).
    rewrite (Z.sgn_pos b) by lia. rewrite (Z.abs_eq b) by lia.
    change (negb (1 =? 0)) with true. cbv iota.
    rewrite Z.mul_1_l. apply U256_small. apply div_word; auto.
Qed.

Lemma mod_word a b : 0 < b -> b < W -> word (a mod b).
Proof. intros. unfold word. pose proof (Z.mod_pos_bound a b). lia. Qed.

Theorem op_MOD_spec : forall a b, word a -> word b -> op_MOD a b = spec_MOD a b.
Proof.
  intros a b Ha Hb. unfold op_MOD, spec_MOD, big_Mod.
  destruct (Z.eqb_spec b 0) as [->|Hn].
  - reflexivity.
  - assert (0 < b) by (unfold word in Hb; lia).
    rewrite (Z.sgn_pos b) by lia. rewrite (Z.abs_eq b) by lia.
    change (1 =? 0) with false. cbv iota.
    apply U256_small. apply mod_word; unfold word in Hb; lia.
Qed.

Theorem op_ADDMOD_spec : forall a b n, word a -> word b -> word n -> op_ADDMOD a b n = spec_ADDMOD a b n.
Proof.
  intros a b n Ha Hb Hn. unfold op_ADDMOD, spec_ADDMOD, big_Mod.
  unfold word in Hn.
  destruct (Z.eqb_spec n 0) as [->|Hz].
  - reflexivity.
  - destruct (Z.gtb_spec n 0); [|lia].
    rewrite (Z.abs_eq n) by lia. apply U256_small. apply mod_word; lia.
Qed.

Theorem op_MULMOD_spec : forall a b n, word a -> word b -> word n -> op_MULMOD a b n = spec_MULMOD a b n.
Proof.
  intros a b n Ha Hb Hn. unfold op_MULMOD, spec_MULMOD, big_Mod.
  unfold word in Hn.
  destruct (Z.eqb_spec n 0) as [->|Hz].
  - reflexivity.
  - destruct (Z.gtb_spec n 0); [|lia].
    rewrite (Z.abs_eq n) by lia. apply U256_small. apply mod_word; lia.
Qed.

Theorem op_LT_spec : forall a b, word a -> word b -> op_LT a b = spec_LT a b.
Proof. reflexivity. Qed.

Theorem op_GT_spec : forall a b, word a -> word b -> op_GT a b = spec_GT a b.
Proof.
  intros. unfold op_GT, spec_GT, b2w. rewrite Z.gtb_ltb. reflexivity.
Qed.

Theorem op_SLT_spec : forall a b, word a -> word b -> op_SLT a b = spec_SLT a b.
Proof.
  intros. unfold op_SLT, spec_SLT, b2w. change signed with S256.
  rewrite S256_idem by assumption. reflexivity.
Qed.

Theorem op_SGT_spec : forall a b, word a -> word b -> op_SGT a b = spec_SGT a b.
Proof.
  intros. unfold op_SGT, spec_SGT, b2w. change signed with S256.
  rewrite Z.gtb_ltb. reflexivity.
Qed.

Theorem op_EQ_spec : forall a b, word a -> word b -> op_EQ a b = spec_EQ a b.
Proof. reflexivity. Qed.

Theorem op_ISZERO_spec : forall a, word a -> op_ISZERO a = spec_ISZERO a.
Proof.
  intros a Ha. unfold op_ISZERO, spec_ISZERO, b2w. unfold word in Ha.
  destruct (Z.eqb_spec a 0) as [->|Hn].
  - reflexivity.
  - rewrite Z.sgn_pos by lia. reflexivity.
Qed.

Theorem op_AND_spec : forall a b, word a -> word b -> op_AND a b = spec_AND a b.
Proof. reflexivity. Qed.
Theorem op_OR_spec : forall a b, word a -> word b -> op_OR a b = spec_OR a b.
Proof. reflexivity. Qed.
Theorem op_XOR_spec : forall a b, word a -> word b -> op_XOR a b = spec_XOR a b.
Proof. reflexivity. Qed.

Theorem op_NOT_spec : forall a, word a -> op_NOT a = spec_NOT a.
Proof.
  intros a Ha. unfold op_NOT, spec_NOT. rewrite U256_mod. unfold Z.lnot.
  symmetry. apply Z.mod_unique_pos with (q := -1); unfold word in Ha; lia.
Qed.

(* ------------------------------------------------------------ BYTE, shifts *)

Lemma land_255 y : Z.land y 255 = y mod 256.
Proof. change 255 with (Z.ones 8). rewrite Z.land_ones by lia. reflexivity. Qed.

Theorem op_BYTE_spec : forall a b, word a -> word b -> op_BYTE a b = spec_BYTE a b.
Proof.
  intros i x Hi Hx. unfold op_BYTE, spec_BYTE, math_Byte. unfold word in Hi.
  destruct (Z.ltb_spec i 32); [|reflexivity].
  rewrite big_Int64_small by (pose proof pow63_eq; lia).
  destruct (Z.geb_spec i 32); [lia|].
  rewrite land_255. rewrite Z.shiftr_div_pow2 by lia.
  replace (32 - 1 - i) with (31 - i) by lia. reflexivity.
Qed.

Theorem op_SHL_spec : forall a b, word a -> word b -> op_SHL a b = spec_SHL a b.
Proof.
  intros s v Hs Hv. unfold op_SHL, spec_SHL.
  rewrite (U256_small s), (U256_small v) by assumption. unfold word in Hs.
  destruct (Z.ltb_spec s 256); destruct (Z.geb_spec s 256); try lia.
  rewrite big_Uint64_small by (pose proof two64_eq; lia).
  rewrite U256_mod. rewrite Z.shiftl_mul_pow2 by lia. reflexivity.
Qed.

Lemma pow2_pos n : 0 <= n -> 0 < 2 ^ n.
Proof. intros. apply Z.pow_pos_nonneg; lia. Qed.

Theorem op_SHR_spec : forall a b, word a -> word b -> op_SHR a b = spec_SHR a b.
Proof.
  intros s v Hs Hv. unfold op_SHR, spec_SHR.
  rewrite (U256_small s), (U256_small v) by assumption. unfold word in Hs.
  destruct (Z.ltb_spec s 256); destruct (Z.geb_spec s 256); try lia.
  rewrite big_Uint64_small by (pose proof two64_eq; lia).
  rewrite Z.shiftr_div_pow2 by lia. apply U256_small.
  apply div_word; [assumption|]. apply pow2_pos; lia.
Qed.

Theorem op_SAR_spec_partial : forall s v, word s -> word v -> (s < 256 \/ v <> 0) -> op_SAR s v = spec_SAR s v.
Proof.
  intros s v Hs Hv Hc. unfold op_SAR, spec_SAR. change signed with S256.
  rewrite (U256_small s) by assumption. unfold word in Hs.
  destruct (Z.ltb_spec s 256); destruct (Z.geb_spec s 256); try lia.
  - rewrite big_Uint64_small by (pose proof two64_eq; lia).
    rewrite U256_mod. rewrite Z.shiftr_div_pow2 by lia. reflexivity.
  - assert (Hv0 : v <> 0) by lia.
    pose proof (S256_zero v Hv) as Hz.
    destruct (Z.ltb_spec (S256 v) 0).
    + rewrite Z.sgn_neg by lia. change (-1 >? 0) with false. cbv iota.
      rewrite U256_mod. symmetry. pose proof W_pos.
      apply Z.mod_unique_pos with (q := -1); lia.
    + rewrite Z.sgn_pos by lia. reflexivity.
Qed.

Theorem op_SAR_refuted : exists s v, word s /\ word v /\ op_SAR s v <> spec_SAR s v.
Proof.
  exists 256, 0. split; [|split].
  - unfold word. split; [lia|]. rewrite W_pow. reflexivity.
  - unfold word. pose proof W_pos. lia.
  - vm_compute. discriminate.
Qed.

(* ------------------------------------------------------------ SDIV, SMOD *)

Theorem op_SDIV_spec : forall a b, word a -> word b -> op_SDIV a b = spec_SDIV a b.
Proof.
  intros a b Ha Hb. unfold op_SDIV, spec_SDIV, big_Div, unsigned. change signed with S256.
  pose proof (S256_zero b Hb) as Hz.
  set (x := S256 a) in *. set (y := S256 b) in *.
  destruct (Z.eqb_spec b 0) as [Hb0|Hb0].
  - assert (y = 0) as -> by tauto. reflexivity.
  - assert (Hy : y <> 0) by tauto.
    destruct (Z.eqb_spec (Z.sgn y) 0) as [E|E].
    { apply -> Z.sgn_null_iff in E. exfalso; apply Hy; exact E. }
    rewrite U256_mod. f_equal.
    rewrite (Z.quot_div x y Hy). rewrite Z.sgn_mul.
    rewrite Z.abs_involutive.
    rewrite (Z.sgn_pos (Z.abs y)) by lia. rewrite Z.mul_1_l.
    assert (Hq : x = 0 -> Z.abs x / Z.abs y = 0).
    { intros ->. apply Z.div_0_l. lia. }
    revert Hq. generalize (Z.abs x / Z.abs y). intros q Hq.
    destruct (Z.sgn_spec x) as [[Hx ->]|[[Hx ->]|[Hx ->]]];
    destruct (Z.sgn_spec y) as [[Hy' ->]|[[Hy' ->]|[Hy' ->]]]; try lia;
    match goal with |- context [if ?c <? 0 then _ else _] => destruct (Z.ltb_spec c 0) end; lia.
Qed.

Theorem op_SMOD_spec : forall a b, word a -> word b -> op_SMOD a b = spec_SMOD a b.
Proof.
  intros a b Ha Hb. unfold op_SMOD, spec_SMOD, big_Mod, unsigned. change signed with S256.
  pose proof (S256_zero b Hb) as Hz.
  set (x := S256 a) in *. set (y := S256 b) in *.
  destruct (Z.eqb_spec b 0) as [Hb0|Hb0].
  - assert (y = 0) as -> by tauto. reflexivity.
  - assert (Hy : y <> 0) by tauto.
    destruct (Z.eqb_spec (Z.sgn y) 0) as [E|E].
    { apply -> Z.sgn_null_iff in E. exfalso; apply Hy; exact E. }
    rewrite U256_mod. f_equal.
    rewrite (Z.rem_mod x y Hy). rewrite Z.abs_involutive.
    assert (Hq : x = 0 -> Z.abs x mod Z.abs y = 0).
    { intros ->. apply Z.mod_0_l. lia. }
    revert Hq. generalize (Z.abs x mod Z.abs y). intros q Hq.
    destruct (Z.sgn_spec x) as [[Hx ->]|[[Hx ->]|[Hx ->]]];
    match goal with |- context [if ?c <? 0 then _ else _] => destruct (Z.ltb_spec c 0) end; lia.
Qed.

(* ------------------------------------------------------------ EXP *)

Lemma exp_loop_spec : forall p base result,
  exp_loop p base result = (result * base ^ Zpos p) mod W.
Proof.
  pose proof W_pos as HW.
  induction p as [p IH|p IH|]; intros base result; cbn [exp_loop].
  - rewrite IH. rewrite !U256_mod.
    rewrite Pos2Z.inj_xI. rewrite Z.pow_add_r by lia. rewrite Z.pow_1_r.
    rewrite Z.pow_mul_r by lia. rewrite Z.pow_2_r.
    rewrite Z.mul_mod by lia. rewrite <- (Zpower_mod (base * base)) by lia.
    rewrite Z.mod_mod by lia. rewrite <- Z.mul_mod by lia.
    f_equal. ring.
  - rewrite IH. rewrite !U256_mod.
    rewrite Pos2Z.inj_xO. rewrite Z.pow_mul_r by lia. rewrite Z.pow_2_r.
    rewrite (Z.mul_mod result (_ ^ _)) by lia. rewrite <- (Zpower_mod (base * base)) by lia.
    rewrite <- Z.mul_mod by lia. reflexivity.
  - rewrite U256_mod. rewrite Z.pow_1_r. reflexivity.
Qed.

Theorem op_EXP_spec : forall a e, word a -> word e -> op_EXP a e = spec_EXP a e.
Proof.
  intros a e Ha He. unfold op_EXP, math_Exp, spec_EXP. unfold word in He.
  destruct e as [|p|p].
  - rewrite Z.pow_0_r. symmetry. apply Z.mod_small. pose proof W_2_255. pose proof tt255_pos. lia.
  - rewrite exp_loop_spec. rewrite Z.mul_1_l. reflexivity.
  - lia.
Qed.

Theorem spec_EXP_exec_ok : forall a e, word a -> word e -> spec_EXP_exec a e = spec_EXP a e.
Proof.
  intros. unfold spec_EXP_exec, spec_EXP. apply Zpow_mod_correct.
  pose proof W_pos. lia.
Qed.

(* ------------------------------------------------------------ SIGNEXTEND *)

Lemma mask_ones n : 0 <= n -> Z.shiftl 1 n - 1 = Z.ones n.
Proof.
  intros. rewrite Z.shiftl_mul_pow2 by lia. rewrite Z.ones_equiv. lia.
Qed.

Lemma mod_pow2_succ x n : 0 <= n ->
  x mod 2 ^ (n + 1) = x mod 2 ^ n + 2 ^ n * Z.b2z (Z.testbit x n).
Proof.
  intros Hn. rewrite Z.pow_add_r by lia. rewrite Z.pow_1_r.
  pose proof (pow2_pos n Hn).
  rewrite Z.rem_mul_r by lia. rewrite Z.testbit_spec' by lia. reflexivity.
Qed.

Lemma lor_lnot_ones x n : 0 <= n ->
  Z.lor x (Z.lnot (Z.ones n)) = x mod 2 ^ n - 2 ^ n.
Proof.
  intros Hn.
  assert (E : Z.lor x (Z.lnot (Z.ones n)) = Z.lnot (Z.land (Z.lnot x) (Z.ones n))).
  { apply Z.bits_inj'. intros m Hm.
    rewrite Z.lor_spec, !Z.lnot_spec, Z.land_spec, Z.lnot_spec by lia.
    destruct (Z.testbit x m), (Z.testbit (Z.ones n) m); reflexivity. }
  rewrite E. rewrite Z.land_ones by lia. unfold Z.lnot.
  pose proof (pow2_pos n Hn).
  assert (E2 : Z.pred (- x) mod 2 ^ n = 2 ^ n - 1 - x mod 2 ^ n).
  { symmetry. apply Z.mod_unique_pos with (q := - (x / 2 ^ n) - 1).
    - pose proof (Z.mod_pos_bound x (2 ^ n)). lia.
    - pose proof (Z.div_mod x (2 ^ n)). nia. }
  rewrite E2. lia.
Qed.

Theorem op_SIGNEXTEND_spec : forall b x, word b -> word x -> op_SIGNEXTEND b x = spec_SIGNEXTEND b x.
Proof.
  intros b x Hb Hx. unfold op_SIGNEXTEND, spec_SIGNEXTEND, sext, unsigned.
  unfold word in Hb.
  destruct (Z.ltb_spec b 31) as [Hlt|Hge]; [|reflexivity].
  rewrite (big_Uint64_small b) by (pose proof two64_eq; lia).
  rewrite (wrap64_small (b * 8 + 7)) by (pose proof two64_eq; lia).
  set (bit := b * 8 + 7).
  assert (Hbit : 0 <= bit <= 247) by (unfold bit; lia).
  replace (8 * (b + 1)) with (bit + 1) by (unfold bit; lia).
  replace (bit + 1 - 1) with bit by lia.
  rewrite mask_ones by lia.
  rewrite (mod_pow2_succ x bit) by lia.
  rewrite (Z.pow_add_r 2 bit 1) by lia. rewrite Z.pow_1_r.
  pose proof (pow2_pos bit ltac:(lia)) as Hp.
  pose proof (Z.mod_pos_bound x (2 ^ bit) Hp) as Hm.
  assert (HpW : 2 * 2 ^ bit <= W).
  { rewrite W_pow. rewrite <- (Z.pow_succ_r 2 bit) by lia.
    apply Z.pow_le_mono_r; lia. }
  destruct (Z.testbit x bit); cbn [Z.b2z].
  - rewrite lor_lnot_ones by lia. rewrite U256_mod.
    destruct (Z.ltb_spec (x mod 2 ^ bit + 2 ^ bit * 1) (2 ^ bit)); [lia|].
    f_equal. lia.
  - rewrite Z.land_ones by lia. rewrite U256_mod.
    destruct (Z.ltb_spec (x mod 2 ^ bit + 2 ^ bit * 0) (2 ^ bit)); [|lia].
    f_equal. lia.
Qed.

(* ------------------------------------------------------------ results are words *)

Lemma word_0 : word 0.
Proof. unfold word. pose proof W_pos. lia. Qed.

Lemma word_1 : word 1.
Proof. unfold word. pose proof W_2_255. pose proof tt255_pos. lia. Qed.

Lemma word_b2w c : word (b2w c).
Proof. destruct c; [apply word_1|apply word_0]. Qed.

Lemma word_iff x : word x <-> Z.land x (Z.ones 256) = x.
Proof.
  rewrite Z.land_ones by lia. rewrite <- W_pow. unfold word. split; intros H.
  - apply Z.mod_small. exact H.
  - rewrite <- H. apply Z.mod_pos_bound. apply W_pos.
Qed.

Lemma land_word a b : word a -> word b -> word (Z.land a b).
Proof.
  rewrite !word_iff. intros Ha Hb. rewrite <- Z.land_assoc. rewrite Hb. reflexivity.
Qed.

Lemma lor_word a b : word a -> word b -> word (Z.lor a b).
Proof.
  rewrite !word_iff. intros Ha Hb. rewrite Z.land_lor_distr_l. rewrite Ha, Hb. reflexivity.
Qed.

Lemma lxor_word a b : word a -> word b -> word (Z.lxor a b).
Proof.
  rewrite !word_iff. intros Ha Hb. apply Z.bits_inj'. intros n Hn.
  rewrite Z.land_spec, Z.lxor_spec.
  assert (Ea : Z.testbit a n = Z.testbit a n && Z.testbit (Z.ones 256) n)
    by (rewrite <- Z.land_spec, Ha; reflexivity).
  assert (Eb : Z.testbit b n = Z.testbit b n && Z.testbit (Z.ones 256) n)
    by (rewrite <- Z.land_spec, Hb; reflexivity).
  rewrite Ea, Eb.
  destruct (Z.testbit a n), (Z.testbit b n), (Z.testbit (Z.ones 256) n); reflexivity.
Qed.

(* range lemmas about the specification *)
Lemma spec_ADD_word a b : word (spec_ADD a b).
Proof. unfold spec_ADD, word. apply Z.mod_pos_bound, W_pos. Qed.
Lemma spec_MUL_word a b : word (spec_MUL a b).
Proof. unfold spec_MUL, word. apply Z.mod_pos_bound, W_pos. Qed.
Lemma spec_SUB_word a b : word (spec_SUB a b).
Proof. unfold spec_SUB, word. apply Z.mod_pos_bound, W_pos. Qed.
Lemma spec_EXP_word a b : word (spec_EXP a b).
Proof. unfold spec_EXP, word. apply Z.mod_pos_bound, W_pos. Qed.
Lemma unsigned_word x : word (unsigned x).
Proof. unfold unsigned, word. apply Z.mod_pos_bound, W_pos. Qed.

Lemma spec_DIV_word a b : word a -> word b -> word (spec_DIV a b).
Proof.
  intros Ha Hb. unfold spec_DIV. destruct (Z.eqb_spec b 0); [apply word_0|].
  apply div_word; [assumption|]. unfold word in Hb. lia.
Qed.
Lemma spec_MOD_word a b : word a -> word b -> word (spec_MOD a b).
Proof.
  intros Ha Hb. unfold spec_MOD. destruct (Z.eqb_spec b 0); [apply word_0|].
  unfold word in Hb. apply mod_word; lia.
Qed.
Lemma spec_SDIV_word a b : word (spec_SDIV a b).
Proof. unfold spec_SDIV. destruct (b =? 0); [apply word_0|apply unsigned_word]. Qed.
Lemma spec_SMOD_word a b : word (spec_SMOD a b).
Proof. unfold spec_SMOD. destruct (b =? 0); [apply word_0|apply unsigned_word]. Qed.
Lemma spec_ADDMOD_word a b n : word n -> word (spec_ADDMOD a b n).
Proof.
  intros Hn. unfold spec_ADDMOD. destruct (Z.eqb_spec n 0); [apply word_0|].
  unfold word in Hn. apply mod_word; lia.
Qed.
Lemma spec_MULMOD_word a b n : word n -> word (spec_MULMOD a b n).
Proof.
  intros Hn. unfold spec_MULMOD. destruct (Z.eqb_spec n 0); [apply word_0|].
  unfold word in Hn. apply mod_word; lia.
Qed.
Lemma spec_SIGNEXTEND_word b x : word x -> word (spec_SIGNEXTEND b x).
Proof.
  intros Hx. unfold spec_SIGNEXTEND. destruct (b <? 31); [apply unsigned_word|assumption].
Qed.
Lemma spec_NOT_word a : word a -> word (spec_NOT a).
Proof. unfold spec_NOT, word. lia. Qed.
Lemma spec_BYTE_word i x : word (spec_BYTE i x).
Proof.
  unfold spec_BYTE. destruct (i <? 32); [|apply word_0].
  pose proof (Z.mod_pos_bound (x / 2 ^ (8 * (31 - i))) 256 ltac:(lia)).
  pose proof W_2_255. pose proof tt255_pos.
  assert (256 <= tt255).
  { unfold tt255. change 256 with (2 ^ 8). apply Z.pow_le_mono_r; lia. }
  unfold word. lia.
Qed.
Lemma spec_SHL_word s v : word (spec_SHL s v).
Proof.
  unfold spec_SHL. destruct (s <? 256); [|apply word_0].
  unfold word. apply Z.mod_pos_bound, W_pos.
Qed.
Lemma spec_SHR_word s v : word s -> word v -> word (spec_SHR s v).
Proof.
  intros Hs Hv. unfold spec_SHR. destruct (s <? 256); [|apply word_0].
  apply div_word; [assumption|]. apply pow2_pos. unfold word in Hs. lia.
Qed.

Theorem op_ADD_word : forall a b, word a -> word b -> word (op_ADD a b).
Proof. intros. rewrite op_ADD_spec by assumption. apply spec_ADD_word. Qed.
Theorem op_MUL_word : forall a b, word a -> word b -> word (op_MUL a b).
Proof. intros. rewrite op_MUL_spec by assumption. apply spec_MUL_word. Qed.
Theorem op_SUB_word : forall a b, word a -> word b -> word (op_SUB a b).
Proof. intros. rewrite op_SUB_spec by assumption. apply spec_SUB_word. Qed.
Theorem op_DIV_word : forall a b, word a -> word b -> word (op_DIV a b).
Proof. intros. rewrite op_DIV_spec by assumption. apply spec_DIV_word; assumption. Qed.
Theorem op_SDIV_word : forall a b, word a -> word b -> word (op_SDIV a b).
Proof. intros. rewrite op_SDIV_spec by assumption. apply spec_SDIV_word. Qed.
Theorem op_MOD_word : forall a b, word a -> word b -> word (op_MOD a b).
Proof. intros. rewrite op_MOD_spec by assumption. apply spec_MOD_word; assumption. Qed.
Theorem op_SMOD_word : forall a b, word a -> word b -> word (op_SMOD a b).
Proof. intros. rewrite op_SMOD_spec by assumption. apply spec_SMOD_word. Qed.
Theorem op_ADDMOD_word : forall a b n, word a -> word b -> word n -> word (op_ADDMOD a b n).
Proof. intros. rewrite op_ADDMOD_spec by assumption. apply spec_ADDMOD_word; assumption. Qed.
Theorem op_MULMOD_word : forall a b n, word a -> word b -> word n -> word (op_MULMOD a b n).
Proof. intros. rewrite op_MULMOD_spec by assumption. apply spec_MULMOD_word; assumption. Qed.
Theorem op_EXP_word : forall a e, word a -> word e -> word (op_EXP a e).
Proof. intros. rewrite op_EXP_spec by assumption. apply spec_EXP_word. Qed.
Theorem op_SIGNEXTEND_word : forall b x, word b -> word x -> word (op_SIGNEXTEND b x).
Proof. intros. rewrite op_SIGNEXTEND_spec by assumption. apply spec_SIGNEXTEND_word; assumption. Qed.
Theorem op_LT_word : forall a b, word a -> word b -> word (op_LT a b).
Proof. intros. rewrite op_LT_spec by assumption. apply word_b2w. Qed.
Theorem op_GT_word : forall a b, word a -> word b -> word (op_GT a b).
Proof. intros. rewrite op_GT_spec by assumption. apply word_b2w. Qed.
Theorem op_SLT_word : forall a b, word a -> word b -> word (op_SLT a b).
Proof. intros. rewrite op_SLT_spec by assumption. apply word_b2w. Qed.
Theorem op_SGT_word : forall a b, word a -> word b -> word (op_SGT a b).
Proof. intros. rewrite op_SGT_spec by assumption. apply word_b2w. Qed.
Theorem op_EQ_word : forall a b, word a -> word b -> word (op_EQ a b).
Proof. intros. rewrite op_EQ_spec by assumption. apply word_b2w. Qed.
Theorem op_ISZERO_word : forall a, word a -> word (op_ISZERO a).
Proof. intros. rewrite op_ISZERO_spec by assumption. apply word_b2w. Qed.
Theorem op_AND_word : forall a b, word a -> word b -> word (op_AND a b).
Proof. intros. apply land_word; assumption. Qed.
Theorem op_OR_word : forall a b, word a -> word b -> word (op_OR a b).
Proof. intros. apply lor_word; assumption. Qed.
Theorem op_XOR_word : forall a b, word a -> word b -> word (op_XOR a b).
Proof. intros. apply lxor_word; assumption. Qed.
Theorem op_NOT_word : forall a, word a -> word (op_NOT a).
Proof. intros. rewrite op_NOT_spec by assumption. apply spec_NOT_word; assumption. Qed.
Theorem op_BYTE_word : forall a b, word a -> word b -> word (op_BYTE a b).
Proof. intros. rewrite op_BYTE_spec by assumption. apply spec_BYTE_word. Qed.
Theorem op_SHL_word : forall a b, word a -> word b -> word (op_SHL a b).
Proof. intros. rewrite op_SHL_spec by assumption. apply spec_SHL_word. Qed.
Theorem op_SHR_word : forall a b, word a -> word b -> word (op_SHR a b).
Proof. intros. rewrite op_SHR_spec by assumption. apply spec_SHR_word; assumption. Qed.
(* SAR directly on the model (it is not equal to the specification everywhere) *)
Theorem op_SAR_word : forall s v, word s -> word v -> word (op_SAR s v).
Proof.
  intros. unfold op_SAR.
  destruct (U256 s >=? 256); [destruct (Z.sgn (S256 v) >? 0)|]; apply U256_word.
Qed.

(* ------------------------------------------------------------ stack level *)

Lemma op_EXP_exec : forall a e, word a -> word e -> op_EXP a e = spec_EXP_exec a e.
Proof. intros. rewrite spec_EXP_exec_ok by assumption. apply op_EXP_spec; assumption. Qed.

Lemma un_case (f g : Z -> Z) (st : list Z) :
  (forall a, word a -> f a = g a) -> Forall word st ->
  match (match st with a :: r => Some (g a :: r) | _ => None end) with
  | Some st' => (match st with a :: r => Ok (f a :: r) | _ => Panic end) = Ok st'
  | None => (match st with a :: r => Ok (f a :: r) | _ => Panic end) = Panic \/
            (match st with a :: r => Ok (f a :: r) | _ => @Panic (list Z) end) = Err ErrInvalidOpcode
  end.
Proof.
  intros E H. destruct st as [|a r]; [left; reflexivity|].
  inversion H; subst. rewrite E by assumption. reflexivity.
Qed.

Lemma bin_case (f g : Z -> Z -> Z) (st : list Z) :
  (forall a b, word a -> word b -> f a b = g a b) -> Forall word st ->
  match (match st with a :: b :: r => Some (g a b :: r) | _ => None end) with
  | Some st' => (match st with a :: b :: r => Ok (f a b :: r) | _ => Panic end) = Ok st'
  | None => (match st with a :: b :: r => Ok (f a b :: r) | _ => Panic end) = Panic \/
            (match st with a :: b :: r => Ok (f a b :: r) | _ => @Panic (list Z) end) = Err ErrInvalidOpcode
  end.
Proof.
  intros E H. destruct st as [|a [|b r]]; try (left; reflexivity).
  inversion H as [|? ? Ha H']; subst. inversion H' as [|? ? Hb H'']; subst.
  rewrite E by assumption. reflexivity.
Qed.

Lemma ter_case (f g : Z -> Z -> Z -> Z) (st : list Z) :
  (forall a b c, word a -> word b -> word c -> f a b c = g a b c) -> Forall word st ->
  match (match st with a :: b :: c :: r => Some (g a b c :: r) | _ => None end) with
  | Some st' => (match st with a :: b :: c :: r => Ok (f a b c :: r) | _ => Panic end) = Ok st'
  | None => (match st with a :: b :: c :: r => Ok (f a b c :: r) | _ => Panic end) = Panic \/
            (match st with a :: b :: c :: r => Ok (f a b c :: r) | _ => @Panic (list Z) end) = Err ErrInvalidOpcode
  end.
Proof.
  intros E H. destruct st as [|a [|b [|c r]]]; try (left; reflexivity).
  inversion H as [|? ? Ha H']; subst. inversion H' as [|? ? Hb H'']; subst.
  inversion H'' as [|? ? Hc H''']; subst.
  rewrite E by assumption. reflexivity.
Qed.

Lemma signextend_case (st : list Z) :
  Forall word st -> (2 <= length st)%nat ->
  match (match st with a :: b :: r => Some (spec_SIGNEXTEND a b :: r) | _ => None end) with
  | Some st' =>
      match st with
      | back :: r =>
          if back <? 31 then
            match r with num :: r' => Ok (op_SIGNEXTEND back num :: r') | [] => Panic end
          else Ok r
      | [] => Panic
      end = Ok st'
  | None => True
  end.
Proof.
  intros H L. destruct st as [|a [|b r]]; try exact I.
  inversion H as [|? ? Ha H']; subst. inversion H' as [|? ? Hb H'']; subst.
  destruct (a <? 31) eqn:E.
  - rewrite op_SIGNEXTEND_spec by assumption. reflexivity.
  - unfold spec_SIGNEXTEND. rewrite E. reflexivity.
Qed.

(* The statement without the length hypothesis on SIGNEXTEND is false: with the
   one-element stack [31] the code does not touch a second operand. *)
Lemma exec_arith_spec_unguarded_refuted :
  exists op st, Forall word st /\ op <> 0x1d /\ spec_arith op st = None /\
                exec_arith op st = Ok [].
Proof.
  exists 0x0b, [31]. repeat split.
  - constructor; [|constructor]. unfold word. split; [lia|]. rewrite W_pow. reflexivity.
  - discriminate.
Qed.

Theorem exec_arith_spec : forall op st, Forall word st -> op <> 0x1d ->
  (op = 0x0b -> (2 <= length st)%nat) ->
  match spec_arith op st with
  | Some st' => exec_arith op st = Ok st'
  | None => exec_arith op st = Panic \/ exec_arith op st = Err ErrInvalidOpcode
  end.
Proof.
  intros op st Hst Hop Hse.
  destruct op as [|p|p]; [right; reflexivity| |right; reflexivity].
  do 5 (try destruct p as [p|p|]);
  unfold exec_arith, spec_arith; cbv beta iota zeta;
  try (right; reflexivity);
  try (apply bin_case; [|assumption]);
  try (apply un_case; [|assumption]);
  try (apply ter_case; [|assumption]);
  try (exfalso; apply Hop; reflexivity).
  all: try first
    [ exact op_ADD_spec | exact op_MUL_spec | exact op_SUB_spec | exact op_DIV_spec
    | exact op_SDIV_spec | exact op_MOD_spec | exact op_SMOD_spec | exact op_ADDMOD_spec
    | exact op_MULMOD_spec | exact op_EXP_exec | exact op_LT_spec | exact op_GT_spec
    | exact op_SLT_spec | exact op_SGT_spec | exact op_EQ_spec | exact op_ISZERO_spec
    | exact op_AND_spec | exact op_OR_spec | exact op_XOR_spec | exact op_NOT_spec
    | exact op_BYTE_spec | exact op_SHL_spec | exact op_SHR_spec ].
  (* SIGNEXTEND *)
  pose proof (signextend_case st Hst (Hse eq_refl)) as H.
  destruct st as [|a [|b r]]; try (cbn in Hse; specialize (Hse eq_refl); lia).
  exact H.
Qed.

Lemma un_word (f : Z -> Z) (st st' : list Z) :
  (forall a, word a -> word (f a)) -> Forall word st ->
  (match st with a :: r => Ok (f a :: r) | _ => Panic end) = Ok st' -> Forall word st'.
Proof.
  intros E H. destruct st as [|a r]; [discriminate|].
  inversion H; subst. intros X; injection X as <-. constructor; auto.
Qed.

Lemma bin_word (f : Z -> Z -> Z) (st st' : list Z) :
  (forall a b, word a -> word b -> word (f a b)) -> Forall word st ->
  (match st with a :: b :: r => Ok (f a b :: r) | _ => Panic end) = Ok st' -> Forall word st'.
Proof.
  intros E H. destruct st as [|a [|b r]]; try discriminate.
  inversion H as [|? ? Ha H']; subst. inversion H' as [|? ? Hb H'']; subst.
  intros X; injection X as <-. constructor; auto.
Qed.

Lemma ter_word (f : Z -> Z -> Z -> Z) (st st' : list Z) :
  (forall a b c, word a -> word b -> word c -> word (f a b c)) -> Forall word st ->
  (match st with a :: b :: c :: r => Ok (f a b c :: r) | _ => Panic end) = Ok st' -> Forall word st'.
Proof.
  intros E H. destruct st as [|a [|b [|c r]]]; try discriminate.
  inversion H as [|? ? Ha H']; subst. inversion H' as [|? ? Hb H'']; subst.
  inversion H'' as [|? ? Hc H''']; subst.
  intros X; injection X as <-. constructor; auto.
Qed.

Theorem exec_arith_word : forall op st st', Forall word st -> exec_arith op st = Ok st' -> Forall word st'.
Proof.
  intros op st st' Hst.
  destruct op as [|p|p]; [discriminate| |discriminate].
  do 5 (try destruct p as [p|p|]);
  unfold exec_arith; cbv beta iota zeta;
  try discriminate;
  try (apply bin_word; [|assumption]);
  try (apply un_word; [|assumption]);
  try (apply ter_word; [|assumption]).
  all: try first
    [ exact op_ADD_word | exact op_MUL_word | exact op_SUB_word | exact op_DIV_word
    | exact op_SDIV_word | exact op_MOD_word | exact op_SMOD_word | exact op_ADDMOD_word
    | exact op_MULMOD_word | exact op_EXP_word | exact op_LT_word | exact op_GT_word
    | exact op_SLT_word | exact op_SGT_word | exact op_EQ_word | exact op_ISZERO_word
    | exact op_AND_word | exact op_OR_word | exact op_XOR_word | exact op_NOT_word
    | exact op_BYTE_word | exact op_SHL_word | exact op_SHR_word | exact op_SAR_word ].
  (* SIGNEXTEND *)
  destruct st as [|a r]; [discriminate|].
  inversion Hst as [|? ? Ha Hr]; subst.
  destruct (a <? 31).
  - destruct r as [|b r']; [discriminate|].
    inversion Hr as [|? ? Hb Hr']; subst.
    intros X; injection X as <-. constructor; [apply op_SIGNEXTEND_word; assumption|assumption].
  - intros X; injection X as <-. assumption.
Qed.

