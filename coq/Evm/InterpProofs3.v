(* Evm/InterpProofs3.v — the C07 theorems about the entry points of Evm/Interp.v, derived from the
   loop invariant (InterpProofs2.v), plus the sandbox lemmas that hold by the shape of the call
   machinery (a failing frame hands back the snapshot) and the static-call witnesses. *)
From Coq Require Import ZArith List Bool String Lia ZifyBool.
From AQ Require Import Lib.Bytes Evm.OpsModel Evm.Interp Evm.InterpProofs Evm.InterpProofs2.
Import ListNotations.
Local Open Scope Z_scope.
Set Default Timeout 300.

Lemma interp_good : forall fuel e, wf_env e -> rec_good (interp fuel e) (Z.of_nat fuel).
Proof. intros. unfold interp. apply interp_of_good, loop_good. assumption. Qed.

(* ---- (1) gas bounded, (2) depth bounded, (3) termination, for the two entry points *)

Theorem call_top_good : forall fuel e w caller addr input gas value, wf_env e -> 0 <= gas ->
  let o := call_top fuel e w caller addr input gas value in
  0 <= o_gas o <= gas /\ (gas < Z.of_nat fuel -> o_res o <> R_fuel) /\ tr_ok (o_trace o).
Proof.
  intros fuel e w caller addr input gas value Hwf Hg o.
  destruct (do_call_good (interp fuel e) e w [] [] 0 false caller addr input gas value (Z.of_nat fuel)
              (interp_good fuel e Hwf) Hg ltac:(lia)) as (Ha & Hb & Hc).
  repeat split; try apply Ha; [exact Hb | apply Hc; constructor].
Qed.

Theorem create_top_good : forall fuel e w caller code gas value, wf_env e -> 0 <= gas ->
  let o := create_top fuel e w caller code gas value in
  0 <= o_gas o <= gas /\ (gas < Z.of_nat fuel -> o_res o <> R_fuel) /\ tr_ok (o_trace o).
Proof.
  intros fuel e w caller code gas value Hwf Hg o.
  destruct (do_create_good (interp fuel e) e w [] [] 0 false caller code gas value (Z.of_nat fuel)
              (interp_good fuel e Hwf) Hg ltac:(lia)) as (Ha & Hb & Hc).
  repeat split; try apply Ha; [exact Hb | apply Hc; constructor].
Qed.

(* within a frame: every iteration of the loop that goes on has strictly less gas than before it
   (whatever a child handed back is less than what was paid for the call) *)
Theorem frame_gas_decreases : forall fuel e w fr w' fr', wf_env e -> 0 <= f_gas fr -> 1 <= f_depth fr <= DMAX ->
  step (interp fuel e) e w fr = S_next w' fr' -> 0 <= f_gas fr' < f_gas fr.
Proof.
  intros fuel e w fr w' fr' Hwf Hg Hd Hs.
  pose proof (step_good (interp fuel e) e w fr (Z.of_nat fuel) Hwf (interp_good fuel e Hwf) Hg Hd) as H.
  rewrite Hs in H. apply H.
Qed.

(* a child frame is never entered above the depth limit: whatever [rec] is, the frame it is
   handed has depth <= CallCreateDepth + 1 *)
Theorem child_depth_bounded : forall (P : frame -> Prop) rec e w rd tr depth ro caller addr input gas value,
  (forall fr, f_depth fr <= DMAX -> P fr) ->
  forall probe : world -> frame -> outcome,
  (forall w fr, P fr -> probe w fr = rec w fr) ->
  do_call probe e w rd tr depth ro caller addr input gas value = do_call rec e w rd tr depth ro caller addr input gas value.
Proof.
  intros P rec e w rd tr depth ro caller addr input gas value HP probe Hprobe. unfold do_call.
  destruct (depth >? CallCreateDepth) eqn:Hdep; [reflexivity|].
  destruct (negb _); [reflexivity|]. destruct (_ && _); [reflexivity|].
  unfold run_contract. destruct (is_precompile e addr); [reflexivity|].
  rewrite Hprobe; [reflexivity|]. apply HP. cbn [new_frame f_depth]. unfold DMAX. lia.
Qed.

(* ---- (4) a failing frame leaves the world as it was *)

Definition failed (r : rres) : bool := match r with R_revert _ | R_err _ _ => true | _ => false end.

Lemma finish_call_world : forall snap o, failed (o_res (finish_call snap o)) = true -> o_world (finish_call snap o) = snap.
Proof. intros snap o. unfold finish_call. destruct (o_res o) eqn:Hr; cbn; try rewrite Hr; cbn; congruence. Qed.

Theorem call_failed_reverts : forall rec e w rd tr depth ro caller addr input gas value,
  let o := do_call rec e w rd tr depth ro caller addr input gas value in
  failed (o_res o) = true -> o_world o = w.
Proof.
  intros rec e w rd tr depth ro caller addr input gas value. cbv zeta. unfold do_call.
  destruct (depth >? CallCreateDepth); [reflexivity|]. destruct (negb _); [reflexivity|].
  destruct (_ && _); [cbn; discriminate|]. apply finish_call_world.
Qed.
Theorem callcode_failed_reverts : forall rec e w rd tr depth ro caller addr input gas value,
  let o := do_callcode rec e w rd tr depth ro caller addr input gas value in
  failed (o_res o) = true -> o_world o = w.
Proof.
  intros rec e w rd tr depth ro caller addr input gas value. cbv zeta. unfold do_callcode.
  destruct (depth >? CallCreateDepth); [reflexivity|]. destruct (negb _); [reflexivity|]. apply finish_call_world.
Qed.
Theorem delegatecall_failed_reverts : forall rec e w rd tr depth ro self pc pv addr input gas,
  let o := do_delegatecall rec e w rd tr depth ro self pc pv addr input gas in
  failed (o_res o) = true -> o_world o = w.
Proof.
  intros rec e w rd tr depth ro self pc pv addr input gas. cbv zeta. unfold do_delegatecall.
  destruct (depth >? CallCreateDepth); [reflexivity|]. apply finish_call_world.
Qed.
Theorem staticcall_failed_reverts : forall rec e w rd tr depth ro caller addr input gas,
  let o := do_staticcall rec e w rd tr depth ro caller addr input gas in
  failed (o_res o) = true -> o_world o = w.
Proof.
  intros rec e w rd tr depth ro caller addr input gas. cbv zeta. unfold do_staticcall.
  destruct (depth >? CallCreateDepth); [reflexivity|].
  destruct ro; [apply finish_call_world | cbn [set_out_ro o_res o_world]; apply finish_call_world].
Qed.

(* a failed creation: the world is the one before, or the one before with the creator's nonce incremented *)
Theorem create_failed_reverts : forall rec e w rd tr depth ro caller code gas value, e_homestead e = true ->
  let o := do_create rec e w rd tr depth ro caller code gas value in
  failed (o_res o) = true ->
  o_world o = w \/ o_world o = set_nonce w caller (wrap64 (get_nonce w caller + 1)).
Proof.
  intros rec e w rd tr depth ro caller code gas value Hh. cbv zeta. unfold do_create.
  destruct (depth >? CallCreateDepth); [left; reflexivity|]. destruct (negb _); [left; reflexivity|].
  destruct (_ || _); [right; reflexivity|].
  match goal with |- context[run_contract rec e ?w3 ?a ?fr rd] => set (o := run_contract rec e w3 a fr rd) end.
  rewrite Hh.
  destruct (o_res o) eqn:Hr; cbn [failed]; try (rewrite Hr; cbn; discriminate).
  - (* ok *)
    destruct (e_eip158 e && _); cbn [andb orb negb o_res o_world failed]; [intros _; right; reflexivity|].
    destruct (o_gas o <? _); cbn [andb orb negb o_res o_world failed]; [intros _; right; reflexivity | discriminate].
  - destruct (e_eip158 e && _); cbn [andb orb negb o_res o_world failed]; intros _; right; reflexivity.
  - destruct (e_eip158 e && _); cbn [andb orb negb o_res o_world failed]; intros _; right; reflexivity.
Qed.

(* ---- (5) static frames *)

(* under Byzantium rules an instruction whose execute function changes the world, met in a
   read-only frame, ends the frame with an error before anything is changed *)
Theorem static_write_rejected : forall rec e w fr, wf_env e -> e_byzantium e = true -> f_ro fr = true ->
  exec_writes (c_exec (nth (Z.to_nat (get_op (f_code fr) (f_pc fr))) (e_tbl e) invalid_cop)) = true ->
  exists o, step rec e w fr = S_done o /\ o_world o = w /\ is_failure (o_res o) = true.
Proof.
  intros rec e w fr Hwf Hb Hro Hw. unfold step.
  set (op := get_op (f_code fr) (f_pc fr)) in *.
  set (c := nth (Z.to_nat op) (e_tbl e) invalid_cop) in *.
  assert (Hok : cop_ok c = true).
  { destruct (wf_tbl e Hwf) as [s Hs]. subst c. rewrite Hs. apply nth_cop_ok. }
  destruct (negb (c_valid c)) eqn:Hv; [eexists; repeat split|].
  unfold cop_ok in Hok. rewrite Hv in Hok. cbn [orb] in Hok.
  apply andb_prop in Hok as [Hok _]. apply andb_prop in Hok as [Hok _]. apply andb_prop in Hok as [_ Hwr].
  rewrite Hw in Hwr. cbn [negb orb] in Hwr.
  destruct (validateStack _ _ _); [|eexists; repeat split|eexists; repeat split].
  unfold restricted. rewrite Hb, Hro, Hwr. cbn [andb orb]. eexists; repeat split.
Qed.

(* the mainnet schedule: the Spring instruction set (with STATICCALL) is installed from HF5
   (block 22800) but the Byzantium rules only hold from HF7 (block 36050) *)
Definition nobh (_ : Z) : Z := 0.
Definition noprec (_ : Z) (_ : list Z) : option (Z * option (list Z)) := None.
Definition demo_env (height : Z) : env := env_of mainnet_cfg height 0xaa 1 0xc0 8000000 1000 131072 nobh noprec false.
(* 0xbb: STATICCALL(gas, 0xcc, 0, 0, 0, 0) STOP;  0xcc: SSTORE(1, 0x2a) STOP *)
Definition demo_world : world :=
  mk_world [ (0xaa, mk_account 0 1000 [] [] false);
             (0xbb, mk_account 1 0 [0x60;0;0x60;0;0x60;0;0x60;0;0x60;0xcc;0x5a;0xfa;0x00] [] false);
             (0xcc, mk_account 1 0 [0x60;0x2a;0x60;0x01;0x55;0x00] [(1, 5)] false) ] [] 0.
Definition demo_run (height : Z) : outcome := call_top 100 (demo_env height) demo_world 0xaa 0xbb [] 100000 0.

Theorem static_call_writes_between_hf5_and_hf7 :
  let o := demo_run 30000 in
  e_byzantium (demo_env 30000) = false /\ o_res o = R_ok [] /\
  get_state demo_world 0xcc 1 = 5 /\ get_state (o_world o) 0xcc 1 = 0x2a.
Proof. vm_compute. repeat split; reflexivity. Qed.

Theorem static_call_protected_after_hf7 :
  let o := demo_run 40000 in
  e_byzantium (demo_env 40000) = true /\ o_res o = R_ok [] /\ get_state (o_world o) 0xcc 1 = 5.
Proof. vm_compute. repeat split; reflexivity. Qed.

Lemma demo_env_wf : forall h, wf_env (demo_env h).
Proof. intro. apply env_of_wf. Qed.
