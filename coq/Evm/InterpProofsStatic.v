(* Evm/InterpProofsStatic.v — C07 (5): under Byzantium rules a read-only frame (and everything below
   it) hands back a world with the same balances, nonces, code, storage and logs, for every code. *)
From Coq Require Import ZArith List Bool String Lia ZifyBool.
From AQ Require Import Lib.Bytes Evm.OpsModel Evm.Interp Evm.InterpProofs.
Import ListNotations.
Local Open Scope Z_scope.
Set Default Timeout 300.

(* what the property speaks of: every getter of every address, and the logs (existence of an empty
   account and the refund counter are not among them) *)
Definition same_obs (w w' : world) : Prop :=
  (forall a, get_balance w a = get_balance w' a /\ get_nonce w a = get_nonce w' a /\ get_code w a = get_code w' a /\
             forall k, get_state w a k = get_state w' a k) /\
  w_logs w = w_logs w'.

Lemma same_obs_refl : forall w, same_obs w w.
Proof. intro. repeat split. Qed.
Lemma same_obs_trans : forall a b c, same_obs a b -> same_obs b c -> same_obs a c.
Proof.
  intros a b c [H1 L1] [H2 L2]. split; [|congruence].
  intro x. destruct (H1 x) as (A1 & A2 & A3 & A4). destruct (H2 x) as (B1 & B2 & B3 & B4).
  split; [congruence|]. split; [congruence|]. split; [congruence|]. intro k. rewrite A4. apply B4.
Qed.

Lemma aget_aset : forall V (l : list (Z * V)) k v k', aget (aset l k v) k' = if k' =? k then Some v else aget l k'.
Proof.
  induction l as [|[k0 v0] r IH]; intros k v k'; cbn [aset aget].
  - destruct (k =? k') eqn:E; destruct (k' =? k) eqn:E'; try lia; reflexivity.
  - destruct (k0 =? k) eqn:E0; cbn [aget].
    + destruct (k =? k') eqn:E; destruct (k' =? k) eqn:E'; try lia; try reflexivity.
      assert (k0 =? k' = false) by lia. rewrite H. reflexivity.
    + destruct (k0 =? k') eqn:E1.
      * assert (k' =? k = false) by lia. rewrite H. reflexivity.
      * apply IH.
Qed.

Lemma find_put : forall w a acc a', find_acct (put_acct w a acc) a' = if a' =? a then Some acc else find_acct w a'.
Proof. intros. unfold find_acct, put_acct. cbn [w_accts]. apply aget_aset. Qed.

(* putting back an account with the same observable fields *)
Lemma put_same_obs : forall w a acc,
  a_balance acc = get_balance w a -> a_nonce acc = get_nonce w a -> a_code acc = get_code w a ->
  (forall k, match aget (a_storage acc) k with Some v => v | None => 0 end = get_state w a k) ->
  same_obs w (put_acct w a acc).
Proof.
  intros w a acc Hb Hn Hc Hs. split; [|reflexivity].
  intro a'. unfold get_balance, get_nonce, get_code, get_state. rewrite find_put.
  destruct (a' =? a) eqn:E.
  - assert (a' = a) by lia. subst a'. unfold get_balance, get_nonce, get_code, get_state in *.
    split; [auto|]. split; [auto|]. split; [auto|]. intro k. symmetry. apply Hs.
  - split; [reflexivity|]. split; [reflexivity|]. split; [reflexivity|]. intro k. reflexivity.
Qed.

Lemma create_account_obs : forall w a, exist w a = false -> same_obs w (create_account w a).
Proof.
  intros w a He. unfold create_account. apply put_same_obs; cbn; auto;
    unfold exist, get_nonce, get_code, get_state in *; destruct (find_acct w a); try discriminate; auto.
Qed.
Lemma add_balance_zero_obs : forall w a, same_obs w (add_balance w a 0).
Proof.
  intros w a. unfold add_balance. apply put_same_obs; cbn;
    unfold get_or_new, get_balance, get_nonce, get_code, get_state; destruct (find_acct w a); cbn; auto; lia.
Qed.
Lemma sub_balance_zero_obs : forall w a, same_obs w (sub_balance w a 0).
Proof.
  intros w a. unfold sub_balance. apply put_same_obs; cbn;
    unfold get_or_new, get_balance, get_nonce, get_code, get_state; destruct (find_acct w a); cbn; auto; lia.
Qed.
Lemma transfer_zero_obs : forall w a b, same_obs w (transfer w a b 0).
Proof. intros. unfold transfer. eapply same_obs_trans; [apply sub_balance_zero_obs | apply add_balance_zero_obs]. Qed.
Lemma add_refund_obs : forall w g, same_obs w (add_refund w g).
Proof. intros. repeat split. Qed.

(* a gas function changes nothing but the refund counter *)
Lemma call_gas_tail_world : forall e w avail gas last' cc r, call_gas_tail e w avail gas last' cc = Ok r -> g_world r = w.
Proof.
  intros e w avail gas last' cc r H. unfold call_gas_tail in H.
  destruct (callGas _ _ _ _); try discriminate. destruct (SafeAdd _ _) as [t o]. destruct o; [discriminate|].
  injection H as <-. reflexivity.
Qed.

Lemma gas_cost_obs : forall e w fr g ms r, gas_cost e w fr g ms = Ok r -> same_obs w (g_world r).
Proof.
  intros e w fr g ms r H.
  assert (Hl : forall x y, lift_pair w x = Ok y -> g_world y = w).
  { intros x y Hx. apply lift_pair_inv in Hx as (c & l & _ & ->). reflexivity. }
  destruct g; cbn [gas_cost] in H;
    try (injection H as <-; apply same_obs_refl);
    try (apply Hl in H; rewrite H; apply same_obs_refl);
    try (destruct (back (f_stack fr) 1); [|discriminate]; apply Hl in H; rewrite H; apply same_obs_refl);
    try (destruct (back (f_stack fr) 2); [|discriminate]; apply Hl in H; rewrite H; apply same_obs_refl);
    try (destruct (back (f_stack fr) 3); [|discriminate]; apply Hl in H; rewrite H; apply same_obs_refl).
  - (* exp *) destruct (back _ 1); [|discriminate]. destruct (gasExp _ _); try discriminate. injection H as <-. apply same_obs_refl.
  - (* sstore *) destruct (back _ 0); [|discriminate]. destruct (back _ 1); [|discriminate].
    destruct (_ && _); [injection H as <-; apply same_obs_refl|].
    destruct (_ && _); injection H as <-; [apply add_refund_obs | apply same_obs_refl].
  - (* call *) destruct (back _ 0); [|discriminate]. destruct (back _ 1); [|discriminate]. destruct (back _ 2); [|discriminate].
    destruct (memoryGasCost _ _ _) as [[mg l]|?|]; try discriminate. destruct (SafeAdd _ mg) as [t o]. destruct o; [discriminate|].
    apply call_gas_tail_world in H. rewrite H. apply same_obs_refl.
  - (* callcode *) destruct (back _ 0); [|discriminate]. destruct (back _ 2); [|discriminate].
    destruct (memoryGasCost _ _ _) as [[mg l]|?|]; try discriminate. destruct (SafeAdd _ mg) as [t o]. destruct o; [discriminate|].
    apply call_gas_tail_world in H. rewrite H. apply same_obs_refl.
  - (* delegatecall *) destruct (back _ 0); [|discriminate].
    destruct (memoryGasCost _ _ _) as [[mg l]|?|]; try discriminate. destruct (SafeAdd mg _) as [t o]. destruct o; [discriminate|].
    apply call_gas_tail_world in H. rewrite H. apply same_obs_refl.
  - (* staticcall *) destruct (back _ 0); [|discriminate].
    destruct (memoryGasCost _ _ _) as [[mg l]|?|]; try discriminate. destruct (SafeAdd mg _) as [t o]. destruct o; [discriminate|].
    apply call_gas_tail_world in H. rewrite H. apply same_obs_refl.
  - (* suicide *) destruct (back _ 0); [|discriminate]. injection H as <-. cbn [g_world].
    destruct (negb _); [apply add_refund_obs | apply same_obs_refl].
  - discriminate.
Qed.

(* ------------------------------------------------------------------ tables: opCall sits at 0xf1 only *)

Definition call_pos_ok (t : list cop) : bool :=
  forallb (fun i => match c_exec (nth i t invalid_cop) with E_call => Nat.eqb i 241 | _ => true end) (seq 0 256).
Lemma call_pos_all : forall s, call_pos_ok (ctbl_of s) = true /\ length (ctbl_of s) = 256%nat.
Proof. intros []; split; vm_compute; reflexivity. Qed.

Lemma e_call_pos : forall s op, c_exec (nth (Z.to_nat op) (ctbl_of s) invalid_cop) = E_call -> op = 0xf1.
Proof.
  intros s op H. destruct (call_pos_all s) as [Hc Hl].
  destruct (Nat.lt_ge_cases (Z.to_nat op) 256) as [Hlt | Hge].
  - unfold call_pos_ok in Hc. rewrite forallb_forall in Hc.
    specialize (Hc (Z.to_nat op)). rewrite H in Hc.
    assert (Hin : In (Z.to_nat op) (seq 0 256)) by (apply in_seq; lia).
    apply Hc in Hin. apply Nat.eqb_eq in Hin. lia.
  - rewrite nth_overflow in H by lia. discriminate.
Qed.

(* ------------------------------------------------------------------ the flag discipline *)

(* interpreter.readOnly is mutable state that StaticCall sets and resets (Interp.do_staticcall).  Every call
   hands the flag back as it found it: the mutable flag behaves like a parameter passed down. *)
Definition rec_keeps (rec : interp_t) : Prop := forall w fr, o_ro (rec w fr) = f_ro fr.

Lemma run_precompile_ro : forall e w a i g rd tr ro, o_ro (run_precompile e w a i g rd tr ro) = ro.
Proof.
  intros. unfold run_precompile. destruct (a =? 5).
  - destruct (modexp_gas i); try reflexivity. destruct (g <? _); try reflexivity. destruct (modexp_run i); reflexivity.
  - destruct (e_precomp e a i) as [[og r]|]; try reflexivity.
    destruct (g <? _); try reflexivity. destruct (a =? 4); try reflexivity. destruct r; reflexivity.
Qed.
Lemma run_contract_keeps : forall rec e w ca fr rd, rec_keeps rec -> o_ro (run_contract rec e w ca fr rd) = f_ro fr.
Proof. intros. unfold run_contract. destruct (is_precompile e ca); [apply run_precompile_ro | apply H]. Qed.
Lemma finish_call_ro : forall snap o, o_ro (finish_call snap o) = o_ro o.
Proof. intros. unfold finish_call. destruct (o_res o); reflexivity. Qed.

Lemma do_call_keeps : forall rec e w rd tr depth ro caller addr input gas value, rec_keeps rec ->
  o_ro (do_call rec e w rd tr depth ro caller addr input gas value) = ro.
Proof.
  intros. unfold do_call. destruct (depth >? CallCreateDepth); [reflexivity|]. destruct (negb _); [reflexivity|].
  destruct (_ && _); [reflexivity|]. rewrite finish_call_ro, run_contract_keeps by assumption. reflexivity.
Qed.
Lemma do_callcode_keeps : forall rec e w rd tr depth ro caller addr input gas value, rec_keeps rec ->
  o_ro (do_callcode rec e w rd tr depth ro caller addr input gas value) = ro.
Proof.
  intros. unfold do_callcode. destruct (depth >? CallCreateDepth); [reflexivity|]. destruct (negb _); [reflexivity|].
  rewrite finish_call_ro, run_contract_keeps by assumption. reflexivity.
Qed.
Lemma do_delegatecall_keeps : forall rec e w rd tr depth ro self pc pv addr input gas, rec_keeps rec ->
  o_ro (do_delegatecall rec e w rd tr depth ro self pc pv addr input gas) = ro.
Proof.
  intros. unfold do_delegatecall. destruct (depth >? CallCreateDepth); [reflexivity|].
  rewrite finish_call_ro, run_contract_keeps by assumption. reflexivity.
Qed.
(* the point: set on entry only when it was off, and switched off on return exactly then *)
Lemma do_staticcall_keeps : forall rec e w rd tr depth ro caller addr input gas, rec_keeps rec ->
  o_ro (do_staticcall rec e w rd tr depth ro caller addr input gas) = ro.
Proof.
  intros. unfold do_staticcall. destruct (depth >? CallCreateDepth); [reflexivity|].
  destruct ro; [|reflexivity]. rewrite finish_call_ro, run_contract_keeps by assumption. reflexivity.
Qed.
Lemma do_create_keeps : forall rec e w rd tr depth ro caller code gas value, rec_keeps rec ->
  o_ro (do_create rec e w rd tr depth ro caller code gas value) = ro.
Proof.
  intros rec e w rd tr depth ro caller code gas value Hk. unfold do_create.
  destruct (depth >? CallCreateDepth); [reflexivity|]. destruct (negb _); [reflexivity|].
  destruct (_ || _); [reflexivity|].
  match goal with |- context[run_contract rec e ?w3 ?a ?fr rd] =>
    pose proof (run_contract_keeps rec e w3 a fr rd Hk) as Hr; set (o := run_contract rec e w3 a fr rd) in * end.
  cbn [new_frame f_ro] in Hr.
  destruct (o_res o); try exact Hr;
    repeat match goal with |- context[let '(_, _) := ?t in _] => destruct t as [[? ?] ?] end; exact Hr.
Qed.

Lemma call_return_ro : forall w fr rest ro rs o w2 fr2 res,
  call_return w fr rest ro rs o = X_ok w2 fr2 res -> f_ro fr2 = o_ro o.
Proof.
  intros w fr rest ro rs o w2 fr2 res H. unfold call_return in H.
  destruct (o_res o); try discriminate;
    try (destruct (mem_set _ _ _ _); try discriminate); injection H as _ <- _; reflexivity.
Qed.

Ltac inv_keep H :=
  repeat match type of H with
  | match ?t with _ => _ end = _ => destruct t eqn:?; try discriminate
  | (let '(_, _) := ?t in _) = _ => destruct t eqn:?
  | (if ?t then _ else _) = _ => destruct t eqn:?; try discriminate
  | lift_mem _ _ _ _ = _ => unfold lift_mem in H
  end;
  injection H as _ <- _; reflexivity.

Lemma exec_keeps : forall rec e w fr1 x temp w2 fr2 res, rec_keeps rec ->
  exec rec e w fr1 x temp = X_ok w2 fr2 res -> f_ro fr2 = f_ro fr1.
Proof.
  intros rec e w fr1 x temp w2 fr2 res Hk H.
  destruct x; unfold exec in H; try solve [inv_keep H].
  - (* create *)
    destruct (f_stack fr1) as [|value [|offset [|size r]]]; try discriminate.
    destruct (mem_get _ _ _); try discriminate.
    match type of H with context[do_create ?a ?b ?c ?d ?e' ?f ?g ?h ?i ?j ?k] =>
      pose proof (do_create_keeps a b c d e' f g h i j k Hk) as Hc; set (o := do_create a b c d e' f g h i j k) in * end.
    destruct (o_res o); try discriminate; injection H as _ <- _; exact Hc.
  - destruct (f_stack fr1) as [|g0 [|addr [|value0 [|inOff [|inSize [|retOff [|retSize r]]]]]]]; try discriminate.
    destruct (mem_get _ _ _); try discriminate.
    apply call_return_ro in H. rewrite H. apply do_call_keeps, Hk.
  - destruct (f_stack fr1) as [|g0 [|addr [|value0 [|inOff [|inSize [|retOff [|retSize r]]]]]]]; try discriminate.
    destruct (mem_get _ _ _); try discriminate.
    apply call_return_ro in H. rewrite H. apply do_callcode_keeps, Hk.
  - destruct (f_stack fr1) as [|g0 [|addr [|inOff [|inSize [|retOff [|retSize r]]]]]]; try discriminate.
    destruct (mem_get _ _ _); try discriminate.
    apply call_return_ro in H. rewrite H. apply do_delegatecall_keeps, Hk.
  - destruct (f_stack fr1) as [|g0 [|addr [|inOff [|inSize [|retOff [|retSize r]]]]]]; try discriminate.
    destruct (mem_get _ _ _); try discriminate.
    apply call_return_ro in H. rewrite H. apply do_staticcall_keeps, Hk.
  - discriminate H.
Qed.

Lemma step_keeps : forall rec e w fr, rec_keeps rec ->
  match step rec e w fr with
  | S_next _ fr' => f_ro fr' = f_ro fr
  | S_done o => o_ro o = f_ro fr
  end.
Proof.
  intros rec e w fr Hk. unfold step.
  destruct (negb _); [reflexivity|].
  destruct (validateStack _ _ _); [|reflexivity|reflexivity].
  destruct (restricted _ _ _ _); [reflexivity|].
  destruct (mem_size_big _ _) as [msb|]; [|reflexivity].
  destruct (match msb with Some b => run_memorySize b | None => Ok 0 end); [|reflexivity|reflexivity].
  destruct (gas_cost _ _ _ _ _) as [g|?|]; [|reflexivity|reflexivity].
  destruct (f_gas fr <? g_cost g); [reflexivity|].
  match goal with |- context[exec rec e (g_world g) ?f1 ?x (g_temp g)] => set (fr1 := f1); set (xx := x) end.
  destruct (exec rec e (g_world g) fr1 xx (g_temp g)) as [w2 fr2 res| er | |] eqn:Hex; try reflexivity.
  apply exec_keeps in Hex; [|assumption]. change (f_ro fr1) with (f_ro fr) in Hex.
  match goal with |- context[if ?b then set_rdata fr2 res else fr2] => set (fr3 := if b then set_rdata fr2 res else fr2);
    assert (H3 : f_ro fr3 = f_ro fr2) by (subst fr3; destruct b; reflexivity) end.
  repeat match goal with |- context[if ?b then _ else _] => destruct b end; cbn [mkout o_ro set_pc set_pc_stack f_ro]; congruence.
Qed.

Lemma interp_of_keeps : forall lp, rec_keeps lp -> rec_keeps (interp_of lp).
Proof. intros lp H w fr. unfold interp_of. destruct (f_code fr); [reflexivity | apply H]. Qed.

Lemma loop_keeps : forall fuel e, rec_keeps (loop fuel e).
Proof.
  induction fuel as [|f IH]; intros e w fr; cbn [loop]; [reflexivity|].
  pose proof (step_keeps (interp_of (loop f e)) e w fr (interp_of_keeps _ (IH e))) as Hs.
  destruct (step _ e w fr) as [w' fr' | o]; [|exact Hs]. rewrite IH. exact Hs.
Qed.

Lemma interp_keeps : forall fuel e, rec_keeps (interp fuel e).
Proof. intros. unfold interp. apply interp_of_keeps, loop_keeps. Qed.

(* for every code and every call kind: interpreter.readOnly after the call = interpreter.readOnly before it *)
Theorem flag_discipline : forall fuel e w rd tr depth ro caller addr input code gas value self pc pv,
  o_ro (do_call (interp fuel e) e w rd tr depth ro caller addr input gas value) = ro /\
  o_ro (do_callcode (interp fuel e) e w rd tr depth ro caller addr input gas value) = ro /\
  o_ro (do_delegatecall (interp fuel e) e w rd tr depth ro self pc pv addr input gas) = ro /\
  o_ro (do_staticcall (interp fuel e) e w rd tr depth ro caller addr input gas) = ro /\
  o_ro (do_create (interp fuel e) e w rd tr depth ro caller code gas value) = ro.
Proof.
  intros. pose proof (interp_keeps fuel e) as Hk.
  repeat split; [apply do_call_keeps | apply do_callcode_keeps | apply do_delegatecall_keeps | apply do_staticcall_keeps | apply do_create_keeps]; exact Hk.
Qed.

(* ------------------------------------------------------------------ the call machinery in a read-only context *)

Definition rec_ro (rec : interp_t) : Prop := forall w fr, f_ro fr = true -> same_obs w (o_world (rec w fr)).

Lemma run_precompile_world : forall e w a i g rd tr ro, o_world (run_precompile e w a i g rd tr ro) = w.
Proof.
  intros. unfold run_precompile. destruct (a =? 5).
  - destruct (modexp_gas i); try reflexivity. destruct (g <? _); try reflexivity. destruct (modexp_run i); reflexivity.
  - destruct (e_precomp e a i) as [[og r]|]; try reflexivity.
    destruct (g <? _); try reflexivity. destruct (a =? 4); try reflexivity. destruct r; reflexivity.
Qed.

Lemma run_contract_obs : forall rec e w ca fr rd, rec_ro rec -> f_ro fr = true ->
  same_obs w (o_world (run_contract rec e w ca fr rd)).
Proof.
  intros rec e w ca fr rd Hrec Hro. unfold run_contract.
  destruct (is_precompile e ca); [rewrite run_precompile_world; apply same_obs_refl | apply Hrec, Hro].
Qed.

Lemma finish_call_obs : forall w snap o, same_obs w snap -> same_obs w (o_world o) -> same_obs w (o_world (finish_call snap o)).
Proof. intros w snap o Hs Ho. unfold finish_call. destruct (o_res o); cbn [o_world]; assumption. Qed.

Lemma do_call_obs : forall rec e w rd tr depth caller addr input gas,
  rec_ro rec -> same_obs w (o_world (do_call rec e w rd tr depth true caller addr input gas 0)).
Proof.
  intros rec e w rd tr depth caller addr input gas Hrec. unfold do_call.
  destruct (depth >? CallCreateDepth); [apply same_obs_refl|].
  destruct (negb _); [apply same_obs_refl|]. destruct (_ && _); [apply same_obs_refl|].
  apply finish_call_obs; [apply same_obs_refl|].
  set (w1 := if negb (exist w addr) then create_account w addr else w).
  assert (H1 : same_obs w w1).
  { subst w1. destruct (exist w addr) eqn:He; cbn [negb]; [apply same_obs_refl | apply create_account_obs, He]. }
  eapply same_obs_trans; [exact H1|]. eapply same_obs_trans; [apply (transfer_zero_obs w1 caller addr)|].
  apply run_contract_obs; [assumption | reflexivity].
Qed.

Lemma do_callcode_obs : forall rec e w rd tr depth caller addr input gas value,
  rec_ro rec -> same_obs w (o_world (do_callcode rec e w rd tr depth true caller addr input gas value)).
Proof.
  intros. unfold do_callcode. destruct (depth >? CallCreateDepth); [apply same_obs_refl|].
  destruct (negb _); [apply same_obs_refl|].
  apply finish_call_obs; [apply same_obs_refl|]. apply run_contract_obs; [assumption | reflexivity].
Qed.
Lemma do_delegatecall_obs : forall rec e w rd tr depth self pc pv addr input gas,
  rec_ro rec -> same_obs w (o_world (do_delegatecall rec e w rd tr depth true self pc pv addr input gas)).
Proof.
  intros. unfold do_delegatecall. destruct (depth >? CallCreateDepth); [apply same_obs_refl|].
  apply finish_call_obs; [apply same_obs_refl|]. apply run_contract_obs; [assumption | reflexivity].
Qed.
(* evm.StaticCall: whatever the flag was when it was entered *)
Lemma do_staticcall_obs : forall rec e w rd tr depth ro caller addr input gas,
  rec_ro rec -> same_obs w (o_world (do_staticcall rec e w rd tr depth ro caller addr input gas)).
Proof.
  intros. unfold do_staticcall. destruct (depth >? CallCreateDepth); [apply same_obs_refl|].
  assert (Hf : forall o, o_world (if ro then o else set_out_ro o false) = o_world o) by (intro o; destruct ro; reflexivity).
  rewrite Hf.
  apply finish_call_obs; [apply same_obs_refl|]. apply run_contract_obs; [assumption | reflexivity].
Qed.

Lemma call_return_obs : forall w0 w fr rest ro rs o w2 fr2 res,
  same_obs w0 (o_world o) -> call_return w fr rest ro rs o = X_ok w2 fr2 res -> same_obs w0 w2.
Proof.
  intros w0 w fr rest ro rs o w2 fr2 res Ho H. unfold call_return in H.
  destruct (o_res o); try discriminate;
    try (destruct (mem_set _ _ _ _); try discriminate); injection H as <- _ _; exact Ho.
Qed.

Ltac inv_simple H :=
  repeat match type of H with
  | match ?t with _ => _ end = _ => destruct t eqn:?; try discriminate
  | (let '(_, _) := ?t in _) = _ => destruct t eqn:?
  | (if ?t then _ else _) = _ => destruct t eqn:?; try discriminate
  | lift_mem _ _ _ _ = _ => unfold lift_mem in H
  end;
  injection H as <- _ _; apply same_obs_refl.

Lemma BitLen_zero : forall v, (BitLen v >? 0) = false -> v = 0.
Proof.
  intros v H. unfold BitLen in H. destruct (v =? 0) eqn:E; [lia|].
  pose proof (Z.log2_nonneg (Z.abs v)). lia.
Qed.

Lemma exec_obs : forall rec e w fr1 x temp w2 fr2 res,
  rec_ro rec -> f_ro fr1 = true -> exec_writes x = false ->
  (x = E_call -> forall v, back (f_stack fr1) 2 = Some v -> v = 0) ->
  exec rec e w fr1 x temp = X_ok w2 fr2 res -> same_obs w w2.
Proof.
  intros rec e w fr1 x temp w2 fr2 res Hrec Hro Hw Hcall H.
  destruct x; try discriminate Hw; unfold exec in H; try solve [inv_simple H].
  - (* call *)
    destruct (f_stack fr1) as [|g0 [|addr [|value0 [|inOff [|inSize [|retOff [|retSize r]]]]]]] eqn:Hst; try discriminate.
    assert (value0 = 0) by (apply (Hcall eq_refl); reflexivity). subst value0.
    destruct (mem_get _ _ _); try discriminate.
    change (U256 0) with 0 in H. cbn [Z.sgn Z.eqb negb] in H. rewrite Hro in H.
    apply call_return_obs with (w0 := w) in H; [exact H | apply do_call_obs, Hrec].
  - (* callcode *)
    destruct (f_stack fr1) as [|g0 [|addr [|value0 [|inOff [|inSize [|retOff [|retSize r]]]]]]] eqn:Hst; try discriminate.
    destruct (mem_get _ _ _); try discriminate. rewrite Hro in H.
    apply call_return_obs with (w0 := w) in H; [exact H | apply do_callcode_obs, Hrec].
  - (* delegatecall *)
    destruct (f_stack fr1) as [|g0 [|addr [|inOff [|inSize [|retOff [|retSize r]]]]]] eqn:Hst; try discriminate.
    destruct (mem_get _ _ _); try discriminate. rewrite Hro in H.
    apply call_return_obs with (w0 := w) in H; [exact H | apply do_delegatecall_obs, Hrec].
  - (* staticcall *)
    destruct (f_stack fr1) as [|g0 [|addr [|inOff [|inSize [|retOff [|retSize r]]]]]] eqn:Hst; try discriminate.
    destruct (mem_get _ _ _); try discriminate.
    apply call_return_obs with (w0 := w) in H; [exact H | apply do_staticcall_obs, Hrec].
  - discriminate H.
Qed.

(* ------------------------------------------------------------------ one iteration, the loop, the theorem *)

Lemma step_obs : forall rec e w fr, wf_env e -> e_byzantium e = true -> f_ro fr = true -> rec_ro rec -> rec_keeps rec ->
  match step rec e w fr with
  | S_next w' fr' => same_obs w w' /\ f_ro fr' = true
  | S_done o => same_obs w (o_world o)
  end.
Proof.
  intros rec e w fr Hwf Hbyz Hro Hrec Hkeep.
  pose proof (step_keeps rec e w fr Hkeep) as Hsk.
  unfold step in *.
  set (op := get_op (f_code fr) (f_pc fr)) in *.
  set (c := nth (Z.to_nat op) (e_tbl e) invalid_cop) in *.
  destruct (wf_tbl e Hwf) as [s Hs].
  assert (Hok : cop_ok c = true) by (subst c; rewrite Hs; apply nth_cop_ok).
  destruct (negb (c_valid c)) eqn:Hv; [apply same_obs_refl|].
  unfold cop_ok in Hok. rewrite Hv in Hok. cbn [orb] in Hok.
  apply andb_prop in Hok as [Hok _]. apply andb_prop in Hok as [Hok _]. apply andb_prop in Hok as [_ Hwr].
  destruct (validateStack _ _ _); [|apply same_obs_refl|apply same_obs_refl].
  destruct (restricted e fr op c) eqn:Hres; [apply same_obs_refl|].
  unfold restricted in Hres. rewrite Hbyz, Hro in Hres. cbn [andb] in Hres.
  apply orb_false_elim in Hres as [Hcw Hcallv].
  rewrite Hcw in Hwr. rewrite orb_false_r in Hwr. apply negb_true_iff in Hwr.
  destruct (mem_size_big _ _) as [msb|]; [|apply same_obs_refl].
  destruct (match msb with Some b => run_memorySize b | None => Ok 0 end) as [memorySize|?|]; [|apply same_obs_refl|apply same_obs_refl].
  destruct (gas_cost e w fr (c_gas c) memorySize) as [g|?|] eqn:Hgc; [|apply same_obs_refl|apply same_obs_refl].
  apply gas_cost_obs in Hgc.
  destruct (f_gas fr <? g_cost g); [exact Hgc|].
  match goal with |- context[exec rec e (g_world g) ?f1 (c_exec c) (g_temp g)] => set (fr1 := f1) in * end.
  assert (Hro1 : f_ro fr1 = true) by exact Hro.
  assert (Hcallz : c_exec c = E_call -> forall v, back (f_stack fr1) 2 = Some v -> v = 0).
  { intros Hx v Hbk. change (f_stack fr1) with (f_stack fr) in Hbk.
    assert (op = 0xf1) by (apply (e_call_pos s); subst c; rewrite <- Hs; exact Hx).
    assert (Ho : (op =? 0xf1) = true) by lia. rewrite Ho, Hbk in Hcallv. cbn [andb] in Hcallv.
    apply BitLen_zero, Hcallv. }
  destruct (exec rec e (g_world g) fr1 (c_exec c) (g_temp g)) as [w2 fr2 res| er | |] eqn:Hex;
    try (cbn [mkout o_world]; exact Hgc).
  apply exec_obs in Hex; auto.
  assert (H02 : same_obs w w2) by (eapply same_obs_trans; eassumption).
  destruct (c_reverts c); [exact H02|]. destruct (c_halts c); [exact H02|].
  destruct (c_jumps c); (split; [exact H02 | rewrite Hsk; exact Hro]).
Qed.

Lemma interp_of_ro : forall lp, rec_ro lp -> rec_ro (interp_of lp).
Proof. intros lp H w fr Hro. unfold interp_of. destruct (f_code fr); [apply same_obs_refl | apply H, Hro]. Qed.

Lemma loop_ro : forall fuel e, wf_env e -> e_byzantium e = true -> rec_ro (loop fuel e).
Proof.
  induction fuel as [|f IH]; intros e Hwf Hb w fr Hro; cbn [loop]; [apply same_obs_refl|].
  pose proof (step_obs (interp_of (loop f e)) e w fr Hwf Hb Hro (interp_of_ro _ (IH e Hwf Hb)) (interp_of_keeps _ (loop_keeps f e))) as Hs.
  destruct (step _ e w fr) as [w' fr' | o]; [|exact Hs].
  destruct Hs as [H1 H2]. eapply same_obs_trans; [exact H1 | apply IH; assumption].
Qed.

(* the theorem: a STATICCALL frame (evm.StaticCall at any depth, whatever the flag was) and, more generally,
   any frame that runs with readOnly set, under Byzantium rules, for every code, input, gas and fuel *)
Theorem static_is_readonly : forall fuel e w rd tr depth ro caller addr input gas,
  wf_env e -> e_byzantium e = true ->
  same_obs w (o_world (do_staticcall (interp fuel e) e w rd tr depth ro caller addr input gas)).
Proof.
  intros. apply do_staticcall_obs. unfold interp. apply interp_of_ro, loop_ro; assumption.
Qed.

Theorem readonly_frame_is_readonly : forall fuel e w fr,
  wf_env e -> e_byzantium e = true -> f_ro fr = true -> same_obs w (o_world (interp fuel e w fr)).
Proof. intros. unfold interp. apply interp_of_ro; [apply loop_ro|]; assumption. Qed.
