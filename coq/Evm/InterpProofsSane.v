(* Evm/InterpProofsSane.v — C07 "never crashes", towards the whole run: frame_sane (InterpProofsExec) is preserved by an
   iteration of the loop of Interpreter.Run — fully for its code and memory-length parts, and for the stack part by every
   instruction whose pushed value is non-negative by construction (pushes_nonneg); the instructions that push a value read from
   the world, the environment, the call data or the memory are listed in [needs_wellformed_state] and remain. *)
From Coq Require Import ZArith List Bool String Lia ZifyBool ZifyNat.
From AQ Require Import Lib.Bytes Evm.OpsModel Evm.OpsSpec Evm.OpsProofsGas Evm.OpsProofsMem Evm.OpsProofsJumpdest
                       Evm.Interp Evm.InterpProofs Evm.InterpProofs2 Evm.InterpProofs3 Evm.InterpProofsMemInv
                       Evm.InterpProofsPanic Evm.InterpProofsExec.
Import ListNotations.
Local Open Scope Z_scope.
Set Default Timeout 300.

Definition nn (v : Z) : Prop := 0 <= v.

Lemma U256_nonneg : forall x, 0 <= U256 x.
Proof. intro x. unfold U256. apply Z.land_nonneg. right. unfold tt256m1, tt256. lia. Qed.
Lemma exp_loop_nonneg : forall bits base result, 0 <= exp_loop bits base result.
Proof. induction bits; intros; cbn [exp_loop]; auto using U256_nonneg. Qed.
Lemma math_Exp_nonneg : forall b e, 0 <= math_Exp b e.
Proof. intros b []; cbn [math_Exp]; try lia; apply exp_loop_nonneg. Qed.
Lemma Forall_firstn' : forall (P : Z -> Prop) n l, Forall P l -> Forall P (firstn n l).
Proof. induction n; intros [|a l] H; cbn; try constructor; inversion H; subst; auto. Qed.
Lemma Forall_skipn' : forall (P : Z -> Prop) n l, Forall P l -> Forall P (skipn n l).
Proof. induction n; intros [|a l] H; cbn; auto; inversion H; subst; auto. Qed.
Lemma be_to_Z_nonneg : forall l, Forall nn l -> 0 <= be_to_Z l.
Proof.
  intros l H. unfold be_to_Z. assert (G : forall acc, 0 <= acc -> 0 <= fold_left (fun a b => a * 256 + b) l acc).
  { induction H as [|x l Hx Hl IH]; intros acc Ha; cbn [fold_left]; [exact Ha | apply IH; unfold nn in Hx; lia]. }
  apply G. lia.
Qed.
Lemma hashZ_nn : forall d, Forall nn (hashZ d).
Proof. intro d. unfold hashZ. apply Forall_forall. intros x Hx. apply in_map_iff in Hx as (b & <- & _). unfold nn, b2z. lia. Qed.

Ltac nnval :=
  repeat match goal with |- context[if ?b then _ else _] => destruct b end;
  first [ apply U256_nonneg | apply math_Exp_nonneg | lia
        | apply Z.land_nonneg; right; lia | apply Z.land_nonneg; left; assumption | apply Z.lor_nonneg; split; assumption
        | apply Z.lxor_nonneg; split; intro; assumption ].

Lemma exec_arith_nonneg : forall op st st', In op arith_ops -> Forall nn st -> exec_arith op st = Ok st' -> Forall nn st'.
Proof.
  intros op st st' Hin Hst H. unfold arith_ops in Hin. cbn [In] in Hin.
  repeat (destruct Hin as [<-|Hin]; [
    destruct st as [|a [|b [|c r]]]; cbn [exec_arith] in H; try discriminate;
    repeat match type of H with context[if ?t then _ else _] => destruct t end; try discriminate;
    injection H as <-;
    repeat match goal with Hf : Forall nn (_ :: _) |- _ => inversion Hf; clear Hf; subst end;
    unfold nn in *;
    repeat (constructor; try assumption);
    unfold op_ADD, op_SUB, op_MUL, op_DIV, op_SDIV, op_MOD, op_SMOD, op_ADDMOD, op_MULMOD, op_EXP, op_SIGNEXTEND, op_NOT, op_LT, op_GT,
           op_SLT, op_SGT, op_EQ, op_ISZERO, op_AND, op_OR, op_XOR, op_BYTE, math_Byte, op_SHL, op_SHR, op_SAR; cbv zeta;
    try nnval |]).
  contradiction.
Qed.

(* ------------------------------------------------------------------ which instructions *)

(* the value the instruction pushes (if any) is a non-negative integer whatever the world, the environment, the call
   data and the memory contain *)
Definition pushes_nonneg (x : execfn) : bool :=
  match x with
  | E_address | E_origin | E_caller | E_callvalue | E_gasprice | E_coinbase   (* frame / environment fields *)
  | E_balance | E_sload                                                      (* read from the world *)
  | E_blockhash                                                              (* environment function *)
  | E_calldataload | E_mload                                                 (* call data / memory contents *)
  | E_unknown => false
  | _ => true
  end.

Lemma blen_nn : forall l, 0 <= blen l. Proof. intro. unfold blen. lia. Qed.

Lemma pad_nn : forall l n, Forall nn l -> Forall nn (RightPadBytes l n).
Proof.
  intros l n H. unfold RightPadBytes. destruct (n <=? blen l); [exact H|].
  apply Forall_app. split; [exact H|]. apply Forall_forall. intros x Hx. apply repeat_spec in Hx. subst. unfold nn. lia.
Qed.
Lemma byteval_nn : forall l, Forall byteval l -> Forall nn l.
Proof. intros l H. eapply Forall_impl; [|exact H]. unfold byteval, nn. cbn. intros; lia. Qed.

Lemma create_address_nn : forall a n, 0 <= create_address a n.
Proof.
  intros. unfold create_address. apply be_to_Z_nonneg. apply Forall_skipn'.
  apply Forall_forall. intros x Hx. apply in_map_iff in Hx as (b & <- & _). unfold nn, b2z. lia.
Qed.
Lemma do_create_addr_nn : forall rec e w rd tr depth ro caller code gas value,
  let o := do_create rec e w rd tr depth ro caller code gas value in
  o_res o <> R_panic -> o_res o <> R_fuel -> 0 <= o_addr o.
Proof.
  intros rec e w rd tr depth ro caller code gas value. cbv zeta. unfold do_create.
  destruct (depth >? _); [cbn; lia|]. destruct (negb _); [cbn; lia|]. destruct (_ || _); [cbn; lia|].
  match goal with |- context[run_contract rec e ?w3 ?a ?fr rd] => set (o := run_contract rec e w3 a fr rd) end.
  destruct (o_res o) eqn:Eo; intros H1 H2; try (rewrite Eo in *; congruence);
    repeat match goal with |- context[let '(_, _) := ?t in _] => destruct t as [[? ?] ?] end; cbn [o_addr]; apply create_address_nn.
Qed.

Ltac inv_stack :=
  repeat match goal with Hf : Forall nn (_ :: _) |- _ => inversion Hf; clear Hf; subst end.
Ltac fin_sane :=
  cbn [set_stack set_stack_mem set_pc_stack set_pc after_child f_stack f_code f_pc];
  inv_stack;
  split; [ repeat (constructor; try assumption); unfold nn in *;
           first [ apply U256_nonneg | apply blen_nn | apply be_to_Z_nonneg; apply hashZ_nn | lia | assumption ]
         | split; [reflexivity | try assumption; try lia] ].

Ltac inv_sane H :=
  repeat match type of H with
  | match ?t with _ => _ end = _ => destruct t eqn:?; try discriminate
  | (if ?t then _ else _) = _ => destruct t eqn:?; try discriminate
  | lift_mem _ _ _ _ = _ => unfold lift_mem in H
  end;
  injection H as _ <- _; fin_sane.

Lemma call_return_sane : forall w fr rest ro rs o w2 fr2 res, Forall nn rest -> 0 <= f_pc fr ->
  call_return w fr rest ro rs o = X_ok w2 fr2 res ->
  Forall nn (f_stack fr2) /\ f_code fr2 = f_code fr /\ 0 <= f_pc fr2.
Proof.
  intros w fr rest ro rs o w2 fr2 res Hr Hp H. unfold call_return in H.
  destruct (o_res o); try discriminate;
    try (destruct (mem_set _ _ _ _); try discriminate); injection H as _ <- _;
    cbn [after_child f_stack f_code f_pc]; (split; [constructor; [unfold nn; lia | exact Hr] | split; [reflexivity | exact Hp]]).
Qed.

Lemma exec_sane : forall rec e w fr1 x temp w2 fr2 res,
  pushes_nonneg x = true -> exec_param_ok x = true ->
  Forall nn (f_stack fr1) -> Forall byteval (f_code fr1) -> 0 <= f_pc fr1 -> 0 <= f_gas fr1 ->
  exec rec e w fr1 x temp = X_ok w2 fr2 res ->
  Forall nn (f_stack fr2) /\ f_code fr2 = f_code fr1 /\ 0 <= f_pc fr2.
Proof.
  intros rec e w fr1 x temp w2 fr2 res Hp Hpar Hst Hcode Hpc Hgas H.
  remember (f_stack fr1) as st eqn:Est.
  destruct x; try discriminate Hp; unfold exec in H; rewrite <- ?Est in H; try solve [inv_sane H].
  - (* arith *)
    cbn [exec_param_ok] in Hpar. apply existsb_exists in Hpar as (o & Hin & Heq). apply Z.eqb_eq in Heq. subst o.
    destruct (exec_arith op st) as [st'|?|] eqn:Ea; try discriminate. injection H as _ <- _.
    cbn [set_stack f_stack f_code f_pc]. split; [eapply exec_arith_nonneg; eassumption | split; [reflexivity | assumption]].
  - (* stop *) injection H as _ <- _. rewrite <- Est. auto.
  - (* jump *)
    destruct st as [|pos r]; try discriminate. destruct (op_JUMP (f_code fr1) pos) as [pc'|?|] eqn:Ej; try discriminate.
    injection H as _ <- _. cbn [set_pc_stack f_stack f_code f_pc]. inv_stack.
    split; [assumption | split; [reflexivity|]].
    unfold op_JUMP in Ej. destruct (has _ _) as [[]|?|]; try discriminate. injection Ej as <-. apply big_Uint64_nonneg.
  - (* jumpi *)
    destruct st as [|pos [|cond r]]; try discriminate. destruct (op_JUMPI (f_code fr1) (f_pc fr1) pos cond) as [pc'|?|] eqn:Ej; try discriminate.
    injection H as _ <- _. cbn [set_pc_stack f_stack f_code f_pc]. inv_stack.
    split; [assumption | split; [reflexivity|]].
    unfold op_JUMPI in Ej. destruct (negb _).
    + unfold op_JUMP in Ej. destruct (has _ _) as [[]|?|]; try discriminate. injection Ej as <-. apply big_Uint64_nonneg.
    + injection Ej as <-. apply wrap64_nonneg.
  - (* jumpdest *) injection H as _ <- _. rewrite <- Est. auto.
  - (* push *)
    destruct (op_PUSH (f_code fr1) (f_pc fr1) n n) as [v pc'] eqn:Ep. injection H as _ <- _.
    cbn [set_pc_stack f_stack f_code f_pc]. unfold op_PUSH in Ep. injection Ep as <- <-.
    split; [constructor; [|assumption] | split; [reflexivity | apply wrap64_nonneg]].
    unfold nn. apply be_to_Z_nonneg, pad_nn. unfold slice. apply Forall_firstn', Forall_skipn', byteval_nn, Hcode.
  - (* dup *)
    unfold op_DUP in H. destruct (nth_error st (Z.to_nat (n - 1))) as [v|] eqn:En; try discriminate. injection H as _ <- _.
    cbn [set_stack f_stack f_code f_pc]. split; [constructor; [|assumption] | split; [reflexivity | assumption]].
    rewrite Forall_forall in Hst. apply Hst. eapply nth_error_In; eassumption.
  - (* swap *)
    unfold op_SWAP in H. destruct st as [|top rest]; try discriminate.
    destruct (nth_error rest (Z.to_nat (n - 1))) as [v|] eqn:En; try discriminate. injection H as _ <- _.
    cbn [set_stack f_stack f_code f_pc]. inv_stack.
    split; [|split; [reflexivity | assumption]].
    constructor; [match goal with Hr : Forall nn rest |- _ => rewrite Forall_forall in Hr; apply Hr; eapply nth_error_In; eassumption end|].
    apply Forall_app. split; [apply Forall_firstn'; assumption | constructor; [assumption | apply Forall_skipn'; assumption]].
  - (* log *)
    destruct st as [|ms [|sz r]]; try discriminate. destruct (_ <? n); try discriminate.
    destruct (mem_get _ _ _); try discriminate. injection H as _ <- _.
    cbn [set_stack f_stack f_code f_pc]. inv_stack. split; [apply Forall_skipn'; assumption | split; [reflexivity | assumption]].
  - (* create *)
    destruct st as [|value [|off [|len r]]]; try discriminate. destruct (mem_get _ _ _); try discriminate.
    match type of H with context[do_create ?a ?b ?c ?d ?e' ?f ?g ?h ?i ?j ?k] =>
      pose proof (do_create_addr_nn a b c d e' f g h i j k) as Ha; cbv zeta in Ha; set (o := do_create a b c d e' f g h i j k) in * end.
    destruct (o_res o) eqn:Eo; try discriminate; injection H as _ <- _; cbn [after_child f_stack f_code f_pc]; inv_stack;
      (split; [constructor; [unfold nn; repeat match goal with |- context[if ?b then _ else _] => destruct b end; try lia; apply Ha; discriminate | assumption]
              | split; [reflexivity | assumption]]).
  - destruct st as [|g0 [|addr [|value0 [|io [|is [|ro [|rs r]]]]]]]; try discriminate. destruct (mem_get _ _ _); try discriminate.
    inv_stack. eapply call_return_sane; eassumption.
  - destruct st as [|g0 [|addr [|value0 [|io [|is [|ro [|rs r]]]]]]]; try discriminate. destruct (mem_get _ _ _); try discriminate.
    inv_stack. eapply call_return_sane; eassumption.
  - destruct st as [|g0 [|addr [|io [|is [|ro [|rs r]]]]]]; try discriminate. destruct (mem_get _ _ _); try discriminate.
    inv_stack. eapply call_return_sane; eassumption.
  - destruct st as [|g0 [|addr [|io [|is [|ro [|rs r]]]]]]; try discriminate. destruct (mem_get _ _ _); try discriminate.
    inv_stack. eapply call_return_sane; eassumption.
Qed.

(* ------------------------------------------------------------------ one iteration *)

(* the instructions whose pushed value depends on the contents of the world, the environment, the call data or the memory:
   for these, frame_sane is preserved only under well-formedness of that state (not proved) *)
Definition needs_wellformed_state : list execfn :=
  [E_address; E_origin; E_caller; E_callvalue; E_gasprice; E_coinbase; E_balance; E_sload; E_blockhash; E_calldataload; E_mload].
Lemma pushes_nonneg_complement : forall x, pushes_nonneg x = false -> x = E_unknown \/ In x needs_wellformed_state.
Proof. intros [] H; try discriminate H; cbn; auto 20. Qed.

Theorem step_preserves_sane : forall rec e w fr w' fr', wf_env e -> frame_sane fr -> 0 <= f_pc fr ->
  pushes_nonneg (c_exec (nth (Z.to_nat (get_op (f_code fr) (f_pc fr))) (e_tbl e) invalid_cop)) = true ->
  step rec e w fr = S_next w' fr' -> frame_sane fr' /\ 0 <= f_pc fr'.
Proof.
  intros rec e w fr w' fr' Hwf (Hnn & Hcode & Hmem) Hpc Hsub H. unfold step in H.
  set (op := get_op (f_code fr) (f_pc fr)) in *.
  set (c := nth (Z.to_nat op) (e_tbl e) invalid_cop) in *.
  destruct (wf_tbl e Hwf) as [s Hs].
  assert (Hex : exec_ok c = true) by (subst c; rewrite Hs; apply nth_exec_ok).
  assert (Hmc : InterpProofsMemInv.mem_compat c = true) by (subst c; rewrite Hs; apply InterpProofsMemInv.nth_mem_compat).
  assert (Hok : cop_ok c = true) by (subst c; rewrite Hs; apply nth_cop_ok).
  destruct (negb (c_valid c)) eqn:Hv; [discriminate|].
  unfold exec_ok in Hex. rewrite Hv in Hex. cbn [orb] in Hex.
  apply andb_prop in Hex as [Hex Hbind]. apply andb_prop in Hex as [Hneed Hpar].
  unfold InterpProofsMemInv.mem_compat in Hmc. rewrite Hv in Hmc. cbn [orb] in Hmc.
  unfold cop_ok in Hok. rewrite Hv in Hok. cbn [orb] in Hok.
  apply andb_prop in Hok as [Hok _]. apply andb_prop in Hok as [Hok _]. apply andb_prop in Hok as [Hok _].
  apply andb_prop in Hok as [Hok _]. apply andb_prop in Hok as [Hok _]. apply andb_prop in Hok as [Hmin0 _].
  destruct (validateStack _ _ _); try discriminate.
  destruct (restricted e fr op c); [discriminate|].
  destruct (mem_size_big (c_mem c) (f_stack fr)) as [msb|] eqn:Emsb; [|discriminate].
  destruct (match msb with Some b => run_memorySize b | None => Ok 0 end) as [ms|?|] eqn:Hms; try discriminate.
  destruct (gas_cost e w fr (c_gas c) ms) as [g|?|] eqn:Hgc; try discriminate.
  destruct (f_gas fr <? g_cost g) eqn:Hlt; [discriminate|].
  assert (Hmsb0 : ms <= 0xffffffffe0).
  { assert (Hor : InterpProofsMemInv.gas_uses_mem (c_gas c) = true \/ ms = 0).
    { destruct (InterpProofsMemInv.gas_uses_mem (c_gas c)) eqn:Hu; [left; reflexivity|right].
      destruct (c_mem c) eqn:Hcm; try rewrite Hu in Hmc; try discriminate Hmc.
      cbn [mem_size_big] in Emsb. injection Emsb as <-. congruence. }
    destruct (InterpProofsMemInv.gas_cost_mem e w fr (c_gas c) ms g Hwf ltac:(lia) Hgc Hor) as (fee & Hm & _ & _).
    destruct (Z_le_gt_dec ms 0xffffffffe0) as [Hle|Hgt]; [exact Hle|].
    rewrite memoryGasCost_error in Hm by lia. discriminate. }
  match type of H with context[exec rec e (g_world g) ?f1 (c_exec c) (g_temp g)] => set (fr1 := f1) in * end.
  destruct (exec rec e (g_world g) fr1 (c_exec c) (g_temp g)) as [w2 fr2 res| er | |] eqn:Hexec; try discriminate.
  pose proof (exec_mem _ _ _ _ _ _ _ _ _ Hexec) as [Hm2 _].
  apply exec_sane in Hexec; try assumption; [|change (f_gas fr1) with (f_gas fr - g_cost g); lia].
  destruct Hexec as (Hst2 & Hc2 & Hpc2).
  pose proof (resized_len (f_mem fr) ms) as [_ Hhi].
  assert (Hmem2 : blen (f_mem fr2) < 2 ^ 61).
  { rewrite Hm2. change (f_mem fr1) with (if ms >? 0 then mem_resize (f_mem fr) ms else f_mem fr).
    assert (2 ^ 61 = 2305843009213693952) by reflexivity. lia. }
  assert (Hcode2 : Forall byteval (f_code fr2)) by (rewrite Hc2; exact Hcode).
  set (fr3 := if c_returns c then set_rdata fr2 res else fr2) in *.
  assert (H3 : frame_sane fr3 /\ 0 <= f_pc fr3).
  { subst fr3. destruct (c_returns c); cbn [set_rdata f_stack f_code f_mem f_pc]; (split; [split; [|split]|]); assumption. }
  destruct (c_reverts c); [discriminate|]. destruct (c_halts c); [discriminate|].
  destruct (c_jumps c); injection H as _ <-; [exact H3|].
  destruct H3 as [(A & B & C) D]. cbn [set_pc set_pc_stack f_stack f_code f_mem f_pc].
  split; [split; [|split]; assumption | apply wrap64_nonneg].
Qed.

(* a frame as Call / CallCode / DelegateCall / StaticCall / Create build it is sane when the code it runs is made of bytes *)
Lemma new_frame_sane : forall code input self caller value gas ro depth tr, Forall byteval code ->
  frame_sane (new_frame code input self caller value gas ro depth tr) /\ 0 <= f_pc (new_frame code input self caller value gas ro depth tr).
Proof.
  intros. unfold frame_sane, nonneg_stack, new_frame; cbn [f_stack f_code f_mem f_pc].
  split; [split; [constructor | split; [assumption | reflexivity]] | lia].
Qed.
