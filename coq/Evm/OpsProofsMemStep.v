(* Evm/OpsProofsMemStep.v — memory instructions WITHOUT the "memory already resized"
   precondition: for every 256-bit offset / length, the interpreter's own preparation of the step
   (memory size, gas function, resize; OpsMemStep.prepare_mem) either fails with an explicit error
   or produces a memory that covers the access and is the old memory extended by zero bytes, and
   the instruction then computes the specification value on the (conceptually infinite,
   zero-initialised) memory of the Yellow Paper. *)
From Coq Require Import ZArith List Bool Lia ZifyBool.
From AQ Require Import Evm.OpsModel Evm.OpsSpec Evm.OpsMemStep Evm.OpsProofsGas Evm.OpsProofsMem Evm.OpsProofsEnv.
Import ListNotations.
Local Open Scope Z_scope.
#[local] Ltac Zify.zify_post_hook ::= Z.div_mod_to_equations.

Definition MEMCAP : Z := 0xffffffffe0.

(* a gas function that consults memoryGasCost accepts no memory size above the guard *)
Definition mem_gated (gasfn : Z -> Z -> Z -> res (Z * Z)) : Prop :=
  forall a b ms r, gasfn a b ms = Ok r -> ms <= MEMCAP.

Lemma memgas_gated : mem_gated memoryGasCost.
Proof.
  intros a b ms r H. unfold memoryGasCost in H. unfold MEMCAP.
  destruct (ms =? 0) eqn:E0; [lia|].
  destruct (ms >? 1099511627744) eqn:E1; [discriminate H|lia].
Qed.

Lemma gas_mem_base_gated : forall base, mem_gated (gas_mem_base base).
Proof.
  intros base a b ms r H. unfold gas_mem_base in H.
  destruct (memoryGasCost a b ms) as [[g l]|e|] eqn:E; try discriminate H.
  exact (memgas_gated a b ms _ E).
Qed.

Lemma gas_mem_words_gated : forall base pw len, mem_gated (fun ml la ms => gas_mem_words base pw ml la ms len).
Proof.
  intros base pw len a b ms r H. unfold gas_mem_words in H.
  destruct (memoryGasCost a b ms) as [[g l]|e|] eqn:E; try discriminate H.
  exact (memgas_gated a b ms _ E).
Qed.

Lemma gasLog_gated : forall n len, mem_gated (fun ml la ms => gasLog n ml la ms len).
Proof.
  intros n len a b ms r H. unfold gasLog in H.
  destruct (bigUint64 len) as [rs o0]. destruct o0; [discriminate H|].
  destruct (memoryGasCost a b ms) as [[g l]|e|] eqn:E; try discriminate H.
  exact (memgas_gated a b ms _ E).
Qed.

(* ------------------------------------------------------------------ the preparation of a step *)

Lemma blen_app_zeros : forall (m : list Z) k, blen (m ++ repeat 0 k) = blen m + Z.of_nat k.
Proof. intros. unfold blen. rewrite app_length, repeat_length. lia. Qed.

Lemma blen_nonneg : forall (l : list Z), 0 <= blen l.
Proof. intros. unfold blen. lia. Qed.

(* Ok: old memory extended by zeros, covering the range, never beyond the guard; this is the
   "memory already resized" precondition of the instruction theorems, now proved *)
Theorem prepare_mem_ok : forall avail mem last gasfn off len m' g l', mem_gated gasfn -> word off -> word len ->
  prepare_mem avail mem last gasfn off len = Ok (m', g, l') ->
  exists k, m' = mem ++ repeat 0 k /\ (len = 0 \/ off + len <= blen m') /\ blen m' <= Z.max (blen mem) MEMCAP /\
            gasfn (blen mem) last (if len =? 0 then 0 else 32 * ceil32 (off + len)) = Ok (g, l').
Proof.
  intros avail mem last gasfn off len m' g l' Hg Ho Hl H.
  unfold prepare_mem in H. rewrite (run_memorySize_spec off len Ho Hl) in H. cbv zeta in H.
  destruct Ho as [Ho _]. destruct Hl as [Hl _].
  pose proof (blen_nonneg mem) as Bm.
  destruct (len =? 0) eqn:E0.
  - change (ceil32 0) with 0 in H. change (32 * 0) with 0 in H.
    pose proof maxU64_val as M. assert (0 <=? maxU64 = true) as K by lia. rewrite K in H.
    destruct (gasfn (blen mem) last 0) as [[g0 l0]|e|] eqn:E; try discriminate H.
    destruct (avail <? g0); [discriminate H|].
    injection H as <- <- <-. exists O. cbn [repeat]. rewrite app_nil_r.
    split; [reflexivity|]. split; [left; lia|]. split; [lia|reflexivity].
  - destruct (32 * ceil32 (off + len) <=? maxU64) eqn:E1; [|discriminate H].
    set (ms := 32 * ceil32 (off + len)) in *.
    destruct (gasfn (blen mem) last ms) as [[g0 l0]|e|] eqn:E; try discriminate H.
    destruct (avail <? g0); [discriminate H|].
    pose proof (Hg _ _ _ _ E) as Hcap.
    assert (Hcov : off + len <= ms) by (unfold ms, ceil32; lia).
    assert (ms >? 0 = true) as K by lia. rewrite K in H.
    injection H as <- <- <-.
    unfold mem_resize. destruct (blen mem <? ms) eqn:E2.
    + exists (Z.to_nat (ms - blen mem)). split; [reflexivity|].
      rewrite blen_app_zeros. rewrite Z2Nat.id by lia.
      split; [right; lia|]. split; [lia|reflexivity].
    + exists O. cbn [repeat]. rewrite app_nil_r. split; [reflexivity|].
      split; [right; lia|]. split; [lia|reflexivity].
Qed.

(* the preparation never panics, and its errors are the two explicit ones *)
Theorem prepare_mem_errors : forall avail mem last gasfn off len, (forall a b c, gasfn a b c <> Panic) -> word off -> word len ->
  match prepare_mem avail mem last gasfn off len with
  | Ok _ => True
  | Err e => e = ErrGasUintOverflow \/ e = ErrOutOfGas
  | Panic => False
  end.
Proof.
  intros avail mem last gasfn off len Hp Ho Hl. unfold prepare_mem.
  rewrite (run_memorySize_spec off len Ho Hl). cbv zeta.
  destruct (32 * ceil32 (if len =? 0 then 0 else off + len) <=? maxU64); [|left; reflexivity].
  destruct (gasfn (blen mem) last (32 * ceil32 (if len =? 0 then 0 else off + len))) as [[g0 l0]|e|] eqn:E.
  - destruct (avail <? g0); [right; reflexivity|exact I].
  - right; reflexivity.
  - exact (Hp _ _ _ E).
Qed.

(* an offset + length that does not fit in 64 bits is always an explicit error, whatever the gas function *)
Theorem prepare_mem_overflow : forall avail mem last gasfn off len, word off -> word len -> len <> 0 -> two64 <= off + len ->
  prepare_mem avail mem last gasfn off len = Err ErrGasUintOverflow.
Proof.
  intros avail mem last gasfn off len Ho Hl Hn Hb. unfold prepare_mem.
  rewrite (run_memorySize_spec off len Ho Hl). cbv zeta.
  destruct (len =? 0) eqn:E0; [lia|].
  pose proof two64_val as T. pose proof maxU64_val as M.
  assert (32 * ceil32 (off + len) <=? maxU64 = false) as -> by (unfold ceil32; lia).
  reflexivity.
Qed.

(* and a range that needs more than the guard is refused by every gated gas function (as out of gas) *)
Theorem prepare_mem_above_cap : forall avail mem last gasfn off len, mem_gated gasfn -> (forall a b c, gasfn a b c <> Panic) ->
  word off -> word len -> len <> 0 -> MEMCAP < off + len ->
  exists e, prepare_mem avail mem last gasfn off len = Err e.
Proof.
  intros avail mem last gasfn off len Hg Hp Ho Hl Hn Hb.
  destruct (prepare_mem avail mem last gasfn off len) as [[[m' g] l']|e|] eqn:E.
  - destruct (prepare_mem_ok _ _ _ _ _ _ _ _ _ Hg Ho Hl E) as [k [_ [_ [_ Hgas]]]].
    destruct (len =? 0) eqn:E0; [lia|].
    pose proof (Hg _ _ _ _ Hgas). unfold ceil32 in *. lia.
  - eauto.
  - pose proof (prepare_mem_errors avail mem last gasfn off len Hp Ho Hl) as H. rewrite E in H. contradiction.
Qed.

(* ------------------------------------------------------------------ zero extension is invisible to the specification *)

Lemma byte_at_app_zeros : forall mem k i, byte_at (mem ++ repeat 0 k) i = byte_at mem i.
Proof.
  intros. rewrite !byte_at_old. destruct (i <? 0); [reflexivity|]. apply nth_app_zeros.
Qed.

Lemma spec_data_app_zeros : forall mem k off n, spec_data (mem ++ repeat 0 k) off n = spec_data mem off n.
Proof. intros. unfold spec_data. apply map_ext. intro a. apply byte_at_app_zeros. Qed.

Lemma bytesval_app_zeros : forall mem k, bytesval mem -> bytesval (mem ++ repeat 0 k).
Proof.
  intros mem k H. unfold bytesval in *. apply Forall_app. split; [exact H|].
  apply Forall_forall. intros x Hx. apply repeat_spec in Hx. subst. lia.
Qed.

Lemma memcap_small : MEMCAP < 2 ^ 41.
Proof. unfold MEMCAP. lia. Qed.

(* ------------------------------------------------------------------ instructions, any operands *)

Definition mem_bounded (mem : list Z) : Prop := blen mem <= MEMCAP.

(* MLOAD: the 32 bytes at off of the zero-extended memory *)
Theorem run_MLOAD_full : forall avail mem last off v m' g l', mem_bounded mem -> word off ->
  run_MLOAD avail mem last off = Ok (v, m', g, l') ->
  v = spec_MLOAD mem off /\ (exists k, m' = mem ++ repeat 0 k) /\ off + 32 <= blen m'.
Proof.
  intros avail mem last off v m' g l' Hb Ho H. unfold run_MLOAD in H.
  destruct (prepare_mem avail mem last gasMLoad off 32) as [[[m1 g1] l1]|e|] eqn:E; try discriminate H.
  assert (W32 : word 32) by (unfold word; assert (32 < W) by (vm_compute; reflexivity); lia).
  destruct (prepare_mem_ok _ _ _ _ _ _ _ _ _ (gas_mem_base_gated _) Ho W32 E) as [k [Hm [Hc [Hl _]]]].
  destruct Hc as [Hc|Hc]; [lia|].
  pose proof memcap_small. unfold mem_bounded in Hb. destruct Ho as [Ho _].
  rewrite op_MLOAD_spec in H by lia.
  injection H as <- <- <- <-. subst m1.
  split; [unfold spec_MLOAD; apply f_equal; apply spec_data_app_zeros|]. split; [eauto|exact Hc].
Qed.

(* MSTORE / MSTORE8: the zero-extended memory with the bytes written *)
Theorem run_MSTORE_full : forall avail mem last off v m'' g l', mem_bounded mem -> bytesval mem -> word off -> word v ->
  run_MSTORE avail mem last off v = Ok (m'', g, l') ->
  exists k, m'' = spec_MSTORE (mem ++ repeat 0 k) off v /\ off + 32 <= blen (mem ++ repeat 0 k).
Proof.
  intros avail mem last off v m'' g l' Hb Hbv Ho Hv H. unfold run_MSTORE in H.
  destruct (prepare_mem avail mem last gasMStore off 32) as [[[m1 g1] l1]|e|] eqn:E; try discriminate H.
  assert (W32 : word 32) by (unfold word; assert (32 < W) by (vm_compute; reflexivity); lia).
  destruct (prepare_mem_ok _ _ _ _ _ _ _ _ _ (gas_mem_base_gated _) Ho W32 E) as [k [Hm [Hc [Hl _]]]].
  destruct Hc as [Hc|Hc]; [lia|].
  pose proof memcap_small. unfold mem_bounded in Hb. subst m1.
  rewrite op_MSTORE_spec in H; try lia; try assumption; [|apply bytesval_app_zeros; assumption|destruct Ho; lia].
  cbn [lift3] in H. injection H as <- <- <-. exists k. split; [reflexivity|exact Hc].
Qed.

Theorem run_MSTORE8_full : forall avail mem last off v m'' g l', mem_bounded mem -> word off -> word v ->
  run_MSTORE8 avail mem last off v = Ok (m'', g, l') ->
  exists k, m'' = spec_MSTORE8 (mem ++ repeat 0 k) off v /\ off + 1 <= blen (mem ++ repeat 0 k).
Proof.
  intros avail mem last off v m'' g l' Hb Ho Hv H. unfold run_MSTORE8 in H.
  destruct (prepare_mem avail mem last gasMStore8 off 1) as [[[m1 g1] l1]|e|] eqn:E; try discriminate H.
  assert (W1 : word 1) by (unfold word; assert (1 < W) by (vm_compute; reflexivity); lia).
  destruct (prepare_mem_ok _ _ _ _ _ _ _ _ _ (gas_mem_base_gated _) Ho W1 E) as [k [Hm [Hc [Hl _]]]].
  destruct Hc as [Hc|Hc]; [lia|].
  pose proof memcap_small. unfold mem_bounded in Hb. subst m1. destruct Ho as [Ho _].
  rewrite op_MSTORE8_spec in H by (try assumption; lia).
  cbn [lift3] in H. injection H as <- <- <-. exists k. split; [reflexivity|exact Hc].
Qed.

(* CALLDATACOPY / CODECOPY: len bytes of the data from dataOff (zeros beyond its end) written at memOff *)
Theorem run_DATACOPY_full : forall avail mem last data memOff dataOff len m'' g l', mem_bounded mem -> blen data < 2 ^ 62 ->
  word memOff -> word dataOff -> word len ->
  run_DATACOPY avail mem last data memOff dataOff len = Ok (m'', g, l') ->
  exists k, m'' = spec_DATACOPY (mem ++ repeat 0 k) data memOff dataOff len /\ (len = 0 \/ memOff + len <= blen (mem ++ repeat 0 k)).
Proof.
  intros avail mem last data memOff dataOff len m'' g l' Hb Hd Hm Hdo Hl H. unfold run_DATACOPY in H.
  destruct (prepare_mem avail mem last (fun ml la ms => gasCallDataCopy ml la ms len) memOff len) as [[[m1 g1] l1]|e|] eqn:E; try discriminate H.
  destruct (prepare_mem_ok _ _ _ _ _ _ _ _ _ (gas_mem_words_gated _ _ len) Hm Hl E) as [k [Hm1 [Hc [Hl1 _]]]].
  pose proof memcap_small. unfold mem_bounded in Hb. subst m1.
  destruct Hm as [Hm0 _]. destruct Hl as [Hl0 Hl2].
  destruct Hc as [Hc|Hc].
  - (* len = 0: mem_set with size 0 leaves the memory; the specification writes nothing *)
    subst len. unfold op_DATACOPY in H.
    assert (big_Uint64 0 = 0) as K by reflexivity. rewrite K in H.
    unfold mem_set in H.
    assert (0 >? blen (mem ++ repeat 0 k) = false) as K1 by (pose proof (blen_nonneg (mem ++ repeat 0 k)); lia).
    rewrite K1 in H. cbn [lift3] in H. change (0 >? 0) with false in H. cbn iota in H. injection H as <- <- <-.
    exists k. split; [|left; reflexivity].
    unfold spec_DATACOPY, spec_mem_write. change (Z.to_nat 0) with O. cbn [spec_data seq map length].
    symmetry. apply nth_ext with (d := 0) (d' := 0); [rewrite map_length, seq_length; reflexivity|].
    intros n Hn. rewrite map_length, seq_length in Hn.
    rewrite nth_map_seq by exact Hn.
    assert ((memOff <=? Z.of_nat n) && (Z.of_nat n <? memOff + Z.of_nat 0) = false) as -> by lia. reflexivity.
  - rewrite op_DATACOPY_spec in H by (try assumption; lia).
    cbn [lift3] in H. injection H as <- <- <-. exists k. split; [reflexivity|right; exact Hc].
Qed.

(* SHA3 for any hash H: the hash of the len bytes at off of the zero-extended memory *)
Theorem run_SHA3_full : forall (H : list Z -> list Z) avail mem last off len v m' g l', mem_bounded mem -> word off -> word len ->
  run_SHA3 H avail mem last off len = Ok (v, m', g, l') -> v = spec_SHA3 H mem off len.
Proof.
  intros H avail mem last off len v m' g l' Hb Ho Hl Hr. unfold run_SHA3 in Hr.
  destruct (prepare_mem avail mem last (fun ml la ms => gasSha3 ml la ms len) off len) as [[[m1 g1] l1]|e|] eqn:E; try discriminate Hr.
  destruct (prepare_mem_ok _ _ _ _ _ _ _ _ _ (gas_mem_words_gated _ _ len) Ho Hl E) as [k [Hm1 [Hc [Hl1 _]]]].
  pose proof memcap_small. unfold mem_bounded in Hb. subst m1.
  destruct (Z.eq_dec len 0) as [->|Hn].
  - rewrite op_SHA3_spec0 in Hr by exact Ho. injection Hr as <- _ _ _. reflexivity.
  - destruct Hc as [Hc|Hc]; [lia|].
    destruct Ho as [Ho _]. destruct Hl as [Hl0 _].
    rewrite op_SHA3_spec in Hr by lia. injection Hr as <- _ _ _.
    unfold spec_SHA3. rewrite spec_data_app_zeros. reflexivity.
Qed.

(* the byte range read by LOGn / RETURN / REVERT (and the inputs of CREATE / CALL): the bytes of the zero-extended memory *)
Theorem run_RANGE_full : forall gasfn avail mem last off len d m' g l', mem_gated gasfn -> mem_bounded mem -> word off -> word len ->
  run_RANGE gasfn avail mem last off len = Ok (d, m', g, l') -> d = spec_data mem off (Z.to_nat len).
Proof.
  intros gasfn avail mem last off len d m' g l' Hg Hb Ho Hl Hr. unfold run_RANGE in Hr.
  destruct (prepare_mem avail mem last gasfn off len) as [[[m1 g1] l1]|e|] eqn:E; try discriminate Hr.
  destruct (prepare_mem_ok _ _ _ _ _ _ _ _ _ Hg Ho Hl E) as [k [Hm1 [Hc [Hl1 _]]]].
  pose proof memcap_small. unfold mem_bounded in Hb. subst m1.
  destruct Ho as [Ho _]. destruct Hl as [Hl0 _].
  destruct (Z.eq_dec len 0) as [->|Hn].
  - unfold mem_get in Hr. assert (big_Int64 0 = 0) as K by reflexivity. rewrite K in Hr. cbn in Hr.
    injection Hr as <- _ _ _. reflexivity.
  - destruct Hc as [Hc|Hc]; [lia|].
    rewrite (big_Int64_small off) in Hr by lia. rewrite (big_Int64_small len) in Hr by lia.
    unfold mem_get in Hr.
    destruct (len =? 0) eqn:E0; [lia|].
    destruct (blen (mem ++ repeat 0 k) >? off) eqn:E1; [|lia].
    destruct (len <? 0) eqn:E2; [lia|].
    destruct ((off <? 0) || (off + len >? blen (mem ++ repeat 0 k))) eqn:E3; [lia|].
    rewrite slice_spec_data in Hr by lia. injection Hr as <- _ _ _. apply spec_data_app_zeros.
Qed.

(* RETURNDATACOPY: explicit bounds error exactly when the range exceeds the buffer, whatever the memory *)
Theorem run_RETURNDATACOPY_full : forall avail mem last rd memOff dataOff len, mem_bounded mem -> blen rd < 2 ^ 62 ->
  word memOff -> word dataOff -> word len ->
  match run_RETURNDATACOPY avail mem last rd memOff dataOff len with
  | Ok _ => dataOff + len <= blen rd
  | Err e => e = ErrGasUintOverflow \/ e = ErrOutOfGas \/ (e = ErrReturnDataOutOfBounds /\ blen rd < dataOff + len)
  | Panic => False
  end.
Proof.
  intros avail mem last rd memOff dataOff len Hb Hrd Hm Hdo Hl. unfold run_RETURNDATACOPY.
  assert (Hnp : forall a b c, (fun ml la ms => gasReturnDataCopy ml la ms len) a b c <> Panic).
  { intros a b c. cbv beta. unfold gasReturnDataCopy, gas_mem_words, memoryGasCost.
    repeat match goal with |- context [if ?c then _ else _] => destruct c end;
    repeat match goal with |- context [let '(_, _) := ?p in _] => destruct p end;
    repeat match goal with |- context [if ?c then _ else _] => destruct c end; discriminate. }
  pose proof (prepare_mem_errors avail mem last _ memOff len Hnp Hm Hl) as He.
  destruct (prepare_mem avail mem last (fun ml la ms => gasReturnDataCopy ml la ms len) memOff len) as [[[m1 g1] l1]|e|] eqn:E.
  - destruct (prepare_mem_ok _ _ _ _ _ _ _ _ _ (gas_mem_words_gated _ _ len) Hm Hl E) as [k [Hm1 [Hc [Hl1 _]]]].
    pose proof (op_RETURNDATACOPY_bounds m1 rd memOff dataOff len Hrd Hm Hdo Hl) as Hbd.
    destruct (op_RETURNDATACOPY m1 rd memOff dataOff len) as [m2|e2|] eqn:E2; cbn [lift3].
    + destruct (Z_le_gt_dec (dataOff + len) (blen rd)); [assumption|].
      exfalso. assert (K : Ok m2 = Err ErrReturnDataOutOfBounds :> res (list Z)) by (apply Hbd; lia). discriminate K.
    + right. right.
      unfold op_RETURNDATACOPY in E2.
      destruct ((BitLen (dataOff + len) >? 64) || (blen rd <? big_Uint64 (dataOff + len))) eqn:E3.
      * injection E2 as <-. split; [reflexivity|]. apply Hbd. reflexivity.
      * exfalso. exact (mem_set_not_err _ _ _ _ _ E2).
    + (* Panic impossible: in bounds, memory covers *)
      unfold op_RETURNDATACOPY in E2.
      destruct ((BitLen (dataOff + len) >? 64) || (blen rd <? big_Uint64 (dataOff + len))) eqn:E3; [discriminate E2|].
      apply orb_false_iff in E3. destruct E3 as [E3 E4].
      destruct Hdo as [Hd0 _]. destruct Hl as [Hl0 _]. destruct Hm as [Hm0 _].
      pose proof two64_val as T.
      rewrite BitLen_gt64 in E3 by lia.
      rewrite big_Uint64_small in E4 by lia.
      pose proof memcap_small. unfold mem_bounded in Hb.
      assert (Hlen : len <= blen rd) by lia.
      rewrite (big_Uint64_small len) in E2 by lia.
      destruct Hc as [Hc|Hc].
      * subst len. unfold mem_set in E2.
        assert (0 >? blen m1 = false) as K1 by (pose proof (blen_nonneg m1); lia).
        rewrite K1 in E2. change (0 >? 0) with false in E2. discriminate E2.
      * rewrite (big_Uint64_small memOff) in E2 by lia.
        rewrite (big_Uint64_small dataOff) in E2 by lia.
        rewrite (big_Uint64_small (dataOff + len)) in E2 by lia.
        rewrite mem_set_ok in E2; try lia; [discriminate E2|].
        unfold slice, blen. rewrite firstn_length, skipn_length.
        replace (dataOff + len - dataOff) with len by lia. unfold blen in *. lia.
  - destruct He as [->| ->]; [left|right; left]; reflexivity.
  - contradiction.
Qed.
