(* Evm/OpsProofsAlias.v — no instruction result depends on aliasing between stack slots: under the
   invariant "the references on the stack and in the pool are pairwise distinct (and allocated)", every
   instruction shape of OpsAlias.v computes, on the heap, what the value-semantics instruction computes,
   and re-establishes the invariant (DUP pushes a copy, SWAP exchanges references, a reference handed to
   the pool is no longer on the stack). *)
From Coq Require Import ZArith List Bool Arith Lia Permutation.
From AQ Require Import Evm.OpsAlias.
Import ListNotations.

Definition refs (s : rstate) : list nat := rs_stack s ++ rs_pool s.
Definition inv (s : rstate) : Prop := NoDup (refs s) /\ Forall (fun r => (r < rs_next s)%nat) (refs s).

Lemma map_hset_notin : forall h r v l, ~ In r l -> map (hset h r v) l = map h l.
Proof.
  intros h r v l H. apply map_ext_in. intros a Ha. unfold hset.
  destruct (Nat.eqb a r) eqn:E; [apply Nat.eqb_eq in E; subst; contradiction|reflexivity].
Qed.
Lemma hset_same : forall h r v, hset h r v r = v.
Proof. intros. unfold hset. now rewrite Nat.eqb_refl. Qed.

Lemma inv_perm : forall s s', Permutation (refs s) (refs s') -> rs_next s = rs_next s' -> inv s -> inv s'.
Proof.
  intros s s' P N [H1 H2]. split.
  - eapply Permutation_NoDup; eauto.
  - rewrite <- N. eapply Permutation_Forall; eauto.
Qed.

Lemma NoDup_app_notin : forall (a : nat) l1 l2, NoDup (l1 ++ a :: l2) -> ~ In a (l1 ++ l2).
Proof. intros a l1 l2 H. apply NoDup_remove_2 in H. exact H. Qed.

(* taking a reference from the pool (or allocating): it is distinct from everything that remains *)
Lemma pool_get_inv : forall h n st p q s1, NoDup (st ++ p) -> Forall (fun r => (r < n)%nat) (st ++ p) ->
  pool_get (mk_rstate h n st p) = (q, s1) ->
  rs_heap s1 = h /\ rs_stack s1 = st /\ NoDup (q :: st ++ rs_pool s1) /\
  Forall (fun r => (r < rs_next s1)%nat) (q :: st ++ rs_pool s1) /\
  (forall x, In x (rs_pool s1) -> In x p).
Proof.
  intros h n st p q s1 ND FA H. unfold pool_get in H. cbn [rs_pool rs_heap rs_next rs_stack] in H.
  destruct p as [|r p'].
  - injection H as <- <-. cbn [rs_heap rs_stack rs_pool rs_next]. rewrite app_nil_r in *.
    repeat split; try reflexivity.
    + constructor; [|exact ND]. intro Hin. rewrite Forall_forall in FA. specialize (FA _ Hin). lia.
    + constructor; [lia|]. eapply Forall_impl; [|exact FA]. cbn. intros; lia.
    + intros x [].
  - injection H as <- <-. cbn [rs_heap rs_stack rs_pool rs_next].
    repeat split; try reflexivity.
    + eapply Permutation_NoDup; [|exact ND]. symmetry. apply Permutation_middle.
    + eapply Permutation_Forall; [|exact FA]. symmetry. apply Permutation_middle.
    + intros x Hx. right. exact Hx.
Qed.

Ltac inv_nodup H :=
  repeat match type of H with NoDup (_ :: _) => let a := fresh "Hn" in let b := fresh "Hd" in inversion H as [|? ? a b]; subst; clear H; rename b into H end.

Theorem rstep_sound : forall o s s', inv s -> rstep o s = Some s' ->
  inv s' /\ vstep o (view s) = Some (view s').
Proof.
  intros o s s' Hinv H. destruct s as [h n st p]. destruct Hinv as [ND FA]. unfold refs in *.
  cbn [rs_stack rs_pool rs_next rs_heap] in *.
  unfold rstep in H. cbn [rs_stack rs_pool rs_next rs_heap] in H. unfold view. cbn [rs_stack rs_heap].
  destruct o.
  - (* bin *)
    destruct st as [|x [|y r]]; try discriminate H. injection H as <-. cbn [rs_stack rs_heap view map vstep].
    assert (Hx : ~ In x r). { inversion ND as [|? ? Hn _]; subst. intro Hi. apply Hn. cbn. right. apply in_or_app. left. exact Hi. }
    split.
    + apply (inv_perm (mk_rstate h n (x :: y :: r) p)); [|reflexivity|split; assumption].
      unfold refs. cbn [rs_stack rs_pool app]. constructor. apply Permutation_middle.
    + rewrite hset_same, map_hset_notin by exact Hx. reflexivity.
  - (* tern *)
    destruct st as [|x [|y [|z r]]]; try discriminate H. injection H as <-. cbn [rs_stack rs_heap view map vstep].
    assert (Hx : ~ In x r). { inversion ND as [|? ? Hn _]; subst. intro Hi. apply Hn. cbn. right. right. apply in_or_app. left. exact Hi. }
    split.
    + apply (inv_perm (mk_rstate h n (x :: y :: z :: r) p)); [|reflexivity|split; assumption].
      unfold refs. cbn [rs_stack rs_pool app]. constructor.
      transitivity (z :: y :: r ++ p); [apply perm_swap|]. transitivity (z :: r ++ y :: p); [constructor; apply Permutation_middle|].
      apply Permutation_middle.
    + rewrite hset_same, map_hset_notin by exact Hx. reflexivity.
  - (* cmp *)
    destruct st as [|x [|y r]]; try discriminate H.
    destruct (pool_get (mk_rstate h n r p)) as [q s1] eqn:E.
    assert (E' : pool_get (mk_rstate h n (x :: y :: r) p) = (q, mk_rstate (rs_heap s1) (rs_next s1) (x :: y :: r) (rs_pool s1))).
    { unfold pool_get in *. cbn [rs_pool rs_heap rs_next rs_stack] in *. destruct p; injection E as <- <-; reflexivity. }
    destruct (pool_get_inv _ _ _ _ _ _ ND FA E') as [Hh [_ [ND' [FA' _]]]]. cbn [rs_heap rs_stack rs_pool rs_next] in *.
    injection H as <-. cbn [rs_stack rs_heap view map vstep]. rewrite Hh.
    assert (Hq : ~ In q r). { inversion ND' as [|? ? Hn _]; subst. intro Hi. apply Hn. cbn. right. right. apply in_or_app. left. exact Hi. }
    split.
    + split; unfold refs; cbn [rs_stack rs_pool rs_next app].
      * eapply Permutation_NoDup; [|exact ND']. constructor.
        transitivity (y :: x :: r ++ rs_pool s1); [apply perm_swap|].
        transitivity (y :: r ++ x :: rs_pool s1); [constructor; apply Permutation_middle|]. apply Permutation_middle.
      * eapply Permutation_Forall; [|exact FA']. constructor.
        transitivity (y :: x :: r ++ rs_pool s1); [apply perm_swap|].
        transitivity (y :: r ++ x :: rs_pool s1); [constructor; apply Permutation_middle|]. apply Permutation_middle.
    + rewrite hset_same, map_hset_notin by exact Hq. reflexivity.
  - (* un *)
    destruct st as [|x r]; try discriminate H. injection H as <-. cbn [rs_stack rs_heap view map vstep].
    assert (Hx : ~ In x r). { inversion ND as [|? ? Hn _]; subst. intro Hi. apply Hn. apply in_or_app. left. exact Hi. }
    split; [split; assumption|]. rewrite hset_same, map_hset_notin by exact Hx. reflexivity.
  - (* test *)
    destruct st as [|x r]; try discriminate H.
    destruct (pool_get (mk_rstate h n r p)) as [q s1] eqn:E.
    assert (E' : pool_get (mk_rstate h n (x :: r) p) = (q, mk_rstate (rs_heap s1) (rs_next s1) (x :: r) (rs_pool s1))).
    { unfold pool_get in *. cbn [rs_pool rs_heap rs_next rs_stack] in *. destruct p; injection E as <- <-; reflexivity. }
    destruct (pool_get_inv _ _ _ _ _ _ ND FA E') as [Hh [_ [ND' [FA' _]]]]. cbn [rs_heap rs_stack rs_pool rs_next] in *.
    injection H as <-. cbn [rs_stack rs_heap view map vstep]. rewrite Hh.
    assert (Hq : ~ In q r). { inversion ND' as [|? ? Hn _]; subst. intro Hi. apply Hn. cbn. right. apply in_or_app. left. exact Hi. }
    split.
    + split; unfold refs; cbn [rs_stack rs_pool rs_next app].
      * eapply Permutation_NoDup; [|exact ND']. constructor. apply Permutation_middle.
      * eapply Permutation_Forall; [|exact FA']. constructor. apply Permutation_middle.
    + rewrite hset_same, map_hset_notin by exact Hq. reflexivity.
  - (* peek *)
    destruct st as [|th [|val r]]; try discriminate H. injection H as <-. cbn [rs_stack rs_heap view map vstep].
    assert (Hv : ~ In val r).
    { inversion ND as [|? ? _ ND1]; subst. inversion ND1 as [|? ? Hn _]; subst. intro Hi. apply Hn. apply in_or_app. left. exact Hi. }
    split.
    + apply (inv_perm (mk_rstate h n (th :: val :: r) p)); [|reflexivity|split; assumption].
      unfold refs. cbn [rs_stack rs_pool app].
      transitivity (val :: th :: r ++ p); [apply perm_swap|]. constructor. apply Permutation_middle.
    + rewrite hset_same, map_hset_notin by exact Hv. reflexivity.
  - (* dup *)
    destruct (nth_error st (n0 - 1)) as [src|] eqn:En; try discriminate H.
    destruct (pool_get (mk_rstate h n st p)) as [q s1] eqn:E.
    destruct (pool_get_inv _ _ _ _ _ _ ND FA E) as [Hh [Hs [ND' [FA' _]]]].
    injection H as <-. cbn [rs_stack rs_heap view map vstep]. rewrite Hh.
    assert (Hq : ~ In q st). { inversion ND' as [|? ? Hn _]; subst. intro Hi. apply Hn. apply in_or_app. left. exact Hi. }
    split.
    + split; unfold refs; cbn [rs_stack rs_pool rs_next app]; assumption.
    + rewrite nth_error_map, En. cbn [option_map]. rewrite hset_same, map_hset_notin by exact Hq. reflexivity.
  - (* swap *)
    destruct n0 as [|m]; [destruct st; discriminate H|].
    destruct st as [|top rest]; try discriminate H.
    destruct (nth_error rest m) as [other|] eqn:En; try discriminate H.
    assert (Hsplit : rest = firstn m rest ++ other :: skipn (S m) rest).
    { clear -En. revert rest En. induction m; intros [|a l] En; try discriminate En.
      - injection En as ->. reflexivity.
      - change (firstn (S m) (a :: l)) with (a :: firstn m l). change (skipn (S (S m)) (a :: l)) with (skipn (S m) l).
        cbn [app]. f_equal. apply IHm. exact En. }
    assert (Hv : firstn m (map h rest) ++ h top :: skipn (S m) (map h rest) =
                 map h (firstn m rest ++ top :: skipn (S m) rest)).
    { rewrite firstn_map, skipn_map, map_app. reflexivity. }
    remember (firstn m rest) as A. remember (skipn (S m) rest) as B.
    injection H as <-. unfold view. cbn [rs_stack rs_heap].
    split.
    + apply (inv_perm (mk_rstate h n (top :: rest) p)); [|reflexivity|split; assumption].
      unfold refs. cbn [rs_stack rs_pool]. rewrite Hsplit at 1.
      apply Permutation_app_tail.
      transitivity (top :: other :: A ++ B).
      { constructor. symmetry. apply Permutation_middle. }
      transitivity (other :: top :: A ++ B); [apply perm_swap|].
      constructor. apply Permutation_middle.
    + change (map h (top :: rest)) with (h top :: map h rest). unfold vstep.
      rewrite nth_error_map, En. cbn [option_map]. rewrite Hv. reflexivity.
  - (* pop *)
    destruct st as [|x r]; try discriminate H. injection H as <-. cbn [rs_stack rs_heap view map vstep].
    split; [|reflexivity].
    apply (inv_perm (mk_rstate h n (x :: r) p)); [|reflexivity|split; assumption].
    unfold refs. cbn [rs_stack rs_pool app]. apply Permutation_middle.
  - (* push *)
    destruct (pool_get (mk_rstate h n st p)) as [q s1] eqn:E.
    destruct (pool_get_inv _ _ _ _ _ _ ND FA E) as [Hh [Hs [ND' [FA' _]]]].
    injection H as <-. cbn [rs_stack rs_heap view map vstep]. rewrite Hh.
    assert (Hq : ~ In q st). { inversion ND' as [|? ? Hn _]; subst. intro Hi. apply Hn. apply in_or_app. left. exact Hi. }
    split.
    + split; unfold refs; cbn [rs_stack rs_pool rs_next app]; assumption.
    + rewrite hset_same, map_hset_notin by exact Hq. reflexivity.
Qed.

(* whole instruction sequences: the heap view of the reference machine is the value machine *)
Theorem rrun_sound : forall ops s s', inv s -> rrun ops s = Some s' -> inv s' /\ vrun ops (view s) = Some (view s').
Proof.
  induction ops as [|o r IH]; intros s s' Hi H; cbn [rrun vrun] in *.
  - injection H as <-. auto.
  - destruct (rstep o s) as [s1|] eqn:E; [|discriminate H].
    destruct (rstep_sound o s s1 Hi E) as [Hi1 Hv]. rewrite Hv. apply IH; assumption.
Qed.

(* consequences spelled out: DUP never shares, a pooled reference is never on the stack *)
Theorem stack_refs_distinct : forall ops s s', inv s -> rrun ops s = Some s' ->
  NoDup (rs_stack s') /\ (forall r, In r (rs_pool s') -> ~ In r (rs_stack s')).
Proof.
  intros ops s s' Hi H. destruct (rrun_sound ops s s' Hi H) as [[ND _] _]. unfold refs in ND.
  split.
  { clear -ND. induction (rs_stack s') as [|a l IH]; [constructor|].
    cbn [app] in ND. inversion ND as [|? ? Hn Hd]; subst. constructor; [|apply IH; exact Hd].
    intro Hi. apply Hn. apply in_or_app. left. exact Hi. }
  intros r Hp Hs. apply in_split in Hp. destruct Hp as [l1 [l2 Hp]]. rewrite Hp in ND.
  rewrite app_assoc in ND. apply NoDup_remove_2 in ND. apply ND. apply in_or_app. left. apply in_or_app. left. exact Hs.
Qed.

Theorem inv_initial : forall h, inv (mk_rstate h 0 [] []).
Proof. intro h. split; constructor. Qed.
