(* Evm/OpsMemStep.v — the memory side of one interpreter step, without preconditions
   (definitions only; extracted).  interpreter.go Run, between validateStack and execute, for an
   instruction whose memorySize function is calcMemSize(offset, length):
       memSize, overflow := bigUint64(operation.memorySize(stack))      -> errGasUintOverflow
       memorySize, overflow = math.SafeMul(toWordSize(memSize), 32)     -> errGasUintOverflow
       cost, err = operation.gasCost(..., mem, memorySize); err != nil || !contract.UseGas(cost) -> ErrOutOfGas
       if memorySize > 0 { mem.Resize(memorySize) }
   followed by the instruction body on the resized memory.  The [run_*] functions compose this
   with the instruction bodies of OpsModel.v; they take ANY 256-bit operands. *)
From Coq Require Import ZArith List Bool.
From AQ Require Import Evm.OpsModel.
Import ListNotations.
Local Open Scope Z_scope.

(* avail = contract.Gas before the step; returns (resized memory, dynamic gas of the step, new lastGasCost) *)
Definition prepare_mem (avail : Z) (mem : list Z) (last : Z) (gasfn : Z -> Z -> Z -> res (Z * Z)) (off len : Z)
  : res (list Z * Z * Z) :=
  match run_memorySize (calcMemSize off len) with
  | Ok ms =>
      match gasfn (blen mem) last ms with
      | Ok (g, last') =>
          if avail <? g then Err ErrOutOfGas          (* contract.UseGas(cost) fails: nothing is resized *)
          else Ok (if ms >? 0 then mem_resize mem ms else mem, g, last')
      | Err _ => Err ErrOutOfGas
      | Panic => Panic
      end
  | Err e => Err e
  | Panic => Panic
  end.

(* MLOAD: (value pushed, memory, gas, lastGasCost) *)
Definition run_MLOAD (avail : Z) (mem : list Z) (last off : Z) : res (Z * list Z * Z * Z) :=
  match prepare_mem avail mem last gasMLoad off 32 with
  | Ok (m', g, l') => match op_MLOAD m' off with Ok v => Ok (v, m', g, l') | Err e => Err e | Panic => Panic end
  | Err e => Err e | Panic => Panic end.

Definition lift3 (r : res (list Z)) (g l' : Z) : res (list Z * Z * Z) :=
  match r with Ok m => Ok (m, g, l') | Err e => Err e | Panic => Panic end.

Definition run_MSTORE (avail : Z) (mem : list Z) (last off v : Z) : res (list Z * Z * Z) :=
  match prepare_mem avail mem last gasMStore off 32 with
  | Ok (m', g, l') => lift3 (op_MSTORE m' off v) g l' | Err e => Err e | Panic => Panic end.
Definition run_MSTORE8 (avail : Z) (mem : list Z) (last off v : Z) : res (list Z * Z * Z) :=
  match prepare_mem avail mem last gasMStore8 off 1 with
  | Ok (m', g, l') => lift3 (op_MSTORE8 m' off v) g l' | Err e => Err e | Panic => Panic end.
(* CALLDATACOPY / CODECOPY (data = call data / code; both use the same gas function shape) *)
Definition run_DATACOPY (avail : Z) (mem : list Z) (last : Z) (data : list Z) (memOff dataOff len : Z) : res (list Z * Z * Z) :=
  match prepare_mem avail mem last (fun ml la ms => gasCallDataCopy ml la ms len) memOff len with
  | Ok (m', g, l') => lift3 (op_DATACOPY m' data memOff dataOff len) g l' | Err e => Err e | Panic => Panic end.
Definition run_RETURNDATACOPY (avail : Z) (mem : list Z) (last : Z) (rd : list Z) (memOff dataOff len : Z) : res (list Z * Z * Z) :=
  match prepare_mem avail mem last (fun ml la ms => gasReturnDataCopy ml la ms len) memOff len with
  | Ok (m', g, l') => lift3 (op_RETURNDATACOPY m' rd memOff dataOff len) g l' | Err e => Err e | Panic => Panic end.
(* SHA3 with hash H: (value, memory, gas, lastGasCost) *)
Definition run_SHA3 (H : list Z -> list Z) (avail : Z) (mem : list Z) (last off len : Z) : res (Z * list Z * Z * Z) :=
  match prepare_mem avail mem last (fun ml la ms => gasSha3 ml la ms len) off len with
  | Ok (m', g, l') => match op_SHA3_H H m' off len with Ok v => Ok (v, m', g, l') | Err e => Err e | Panic => Panic end
  | Err e => Err e | Panic => Panic end.
(* the byte range a LOGn / RETURN / REVERT / CREATE / CALL input reads: (data, memory, gas, lastGasCost) *)
Definition run_RANGE (gasfn : Z -> Z -> Z -> res (Z * Z)) (avail : Z) (mem : list Z) (last off len : Z) : res (list Z * list Z * Z * Z) :=
  match prepare_mem avail mem last gasfn off len with
  | Ok (m', g, l') =>
      match mem_get m' (big_Int64 off) (big_Int64 len) with Ok d => Ok (d, m', g, l') | Err e => Err e | Panic => Panic end
  | Err e => Err e | Panic => Panic end.
Definition run_RETURN := run_RANGE gasReturn.
Definition run_LOG (n : Z) (avail : Z) (mem : list Z) (last off len : Z) := run_RANGE (fun ml la ms => gasLog n ml la ms len) avail mem last off len.
