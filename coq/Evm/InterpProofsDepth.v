(* Evm/InterpProofsDepth.v — C07 call depth, the window form: everything a frame running at evm.depth d executes —
   itself and all the frames below it — is recorded at a depth between d and CallCreateDepth+1.  A run from depth d
   therefore nests at most CallCreateDepth+1-d frames below it (Yellow-Paper depth: at most 1024 - (d-1)). *)
From Coq Require Import ZArith List Bool String Lia ZifyBool.
From AQ Require Import Lib.Bytes Evm.OpsModel Evm.Interp Evm.InterpProofs Evm.InterpProofs2.
Import ListNotations.
Local Open Scope Z_scope.
Set Default Timeout 300.

(* [tr] extends [tr0] by entries whose depth lies in [lo, DMAX] *)
Definition tr_ext (lo : Z) (tr0 tr : list tentry) : Prop :=
  exists new, tr = new ++ tr0 /\ Forall (fun t => lo <= t_depth t <= DMAX) new.

Lemma tr_ext_refl : forall lo tr, tr_ext lo tr tr.
Proof. intros. exists []. split; [reflexivity | constructor]. Qed.
Lemma tr_ext_weaken : forall lo lo' a b, lo' <= lo -> tr_ext lo a b -> tr_ext lo' a b.
Proof.
  intros lo lo' a b Hl (n & -> & Hf). exists n. split; [reflexivity|].
  eapply Forall_impl; [|exact Hf]. cbn. intros t Ht. lia.
Qed.
Lemma tr_ext_trans : forall lo a b c, tr_ext lo a b -> tr_ext lo b c -> tr_ext lo a c.
Proof.
  intros lo a b c (n1 & -> & H1) (n2 & -> & H2). exists (n2 ++ n1). split; [apply app_assoc | apply Forall_app; split; assumption].
Qed.
Lemma tr_ext_cons : forall lo tr t, lo <= t_depth t <= DMAX -> tr_ext lo tr (t :: tr).
Proof. intros lo tr t H. exists [t]. split; [reflexivity | constructor; [exact H | constructor]]. Qed.

Definition rec_win (rec : interp_t) : Prop :=
  forall w fr, 1 <= f_depth fr <= DMAX -> tr_ext (f_depth fr) (f_trace fr) (o_trace (rec w fr)).

Lemma run_precompile_trace : forall e w a i g rd tr ro, o_trace (run_precompile e w a i g rd tr ro) = tr.
Proof.
  intros. unfold run_precompile. destruct (a =? 5).
  - destruct (modexp_gas i); try reflexivity. destruct (g <? _); try reflexivity. destruct (modexp_run i); reflexivity.
  - destruct (e_precomp e a i) as [[og r]|]; try reflexivity.
    destruct (g <? _); try reflexivity. destruct (a =? 4); try reflexivity. destruct r; reflexivity.
Qed.
Lemma finish_call_trace : forall s o, o_trace (finish_call s o) = o_trace o.
Proof. intros. unfold finish_call. destruct (o_res o); reflexivity. Qed.

Lemma run_contract_win : forall rec e w ca fr rd, rec_win rec -> 1 <= f_depth fr <= DMAX ->
  tr_ext (f_depth fr) (f_trace fr) (o_trace (run_contract rec e w ca fr rd)).
Proof.
  intros. unfold run_contract. destruct (is_precompile e ca); [rewrite run_precompile_trace; apply tr_ext_refl | auto].
Qed.

Ltac child_win Hrec Hdep :=
  rewrite ?finish_call_trace;
  match goal with |- tr_ext _ ?tr (o_trace (run_contract ?rec ?e ?w ?a ?fr ?rd)) =>
    pose proof (run_contract_win rec e w a fr rd Hrec) as Hw; cbn [new_frame f_depth f_trace] in Hw;
    eapply tr_ext_weaken; [|apply Hw; unfold DMAX in *; lia]; lia end.

Lemma do_call_win : forall rec e w rd tr depth ro caller addr input gas value, rec_win rec -> 0 <= depth ->
  tr_ext (depth + 1) tr (o_trace (do_call rec e w rd tr depth ro caller addr input gas value)).
Proof.
  intros rec e w rd tr depth ro caller addr input gas value Hrec Hd. unfold do_call.
  destruct (depth >? CallCreateDepth) eqn:Hdep; [apply tr_ext_refl|]. destruct (negb _); [apply tr_ext_refl|].
  destruct (_ && _); [apply tr_ext_refl|]. child_win Hrec Hdep.
Qed.
Lemma do_callcode_win : forall rec e w rd tr depth ro caller addr input gas value, rec_win rec -> 0 <= depth ->
  tr_ext (depth + 1) tr (o_trace (do_callcode rec e w rd tr depth ro caller addr input gas value)).
Proof.
  intros rec e w rd tr depth ro caller addr input gas value Hrec Hd. unfold do_callcode.
  destruct (depth >? CallCreateDepth) eqn:Hdep; [apply tr_ext_refl|]. destruct (negb _); [apply tr_ext_refl|]. child_win Hrec Hdep.
Qed.
Lemma do_delegatecall_win : forall rec e w rd tr depth ro self pc pv addr input gas, rec_win rec -> 0 <= depth ->
  tr_ext (depth + 1) tr (o_trace (do_delegatecall rec e w rd tr depth ro self pc pv addr input gas)).
Proof.
  intros rec e w rd tr depth ro self pc pv addr input gas Hrec Hd. unfold do_delegatecall.
  destruct (depth >? CallCreateDepth) eqn:Hdep; [apply tr_ext_refl|]. child_win Hrec Hdep.
Qed.
Lemma do_staticcall_win : forall rec e w rd tr depth ro caller addr input gas, rec_win rec -> 0 <= depth ->
  tr_ext (depth + 1) tr (o_trace (do_staticcall rec e w rd tr depth ro caller addr input gas)).
Proof.
  intros rec e w rd tr depth ro caller addr input gas Hrec Hd. unfold do_staticcall.
  destruct (depth >? CallCreateDepth) eqn:Hdep; [apply tr_ext_refl|].
  destruct ro; [|cbn [set_out_ro o_trace]]; child_win Hrec Hdep.
Qed.
Lemma do_create_win : forall rec e w rd tr depth ro caller code gas value, rec_win rec -> 0 <= depth ->
  tr_ext (depth + 1) tr (o_trace (do_create rec e w rd tr depth ro caller code gas value)).
Proof.
  intros rec e w rd tr depth ro caller code gas value Hrec Hd. unfold do_create.
  destruct (depth >? CallCreateDepth) eqn:Hdep; [apply tr_ext_refl|]. destruct (negb _); [apply tr_ext_refl|].
  destruct (_ || _); [apply tr_ext_refl|].
  match goal with |- context[run_contract rec e ?w3 ?a ?fr rd] =>
    pose proof (run_contract_win rec e w3 a fr rd Hrec) as Hw; set (o := run_contract rec e w3 a fr rd) in * end.
  cbn [new_frame f_depth f_trace] in Hw. specialize (Hw ltac:(unfold DMAX; lia)).
  destruct (o_res o); try exact Hw;
    repeat match goal with |- context[let '(_, _) := ?t in _] => destruct t as [[? ?] ?] end; exact Hw.
Qed.

Lemma call_return_trace : forall w fr rest ro rs o w2 fr2 res,
  call_return w fr rest ro rs o = X_ok w2 fr2 res -> f_trace fr2 = o_trace o /\ f_depth fr2 = f_depth fr.
Proof.
  intros w fr rest ro rs o w2 fr2 res H. unfold call_return in H.
  destruct (o_res o); try discriminate;
    try (destruct (mem_set _ _ _ _); try discriminate); injection H as _ <- _; split; reflexivity.
Qed.

Ltac inv_tr H :=
  repeat match type of H with
  | match ?t with _ => _ end = _ => destruct t eqn:?; try discriminate
  | (let '(_, _) := ?t in _) = _ => destruct t eqn:?
  | (if ?t then _ else _) = _ => destruct t eqn:?; try discriminate
  | lift_mem _ _ _ _ = _ => unfold lift_mem in H
  end;
  injection H as _ <- _; apply tr_ext_refl.

Lemma exec_win : forall rec e w fr1 x temp w2 fr2 res, rec_win rec -> 1 <= f_depth fr1 <= DMAX ->
  exec rec e w fr1 x temp = X_ok w2 fr2 res -> tr_ext (f_depth fr1) (f_trace fr1) (f_trace fr2).
Proof.
  intros rec e w fr1 x temp w2 fr2 res Hrec Hd H.
  destruct x; unfold exec in H; try solve [inv_tr H].
  - (* create *)
    destruct (f_stack fr1) as [|value [|offset [|size r]]]; try discriminate.
    destruct (mem_get _ _ _); try discriminate.
    match type of H with context[do_create ?a ?b ?c ?d ?e' ?f ?g ?h ?i ?j ?k] =>
      pose proof (do_create_win a b c d e' f g h i j k Hrec ltac:(lia)) as Hc; set (o := do_create a b c d e' f g h i j k) in * end.
    destruct (o_res o); try discriminate; injection H as _ <- _; cbn [after_child f_trace];
      (eapply tr_ext_weaken; [|exact Hc]; lia).
  - destruct (f_stack fr1) as [|g0 [|addr [|value0 [|inOff [|inSize [|retOff [|retSize r]]]]]]]; try discriminate.
    destruct (mem_get _ _ _); try discriminate.
    apply call_return_trace in H as [-> _]. eapply tr_ext_weaken; [|apply do_call_win; [exact Hrec | lia]]; lia.
  - destruct (f_stack fr1) as [|g0 [|addr [|value0 [|inOff [|inSize [|retOff [|retSize r]]]]]]]; try discriminate.
    destruct (mem_get _ _ _); try discriminate.
    apply call_return_trace in H as [-> _]. eapply tr_ext_weaken; [|apply do_callcode_win; [exact Hrec | lia]]; lia.
  - destruct (f_stack fr1) as [|g0 [|addr [|inOff [|inSize [|retOff [|retSize r]]]]]]; try discriminate.
    destruct (mem_get _ _ _); try discriminate.
    apply call_return_trace in H as [-> _]. eapply tr_ext_weaken; [|apply do_delegatecall_win; [exact Hrec | lia]]; lia.
  - destruct (f_stack fr1) as [|g0 [|addr [|inOff [|inSize [|retOff [|retSize r]]]]]]; try discriminate.
    destruct (mem_get _ _ _); try discriminate.
    apply call_return_trace in H as [-> _]. eapply tr_ext_weaken; [|apply do_staticcall_win; [exact Hrec | lia]]; lia.
  - discriminate H.
Qed.

Ltac inv_dp H :=
  repeat match type of H with
  | match ?t with _ => _ end = _ => destruct t eqn:?; try discriminate
  | (let '(_, _) := ?t in _) = _ => destruct t eqn:?
  | (if ?t then _ else _) = _ => destruct t eqn:?; try discriminate
  | lift_mem _ _ _ _ = _ => unfold lift_mem in H
  end;
  injection H as _ <- _; reflexivity.

Lemma exec_depth : forall rec e w fr1 x temp w2 fr2 res,
  exec rec e w fr1 x temp = X_ok w2 fr2 res -> f_depth fr2 = f_depth fr1.
Proof.
  intros rec e w fr1 x temp w2 fr2 res H.
  destruct x; unfold exec in H; try solve [inv_dp H].
  - destruct (f_stack fr1) as [|g0 [|addr [|value0 [|inOff [|inSize [|retOff [|retSize r]]]]]]]; try discriminate.
    destruct (mem_get _ _ _); try discriminate. apply call_return_trace in H as [_ H]. exact H.
  - destruct (f_stack fr1) as [|g0 [|addr [|value0 [|inOff [|inSize [|retOff [|retSize r]]]]]]]; try discriminate.
    destruct (mem_get _ _ _); try discriminate. apply call_return_trace in H as [_ H]. exact H.
  - destruct (f_stack fr1) as [|g0 [|addr [|inOff [|inSize [|retOff [|retSize r]]]]]]; try discriminate.
    destruct (mem_get _ _ _); try discriminate. apply call_return_trace in H as [_ H]. exact H.
  - destruct (f_stack fr1) as [|g0 [|addr [|inOff [|inSize [|retOff [|retSize r]]]]]]; try discriminate.
    destruct (mem_get _ _ _); try discriminate. apply call_return_trace in H as [_ H]. exact H.
  - discriminate H.
Qed.

Lemma step_win : forall rec e w fr, rec_win rec -> 1 <= f_depth fr <= DMAX ->
  match step rec e w fr with
  | S_next _ fr' => tr_ext (f_depth fr) (f_trace fr) (f_trace fr') /\ f_depth fr' = f_depth fr
  | S_done o => tr_ext (f_depth fr) (f_trace fr) (o_trace o)
  end.
Proof.
  intros rec e w fr Hrec Hd. unfold step.
  destruct (negb _); [apply tr_ext_refl|].
  destruct (validateStack _ _ _); [|apply tr_ext_refl|apply tr_ext_refl].
  destruct (restricted _ _ _ _); [apply tr_ext_refl|].
  destruct (mem_size_big _ _) as [msb|]; [|apply tr_ext_refl].
  destruct (match msb with Some b => run_memorySize b | None => Ok 0 end); [|apply tr_ext_refl|apply tr_ext_refl].
  destruct (gas_cost _ _ _ _ _) as [g|?|]; [|apply tr_ext_refl|apply tr_ext_refl].
  destruct (f_gas fr <? g_cost g); [apply tr_ext_refl|].
  match goal with |- context[exec rec e (g_world g) ?f1 ?x (g_temp g)] => set (fr1 := f1); set (xx := x) end.
  assert (H1 : tr_ext (f_depth fr) (f_trace fr) (f_trace fr1)).
  { subst fr1. cbn [f_trace]. destruct (e_trace e); [apply tr_ext_cons; cbn [t_depth]; lia | apply tr_ext_refl]. }
  destruct (exec rec e (g_world g) fr1 xx (g_temp g)) as [w2 fr2 res| er | |] eqn:Hex; try exact H1.
  pose proof (exec_depth _ _ _ _ _ _ _ _ _ Hex) as Hdp. change (f_depth fr1) with (f_depth fr) in Hdp.
  apply exec_win in Hex; [|assumption|exact Hd]. change (f_depth fr1) with (f_depth fr) in Hex.
  pose proof (tr_ext_trans _ _ _ _ H1 Hex) as H2.
  match goal with |- context[if ?b then set_rdata fr2 res else fr2] => set (fr3 := if b then set_rdata fr2 res else fr2);
    assert (H3 : f_trace fr3 = f_trace fr2 /\ f_depth fr3 = f_depth fr2) by (subst fr3; destruct b; split; reflexivity) end.
  destruct H3 as [H3t H3d].
  repeat match goal with |- context[if ?b then _ else _] => destruct b end;
    cbn [mkout o_trace set_pc set_pc_stack f_trace f_depth]; rewrite ?H3t, ?H3d; try split; try assumption.
Qed.

Lemma interp_of_win : forall lp, rec_win lp -> rec_win (interp_of lp).
Proof. intros lp H w fr Hd. unfold interp_of. destruct (f_code fr); [apply tr_ext_refl | apply H, Hd]. Qed.

Lemma loop_win : forall fuel e, rec_win (loop fuel e).
Proof.
  induction fuel as [|f IH]; intros e w fr Hd; cbn [loop]; [apply tr_ext_refl|].
  pose proof (step_win (interp_of (loop f e)) e w fr (interp_of_win _ (IH e)) Hd) as Hs.
  destruct (step _ e w fr) as [w' fr' | o]; [|exact Hs].
  destruct Hs as [H1 H2]. eapply tr_ext_trans; [exact H1|]. rewrite <- H2. apply IH. rewrite H2. exact Hd.
Qed.

(* the theorem: whatever a frame at evm.depth d executes, itself and below, is recorded at a depth in [d, 1025] *)
Theorem depth_window : forall fuel e w fr, 1 <= f_depth fr <= CallCreateDepth + 1 ->
  exists new, o_trace (interp fuel e w fr) = new ++ f_trace fr /\
              Forall (fun t => f_depth fr <= t_depth t <= CallCreateDepth + 1) new.
Proof. intros. apply (interp_of_win _ (loop_win fuel e)). exact H. Qed.

(* and for the entry point: everything is at evm.depth 1..1025 and nothing was recorded before *)
Theorem call_top_depth_window : forall fuel e w caller addr input gas value,
  exists new, o_trace (call_top fuel e w caller addr input gas value) = new ++ [] /\
              Forall (fun t => 1 <= t_depth t <= CallCreateDepth + 1) new.
Proof.
  intros. unfold call_top. apply (do_call_win (interp fuel e) e w [] [] 0 false caller addr input gas value).
  - apply interp_of_win, loop_win.
  - lia.
Qed.
