(* Evm/InterpProofsExec.v — C07 "never crashes", the execute functions: once the pre-checks of
   Interpreter.Run passed (stack validated against the table, memory size computed and the memory resized,
   gas charged), operation.execute cannot panic — every stack pop is covered by the arity validateStack
   checked, every memory access lies inside the resized memory (the memorySize function bound to the
   instruction covers the ranges its execute function touches), return-data copies are range checked in
   unbounded integers, jump destinations are validated on byte-valued code. *)
From Coq Require Import ZArith List Bool String Lia ZifyBool ZifyNat.
From AQ Require Import Lib.Bytes Evm.OpsModel Evm.OpsSpec Evm.OpsProofsGas Evm.OpsProofsMem Evm.OpsProofsJumpdest
                       Evm.Interp Evm.InterpProofs Evm.InterpProofsPanic.
Import ListNotations.
Local Open Scope Z_scope.
Set Default Timeout 300.

(* ------------------------------------------------------------------ what the tables have to say *)

(* the number of stack items the execute function takes off (or reads) *)
Definition need_exec (x : execfn) : Z :=
  match x with
  | E_arith op => if (op =? 0x08) || (op =? 0x09) then 3 else if (op =? 0x15) || (op =? 0x19) then 1 else 2
  | E_sha3 | E_mstore | E_mstore8 | E_sstore | E_jumpi | E_return | E_revert => 2
  | E_balance | E_calldataload | E_extcodesize | E_blockhash | E_pop | E_mload | E_sload | E_jump | E_suicide => 1
  | E_calldatacopy | E_codecopy | E_returndatacopy | E_create => 3
  | E_extcodecopy => 4
  | E_dup n => n | E_swap n => n + 1 | E_log n => n + 2
  | E_call | E_callcode => 7 | E_delegatecall | E_staticcall => 6
  | E_unknown => 2000
  | _ => 0
  end.

Definition arith_ops : list Z :=
  [0x01;0x02;0x03;0x04;0x05;0x06;0x07;0x08;0x09;0x0a;0x0b;0x10;0x11;0x12;0x13;0x14;0x15;0x16;0x17;0x18;0x19;0x1a;0x1b;0x1c;0x1d].

Definition exec_param_ok (x : execfn) : bool :=
  match x with
  | E_arith op => existsb (Z.eqb op) arith_ops
  | E_dup n | E_swap n => (1 <=? n) && (n <=? 16)
  | E_log n => (0 <=? n) && (n <=? 4)
  | E_push n => (1 <=? n) && (n <=? 32)
  | _ => true
  end.

(* the memorySize function an execute function relies on *)
Definition mem_of (x : execfn) : option memfn :=
  match x with
  | E_sha3 => Some M_sha3 | E_calldatacopy => Some M_calldatacopy | E_codecopy => Some M_codecopy
  | E_extcodecopy => Some M_extcodecopy | E_returndatacopy => Some M_returndatacopy
  | E_mload => Some M_mload | E_mstore => Some M_mstore | E_mstore8 => Some M_mstore8
  | E_log _ => Some M_log | E_create => Some M_create | E_call | E_callcode => Some M_call
  | E_delegatecall => Some M_delegatecall | E_staticcall => Some M_staticcall
  | E_return => Some M_return | E_revert => Some M_revert
  | _ => None
  end.

Definition memfn_eqb (a b : memfn) : bool :=
  match a, b with
  | M_none, M_none | M_sha3, M_sha3 | M_calldatacopy, M_calldatacopy | M_returndatacopy, M_returndatacopy
  | M_codecopy, M_codecopy | M_extcodecopy, M_extcodecopy | M_mload, M_mload | M_mstore8, M_mstore8 | M_mstore, M_mstore
  | M_create, M_create | M_call, M_call | M_delegatecall, M_delegatecall | M_staticcall, M_staticcall
  | M_return, M_return | M_revert, M_revert | M_log, M_log | M_unknown, M_unknown => true
  | _, _ => false
  end.
Lemma memfn_eqb_eq : forall a b, memfn_eqb a b = true -> a = b.
Proof. intros [] []; cbn; congruence. Qed.

Definition exec_ok (c : cop) : bool :=
  negb (c_valid c) ||
  ((need_exec (c_exec c) <=? c_pops c) && exec_param_ok (c_exec c) &&
   match mem_of (c_exec c) with Some m => memfn_eqb (c_mem c) m | None => true end).

(* every execute function of the real tables takes no more than validateStack guarantees, its parameters are in
   range, and it is bound together with the memorySize function that covers what it touches *)
Lemma tables_exec_ok : forall s, forallb exec_ok (ctbl_of s) = true.
Proof. intros []; vm_compute; reflexivity. Qed.
Lemma nth_exec_ok : forall s n, exec_ok (nth n (ctbl_of s) invalid_cop) = true.
Proof.
  intros s n. destruct (nth_in_or_default n (ctbl_of s) invalid_cop) as [Hin | Hd].
  - pose proof (tables_exec_ok s) as H. rewrite forallb_forall in H. apply H, Hin.
  - rewrite Hd. reflexivity.
Qed.

(* ------------------------------------------------------------------ memory accesses inside the memory *)

Definition nonneg_stack (st : list Z) : Prop := Forall (fun v => 0 <= v) st.

Lemma p62 : 2 ^ 62 = 4611686018427387904. Proof. reflexivity. Qed.
Lemma p63 : 2 ^ 63 = 9223372036854775808. Proof. reflexivity. Qed.

Lemma big_Int64_id : forall x, 0 <= x < 2 ^ 62 -> big_Int64 x = x.
Proof.
  intros x H. unfold big_Int64. pose proof two64_val. pose proof p62. pose proof p63.
  rewrite big_Uint64_small by lia. apply to_int64_small. lia.
Qed.
Lemma big_Uint64_id : forall x, 0 <= x < 2 ^ 62 -> big_Uint64 x = x.
Proof. intros x H. pose proof two64_val. pose proof p62. apply big_Uint64_small. lia. Qed.

Lemma mem_get_ok : forall mem off len, 0 <= off -> 0 <= len -> blen mem < 2 ^ 62 ->
  (len <> 0 -> off + len <= blen mem) -> mem_get mem (big_Int64 off) (big_Int64 len) <> Panic.
Proof.
  intros mem off len Ho Hl Hm Hc. pose proof p62.
  destruct (Z.eq_dec len 0) as [->|Hne]; [discriminate|].
  specialize (Hc Hne). rewrite !big_Int64_id by lia. unfold mem_get.
  destruct (len =? 0) eqn:E0; [discriminate|].
  destruct (blen mem >? off) eqn:E1; [|discriminate].
  destruct (len <? 0) eqn:E2; [lia|].
  destruct ((off <? 0) || (off + len >? blen mem)) eqn:E3; [lia | discriminate].
Qed.

Lemma mem_get32_ok : forall mem off, 0 <= off -> blen mem < 2 ^ 62 -> off + 32 <= blen mem ->
  mem_get mem (big_Int64 off) 32 <> Panic.
Proof.
  intros mem off Ho Hm Hc. pose proof p62. rewrite big_Int64_id by lia. unfold mem_get.
  change (32 =? 0) with false. cbv iota.
  destruct (blen mem >? off) eqn:E1; [|discriminate].
  change (32 <? 0) with false. cbv iota.
  destruct ((off <? 0) || (off + 32 >? blen mem)) eqn:E3; [lia | discriminate].
Qed.

Lemma mem_set_ok' : forall mem off len v, 0 <= off -> 0 <= len -> blen mem < 2 ^ 62 ->
  (len <> 0 -> off + len <= blen mem) -> mem_set mem (big_Uint64 off) (big_Uint64 len) v <> Panic.
Proof.
  intros mem off len v Ho Hl Hm Hc. pose proof p62. pose proof two64_val.
  destruct (Z.eq_dec len 0) as [->|Hne].
  - change (big_Uint64 0) with 0. unfold mem_set. pose proof (Zle_0_nat (length mem)). unfold blen.
    destruct (0 >? Z.of_nat (length mem)) eqn:E; [lia|]. discriminate.
  - specialize (Hc Hne). rewrite (big_Uint64_id len) by lia. rewrite (big_Uint64_id off) by lia. unfold mem_set.
    destruct (len >? blen mem) eqn:E0; [lia|].
    destruct (len >? 0) eqn:E1; [|discriminate].
    rewrite (wrap64_small (off + len)) by lia.
    destruct ((off >? off + len) || (off + len >? blen mem)) eqn:E3; [lia | discriminate].
Qed.

(* interpreter.go Run: the memory size asked for covers the big.Int the memorySize function returned *)
Lemma run_memorySize_ge : forall b ms, 0 <= b -> run_memorySize b = Ok ms -> b <= ms.
Proof.
  intros b ms Hb H. unfold run_memorySize in H. pose proof two64_val as T. pose proof maxU64_val as M.
  rewrite bigUint64_spec in H by exact Hb.
  destruct (two64 <=? b) eqn:E; [discriminate|].
  rewrite wrap64_small in H by lia.
  rewrite toWordSize_spec in H by lia.
  assert (Hc : 0 <= ceil32 b) by (apply ceil32_nonneg; lia).
  rewrite SafeMul_spec in H by lia.
  destruct (maxU64 <? ceil32 b * 32) eqn:E2; [discriminate|].
  injection H as <-. rewrite wrap64_small by lia. unfold ceil32. lia.
Qed.
