(* Evm/InterpProofsExec.v — C07 "never crashes", the execute functions: once the pre-checks of
   Interpreter.Run passed (stack validated against the table, memory size computed and the memory resized,
   gas charged), operation.execute cannot panic — every stack pop is covered by the arity validateStack
   checked, every memory access lies inside the resized memory (the memorySize function bound to the
   instruction covers the ranges its execute function touches), return-data copies are range checked in
   unbounded integers, jump destinations are validated on byte-valued code. *)
From Coq Require Import ZArith List Bool String Lia ZifyBool ZifyNat.
From AQ Require Import Lib.Bytes Evm.OpsModel Evm.OpsSpec Evm.OpsProofsGas Evm.OpsProofsMem Evm.OpsProofsJumpdest
                       Evm.Interp Evm.InterpProofs Evm.InterpProofs2 Evm.InterpProofs3 Evm.InterpProofsMemInv Evm.InterpProofsPanic.
Import ListNotations.
Local Open Scope Z_scope.
Set Default Timeout 300.

(* ------------------------------------------------------------------ what the tables have to say *)

(* the number of stack items the execute function takes off (or reads) *)
Definition need_exec (x : execfn) : Z :=
  match x with
  | E_arith op => if (op =? 0x08) || (op =? 0x09) then 3 else if (op =? 0x15) || (op =? 0x19) then 1 else 2
  | E_sha3 | E_mstore | E_mstore8 | E_sstore | E_jumpi | E_return | E_revert => 2
  | E_balance | E_calldataload | E_extcodesize | E_blockhash | E_pop | E_mload | E_sload | E_jump | E_suicide => 1
  | E_calldatacopy | E_codecopy | E_returndatacopy | E_create => 3
  | E_extcodecopy => 4
  | E_dup n => n | E_swap n => n + 1 | E_log n => n + 2
  | E_call | E_callcode => 7 | E_delegatecall | E_staticcall => 6
  | E_unknown => 2000
  | _ => 0
  end.

Definition arith_ops : list Z :=
  [0x01;0x02;0x03;0x04;0x05;0x06;0x07;0x08;0x09;0x0a;0x0b;0x10;0x11;0x12;0x13;0x14;0x15;0x16;0x17;0x18;0x19;0x1a;0x1b;0x1c;0x1d].

Definition exec_param_ok (x : execfn) : bool :=
  match x with
  | E_arith op => existsb (Z.eqb op) arith_ops
  | E_dup n | E_swap n => (1 <=? n) && (n <=? 16)
  | E_log n => (0 <=? n) && (n <=? 4)
  | E_push n => (1 <=? n) && (n <=? 32)
  | _ => true
  end.

(* the memorySize function an execute function relies on *)
Definition mem_of (x : execfn) : option memfn :=
  match x with
  | E_sha3 => Some M_sha3 | E_calldatacopy => Some M_calldatacopy | E_codecopy => Some M_codecopy
  | E_extcodecopy => Some M_extcodecopy | E_returndatacopy => Some M_returndatacopy
  | E_mload => Some M_mload | E_mstore => Some M_mstore | E_mstore8 => Some M_mstore8
  | E_log _ => Some M_log | E_create => Some M_create | E_call | E_callcode => Some M_call
  | E_delegatecall => Some M_delegatecall | E_staticcall => Some M_staticcall
  | E_return => Some M_return | E_revert => Some M_revert
  | _ => None
  end.

Definition memfn_eqb (a b : memfn) : bool :=
  match a, b with
  | M_none, M_none | M_sha3, M_sha3 | M_calldatacopy, M_calldatacopy | M_returndatacopy, M_returndatacopy
  | M_codecopy, M_codecopy | M_extcodecopy, M_extcodecopy | M_mload, M_mload | M_mstore8, M_mstore8 | M_mstore, M_mstore
  | M_create, M_create | M_call, M_call | M_delegatecall, M_delegatecall | M_staticcall, M_staticcall
  | M_return, M_return | M_revert, M_revert | M_log, M_log | M_unknown, M_unknown => true
  | _, _ => false
  end.
Lemma memfn_eqb_eq : forall a b, memfn_eqb a b = true -> a = b.
Proof. intros [] []; cbn; congruence. Qed.

Definition exec_ok (c : cop) : bool :=
  negb (c_valid c) ||
  ((need_exec (c_exec c) <=? c_pops c) && exec_param_ok (c_exec c) &&
   match mem_of (c_exec c) with Some m => memfn_eqb (c_mem c) m | None => true end).

(* every execute function of the real tables takes no more than validateStack guarantees, its parameters are in
   range, and it is bound together with the memorySize function that covers what it touches *)
Lemma tables_exec_ok : forall s, forallb exec_ok (ctbl_of s) = true.
Proof. intros []; vm_compute; reflexivity. Qed.
Lemma nth_exec_ok : forall s n, exec_ok (nth n (ctbl_of s) invalid_cop) = true.
Proof.
  intros s n. destruct (nth_in_or_default n (ctbl_of s) invalid_cop) as [Hin | Hd].
  - pose proof (tables_exec_ok s) as H. rewrite forallb_forall in H. apply H, Hin.
  - rewrite Hd. reflexivity.
Qed.

(* ------------------------------------------------------------------ memory accesses inside the memory *)

Definition nonneg_stack (st : list Z) : Prop := Forall (fun v => 0 <= v) st.

Lemma p62 : 2 ^ 62 = 4611686018427387904. Proof. reflexivity. Qed.
Lemma p63 : 2 ^ 63 = 9223372036854775808. Proof. reflexivity. Qed.

Lemma big_Int64_id : forall x, 0 <= x < 2 ^ 62 -> big_Int64 x = x.
Proof.
  intros x H. unfold big_Int64. pose proof two64_val. pose proof p62. pose proof p63.
  rewrite big_Uint64_small by lia. apply to_int64_small. lia.
Qed.
Lemma big_Uint64_id : forall x, 0 <= x < 2 ^ 62 -> big_Uint64 x = x.
Proof. intros x H. pose proof two64_val. pose proof p62. apply big_Uint64_small. lia. Qed.

Lemma mem_get_ok : forall mem off len, 0 <= off -> 0 <= len -> blen mem < 2 ^ 62 ->
  (len <> 0 -> off + len <= blen mem) -> mem_get mem (big_Int64 off) (big_Int64 len) <> Panic.
Proof.
  intros mem off len Ho Hl Hm Hc. pose proof p62.
  destruct (Z.eq_dec len 0) as [->|Hne]; [discriminate|].
  specialize (Hc Hne). rewrite !big_Int64_id by lia. unfold mem_get.
  destruct (len =? 0) eqn:E0; [discriminate|].
  destruct (blen mem >? off) eqn:E1; [|discriminate].
  destruct (len <? 0) eqn:E2; [lia|].
  destruct ((off <? 0) || (off + len >? blen mem)) eqn:E3; [lia | discriminate].
Qed.

Lemma mem_get32_ok : forall mem off, 0 <= off -> blen mem < 2 ^ 62 -> off + 32 <= blen mem ->
  mem_get mem (big_Int64 off) 32 <> Panic.
Proof.
  intros mem off Ho Hm Hc. pose proof p62. rewrite big_Int64_id by lia. unfold mem_get.
  change (32 =? 0) with false. cbv iota.
  destruct (blen mem >? off) eqn:E1; [|discriminate].
  change (32 <? 0) with false. cbv iota.
  destruct ((off <? 0) || (off + 32 >? blen mem)) eqn:E3; [lia | discriminate].
Qed.

Lemma mem_set_ok' : forall mem off len v, 0 <= off -> 0 <= len -> blen mem < 2 ^ 62 ->
  (len <> 0 -> off + len <= blen mem) -> mem_set mem (big_Uint64 off) (big_Uint64 len) v <> Panic.
Proof.
  intros mem off len v Ho Hl Hm Hc. pose proof p62. pose proof two64_val.
  destruct (Z.eq_dec len 0) as [->|Hne].
  - change (big_Uint64 0) with 0. unfold mem_set. pose proof (Zle_0_nat (length mem)). unfold blen.
    destruct (0 >? Z.of_nat (length mem)) eqn:E; [lia|]. discriminate.
  - specialize (Hc Hne). rewrite (big_Uint64_id len) by lia. rewrite (big_Uint64_id off) by lia. unfold mem_set.
    destruct (len >? blen mem) eqn:E0; [lia|].
    destruct (len >? 0) eqn:E1; [|discriminate].
    rewrite (wrap64_small (off + len)) by lia.
    destruct ((off >? off + len) || (off + len >? blen mem)) eqn:E3; [lia | discriminate].
Qed.

(* interpreter.go Run: the memory size asked for covers the big.Int the memorySize function returned *)
Lemma run_memorySize_ge : forall b ms, 0 <= b -> run_memorySize b = Ok ms -> b <= ms.
Proof.
  intros b ms Hb H. unfold run_memorySize in H. pose proof two64_val as T. pose proof maxU64_val as M.
  rewrite bigUint64_spec in H by exact Hb.
  destruct (two64 <=? b) eqn:E; [discriminate|].
  rewrite wrap64_small in H by lia.
  rewrite toWordSize_spec in H by lia.
  assert (Hc : 0 <= ceil32 b) by (apply ceil32_nonneg; lia).
  rewrite SafeMul_spec in H by lia.
  destruct (maxU64 <? ceil32 b * 32) eqn:E2; [discriminate|].
  injection H as <-. rewrite wrap64_small by lia. unfold ceil32. lia.
Qed.

(* ------------------------------------------------------------------ pieces *)

Lemma calc_cov : forall off len B, 0 <= len -> calcMemSize off len <= B -> len <> 0 -> off + len <= B.
Proof. intros off len B Hl H Hne. unfold calcMemSize in H. destruct (Z.sgn len =? 0) eqn:E; lia. Qed.

Lemma exec_arith_no_panic : forall op st, In op arith_ops -> need_exec (E_arith op) <= blen st -> exec_arith op st <> Panic.
Proof.
  intros op st Hin Hn. unfold arith_ops in Hin. cbn [In] in Hin.
  repeat (destruct Hin as [<-|Hin]; [
    cbn [need_exec Z.eqb Pos.eqb orb] in Hn; unfold blen in Hn;
    destruct st as [|a [|b [|c r]]]; cbn [length] in Hn; try lia; cbn; try discriminate;
    repeat match goal with |- context[if ?t then _ else _] => destruct t end; discriminate |]).
  contradiction.
Qed.

Lemma op_JUMP_no_panic : forall code pos, Forall byteval code -> 0 <= pos -> op_JUMP code pos <> Panic.
Proof.
  intros code pos Hc Hp. unfold op_JUMP. destruct (has_no_panic code pos Hc Hp) as [b ->]. destruct b; discriminate.
Qed.
Lemma op_JUMPI_no_panic : forall code pc pos cond, Forall byteval code -> 0 <= pos -> op_JUMPI code pc pos cond <> Panic.
Proof. intros. unfold op_JUMPI. destruct (negb _); [apply op_JUMP_no_panic; assumption | discriminate]. Qed.

Lemma nth_error_some : forall (l : list Z) n, Z.of_nat n < blen l -> exists v, nth_error l n = Some v.
Proof. intros l n H. destruct (nth_error l n) eqn:E; [eauto|]. apply nth_error_None in E. unfold blen in H. lia. Qed.

Lemma op_DUP_no_panic : forall n st, 1 <= n <= blen st -> op_DUP n st <> Panic.
Proof.
  intros n st H. unfold op_DUP. destruct (nth_error_some st (Z.to_nat (n - 1))) as [v ->]; [lia | discriminate].
Qed.
Lemma op_SWAP_no_panic : forall n st, 1 <= n -> n + 1 <= blen st -> op_SWAP n st <> Panic.
Proof.
  intros n st H1 H. unfold op_SWAP. destruct st as [|top rest]; [unfold blen in H; cbn in H; lia|].
  destruct (nth_error_some rest (Z.to_nat (n - 1))) as [v ->]; [unfold blen in *; cbn [length] in H; lia | discriminate].
Qed.

(* ------------------------------------------------------------------ frames below *)

Definition rec_safe (rec : interp_t) : Prop := forall w f, o_res (rec w f) <> R_panic.
Definition prec_safe (e : env) : Prop := forall w a i g rd tr ro, o_res (run_precompile e w a i g rd tr ro) <> R_panic.

Lemma finish_call_safe : forall s o, o_res o <> R_panic -> o_res (finish_call s o) <> R_panic.
Proof. intros s o H. unfold finish_call. destruct (o_res o) eqn:E; cbn [o_res]; try rewrite E; congruence. Qed.
Lemma run_contract_safe : forall rec e w ca fr rd, rec_safe rec -> prec_safe e -> o_res (run_contract rec e w ca fr rd) <> R_panic.
Proof. intros. unfold run_contract. destruct (is_precompile e ca); auto. Qed.

Lemma do_call_safe : forall rec e w rd tr depth ro caller addr input gas value, rec_safe rec -> prec_safe e ->
  o_res (do_call rec e w rd tr depth ro caller addr input gas value) <> R_panic.
Proof.
  intros. unfold do_call. destruct (depth >? _); [discriminate|]. destruct (negb _); [discriminate|].
  destruct (_ && _); [discriminate|]. apply finish_call_safe, run_contract_safe; assumption.
Qed.
Lemma do_callcode_safe : forall rec e w rd tr depth ro caller addr input gas value, rec_safe rec -> prec_safe e ->
  o_res (do_callcode rec e w rd tr depth ro caller addr input gas value) <> R_panic.
Proof.
  intros. unfold do_callcode. destruct (depth >? _); [discriminate|]. destruct (negb _); [discriminate|].
  apply finish_call_safe, run_contract_safe; assumption.
Qed.
Lemma do_delegatecall_safe : forall rec e w rd tr depth ro self pc pv addr input gas, rec_safe rec -> prec_safe e ->
  o_res (do_delegatecall rec e w rd tr depth ro self pc pv addr input gas) <> R_panic.
Proof.
  intros. unfold do_delegatecall. destruct (depth >? _); [discriminate|].
  apply finish_call_safe, run_contract_safe; assumption.
Qed.
Lemma do_staticcall_safe : forall rec e w rd tr depth ro caller addr input gas, rec_safe rec -> prec_safe e ->
  o_res (do_staticcall rec e w rd tr depth ro caller addr input gas) <> R_panic.
Proof.
  intros. unfold do_staticcall. destruct (depth >? _); [discriminate|].
  destruct ro; [|cbn [set_out_ro o_res]]; apply finish_call_safe, run_contract_safe; assumption.
Qed.
Lemma do_create_safe : forall rec e w rd tr depth ro caller code gas value, rec_safe rec -> prec_safe e ->
  o_res (do_create rec e w rd tr depth ro caller code gas value) <> R_panic.
Proof.
  intros rec e w rd tr depth ro caller code gas value Hr Hp. unfold do_create.
  destruct (depth >? _); [discriminate|]. destruct (negb _); [discriminate|]. destruct (_ || _); [discriminate|].
  match goal with |- context[run_contract rec e ?w3 ?a ?fr rd] =>
    pose proof (run_contract_safe rec e w3 a fr rd Hr Hp) as Hs; set (o := run_contract rec e w3 a fr rd) in * end.
  destruct (o_res o) eqn:Eo; try congruence; try (rewrite Eo; discriminate);
    cbn [o_res]; repeat match goal with |- context[if ?t then _ else _] => destruct t end; cbn [o_res]; discriminate.
Qed.

Lemma call_return_no_panic : forall w fr rest ro rs o, o_res o <> R_panic ->
  0 <= ro -> 0 <= rs -> blen (f_mem fr) < 2 ^ 62 -> (rs <> 0 -> ro + rs <= blen (f_mem fr)) ->
  call_return w fr rest ro rs o <> X_panic.
Proof.
  intros w fr rest ro rs o Ho H1 H2 Hm Hc. unfold call_return.
  destruct (o_res o) eqn:E; try congruence; try discriminate;
    (pose proof (mem_set_ok' (f_mem fr) ro rs (ret_of (o_res o)) H1 H2 Hm Hc) as Hs; rewrite E in Hs;
     destruct (mem_set _ _ _ _); try congruence; discriminate).
Qed.

(* ------------------------------------------------------------------ operation.execute *)

(* the memory covers what the memorySize function of the instruction asked for *)
Definition covered (x : execfn) (st mem : list Z) : Prop :=
  match mem_of x with
  | Some m => forall b, mem_size_big m st = Some (Some b) -> b <= blen mem
  | None => True
  end.

Ltac short_stack Hn := exfalso; cbn [need_exec] in Hn; unfold blen in Hn; cbn [length] in Hn; lia.
Ltac nn H := repeat match type of H with Forall _ (_ :: _) => let a := fresh "Hnn" in inversion H as [|? ? a H']; clear H; rename H' into H; subst end.

Theorem exec_no_panic : forall rec e w fr x temp,
  rec_safe rec -> prec_safe e ->
  need_exec x <= blen (f_stack fr) -> need_exec x <= 17 -> exec_param_ok x = true ->
  nonneg_stack (f_stack fr) -> Forall byteval (f_code fr) -> blen (f_mem fr) < 2 ^ 62 ->
  covered x (f_stack fr) (f_mem fr) ->
  exec rec e w fr x temp <> X_panic.
Proof.
  intros rec e w fr x temp Hrec Hprec Hn H17 Hpar Hnn Hcode Hmem Hcov.
  unfold covered in Hcov. unfold nonneg_stack in Hnn.
  remember (f_stack fr) as st eqn:Est.
  destruct x; unfold exec; rewrite <- ?Est; cbn [mem_of] in Hcov; try discriminate.
  - (* arith *)
    cbn [exec_param_ok] in Hpar. apply existsb_exists in Hpar as (o & Hin & Heq). apply Z.eqb_eq in Heq. subst o.
    pose proof (exec_arith_no_panic op st Hin Hn) as Ha. destruct (exec_arith op st); try congruence; discriminate.
  - (* sha3 *)
    destruct st as [|off [|len r]]; try short_stack Hn. inversion Hnn as [|? ? Ho Hnn']; subst. inversion Hnn' as [|? ? Hl _]; subst.
    specialize (Hcov _ eq_refl).
    pose proof (mem_get_ok (f_mem fr) off len Ho Hl Hmem (calc_cov _ _ _ Hl Hcov)) as Hg.
    destruct (mem_get _ _ _); try congruence; discriminate.
  - (* balance *) destruct st; [short_stack Hn | discriminate].
  - (* calldataload *) destruct st; [short_stack Hn | discriminate].
  - (* calldatacopy *)
    destruct st as [|a [|b [|c r]]]; try short_stack Hn.
    inversion Hnn as [|? ? Ha Hnn1]; subst. inversion Hnn1 as [|? ? Hb Hnn2]; subst. inversion Hnn2 as [|? ? Hc _]; subst.
    specialize (Hcov _ eq_refl). unfold lift_mem, op_DATACOPY.
    pose proof (mem_set_ok' (f_mem fr) a c (getDataBig (f_input fr) b c) Ha Hc Hmem (calc_cov _ _ _ Hc Hcov)) as Hs.
    destruct (mem_set _ _ _ _); try congruence; discriminate.
  - (* codecopy *)
    destruct st as [|a [|b [|c r]]]; try short_stack Hn.
    inversion Hnn as [|? ? Ha Hnn1]; subst. inversion Hnn1 as [|? ? Hb Hnn2]; subst. inversion Hnn2 as [|? ? Hc _]; subst.
    specialize (Hcov _ eq_refl). unfold lift_mem, op_DATACOPY.
    pose proof (mem_set_ok' (f_mem fr) a c (getDataBig (f_code fr) b c) Ha Hc Hmem (calc_cov _ _ _ Hc Hcov)) as Hs.
    destruct (mem_set _ _ _ _); try congruence; discriminate.
  - (* extcodesize *) destruct st; [short_stack Hn | discriminate].
  - (* extcodecopy *)
    destruct st as [|a [|b [|c [|d r]]]]; try short_stack Hn.
    inversion Hnn as [|? ? Ha Hnn1]; subst. inversion Hnn1 as [|? ? Hb Hnn2]; subst. inversion Hnn2 as [|? ? Hc Hnn3]; subst.
    inversion Hnn3 as [|? ? Hd _]; subst.
    specialize (Hcov _ eq_refl). unfold lift_mem, op_DATACOPY.
    pose proof (mem_set_ok' (f_mem fr) b d (getDataBig (get_code w (addr_of a)) c d) Hb Hd Hmem (calc_cov _ _ _ Hd Hcov)) as Hs.
    destruct (mem_set _ _ _ _); try congruence; discriminate.
  - (* returndatacopy *)
    destruct st as [|a [|b [|c r]]]; try short_stack Hn.
    inversion Hnn as [|? ? Ha Hnn1]; subst. inversion Hnn1 as [|? ? Hb Hnn2]; subst. inversion Hnn2 as [|? ? Hc _]; subst.
    specialize (Hcov _ eq_refl). unfold lift_mem, op_RETURNDATACOPY.
    destruct (_ || _); [discriminate|].
    match goal with |- context[mem_set ?m ?o ?s ?v] => pose proof (mem_set_ok' (f_mem fr) a c v Ha Hc Hmem (calc_cov _ _ _ Hc Hcov)) as Hs end.
    destruct (mem_set _ _ _ _); try congruence; discriminate.
  - (* blockhash *) destruct st; [short_stack Hn | discriminate].
  - (* pop *) destruct st; [short_stack Hn | discriminate].
  - (* mload *)
    destruct st as [|off r]; try short_stack Hn. inversion Hnn as [|? ? Ho _]; subst.
    specialize (Hcov _ eq_refl). unfold calcMemSize in Hcov. change (Z.sgn 32 =? 0) with false in Hcov. cbv iota in Hcov.
    unfold op_MLOAD. pose proof (mem_get32_ok (f_mem fr) off Ho Hmem Hcov) as Hg.
    destruct (mem_get _ _ _); try congruence; discriminate.
  - (* mstore *)
    destruct st as [|a [|v r]]; try short_stack Hn. inversion Hnn as [|? ? Ha _]; subst.
    specialize (Hcov _ eq_refl). unfold lift_mem, op_MSTORE.
    pose proof (mem_set_ok' (f_mem fr) a 32 (PaddedBigBytes v 32) Ha ltac:(lia) Hmem (calc_cov a 32 _ ltac:(lia) Hcov)) as Hs.
    change (big_Uint64 32) with 32 in Hs.
    destruct (mem_set _ _ _ _); try congruence; discriminate.
  - (* mstore8 *)
    destruct st as [|a [|v r]]; try short_stack Hn. inversion Hnn as [|? ? Ha _]; subst.
    specialize (Hcov _ eq_refl). unfold calcMemSize in Hcov. change (Z.sgn 1 =? 0) with false in Hcov. cbv iota in Hcov.
    unfold lift_mem, op_MSTORE8. pose proof p62. rewrite (big_Int64_id a) by lia.
    destruct ((a <? 0) || (a >=? blen (f_mem fr))) eqn:E; [lia | discriminate].
  - (* sload *) destruct st; [short_stack Hn | discriminate].
  - (* sstore *) destruct st as [|a [|v r]]; try short_stack Hn. discriminate.
  - (* jump *)
    destruct st as [|pos r]; try short_stack Hn. inversion Hnn as [|? ? Hp _]; subst.
    pose proof (op_JUMP_no_panic (f_code fr) pos Hcode Hp) as Hj. destruct (op_JUMP _ _); try congruence; discriminate.
  - (* jumpi *)
    destruct st as [|pos [|cond r]]; try short_stack Hn. inversion Hnn as [|? ? Hp _]; subst.
    pose proof (op_JUMPI_no_panic (f_code fr) (f_pc fr) pos cond Hcode Hp) as Hj. destruct (op_JUMPI _ _ _ _); try congruence; discriminate.
  - (* dup *)
    cbn [exec_param_ok need_exec] in *. pose proof (op_DUP_no_panic n st ltac:(lia)) as Hd. destruct (op_DUP n st); try congruence; discriminate.
  - (* swap *)
    cbn [exec_param_ok need_exec] in *. pose proof (op_SWAP_no_panic n st ltac:(lia) ltac:(lia)) as Hd. destruct (op_SWAP n st); try congruence; discriminate.
  - (* log *)
    cbn [exec_param_ok need_exec] in *.
    destruct st as [|ms [|sz r]]; try (exfalso; unfold blen in Hn; cbn [length] in Hn; lia).
    inversion Hnn as [|? ? Ho Hnn']; subst. inversion Hnn' as [|? ? Hl _]; subst.
    destruct (Z.of_nat (length r) <? n) eqn:El; [exfalso; unfold blen in Hn; cbn [length] in Hn; lia|].
    specialize (Hcov _ eq_refl).
    pose proof (mem_get_ok (f_mem fr) ms sz Ho Hl Hmem (calc_cov _ _ _ Hl Hcov)) as Hg.
    destruct (mem_get _ _ _); try congruence; discriminate.
  - (* create *)
    destruct st as [|value [|off [|len r]]]; try short_stack Hn.
    inversion Hnn as [|? ? Hv Hnn1]; subst. inversion Hnn1 as [|? ? Ho Hnn2]; subst. inversion Hnn2 as [|? ? Hl _]; subst.
    specialize (Hcov _ eq_refl).
    pose proof (mem_get_ok (f_mem fr) off len Ho Hl Hmem (calc_cov _ _ _ Hl Hcov)) as Hg.
    destruct (mem_get _ _ _) as [input|?|]; try congruence; try discriminate.
    match goal with |- context[do_create ?a ?b ?c ?d ?e' ?f ?g ?h ?i ?j ?k] =>
      pose proof (do_create_safe a b c d e' f g h i j k Hrec Hprec) as Hc; destruct (o_res (do_create a b c d e' f g h i j k)) end;
      try congruence; discriminate.
  - (* call *)
    destruct st as [|g0 [|addr [|value0 [|io [|is [|ro [|rs r]]]]]]]; try short_stack Hn.
    inversion Hnn as [|? ? H0 Hnn1]; subst. inversion Hnn1 as [|? ? H1 Hnn2]; subst. inversion Hnn2 as [|? ? H2 Hnn3]; subst.
    inversion Hnn3 as [|? ? Hio Hnn4]; subst. inversion Hnn4 as [|? ? His Hnn5]; subst. inversion Hnn5 as [|? ? Hro Hnn6]; subst.
    inversion Hnn6 as [|? ? Hrs _]; subst.
    specialize (Hcov _ eq_refl). apply Z.max_lub_iff in Hcov as [Hc1 Hc2].
    pose proof (mem_get_ok (f_mem fr) io is Hio His Hmem (calc_cov _ _ _ His Hc2)) as Hg.
    destruct (mem_get _ _ _) as [args|?|]; try congruence; try discriminate.
    apply call_return_no_panic; auto using do_call_safe, calc_cov.
  - (* callcode *)
    destruct st as [|g0 [|addr [|value0 [|io [|is [|ro [|rs r]]]]]]]; try short_stack Hn.
    inversion Hnn as [|? ? H0 Hnn1]; subst. inversion Hnn1 as [|? ? H1 Hnn2]; subst. inversion Hnn2 as [|? ? H2 Hnn3]; subst.
    inversion Hnn3 as [|? ? Hio Hnn4]; subst. inversion Hnn4 as [|? ? His Hnn5]; subst. inversion Hnn5 as [|? ? Hro Hnn6]; subst.
    inversion Hnn6 as [|? ? Hrs _]; subst.
    specialize (Hcov _ eq_refl). apply Z.max_lub_iff in Hcov as [Hc1 Hc2].
    pose proof (mem_get_ok (f_mem fr) io is Hio His Hmem (calc_cov _ _ _ His Hc2)) as Hg.
    destruct (mem_get _ _ _) as [args|?|]; try congruence; try discriminate.
    apply call_return_no_panic; auto using do_callcode_safe, calc_cov.
  - (* return *)
    destruct st as [|off [|len r]]; try short_stack Hn. inversion Hnn as [|? ? Ho Hnn']; subst. inversion Hnn' as [|? ? Hl _]; subst.
    specialize (Hcov _ eq_refl).
    pose proof (mem_get_ok (f_mem fr) off len Ho Hl Hmem (calc_cov _ _ _ Hl Hcov)) as Hg.
    destruct (mem_get _ _ _); try congruence; discriminate.
  - (* delegatecall *)
    destruct st as [|g0 [|addr [|io [|is [|ro [|rs r]]]]]]; try short_stack Hn.
    inversion Hnn as [|? ? H0 Hnn1]; subst. inversion Hnn1 as [|? ? H1 Hnn3]; subst.
    inversion Hnn3 as [|? ? Hio Hnn4]; subst. inversion Hnn4 as [|? ? His Hnn5]; subst. inversion Hnn5 as [|? ? Hro Hnn6]; subst.
    inversion Hnn6 as [|? ? Hrs _]; subst.
    specialize (Hcov _ eq_refl). apply Z.max_lub_iff in Hcov as [Hc1 Hc2].
    pose proof (mem_get_ok (f_mem fr) io is Hio His Hmem (calc_cov _ _ _ His Hc2)) as Hg.
    destruct (mem_get _ _ _) as [args|?|]; try congruence; try discriminate.
    apply call_return_no_panic; auto using do_delegatecall_safe, calc_cov.
  - (* staticcall *)
    destruct st as [|g0 [|addr [|io [|is [|ro [|rs r]]]]]]; try short_stack Hn.
    inversion Hnn as [|? ? H0 Hnn1]; subst. inversion Hnn1 as [|? ? H1 Hnn3]; subst.
    inversion Hnn3 as [|? ? Hio Hnn4]; subst. inversion Hnn4 as [|? ? His Hnn5]; subst. inversion Hnn5 as [|? ? Hro Hnn6]; subst.
    inversion Hnn6 as [|? ? Hrs _]; subst.
    specialize (Hcov _ eq_refl). apply Z.max_lub_iff in Hcov as [Hc1 Hc2].
    pose proof (mem_get_ok (f_mem fr) io is Hio His Hmem (calc_cov _ _ _ His Hc2)) as Hg.
    destruct (mem_get _ _ _) as [args|?|]; try congruence; try discriminate.
    apply call_return_no_panic; auto using do_staticcall_safe, calc_cov.
  - (* revert *)
    destruct st as [|off [|len r]]; try short_stack Hn. inversion Hnn as [|? ? Ho Hnn']; subst. inversion Hnn' as [|? ? Hl _]; subst.
    specialize (Hcov _ eq_refl).
    pose proof (mem_get_ok (f_mem fr) off len Ho Hl Hmem (calc_cov _ _ _ Hl Hcov)) as Hg.
    destruct (mem_get _ _ _); try congruence; discriminate.
  - (* suicide *) destruct st; [short_stack Hn | discriminate].
  - (* unknown *) cbn [need_exec] in H17. lia.
Qed.

(* ------------------------------------------------------------------ one iteration of the loop *)

Lemma calc_nonneg : forall a b, 0 <= a -> 0 <= b -> 0 <= calcMemSize a b.
Proof. intros. unfold calcMemSize. destruct (_ =? _); lia. Qed.

Lemma mem_size_big_nonneg : forall m st b, nonneg_stack st -> mem_size_big m st = Some (Some b) -> 0 <= b.
Proof.
  intros m st b Hnn H. unfold nonneg_stack in Hnn. rewrite Forall_forall in Hnn.
  assert (Hb : forall n v, back st n = Some v -> 0 <= v) by (intros n v Hv; apply Hnn; unfold back in Hv; eapply nth_error_In; eassumption).
  destruct m; cbn [mem_size_big] in H; try discriminate;
    repeat match type of H with context[back st ?n] => let v := fresh "v" in let Hv := fresh "Hv" in
                                                      destruct (back st n) as [v|] eqn:Hv; [apply Hb in Hv|discriminate] end;
    injection H as <-; try apply calc_nonneg; try lia; apply Z.max_le_iff; left; apply calc_nonneg; lia.
Qed.

Lemma resized_len : forall mem ms, ms <= blen (if ms >? 0 then mem_resize mem ms else mem) /\
                                   blen (if ms >? 0 then mem_resize mem ms else mem) <= Z.max (blen mem) ms.
Proof.
  intros mem ms. pose proof (Zle_0_nat (length mem)) as Hm. unfold blen in *.
  destruct (ms >? 0) eqn:E; [|lia]. unfold mem_resize, blen.
  destruct (Z.of_nat (length mem) <? ms) eqn:E2; [rewrite app_length, repeat_length|]; lia.
Qed.

(* the frame is one the interpreter can be in: stack items are non-negative integers, code is made of bytes,
   the memory is not absurdly long (it never exceeds 0xffffffffe0 bytes in a run) *)
Definition frame_sane (fr : frame) : Prop :=
  nonneg_stack (f_stack fr) /\ Forall byteval (f_code fr) /\ blen (f_mem fr) < 2 ^ 61.

Theorem step_no_panic : forall rec e w fr o, wf_env e -> rec_safe rec -> prec_safe e -> frame_sane fr ->
  step rec e w fr = S_done o -> o_res o <> R_panic.
Proof.
  intros rec e w fr o Hwf Hrec Hprec (Hnn & Hcode & Hmem) H. unfold step in H.
  set (op := get_op (f_code fr) (f_pc fr)) in *.
  set (c := nth (Z.to_nat op) (e_tbl e) invalid_cop) in *.
  destruct (wf_tbl e Hwf) as [s Hs].
  assert (Har : arity_ok c = true) by (subst c; rewrite Hs; apply nth_arity_ok).
  assert (Hex : exec_ok c = true) by (subst c; rewrite Hs; apply nth_exec_ok).
  assert (Hmc : InterpProofsMemInv.mem_compat c = true) by (subst c; rewrite Hs; apply InterpProofsMemInv.nth_mem_compat).
  assert (Hok : cop_ok c = true) by (subst c; rewrite Hs; apply nth_cop_ok).
  destruct (negb (c_valid c)) eqn:Hv; [injection H as <-; discriminate|].
  unfold arity_ok in Har. rewrite Hv in Har. cbn [orb] in Har.
  apply andb_prop in Har as [Har Hp17]. apply andb_prop in Har as [Ham Hag].
  unfold exec_ok in Hex. rewrite Hv in Hex. cbn [orb] in Hex.
  apply andb_prop in Hex as [Hex Hbind]. apply andb_prop in Hex as [Hneed Hpar].
  unfold InterpProofsMemInv.mem_compat in Hmc. rewrite Hv in Hmc. cbn [orb] in Hmc.
  unfold cop_ok in Hok. rewrite Hv in Hok. cbn [orb] in Hok.
  apply andb_prop in Hok as [Hok _]. apply andb_prop in Hok as [Hok _]. apply andb_prop in Hok as [Hok _].
  apply andb_prop in Hok as [Hok _]. apply andb_prop in Hok as [Hok _]. apply andb_prop in Hok as [Hmin0 _].
  destruct (validateStack _ _ _) as [[]|?|] eqn:Hvs; [|injection H as <-; discriminate|].
  2: { exfalso. unfold validateStack in Hvs. repeat match type of Hvs with context[if ?b then _ else _] => destruct b end; discriminate. }
  apply validateStack_spec in Hvs. destruct Hvs as [Hpops _].
  destruct (restricted e fr op c); [injection H as <-; discriminate|].
  assert (Hmk : need_mem (c_mem c) < 2000) by (destruct (c_mem c); cbn [need_mem] in *; lia).
  pose proof (mem_size_big_some (c_mem c) (f_stack fr) ltac:(lia) Hmk) as Hmsb.
  destruct (mem_size_big (c_mem c) (f_stack fr)) as [msb|] eqn:Emsb; [|congruence].
  destruct (match msb with Some b => run_memorySize b | None => Ok 0 end) as [ms|?|] eqn:Hms; [|injection H as <-; discriminate|].
  2: { exfalso. destruct msb as [b|]; [|discriminate]. unfold run_memorySize in Hms.
       destruct (bigUint64 b) as [? []]; try discriminate. destruct (SafeMul _ _) as [? []]; discriminate. }
  assert (Hgk : need_gas (c_gas c) < 2000) by (destruct (c_gas c); cbn [need_gas] in *; lia).
  pose proof (gas_cost_no_panic e w fr (c_gas c) ms ltac:(lia) Hgk) as Hgnp.
  destruct (gas_cost e w fr (c_gas c) ms) as [g|?|] eqn:Hgc; [|injection H as <-; discriminate|congruence].
  destruct (f_gas fr <? g_cost g); [injection H as <-; discriminate|].
  (* the memory size charged for is below the 0xffffffffe0 limit of memoryGasCost *)
  assert (Hmsb0 : ms <= 0xffffffffe0).
  { assert (Hor : InterpProofsMemInv.gas_uses_mem (c_gas c) = true \/ ms = 0).
    { destruct (InterpProofsMemInv.gas_uses_mem (c_gas c)) eqn:Hu; [left; reflexivity|right].
      destruct (c_mem c) eqn:Hcm; try rewrite Hu in Hmc; try discriminate Hmc.
      cbn [mem_size_big] in Emsb. injection Emsb as <-. congruence. }
    destruct (InterpProofsMemInv.gas_cost_mem e w fr (c_gas c) ms g Hwf ltac:(lia) Hgc Hor) as (fee & Hm & _ & _).
    destruct (Z_le_gt_dec ms 0xffffffffe0) as [Hle|Hgt]; [exact Hle|].
    rewrite memoryGasCost_error in Hm by lia. discriminate. }
  match type of H with context[exec rec e (g_world g) ?f1 (c_exec c) (g_temp g)] => set (fr1 := f1) in * end.
  assert (Hx : exec rec e (g_world g) fr1 (c_exec c) (g_temp g) <> X_panic).
  { pose proof (resized_len (f_mem fr) ms) as [Hlo Hhi].
    apply exec_no_panic; try assumption.
    - change (f_stack fr1) with (f_stack fr). lia.
    - lia.
    - change (f_mem fr1) with (if ms >? 0 then mem_resize (f_mem fr) ms else f_mem fr).
      assert (2 ^ 61 = 2305843009213693952) by reflexivity. assert (2 ^ 62 = 4611686018427387904) by reflexivity. lia.
    - unfold covered. destruct (mem_of (c_exec c)) as [m|] eqn:Emo; [|exact I].
      apply memfn_eqb_eq in Hbind. intros b Hb. change (f_stack fr1) with (f_stack fr) in Hb.
      rewrite <- Hbind, Emsb in Hb. injection Hb as ->.
      pose proof (mem_size_big_nonneg _ _ _ Hnn Emsb) as Hb0.
      apply run_memorySize_ge in Hms; [|exact Hb0].
      change (f_mem fr1) with (if ms >? 0 then mem_resize (f_mem fr) ms else f_mem fr). lia. }
  destruct (exec rec e (g_world g) fr1 (c_exec c) (g_temp g)); try congruence; try (injection H as <-; discriminate).
  repeat match type of H with context[if ?b then _ else _] => destruct b end; try discriminate; injection H as <-; discriminate.
Qed.

(* ------------------------------------------------------------------ precompiled contracts *)

(* every precompile but bigModExp: whatever the oracle says, no panic *)
Lemma run_precompile_safe : forall e w a i g rd tr ro, a <> 5 -> o_res (run_precompile e w a i g rd tr ro) <> R_panic.
Proof.
  intros e w a i g rd tr ro Ha. unfold run_precompile.
  destruct (a =? 5) eqn:E; [lia|].
  destruct (e_precomp e a i) as [[og r]|]; [|discriminate].
  destruct (g <? _); [discriminate|]. destruct (a =? 4); [discriminate|]. destruct r; discriminate.
Qed.

(* bigModExp: the premise [prec_safe] cannot be dropped for arbitrary gas.  A 1-byte modulus and a declared
   exponent length of 2^60 cost about 4.6e17 gas (< 2^64); with that much gas Run asks getData for a 2^60-byte
   buffer and make() panics.  No block holds that gas (the property quantifies over gas up to the block limit). *)
Definition modexp_huge_input : list Z :=
  repeat 0 32 ++ (repeat 0 24 ++ [0x10; 0; 0; 0; 0; 0; 0; 0]) ++ (repeat 0 31 ++ [1]) ++ [3; 5].
Theorem modexp_panics_with_huge_gas :
  modexp_gas modexp_huge_input = Ok 461168601842738790 /\
  o_res (run_precompile (demo_env 40000) demo_world 5 modexp_huge_input (2 ^ 63) [] [] false) = R_panic /\
  o_res (run_precompile (demo_env 40000) demo_world 5 modexp_huge_input 8000000 [] [] false) = R_err (IE_op ErrOutOfGas) [].
Proof. vm_compute. repeat split; reflexivity. Qed.

(* non-vacuity: a frame the hypotheses of step_no_panic hold of *)
Example frame_sane_example : frame_sane (new_frame [0x60;1;0x60;0;0x52;0] [] 0xbb 0xaa 0 100000 false 1 []).
Proof.
  unfold frame_sane, nonneg_stack, new_frame; cbn [f_stack f_code f_mem]. split; [constructor|]. split.
  - repeat constructor; unfold byteval; lia.
  - reflexivity.
Qed.
