(* Evm/OpsProofsMemGas.v — complete behaviour of memoryGasCost over the whole uint64
   range (the uint64 square wraps from 2^32 words on), the exact boundary of
   correctness against the Yellow-Paper fee, and the memory size of the call family. *)
From Coq Require Import ZArith List Bool Lia ZifyBool.
From AQ Require Import Evm.OpsModel Evm.OpsSpec Evm.OpsProofsGas.
Import ListNotations.
Local Open Scope Z_scope.

#[local] Ltac Zify.zify_post_hook ::= Z.div_mod_to_equations.

(* what the code charges in total for w words: the square is reduced mod 2^64 *)
Definition Cmem_code (w : Z) : Z := 3 * w + ((w * w) mod two64) / 512.

Lemma Cmem_code_bounds : forall w, 0 <= w < 2^35 -> 0 <= Cmem_code w < two64.
Proof.
  intros w H. unfold Cmem_code.
  pose proof two64_val as T.
  pose proof (Z.mod_pos_bound (w * w) two64 ltac:(lia)) as B.
  set (r := (w * w) mod two64) in *. clearbody r.
  rewrite T in *. lia.
Qed.

(* total behaviour, every uint64 size, every memory length and lastGasCost in range *)
Theorem memoryGasCost_total : forall memLen last n, 0 <= memLen -> 0 <= last < two64 -> 0 <= n < two64 ->
  memoryGasCost memLen last n =
    if n =? 0 then Ok (0, last)
    else if n >? 0xffffffffe0 then Err ErrGasUintOverflow
    else if 32 * ceil32 n >? memLen then Ok (wrap64 (Cmem_code (ceil32 n) - last), Cmem_code (ceil32 n))
    else Ok (0, last).
Proof.
  intros memLen last n Hm Hl Hn. unfold memoryGasCost.
  pose proof two64_val as T.
  destruct (n =? 0) eqn:E0; [reflexivity|].
  destruct (n >? 0xffffffffe0) eqn:E1; [reflexivity|].
  rewrite toWordSize_spec by lia.
  assert (Hc : 0 < ceil32 n < 2^35) by (unfold ceil32; lia).
  set (w := ceil32 n) in *. clearbody w.
  rewrite (wrap64_small (w * 32)) by lia.
  rewrite (Z.mul_comm w 32).
  destruct (32 * w >? memLen) eqn:E2; [|reflexivity].
  unfold MemoryGas, QuadCoeffDiv.
  rewrite (wrap64_small (w * 3)) by lia.
  replace (w * 3 + wrap64 (w * w) / 512) with (Cmem_code w)
    by (unfold Cmem_code, wrap64; lia).
  pose proof (Cmem_code_bounds w ltac:(lia)) as Cb.
  rewrite (wrap64_small (Cmem_code w)) by exact Cb.
  reflexivity.
Qed.

Theorem Cmem_code_below : forall w, 0 <= w < 2^32 -> Cmem_code w = Cmem w.
Proof.
  intros w H. unfold Cmem_code, Cmem.
  pose proof two64_val as T.
  assert (Hsq : 0 <= w * w < two64).
  { assert (w * w <= (2^32 - 1) * (2^32 - 1)) by (apply Z.mul_le_mono_nonneg; lia).
    assert (0 <= w * w) by (apply Z.mul_nonneg_nonneg; lia). lia. }
  rewrite (Z.mod_small (w * w) two64) by exact Hsq. reflexivity.
Qed.

(* from 2^32 words on the code undercharges, strictly, for EVERY accepted size *)
Theorem Cmem_code_wraps : forall w, 2^32 <= w < 2^35 -> Cmem_code w < Cmem w.
Proof.
  intros w H. unfold Cmem_code, Cmem.
  pose proof two64_val as T.
  assert (Hsq : 2^32 * 2^32 <= w * w) by (apply Z.mul_le_mono_nonneg; lia).
  set (s := w * w) in *. clearbody s.
  rewrite T. lia.
Qed.

(* exact boundary *)
Theorem memoryGasCost_correct_iff : forall w0 n, 0 <= w0 < 2^32 -> 0 < n <= 0xffffffffe0 -> w0 < ceil32 n ->
  (memoryGasCost (32 * w0) (Cmem w0) n = Ok (Cmem (ceil32 n) - Cmem w0, Cmem (ceil32 n)) <-> ceil32 n < 2^32).
Proof.
  intros w0 n Hw Hn Hlt.
  pose proof two64_val as T.
  pose proof (Cmem_small w0 Hw) as Cs0.
  pose proof (Cmem_nonneg w0 ltac:(lia)) as Cn0.
  rewrite memoryGasCost_total by lia.
  assert (n =? 0 = false) as -> by lia.
  assert (n >? 0xffffffffe0 = false) as -> by lia.
  assert (Hc : 0 < ceil32 n < 2^35) by (unfold ceil32; lia).
  set (w := ceil32 n) in *. clearbody w.
  assert (32 * w >? 32 * w0 = true) as -> by lia.
  split.
  - intro H. injection H as _ H2.
    destruct (Z_lt_ge_dec w (2^32)) as [L|G]; [exact L|].
    pose proof (Cmem_code_wraps w ltac:(lia)). lia.
  - intro L. rewrite (Cmem_code_below w) by lia.
    pose proof (Cmem_small w ltac:(lia)) as Cs.
    pose proof (Cmem_mono w0 w ltac:(lia)) as Cm.
    rewrite wrap64_small by lia. reflexivity.
Qed.

(* never a silent success above the guard, never an error below it *)
Theorem memoryGasCost_error_iff : forall memLen last n, 0 <= memLen -> 0 <= last < two64 -> 0 <= n < two64 ->
  (memoryGasCost memLen last n = Err ErrGasUintOverflow <-> 0xffffffffe0 < n) /\ memoryGasCost memLen last n <> Panic.
Proof.
  intros memLen last n Hm Hl Hn.
  rewrite memoryGasCost_total by assumption.
  destruct (n =? 0) eqn:E0.
  - split; [split; [discriminate | lia] | discriminate].
  - destruct (n >? 0xffffffffe0) eqn:E1.
    + split; [split; [lia | reflexivity] | discriminate].
    + destruct (32 * ceil32 n >? memLen);
        (split; [split; [discriminate | lia] | discriminate]).
Qed.

(* interpreter.go memory-size step on an arbitrary non-negative big integer *)
Theorem run_memorySize_big : forall b, 0 <= b ->
  run_memorySize b = if 32 * ceil32 b <=? maxU64 then Ok (32 * ceil32 b) else Err ErrGasUintOverflow.
Proof.
  intros need Hn.
  unfold run_memorySize. rewrite bigUint64_spec by exact Hn.
  pose proof two64_val as T. pose proof maxU64_val as M.
  destruct (two64 <=? need) eqn:E.
  - assert (two64 <= need) by lia.
    destruct (32 * ceil32 need <=? maxU64) eqn:E2; [|reflexivity].
    exfalso. unfold ceil32 in E2. lia.
  - rewrite wrap64_small by lia. rewrite toWordSize_spec by lia.
    pose proof (ceil32_nonneg need Hn) as Cn.
    rewrite SafeMul_spec by lia.
    rewrite (Z.mul_comm (ceil32 need) 32).
    set (c := ceil32 need) in *.
    destruct (32 * c <=? maxU64) eqn:E2.
    + assert (maxU64 <? 32 * c = false) as -> by lia.
      rewrite wrap64_small by lia. reflexivity.
    + assert (maxU64 <? 32 * c = true) as -> by lia. reflexivity.
Qed.

Lemma calcMemSize_val : forall off l, 0 <= l ->
  calcMemSize off l = if l =? 0 then 0 else off + l.
Proof.
  intros off l Hl. unfold calcMemSize. destruct (l =? 0) eqn:E.
  - assert (l = 0) by lia. subst l. reflexivity.
  - rewrite (Z.sgn_pos l) by lia. reflexivity.
Qed.

(* the memory size of the call family: max of the two ranges, error iff it does not fit 64 bits *)
Theorem run_memorySize_call_spec : forall inOff inSize retOff retSize, word inOff -> word inSize -> word retOff -> word retSize ->
  let need := Z.max (if retSize =? 0 then 0 else retOff + retSize) (if inSize =? 0 then 0 else inOff + inSize) in
  run_memorySize (memoryCall inOff inSize retOff retSize) =
    if 32 * ceil32 need <=? maxU64 then Ok (32 * ceil32 need) else Err ErrGasUintOverflow.
Proof.
  intros inOff inSize retOff retSize [Hio _] [His _] [Hro _] [Hrs _] need.
  assert (Hc : memoryCall inOff inSize retOff retSize = need).
  { unfold memoryCall, need. rewrite !calcMemSize_val by assumption.
    set (x := if retSize =? 0 then 0 else retOff + retSize).
    set (y := if inSize =? 0 then 0 else inOff + inSize).
    destruct (x <? y) eqn:E; lia. }
  rewrite Hc.
  assert (Hn : 0 <= need).
  { unfold need. destruct (retSize =? 0); destruct (inSize =? 0); lia. }
  clearbody need. clear Hc.
  apply run_memorySize_big. exact Hn.
Qed.
