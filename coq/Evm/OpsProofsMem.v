(* Evm/OpsProofsMem.v — the stack, memory, code and call-data instruction models of
   OpsModel.v (instructions.go, memory.go, common.go, stack.go) against the declarative
   definitions of OpsSpec.v (Yellow Paper appendix H.2). *)
From Coq Require Import ZArith List Bool Lia ZifyBool.
From AQ Require Import Evm.OpsModel Evm.OpsSpec Evm.OpsProofsGas.
Import ListNotations.
Local Open Scope Z_scope.
Definition bytesval (l : list Z) : Prop := Forall (fun b => 0 <= b < 256) l.

(* ------------------------------------------------------------------ list helpers *)

Lemma nth_map_seq : forall (f : nat -> Z) n k d, (k < n)%nat -> nth k (map f (seq 0 n)) d = f k.
Proof.
  intros f n k d H.
  rewrite (nth_indep _ d (f 0%nat)) by (rewrite map_length, seq_length; lia).
  rewrite map_nth. rewrite seq_nth by lia. reflexivity.
Qed.

Lemma nth_firstn' : forall (l : list Z) n k d,
  nth k (firstn n l) d = if (k <? n)%nat then nth k l d else d.
Proof.
  intros l n. revert l. induction n as [|n IH]; intros l k d.
  - cbn [firstn]. destruct k; reflexivity.
  - destruct l as [|a l]; cbn [firstn].
    + destruct k; cbn [nth]; destruct (_ <? _)%nat; reflexivity.
    + destruct k as [|k]; cbn [nth]; [reflexivity|].
      rewrite IH. change (S k <? S n)%nat with (k <? n)%nat. reflexivity.
Qed.

Lemma nth_skipn' : forall (l : list Z) n k d, nth k (skipn n l) d = nth (n + k) l d.
Proof.
  intros l n. revert l. induction n as [|n IH]; intros l k d.
  - reflexivity.
  - destruct l as [|a l]; cbn [skipn].
    + destruct k; reflexivity.
    + rewrite IH. reflexivity.
Qed.

Lemma nth_app_zeros : forall (l : list Z) m k, nth k (l ++ repeat 0 m) 0 = nth k l 0.
Proof.
  intros l m k. destruct (lt_dec k (length l)) as [H|H].
  - apply app_nth1; exact H.
  - rewrite app_nth2 by lia. rewrite nth_repeat. rewrite nth_overflow by lia. reflexivity.
Qed.

Lemma if_ltb_min : forall a b, (if a <? b then a else b) = Z.min a b.
Proof. intros a b. destruct (a <? b) eqn:E; lia. Qed.

Lemma to_int64_small : forall x, 0 <= x < 2 ^ 63 -> to_int64 x = x.
Proof. intros x H. unfold to_int64. destruct (x <? 2 ^ 63) eqn:E; lia. Qed.

Lemma W_256 : 256 ^ 32 = W.
Proof. reflexivity. Qed.

(* the bound-checked byte_at of OpsSpec.v agrees with the unchecked form: nth beyond the end is 0 *)
Lemma byte_at_old : forall d i, byte_at d i = if i <? 0 then 0 else nth (Z.to_nat i) d 0.
Proof.
  intros d i. unfold byte_at. destruct (i <? 0) eqn:E; cbn [orb]; [reflexivity|].
  destruct (Z.of_nat (length d) <=? i) eqn:E2; [|reflexivity].
  symmetry. apply nth_overflow. lia.
Qed.

(* ------------------------------------------------------------------ 1. stack *)

Theorem op_DUP_spec : forall n st, (1 <= n <= 16)%nat -> (n <= length st)%nat ->
  op_DUP (Z.of_nat n) st = Ok (spec_DUP n st).
Proof.
  intros n st Hn Hl. unfold op_DUP, spec_DUP.
  replace (Z.to_nat (Z.of_nat n - 1)) with (n - 1)%nat by lia.
  rewrite (nth_error_nth' st 0) by lia. reflexivity.
Qed.

Theorem op_DUP_underflow : forall n st, (1 <= n)%nat -> (length st < n)%nat ->
  op_DUP (Z.of_nat n) st = Panic.
Proof.
  intros n st Hn Hl. unfold op_DUP.
  replace (Z.to_nat (Z.of_nat n - 1)) with (n - 1)%nat by lia.
  assert (E : nth_error st (n - 1) = None) by (apply nth_error_None; lia).
  rewrite E. reflexivity.
Qed.

Theorem op_SWAP_spec : forall n st, (1 <= n <= 16)%nat -> (n + 1 <= length st)%nat ->
  op_SWAP (Z.of_nat n) st = Ok (spec_SWAP n st).
Proof.
  intros n st Hn Hl. unfold op_SWAP.
  destruct st as [|top rest]; [cbn [length] in Hl; lia|].
  cbn [length] in Hl.
  replace (Z.to_nat (Z.of_nat n - 1)) with (n - 1)%nat by lia.
  rewrite Nat2Z.id.
  rewrite (nth_error_nth' rest 0) by lia.
  f_equal.
  assert (Hlen : length (nth (n - 1) rest 0 :: firstn (n - 1) rest ++ top :: skipn n rest)
                 = length (top :: rest)).
  { cbn [length]. rewrite app_length. cbn [length].
    rewrite firstn_length_le by lia. rewrite skipn_length. lia. }
  apply nth_ext with (d := 0) (d' := 0).
  - rewrite Hlen. unfold spec_SWAP. rewrite map_length, seq_length. reflexivity.
  - intros k Hk. rewrite Hlen in Hk. unfold spec_SWAP.
    rewrite nth_map_seq by exact Hk. cbn [length] in Hk.
    destruct k as [|k].
    + cbn [nth Nat.eqb]. destruct n as [|n]; [lia|].
      cbn [nth]. replace (S n - 1)%nat with n by lia. reflexivity.
    + change (Nat.eqb (S k) 0) with false. cbn [nth].
      destruct (Nat.eqb (S k) n) eqn:E.
      * apply Nat.eqb_eq in E. subst n.
        rewrite app_nth2 by (rewrite firstn_length_le; lia).
        rewrite firstn_length_le by lia.
        replace (k - (S k - 1))%nat with 0%nat by lia. reflexivity.
      * apply Nat.eqb_neq in E.
        destruct (lt_dec (S k) n) as [L|L].
        -- rewrite app_nth1 by (rewrite firstn_length_le; lia).
           rewrite nth_firstn'.
           destruct (k <? n - 1)%nat eqn:E2; [reflexivity|].
           apply Nat.ltb_ge in E2. lia.
        -- rewrite app_nth2 by (rewrite firstn_length_le; lia).
           rewrite firstn_length_le by lia.
           replace (k - (n - 1))%nat with (S (k - n)) by lia. cbn [nth].
           rewrite nth_skipn'. f_equal. lia.
Qed.

(* ------------------------------------------------------------------ 2. data access *)

Lemma pad_slice_spec : forall d start size, 0 <= start -> 0 <= size ->
  RightPadBytes (slice d (Z.min start (blen d)) (Z.min (Z.min start (blen d) + size) (blen d))) size
  = spec_data d start (Z.to_nat size).
Proof.
  intros d start size Hs Hz.
  set (s := Z.min start (blen d)). set (e := Z.min (s + size) (blen d)).
  set (sl := slice d s e).
  assert (Hsl : blen sl = e - s).
  { unfold sl, slice, blen. rewrite firstn_length, skipn_length. unfold e, s, blen. lia. }
  assert (Hlen : length (RightPadBytes sl size) = Z.to_nat size).
  { unfold RightPadBytes. destruct (size <=? blen sl) eqn:E.
    - unfold blen in *. unfold e, s, blen in *. lia.
    - rewrite app_length, repeat_length. unfold blen in *. unfold e, s, blen in *. lia. }
  assert (Hnth : forall k, nth k (RightPadBytes sl size) 0 = nth k sl 0).
  { intro k. unfold RightPadBytes. destruct (size <=? blen sl); [reflexivity|].
    apply nth_app_zeros. }
  apply nth_ext with (d := 0) (d' := 0).
  - rewrite Hlen. unfold spec_data. rewrite map_length, seq_length. reflexivity.
  - intros k Hk. rewrite Hlen in Hk. rewrite Hnth.
    unfold spec_data. rewrite nth_map_seq by exact Hk.
    rewrite byte_at_old. destruct (start + Z.of_nat k <? 0) eqn:E; [lia|]. clear E.
    unfold sl, slice. rewrite nth_firstn', nth_skipn'.
    destruct (k <? Z.to_nat (e - s))%nat eqn:E.
    + apply Nat.ltb_lt in E. f_equal. unfold e, s, blen in *. lia.
    + apply Nat.ltb_ge in E. symmetry. apply nth_overflow. unfold e, s, blen in *. lia.
Qed.

Theorem getDataBig_spec : forall d start size, blen d < 2^62 -> word start -> 0 <= size < 2^62 ->
  getDataBig d start size = spec_data d start (Z.to_nat size).
Proof.
  intros d start size Hd Hs Hz. unfold word, W in Hs. unfold getDataBig. cbv zeta.
  pose proof two64_val as T.
  assert (Hd0 : 0 <= blen d) by (unfold blen; lia).
  rewrite (big_Uint64_small (Z.min start (blen d))) by lia.
  rewrite (big_Uint64_small (Z.min (Z.min start (blen d) + size) (blen d))) by lia.
  rewrite (big_Uint64_small size) by lia.
  rewrite to_int64_small by lia.
  apply pad_slice_spec; lia.
Qed.

Lemma fold_be : forall bs acc,
  fold_left (fun acc b => acc * 256 + b) bs acc = acc * 256 ^ blen bs + spec_be bs.
Proof.
  induction bs as [|a bs IH]; intro acc.
  - cbn [fold_left spec_be]. unfold blen. cbn [length]. change (Z.of_nat 0) with 0.
    rewrite Z.pow_0_r. lia.
  - cbn [fold_left spec_be]. rewrite IH. unfold blen. cbn [length].
    rewrite Nat2Z.inj_succ, Z.pow_succ_r by lia. ring.
Qed.

Theorem be_to_Z_spec : forall bs, be_to_Z bs = spec_be bs.
Proof. intro bs. unfold be_to_Z. rewrite fold_be. lia. Qed.

Theorem op_CALLDATALOAD_spec : forall d i, blen d < 2^62 -> word i ->
  op_CALLDATALOAD d i = spec_CALLDATALOAD d i.
Proof.
  intros d i Hd Hi. unfold op_CALLDATALOAD, spec_CALLDATALOAD.
  rewrite be_to_Z_spec. rewrite getDataBig_spec by (try assumption; lia). reflexivity.
Qed.

Lemma spec_be_bound : forall l, bytesval l -> 0 <= spec_be l < 256 ^ blen l.
Proof.
  intros l H. induction H as [|b l Hb Hl IH].
  - cbn [spec_be]. unfold blen. cbn [length]. change (Z.of_nat 0) with 0. rewrite Z.pow_0_r. lia.
  - cbn [spec_be]. unfold blen in *. cbn [length].
    rewrite Nat2Z.inj_succ, Z.pow_succ_r by lia.
    set (P := 256 ^ Z.of_nat (length l)) in *.
    assert (b * P <= 255 * P) by (apply Z.mul_le_mono_nonneg_r; lia).
    assert (0 <= b * P) by (apply Z.mul_nonneg_nonneg; lia).
    lia.
Qed.

Lemma byte_at_range : forall d i, bytesval d -> 0 <= byte_at d i < 256.
Proof.
  intros d i H. rewrite byte_at_old. destruct (i <? 0); [lia|].
  destruct (lt_dec (Z.to_nat i) (length d)) as [L|L].
  - unfold bytesval in H. rewrite Forall_nth in H. apply H; exact L.
  - rewrite nth_overflow by lia. lia.
Qed.

Lemma spec_data_bytesval : forall d start n, bytesval d -> bytesval (spec_data d start n).
Proof.
  intros d start n H. unfold bytesval, spec_data. apply Forall_forall. intros x Hx.
  apply in_map_iff in Hx. destruct Hx as [k [<- _]]. apply byte_at_range; exact H.
Qed.

Lemma spec_data_length : forall d start n, length (spec_data d start n) = n.
Proof. intros. unfold spec_data. rewrite map_length, seq_length. reflexivity. Qed.

Theorem op_CALLDATALOAD_word : forall d i, bytesval d -> blen d < 2^62 -> word i ->
  word (op_CALLDATALOAD d i).
Proof.
  intros d i Hb Hd Hi. rewrite op_CALLDATALOAD_spec by assumption.
  unfold spec_CALLDATALOAD.
  pose proof (spec_be_bound _ (spec_data_bytesval d i 32 Hb)) as B.
  unfold blen in B. rewrite spec_data_length in B.
  change (Z.of_nat 32) with 32 in B. rewrite W_256 in B. exact B.
Qed.

(* ------------------------------------------------------------------ 3. PUSHn *)

Theorem op_PUSH_spec : forall code pc n, blen code < 2^62 -> 0 <= pc < blen code -> 1 <= n <= 32 ->
  op_PUSH code pc n n = (spec_PUSH n code pc, pc + n).
Proof.
  intros code pc n Hc Hp Hn. unfold op_PUSH. cbv zeta.
  pose proof two64_val as T.
  rewrite (wrap64_small (pc + 1)) by lia.
  rewrite (wrap64_small (pc + n)) by lia.
  rewrite to_int64_small by lia.
  rewrite !if_ltb_min.
  rewrite be_to_Z_spec. rewrite pad_slice_spec by lia. reflexivity.
Qed.

(* ------------------------------------------------------------------ 4. memory *)

Lemma splice_spec : forall mem (o : nat) bs, (o + length bs <= length mem)%nat ->
  firstn o mem ++ bs ++ skipn (o + length bs) mem = spec_mem_write mem (Z.of_nat o) bs.
Proof.
  intros mem o bs H.
  assert (Hlen : length (firstn o mem ++ bs ++ skipn (o + length bs) mem) = length mem).
  { rewrite !app_length. rewrite firstn_length_le by lia. rewrite skipn_length. lia. }
  apply nth_ext with (d := 0) (d' := 0).
  - rewrite Hlen. unfold spec_mem_write. rewrite map_length, seq_length. reflexivity.
  - intros k Hk. rewrite Hlen in Hk. unfold spec_mem_write.
    rewrite nth_map_seq by exact Hk. cbv beta zeta.
    destruct ((Z.of_nat o <=? Z.of_nat k) && (Z.of_nat k <? Z.of_nat o + Z.of_nat (length bs))) eqn:E.
    + rewrite app_nth2 by (rewrite firstn_length_le; lia).
      rewrite firstn_length_le by lia.
      rewrite app_nth1 by lia. f_equal. lia.
    + destruct (lt_dec k o) as [L|L].
      * rewrite app_nth1 by (rewrite firstn_length_le; lia).
        rewrite nth_firstn'. destruct (k <? o)%nat eqn:E2; [reflexivity|].
        apply Nat.ltb_ge in E2. lia.
      * rewrite app_nth2 by (rewrite firstn_length_le; lia).
        rewrite firstn_length_le by lia.
        rewrite app_nth2 by lia.
        rewrite nth_skipn'. f_equal. lia.
Qed.

Lemma splice_spec_Z : forall mem off bs, 0 <= off -> off + blen bs <= blen mem ->
  firstn (Z.to_nat off) mem ++ bs ++ skipn (Z.to_nat (off + blen bs)) mem = spec_mem_write mem off bs.
Proof.
  intros mem off bs H0 H. unfold blen in *.
  replace (Z.to_nat (off + Z.of_nat (length bs))) with (Z.to_nat off + length bs)%nat by lia.
  rewrite splice_spec by lia. rewrite Z2Nat.id by lia. reflexivity.
Qed.

Theorem mem_set_ok : forall mem off size value, 0 <= off -> 0 <= size -> off + size <= blen mem ->
  blen mem < 2^62 -> size <= blen value ->
  mem_set mem off size value = Ok (spec_mem_write mem off (firstn (Z.to_nat size) value)).
Proof.
  intros mem off size value H0 Hs Hb Hm Hv. unfold mem_set.
  pose proof two64_val as T.
  destruct (size >? blen mem) eqn:E1; [lia|].
  destruct (size >? 0) eqn:E2.
  - cbv zeta. rewrite wrap64_small by lia.
    destruct ((off >? off + size) || (off + size >? blen mem)) eqn:E3; [lia|].
    rewrite Z.min_l by lia. f_equal.
    set (bs := firstn (Z.to_nat size) value).
    assert (Hbs : blen bs = size).
    { unfold bs, blen in *. rewrite firstn_length_le by lia. lia. }
    replace (off + size) with (off + blen bs) by lia. apply splice_spec_Z; lia.
  - assert (size = 0) by lia. subst size. change (Z.to_nat 0) with 0%nat. cbn [firstn].
    rewrite <- splice_spec_Z by (unfold blen in *; cbn [length]; lia).
    unfold blen. cbn [length app]. change (Z.of_nat 0) with 0. rewrite Z.add_0_r.
    rewrite firstn_skipn. reflexivity.
Qed.

Lemma be_fixedZ_length : forall w v, length (be_fixedZ w v) = w.
Proof.
  induction w as [|w IH]; intro v; cbn [be_fixedZ]; [reflexivity|].
  rewrite app_length, IH. cbn [length]. lia.
Qed.

Lemma pow256_pos : forall n, 0 <= n -> 0 < 256 ^ n.
Proof. intros n H. apply Z.pow_pos_nonneg; lia. Qed.

Lemma be_fixedZ_nth : forall w v k, (k < w)%nat ->
  nth k (be_fixedZ w v) 0 = (v / 256 ^ (Z.of_nat w - 1 - Z.of_nat k)) mod 256.
Proof.
  induction w as [|w IH]; intros v k H; [lia|].
  cbn [be_fixedZ]. destruct (Nat.eq_dec k w) as [->|N].
  - rewrite app_nth2 by (rewrite be_fixedZ_length; lia).
    rewrite be_fixedZ_length. rewrite Nat.sub_diag. cbn [nth].
    replace (Z.of_nat (S w) - 1 - Z.of_nat w) with 0 by lia.
    rewrite Z.pow_0_r, Z.div_1_r. reflexivity.
  - rewrite app_nth1 by (rewrite be_fixedZ_length; lia).
    rewrite IH by lia.
    replace (Z.of_nat (S w) - 1 - Z.of_nat k) with (Z.succ (Z.of_nat w - 1 - Z.of_nat k)) by lia.
    rewrite Z.pow_succ_r by lia.
    rewrite Z.div_div by (try apply pow256_pos; lia). reflexivity.
Qed.

Lemma spec_word_bytes_fixed : forall v, be_fixedZ 32 v = spec_word_bytes v.
Proof.
  intro v. apply nth_ext with (d := 0) (d' := 0).
  - rewrite be_fixedZ_length. unfold spec_word_bytes. rewrite map_length, seq_length. reflexivity.
  - intros k Hk. rewrite be_fixedZ_length in Hk. rewrite be_fixedZ_nth by exact Hk.
    unfold spec_word_bytes. rewrite nth_map_seq by exact Hk.
    replace (Z.of_nat 32 - 1 - Z.of_nat k) with (31 - Z.of_nat k) by lia. reflexivity.
Qed.

#[local] Ltac Zify.zify_post_hook ::= Z.div_mod_to_equations.

Lemma BitLen_word : forall v, word v -> BitLen v <= 256.
Proof.
  intros v [H0 H1]. unfold BitLen. rewrite Z.abs_eq by exact H0.
  destruct (v =? 0) eqn:E.
  - assert (v = 0) by lia. subst v. change (Z.log2 0) with 0. lia.
  - assert (P : 0 < v) by lia. unfold W in H1.
    apply (Z.log2_lt_pow2 v 256 P) in H1. lia.
Qed.

Lemma PaddedBigBytes_word : forall v, word v -> PaddedBigBytes v 32 = spec_word_bytes v.
Proof.
  intros v H. rewrite <- spec_word_bytes_fixed. unfold PaddedBigBytes.
  pose proof (BitLen_word v H) as B.
  destruct (BitLen v / 8 >=? 32) eqn:E; [|reflexivity].
  assert (BitLen v = 256) by lia. rewrite H0. reflexivity.
Qed.

Lemma spec_word_bytes_length : forall v, length (spec_word_bytes v) = 32%nat.
Proof. intro v. unfold spec_word_bytes. rewrite map_length, seq_length. reflexivity. Qed.

Theorem op_MSTORE_spec : forall mem off v, bytesval mem -> blen mem < 2^62 -> 0 <= off ->
  off + 32 <= blen mem -> word v ->
  op_MSTORE mem off v = Ok (spec_MSTORE mem off v).
Proof.
  intros mem off v _ Hm H0 Hb Hv. unfold op_MSTORE, spec_MSTORE.
  pose proof two64_val as T.
  rewrite big_Uint64_small by lia.
  rewrite PaddedBigBytes_word by exact Hv.
  rewrite mem_set_ok; try lia.
  - rewrite firstn_all2 by (rewrite spec_word_bytes_length; lia). reflexivity.
  - unfold blen. rewrite spec_word_bytes_length. lia.
Qed.

Lemma slice_spec_data : forall d s n, 0 <= s -> 0 <= n -> s + n <= blen d ->
  slice d s (s + n) = spec_data d s (Z.to_nat n).
Proof.
  intros d s n Hs Hn Hb.
  pose proof (pad_slice_spec d s n Hs Hn) as P.
  rewrite (Z.min_l s (blen d)) in P by lia.
  rewrite (Z.min_l (s + n) (blen d)) in P by lia.
  rewrite <- P. unfold RightPadBytes.
  destruct (n <=? blen (slice d s (s + n))) eqn:E; [reflexivity|].
  exfalso. unfold slice, blen in *. rewrite firstn_length, skipn_length in E. lia.
Qed.

Theorem op_MLOAD_spec : forall mem off, blen mem < 2^62 -> 0 <= off -> off + 32 <= blen mem ->
  op_MLOAD mem off = Ok (spec_MLOAD mem off).
Proof.
  intros mem off Hm H0 Hb. unfold op_MLOAD, spec_MLOAD, big_Int64.
  pose proof two64_val as T.
  rewrite big_Uint64_small by lia. rewrite to_int64_small by lia.
  unfold mem_get.
  destruct (32 =? 0) eqn:E0; [lia|]. clear E0.
  destruct (blen mem >? off) eqn:E1; [|lia].
  destruct (32 <? 0) eqn:E2; [lia|].
  destruct ((off <? 0) || (off + 32 >? blen mem)) eqn:E3; [lia|].
  rewrite be_to_Z_spec. rewrite slice_spec_data by lia. reflexivity.
Qed.

Theorem op_MSTORE8_spec : forall mem off v, blen mem < 2^62 -> 0 <= off < blen mem -> word v ->
  op_MSTORE8 mem off v = Ok (spec_MSTORE8 mem off v).
Proof.
  intros mem off v Hm Ho Hv. unfold op_MSTORE8, spec_MSTORE8, big_Int64. cbv zeta.
  pose proof two64_val as T.
  rewrite (big_Uint64_small off) by lia. rewrite (to_int64_small off) by lia.
  destruct ((off <? 0) || (off >=? blen mem)) eqn:E; [lia|].
  f_equal.
  assert (L : Z.land (to_int64 (big_Uint64 v)) 255 = v mod 256).
  { change 255 with (Z.ones 8). rewrite Z.land_ones by lia.
    unfold big_Uint64, to_int64, wrap64. rewrite Z.abs_eq by (unfold word in Hv; lia).
    rewrite T. change (2 ^ 8) with 256.
    destruct (v mod 18446744073709551616 <? 2 ^ 63); lia. }
  rewrite L.
  rewrite <- splice_spec_Z by (unfold blen in *; cbn [length]; lia).
  unfold blen. cbn [length]. reflexivity.
Qed.

Lemma spec_be_app1 : forall l b, spec_be (l ++ [b]) = spec_be l * 256 + b.
Proof.
  induction l as [|a l IH]; intro b.
  - cbn [app spec_be length]. change (Z.of_nat 0) with 0. rewrite Z.pow_0_r. lia.
  - cbn [app spec_be]. rewrite IH. rewrite app_length. cbn [length].
    rewrite Nat2Z.inj_add. change (Z.of_nat 1) with 1.
    rewrite Z.pow_add_r by lia. rewrite Z.pow_1_r. ring.
Qed.

Lemma spec_be_fixed : forall w v, spec_be (be_fixedZ w v) = v mod 256 ^ Z.of_nat w.
Proof.
  induction w as [|w IH]; intro v.
  - cbn [be_fixedZ spec_be]. change (Z.of_nat 0) with 0. rewrite Z.pow_0_r, Z.mod_1_r. reflexivity.
  - cbn [be_fixedZ]. rewrite spec_be_app1, IH.
    rewrite Nat2Z.inj_succ, Z.pow_succ_r by lia.
    rewrite Z.rem_mul_r by (try apply pow256_pos; lia). ring.
Qed.

Lemma spec_be_word_bytes : forall v, word v -> spec_be (spec_word_bytes v) = v.
Proof.
  intros v H. rewrite <- spec_word_bytes_fixed. rewrite spec_be_fixed.
  change (Z.of_nat 32) with 32. rewrite W_256. apply Z.mod_small. exact H.
Qed.

Lemma spec_mem_write_length : forall mem off bs, blen (spec_mem_write mem off bs) = blen mem.
Proof. intros. unfold blen, spec_mem_write. rewrite map_length, seq_length. reflexivity. Qed.

Lemma read_after_write : forall mem off bs n, 0 <= off -> off + blen bs <= blen mem -> n = length bs ->
  spec_data (spec_mem_write mem off bs) off n = bs.
Proof.
  intros mem off bs n H0 Hb ->.
  apply nth_ext with (d := 0) (d' := 0).
  - apply spec_data_length.
  - intros k Hk. rewrite spec_data_length in Hk. unfold spec_data.
    rewrite nth_map_seq by exact Hk. rewrite byte_at_old.
    destruct (off + Z.of_nat k <? 0) eqn:E; [lia|]. clear E.
    unfold spec_mem_write. unfold blen in *.
    rewrite nth_map_seq by lia. cbv beta zeta.
    destruct ((off <=? Z.of_nat (Z.to_nat (off + Z.of_nat k))) &&
              (Z.of_nat (Z.to_nat (off + Z.of_nat k)) <? off + Z.of_nat (length bs))) eqn:E; [|lia].
    f_equal. lia.
Qed.

Theorem mstore_mload : forall mem off v, bytesval mem -> blen mem < 2^62 -> 0 <= off ->
  off + 32 <= blen mem -> word v ->
  exists mem', op_MSTORE mem off v = Ok mem' /\ blen mem' = blen mem /\ op_MLOAD mem' off = Ok v.
Proof.
  intros mem off v Hbv Hm H0 Hb Hv. exists (spec_MSTORE mem off v).
  split; [apply op_MSTORE_spec; assumption|].
  assert (L : blen (spec_MSTORE mem off v) = blen mem) by apply spec_mem_write_length.
  split; [exact L|].
  rewrite op_MLOAD_spec by lia. f_equal.
  unfold spec_MLOAD, spec_MSTORE.
  rewrite read_after_write.
  - apply spec_be_word_bytes; exact Hv.
  - exact H0.
  - unfold blen at 1. rewrite spec_word_bytes_length. lia.
  - rewrite spec_word_bytes_length. reflexivity.
Qed.

Theorem op_DATACOPY_spec : forall mem d memOff dataOff len, blen mem < 2^62 -> blen d < 2^62 ->
  0 <= memOff -> 0 <= len -> memOff + len <= blen mem -> word dataOff ->
  op_DATACOPY mem d memOff dataOff len = Ok (spec_DATACOPY mem d memOff dataOff len).
Proof.
  intros mem d memOff dataOff len Hm Hd H0 Hl Hb Hw. unfold op_DATACOPY, spec_DATACOPY.
  pose proof two64_val as T.
  rewrite (big_Uint64_small memOff) by lia. rewrite (big_Uint64_small len) by lia.
  rewrite getDataBig_spec by (try assumption; lia).
  rewrite mem_set_ok; try lia.
  - rewrite firstn_all2 by (rewrite spec_data_length; lia). reflexivity.
  - unfold blen. rewrite spec_data_length. lia.
Qed.

(* ------------------------------------------------------------------ 5. RETURNDATACOPY *)

Lemma mem_set_not_err : forall m o s v e, mem_set m o s v <> Err e.
Proof.
  intros m o s v e. unfold mem_set.
  destruct (s >? blen m); [discriminate|].
  destruct (s >? 0); [|discriminate].
  cbv zeta. destruct (_ || _); discriminate.
Qed.

Theorem op_RETURNDATACOPY_bounds : forall mem rd memOff dataOff len, blen rd < 2^62 ->
  word memOff -> word dataOff -> word len ->
  (op_RETURNDATACOPY mem rd memOff dataOff len = Err ErrReturnDataOutOfBounds
   <-> blen rd < dataOff + len).
Proof.
  intros mem rd memOff dataOff len Hr _ Hd Hl. unfold word in *.
  unfold op_RETURNDATACOPY. cbv zeta.
  pose proof two64_val as T.
  rewrite BitLen_gt64 by lia.
  destruct (two64 <=? dataOff + len) eqn:E1; cbn [orb].
  - split; [intros _; lia | reflexivity].
  - rewrite (big_Uint64_small (dataOff + len)) by lia.
    destruct (blen rd <? dataOff + len) eqn:E2.
    + split; [intros _; lia | reflexivity].
    + split; [intro H; exfalso; exact (mem_set_not_err _ _ _ _ _ H) | lia].
Qed.

(* ------------------------------------------------------------------ 6. JUMP / JUMPI *)

Theorem op_JUMPI_not_taken : forall code pc pos, 0 <= pc < 2^62 -> op_JUMPI code pc pos 0 = Ok (pc + 1).
Proof.
  intros code pc pos H. unfold op_JUMPI.
  replace (negb (Z.sgn 0 =? 0)) with false by reflexivity.
  pose proof two64_val as T. rewrite wrap64_small by lia. reflexivity.
Qed.

Theorem op_JUMPI_taken : forall code pc pos cond, cond <> 0 ->
  op_JUMPI code pc pos cond = op_JUMP code pos.
Proof.
  intros code pc pos cond H. unfold op_JUMPI.
  destruct (Z.sgn cond =? 0) eqn:E; [|reflexivity].
  apply Z.eqb_eq in E. apply -> Z.sgn_null_iff in E. exfalso; apply H; exact E.
Qed.
