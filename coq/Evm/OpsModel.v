(* Evm/OpsModel.v — executable, code-shaped model of the computational EVM
   instructions of /repo/core/vm (definitions only; proofs are in OpsProofs*.v).

   Conventions (DESIGN.md section 6): a big.Int is an unbounded Z; a Go uint64 is
   a Z in [0,2^64) and every operation that can wrap is written with [wrap64];
   the operand stack is a [list Z] whose HEAD is the top of the stack; memory is
   a byte list; a Go panic (index out of range, pop of an empty stack) is the
   result value [Panic]. The operand-level functions (op_ADD x y ...) take the
   operands in POP ORDER (first argument = first value popped = stack top). *)
From Coq Require Import ZArith List Bool.
From AQ Require Import Lib.Bytes.
Import ListNotations.
Local Open Scope Z_scope.

(* ------------------------------------------------------------------ results *)

Inductive verr : Type :=
| ErrGasUintOverflow        (* errGasUintOverflow *)
| ErrReturnDataOutOfBounds  (* errReturnDataOutOfBounds *)
| ErrInvalidJump            (* "invalid jump destination" *)
| ErrInvalidOpcode          (* "invalid opcode" / not covered by this model *)
| ErrStackUnderflow         (* validateStack: stack underflow *)
| ErrStackLimit             (* validateStack: stack limit reached *)
| ErrOutOfGas.              (* ErrOutOfGas *)

Inductive res (A : Type) : Type :=
| Ok (a : A)
| Err (e : verr)
| Panic.
Arguments Ok {A} a.
Arguments Err {A} e.
Arguments Panic {A}.

(* ------------------------------------------------- common/math/big.go: U256, S256 *)

Definition tt255 : Z := 2 ^ 255.
Definition tt256 : Z := 2 ^ 256.
Definition tt256m1 : Z := tt256 - 1.

(* math.U256: x.And(x, tt256m1) — big.Int.And has two's-complement semantics on
   negative operands, which is Z.land *)
Definition U256 (x : Z) : Z := Z.land x tt256m1.

(* math.S256 *)
Definition S256 (x : Z) : Z := if x <? tt255 then x else x - tt256.

(* math/big Int.Div / Int.Mod: Euclidean division (remainder always >= 0).
   Go panics on a zero divisor; every call site below is guarded by the Go code's
   own zero test, which is kept in the model in the same place. *)
Definition big_Div (x y : Z) : Z := Z.sgn y * (x / Z.abs y).
Definition big_Mod (x y : Z) : Z := x mod Z.abs y.

(* ------------------------------------------------- narrowing a big.Int to a machine word *)

(* Every place where the Go code narrows a 256-bit stack word (x.Uint64(), x.Int64(), int(..),
   uint(..)) is written with these, at the same place as in the Go code, so that a guard that is
   moved or dropped shows up in the correspondence run. *)
Definition two64 : Z := 2 ^ 64.
Definition wrap64 (x : Z) : Z := x mod two64.
(* big.Int.Uint64(): the low 64 bits of |x| *)
Definition big_Uint64 (x : Z) : Z := wrap64 (Z.abs x).
(* int64(x) of a uint64 value / big.Int.Int64() of a non-negative big.Int *)
Definition to_int64 (u : Z) : Z := if u <? 2 ^ 63 then u else u - two64.
Definition big_Int64 (x : Z) : Z := to_int64 (big_Uint64 x).

(* ------------------------------------------------------ instructions.go: arithmetic *)

(* opAdd *)
Definition op_ADD (x y : Z) : Z := U256 (x + y).
(* opSub *)
Definition op_SUB (x y : Z) : Z := U256 (x - y).
(* opMul *)
Definition op_MUL (x y : Z) : Z := U256 (x * y).
(* opDiv *)
Definition op_DIV (x y : Z) : Z :=
  if negb (Z.sgn y =? 0) then U256 (big_Div x y) else 0.
(* opSdiv *)
Definition op_SDIV (x0 y0 : Z) : Z :=
  let x := S256 x0 in
  let y := S256 y0 in
  if Z.sgn y =? 0 then 0
  else
    let n := if Z.sgn (x * y) <? 0 then -1 else 1 in
    let res := big_Div (Z.abs x) (Z.abs y) in
    U256 (res * n).
(* opMod *)
Definition op_MOD (x y : Z) : Z :=
  if Z.sgn y =? 0 then 0 else U256 (big_Mod x y).
(* opSmod *)
Definition op_SMOD (x0 y0 : Z) : Z :=
  let x := S256 x0 in
  let y := S256 y0 in
  if Z.sgn y =? 0 then 0
  else
    let n := if Z.sgn x <? 0 then -1 else 1 in
    let res := big_Mod (Z.abs x) (Z.abs y) in
    U256 (res * n).

(* math.Exp: square-and-multiply over the bits of the exponent, least
   significant first, truncating to 256 bits after every multiplication.  The Go
   loop visits all 64 bits of every word of exponent.Bits(); the iterations
   above the most significant set bit only square [base] and cannot change
   [result], so the recursion over the binary representation stops there. *)
Fixpoint exp_loop (bits : positive) (base result : Z) : Z :=
  match bits with
  | xH => U256 (result * base)
  | xO p => exp_loop p (U256 (base * base)) result
  | xI p => exp_loop p (U256 (base * base)) (U256 (result * base))
  end.
Definition math_Exp (base exponent : Z) : Z :=
  match exponent with
  | Z0 => 1
  | Zpos p => exp_loop p base 1
  | Zneg p => exp_loop p base 1   (* Bits() is the magnitude *)
  end.
(* opExp *)
Definition op_EXP (base exponent : Z) : Z := math_Exp base exponent.

(* opSignExtend: when back >= 31 the second operand is not popped (it stays on
   the stack unchanged), which is the same as returning it. *)
Definition op_SIGNEXTEND (back num : Z) : Z :=
  if back <? 31 then
    let bit := wrap64 (big_Uint64 back * 8 + 7) in       (* uint(back.Uint64()*8 + 7) *)
    let mask := Z.shiftl 1 bit - 1 in
    if Z.testbit num bit then U256 (Z.lor num (Z.lnot mask))
    else U256 (Z.land num mask)
  else num.

(* opNot *)
Definition op_NOT (x : Z) : Z := U256 (Z.lnot x).
(* opLt *)
Definition op_LT (x y : Z) : Z := if x <? y then 1 else 0.
(* opGt *)
Definition op_GT (x y : Z) : Z := if x >? y then 1 else 0.
(* opSlt: note the second S256 on y *)
Definition op_SLT (x0 y0 : Z) : Z :=
  let x := S256 x0 in let y := S256 y0 in
  if x <? S256 y then 1 else 0.
(* opSgt *)
Definition op_SGT (x0 y0 : Z) : Z :=
  let x := S256 x0 in let y := S256 y0 in
  if x >? y then 1 else 0.
(* opEq *)
Definition op_EQ (x y : Z) : Z := if x =? y then 1 else 0.
(* opIszero: x.Sign() > 0 *)
Definition op_ISZERO (x : Z) : Z := if Z.sgn x >? 0 then 0 else 1.
(* opAnd / opOr / opXor: no re-wrap *)
Definition op_AND (x y : Z) : Z := Z.land x y.
Definition op_OR (x y : Z) : Z := Z.lor x y.
Definition op_XOR (x y : Z) : Z := Z.lxor x y.

(* math.Byte(bigint, padlength, n) via bigEndianByteAt: byte number
   (padlength-1-n) counted from the least significant end; 0 beyond the words *)
Definition math_Byte (bigint padlength n : Z) : Z :=
  if n >=? padlength then 0
  else Z.land (Z.shiftr bigint (8 * (padlength - 1 - n))) 255.
(* opByte *)
Definition op_BYTE (th val : Z) : Z :=
  if th <? 32 then math_Byte val 32 (big_Int64 th) else 0.   (* int(th.Int64()) *)

(* opAddmod: z.Cmp(bigZero) > 0 *)
Definition op_ADDMOD (x y z : Z) : Z :=
  if z >? 0 then U256 (big_Mod (x + y) z) else 0.
(* opMulmod *)
Definition op_MULMOD (x y z : Z) : Z :=
  if z >? 0 then U256 (big_Mod (x * y) z) else 0.

(* opSHL *)
Definition op_SHL (shift0 value0 : Z) : Z :=
  let shift := U256 shift0 in
  let value := U256 value0 in
  if shift >=? 256 then 0 else U256 (Z.shiftl value (big_Uint64 shift)).   (* uint(shift.Uint64()) *)
(* opSHR *)
Definition op_SHR (shift0 value0 : Z) : Z :=
  let shift := U256 shift0 in
  let value := U256 value0 in
  if shift >=? 256 then 0 else U256 (Z.shiftr value (big_Uint64 shift)).
(* opSAR: value.Sign() > 0 decides the saturated result *)
Definition op_SAR (shift0 value0 : Z) : Z :=
  let shift := U256 shift0 in
  let value := S256 value0 in
  if shift >=? 256 then
    (if Z.sgn value >? 0 then U256 0 else U256 (-1))
  else U256 (Z.shiftr value (big_Uint64 shift)).

(* ----------------------------------------------- dispatch on a stack (head = top) *)

(* opcode numbers of core/vm/opcodes.go for the instructions modelled here *)
Definition exec_arith (op : Z) (st : list Z) : res (list Z) :=
  let un (f : Z -> Z) :=
    match st with a :: r => Ok (f a :: r) | _ => Panic end in
  let bin (f : Z -> Z -> Z) :=
    match st with a :: b :: r => Ok (f a b :: r) | _ => Panic end in
  let ter (f : Z -> Z -> Z -> Z) :=
    match st with a :: b :: c :: r => Ok (f a b c :: r) | _ => Panic end in
  match op with
  | 0x01 => bin op_ADD | 0x02 => bin op_MUL | 0x03 => bin op_SUB | 0x04 => bin op_DIV
  | 0x05 => bin op_SDIV | 0x06 => bin op_MOD | 0x07 => bin op_SMOD
  | 0x08 => ter op_ADDMOD | 0x09 => ter op_MULMOD | 0x0a => bin op_EXP
  | 0x0b => (* SIGNEXTEND pops the second operand only when back < 31 *)
      match st with
      | back :: r =>
          if back <? 31 then
            match r with num :: r' => Ok (op_SIGNEXTEND back num :: r') | [] => Panic end
          else Ok r
      | [] => Panic
      end
  | 0x10 => bin op_LT | 0x11 => bin op_GT | 0x12 => bin op_SLT | 0x13 => bin op_SGT
  | 0x14 => bin op_EQ | 0x15 => un op_ISZERO | 0x16 => bin op_AND | 0x17 => bin op_OR
  | 0x18 => bin op_XOR | 0x19 => un op_NOT | 0x1a => bin op_BYTE
  | 0x1b => bin op_SHL | 0x1c => bin op_SHR | 0x1d => bin op_SAR
  | _ => Err ErrInvalidOpcode
  end.

(* name -> opcode, used by the driver *)

(* ------------------------------------------------ uint64 arithmetic (common/math/integer.go) *)

Definition maxU64 : Z := two64 - 1.

(* math.SafeAdd: x+y (wrapped), y > MaxUint64-x *)
Definition SafeAdd (x y : Z) : Z * bool := (wrap64 (x + y), y >? maxU64 - x).
(* math.SafeMul *)
Definition SafeMul (x y : Z) : Z * bool :=
  if (x =? 0) || (y =? 0) then (0, false)
  else (wrap64 (x * y), y >? maxU64 / x).

(* big.Int.BitLen / Uint64 *)
Definition BitLen (x : Z) : Z := Z.log2 (Z.abs x) + (if x =? 0 then 0 else 1).
(* common.go bigUint64 *)
Definition bigUint64 (v : Z) : Z * bool := (big_Uint64 v, BitLen v >? 64).

(* common.go toWordSize *)
Definition toWordSize (size : Z) : Z :=
  if size >? maxU64 - 31 then maxU64 / 32 + 1
  else wrap64 (size + 31) / 32.

(* common.go calcMemSize *)
Definition calcMemSize (off l : Z) : Z := if Z.sgn l =? 0 then 0 else off + l.

(* interpreter.go Run: memSize, overflow := bigUint64(operation.memorySize(stack));
   memorySize, overflow = math.SafeMul(toWordSize(memSize), 32) *)
Definition run_memorySize (memSizeBig : Z) : res Z :=
  let '(memSize, overflow) := bigUint64 memSizeBig in
  if overflow then Err ErrGasUintOverflow
  else
    let '(memorySize, overflow2) := SafeMul (toWordSize memSize) 32 in
    if overflow2 then Err ErrGasUintOverflow else Ok memorySize.

(* ------------------------------------------------ params (checked against GenParamsEvm.v) *)

Definition MemoryGas : Z := 3.
Definition QuadCoeffDiv : Z := 512.
Definition CopyGas : Z := 3.
Definition Sha3Gas : Z := 30.
Definition Sha3WordGas : Z := 6.
Definition LogGas : Z := 375.
Definition LogTopicGas : Z := 375.
Definition LogDataGas : Z := 8.
Definition CreateGas : Z := 32000.
Definition GasQuickStep : Z := 2.
Definition GasFastestStep : Z := 3.
Definition GasFastStep : Z := 5.
Definition GasMidStep : Z := 8.
Definition GasSlowStep : Z := 10.
Definition GasExtStep : Z := 20.

(* params.GasTable: the fields used by the functions modelled here *)
Record gastable : Type := { gt_ExpByte : Z; gt_CreateBySuicide : Z; gt_Calls : Z; gt_ExtcodeCopy : Z }.
Definition GasTableHomestead : gastable :=
  {| gt_ExpByte := 10; gt_CreateBySuicide := 25000; gt_Calls := 700; gt_ExtcodeCopy := 700 |}.
Definition GasTableHF1 : gastable :=
  {| gt_ExpByte := 50; gt_CreateBySuicide := 25000; gt_Calls := 700; gt_ExtcodeCopy := 700 |}.

(* ------------------------------------------------ gas_table.go *)

(* memoryGasCost(mem, newMemSize): mem is (mem.Len(), mem.lastGasCost);
   returns (fee, new lastGasCost) *)
Definition memoryGasCost (memLen lastGasCost newMemSize : Z) : res (Z * Z) :=
  if newMemSize =? 0 then Ok (0, lastGasCost)
  else if newMemSize >? 0xffffffffe0 then Err ErrGasUintOverflow
  else
    let newMemSizeWords := toWordSize newMemSize in
    let newMemSize' := wrap64 (newMemSizeWords * 32) in
    if newMemSize' >? memLen then
      let square := wrap64 (newMemSizeWords * newMemSizeWords) in
      let linCoef := wrap64 (newMemSizeWords * MemoryGas) in
      let quadCoef := square / QuadCoeffDiv in
      let newTotalFee := wrap64 (linCoef + quadCoef) in
      let fee := wrap64 (newTotalFee - lastGasCost) in
      Ok (fee, newTotalFee)
    else Ok (0, lastGasCost).

(* shape shared by gasCallDataCopy / gasReturnDataCopy / gasCodeCopy (base =
   GasFastestStep, word = CopyGas, length = stack.Back(2)), gasExtCodeCopy (base =
   gt.ExtcodeCopy, Back(3)) and gasSha3 (base = Sha3Gas, word = Sha3WordGas,
   Back(1)).  NOTE gasSha3 adds the base before reading the length and the copy
   functions too; the order of the checks is the same in all of them. *)
Definition gas_mem_words (base perword : Z) (memLen lastGasCost memorySize len : Z) : res (Z * Z) :=
  match memoryGasCost memLen lastGasCost memorySize with
  | Ok (gas, last') =>
      let '(gas1, o1) := SafeAdd gas base in
      if o1 then Err ErrGasUintOverflow else
      let '(words, o2) := bigUint64 len in
      if o2 then Err ErrGasUintOverflow else
      let '(words', o3) := SafeMul (toWordSize words) perword in
      if o3 then Err ErrGasUintOverflow else
      let '(gas2, o4) := SafeAdd gas1 words' in
      if o4 then Err ErrGasUintOverflow else Ok (gas2, last')
  | Err e => Err e
  | Panic => Panic
  end.

Definition gasCallDataCopy := gas_mem_words GasFastestStep CopyGas.
Definition gasReturnDataCopy := gas_mem_words GasFastestStep CopyGas.
Definition gasCodeCopy := gas_mem_words GasFastestStep CopyGas.
Definition gasExtCodeCopy (gt : gastable) := gas_mem_words (gt_ExtcodeCopy gt) CopyGas.
Definition gasSha3 := gas_mem_words Sha3Gas Sha3WordGas.

(* gasMLoad / gasMStore / gasMStore8 (identical bodies) *)
Definition gas_mem_base (base : Z) (memLen lastGasCost memorySize : Z) : res (Z * Z) :=
  match memoryGasCost memLen lastGasCost memorySize with
  | Ok (gas, last') =>
      let '(gas1, o1) := SafeAdd gas base in
      if o1 then Err ErrGasUintOverflow else Ok (gas1, last')
  | Err e => Err ErrGasUintOverflow
  | Panic => Panic
  end.
Definition gasMLoad := gas_mem_base GasFastestStep.
Definition gasMStore := gas_mem_base GasFastestStep.
Definition gasMStore8 := gas_mem_base GasFastestStep.
Definition gasCreate := gas_mem_base CreateGas.
(* gasReturn / gasRevert *)
Definition gasReturn := memoryGasCost.

(* makeGasLog(n): requestedSize = stack.Back(1) is read (and checked) first *)
Definition gasLog (n : Z) (memLen lastGasCost memorySize requested : Z) : res (Z * Z) :=
  let '(requestedSize, o0) := bigUint64 requested in
  if o0 then Err ErrGasUintOverflow else
  match memoryGasCost memLen lastGasCost memorySize with
  | Ok (gas, last') =>
      let '(gas1, o1) := SafeAdd gas LogGas in
      if o1 then Err ErrGasUintOverflow else
      let '(gas2, o2) := SafeAdd gas1 (wrap64 (n * LogTopicGas)) in
      if o2 then Err ErrGasUintOverflow else
      let '(memorySizeGas, o3) := SafeMul requestedSize LogDataGas in
      if o3 then Err ErrGasUintOverflow else
      let '(gas3, o4) := SafeAdd gas2 memorySizeGas in
      if o4 then Err ErrGasUintOverflow else Ok (gas3, last')
  | Err e => Err e
  | Panic => Panic
  end.

(* gasExp: expByteLen from the exponent (second stack item) *)
Definition gasExp (gt : gastable) (exponent : Z) : res Z :=
  let expByteLen := (BitLen exponent + 7) / 8 in
  let gas := wrap64 (expByteLen * gt_ExpByte gt) in
  let '(gas1, o) := SafeAdd gas GasSlowStep in
  if o then Err ErrGasUintOverflow else Ok gas1.

(* gas.go callGas *)
Definition callGas (gt : gastable) (availableGas base callCost : Z) : res Z :=
  let early :=
    if gt_CreateBySuicide gt >? 0 then
      let availableGas' := wrap64 (availableGas - base) in
      let gas := wrap64 (availableGas' - availableGas' / 64) in
      if (BitLen callCost >? 64) || (gas <? big_Uint64 callCost) then Some gas else None
    else None in
  match early with
  | Some g => Ok g
  | None => if BitLen callCost >? 64 then Err ErrGasUintOverflow else Ok (big_Uint64 callCost)
  end.

(* stack_table.go makeStackFunc(pop, push) on a stack of length len *)
Definition StackLimit : Z := 1024.
Definition validateStack (pop push len : Z) : res unit :=
  if len <? pop then Err ErrStackUnderflow
  else if len + push - pop >? StackLimit then Err ErrStackLimit
  else Ok tt.

(* ------------------------------------------------ analysis.go: bitvec, codeBitmap, has *)

(* bitvec = list of byte values (Z in [0,256)) *)
Fixpoint upd (l : list Z) (i : nat) (f : Z -> Z) : option (list Z) :=
  match l, i with
  | [], _ => None                           (* index out of range *)
  | x :: r, O => Some (f x :: r)
  | x :: r, S j => match upd r j f with Some r' => Some (x :: r') | None => None end
  end.

(* bits.set(pos): bits[pos/8] |= 0x80 >> (pos % 8) *)
Definition bv_set (bits : list Z) (pos : Z) : option (list Z) :=
  upd bits (Z.to_nat (pos / 8)) (fun b => Z.lor b (Z.shiftr 0x80 (pos mod 8))).
(* bits.set8(pos): two bytes; the constants are byte-typed, so ^ stays in 8 bits *)
Definition bv_set8 (bits : list Z) (pos : Z) : option (list Z) :=
  match upd bits (Z.to_nat (pos / 8)) (fun b => Z.lor b (Z.shiftr 0xFF (pos mod 8))) with
  | Some bits1 =>
      upd bits1 (Z.to_nat (pos / 8 + 1))
          (fun b => Z.lor b (Z.land (Z.lnot (Z.shiftr 0xFF (pos mod 8))) 0xFF))
  | None => None
  end.
(* bits.codeSegment(pos) *)
Definition bv_codeSegment (bits : list Z) (pos : Z) : option bool :=
  match nth_error bits (Z.to_nat (pos / 8)) with
  | Some b => Some (Z.land b (Z.shiftr 0x80 (pos mod 8)) =? 0)
  | None => None
  end.

(* the two inner loops of codeBitmap *)
Fixpoint set8_loop (fuel : nat) (bits : list Z) (pc numbits : Z) : option (list Z * Z * Z) :=
  if numbits >=? 8 then
    match fuel with
    | O => None
    | S f =>
        match bv_set8 bits pc with
        | Some bits' => set8_loop f bits' (pc + 8) (numbits - 8)
        | None => None
        end
    end
  else Some (bits, pc, numbits).
Fixpoint set1_loop (fuel : nat) (bits : list Z) (pc numbits : Z) : option (list Z * Z) :=
  if numbits >? 0 then
    match fuel with
    | O => None
    | S f =>
        match bv_set bits pc with
        | Some bits' => set1_loop f bits' (pc + 1) (numbits - 1)
        | None => None
        end
    end
  else Some (bits, pc).

Definition PUSH1 : Z := 0x60.
Definition PUSH32 : Z := 0x7f.
Definition JUMPDEST : Z := 0x5b.

(* outer loop over pc; None = index out of range (Go panic); every iteration
   advances pc by at least 1, so fuel = S (length code) is never exhausted *)
Fixpoint bitmap_loop (fuel : nat) (code : list Z) (bits : list Z) (pc : Z) : option (list Z) :=
  match fuel with
  | O => Some bits  (* unreachable with fuel = S (length code), see has_no_panic *)
  | S f =>
      if pc <? Z.of_nat (length code) then
        match nth_error code (Z.to_nat pc) with
        | None => None
        | Some op =>
            if (op >=? PUSH1) && (op <=? PUSH32) then
              let numbits := op - PUSH1 + 1 in
              match set8_loop 4 bits (pc + 1) numbits with
              | Some (bits1, pc1, nb1) =>
                  match set1_loop 8 bits1 pc1 nb1 with
                  | Some (bits2, pc2) => bitmap_loop f code bits2 pc2
                  | None => None
                  end
              | None => None
              end
            else bitmap_loop f code bits (pc + 1)
        end
      else Some bits
  end.

(* codeBitmap(code): bits := make(bitvec, len(code)/8+1+4) *)
Definition codeBitmap (code : list Z) : res (list Z) :=
  let n := Z.of_nat (length code) in
  match bitmap_loop (S (length code)) code (repeat 0 (Z.to_nat (n / 8 + 1 + 4))) 0 with
  | Some bits => Ok bits
  | None => Panic
  end.

(* destinations.has (without the cache): dest is the big.Int popped by JUMP *)
Definition has (code : list Z) (dest : Z) : res bool :=
  let udest := big_Uint64 dest in
  if (BitLen dest >=? 63) || (udest >=? Z.of_nat (length code)) then Ok false
  else
    match codeBitmap code with
    | Ok m =>
        match nth_error code (Z.to_nat udest), bv_codeSegment m udest with
        | Some op, Some seg => Ok ((op =? JUMPDEST) && seg)
        | _, _ => Panic
        end
    | Err e => Err e
    | Panic => Panic
    end.

(* ------------------------------------------------ interpreter.go NewInterpreter: table selection *)

Inductive iset : Type := Frontier | Homestead | Byzantium | Constantinople | Spring.

(* isForked(s, head): s = None is a nil fork block *)
Definition isForked (s : option Z) (head : Z) : bool :=
  match s with None => false | Some b => b <=? head end.

(* the part of params.ChainConfig that NewInterpreter reads *)
Record chaincfg : Type := {
  cc_homestead : option Z; cc_byzantium : option Z; cc_constantinople : option Z;
  cc_hf5 : option Z; cc_hf1 : option Z }.

Definition select_iset (c : chaincfg) (num : Z) : iset :=
  if isForked (cc_hf5 c) num then Spring
  else if isForked (cc_constantinople c) num then Constantinople
  else if isForked (cc_byzantium c) num then Byzantium
  else if isForked (cc_homestead c) num then Homestead
  else Frontier.

(* ChainConfig.GasTable(num), num non-nil *)
Definition select_gastable (c : chaincfg) (num : Z) : gastable :=
  if isForked (cc_hf1 c) num then GasTableHF1 else GasTableHomestead.

(* jump_table.go: the constant (constGasFunc) bound to each instruction executed by
   [exec_arith]; EXP (0x0a) has the dynamic gasExp instead.  OpsProofsTable.v
   proves these are the constants of the regenerated tables. *)
Definition arith_const_gas (op : Z) : option Z :=
  if (op =? 0x02) || ((0x04 <=? op) && (op <=? 0x07)) || (op =? 0x0b) then Some GasFastStep
  else if (op =? 0x08) || (op =? 0x09) then Some GasMidStep
  else if (op =? 0x01) || (op =? 0x03) || ((0x10 <=? op) && (op <=? 0x1d)) then Some GasFastestStep
  else None.

(* ================================================================== stack, memory, code and
   call-data instructions (instructions.go, memory.go, common.go, stack.go).  Byte strings are
   [list Z] with entries in [0,256), as for [has].  These are the per-instruction functions the
   interpreter model (C07) composes; each takes exactly what the Go function reads. *)


Definition blen (l : list Z) : Z := Z.of_nat (length l).
(* l[s:e] for 0 <= s <= e <= len l *)
Definition slice (l : list Z) (s e : Z) : list Z := firstn (Z.to_nat (e - s)) (skipn (Z.to_nat s) l).

(* common.RightPadBytes(slice, l) *)
Definition RightPadBytes (sl : list Z) (l : Z) : list Z :=
  if l <=? blen sl then sl else sl ++ repeat 0 (Z.to_nat (l - blen sl)).

(* common.go getDataBig(data, start, size): s = BigMin(start, len); e = BigMin(s+size, len);
   RightPadBytes(data[s:e], int(size.Uint64())).  s <= e <= len always holds for size >= 0,
   so the slice expression cannot panic. *)
Definition getDataBig (data : list Z) (start size : Z) : list Z :=
  let dlen := blen data in
  let s := Z.min start dlen in
  let e := Z.min (s + size) dlen in
  RightPadBytes (slice data (big_Uint64 s) (big_Uint64 e)) (to_int64 (big_Uint64 size)).

(* big.Int.SetBytes *)
Definition be_to_Z (bs : list Z) : Z := fold_left (fun acc b => acc * 256 + b) bs 0.
(* big-endian, exactly w bytes (low w bytes of v) *)
Fixpoint be_fixedZ (w : nat) (v : Z) : list Z :=
  match w with O => [] | S k => be_fixedZ k (v / 256) ++ [v mod 256] end.
(* math.PaddedBigBytes(bigint, n) *)
Definition PaddedBigBytes (v n : Z) : list Z :=
  if BitLen v / 8 >=? n then be_fixedZ (Z.to_nat ((BitLen v + 7) / 8)) v
  else be_fixedZ (Z.to_nat n) v.

(* memory.go.  NOTE Go slices may be re-sliced up to their capacity; accesses between len(store)
   and cap(store) (which the interpreter never makes: Run resizes the memory to the step's
   memorySize first) are reported as Panic here. *)
Definition mem_resize (mem : list Z) (size : Z) : list Z :=
  if blen mem <? size then mem ++ repeat 0 (Z.to_nat (size - blen mem)) else mem.

(* Memory.Set(offset, size uint64, value) *)
Definition mem_set (mem : list Z) (offset size : Z) (value : list Z) : res (list Z) :=
  if size >? blen mem then Panic                      (* panic("INVALID memory: store empty") *)
  else if size >? 0 then
    let hi := wrap64 (offset + size) in
    if (offset >? hi) || (hi >? blen mem) then Panic   (* m.store[offset:offset+size] *)
    else
      let n := Z.min size (blen value) in              (* copy copies min(len dst, len src) *)
      Ok (firstn (Z.to_nat offset) mem ++ firstn (Z.to_nat n) value ++ skipn (Z.to_nat (offset + n)) mem)
  else Ok mem.

(* Memory.Get(offset, size int64) and GetPtr (same result as values) *)
Definition mem_get (mem : list Z) (offset size : Z) : res (list Z) :=
  if size =? 0 then Ok []
  else if blen mem >? offset then
    if size <? 0 then Panic                            (* make([]byte, size) *)
    else if (offset <? 0) || (offset + size >? blen mem) then Panic
    else Ok (slice mem offset (offset + size))
  else Ok [].                                          (* nil: NOT zero bytes *)

(* opMload: returns the pushed value *)
Definition op_MLOAD (mem : list Z) (offset : Z) : res Z :=
  match mem_get mem (big_Int64 offset) 32 with
  | Ok bs => Ok (be_to_Z bs) | Err e => Err e | Panic => Panic end.
(* opMstore *)
Definition op_MSTORE (mem : list Z) (mStart val : Z) : res (list Z) :=
  mem_set mem (big_Uint64 mStart) 32 (PaddedBigBytes val 32).
(* opMstore8: memory.store[off] = byte(val & 0xff), off and val through Int64() *)
Definition op_MSTORE8 (mem : list Z) (off0 val0 : Z) : res (list Z) :=
  let off := big_Int64 off0 in
  let val := big_Int64 val0 in
  if (off <? 0) || (off >=? blen mem) then Panic
  else Ok (firstn (Z.to_nat off) mem ++ [Z.land val 255] ++ skipn (Z.to_nat (off + 1)) mem).
(* opMsize *)
Definition op_MSIZE (mem : list Z) : Z := blen mem.

(* opCallDataLoad *)
Definition op_CALLDATALOAD (input : list Z) (i : Z) : Z := be_to_Z (getDataBig input i 32).
(* opCallDataSize / opCodeSize / opReturnDataSize *)
Definition op_CALLDATASIZE (input : list Z) : Z := blen input.
(* opCallDataCopy / opCodeCopy: data = contract.Input / contract.Code *)
Definition op_DATACOPY (mem data : list Z) (memOffset dataOffset length : Z) : res (list Z) :=
  mem_set mem (big_Uint64 memOffset) (big_Uint64 length) (getDataBig data dataOffset length).
(* opReturnDataCopy *)
Definition op_RETURNDATACOPY (mem returnData : list Z) (memOffset dataOffset length : Z) : res (list Z) :=
  let end_ := dataOffset + length in
  if (BitLen end_ >? 64) || (blen returnData <? big_Uint64 end_) then Err ErrReturnDataOutOfBounds
  else mem_set mem (big_Uint64 memOffset) (big_Uint64 length)
               (slice returnData (big_Uint64 dataOffset) (big_Uint64 end_)).

(* makePush(size, pushByteSize): returns (pushed value, pc after the function; Run adds 1) *)
Definition op_PUSH (code : list Z) (pc size pushByteSize : Z) : Z * Z :=
  let codeLen := blen code in
  let startMin := if to_int64 (wrap64 (pc + 1)) <? codeLen then to_int64 (wrap64 (pc + 1)) else codeLen in
  let endMin := if startMin + pushByteSize <? codeLen then startMin + pushByteSize else codeLen in
  (be_to_Z (RightPadBytes (slice code startMin endMin) pushByteSize), wrap64 (pc + size)).

(* stack.dup(n) / stack.swap(n) on a stack whose head is the top; makeSwap(n) calls swap(n+1) *)
Definition op_DUP (n : Z) (st : list Z) : res (list Z) :=
  match nth_error st (Z.to_nat (n - 1)) with Some v => Ok (v :: st) | None => Panic end.
Definition op_SWAP (n : Z) (st : list Z) : res (list Z) :=
  match st with
  | top :: rest =>
      match nth_error rest (Z.to_nat (n - 1)) with
      | Some v => Ok (v :: firstn (Z.to_nat (n - 1)) rest ++ top :: skipn (Z.to_nat n) rest)
      | None => Panic
      end
  | [] => Panic
  end.

(* opJump / opJumpi: new pc *)
Definition op_JUMP (code : list Z) (pos : Z) : res Z :=
  match has code pos with
  | Ok true => Ok (big_Uint64 pos)
  | Ok false => Err ErrInvalidJump
  | Err e => Err e | Panic => Panic end.
Definition op_JUMPI (code : list Z) (pc pos cond : Z) : res Z :=
  if negb (Z.sgn cond =? 0) then op_JUMP code pos else Ok (wrap64 (pc + 1)).

(* ================================================================== SHA3, environment
   instructions, state-dependent gas functions (second wave; additions only) *)

(* opSha3: data := memory.Get(offset.Int64(), size.Int64()); hash := H(data); push SetBytes(hash).
   H is the hash on byte strings (crypto.Keccak256); Memory.Get's nil result hashes as the
   empty string. *)
Definition op_SHA3_H (H : list Z -> list Z) (mem : list Z) (offset size : Z) : res Z :=
  match mem_get mem (big_Int64 offset) (big_Int64 size) with
  | Ok data => Ok (be_to_Z (H data))
  | Err e => Err e
  | Panic => Panic
  end.

(* the values the environment instructions read: contract.Address(), contract.Caller(),
   contract.value, evm.Origin, evm.GasPrice, evm.Coinbase, evm.Time, evm.BlockNumber,
   evm.Difficulty, evm.GasLimit (addresses as the integer of their 20 bytes) *)
Record envinfo : Type := {
  e_address : Z; e_caller : Z; e_callvalue : Z; e_origin : Z; e_gasprice : Z;
  e_coinbase : Z; e_time : Z; e_number : Z; e_difficulty : Z; e_gaslimit : Z }.

(* the instructions that only push a value read from the frame: opAddress, opOrigin,
   opCaller, opCallValue, opCallDataSize, opCodeSize, opGasprice, opReturnDataSize,
   opCoinbase, opTimestamp, opNumber, opDifficulty, opGasLimit, opPc, opMsize, opGas.
   TIMESTAMP, NUMBER, DIFFICULTY, GASLIMIT are wrapped with U256 by the Go code, the
   others are pushed as they are. *)
Definition op_ENV (op : Z) (e : envinfo) (input code returnData mem : list Z) (pc gas : Z) : option Z :=
  if op =? 0x30 then Some (e_address e)
  else if op =? 0x32 then Some (e_origin e)
  else if op =? 0x33 then Some (e_caller e)
  else if op =? 0x34 then Some (e_callvalue e)
  else if op =? 0x36 then Some (blen input)
  else if op =? 0x38 then Some (blen code)
  else if op =? 0x3a then Some (e_gasprice e)
  else if op =? 0x3d then Some (blen returnData)
  else if op =? 0x41 then Some (e_coinbase e)
  else if op =? 0x42 then Some (U256 (e_time e))
  else if op =? 0x43 then Some (U256 (e_number e))
  else if op =? 0x44 then Some (U256 (e_difficulty e))
  else if op =? 0x45 then Some (U256 (big_Uint64 (e_gaslimit e)))
  else if op =? 0x58 then Some pc
  else if op =? 0x59 then Some (blen mem)
  else if op =? 0x5a then Some gas
  else None.

(* opPop *)
Definition op_POP (st : list Z) : res (list Z) := match st with _ :: r => Ok r | [] => Panic end.

(* ---- params / full gas table ---- *)
Definition SstoreSetGas : Z := 20000.
Definition SstoreClearGas : Z := 5000.
Definition SstoreResetGas : Z := 5000.
Definition SstoreRefundGas : Z := 15000.
Definition CallNewAccountGas : Z := 25000.
Definition CallValueTransferGas : Z := 9000.
Definition SuicideRefundGas : Z := 24000.
Definition CallStipend : Z := 2300.

(* params.GasTable with all its fields ([gastable] above keeps the four the first wave used) *)
Record gastable_full : Type := {
  gf_ExtcodeSize : Z; gf_ExtcodeCopy : Z; gf_Balance : Z; gf_SLoad : Z; gf_Calls : Z;
  gf_Suicide : Z; gf_ExpByte : Z; gf_CreateBySuicide : Z }.
Definition GasTableHomestead_full : gastable_full :=
  {| gf_ExtcodeSize := 700; gf_ExtcodeCopy := 700; gf_Balance := 400; gf_SLoad := 200; gf_Calls := 700;
     gf_Suicide := 5000; gf_ExpByte := 10; gf_CreateBySuicide := 25000 |}.
Definition GasTableHF1_full : gastable_full :=
  {| gf_ExtcodeSize := 700; gf_ExtcodeCopy := 700; gf_Balance := 400; gf_SLoad := 200; gf_Calls := 700;
     gf_Suicide := 5000; gf_ExpByte := 50; gf_CreateBySuicide := 25000 |}.
Definition gt_of_full (g : gastable_full) : gastable :=
  {| gt_ExpByte := gf_ExpByte g; gt_CreateBySuicide := gf_CreateBySuicide g; gt_Calls := gf_Calls g;
     gt_ExtcodeCopy := gf_ExtcodeCopy g |}.
Definition select_gastable_full (c : chaincfg) (num : Z) : gastable_full :=
  if isForked (cc_hf1 c) num then GasTableHF1_full else GasTableHomestead_full.

(* gasBalance / gasExtCodeSize / gasSLoad *)
Definition gasBalance (g : gastable_full) : Z := gf_Balance g.
Definition gasExtCodeSize (g : gastable_full) : Z := gf_ExtcodeSize g.
Definition gasSLoad (g : gastable_full) : Z := gf_SLoad g.

(* gasSStore: cur = StateDB.GetState(address, Back(0)), y = Back(1) (the value to store);
   common.EmptyHash(BigToHash(y)) looks at the low 256 bits.  Returns (gas, refund added). *)
Definition gasSStore (cur y : Z) : Z * Z :=
  let curEmpty := U256 cur =? 0 in
  let yEmpty := U256 y =? 0 in
  if curEmpty && negb yEmpty then (SstoreSetGas, 0)
  else if negb curEmpty && yEmpty then (SstoreClearGas, SstoreRefundGas)
  else (SstoreResetGas, 0).

(* gasCall: value = Back(2), callCost = Back(0); addrEmpty = StateDB.Empty(address), addrExist =
   StateDB.Exist(address); contractGas = contract.Gas.  The additions before the SafeAdd are plain
   uint64 additions.  Returns (gas, evm.callGasTemp, new lastGasCost). *)
Definition gasCall (g : gastable_full) (eip158 : bool) (value : Z) (addrEmpty addrExist : bool)
    (memLen lastGasCost memorySize contractGas callCost : Z) : res (Z * Z * Z) :=
  let transfersValue := negb (Z.sgn value =? 0) in
  let gas0 := gf_Calls g in
  let gas1 :=
    if eip158 then (if transfersValue && addrEmpty then wrap64 (gas0 + CallNewAccountGas) else gas0)
    else if negb addrExist then wrap64 (gas0 + CallNewAccountGas) else gas0 in
  let gas2 := if transfersValue then wrap64 (gas1 + CallValueTransferGas) else gas1 in
  match memoryGasCost memLen lastGasCost memorySize with
  | Ok (memoryGas, last') =>
      let '(gas3, o1) := SafeAdd gas2 memoryGas in
      if o1 then Err ErrGasUintOverflow else
      match callGas (gt_of_full g) contractGas gas3 callCost with
      | Ok temp =>
          let '(gas4, o2) := SafeAdd gas3 temp in
          if o2 then Err ErrGasUintOverflow else Ok (gas4, temp, last')
      | Err e => Err e
      | Panic => Panic
      end
  | Err e => Err e
  | Panic => Panic
  end.

(* gasCallCode *)
Definition gasCallCode (g : gastable_full) (value : Z)
    (memLen lastGasCost memorySize contractGas callCost : Z) : res (Z * Z * Z) :=
  let gas0 := gf_Calls g in
  let gas2 := if negb (Z.sgn value =? 0) then wrap64 (gas0 + CallValueTransferGas) else gas0 in
  match memoryGasCost memLen lastGasCost memorySize with
  | Ok (memoryGas, last') =>
      let '(gas3, o1) := SafeAdd gas2 memoryGas in
      if o1 then Err ErrGasUintOverflow else
      match callGas (gt_of_full g) contractGas gas3 callCost with
      | Ok temp =>
          let '(gas4, o2) := SafeAdd gas3 temp in
          if o2 then Err ErrGasUintOverflow else Ok (gas4, temp, last')
      | Err e => Err e
      | Panic => Panic
      end
  | Err e => Err e
  | Panic => Panic
  end.

(* gasDelegateCall / gasStaticCall (identical bodies): memory first, then gt.Calls *)
Definition gasDelegateCall (g : gastable_full)
    (memLen lastGasCost memorySize contractGas callCost : Z) : res (Z * Z * Z) :=
  match memoryGasCost memLen lastGasCost memorySize with
  | Ok (gas0, last') =>
      let '(gas3, o1) := SafeAdd gas0 (gf_Calls g) in
      if o1 then Err ErrGasUintOverflow else
      match callGas (gt_of_full g) contractGas gas3 callCost with
      | Ok temp =>
          let '(gas4, o2) := SafeAdd gas3 temp in
          if o2 then Err ErrGasUintOverflow else Ok (gas4, temp, last')
      | Err e => Err e
      | Panic => Panic
      end
  | Err e => Err e
  | Panic => Panic
  end.
Definition gasStaticCall := gasDelegateCall.

(* gasSuicide: addrEmpty / addrExist about the beneficiary Back(0); balanceNonZero =
   GetBalance(contract.Address()).Sign() != 0; hasSuicided = HasSuicided(contract.Address()).
   Returns (gas, refund added). *)
Definition gasSuicide (g : gastable_full) (eip150 eip158 addrEmpty addrExist balanceNonZero hasSuicided : bool) : Z * Z :=
  let gas :=
    if eip150 then
      let gas0 := gf_Suicide g in
      if eip158 then (if addrEmpty && balanceNonZero then wrap64 (gas0 + gf_CreateBySuicide g) else gas0)
      else if negb addrExist then wrap64 (gas0 + gf_CreateBySuicide g) else gas0
    else 0 in
  (gas, if negb hasSuicided then SuicideRefundGas else 0).

(* ---- interpreter.go: chain rules and write protection ---- *)

(* the fork blocks params.ChainConfig.Rules reads *)
Record rulescfg : Type := {
  rc_homestead : option Z; rc_eip150 : option Z; rc_eip155 : option Z; rc_eip158 : option Z; rc_byzantium : option Z }.
Record rules : Type := { r_homestead : bool; r_eip150 : bool; r_eip155 : bool; r_eip158 : bool; r_byzantium : bool }.
(* ChainConfig.Rules(num) as NewEVM stores it in evm.chainRules *)
Definition select_rules (c : rulescfg) (num : Z) : rules :=
  {| r_homestead := isForked (rc_homestead c) num; r_eip150 := isForked (rc_eip150 c) num;
     r_eip155 := isForked (rc_eip155 c) num; r_eip158 := isForked (rc_eip158 c) num;
     r_byzantium := isForked (rc_byzantium c) num |}.

(* Interpreter.enforceRestrictions: true = errWriteProtection.  isCall = (op == CALL),
   value = stack.Back(2) *)
Definition enforceRestrictions (isByzantium readOnly writes isCall : bool) (value : Z) : bool :=
  isByzantium && readOnly && (writes || (isCall && (BitLen value >? 0))).

(* ================================================================== third wave (additions only) *)

(* opBlockhash: the range test is on the big.Int; num.Uint64() is taken only inside it.
   getHash = evm.GetHash (as an integer), number = evm.BlockNumber *)
Definition op_BLOCKHASH (getHash : Z -> Z) (number num : Z) : Z :=
  let n := number - 257 in
  if (num >? n) && (num <? number) then getHash (big_Uint64 num) else 0.

(* memory_table.go memoryCall (= memoryCallCode): BigMax of the return range and the input range;
   memoryDelegateCall / memoryStaticCall are the same on their operand positions; memoryCreate *)
Definition memoryCall (inOffset inSize retOffset retSize : Z) : Z :=
  let x := calcMemSize retOffset retSize in
  let y := calcMemSize inOffset inSize in
  if x <? y then y else x.
Definition memoryCreate (offset size : Z) : Z := calcMemSize offset size.
