(* Evm/OpsKeccak.v — the executable instance of SHA3: op_SHA3_H with H = Keccak-256 of
   Lib/Keccak.v (definitions only; extracted).  Theorems are stated for an arbitrary H. *)
From Coq Require Import ZArith List.
From AQ Require Import Lib.Bytes Lib.Keccak Evm.OpsModel.
Import ListNotations.
Local Open Scope Z_scope.

Definition keccakZ (l : list Z) : list Z := map b2z (keccak256 (map z2b l)).
(* opSha3 with crypto.Keccak256 *)
Definition op_SHA3 (mem : list Z) (offset size : Z) : res Z := op_SHA3_H keccakZ mem offset size.
