(* Evm/OpsProofsGasRules.v — the gas functions under EVERY fork rule set the built-in chain
   configurations reach (Generated/GenGasObs.v: gas table, IsEIP150, IsEIP158):
   (1) what the real Go functions returned on the generated operand lattice is what the model
       returns (finite, vm_compute): a changed surcharge / cap / flag in gas_table.go breaks this;
   (2) for each generated rule set and ALL inputs, the model functions equal the Yellow-Paper /
       EIP-150 / EIP-158 formulas (instances of the generic theorems of OpsProofsGas*.v, the
       side conditions on the table discharged over the generated list);
   (3) the stipend of CALL / CALLCODE never exceeds what the gas function charged for the value
       transfer, so no call-family instruction can leave more gas than it found. *)
From Coq Require Import ZArith List Bool String Lia ZifyBool.
From AQ Require Import Evm.OpsModel Evm.OpsSpec Evm.OpsProofsGas Evm.OpsProofsGasState Generated.GenGasObs.
Import ListNotations.
Local Open Scope Z_scope.

Definition gt_of_gen (r : gen_ruleset) : gastable_full :=
  match grs_gt r with
  | (a, b, c, d, e, f, g, h) =>
      {| gf_ExtcodeSize := a; gf_ExtcodeCopy := b; gf_Balance := c; gf_SLoad := d; gf_Calls := e;
         gf_Suicide := f; gf_ExpByte := g; gf_CreateBySuicide := h |}
  end.

Definition default_rs : gen_ruleset := mk_ruleset (0, 0, 0, 0, 0, 0, 0, 0) false false EmptyString.
Definition rs_nth (i : nat) : gen_ruleset := nth i gen_rulesets default_rs.

(* ------------------------------------------------------------------ (1) observed = model *)

Definition t3_eqb (a b : Z * Z * Z) : bool :=
  match a, b with (a1, a2, a3), (b1, b2, b3) => (a1 =? b1) && (a2 =? b2) && (a3 =? b3) end.
Definition t2_eqb (a b : Z * Z) : bool := match a, b with (a1, a2), (b1, b2) => (a1 =? b1) && (a2 =? b2) end.

(* memory of the observations: 64 bytes, lastGasCost = Cmem 2 = 6 *)
Definition callgas_model (r : gen_ruleset) (kind value : Z) (empty exist : bool) (ms avail cost : Z) : Z * Z * Z :=
  let g := gt_of_gen r in
  let res :=
    if kind =? 0 then gasCall g (grs_eip158 r) value empty exist 64 6 ms avail cost
    else if kind =? 1 then gasCallCode g value 64 6 ms avail cost
    else if kind =? 2 then gasDelegateCall g 64 6 ms avail cost
    else gasStaticCall g 64 6 ms avail cost in
  match res with Ok (gas, temp, _) => (0, gas, temp) | Err _ => (1, 0, 0) | Panic => (2, 0, 0) end.

Definition callgas_check : bool :=
  forallb (fun o => match o with (i, kind, value, em, ex, ms, avail, cost, obs) =>
    t3_eqb (callgas_model (rs_nth i) kind value em ex ms avail cost) obs end) gen_callgas_obs.

Definition suicide_check : bool :=
  forallb (fun o => match o with (i, em, ex, bal, already, obs) =>
    let r := rs_nth i in
    t2_eqb (gasSuicide (gt_of_gen r) (grs_eip150 r) (grs_eip158 r) em ex bal already) obs end) gen_suicide_obs.

Definition sstore_check : bool :=
  forallb (fun o => match o with (cur, y, obs) => t2_eqb (gasSStore cur y) obs end) gen_sstore_obs.

Definition memgas_model (r : gen_ruleset) (fn ms x : Z) : Z * Z :=
  let g := gt_of_gen r in
  let pr (v : res (Z * Z)) := match v with Ok (gas, _) => (0, gas) | Err _ => (1, 0) | Panic => (2, 0) end in
  if fn =? 0 then match gasExp (gt_of_full g) x with Ok gas => (0, gas) | Err _ => (1, 0) | Panic => (2, 0) end
  else if fn =? 1 then pr (gasSha3 64 6 ms x)
  else if fn =? 2 then pr (gasCallDataCopy 64 6 ms x)
  else if fn =? 3 then pr (gasCodeCopy 64 6 ms x)
  else if fn =? 4 then pr (gasReturnDataCopy 64 6 ms x)
  else if fn =? 5 then pr (gasExtCodeCopy (gt_of_full g) 64 6 ms x)
  else if fn =? 6 then pr (gasCreate 64 6 ms)
  else pr (gasLog (fn - 10) 64 6 ms x).

Definition memgas_check : bool :=
  forallb (fun o => match o with (i, fn, ms, x, obs) => t2_eqb (memgas_model (rs_nth i) fn ms x) obs end) gen_memgas_obs.

Lemma callgas_check_ok : callgas_check = true.
Proof. vm_compute. reflexivity. Qed.
Lemma suicide_check_ok : suicide_check = true.
Proof. vm_compute. reflexivity. Qed.
Lemma sstore_check_ok : sstore_check = true.
Proof. vm_compute. reflexivity. Qed.
Lemma memgas_check_ok : memgas_check = true.
Proof. vm_compute. reflexivity. Qed.

Lemma t3_eqb_eq a b : t3_eqb a b = true -> a = b.
Proof. destruct a as [[a1 a2] a3], b as [[b1 b2] b3]. unfold t3_eqb. intro H. f_equal; [f_equal|]; lia. Qed.
Lemma t2_eqb_eq a b : t2_eqb a b = true -> a = b.
Proof. destruct a as [a1 a2], b as [b1 b2]. unfold t2_eqb. intro H. f_equal; lia. Qed.

(* every observation of the real gas functions, for every generated rule set, is reproduced by the model
   (boolean form: forallb over the generated lists; forallb_forall turns each into "forall o, In o list -> model o = observed o") *)
Theorem gas_functions_observed :
  callgas_check = true /\ suicide_check = true /\ sstore_check = true /\ memgas_check = true.
Proof.
  split; [exact callgas_check_ok|]. split; [exact suicide_check_ok|]. split; [exact sstore_check_ok|exact memgas_check_ok].
Qed.

(* ------------------------------------------------------------------ (2) the generated rule sets satisfy the side conditions *)

Definition gt_ok_b (g : gastable_full) : bool :=
  let ok x := (0 <=? x) && (x <? 2 ^ 32) in
  ok (gf_ExtcodeSize g) && ok (gf_ExtcodeCopy g) && ok (gf_Balance g) && ok (gf_SLoad g) && ok (gf_Calls g) &&
  ok (gf_Suicide g) && ok (gf_ExpByte g) && ok (gf_CreateBySuicide g).

Lemma gt_ok_b_ok g : gt_ok_b g = true -> gt_ok g.
Proof. unfold gt_ok_b, gt_ok. intro H. lia. Qed.

Definition gtf_eqb (a b : gastable_full) : bool :=
  (gf_ExtcodeSize a =? gf_ExtcodeSize b) && (gf_ExtcodeCopy a =? gf_ExtcodeCopy b) && (gf_Balance a =? gf_Balance b) &&
  (gf_SLoad a =? gf_SLoad b) && (gf_Calls a =? gf_Calls b) && (gf_Suicide a =? gf_Suicide b) &&
  (gf_ExpByte a =? gf_ExpByte b) && (gf_CreateBySuicide a =? gf_CreateBySuicide b).

(* every generated rule set: table within bounds, EIP-150 pricing on (CreateBySuicide > 0, IsEIP150), and the table is
   one of the two the model knows *)
Definition ruleset_ok (r : gen_ruleset) : bool :=
  gt_ok_b (gt_of_gen r) && (0 <? gf_CreateBySuicide (gt_of_gen r)) && grs_eip150 r &&
  (gtf_eqb (gt_of_gen r) GasTableHomestead_full || gtf_eqb (gt_of_gen r) GasTableHF1_full).

Lemma rulesets_ok : forallb ruleset_ok gen_rulesets = true.
Proof. vm_compute. reflexivity. Qed.

Lemma ruleset_facts : forall r, In r gen_rulesets ->
  gt_ok (gt_of_gen r) /\ 0 < gf_CreateBySuicide (gt_of_gen r) /\ grs_eip150 r = true.
Proof.
  intros r Hr. pose proof rulesets_ok as H. rewrite forallb_forall in H. specialize (H r Hr).
  unfold ruleset_ok in H.
  apply andb_true_iff in H. destruct H as [H _].
  apply andb_true_iff in H. destruct H as [H H3].
  apply andb_true_iff in H. destruct H as [H1 H2].
  split; [apply gt_ok_b_ok; exact H1|]. split; [lia|exact H3].
Qed.

(* the call family = Yellow Paper / EIP-150 / EIP-158, for every generated rule set and all inputs on the domain of the
   memory-gas theorem (memory below 2^32 words) with an affordable base; otherwise the total is never payable *)
Theorem call_family_gas_is_yp : forall r, In r gen_rulesets ->
  let g := gt_of_gen r in
  (forall value empty exist w0 ms avail cost, word value -> word cost -> 0 <= w0 < 2^32 -> 0 <= ms <= 0x1FFFFFFFE0 -> avail < two64 ->
     let extra := C_extra (gf_Calls g) (grs_eip158 r) value empty exist in
     extra + memfee w0 ms <= avail ->
     gasCall g (grs_eip158 r) value empty exist (32 * w0) (Cmem w0) ms avail cost =
       Ok (C_call extra (memfee w0 ms) avail cost, C_gascap avail (extra + memfee w0 ms) cost, Cmem (Z.max w0 (ceil32 ms)))) /\
  (forall value empty exist w0 ms avail cost res, word value -> word cost -> 0 <= w0 < 2^32 -> 0 <= ms <= 0x1FFFFFFFE0 -> 0 <= avail < two64 ->
     avail < C_extra (gf_Calls g) (grs_eip158 r) value empty exist + memfee w0 ms ->
     gasCall g (grs_eip158 r) value empty exist (32 * w0) (Cmem w0) ms avail cost = Ok res -> avail < fst (fst res)) /\
  (forall value w0 ms avail cost, word value -> word cost -> 0 <= w0 < 2^32 -> 0 <= ms <= 0x1FFFFFFFE0 -> avail < two64 ->
     let extra := gf_Calls g + C_xfer value in
     extra + memfee w0 ms <= avail ->
     gasCallCode g value (32 * w0) (Cmem w0) ms avail cost =
       Ok (C_call extra (memfee w0 ms) avail cost, C_gascap avail (extra + memfee w0 ms) cost, Cmem (Z.max w0 (ceil32 ms)))) /\
  (forall w0 ms avail cost, word cost -> 0 <= w0 < 2^32 -> 0 <= ms <= 0x1FFFFFFFE0 -> avail < two64 ->
     gf_Calls g + memfee w0 ms <= avail ->
     gasDelegateCall g (32 * w0) (Cmem w0) ms avail cost =
       Ok (C_call (gf_Calls g) (memfee w0 ms) avail cost, C_gascap avail (gf_Calls g + memfee w0 ms) cost, Cmem (Z.max w0 (ceil32 ms))) /\
     gasStaticCall g (32 * w0) (Cmem w0) ms avail cost = gasDelegateCall g (32 * w0) (Cmem w0) ms avail cost).
Proof.
  intros r Hr g. destruct (ruleset_facts r Hr) as [Hok [Hc _]]. fold g in Hok, Hc.
  split; [|split; [|split]].
  - intros. apply gasCall_spec; assumption.
  - intros value empty exist w0 ms avail cost res Hv Hc' Hw Hms Ha Hlt He.
    exact (gasCall_unaffordable g (grs_eip158 r) value empty exist w0 ms avail cost res Hok Hv Hc' Hw Hms Ha Hlt He).
  - intros. apply gasCallCode_spec; assumption.
  - intros. split; [apply gasDelegateCall_spec; assumption|reflexivity].
Qed.

(* the other state-dependent and memory-shaped gas functions, per generated rule set, all inputs *)
Theorem other_gas_is_yp : forall r, In r gen_rulesets ->
  let g := gt_of_gen r in
  (forall empty exist bal already,
     gasSuicide g (grs_eip150 r) (grs_eip158 r) empty exist bal already =
       (C_selfdestruct (gf_Suicide g) (gf_CreateBySuicide g) true (grs_eip158 r) empty exist bal, R_selfdestruct already)) /\
  (forall cur y, word cur -> word y -> gasSStore cur y = (C_sstore cur y, R_sstore cur y)) /\
  (forall e, word e -> gasExp (gt_of_full g) e = Ok (G_exp (gf_ExpByte g) e)) /\
  (forall memLen last ms len fee last', word len -> memoryGasCost memLen last ms = Ok (fee, last') -> 0 <= fee < two64 ->
     gasExtCodeCopy (gt_of_full g) memLen last ms len =
       if (len <? two64) && (fee + gf_ExtcodeCopy g + 3 * ceil32 len <=? maxU64)
       then Ok (fee + gf_ExtcodeCopy g + 3 * ceil32 len, last') else Err ErrGasUintOverflow) /\
  (forall n memLen last ms requested fee last', 0 <= n <= 4 -> word requested -> memoryGasCost memLen last ms = Ok (fee, last') -> 0 <= fee < two64 ->
     gasLog n memLen last ms requested =
       if (requested <? two64) && (fee + G_log n requested <=? maxU64) then Ok (fee + G_log n requested, last') else Err ErrGasUintOverflow) /\
  (forall memLen last ms len fee last', word len -> memoryGasCost memLen last ms = Ok (fee, last') -> 0 <= fee < two64 ->
     gasCallDataCopy memLen last ms len =
       if (len <? two64) && (fee + G_copy len <=? maxU64) then Ok (fee + G_copy len, last') else Err ErrGasUintOverflow) /\
  (forall memLen last ms fee last', memoryGasCost memLen last ms = Ok (fee, last') -> 0 <= fee < two64 ->
     gasCreate memLen last ms = if fee + 32000 <=? maxU64 then Ok (fee + 32000, last') else Err ErrGasUintOverflow).
Proof.
  intros r Hr g. destruct (ruleset_facts r Hr) as [Hok [Hc H150]]. fold g in Hok, Hc.
  split; [|split; [|split; [|split; [|split; [|split]]]]].
  - intros. rewrite H150. apply gasSuicide_spec. exact Hok.
  - intros. apply gasSStore_spec; assumption.
  - intros e He. apply gasExp_spec; [exact He|]. unfold gt_of_full. cbn [gt_ExpByte]. unfold gt_ok in Hok. lia.
  - intros. apply gasExtCodeCopy_formula; assumption.
  - intros. apply gasLog_spec; assumption.
  - intros. apply gasCopy_formula; assumption.
  - intros. apply gasCreate_formula; assumption.
Qed.

(* ------------------------------------------------------------------ (3) the stipend never mints gas *)

Lemma memoryGasCost_fee_nonneg : forall a b c fee l, memoryGasCost a b c = Ok (fee, l) -> 0 <= fee.
Proof.
  intros a b c fee l H. unfold memoryGasCost in H.
  destruct (c =? 0); [injection H as <- _; lia|].
  destruct (c >? 1099511627744); [discriminate H|].
  destruct (wrap64 (toWordSize c * 32) >? a); injection H as <- _; [|lia].
  unfold wrap64. pose proof two64_val. apply Z.mod_pos_bound. lia.
Qed.

Lemma wrap64_nonneg' : forall x, 0 <= wrap64 x.
Proof. intro x. unfold wrap64. pose proof two64_val. apply Z.mod_pos_bound. lia. Qed.

Lemma callGas_nonneg' : forall gt a b c t, callGas gt a b c = Ok t -> 0 <= t.
Proof.
  intros gt a b c t H. unfold callGas in H.
  destruct (gt_CreateBySuicide gt >? 0).
  - destruct ((BitLen c >? 64) || (wrap64 (wrap64 (a - b) - wrap64 (a - b) / 64) <? big_Uint64 c)).
    + injection H as <-. apply wrap64_nonneg'.
    + destruct (BitLen c >? 64); [discriminate H|]. injection H as <-. unfold big_Uint64. apply wrap64_nonneg'.
  - destruct (BitLen c >? 64); [discriminate H|]. injection H as <-. unfold big_Uint64. apply wrap64_nonneg'.
Qed.

(* what the gas function charged covers the forwarded gas plus, when value is transferred, the 9000 surcharge *)
Lemma call_tail_lb : forall gt gas2 mg avail cost gas temp,
  0 <= gas2 -> 0 <= mg ->
  (let '(gas3, o1) := SafeAdd gas2 mg in
   if o1 then Err ErrGasUintOverflow else
   match callGas gt avail gas3 cost with
   | Ok t => let '(gas4, o2) := SafeAdd gas3 t in if o2 then Err ErrGasUintOverflow else Ok (gas4, t)
   | Err e => Err e | Panic => Panic end) = Ok (gas, temp) ->
  gas2 + temp <= gas /\ 0 <= temp.
Proof.
  intros gt gas2 mg avail cost gas temp H2 Hm H.
  rewrite SafeAdd_spec in H. pose proof two64_val as T. pose proof maxU64_val as M.
  destruct (maxU64 <? gas2 + mg) eqn:E1; [discriminate H|].
  rewrite wrap64_small in H by lia.
  destruct (callGas gt avail (gas2 + mg) cost) as [t|e|] eqn:Ec; try discriminate H.
  pose proof (callGas_nonneg' _ _ _ _ _ Ec) as Ht.
  rewrite SafeAdd_spec in H.
  destruct (maxU64 <? gas2 + mg + t) eqn:E2; [discriminate H|].
  rewrite wrap64_small in H by lia. injection H as <- <-. lia.
Qed.

Theorem gasCall_charges_transfer : forall g eip158 value empty exist memLen last ms avail cost gas temp l',
  gt_ok g -> word value ->
  gasCall g eip158 value empty exist memLen last ms avail cost = Ok (gas, temp, l') ->
  gf_Calls g + C_xfer value + temp <= gas /\ 0 <= temp.
Proof.
  intros g eip158 value empty exist memLen last ms avail cost gas temp l' Hok Hv H.
  unfold gasCall in H. rewrite (sgn_zero_word value Hv) in H.
  pose proof two64_val as T. unfold gt_ok in Hok.
  destruct (memoryGasCost memLen last ms) as [[mg l1]|e|] eqn:Em; try discriminate H.
  pose proof (memoryGasCost_fee_nonneg _ _ _ _ _ Em) as Hmg.
  set (gas1 := if eip158 then (if negb (value =? 0) && empty then wrap64 (gf_Calls g + CallNewAccountGas) else gf_Calls g)
               else if negb exist then wrap64 (gf_Calls g + CallNewAccountGas) else gf_Calls g) in *.
  assert (H1 : gf_Calls g <= gas1 < 2^33).
  { unfold gas1, CallNewAccountGas. destruct eip158; [destruct (negb (value =? 0) && empty)|destruct (negb exist)];
    try rewrite wrap64_small by lia; lia. }
  set (gas2 := if negb (value =? 0) then wrap64 (gas1 + CallValueTransferGas) else gas1) in *.
  assert (H2 : gf_Calls g + C_xfer value <= gas2).
  { unfold gas2, C_xfer, CallValueTransferGas. destruct (value =? 0); cbn [negb]; [lia|]. rewrite wrap64_small by lia. lia. }
  destruct (SafeAdd gas2 mg) as [gas3 o1] eqn:E3.
  pose proof (call_tail_lb (gt_of_full g) gas2 mg avail cost) as L. rewrite E3 in L.
  destruct o1; [discriminate H|].
  destruct (callGas (gt_of_full g) avail gas3 cost) as [t|e|] eqn:Ec; try discriminate H.
  destruct (SafeAdd gas3 t) as [gas4 o2] eqn:E4. destruct o2; [discriminate H|].
  injection H as <- <- _.
  assert (Hx : 0 <= C_xfer value) by (unfold C_xfer; destruct (value =? 0); lia).
  specialize (L gas4 t ltac:(lia) Hmg eq_refl). lia.
Qed.

Theorem gasCallCode_charges_transfer : forall g value memLen last ms avail cost gas temp l',
  gt_ok g -> word value ->
  gasCallCode g value memLen last ms avail cost = Ok (gas, temp, l') ->
  gf_Calls g + C_xfer value + temp <= gas /\ 0 <= temp.
Proof.
  intros g value memLen last ms avail cost gas temp l' Hok Hv H.
  unfold gasCallCode in H. rewrite (sgn_zero_word value Hv) in H.
  pose proof two64_val as T. unfold gt_ok in Hok.
  destruct (memoryGasCost memLen last ms) as [[mg l1]|e|] eqn:Em; try discriminate H.
  pose proof (memoryGasCost_fee_nonneg _ _ _ _ _ Em) as Hmg.
  set (gas2 := if negb (value =? 0) then wrap64 (gf_Calls g + CallValueTransferGas) else gf_Calls g) in *.
  assert (H2 : gf_Calls g + C_xfer value <= gas2).
  { unfold gas2, C_xfer, CallValueTransferGas. destruct (value =? 0); cbn [negb]; [lia|]. rewrite wrap64_small by lia. lia. }
  destruct (SafeAdd gas2 mg) as [gas3 o1] eqn:E3.
  pose proof (call_tail_lb (gt_of_full g) gas2 mg avail cost) as L. rewrite E3 in L.
  destruct o1; [discriminate H|].
  destruct (callGas (gt_of_full g) avail gas3 cost) as [t|e|] eqn:Ec; try discriminate H.
  destruct (SafeAdd gas3 t) as [gas4 o2] eqn:E4. destruct o2; [discriminate H|].
  injection H as <- <- _.
  assert (Hx : 0 <= C_xfer value) by (unfold C_xfer; destruct (value =? 0); lia).
  specialize (L gas4 t ltac:(lia) Hmg eq_refl). lia.
Qed.

(* opCall / opCallCode hand the callee callGasTemp, plus CallStipend iff value <> 0; the callee returns at most what it was
   given (C07: a frame never ends with more gas than it started with).  Then the caller's gas after the instruction is at
   most its gas before, for every generated rule set, every operand, every callee outcome. *)
Definition stipend (value : Z) : Z := if value =? 0 then 0 else CallStipend.

Theorem call_stipend_never_mints_gas : forall r, In r gen_rulesets ->
  let g := gt_of_gen r in
  (forall value empty exist memLen last ms avail cost gas temp l' returned, word value -> 0 <= avail ->
     gasCall g (grs_eip158 r) value empty exist memLen last ms avail cost = Ok (gas, temp, l') ->
     gas <= avail -> 0 <= returned <= temp + stipend value ->
     avail - gas + returned <= avail /\ stipend value <= C_xfer value) /\
  (forall value memLen last ms avail cost gas temp l' returned, word value -> 0 <= avail ->
     gasCallCode g value memLen last ms avail cost = Ok (gas, temp, l') ->
     gas <= avail -> 0 <= returned <= temp + stipend value ->
     avail - gas + returned <= avail /\ stipend value <= C_xfer value).
Proof.
  intros r Hr g. destruct (ruleset_facts r Hr) as [Hok _]. fold g in Hok.
  assert (Hs : forall value, stipend value <= C_xfer value).
  { intro value. unfold stipend, C_xfer, CallStipend. destruct (value =? 0); lia. }
  split.
  - intros value empty exist memLen last ms avail cost gas temp l' returned Hv Ha H Hg Hr'.
    destruct (gasCall_charges_transfer _ _ _ _ _ _ _ _ _ _ _ _ _ Hok Hv H) as [L _].
    unfold gt_ok in Hok. specialize (Hs value). split; [lia|exact Hs].
  - intros value memLen last ms avail cost gas temp l' returned Hv Ha H Hg Hr'.
    destruct (gasCallCode_charges_transfer _ _ _ _ _ _ _ _ _ _ Hok Hv H) as [L _].
    unfold gt_ok in Hok. specialize (Hs value). split; [lia|exact Hs].
Qed.
