(* Properties/C14.v — A proof-of-work seal is accepted exactly when it meets the target.
   Only statements closed by `exact`, with Print Assumptions under each.  The hash primitives
   (keccak, the three argon2id variants, hashimoto) are universally quantified: nothing is assumed of them. *)
From AQ Require Import Lib.Bytes Rlp.RlpSpec Generated.GenParamsConsensus
  Consensus.HeaderModel Consensus.Seal Consensus.SealProofs Consensus.BlockModel Consensus.BlockProofs Consensus.SealerModel Consensus.SealerProofs.
Local Open Scope Z_scope.

(* VerifySeal accepts exactly when the number is inside the epoch table (number/30000 < 2048), the difficulty is
   positive, the mix digest is the expected one and the version's hash of (seal-free hash ++ le64 nonce), read as a
   big-endian number, is at most 2^256 / difficulty.  (Never a panic, never an error, in that case; and only then.) *)
Theorem C14_verify_seal_iff :
  forall (keccak argonA argonB argonC : bytes -> bytes) (hashimoto : Z -> bytes -> Z -> option (bytes * bytes)) (h : sheader),
    verify_seal keccak argonA argonB argonC hashimoto h = SOk tt <->
    big_uint64 (s_number h) / 30000 < 2048 /\
    s_diff h > 0 /\
    exists digest result,
      expected_pow keccak argonA argonB argonC hashimoto h = Some (digest, result) /\
      s_mix h = digest /\
      pow_value result <= 2 ^ 256 / s_diff h.
Proof. exact verify_seal_iff. Qed.
Print Assumptions C14_verify_seal_iff.

(* what "expected" means per version: argon2id with 1 KiB / 16 KiB / 32 KiB for versions 2 / 3 / 4 over the 40-byte
   seed, all-zero mix digest; ethash's (digest, result) for version 1; nothing for any other version *)
Theorem C14_expected_pow_argon :
  forall (keccak argonA argonB argonC : bytes -> bytes) (hashimoto : Z -> bytes -> Z -> option (bytes * bytes)) (h : sheader),
    2 <= s_version h <= 4 ->
    expected_pow keccak argonA argonB argonC hashimoto h =
      Some (zeros 32,
            (if s_version h =? 2 then argonA else if s_version h =? 3 then argonB else argonC)
              (seal_seed (hash_no_nonce keccak argonB h) (s_nonce h))).
Proof. exact expected_pow_argon. Qed.
Print Assumptions C14_expected_pow_argon.

Theorem C14_expected_pow_ethash :
  forall (keccak argonA argonB argonC : bytes -> bytes) (hashimoto : Z -> bytes -> Z -> option (bytes * bytes)) (h : sheader),
    s_version h = 1 ->
    expected_pow keccak argonA argonB argonC hashimoto h =
      hashimoto (big_uint64 (s_number h)) (keccak (rlp_no_nonce h)) (s_nonce h).
Proof. exact expected_pow_ethash. Qed.
Print Assumptions C14_expected_pow_ethash.

Theorem C14_no_algorithm_no_acceptance :
  forall (keccak argonA argonB argonC : bytes -> bytes) (hashimoto : Z -> bytes -> Z -> option (bytes * bytes)) (h : sheader),
    s_version h <= 0 \/ 5 <= s_version h ->
    expected_pow keccak argonA argonB argonC hashimoto h = None.
Proof. exact expected_pow_none. Qed.
Print Assumptions C14_no_algorithm_no_acceptance.

(* the version is a function of the height through the fork schedule alone: 4 from HF9, 3 from HF8, 2 from HF5, else 1 *)
Theorem C14_version_by_height :
  forall (c : cfg) (n : Z),
    block_version c n = if is_hf c 9 n then 4 else if is_hf c 8 n then 3 else if is_hf c 5 n then 2 else 1.
Proof. exact block_version_spec. Qed.
Print Assumptions C14_version_by_height.

Theorem C14_fork_active_iff :
  forall (c : cfg) (k n : Z), is_hf c k n = true <-> exists s, get_hf (hf c) k = Some s /\ s <= n.
Proof. exact is_hf_iff. Qed.
Print Assumptions C14_fork_active_iff.

Theorem C14_version_monotone : forall (c : cfg) (n m : Z), n <= m -> block_version c n <= block_version c m.
Proof. exact block_version_mono. Qed.
Print Assumptions C14_version_monotone.

(* for every built-in configuration (generated from params/config.go), at the heights around each of its forks,
   the model's version and fork predicates are what the Go code computed when the table was generated *)
Theorem C14_version_boundaries_of_builtin_configs :
  forall i h v bits, In (i, h, v, bits) version_probes -> block_version (nth_cfg i) h = v.
Proof. exact version_probe_sound. Qed.
Print Assumptions C14_version_boundaries_of_builtin_configs.

(* block / header hashes are computed with the version's algorithm over the RLP of the header *)
Theorem C14_hash_uses_version :
  forall (keccak argonA argonB argonC : bytes -> bytes) (h : sheader),
    header_hash keccak argonA argonB argonC h =
      if s_version h =? 1 then SOk (keccak (rlp_full h))
      else if s_version h =? 2 then SOk (argonA (rlp_full h))
      else if s_version h =? 3 then SOk (argonB (rlp_full h))
      else if s_version h =? 4 then SOk (argonC (rlp_full h))
      else SPanic.
Proof. exact header_hash_by_version. Qed.
Print Assumptions C14_hash_uses_version.

(* every seal the miner's nonce search returns passes VerifySeal, for every start nonce and search length,
   when the header it was given carries version 3 exactly if its height's version is 3 (the miner's worker
   sets header.Version = GetBlockVersion(number) before sealing) *)
Theorem C14_mined_seal_verifies :
  forall (keccak argonA argonB argonC : bytes -> bytes) (hashimoto : Z -> bytes -> Z -> option (bytes * bytes))
         (fuel : nat) (v : Z) (h : sheader) (seed : Z) (h' : sheader),
    mine keccak argonA argonB argonC hashimoto fuel v h seed = SOk (Some h') ->
    (s_version h = 3 <-> v = 3) ->
    big_uint64 (s_number h) / 30000 < 2048 ->
    s_diff h > 0 ->
    verify_seal keccak argonA argonB argonC hashimoto h' = SOk tt /\ s_version h' = v /\ 1 <= v <= 4.
Proof. exact mined_seal_verifies. Qed.
Print Assumptions C14_mined_seal_verifies.

(* The clause "every seal the miner returns passes" WITHOUT the version precondition:
     forall ... , mine ... fuel v h seed = SOk (Some h') -> number in range -> s_diff h > 0 -> verify_seal ... h' = SOk tt
   is false of the code: sealer.go `mine` takes header.HashNoNonce() before it sets header.Version. *)
Theorem C14_mined_seal_without_version_refuted :
  exists keccak argonA argonB argonC hashimoto h h',
    mine keccak argonA argonB argonC hashimoto 1 3 h 0 = SOk (Some h') /\
    big_uint64 (s_number h) / 30000 < 2048 /\ s_diff h > 0 /\
    verify_seal keccak argonA argonB argonC hashimoto h' = SErr SPoW.
Proof. exact mine_without_version_refuted. Qed.
Print Assumptions C14_mined_seal_without_version_refuted.

(* several search threads (sealer.go Seal): N goroutines with arbitrary start nonces (disjoint or overlapping streams) run the
   nonce search, share `abort`, and offer their first solution on the unbuffered `found`; the caller may stop at any time.
   For EVERY interleaving (arbitrary list of (thread, step) and stop events — no assumption on the scheduler): whatever
   Seal returns passes VerifySeal under the block's own version; at most one value is ever received from `found`; a value
   was received iff there is a result; and then abort is closed.  Premises as for one thread. *)
Theorem C14_sealer_threads_result_verifies :
  forall (keccak argonA argonB argonC : bytes -> bytes) (hashimoto : Z -> bytes -> Z -> option (bytes * bytes))
         (v : Z) (h : sheader),
    (s_version h = 3 <-> v = 3) ->
    big_uint64 (s_number h) / 30000 < 2048 ->
    s_diff h > 0 ->
    forall (starts : list Z) (es : list sevent) (s : sealer),
      seal_threads keccak argonA argonB argonC hashimoto v h starts es = SOk s ->
      (forall h', sl_result s = Some h' ->
                  verify_seal keccak argonA argonB argonC hashimoto h' = SOk tt /\ s_version h' = v) /\
      (sl_delivered s <= 1)%nat /\
      (sl_delivered s = 1%nat <-> sl_result s <> None) /\
      (sl_result s <> None -> sl_abort s = true).
Proof. exact sealer_result_verifies. Qed.
Print Assumptions C14_sealer_threads_result_verifies.

(* Block objects memoise their hash and size (core/types/block.go).  Cache coherence along EVERY sequence of the
   operations Hash / Size / Header / SetVersion / SetVersionConfig / WithSeal / WithBody on a freshly constructed block
   (SetVersionConfig only where it cannot change the version under a memoised hash: see the refuted clause below):
   Hash() then shows the version-selected hash of the block's CURRENT header (panicking exactly when that header has no
   hash), Size() the length of its CURRENT encoding *)
Theorem C14_block_hash_is_of_current_header :
  forall (keccak argonA argonB argonC : bytes -> bytes) (h0 : sheader) (t0 u0 : bytes) (ops : list bop) (b : mblock) (obs : list bobs),
    block_run keccak argonA argonB argonC (new_block h0 t0 u0) ops = SOk (b, obs) ->
    run_safe keccak argonA argonB argonC (new_block h0 t0 u0) ops = true ->
    match block_op keccak argonA argonB argonC b BHash with
    | SOk (b', ob) => exists x, ob = ObsHash x /\ header_hash keccak argonA argonB argonC (mb_header b) = SOk x /\ mb_header b' = mb_header b
    | SErr _ => False
    | SPanic => header_hash keccak argonA argonB argonC (mb_header b) = SPanic
    end /\
    exists b', block_op keccak argonA argonB argonC b BSize = SOk (b', ObsSize (lenN (block_rlp b))) /\ mb_header b' = mb_header b.
Proof. exact block_hash_is_of_current_header. Qed.
Print Assumptions C14_block_hash_is_of_current_header.

(* the block WithSeal returns carries the given header and no memoised value of the block it was made from *)
Theorem C14_sealed_block_is_fresh :
  forall (keccak argonA argonB argonC : bytes -> bytes) (b : mblock) (h : sheader) (b' : mblock) (ob : bobs),
    block_op keccak argonA argonB argonC b (BWithSeal h) = SOk (b', ob) ->
    mb_hash b' = None /\ mb_size b' = None /\ mb_header b' = h.
Proof. exact with_seal_fresh. Qed.
Print Assumptions C14_sealed_block_is_fresh.

(* without the side condition: SetVersionConfig writes the version and leaves a hash memoised under another version
   (no caller in /repo does this: it is only applied to blocks that already carry the version of their height) *)
Theorem C14_set_version_config_stale_refuted :
  exists keccak argonA argonB argonC ops b obs x,
    block_run keccak argonA argonB argonC (new_block toy_block_header [xc0] [xc0]) ops = SOk (b, obs) /\
    block_op keccak argonA argonB argonC b BHash = SOk (b, ObsHash x) /\
    header_hash keccak argonA argonB argonC (mb_header b) <> SOk x.
Proof. exact set_version_config_stale_refuted. Qed.
Print Assumptions C14_set_version_config_stale_refuted.

(* non-vacuity: a concrete version-2 header (toy hash functions) that is accepted at difficulty 1 and 2^255 but
   rejected at a difficulty one above the quotient; and the generated testnet2 schedule switches 2 -> 3 -> 4 *)
Example C14_example :
  let keccak := fun _ : bytes => repeat x11 32 in
  let argon := fun _ : bytes => x00 :: x02 :: zeros 30 in    (* result = 2^241 *)
  let hm := fun (_ : Z) (_ : bytes) (_ : Z) => @None (bytes * bytes) in
  let h d := {| s_parent := zeros 32; s_uncle := zeros 32; s_coinbase := zeros 20; s_root := zeros 32; s_txhash := zeros 32;
                s_rcpt := zeros 32; s_bloom := zeros 256; s_diff := d; s_number := 22800; s_gas_limit := 4712388;
                s_gas_used := 21000; s_time := 1530000000; s_extra := [x61]; s_mix := zeros 32; s_nonce := 77; s_version := 2 |} in
  verify_seal keccak argon argon argon hm (h 1) = SOk tt /\
  verify_seal keccak argon argon argon hm (h (2 ^ 15)) = SOk tt /\
  verify_seal keccak argon argon argon hm (h (2 ^ 15 + 1)) = SErr SPoW /\
  verify_seal keccak argon argon argon hm (h 0) = SErr SInvalidDifficulty /\
  map (block_version {| chain_id := testnet2_chain_id; hf := testnet2_hf |}) [7; 8; 18; 19] = [2; 3; 3; 4] /\
  map (block_version {| chain_id := mainnet_chain_id; hf := mainnet_hf |}) [22799; 22800] = [1; 2].
Proof. exact seal_example. Qed.

Example C14_block_ops_example :
  let keccak := fun b : bytes => [x01; n2b (lenN b)] in
  let argon := fun b : bytes => [x02; n2b (lenN b)] in
  let h1 := with_version toy_block_header 2 in
  match block_run keccak argon argon argon (new_block toy_block_header [xc0] [xc0])
                  [BHash; BSize; BWithSeal h1; BHash; BWithBody [xc0] [xc1; x80]; BSize; BHash; BSetVersion 1; BHash] with
  | SOk (b, obs) =>
    obs = [ObsHash [x01; n2b 500]; ObsSize 505; ObsNone; ObsHash [x02; n2b 500]; ObsNone; ObsSize 506; ObsHash [x02; n2b 500];
           ObsHash [x01; n2b 500]; ObsHash [x01; n2b 500]] /\ s_version (mb_header b) = 1
  | _ => False
  end.
Proof. exact block_ops_example. Qed.

Example C14_sealer_example :
  let run := seal_threads toy_pow_keccak toy_pow_argon toy_pow_argon toy_pow_argon (fun _ _ _ => None) 2 toy_work [0; 2; 5] in
  match run [EStep 1; EStep 0; EStep 1; EStep 1; EStep 0; EStep 0; EStep 0; EStep 0; EStep 2] with
  | SOk s => option_map s_nonce (sl_result s) = Some 3 /\ sl_delivered s = 1%nat /\ sl_abort s = true /\
             sl_threads s = [TDone; TDone; TDone]
  | _ => False
  end /\
  match run [EStep 2; EStep 2; EStep 2; EStep 2] with
  | SOk s => option_map s_nonce (sl_result s) = Some 7 /\ sl_delivered s = 1%nat
  | _ => False
  end /\
  match run [EStep 0; EStop; EStep 0; EStep 1; EStep 2] with
  | SOk s => sl_result s = None /\ sl_delivered s = 0%nat /\ sl_threads s = [TDone; TDone; TDone]
  | _ => False
  end.
Proof. exact sealer_example. Qed.
