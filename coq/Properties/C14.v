(* Properties/C14.v — A proof-of-work seal is accepted exactly when it meets the target.
   Only statements closed by `exact`, with Print Assumptions under each.  The hash primitives
   (keccak, the three argon2id variants, hashimoto) are universally quantified: nothing is assumed of them. *)
From AQ Require Import Lib.Bytes Rlp.RlpSpec Generated.GenParamsConsensus
  Consensus.HeaderModel Consensus.Seal Consensus.SealProofs.
Local Open Scope Z_scope.

(* VerifySeal accepts exactly when the number is inside the epoch table (number/30000 < 2048), the difficulty is
   positive, the mix digest is the expected one and the version's hash of (seal-free hash ++ le64 nonce), read as a
   big-endian number, is at most 2^256 / difficulty.  (Never a panic, never an error, in that case; and only then.) *)
Theorem C14_verify_seal_iff :
  forall (keccak argonA argonB argonC : bytes -> bytes) (hashimoto : Z -> bytes -> Z -> option (bytes * bytes)) (h : sheader),
    verify_seal keccak argonA argonB argonC hashimoto h = SOk tt <->
    big_uint64 (s_number h) / 30000 < 2048 /\
    s_diff h > 0 /\
    exists digest result,
      expected_pow keccak argonA argonB argonC hashimoto h = Some (digest, result) /\
      s_mix h = digest /\
      pow_value result <= 2 ^ 256 / s_diff h.
Proof. exact verify_seal_iff. Qed.
Print Assumptions C14_verify_seal_iff.

(* what "expected" means per version: argon2id with 1 KiB / 16 KiB / 32 KiB for versions 2 / 3 / 4 over the 40-byte
   seed, all-zero mix digest; ethash's (digest, result) for version 1; nothing for any other version *)
Theorem C14_expected_pow_argon :
  forall (keccak argonA argonB argonC : bytes -> bytes) (hashimoto : Z -> bytes -> Z -> option (bytes * bytes)) (h : sheader),
    2 <= s_version h <= 4 ->
    expected_pow keccak argonA argonB argonC hashimoto h =
      Some (zeros 32,
            (if s_version h =? 2 then argonA else if s_version h =? 3 then argonB else argonC)
              (seal_seed (hash_no_nonce keccak argonB h) (s_nonce h))).
Proof. exact expected_pow_argon. Qed.
Print Assumptions C14_expected_pow_argon.

Theorem C14_expected_pow_ethash :
  forall (keccak argonA argonB argonC : bytes -> bytes) (hashimoto : Z -> bytes -> Z -> option (bytes * bytes)) (h : sheader),
    s_version h = 1 ->
    expected_pow keccak argonA argonB argonC hashimoto h =
      hashimoto (big_uint64 (s_number h)) (keccak (rlp_no_nonce h)) (s_nonce h).
Proof. exact expected_pow_ethash. Qed.
Print Assumptions C14_expected_pow_ethash.

Theorem C14_no_algorithm_no_acceptance :
  forall (keccak argonA argonB argonC : bytes -> bytes) (hashimoto : Z -> bytes -> Z -> option (bytes * bytes)) (h : sheader),
    s_version h <= 0 \/ 5 <= s_version h ->
    expected_pow keccak argonA argonB argonC hashimoto h = None.
Proof. exact expected_pow_none. Qed.
Print Assumptions C14_no_algorithm_no_acceptance.

(* the version is a function of the height through the fork schedule alone: 4 from HF9, 3 from HF8, 2 from HF5, else 1 *)
Theorem C14_version_by_height :
  forall (c : cfg) (n : Z),
    block_version c n = if is_hf c 9 n then 4 else if is_hf c 8 n then 3 else if is_hf c 5 n then 2 else 1.
Proof. exact block_version_spec. Qed.
Print Assumptions C14_version_by_height.

Theorem C14_fork_active_iff :
  forall (c : cfg) (k n : Z), is_hf c k n = true <-> exists s, get_hf (hf c) k = Some s /\ s <= n.
Proof. exact is_hf_iff. Qed.
Print Assumptions C14_fork_active_iff.

Theorem C14_version_monotone : forall (c : cfg) (n m : Z), n <= m -> block_version c n <= block_version c m.
Proof. exact block_version_mono. Qed.
Print Assumptions C14_version_monotone.

(* for every built-in configuration (generated from params/config.go), at the heights around each of its forks,
   the model's version and fork predicates are what the Go code computed when the table was generated *)
Theorem C14_version_boundaries_of_builtin_configs :
  forall i h v bits, In (i, h, v, bits) version_probes -> block_version (nth_cfg i) h = v.
Proof. exact version_probe_sound. Qed.
Print Assumptions C14_version_boundaries_of_builtin_configs.

(* block / header hashes are computed with the version's algorithm over the RLP of the header *)
Theorem C14_hash_uses_version :
  forall (keccak argonA argonB argonC : bytes -> bytes) (h : sheader),
    header_hash keccak argonA argonB argonC h =
      if s_version h =? 1 then SOk (keccak (rlp_full h))
      else if s_version h =? 2 then SOk (argonA (rlp_full h))
      else if s_version h =? 3 then SOk (argonB (rlp_full h))
      else if s_version h =? 4 then SOk (argonC (rlp_full h))
      else SPanic.
Proof. exact header_hash_by_version. Qed.
Print Assumptions C14_hash_uses_version.

(* every seal the miner's nonce search returns passes VerifySeal, for every start nonce and search length,
   when the header it was given carries version 3 exactly if its height's version is 3 (the miner's worker
   sets header.Version = GetBlockVersion(number) before sealing) *)
Theorem C14_mined_seal_verifies :
  forall (keccak argonA argonB argonC : bytes -> bytes) (hashimoto : Z -> bytes -> Z -> option (bytes * bytes))
         (fuel : nat) (v : Z) (h : sheader) (seed : Z) (h' : sheader),
    mine keccak argonA argonB argonC hashimoto fuel v h seed = SOk (Some h') ->
    (s_version h = 3 <-> v = 3) ->
    big_uint64 (s_number h) / 30000 < 2048 ->
    s_diff h > 0 ->
    verify_seal keccak argonA argonB argonC hashimoto h' = SOk tt /\ s_version h' = v /\ 1 <= v <= 4.
Proof. exact mined_seal_verifies. Qed.
Print Assumptions C14_mined_seal_verifies.

(* The clause "every seal the miner returns passes" WITHOUT the version precondition:
     forall ... , mine ... fuel v h seed = SOk (Some h') -> number in range -> s_diff h > 0 -> verify_seal ... h' = SOk tt
   is false of the code: sealer.go `mine` takes header.HashNoNonce() before it sets header.Version. *)
Theorem C14_mined_seal_without_version_refuted :
  exists keccak argonA argonB argonC hashimoto h h',
    mine keccak argonA argonB argonC hashimoto 1 3 h 0 = SOk (Some h') /\
    big_uint64 (s_number h) / 30000 < 2048 /\ s_diff h > 0 /\
    verify_seal keccak argonA argonB argonC hashimoto h' = SErr SPoW.
Proof. exact mine_without_version_refuted. Qed.
Print Assumptions C14_mined_seal_without_version_refuted.

(* non-vacuity: a concrete version-2 header (toy hash functions) that is accepted at difficulty 1 and 2^255 but
   rejected at a difficulty one above the quotient; and the generated testnet2 schedule switches 2 -> 3 -> 4 *)
Example C14_example :
  let keccak := fun _ : bytes => repeat x11 32 in
  let argon := fun _ : bytes => x00 :: x02 :: zeros 30 in    (* result = 2^241 *)
  let hm := fun (_ : Z) (_ : bytes) (_ : Z) => @None (bytes * bytes) in
  let h d := {| s_parent := zeros 32; s_uncle := zeros 32; s_coinbase := zeros 20; s_root := zeros 32; s_txhash := zeros 32;
                s_rcpt := zeros 32; s_bloom := zeros 256; s_diff := d; s_number := 22800; s_gas_limit := 4712388;
                s_gas_used := 21000; s_time := 1530000000; s_extra := [x61]; s_mix := zeros 32; s_nonce := 77; s_version := 2 |} in
  verify_seal keccak argon argon argon hm (h 1) = SOk tt /\
  verify_seal keccak argon argon argon hm (h (2 ^ 15)) = SOk tt /\
  verify_seal keccak argon argon argon hm (h (2 ^ 15 + 1)) = SErr SPoW /\
  verify_seal keccak argon argon argon hm (h 0) = SErr SInvalidDifficulty /\
  map (block_version {| chain_id := testnet2_chain_id; hf := testnet2_hf |}) [7; 8; 18; 19] = [2; 3; 3; 4] /\
  map (block_version {| chain_id := mainnet_chain_id; hf := mainnet_hf |}) [22799; 22800] = [1; 2].
Proof. exact seal_example. Qed.
