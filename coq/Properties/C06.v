(* Properties/C06.v — Every included transaction is charged, nonced and rolled back exactly.
   Only statements closed by `exact`, with Print Assumptions under each.
   The model is Tx/Transition.v (core/state_transition.go, state_processor.go, gaspool.go,
   the depth-0 shells of evm.Call / evm.Create); the EVM interpreter is the parameter
   `run`, constrained only by the premises written in each statement. *)
From AQ Require Import Lib.Bytes Tx.Transition Tx.Supply Tx.TxProofs Tx.SupplyProofs Generated.GenParamsTx.
From AQ Require Evm.Interp Evm.InterpProofs Tx.Compose Tx.InterpNonce Tx.ComposeNonce.
Import ListNotations.
Local Open Scope N_scope.

(* 1. phases: nonce check, limit*price debited up front, execution, (limit-used)*price returned,
      used*price credited to the coinbase, suicided accounts deleted; pool debited by used *)
Theorem C06_tx_phases : forall cfg num coinbase run idx s pool cum m r,
  gas_bounded run -> m_gas m < two64 ->
  apply_transaction cfg num coinbase run idx s pool cum m = TxOk r ->
  exists e,
    (m_check_nonce m = true -> nonce (get (m_from m) s) = m_nonce m) /\
    (Z.of_N (m_gas m * m_price m) <= bal (get (m_from m) s))%Z /\ m_gas m <= pool /\
    exec_phase cfg num run idx (sub_balance (m_from m) (Z.of_N (m_gas m * m_price m)) s) m
               (m_gas m - t_intrinsic (x_tdb r)) = ExecDone e /\
    t_used (x_tdb r) <= m_gas m /\
    x_state r = finalise (er_suicided e)
                  (add_balance coinbase (Z.of_N (t_used (x_tdb r) * m_price m))
                     (add_balance (m_from m) (Z.of_N ((m_gas m - t_used (x_tdb r)) * m_price m)) (er_state e))) /\
    x_pool r = pool - t_used (x_tdb r).
Proof. exact tx_phases. Qed.
Print Assumptions C06_tx_phases.

(* nonce' sender = nonce sender + 1 (below the uint64 maximum; see C06_nonce_wraps_at_max_refuted) *)
Theorem C06_tx_nonce : forall cfg num coinbase run idx s pool cum m r,
  gas_bounded run -> m_gas m < two64 ->
  apply_transaction cfg num coinbase run idx s pool cum m = TxOk r ->
  nonce (get (m_from m) s) < max_u64 ->
  (forall ri st, nonce (get (ri_caller ri) (ro_state (run ri st))) = nonce (get (ri_caller ri) st)) ->
  (forall ri st, ~ In (ri_caller ri) (ro_suicided (run ri st))) ->
  (m_to m = None -> create_address (m_from m) (nonce (get (m_from m) s)) <> m_from m) ->
  nonce (get (m_from m) (x_state r)) = nonce (get (m_from m) s) + 1.
Proof. exact tx_nonce. Qed.
Print Assumptions C06_tx_nonce.

(* full statement "increments its sender's nonce by exactly one" for ALL nonces is false of the code:
   SetNonce(GetNonce()+1) wraps at 2^64-1 *)
Theorem C06_nonce_wraps_at_max_refuted :
  exists cfg num coinbase run s pool m r,
    gas_bounded run /\ apply_transaction cfg num coinbase run 0 s pool 0 m = TxOk r /\
    nonce (get (m_from m) s) = max_u64 /\ nonce (get (m_from m) (x_state r)) = 0.
Proof. exact nonce_wraps_at_max_refuted. Qed.
Print Assumptions C06_nonce_wraps_at_max_refuted.

(* 2. the balance equation *)
Theorem C06_tx_balance_equation : forall cfg num coinbase run idx s pool cum m r,
  gas_bounded run -> m_gas m < two64 ->
  apply_transaction cfg num coinbase run idx s pool cum m = TxOk r ->
  is_forked (c_homestead cfg) num = true ->
  m_from m <> coinbase -> m_from m <> recipient m s ->
  (forall ri st a, a = m_from m \/ a = coinbase -> bal (get a (ro_state (run ri st))) = bal (get a st)) ->
  (forall ri st a, a = m_from m \/ a = coinbase -> ~ In a (ro_suicided (run ri st))) ->
  bal (get (m_from m) (x_state r)) =
    (bal (get (m_from m) s) - Z.of_N (t_used (x_tdb r) * m_price m)
     - (if t_failed (x_tdb r) then 0 else Z.of_N (m_value m)))%Z /\
  (coinbase <> recipient m s ->
   bal (get coinbase (x_state r)) = (bal (get coinbase s) + Z.of_N (t_used (x_tdb r) * m_price m))%Z).
Proof. exact tx_balance_equation. Qed.
Print Assumptions C06_tx_balance_equation.

(* 3. gas accounting, per transaction ("intrinsic gas <= gasUsed" read as consumption before the refund) *)
Theorem C06_gas_accounting_tx : forall cfg num coinbase run idx s pool cum m r,
  gas_bounded run -> m_gas m < two64 ->
  apply_transaction cfg num coinbase run idx s pool cum m = TxOk r ->
  let consumed := m_gas m - t_gas_left (x_tdb r) in
  t_intrinsic (x_tdb r) = intrinsic_spec (m_data m) (is_creation m) (is_forked (c_homestead cfg) num) /\
  t_intrinsic (x_tdb r) <= consumed /\ consumed <= m_gas m /\
  t_refund (x_tdb r) <= consumed / 2 /\ t_used (x_tdb r) = consumed - t_refund (x_tdb r) /\
  t_used (x_tdb r) <= m_gas m /\
  r_gas_used (x_receipt r) = t_used (x_tdb r) /\
  r_cumulative (x_receipt r) = add64 cum (t_used (x_tdb r)) /\ x_cumulative r = add64 cum (t_used (x_tdb r)) /\
  x_pool r + t_used (x_tdb r) = pool.
Proof. exact gas_accounting_tx. Qed.
Print Assumptions C06_gas_accounting_tx.

(* the literal reading (gasUsed after the refund) is false for storage-clearing transactions;
   that is specification behaviour of every EVM chain, recorded here, not reported as a defect *)
Theorem C06_literal_intrinsic_le_used_refuted :
  exists cfg num coinbase run s pool m r,
    gas_bounded run /\ apply_transaction cfg num coinbase run 0 s pool 0 m = TxOk r /\
    t_used (x_tdb r) < t_intrinsic (x_tdb r).
Proof. exact literal_intrinsic_le_used_refuted. Qed.
Print Assumptions C06_literal_intrinsic_le_used_refuted.

(* ... and per block: cumulative gas = sum over the receipts, never above the block gas limit *)
Theorem C06_gas_accounting_block : forall cfg dealloc run s h txs uncles s' rs used,
  gas_bounded run ->
  Forall (fun m => m_gas m < two64) txs -> h_gas_limit h < two64 ->
  process cfg dealloc run s h txs uncles = BlockOk s' rs used ->
  used = sum_gas_used rs /\ cumulative_ok 0 rs /\ used <= h_gas_limit h.
Proof. exact gas_accounting_block. Qed.
Print Assumptions C06_gas_accounting_block.

(* 4. a failed execution leaves only the fee and the nonce *)
Theorem C06_failed_tx_leaves_only_fees : forall cfg num coinbase run idx s pool cum m r,
  gas_bounded run -> m_gas m < two64 ->
  apply_transaction cfg num coinbase run idx s pool cum m = TxOk r ->
  is_forked (c_homestead cfg) num = true ->
  t_failed (x_tdb r) = true ->
  r_logs (x_receipt r) = 0 /\
  (forall a, a <> m_from m -> a <> coinbase -> get a (x_state r) = get a s) /\
  (forall a, code (get a (x_state r)) = code (get a s) /\ stor (get a (x_state r)) = stor (get a s)) /\
  (coinbase <> m_from m -> nonce (get coinbase (x_state r)) = nonce (get coinbase s)) /\
  nonce (get (m_from m) (x_state r)) = add64 (nonce (get (m_from m) s)) 1 /\
  (coinbase <> m_from m ->
   bal (get (m_from m) (x_state r)) = (bal (get (m_from m) s) - Z.of_N (t_used (x_tdb r) * m_price m))%Z /\
   bal (get coinbase (x_state r)) = (bal (get coinbase s) + Z.of_N (t_used (x_tdb r) * m_price m))%Z).
Proof. exact failed_tx_leaves_only_fees. Qed.
Print Assumptions C06_failed_tx_leaves_only_fees.

(* every built-in configuration is Homestead from genesis (premise of 2 and 4), from the generated table *)
Theorem C06_builtin_homestead : forall id cfg num, builtin_cfg id = Some cfg -> is_forked (c_homestead cfg) num = true.
Proof. exact builtin_homestead. Qed.
Print Assumptions C06_builtin_homestead.

(* 5. wrong nonce / cannot prepay limit*price / cannot pay the value after that / limit below intrinsic /
      limit above the gas left in the block: the transaction is rejected ... *)
Theorem C06_invalid_tx_rejected : forall cfg num coinbase run idx s pool cum m,
  (m_check_nonce m = true /\ nonce (get (m_from m) s) <> m_nonce m) \/
  (bal (get (m_from m) s) < Z.of_N (m_gas m * m_price m))%Z \/
  (bal (get (m_from m) s) - Z.of_N (m_gas m * m_price m) < Z.of_N (m_value m))%Z \/
  m_gas m < intrinsic_spec (m_data m) (is_creation m) (is_forked (c_homestead cfg) num) \/
  pool < m_gas m ->
  forall r, apply_transaction cfg num coinbase run idx s pool cum m <> TxOk r.
Proof. exact invalid_tx_rejected. Qed.
Print Assumptions C06_invalid_tx_rejected.

(* ... and the whole block is invalid: in a valid block no transaction is invalid in the state it meets *)
Theorem C06_invalid_tx_invalidates_block : forall cfg dealloc run s h txs1 m txs2 uncles,
  h_gas_limit h < two64 ->
  block_valid cfg dealloc run s h (txs1 ++ m :: txs2) uncles = true ->
  exists i si pi ci,
    after_txs cfg (h_number h) (h_coinbase h) run 0 (block_start cfg dealloc h s) (h_gas_limit h) 0 txs1 = Some (i, si, pi, ci) /\
    ~ tx_invalid cfg (h_number h) si pi m.
Proof. exact invalid_tx_invalidates_block. Qed.
Print Assumptions C06_invalid_tx_invalidates_block.

(* 6. receipt format *)
Theorem C06_receipt_format : forall cfg num coinbase run idx s pool cum m r,
  apply_transaction cfg num coinbase run idx s pool cum m = TxOk r ->
  r_post (x_receipt r) = (if is_forked (c_byzantium cfg) num then PostStatus (negb (t_failed (x_tdb r))) else PostRoot) /\
  r_status_ok (x_receipt r) = negb (t_failed (x_tdb r)).
Proof. exact receipt_format. Qed.
Print Assumptions C06_receipt_format.

(* 7. account existence (EIP-161), on the existence layer of the model (apply_transaction_e): where empty
      accounts are deleted, no account that the transaction dirtied is left empty, and no suicided one is left *)
Theorem C06_eip161_no_empty_dirty_account_survives : forall cfg num coinbase run erun idx s pool cum m es r a,
  apply_transaction cfg num coinbase run idx s pool cum m = TxOk r ->
  (is_forked (c_byzantium cfg) num = true \/ is_forked (c_eip158 cfg) num = true) ->
  let es' := apply_transaction_e cfg num coinbase run erun idx s pool cum m es in
  In a (es_exist es') -> In a (es_dirty es') ->
  ~ In a (t_suicided (x_tdb r)) /\ is_empty_acc (get a (t_state (x_tdb r))) = false.
Proof. exact eip161_no_empty_dirty_account_survives. Qed.
Print Assumptions C06_eip161_no_empty_dirty_account_survives.

(* the EIP-158/161 deletion rule of StateDB.Finalise over the model: an account exists afterwards iff it existed and
   either was not touched, or is neither flagged suicided nor (where empty accounts are deleted) empty *)
Theorem C06_finalise_deletion_rule : forall de su sF es a,
  In a (es_exist (finalise_e de su sF es)) <->
  In a (es_exist es) /\
  (~ In a (es_dirty es) \/ (~ In a su /\ (de = true -> is_empty_acc (get a sF) = false))).
Proof. exact finalise_e_iff. Qed.
Print Assumptions C06_finalise_deletion_rule.

(* what a touch is: AddBalance of a non-zero amount, of zero to an empty account (zero-value call or transfer, zero
   SELFDESTRUCT payout, zero fee), or to a missing account *)
Theorem C06_add_balance_touches : forall a x s es,
  (x <> 0%Z \/ is_empty_acc (get a s) = true \/ ~ In a (es_exist es)) -> In a (es_dirty (es_add_balance a x s es)).
Proof. exact es_add_balance_touch. Qed.
Print Assumptions C06_add_balance_touches.

(* a coinbase that is empty after the transaction (zero fee) does not exist afterwards, also when it existed empty before *)
Theorem C06_empty_coinbase_deleted : forall cfg num coinbase run erun idx s pool cum m es r,
  apply_transaction cfg num coinbase run idx s pool cum m = TxOk r ->
  (is_forked (c_byzantium cfg) num = true \/ is_forked (c_eip158 cfg) num = true) ->
  is_empty_acc (get coinbase (t_state (x_tdb r))) = true ->
  ~ In coinbase (es_exist (apply_transaction_e cfg num coinbase run erun idx s pool cum m es)).
Proof. exact empty_coinbase_deleted. Qed.
Print Assumptions C06_empty_coinbase_deleted.

(* directed touch cases on the model (the same cases run against the implementation on every seed): after EIP-158
   a zero-value transfer to an existing empty account deletes it; a FAILED zero-value call leaves an existing empty
   precompile alone (the touch is reverted) — except the RIPEMD-160 precompile 0x03, whose reverted touch is kept
   (journal.go) and which is therefore deleted *)
Example C06_touch_cases :
  let s := [(10, mkAcc 1000000%Z 0 0 0); (11, empty_acc); (3, empty_acc); (4, empty_acc)] in
  let es := mkES [10; 11; 3; 4] [] in
  let call to := mkMsg 10 (Some to) 0 0 30000 0 [] true in
  let after run to := es_exist (apply_transaction_e all_forks 1 12 run no_erun 0 s 8000000 0 (call to) es) in
  after (simple_run 0 0) 11 = [10; 3; 4] /\
  after failing_run 4 = [10; 11; 3; 4] /\
  after failing_run 3 = [10; 11; 4].
Proof. vm_compute. repeat split; reflexivity. Qed.

(* Clause 4 at full strength would also say that a failed execution changes the EXISTENCE of no account
   other than through the fee (forall a, a <> sender -> a <> coinbase -> In a (es_exist es') <-> In a (es_exist es)).
   That is false of the code in two ways; C06_failed_tx_leaves_only_fees above is the proved remainder (content). *)
Theorem C06_failed_tx_deletes_empty_recipient_refuted :
  exists cfg num coinbase s pool m es r,
    apply_transaction cfg num coinbase failing_run 0 s pool 0 m = TxOk r /\ t_failed (x_tdb r) = true /\
    m_to m = Some 4 /\ In 4 (es_exist es) /\
    ~ In 4 (es_exist (apply_transaction_e cfg num coinbase failing_run no_erun 0 s pool 0 m es)).
Proof. exact failed_tx_deletes_empty_recipient_refuted. Qed.
Print Assumptions C06_failed_tx_deletes_empty_recipient_refuted.

Theorem C06_failed_tx_creates_empty_recipient_refuted :
  exists cfg num coinbase s pool m es r,
    apply_transaction cfg num coinbase failing_run 0 s pool 0 m = TxOk r /\ t_failed (x_tdb r) = true /\
    m_to m = Some 2 /\ ~ In 2 (es_exist es) /\
    In 2 (es_exist (apply_transaction_e cfg num coinbase failing_run no_erun 0 s pool 0 m es)).
Proof. exact failed_tx_creates_empty_recipient_refuted. Qed.
Print Assumptions C06_failed_tx_creates_empty_recipient_refuted.

(* Without Homestead (no built-in configuration: C06_builtin_homestead) clauses 2 and 4 fail: a creation whose
   code deposit runs out of gas is reported failed, yet the value stays with the new account (Frontier rule) *)
Theorem C06_frontier_code_store_oog_refuted :
  exists cfg num coinbase s pool m r,
    is_forked (c_homestead cfg) num = false /\
    apply_transaction cfg num coinbase csoog_run 0 s pool 0 m = TxOk r /\ t_failed (x_tdb r) = true /\
    m_to m = None /\
    bal (get (m_from m) (x_state r)) = (bal (get (m_from m) s) - Z.of_N (t_used (x_tdb r) * m_price m) - Z.of_N (m_value m))%Z /\
    bal (get (recipient m s) (x_state r)) = Z.of_N (m_value m) /\ m_value m = 5.
Proof. exact frontier_code_store_oog_refuted. Qed.
Print Assumptions C06_frontier_code_store_oog_refuted.

(* 8. The same with the interpreter premise discharged: `run` is Compose.interp_runner, i.e. the callee is executed
      by the C07 model of the EVM (AQ.Evm.Interp: instruction set, jump tables, gas, nested calls, reverts, precompiles)
      on the concrete world behind the state.  The only premise left about the EVM is that its environment is well
      formed (a compiled jump table and sane gas-table entries: InterpProofs.wf_env, proved for every env_of).
      Scope: message calls — for a creation request the runner is a failing stub (see Tx/Compose.v), so these say
      nothing new about contract-creation transactions; hence `_partial`. *)
Theorem C06_evm_gas_bounded : forall fuel e code_of stor_of dg sg,
  InterpProofs.wf_env e -> gas_bounded (Compose.interp_runner fuel e code_of stor_of dg sg).
Proof. exact Compose.interp_runner_gas_bounded. Qed.
Print Assumptions C06_evm_gas_bounded.

Theorem C06_tx_phases_evm_partial : forall fuel e code_of stor_of dg sg,
  InterpProofs.wf_env e ->
  forall cfg num coinbase idx s pool cum m r,
  m_gas m < two64 ->
  apply_transaction cfg num coinbase (Compose.interp_runner fuel e code_of stor_of dg sg) idx s pool cum m = TxOk r ->
  exists x,
    (m_check_nonce m = true -> nonce (get (m_from m) s) = m_nonce m) /\
    (Z.of_N (m_gas m * m_price m) <= bal (get (m_from m) s))%Z /\ m_gas m <= pool /\
    exec_phase cfg num (Compose.interp_runner fuel e code_of stor_of dg sg) idx
               (sub_balance (m_from m) (Z.of_N (m_gas m * m_price m)) s) m (m_gas m - t_intrinsic (x_tdb r)) = ExecDone x /\
    t_used (x_tdb r) <= m_gas m /\
    x_state r = finalise (er_suicided x)
                  (add_balance coinbase (Z.of_N (t_used (x_tdb r) * m_price m))
                     (add_balance (m_from m) (Z.of_N ((m_gas m - t_used (x_tdb r)) * m_price m)) (er_state x))) /\
    x_pool r = pool - t_used (x_tdb r).
Proof. exact Compose.tx_phases_evm. Qed.
Print Assumptions C06_tx_phases_evm_partial.

Theorem C06_gas_accounting_tx_evm_partial : forall fuel e code_of stor_of dg sg,
  InterpProofs.wf_env e ->
  forall cfg num coinbase idx s pool cum m r,
  m_gas m < two64 ->
  apply_transaction cfg num coinbase (Compose.interp_runner fuel e code_of stor_of dg sg) idx s pool cum m = TxOk r ->
  let consumed := m_gas m - t_gas_left (x_tdb r) in
  t_intrinsic (x_tdb r) = intrinsic_spec (m_data m) (is_creation m) (is_forked (c_homestead cfg) num) /\
  t_intrinsic (x_tdb r) <= consumed /\ consumed <= m_gas m /\
  t_refund (x_tdb r) <= consumed / 2 /\ t_used (x_tdb r) = consumed - t_refund (x_tdb r) /\
  t_used (x_tdb r) <= m_gas m /\
  r_gas_used (x_receipt r) = t_used (x_tdb r) /\
  r_cumulative (x_receipt r) = add64 cum (t_used (x_tdb r)) /\ x_cumulative r = add64 cum (t_used (x_tdb r)) /\
  x_pool r + t_used (x_tdb r) = pool.
Proof. exact Compose.gas_accounting_tx_evm. Qed.
Print Assumptions C06_gas_accounting_tx_evm_partial.

Theorem C06_gas_accounting_block_evm_partial : forall fuel e code_of stor_of dg sg,
  InterpProofs.wf_env e ->
  forall cfg dealloc s h txs uncles s' rs used,
  Forall (fun m => m_gas m < two64) txs -> h_gas_limit h < two64 ->
  process cfg dealloc (Compose.interp_runner fuel e code_of stor_of dg sg) s h txs uncles = BlockOk s' rs used ->
  used = sum_gas_used rs /\ cumulative_ok 0 rs /\ used <= h_gas_limit h.
Proof. exact Compose.gas_accounting_block_evm. Qed.
Print Assumptions C06_gas_accounting_block_evm_partial.

(* 8b. The nonce clause with the interpreter inside.  Interpreter level (every instruction, CREATE included, every
       code and fuel): an account a without code whose nonce is not 0, and in which no frame executes (it is not the
       `self` of the frame, or the frame has no code — which is the case whenever a frame is entered at a), keeps its
       nonce, stays without code and is never flagged suicided.  (A sender WITH code would execute as `self` when
       called back, could CREATE — bumping its own nonce — or SELFDESTRUCT: the clause is then false, which is why
       transactions from contract accounts do not exist.) *)
Theorem C06_codeless_account_quiet : forall a n fuel e w fr,
  (n <> 0)%Z -> Interp.get_code w a = [] -> Interp.get_nonce w a = n -> InterpNonce.nosui a w ->
  (Interp.f_self fr <> a \/ Interp.f_code fr = []) ->
  let o := Interp.interp fuel e w fr in
  Interp.get_code (Interp.o_world o) a = [] /\ Interp.get_nonce (Interp.o_world o) a = n /\ InterpNonce.nosui a (Interp.o_world o).
Proof. exact InterpNonce.codeless_account_quiet. Qed.
Print Assumptions C06_codeless_account_quiet.

(* ... and composed: nonce' sender = nonce sender + 1 for a transaction executed by the modelled EVM.  No premise on the
   interpreter is left; what remains is about the sender (it has no code, is not the zero address, its nonce is below
   2^64-1), the code store (digest 0 is the empty code) and, for creations, the address-derivation premise.
   `_partial` only because a creation request still runs the failing stub of Compose.interp_runner.
   C06_tx_balance_equation is NOT given an interpreter-inside form: its premise (the execution moves no value to or
   from the sender and the coinbase) is a property of the particular contract code, not of the interpreter — a callee
   may legitimately pay the sender or the coinbase (scenarios pay-back-sender / pay-coinbase). *)
Theorem C06_tx_nonce_evm_partial : forall fuel e code_of stor_of dg sg,
  code_of 0 = [] -> InterpProofs.wf_env e ->
  forall cfg num coinbase idx s pool cum m r,
  m_gas m < two64 ->
  apply_transaction cfg num coinbase (Compose.interp_runner fuel e code_of stor_of dg sg) idx s pool cum m = TxOk r ->
  nonce (get (m_from m) s) < max_u64 ->
  m_from m <> 0 -> code (get (m_from m) s) = 0 ->
  (m_to m = None -> create_address (m_from m) (nonce (get (m_from m) s)) <> m_from m) ->
  nonce (get (m_from m) (x_state r)) = nonce (get (m_from m) s) + 1.
Proof. intros fuel e code_of stor_of dg sg H0 Hwf cfg num coinbase idx s pool cum m r. exact (ComposeNonce.tx_nonce_evm fuel e code_of stor_of dg sg H0 cfg num coinbase idx s pool cum m r Hwf). Qed.
Print Assumptions C06_tx_nonce_evm_partial.

(* 9. One statement over every block (any number of transactions, list induction): gas used = sum over the receipts,
      every receipt's cumulative gas is the running sum and never decreases, the total fits the block gas limit, one
      receipt per transaction; before each transaction the pool is the limit minus the gas used so far and the
      transaction's limit fits into it; the reward is applied once, after all transactions, and is the schedule. *)
Theorem C06_block_accounting : forall cfg dealloc run s h txs uncles s' rs used,
  gas_bounded run -> Forall (fun m => m_gas m < two64) txs -> h_gas_limit h < two64 ->
  process cfg dealloc run s h txs uncles = BlockOk s' rs used ->
  used = sum_gas_used rs /\ cumulative_ok 0 rs /\ cumulative_mono 0 rs /\ used <= h_gas_limit h /\ length rs = length txs /\
  (forall t1 m t2, txs = t1 ++ m :: t2 ->
     exists i si pi ci, after_txs cfg (h_number h) (h_coinbase h) run 0 (block_start cfg dealloc h s) (h_gas_limit h) 0 t1 = Some (i, si, pi, ci) /\
                        pi + ci = h_gas_limit h /\ m_gas m <= pi) /\
  (exists s3, process_txs cfg (h_number h) (h_coinbase h) run 0 (block_start cfg dealloc h s) (h_gas_limit h) 0 txs [] = BlockOk s3 rs used /\
              s' = accumulate_rewards h uncles s3 /\
              supply s' = (supply s3 + issuance (h_number h) uncles)%Z).
Proof. exact block_accounting. Qed.
Print Assumptions C06_block_accounting.

(* ... and with the modelled EVM inside (message-call transactions; see 8) *)
Theorem C06_block_accounting_evm_partial : forall fuel e code_of stor_of dg sg,
  InterpProofs.wf_env e ->
  forall cfg dealloc s h txs uncles s' rs used,
  Forall (fun m => m_gas m < two64) txs -> h_gas_limit h < two64 ->
  process cfg dealloc (Compose.interp_runner fuel e code_of stor_of dg sg) s h txs uncles = BlockOk s' rs used ->
  used = sum_gas_used rs /\ cumulative_ok 0 rs /\ cumulative_mono 0 rs /\ used <= h_gas_limit h /\ length rs = length txs /\
  (forall t1 m t2, txs = t1 ++ m :: t2 ->
     exists i si pi ci, after_txs cfg (h_number h) (h_coinbase h) (Compose.interp_runner fuel e code_of stor_of dg sg) 0
                                  (block_start cfg dealloc h s) (h_gas_limit h) 0 t1 = Some (i, si, pi, ci) /\
                        pi + ci = h_gas_limit h /\ m_gas m <= pi) /\
  (exists s3, process_txs cfg (h_number h) (h_coinbase h) (Compose.interp_runner fuel e code_of stor_of dg sg) 0
                          (block_start cfg dealloc h s) (h_gas_limit h) 0 txs [] = BlockOk s3 rs used /\
              s' = accumulate_rewards h uncles s3 /\
              supply s' = (supply s3 + issuance (h_number h) uncles)%Z).
Proof. exact Compose.block_accounting_evm. Qed.
Print Assumptions C06_block_accounting_evm_partial.

(* non-vacuity of 8: a mainnet block-40000 call to a contract that stores 1 in slot 0, executed by the modelled EVM
   (no oracle): 21000 + 20006 gas, the storage digest of the callee becomes the encoding of {0 -> 1} *)
Example C06_evm_example :
  let s := [(0xaa, mkAcc 4294967296%Z 0 0 0); (0xbb, mkAcc 0%Z 0 (Compose.dg_c [0x60; 1; 0x60; 0; 0x55; 0]%Z) 0)] in
  let m := mkMsg 0xaa (Some 0xbb) 0 1 50000 5 [] true in
  InterpProofs.wf_env (Compose.interp_env 40000 0xc0 0xaa 1 8000000 1000 1) /\
  exists cfg r, builtin_cfg 0 = Some cfg /\
    Compose.apply_transaction_i 1000 cfg 40000 0xc0 8000000 1000 1 s 8000000 0 m = TxOk r /\
    t_used (x_tdb r) = 41006 /\ t_failed (x_tdb r) = false /\
    stor (get 0xbb (x_state r)) = Compose.sg_c [(0, 1)]%Z /\ bal (get 0xbb (x_state r)) = 5%Z /\
    Compose.code_of_c 0 = [] /\ code (get 0xaa s) = 0 /\ nonce (get 0xaa (x_state r)) = 1.
Proof.
  cbv zeta. split; [apply Compose.interp_env_wf|].
  eexists. eexists. split; [vm_compute; reflexivity|]. split; [vm_compute; reflexivity|]. vm_compute. repeat split; reflexivity.
Qed.

(* non-vacuity: a concrete transaction (value 5, limit 30000, price 2, 5000 gas burnt by the callee)
   meets every premise of the balance equation, and the equation gives the expected numbers *)
Example C06_example :
  let run := simple_run 5000 0 in
  let s := [(10, mkAcc 1000000%Z 7 0 0); (12, mkAcc 3%Z 0 0 0)] in
  let m := mkMsg 10 (Some 11) 7 2 30000 5 [x00; x01] true in
  gas_bounded run /\ m_gas m < two64 /\
  (forall ri st a, a = m_from m \/ a = 12 -> bal (get a (ro_state (run ri st))) = bal (get a st)) /\
  (forall ri st a, a = m_from m \/ a = 12 -> ~ In a (ro_suicided (run ri st))) /\
  m_from m <> 12 /\ m_from m <> recipient m s /\
  exists r, apply_transaction all_forks 1 12 run 0 s 8000000 0 m = TxOk r /\
            t_used (x_tdb r) = 26072 /\ t_failed (x_tdb r) = false /\
            bal (get 10 (x_state r)) = (1000000 - 26072 * 2 - 5)%Z /\
            bal (get 12 (x_state r)) = (3 + 26072 * 2)%Z /\ nonce (get 10 (x_state r)) = 8.
Proof.
  cbv zeta. split; [apply simple_run_gas_bounded|]. split; [reflexivity|].
  split; [intros; reflexivity|]. split; [intros ri st a _ H; exact H|].
  split; [discriminate|]. split; [discriminate|].
  eexists. split; [vm_compute; reflexivity|]. vm_compute. repeat split; reflexivity.
Qed.
