(* Properties/C15.v — The pool's pending transactions are always executable, in order and bounded.
   Only statements closed by `exact`, with Print Assumptions under each.
   Model: Pool/PoolModel.v (code-shaped, tied to core/tx_pool.go + core/tx_list.go by the
   correspondence run of harness/cmd/c15).  Every theorem quantifies over the oracles
   (Go map iteration order, heap / prque ties, unstable sort) of every step.

   Full-strength property (DESIGN.md C15):  after every history `run p0 h = Ok p`
     1. pending_executable p      — ordering half REFUTED for the code as it is (C15_pending_executable_refuted):
                                     reset promotes reinjected transactions into the not-yet-demoted pending list and
                                     demoteUnexecutables only detects a gap in front (signature
                                     reset-reinject-leaves-gap-in-pending, directed history on a self-consistent chain).
                                     Proved: the affordability half over every history (C15_pending_affordable,
                                     C15_caps_sound); the ordering half together with the virtual nonce over every
                                     HEAD-FREE history (C15_pending_run_head_free_partial: pn_ok after any interleaving
                                     of local/remote submissions and SetGasPrice, any oracle), with its building blocks
                                     C15_pending_limit_keeps_run_partial and C15_promote_next_keeps_run_partial.
                                     NOT proved: pn_ok across reset with an empty reinjection list (missing: the lemma
                                     that demoteUnexecutables turns a run from the old chain nonce into a run from the
                                     new one or empties the list; the rest of reset is covered by the lemmas here);
     2. unique_nonce p            — proved (C15_unique_nonce);
        all_is_union p            — proved (C15_all_is_union) since the /repo fix of removeTx;
     3. replacement_needs_bump    — proved (C15_replacement_needs_bump, C15_list_replacement_needs_bump);
     4. limits_hold p             — REFUTED as an at-all-times invariant (C15_limits_hold_refuted: removeTx re-queues
                                     without a cap and SetGasPrice / a replacing add are not followed by
                                     promoteExecutables; signature removetx-requeue-exceeds-queue-limits).  What
                                     promoteExecutables re-establishes is proved for the per-account queue cap
                                     (C15_account_queue_cap_partial: after its per-account phase and its GlobalSlots
                                     phase every processed non-local account has <= AccountQueue queued).  NOT proved:
                                     that the GlobalQueue truncation that follows keeps it (removeTx there only shrinks
                                     queues, which needs all = pending ∪ queue), the GlobalSlots bound with the
                                     AccountSlots floor, the GlobalQueue bound, the priced heap containing every pooled
                                     transaction, and the lifting to "after every add / reset" over all histories;
     5. reorg_reinjects           — the reinjection set is proved exact (C15_reorg_reinject_set, C15_reorg_nothing_invented:
                                     dropped branch minus new branch down to a common ancestor; [] for a plain advance,
                                     for a number difference > 64 and for unknown blocks); every candidate that is valid
                                     against the new head state, has no same-(sender, nonce) competitor and no hash twin
                                     is pooled at the end of addTxsLocked(reinject) unless the pool fills up
                                     (C15_reorg_reinjects_partial).  NOT proved: that it is still pooled after the
                                     promoteExecutables / demoteUnexecutables / promoteExecutables that follow inside
                                     reset — there a transaction can leave only through Forward (nonce below the chain
                                     nonce), Filter (cost > balance or gas > limit), a same-nonce replacement, the
                                     AccountQueue cap, the GlobalSlots loops or the GlobalQueue truncation; and the
                                     converse "nothing but reinjected transactions enters the pool during reset". *)
From Coq Require Import List ZArith.
From AQ Require Import Pool.PoolModel Pool.PoolSpec Pool.PoolProofs Pool.PoolReorg Pool.PoolLimits Pool.PoolRun.
Import ListNotations.
Local Open Scope Z_scope.

(* 2. at most one transaction per (sender, nonce) across pending and queue, lists in nonce order and
      keyed by their sender — after every history of submissions, price changes and head changes that
      does not end in Panic / OutOfFuel, from any state that has the property (the empty pool has it) *)
Theorem C15_unique_nonce : forall (h : list (oracle * op)) (p p' : pool),
  unique_nonce p -> run p h = Ok p' -> unique_nonce p'.
Proof. exact unique_nonce_invariant. Qed.
Print Assumptions C15_unique_nonce.

Theorem C15_unique_nonce_initial : forall c gp cur0 gas0, unique_nonce (new_pool c gp cur0 gas0).
Proof. exact new_pool_un. Qed.
Print Assumptions C15_unique_nonce_initial.

(* 3. TxPool.add reports a replacement only for a transaction of the same sender and nonce that was
      pending or queued, and only with the price bump as txList.Add computes it:
      price_old < price_new /\ price_old*(100+bump)/100 <= price_new *)
Theorem C15_replacement_needs_bump : forall (p : pool) (t : tx) (local : bool) (p' : pool),
  add_insert p t local = (inl true, p') ->
  exists old, (in_pending p (tfrom t) old \/ in_queue p (tfrom t) old) /\ tnonce old = tnonce t /\
              bump_ok (c_bump (conf p)) old t.
Proof. exact replacement_needs_bump. Qed.
Print Assumptions C15_replacement_needs_bump.

Theorem C15_list_replacement_needs_bump : forall (l : txlist) (t : tx) (bump : Z) (o : tx) (l' : txlist),
  tl_add l t bump = (true, Some o, l') -> tnonce o = tnonce t /\ In o (items l) /\ bump_ok bump o t.
Proof. exact tl_add_bump. Qed.
Print Assumptions C15_list_replacement_needs_bump.

(* 2b. pool.all is exactly pending ∪ queue after every history from the empty pool, under every oracle
       (no premise about hash collisions: the known-transaction check of TxPool.add provides what is needed) *)
Theorem C15_all_is_union : forall (h : list (oracle * op)) (c : cfg) (gp : Z) (cur0 : list (Z * (Z * Z))) (gas0 : Z) (p' : pool),
  run (new_pool c gp cur0 gas0) h = Ok p' ->
  forall hash, (exists t, assoc hash (all p') = Some t) <-> (exists t, listed p' t /\ thash t = hash).
Proof. exact all_is_union_invariant. Qed.
Print Assumptions C15_all_is_union.

(* the directed history of the former finding removetx-leaks-all-index: the successor is re-queued *)
Theorem C15_removetx_requeues :
  exists p, run (new_pool cfg_tiny 1 [(0, (0, 100000000))] 1000000) leak_history = Ok p /\
            all_is_unionb p = true /\ pending p = [] /\
            map (fun kv => (fst kv, map thash (items (snd kv)))) (queue p) = [(0, [2])].
Proof. exact leak_history_requeues. Qed.
Print Assumptions C15_removetx_requeues.

(* 1, affordability half: after every history from the empty pool, under every oracle, every pending transaction
      costs at most its sender's balance in the CURRENT head state and fits the current block gas limit; and the
      cached ceilings of every list (costcap / gascap, on which txList.Filter short-circuits) bound the list *)
Theorem C15_pending_affordable : forall (h : list (oracle * op)) (c : cfg) (gp : Z) (cur0 : list (Z * (Z * Z))) (gas0 : Z) (p' : pool),
  run (new_pool c gp cur0 gas0) h = Ok p' ->
  forall a l, assoc a (pending p') = Some l ->
    Forall (fun t => tcost t <= cur_balance p' a /\ tgas t <= maxgas p') (items l).
Proof. intros h c gp cur0 gas0 p' H. exact (proj2 (affordable_invariant h c gp cur0 gas0 p' H)). Qed.
Print Assumptions C15_pending_affordable.

Theorem C15_caps_sound : forall (h : list (oracle * op)) (c : cfg) (gp : Z) (cur0 : list (Z * (Z * Z))) (gas0 : Z) (p' : pool),
  run (new_pool c gp cur0 gas0) h = Ok p' ->
  (forall a l, assoc a (pending p') = Some l -> Forall (fun t => tcost t <= costcap l /\ tgas t <= gascap l) (items l)) /\
  (forall a l, assoc a (queue p') = Some l -> Forall (fun t => tcost t <= costcap l /\ tgas t <= gascap l) (items l)).
Proof. intros h c gp cur0 gas0 p' H. exact (proj1 (affordable_invariant h c gp cur0 gas0 p' H)). Qed.
Print Assumptions C15_caps_sound.

(* 1, ordering half + virtual nonce, PARTIAL (head-free histories).  Full statement wanted: the same for histories
      whose resets do not reinject at a lowered nonce.  Proved: from the empty pool, after every history made of
      AddLocal / AddRemote / SetGasPrice in any order (no head event), under every oracle, with nonces in the uint64
      range where nonce+1 does not wrap: per sender the pending nonces are exactly the run starting at the chain nonce
      and State().GetNonce(sender) = chain nonce + length of that run. *)
Theorem C15_pending_run_head_free_partial : forall (h : list (oracle * op)) (c : cfg) (gp : Z) (cur0 : list (Z * (Z * Z))) (gas0 : Z) (p' : pool),
  Forall (fun ox => head_free (snd ox) /\ Forall nonce_ok (op_txs (snd ox))) h ->
  run (new_pool c gp cur0 gas0) h = Ok p' ->
  forall a, match assoc a (pending p') with
            | Some l => run_from (cur_nonce p' a) (items l) /\ pn_get p' a = cur_nonce p' a + tl_len l
            | None => pn_get p' a = cur_nonce p' a
            end.
Proof. exact pn_ok_head_free. Qed.
Print Assumptions C15_pending_run_head_free_partial.

(* 1, ordering half, PARTIAL.  Full statement wanted: for every history without nonce-lowering reinjection,
      pn_ok holds after every operation (pending nonces = the run from the chain nonce, State().GetNonce = chain
      nonce + length of the run).  Proved here: the part of promoteExecutables that enforces GlobalSlots (both
      loops: equalisation of offenders of different sizes and reduction to the minimum allowance, any oracle for
      the priority-queue ties and map order) preserves pn_ok — every sender that is cut back gets its virtual nonce
      lowered to the dropped transaction. *)
Theorem C15_pending_limit_keeps_run_partial : forall (o : oracle) (p p' : pool),
  pn_ok p -> pe_pending_limit o p = Ok p' -> pn_ok p'.
Proof. exact pe_pending_limit_pn. Qed.
Print Assumptions C15_pending_limit_keeps_run_partial.

(* 1, ordering half, PARTIAL (second piece): promoteTx of the transaction whose nonce is the virtual nonce (what
      promoteExecutables takes from Ready) appends it to the run and advances State().GetNonce by one; the bound is
      the uint64 range of nonce+1 *)
Theorem C15_promote_next_keeps_run_partial : forall (p : pool) (a : Z) (t : tx),
  pn_ok p -> tnonce t = pn_get p a -> 0 <= tnonce t < two64 - 1 -> pn_ok (promote_tx p a t).
Proof. exact promote_tx_pn. Qed.
Print Assumptions C15_promote_next_keeps_run_partial.

(* 1, ordering half, PARTIAL (third piece, the list-level core of the lemma that was missing for resets without
      reinjection): on a strict (pending) list whose nonces are a run, txList.Forward(new chain nonce) followed by
      txList.Filter(balance, gas limit) — the first two steps of demoteUnexecutables — leaves a run again (a suffix of the
      old run cut back to a prefix: strict Filter drops everything above the lowest removed nonce), for every oracle.
      Still missing for the full statement: lifting this through demote_account's pool bookkeeping (the Cap(0) gap
      check then forces the run to start at the new chain nonce or empties the list), the virtual-nonce loop of reset,
      and promote_executables_W. *)
Theorem C15_demote_keeps_run_partial : forall (o : oracle) (l : txlist) (c n cl gl : Z) (old : list tx) (l1 : txlist) (drops invs : list tx) (l2 : txlist),
  strict l = true -> run_from c (items l) ->
  tl_forward l n = (old, l1) -> tl_filter o l1 cl gl = (drops, invs, l2) -> exists c', run_from c' (items l2).
Proof. exact demote_lists_run. Qed.
Print Assumptions C15_demote_keeps_run_partial.

Example C15_pending_limit_example :
  exists p, run (new_pool cfg_slots 1 [(0, (0, 1000000000)); (1, (0, 1000000000))] 1000000) slots_history = Ok p /\
            map (fun kv => (fst kv, map tnonce (items (snd kv)))) (pending p) = [(0, [0; 1]); (1, [0; 1])] /\
            pn_get p 0 = 2 /\ pn_okb p [0; 1] = true.
Proof. exact slots_history_runs. Qed.

(* 4. limits_hold.  (a) REFUTED as an invariant after every public operation: AccountQueue = 2, a non-local sender has
      nonces 0..3 pending, SetGasPrice above the price of nonce 0 — three transactions are queued afterwards. *)
Theorem C15_limits_hold_refuted :
  exists p, run (new_pool cfg_tiny 1 [(0, (0, 100000000))] 1000000) requeue_history = Ok p /\ ~ limits_hold p.
Proof. exact limits_hold_refuted'. Qed.
Print Assumptions C15_limits_hold_refuted.

(* (b) PARTIAL: what promoteExecutables re-establishes, per-account queue cap.  Full statement wanted: after every add that
      is followed by promoteExecutables and after every reset, for every history: AccountQueue for processed non-local
      accounts, GlobalSlots up to the AccountSlots floor, GlobalQueue unless only locals remain.  Proved: after the
      per-account phase (fold of pe_account over the processed accounts) and the GlobalSlots phase (pe_pending_limit), any
      oracle: every processed account that is not local has at most AccountQueue queued transactions. *)
Theorem C15_account_queue_cap_partial : forall (o : oracle) (accs : list Z) (p p1 p2 : pool) (a : Z),
  0 <= c_aqueue (conf p) -> fold_res (pe_account o) accs p = Ok p1 -> pe_pending_limit o p1 = Ok p2 ->
  In a accs -> memZ a (locals p) = false ->
  forall l, assoc a (queue p2) = Some l -> tl_len l <= c_aqueue (conf p2).
Proof. exact account_queue_cap_after_promote. Qed.
Print Assumptions C15_account_queue_cap_partial.

(* 5. reorg_reinjects.  (a) What reset(old, new) reinjects: [] if new is a child of old, if the block numbers differ
      by more than 64, or if a head is unknown to the chain; otherwise exactly the transactions of the dropped branch
      that are not in the new branch, both followed down to a common ancestor (reorg_spec).  (Ok None = unrooted chain:
      reset returns without touching the pool.) *)
Theorem C15_reorg_reinject_set : forall (bs : list block) (old new : block) (ri : list tx),
  reorg_txs bs (Some old) new = Ok (Some ri) ->
  (bhash old = bparent new /\ ri = []) \/
  (bhash old <> bparent new /\ 64 < Z.abs (bnumber old - bnumber new) /\ ri = []) \/
  (bhash old <> bparent new /\ Z.abs (bnumber old - bnumber new) <= 64 /\
   (get_block bs (bhash old) (bnumber old) = None \/ get_block bs (bhash new) (bnumber new) = None) /\ ri = []) \/
  (bhash old <> bparent new /\ Z.abs (bnumber old - bnumber new) <= 64 /\ reorg_spec bs old new ri).
Proof. exact reorg_txs_spec. Qed.
Print Assumptions C15_reorg_reinject_set.

(* nothing is invented and nothing of the dropped branch is forgotten: membership in discarded \ included *)
Theorem C15_reorg_nothing_invented : forall (a b : list tx) (t : tx),
  In t (tx_difference a b) <-> In t a /\ (forall u, In u b -> thash u <> thash t).
Proof. exact tx_difference_in. Qed.
Print Assumptions C15_reorg_nothing_invented.

(* (b) PARTIAL.  Full statement wanted: every reinjected transaction that is valid against the new head state is in
      pending or queue when reset returns, unless a same-nonce competitor or one of the limits (pool size, AccountQueue,
      GlobalSlots, GlobalQueue) evicts it.  Proved: at the end of the submission loop of addTxsLocked(reinject, false),
      i.e. before the promoteExecutables / demoteUnexecutables / promoteExecutables that follow inside reset.
      q is the pool with the new head state installed; the pool does not fill up (|all| + |reinject| <= GlobalSlots +
      GlobalQueue); t is valid (validateTx against the new state), is the only reinjected or pooled transaction with
      its (sender, nonce) and has no hash twin among the reinjected. *)
Theorem C15_reorg_reinjects_partial : forall (ri : list tx) (o : oracle) (q : pool) (e : list (option err)) (d : list Z) (t : tx),
  unique_nonce q /\ all_exact q ->
  (forall a l, assoc a (queue q) = Some l -> strict l = false) ->
  Z.of_nat (length (all q)) + Z.of_nat (length ri) <= (c_gslots (conf q) + c_gqueue (conf q)) mod two64 ->
  (forall u, In u ri -> tfrom u = tfrom t -> tnonce u = tnonce t -> u = t) ->
  (forall u, In u ri -> thash u = thash t -> u = t) ->
  validate_tx q t false = None ->
  In t ri -> assoc (thash t) (all q) = None ->
  (forall u, listed q u -> tfrom u = tfrom t -> tnonce u <> tnonce t) ->
  listed (snd (fold_left (atl_step o false) ri (e, d, q))) t.
Proof.
  intros ri o q e d t HK HS Hroom Hc Hh Hv Hin Hn Hno.
  apply (reinject_phase ri o q e d t); auto. split; [apply J_exact; exact HK|exact HS].
Qed.
Print Assumptions C15_reorg_reinjects_partial.

(* (c) PARTIAL, converse for the same phase: nothing but reinjected transactions enters the pool during the submission
      loop of addTxsLocked(reinject, false) (pool not filling up).  Full statement wanted: the same for the whole reset. *)
Theorem C15_reorg_only_reinjected_enter_partial : forall (ri : list tx) (o : oracle) (q : pool) (e : list (option err)) (d : list Z),
  unique_nonce q /\ all_exact q ->
  (forall a l, assoc a (queue q) = Some l -> strict l = false) ->
  Z.of_nat (length (all q)) + Z.of_nat (length ri) <= (c_gslots (conf q) + c_gqueue (conf q)) mod two64 ->
  forall v, listed (snd (fold_left (atl_step o false) ri (e, d, q))) v -> listed q v \/ In v ri.
Proof.
  intros ri o q e d HK HS Hroom. apply (reinject_phase_sub ri o q e d); auto. split; [apply J_exact; exact HK|exact HS].
Qed.
Print Assumptions C15_reorg_only_reinjected_enter_partial.

Example C15_reorg_example :
  reorg_txs ex_bs (Some (mkBlock 11 10 1 [mk 1 0 0 50])) (mkBlock 12 10 1 []) = Ok (Some [mk 1 0 0 50]) /\
  exists p, reset_heads o0 (new_pool cfg_tiny 1 [(0, (1, 100000000))] 1000000) ex_bs (Some (mkBlock 11 10 1 [mk 1 0 0 50])) (mkBlock 12 10 1 [])
              [(0, (0, 100000000))] 1000000 = Ok p /\
            map (fun kv => (fst kv, map thash (items (snd kv)))) (pending p) = [(0, [1])].
Proof. exact reorg_example. Qed.

(* 1 refuted: a reachable state whose pending list has a gap (nonces 0,2,3 with state nonce 0) *)
Theorem C15_pending_executable_refuted :
  exists p, run (new_pool cfg_tiny 1 [(0, (2, 100000000))] 1000000) gap_history = Ok p /\
            pending_executableb p = false /\
            exists l, assoc 0 (pending p) = Some l /\ map tnonce (items l) = [0; 2; 3] /\ cur_nonce p 0 = 0.
Proof. exact pending_executable_refuted. Qed.
Print Assumptions C15_pending_executable_refuted.

(* non-vacuity: a concrete history (gap, promotion, accepted and refused replacement, head advance)
   runs to Ok with content, so the hypotheses `run p h = Ok p'` of C15_unique_nonce are satisfiable *)
Example C15_example :
  exists p, run (new_pool cfg_tiny 1 [(0, (0, 100000000)); (1, (0, 100000000))] 1000000) demo_history = Ok p /\
            map (fun kv => (fst kv, map thash (items (snd kv)))) (pending p) = [(0, [6; 2])] /\ pending_executableb p = true.
Proof. exact demo_runs. Qed.
