(* Properties/C08.v — EVM instructions compute what the specification defines.
   Only statements closed by `exact`, with Print Assumptions under each.

   Vocabulary.  OpsModel: op_X / exec_arith / gas* / memoryGasCost / callGas / has /
   select_iset are the Gallina transcription of core/vm (instructions.go,
   gas_table.go, gas.go, common.go, analysis.go, interpreter.go NewInterpreter),
   tied to the Go code by the correspondence run of ./check C08.  OpsSpec: spec_X,
   Cmem, Mexp, G_*, C_gascap, valid_jumpdest are the Yellow-Paper (+EIP-145,
   EIP-150) definitions.  OpsTableSpec.spec_op / spec_valid: the instruction set
   prescribed per epoch; gen_table: the tables regenerated from jump_table.go.
   `word x` is 0 <= x < 2^256; operands are in pop order (first = stack top).
   Families of like statements are stated as one conjunction. *)
From Coq Require Import ZArith List Bool.
From Coq Require Strings.String.
Import Coq.Strings.String.StringSyntax.
From AQ Require Import Evm.OpsProofs Generated.GenJumpTables Generated.GenParamsEvm Generated.GenGasObs.
Import ListNotations.
Local Open Scope string_scope.
Local Open Scope Z_scope.

(* ---- 1. every arithmetic / comparison / bitwise / shift instruction returns the specified word, for all operands ---- *)

(* ADD MUL SUB DIV SDIV MOD SMOD ADDMOD MULMOD EXP SIGNEXTEND LT GT SLT SGT EQ ISZERO AND OR XOR NOT BYTE SHL SHR *)
Theorem C08_ops_spec :
  (forall a b, word a -> word b -> op_ADD a b = spec_ADD a b) /\
  (forall a b, word a -> word b -> op_MUL a b = spec_MUL a b) /\
  (forall a b, word a -> word b -> op_SUB a b = spec_SUB a b) /\
  (forall a b, word a -> word b -> op_DIV a b = spec_DIV a b) /\
  (forall a b, word a -> word b -> op_SDIV a b = spec_SDIV a b) /\
  (forall a b, word a -> word b -> op_MOD a b = spec_MOD a b) /\
  (forall a b, word a -> word b -> op_SMOD a b = spec_SMOD a b) /\
  (forall a b n, word a -> word b -> word n -> op_ADDMOD a b n = spec_ADDMOD a b n) /\
  (forall a b n, word a -> word b -> word n -> op_MULMOD a b n = spec_MULMOD a b n) /\
  (forall a e, word a -> word e -> op_EXP a e = spec_EXP a e) /\
  (forall b x, word b -> word x -> op_SIGNEXTEND b x = spec_SIGNEXTEND b x) /\
  (forall a b, word a -> word b -> op_LT a b = spec_LT a b) /\
  (forall a b, word a -> word b -> op_GT a b = spec_GT a b) /\
  (forall a b, word a -> word b -> op_SLT a b = spec_SLT a b) /\
  (forall a b, word a -> word b -> op_SGT a b = spec_SGT a b) /\
  (forall a b, word a -> word b -> op_EQ a b = spec_EQ a b) /\
  (forall a, word a -> op_ISZERO a = spec_ISZERO a) /\
  (forall a b, word a -> word b -> op_AND a b = spec_AND a b) /\
  (forall a b, word a -> word b -> op_OR a b = spec_OR a b) /\
  (forall a b, word a -> word b -> op_XOR a b = spec_XOR a b) /\
  (forall a, word a -> op_NOT a = spec_NOT a) /\
  (forall a b, word a -> word b -> op_BYTE a b = spec_BYTE a b) /\
  (forall a b, word a -> word b -> op_SHL a b = spec_SHL a b) /\
  (forall a b, word a -> word b -> op_SHR a b = spec_SHR a b).
Proof. exact ops_spec_all. Qed.
Print Assumptions C08_ops_spec.

(* SAR.  Full-strength statement, FALSE of the code (and of its faithful model):
     forall s v, word s -> word v -> op_SAR s v = spec_SAR s v
   opSAR tests value.Sign() > 0 where the specification needs >= 0, so SAR(shift >= 256, value = 0)
   returns 2^256-1 instead of 0 (active on mainnet since HF5, block 22800). *)
Theorem C08_op_SAR_refuted :
  exists s v, word s /\ word v /\ op_SAR s v <> spec_SAR s v.
Proof. exact op_SAR_refuted. Qed.
Print Assumptions C08_op_SAR_refuted.

Theorem C08_op_SAR_spec_partial :
  forall s v, word s -> word v -> (s < 256 \/ v <> 0) -> op_SAR s v = spec_SAR s v.
Proof. exact op_SAR_spec_partial. Qed.
Print Assumptions C08_op_SAR_spec_partial.

(* the executable form of the EXP specification used by the driver is a^e mod 2^256 *)
Theorem C08_spec_EXP_exec_ok :
  forall a e, word a -> word e -> spec_EXP_exec a e = spec_EXP a e.
Proof. exact spec_EXP_exec_ok. Qed.
Print Assumptions C08_spec_EXP_exec_ok.

(* on a stack: exec_arith (the dispatch the interpreter performs) agrees with the specification for every opcode but SAR (SIGNEXTEND leaves its second operand in place when the first is >= 31; validateStack guarantees two items) *)
Theorem C08_exec_arith_spec :
  forall op st, Forall word st -> op <> 0x1d ->
  (op = 0x0b -> (2 <= length st)%nat) ->
  match spec_arith op st with
  | Some st' => exec_arith op st = Ok st'
  | None => exec_arith op st = Panic \/ exec_arith op st = Err ErrInvalidOpcode
  end.
Proof. exact exec_arith_spec. Qed.
Print Assumptions C08_exec_arith_spec.

(* values stay machine words *)
Theorem C08_exec_arith_word :
  forall op st st', Forall word st -> exec_arith op st = Ok st' -> Forall word st'.
Proof. exact exec_arith_word. Qed.
Print Assumptions C08_exec_arith_word.

(* ---- 2. gas and memory-size functions = the formulas; uint64 overflow -> error exactly when the formula does not fit ---- *)

(* memoryGasCost.  Full-strength statement, FALSE of the code: for all 0 <= w0 < 2^32 and 0 <= n <= 0xffffffffe0 (the
   code's own guard) the result is C_mem(max w0 ceil(n/32)) - C_mem(w0).  The square newMemSizeWords^2 is taken in
   uint64 and wraps from 2^32 words (n > 0x1FFFFFFFE0) on. *)
Theorem C08_memoryGasCost_refuted :
  exists w0 n, 0 <= w0 < 2^32 /\ 0 <= n <= 0xffffffffe0 /\
  memoryGasCost (32 * w0) (Cmem w0) n <> Ok (Cmem (Z.max w0 (ceil32 n)) - Cmem w0, Cmem (Z.max w0 (ceil32 n))).
Proof. exact memoryGasCost_refuted. Qed.
Print Assumptions C08_memoryGasCost_refuted.

(* toWordSize = ceil(n/32); memory size of a step (error iff it does not fit 64 bits); memoryGasCost = C_mem difference below 2^32 words; error above the guard; beyond the proved domain the specified cost is >= 2^55 gas *)
Theorem C08_memory_gas_partial :
  (forall n, 0 <= n < two64 -> toWordSize n = ceil32 n) /\
  (forall off l, word off -> word l ->
  let need := if l =? 0 then 0 else off + l in
  run_memorySize (calcMemSize off l) =
    if 32 * ceil32 need <=? maxU64 then Ok (32 * ceil32 need) else Err ErrGasUintOverflow) /\
  (forall w0 n, 0 <= w0 < 2^32 -> 0 <= n <= 0x1FFFFFFFE0 ->
  memoryGasCost (32 * w0) (Cmem w0) n =
    Ok (Cmem (Z.max w0 (ceil32 n)) - Cmem w0, Cmem (Z.max w0 (ceil32 n)))) /\
  (forall memLen last n, 0xffffffffe0 < n ->
  memoryGasCost memLen last n = Err ErrGasUintOverflow) /\
  (forall w, 2^32 <= w -> 2^55 <= Cmem w).
Proof. exact memory_gas_all. Qed.
Print Assumptions C08_memory_gas_partial.

(* copy / SHA3 / MLOAD.. / LOG / EXP gas: fee + formula, errGasUintOverflow exactly when the operand or the sum does not fit in 64 bits; whole step on the domain memory < 2^32 words *)
Theorem C08_dynamic_gas :
  (forall base perword memLen last ms len fee last',
  0 <= base < 2^32 -> 0 < perword < 2^32 -> word len ->
  memoryGasCost memLen last ms = Ok (fee, last') -> 0 <= fee < two64 ->
  gas_mem_words base perword memLen last ms len =
    if (len <? two64) && (fee + base + perword * ceil32 len <=? maxU64)
    then Ok (fee + base + perword * ceil32 len, last') else Err ErrGasUintOverflow) /\
  (forall base memLen last ms fee last', 0 <= base < 2^32 ->
  memoryGasCost memLen last ms = Ok (fee, last') -> 0 <= fee < two64 ->
  gas_mem_base base memLen last ms =
    if fee + base <=? maxU64 then Ok (fee + base, last') else Err ErrGasUintOverflow) /\
  (forall n memLen last ms requested fee last', 0 <= n <= 4 -> word requested ->
  memoryGasCost memLen last ms = Ok (fee, last') -> 0 <= fee < two64 ->
  gasLog n memLen last ms requested =
    if (requested <? two64) && (fee + G_log n requested <=? maxU64)
    then Ok (fee + G_log n requested, last') else Err ErrGasUintOverflow) /\
  (forall gt e, word e -> 0 <= gt_ExpByte gt < 2^32 ->
  gasExp gt e = Ok (G_exp (gt_ExpByte gt) e)) /\
  (forall memLen last ms len fee last', word len ->
  memoryGasCost memLen last ms = Ok (fee, last') -> 0 <= fee < two64 ->
  gasSha3 memLen last ms len =
    if (len <? two64) && (fee + G_sha3 len <=? maxU64)
    then Ok (fee + G_sha3 len, last') else Err ErrGasUintOverflow) /\
  (forall memLen last ms len fee last', word len ->
  memoryGasCost memLen last ms = Ok (fee, last') -> 0 <= fee < two64 ->
  gasCallDataCopy memLen last ms len =
    if (len <? two64) && (fee + G_copy len <=? maxU64)
    then Ok (fee + G_copy len, last') else Err ErrGasUintOverflow) /\
  (forall base perword w0 off len, 0 <= base < 2^32 -> 0 < perword < 2^31 ->
  0 <= w0 < 2^32 -> word off -> word len -> Mexp w0 off len < 2^32 ->
  step_gas_words base perword w0 off len =
    Ok (mem_fee w0 off len + base + perword * ceil32 len, Cmem (Mexp w0 off len))).
Proof. exact dynamic_gas_all. Qed.
Print Assumptions C08_dynamic_gas.

(* EIP-150: min(all but one 64th of what is left, requested); pre-150: the request; an underflowing base cannot give gas away *)
Theorem C08_callGas :
  (forall gt avail base cost, 0 <= base <= avail -> avail < two64 -> word cost ->
  0 < gt_CreateBySuicide gt ->
  callGas gt avail base cost = Ok (C_gascap avail base cost)) /\
  (forall gt avail base cost, word cost -> gt_CreateBySuicide gt <= 0 ->
  callGas gt avail base cost = if cost <? two64 then Ok cost else Err ErrGasUintOverflow) /\
  (forall gt avail base cost g, 0 <= avail < base -> base < two64 -> word cost ->
  callGas gt avail base cost = Ok g -> 0 <= g /\ avail < base + g).
Proof. exact callGas_all. Qed.
Print Assumptions C08_callGas.

Theorem C08_validateStack_spec :
  forall pop push len,
  validateStack pop push len = Ok tt <-> (pop <= len /\ len - pop + push <= 1024).
Proof. exact validateStack_spec. Qed.
Print Assumptions C08_validateStack_spec.

(* ---- 2c. the whole dynamic-gas step of the interpreter: stack operands -> memory size of the step -> gas function on a
   memory of w0 words charged C_mem(w0) = memory expansion fee + instruction formula, for MLOAD MSTORE MSTORE8 CREATE
   RETURN/REVERT LOGn SHA3 and the copies, on the domain where the memory stays below 2^32 words ---- *)
Theorem C08_step_gas :
  (forall base w0 off len, 0 <= base < 2^32 -> 0 <= w0 < 2^32 -> word off -> word len ->
  Mexp w0 off len < 2^32 ->
  step_gas_base base w0 off len = Ok (mem_fee w0 off len + base, Cmem (Mexp w0 off len))) /\
  (forall w0 off, 0 <= w0 < 2^32 -> word off -> Mexp w0 off 32 < 2^32 ->
  match run_memorySize (calcMemSize off 32) with
  | Ok ms => gasMLoad (32 * w0) (Cmem w0) ms | Err e => Err e | Panic => Panic end
  = Ok (mem_fee w0 off 32 + 3, Cmem (Mexp w0 off 32))) /\
  (forall w0 off, 0 <= w0 < 2^32 -> word off -> Mexp w0 off 32 < 2^32 ->
  match run_memorySize (calcMemSize off 32) with
  | Ok ms => gasMStore (32 * w0) (Cmem w0) ms | Err e => Err e | Panic => Panic end
  = Ok (mem_fee w0 off 32 + 3, Cmem (Mexp w0 off 32))) /\
  (forall w0 off, 0 <= w0 < 2^32 -> word off -> Mexp w0 off 1 < 2^32 ->
  match run_memorySize (calcMemSize off 1) with
  | Ok ms => gasMStore8 (32 * w0) (Cmem w0) ms | Err e => Err e | Panic => Panic end
  = Ok (mem_fee w0 off 1 + 3, Cmem (Mexp w0 off 1))) /\
  (forall w0 off len, 0 <= w0 < 2^32 -> word off -> word len -> Mexp w0 off len < 2^32 ->
  match run_memorySize (calcMemSize off len) with
  | Ok ms => gasCreate (32 * w0) (Cmem w0) ms | Err e => Err e | Panic => Panic end
  = Ok (mem_fee w0 off len + 32000, Cmem (Mexp w0 off len))) /\
  (forall w0 off len, 0 <= w0 < 2^32 -> word off -> word len -> Mexp w0 off len < 2^32 ->
  match run_memorySize (calcMemSize off len) with
  | Ok ms => gasReturn (32 * w0) (Cmem w0) ms | Err e => Err e | Panic => Panic end
  = Ok (mem_fee w0 off len, Cmem (Mexp w0 off len))) /\
  (forall n w0 off len, 0 <= n <= 4 -> 0 <= w0 < 2^32 -> word off -> word len ->
  Mexp w0 off len < 2^32 ->
  step_gas_log n w0 off len = Ok (mem_fee w0 off len + G_log n len, Cmem (Mexp w0 off len))) /\
  (forall w0 off len, 0 <= w0 < 2^32 -> word off -> word len -> Mexp w0 off len < 2^32 ->
  match run_memorySize (calcMemSize off len) with
  | Ok ms => gasSha3 (32 * w0) (Cmem w0) ms len | Err e => Err e | Panic => Panic end
  = Ok (mem_fee w0 off len + G_sha3 len, Cmem (Mexp w0 off len))) /\
  (forall w0 off len, 0 <= w0 < 2^32 -> word off -> word len -> Mexp w0 off len < 2^32 ->
  match run_memorySize (calcMemSize off len) with
  | Ok ms => gasCallDataCopy (32 * w0) (Cmem w0) ms len | Err e => Err e | Panic => Panic end
  = Ok (mem_fee w0 off len + G_copy len, Cmem (Mexp w0 off len))) /\
  (gasCodeCopy = gasCallDataCopy /\ gasReturnDataCopy = gasCallDataCopy).
Proof. exact step_gas_all. Qed.
Print Assumptions C08_step_gas.

(* ---- 2d. memoryGasCost on the WHOLE uint64 range: Cmem_code w = 3w + ((w*w) mod 2^64)/512 is what the code charges in
   total for w words; the function returns exactly this (explicit error above the guard 0xffffffffe0, never a panic);
   Cmem_code = C_mem below 2^32 words and STRICTLY LESS for every accepted size from 2^32 words on (the known finding,
   for all such sizes, not only a witness); on an expanding call the result is the Yellow-Paper fee iff fewer than 2^32 words
   are requested.  Memory size of a step for any big operand, also for the two ranges of the call family.
   Full-strength statement that is FALSE of the code: "= C_mem difference for every accepted size" (memoryGasCost_refuted). ---- *)
Theorem C08_memory_gas_total :
  (forall memLen last n, 0 <= memLen -> 0 <= last < two64 -> 0 <= n < two64 ->
  memoryGasCost memLen last n =
    if n =? 0 then Ok (0, last)
    else if n >? 0xffffffffe0 then Err ErrGasUintOverflow
    else if 32 * ceil32 n >? memLen then Ok (wrap64 (Cmem_code (ceil32 n) - last), Cmem_code (ceil32 n))
    else Ok (0, last)) /\
  (forall w, 0 <= w < 2^32 -> Cmem_code w = Cmem w) /\
  (forall w, 2^32 <= w < 2^35 -> Cmem_code w < Cmem w) /\
  (forall w0 n, 0 <= w0 < 2^32 -> 0 < n <= 0xffffffffe0 -> w0 < ceil32 n ->
  (memoryGasCost (32 * w0) (Cmem w0) n = Ok (Cmem (ceil32 n) - Cmem w0, Cmem (ceil32 n)) <-> ceil32 n < 2^32)) /\
  (forall memLen last n, 0 <= memLen -> 0 <= last < two64 -> 0 <= n < two64 ->
  (memoryGasCost memLen last n = Err ErrGasUintOverflow <-> 0xffffffffe0 < n) /\ memoryGasCost memLen last n <> Panic) /\
  (forall b, 0 <= b ->
  run_memorySize b = if 32 * ceil32 b <=? maxU64 then Ok (32 * ceil32 b) else Err ErrGasUintOverflow) /\
  (forall inOff inSize retOff retSize, word inOff -> word inSize -> word retOff -> word retSize ->
  let need := Z.max (if retSize =? 0 then 0 else retOff + retSize) (if inSize =? 0 then 0 else inOff + inSize) in
  run_memorySize (memoryCall inOff inSize retOff retSize) =
    if 32 * ceil32 need <=? maxU64 then Ok (32 * ceil32 need) else Err ErrGasUintOverflow).
Proof. exact memory_gas_total_all. Qed.
Print Assumptions C08_memory_gas_total.

(* ---- 2e. memory instructions WITHOUT the "memory already resized" precondition.  prepare_mem is the interpreter's own
   preparation of a step (memory size of the operands, gas function, UseGas, Resize).  For ANY 256-bit offset / length it
   ends in one of the two explicit errors or yields the old memory extended by zero bytes, covering the access, below the
   guard (prepare_mem_ok); offset+length beyond 64 bits is always errGasUintOverflow; beyond the guard always an error.
   The instruction bodies then compute the specification on the zero-extended (= the Yellow Paper's infinite) memory:
   MLOAD MSTORE MSTORE8 CALLDATACOPY/CODECOPY SHA3, the byte range of LOGn/RETURN/REVERT/CREATE/CALL inputs;
   RETURNDATACOPY fails with the bounds error exactly when the range exceeds the buffer and never panics. ---- *)
Theorem C08_memory_step :
  (forall avail mem last gasfn off len m' g l', mem_gated gasfn -> word off -> word len ->
  prepare_mem avail mem last gasfn off len = Ok (m', g, l') ->
  exists k, m' = mem ++ repeat 0 k /\ (len = 0 \/ off + len <= blen m') /\ blen m' <= Z.max (blen mem) MEMCAP /\
            gasfn (blen mem) last (if len =? 0 then 0 else 32 * ceil32 (off + len)) = Ok (g, l')) /\
  (forall avail mem last gasfn off len, (forall a b c, gasfn a b c <> Panic) -> word off -> word len ->
  match prepare_mem avail mem last gasfn off len with
  | Ok _ => True
  | Err e => e = ErrGasUintOverflow \/ e = ErrOutOfGas
  | Panic => False
  end) /\
  (forall avail mem last gasfn off len, word off -> word len -> len <> 0 -> two64 <= off + len ->
  prepare_mem avail mem last gasfn off len = Err ErrGasUintOverflow) /\
  (forall avail mem last gasfn off len, mem_gated gasfn -> (forall a b c, gasfn a b c <> Panic) ->
  word off -> word len -> len <> 0 -> MEMCAP < off + len ->
  exists e, prepare_mem avail mem last gasfn off len = Err e) /\
  (forall avail mem last off v m' g l', mem_bounded mem -> word off ->
  run_MLOAD avail mem last off = Ok (v, m', g, l') ->
  v = spec_MLOAD mem off /\ (exists k, m' = mem ++ repeat 0 k) /\ off + 32 <= blen m') /\
  (forall avail mem last off v m'' g l', mem_bounded mem -> bytesval mem -> word off -> word v ->
  run_MSTORE avail mem last off v = Ok (m'', g, l') ->
  exists k, m'' = spec_MSTORE (mem ++ repeat 0 k) off v /\ off + 32 <= blen (mem ++ repeat 0 k)) /\
  (forall avail mem last off v m'' g l', mem_bounded mem -> word off -> word v ->
  run_MSTORE8 avail mem last off v = Ok (m'', g, l') ->
  exists k, m'' = spec_MSTORE8 (mem ++ repeat 0 k) off v /\ off + 1 <= blen (mem ++ repeat 0 k)) /\
  (forall avail mem last data memOff dataOff len m'' g l', mem_bounded mem -> blen data < 2 ^ 62 ->
  word memOff -> word dataOff -> word len ->
  run_DATACOPY avail mem last data memOff dataOff len = Ok (m'', g, l') ->
  exists k, m'' = spec_DATACOPY (mem ++ repeat 0 k) data memOff dataOff len /\ (len = 0 \/ memOff + len <= blen (mem ++ repeat 0 k))) /\
  (forall (H : list Z -> list Z) avail mem last off len v m' g l', mem_bounded mem -> word off -> word len ->
  run_SHA3 H avail mem last off len = Ok (v, m', g, l') -> v = spec_SHA3 H mem off len) /\
  (forall gasfn avail mem last off len d m' g l', mem_gated gasfn -> mem_bounded mem -> word off -> word len ->
  run_RANGE gasfn avail mem last off len = Ok (d, m', g, l') -> d = spec_data mem off (Z.to_nat len)) /\
  (forall avail mem last rd memOff dataOff len, mem_bounded mem -> blen rd < 2 ^ 62 ->
  word memOff -> word dataOff -> word len ->
  match run_RETURNDATACOPY avail mem last rd memOff dataOff len with
  | Ok _ => dataOff + len <= blen rd
  | Err e => e = ErrGasUintOverflow \/ e = ErrOutOfGas \/ (e = ErrReturnDataOutOfBounds /\ blen rd < dataOff + len)
  | Panic => False
  end).
Proof. exact memory_step_all. Qed.
Print Assumptions C08_memory_step.

(* ---- 2f. the gas functions under EVERY fork rule set the built-in chain configurations reach (Generated/GenGasObs.v:
   gen_rulesets = gas table x IsEIP150 x IsEIP158, regenerated from the source on every run).
   (i) gas_functions_observed: what the REAL gasCall / gasCallCode / gasDelegateCall / gasStaticCall / gasSuicide / gasSStore /
       gasExp / gasSha3 / copy / gasExtCodeCopy / gasCreate / gasLog0-4 returned, under each rule set, on the generated operand
       lattice (value 0 / non-zero, callee empty / existing, memory sizes, gas left, requested gas) is what the model returns
       (callgas_check etc. are `forallb (model o =? observed o) generated_list`, OpsProofsGasRules.v) - a dropped surcharge,
       a changed cap or rule flag in gas_table.go breaks THIS obligation;
   (ii) for each generated rule set and ALL inputs the functions equal the Yellow-Paper / EIP-150 / EIP-158 formulas:
       G_call + 9000 iff value <> 0 + 25000 under the fork's new-account rule (EIP-158: value <> 0 and callee empty; before:
       callee non-existent) + memory expansion + min(all-but-one-64th, requested) forwarded; errGasUintOverflow explicit;
   (iii) the stipend (2300 iff value <> 0) that opCall / opCallCode add to the forwarded gas never exceeds what the gas
       function charged for the transfer (9000), hence gas after <= gas before for every callee outcome that returns at most
       what it was given (C07: a frame never ends with more gas than it got). ---- *)
Theorem C08_gas_functions_observed :
  callgas_check = true /\ suicide_check = true /\ sstore_check = true /\ memgas_check = true.
Proof. exact gas_functions_observed. Qed.
Print Assumptions C08_gas_functions_observed.

Theorem C08_call_family_gas_is_yp :
  forall r, In r gen_rulesets ->
  let g := gt_of_gen r in
  (forall value empty exist w0 ms avail cost, word value -> word cost -> 0 <= w0 < 2^32 -> 0 <= ms <= 0x1FFFFFFFE0 -> avail < two64 ->
     let extra := C_extra (gf_Calls g) (grs_eip158 r) value empty exist in
     extra + memfee w0 ms <= avail ->
     gasCall g (grs_eip158 r) value empty exist (32 * w0) (Cmem w0) ms avail cost =
       Ok (C_call extra (memfee w0 ms) avail cost, C_gascap avail (extra + memfee w0 ms) cost, Cmem (Z.max w0 (ceil32 ms)))) /\
  (forall value empty exist w0 ms avail cost res, word value -> word cost -> 0 <= w0 < 2^32 -> 0 <= ms <= 0x1FFFFFFFE0 -> 0 <= avail < two64 ->
     avail < C_extra (gf_Calls g) (grs_eip158 r) value empty exist + memfee w0 ms ->
     gasCall g (grs_eip158 r) value empty exist (32 * w0) (Cmem w0) ms avail cost = Ok res -> avail < fst (fst res)) /\
  (forall value w0 ms avail cost, word value -> word cost -> 0 <= w0 < 2^32 -> 0 <= ms <= 0x1FFFFFFFE0 -> avail < two64 ->
     let extra := gf_Calls g + C_xfer value in
     extra + memfee w0 ms <= avail ->
     gasCallCode g value (32 * w0) (Cmem w0) ms avail cost =
       Ok (C_call extra (memfee w0 ms) avail cost, C_gascap avail (extra + memfee w0 ms) cost, Cmem (Z.max w0 (ceil32 ms)))) /\
  (forall w0 ms avail cost, word cost -> 0 <= w0 < 2^32 -> 0 <= ms <= 0x1FFFFFFFE0 -> avail < two64 ->
     gf_Calls g + memfee w0 ms <= avail ->
     gasDelegateCall g (32 * w0) (Cmem w0) ms avail cost =
       Ok (C_call (gf_Calls g) (memfee w0 ms) avail cost, C_gascap avail (gf_Calls g + memfee w0 ms) cost, Cmem (Z.max w0 (ceil32 ms))) /\
     gasStaticCall g (32 * w0) (Cmem w0) ms avail cost = gasDelegateCall g (32 * w0) (Cmem w0) ms avail cost).
Proof. exact call_family_gas_is_yp. Qed.
Print Assumptions C08_call_family_gas_is_yp.

Theorem C08_other_gas_is_yp :
  forall r, In r gen_rulesets ->
  let g := gt_of_gen r in
  (forall empty exist bal already,
     gasSuicide g (grs_eip150 r) (grs_eip158 r) empty exist bal already =
       (C_selfdestruct (gf_Suicide g) (gf_CreateBySuicide g) true (grs_eip158 r) empty exist bal, R_selfdestruct already)) /\
  (forall cur y, word cur -> word y -> gasSStore cur y = (C_sstore cur y, R_sstore cur y)) /\
  (forall e, word e -> gasExp (gt_of_full g) e = Ok (G_exp (gf_ExpByte g) e)) /\
  (forall memLen last ms len fee last', word len -> memoryGasCost memLen last ms = Ok (fee, last') -> 0 <= fee < two64 ->
     gasExtCodeCopy (gt_of_full g) memLen last ms len =
       if (len <? two64) && (fee + gf_ExtcodeCopy g + 3 * ceil32 len <=? maxU64)
       then Ok (fee + gf_ExtcodeCopy g + 3 * ceil32 len, last') else Err ErrGasUintOverflow) /\
  (forall n memLen last ms requested fee last', 0 <= n <= 4 -> word requested -> memoryGasCost memLen last ms = Ok (fee, last') -> 0 <= fee < two64 ->
     gasLog n memLen last ms requested =
       if (requested <? two64) && (fee + G_log n requested <=? maxU64) then Ok (fee + G_log n requested, last') else Err ErrGasUintOverflow) /\
  (forall memLen last ms len fee last', word len -> memoryGasCost memLen last ms = Ok (fee, last') -> 0 <= fee < two64 ->
     gasCallDataCopy memLen last ms len =
       if (len <? two64) && (fee + G_copy len <=? maxU64) then Ok (fee + G_copy len, last') else Err ErrGasUintOverflow) /\
  (forall memLen last ms fee last', memoryGasCost memLen last ms = Ok (fee, last') -> 0 <= fee < two64 ->
     gasCreate memLen last ms = if fee + 32000 <=? maxU64 then Ok (fee + 32000, last') else Err ErrGasUintOverflow).
Proof. exact other_gas_is_yp. Qed.
Print Assumptions C08_other_gas_is_yp.

Theorem C08_call_stipend_never_mints_gas :
  forall r, In r gen_rulesets ->
  let g := gt_of_gen r in
  (forall value empty exist memLen last ms avail cost gas temp l' returned, word value -> 0 <= avail ->
     gasCall g (grs_eip158 r) value empty exist memLen last ms avail cost = Ok (gas, temp, l') ->
     gas <= avail -> 0 <= returned <= temp + stipend value ->
     avail - gas + returned <= avail /\ stipend value <= C_xfer value) /\
  (forall value memLen last ms avail cost gas temp l' returned, word value -> 0 <= avail ->
     gasCallCode g value memLen last ms avail cost = Ok (gas, temp, l') ->
     gas <= avail -> 0 <= returned <= temp + stipend value ->
     avail - gas + returned <= avail /\ stipend value <= C_xfer value).
Proof. exact call_stipend_never_mints_gas. Qed.
Print Assumptions C08_call_stipend_never_mints_gas.

(* ---- 3. JUMPDEST analysis: never panics; a destination is accepted iff it is a JUMPDEST that starts an instruction ---- *)

Theorem C08_has_no_panic :
  forall code d, Forall byteval code -> 0 <= d -> exists b, has code d = Ok b.
Proof. exact has_no_panic. Qed.
Print Assumptions C08_has_no_panic.

Theorem C08_jumpdest_spec :
  forall code d, Forall byteval code ->
  Z.of_nat (length code) < 2 ^ 62 -> 0 <= d < 2 ^ 256 ->
  (has code d = Ok true <-> valid_jumpdest code d).
Proof. exact jumpdest_spec. Qed.
Print Assumptions C08_jumpdest_spec.

(* ---- 3b. stack, call-data, code and memory instructions (model functions reused by the interpreter model of C07) ---- *)

(* DUPn / SWAPn; getDataBig = the requested bytes, zero beyond the end, for any 256-bit start; CALLDATALOAD; PUSHn incl. push data cut off by the end of the code *)
Theorem C08_stack_data :
  (forall n st, (1 <= n <= 16)%nat -> (n <= length st)%nat ->
  op_DUP (Z.of_nat n) st = Ok (spec_DUP n st)) /\
  (forall n st, (1 <= n <= 16)%nat -> (n + 1 <= length st)%nat ->
  op_SWAP (Z.of_nat n) st = Ok (spec_SWAP n st)) /\
  (forall n st, (1 <= n)%nat -> (length st < n)%nat ->
  op_DUP (Z.of_nat n) st = Panic) /\
  (forall d start size, blen d < 2^62 -> word start -> 0 <= size < 2^62 ->
  getDataBig d start size = spec_data d start (Z.to_nat size)) /\
  (forall d i, blen d < 2^62 -> word i ->
  op_CALLDATALOAD d i = spec_CALLDATALOAD d i) /\
  (forall code pc n, blen code < 2^62 -> 0 <= pc < blen code -> 1 <= n <= 32 ->
  op_PUSH code pc n n = (spec_PUSH n code pc, pc + n)).
Proof. exact stack_data_all. Qed.
Print Assumptions C08_stack_data.

(* MSTORE / MLOAD / MSTORE8 / CALLDATACOPY / CODECOPY write and read exactly the specified bytes once the memory covers the access (what Run guarantees); MLOAD after MSTORE returns the word; RETURNDATACOPY fails exactly when offset+length exceeds the buffer; JUMPI *)
Theorem C08_memory_ops :
  (forall mem off v, bytesval mem -> blen mem < 2^62 -> 0 <= off ->
  off + 32 <= blen mem -> word v ->
  op_MSTORE mem off v = Ok (spec_MSTORE mem off v)) /\
  (forall mem off, blen mem < 2^62 -> 0 <= off -> off + 32 <= blen mem ->
  op_MLOAD mem off = Ok (spec_MLOAD mem off)) /\
  (forall mem off v, blen mem < 2^62 -> 0 <= off < blen mem -> word v ->
  op_MSTORE8 mem off v = Ok (spec_MSTORE8 mem off v)) /\
  (forall mem off v, bytesval mem -> blen mem < 2^62 -> 0 <= off ->
  off + 32 <= blen mem -> word v ->
  exists mem', op_MSTORE mem off v = Ok mem' /\ blen mem' = blen mem /\ op_MLOAD mem' off = Ok v) /\
  (forall mem d memOff dataOff len, blen mem < 2^62 -> blen d < 2^62 ->
  0 <= memOff -> 0 <= len -> memOff + len <= blen mem -> word dataOff ->
  op_DATACOPY mem d memOff dataOff len = Ok (spec_DATACOPY mem d memOff dataOff len)) /\
  (forall mem rd memOff dataOff len, blen rd < 2^62 ->
  word memOff -> word dataOff -> word len ->
  (op_RETURNDATACOPY mem rd memOff dataOff len = Err ErrReturnDataOutOfBounds
   <-> blen rd < dataOff + len)) /\
  (forall code pc pos, 0 <= pc < 2^62 -> op_JUMPI code pc pos 0 = Ok (pc + 1)) /\
  (forall code pc pos cond, cond <> 0 ->
  op_JUMPI code pc pos cond = op_JUMP code pos).
Proof. exact memory_ops_all. Qed.
Print Assumptions C08_memory_ops.

(* ---- 3c. SHA3 (for an arbitrary hash H on byte strings; the executable model instantiates H with Lib.Keccak), the
   environment instructions (ADDRESS ORIGIN CALLER CALLVALUE CALLDATASIZE CODESIZE GASPRICE RETURNDATASIZE COINBASE
   TIMESTAMP NUMBER DIFFICULTY GASLIMIT PC MSIZE GAS), POP, and Interpreter.enforceRestrictions ---- *)
Theorem C08_sha3_env :
  (forall (H : list Z -> list Z) mem off len,
  blen mem < 2^62 -> 0 <= off -> 0 < len -> off + len <= blen mem ->
  op_SHA3_H H mem off len = Ok (spec_SHA3 H mem off len)) /\
  (forall (H : list Z -> list Z) mem off, word off ->
  op_SHA3_H H mem off 0 = Ok (spec_SHA3 H mem off 0)) /\
  (forall (H : list Z -> list Z) mem off len v,
  (forall d, length (H d) = 32%nat /\ Forall (fun b => 0 <= b < 256) (H d)) ->
  op_SHA3_H H mem off len = Ok v -> word v) /\
  (forall op e input code ret mem pc gas, env_words e ->
  op_ENV op e input code ret mem pc gas =
  spec_ENV op (e_address e) (e_origin e) (e_caller e) (e_callvalue e) (e_gasprice e) input code ret
           (e_coinbase e) (e_time e) (e_number e) (e_difficulty e) (e_gaslimit e) pc (blen mem) gas) /\
  (forall op e input code ret mem pc gas v, env_words e ->
  blen input < 2^62 -> blen code < 2^62 -> blen ret < 2^62 -> blen mem < 2^62 ->
  0 <= pc < two64 -> 0 <= gas < two64 ->
  op_ENV op e input code ret mem pc gas = Some v -> word v) /\
  (forall a st, op_POP (a :: st) = Ok st) /\
  (forall isByz readOnly writes isCall value, word value ->
  enforceRestrictions isByz readOnly writes isCall value = true <->
  (isByz = true /\ readOnly = true /\ (writes = true \/ (isCall = true /\ value <> 0)))).
Proof. exact sha3_env_all. Qed.
Print Assumptions C08_sha3_env.

(* ---- 2b. state-dependent gas: SSTORE (with refund), CALL / CALLCODE / DELEGATECALL / STATICCALL (new-account and
   value-transfer surcharges, memory, the 63/64 cap; when the base cost exceeds the gas left the result cannot be paid),
   SELFDESTRUCT (EIP-150 / EIP-158 variants, refund), gas-table lookups, EXTCODECOPY, CREATE ---- *)
Theorem C08_state_gas :
  (forall cur y, word cur -> word y ->
  gasSStore cur y = (C_sstore cur y, R_sstore cur y)) /\
  (forall g eip158 value empty exist w0 ms avail cost,
  gt_ok g -> 0 < gf_CreateBySuicide g -> word value -> word cost -> 0 <= w0 < 2^32 -> 0 <= ms <= 0x1FFFFFFFE0 -> avail < two64 ->
  let extra := C_extra (gf_Calls g) eip158 value empty exist in
  extra + memfee w0 ms <= avail ->
  gasCall g eip158 value empty exist (32 * w0) (Cmem w0) ms avail cost =
    Ok (C_call extra (memfee w0 ms) avail cost, C_gascap avail (extra + memfee w0 ms) cost, Cmem (Z.max w0 (ceil32 ms)))) /\
  (forall g eip158 value empty exist w0 ms avail cost r,
  gt_ok g -> word value -> word cost -> 0 <= w0 < 2^32 -> 0 <= ms <= 0x1FFFFFFFE0 -> 0 <= avail < two64 ->
  avail < C_extra (gf_Calls g) eip158 value empty exist + memfee w0 ms ->
  gasCall g eip158 value empty exist (32 * w0) (Cmem w0) ms avail cost = Ok r -> avail < fst (fst r)) /\
  (forall g value w0 ms avail cost,
  gt_ok g -> 0 < gf_CreateBySuicide g -> word value -> word cost -> 0 <= w0 < 2^32 -> 0 <= ms <= 0x1FFFFFFFE0 -> avail < two64 ->
  let extra := gf_Calls g + C_xfer value in
  extra + memfee w0 ms <= avail ->
  gasCallCode g value (32 * w0) (Cmem w0) ms avail cost =
    Ok (C_call extra (memfee w0 ms) avail cost, C_gascap avail (extra + memfee w0 ms) cost, Cmem (Z.max w0 (ceil32 ms)))) /\
  (forall g w0 ms avail cost,
  gt_ok g -> 0 < gf_CreateBySuicide g -> word cost -> 0 <= w0 < 2^32 -> 0 <= ms <= 0x1FFFFFFFE0 -> avail < two64 ->
  gf_Calls g + memfee w0 ms <= avail ->
  gasDelegateCall g (32 * w0) (Cmem w0) ms avail cost =
    Ok (C_call (gf_Calls g) (memfee w0 ms) avail cost, C_gascap avail (gf_Calls g + memfee w0 ms) cost, Cmem (Z.max w0 (ceil32 ms)))) /\
  (gasStaticCall = gasDelegateCall) /\
  (forall g eip150 eip158 empty exist bal already, gt_ok g ->
  gasSuicide g eip150 eip158 empty exist bal already =
    (C_selfdestruct (gf_Suicide g) (gf_CreateBySuicide g) eip150 eip158 empty exist bal, R_selfdestruct already)) /\
  (forall g,
  gasBalance g = gf_Balance g /\ gasExtCodeSize g = gf_ExtcodeSize g /\ gasSLoad g = gf_SLoad g) /\
  (forall g memLen last ms len fee last', gt_ok g -> word len ->
  memoryGasCost memLen last ms = Ok (fee, last') -> 0 <= fee < two64 ->
  gasExtCodeCopy (gt_of_full g) memLen last ms len =
    if (len <? two64) && (fee + gf_ExtcodeCopy g + 3 * ceil32 len <=? maxU64)
    then Ok (fee + gf_ExtcodeCopy g + 3 * ceil32 len, last') else Err ErrGasUintOverflow) /\
  (forall memLen last ms fee last',
  memoryGasCost memLen last ms = Ok (fee, last') -> 0 <= fee < two64 ->
  gasCreate memLen last ms = if fee + 32000 <=? maxU64 then Ok (fee + 32000, last') else Err ErrGasUintOverflow).
Proof. exact state_gas_all. Qed.
Print Assumptions C08_state_gas.

(* ---- 3d. narrowing a 256-bit stack word to a machine word (x.Uint64(), x.Int64()): the model narrows exactly where the Go
   code does; narrowing forgets the bits above 64, and the guards of BYTE / SHL / SHR / SIGNEXTEND / BLOCKHASH make operands
   k*2^64 + r behave as the specification says (for data offsets and jump destinations see C08_stack_data, C08_jumpdest_spec,
   C08_memory_ops, which hold for every 256-bit operand) ---- *)
Theorem C08_narrowing :
  (forall x, 0 <= x < two64 -> big_Uint64 x = x) /\
  (forall k r, 0 < k -> 0 <= r < two64 ->
  big_Uint64 (k * two64 + r) = r) /\
  (forall getHash number num, 0 <= number < two64 -> word num ->
  op_BLOCKHASH getHash number num = spec_BLOCKHASH getHash number num) /\
  (forall getHash number k r,
  0 <= number < two64 -> 0 < k -> 0 <= r -> word (k * two64 + r) ->
  op_BLOCKHASH getHash number (k * two64 + r) = 0) /\
  (forall k r v, 0 < k -> 0 <= r -> word (k * two64 + r) -> word v ->
  op_BYTE (k * two64 + r) v = 0) /\
  (forall k r v, 0 < k -> 0 <= r -> word (k * two64 + r) -> word v ->
  op_SHL (k * two64 + r) v = 0) /\
  (forall k r v, 0 < k -> 0 <= r -> word (k * two64 + r) -> word v ->
  op_SHR (k * two64 + r) v = 0) /\
  (forall k r v, 0 < k -> 0 <= r -> word (k * two64 + r) -> word v ->
  op_SIGNEXTEND (k * two64 + r) v = v) /\
  (forall inOff inSize retOff retSize,
  word inOff -> word inSize -> word retOff -> word retSize ->
  memoryCall inOff inSize retOff retSize =
  Z.max (if retSize =? 0 then 0 else retOff + retSize) (if inSize =? 0 then 0 else inOff + inSize)).
Proof. exact narrowing_all. Qed.
Print Assumptions C08_narrowing.

(* ---- 3f. big.Int aliasing.  OpsAlias.v writes the instruction shapes of instructions.go with stack slots as REFERENCES into
   a heap of mutable big.Ints and the intPool as a list of references (x.Add(x,y); push(x); pool.put(y) ... DUP =
   pool.get().Set(..), SWAP exchanges references).  Under the invariant "references on the stack and in the pool are pairwise
   distinct" every shape computes on the heap what the value instruction computes and re-establishes the invariant; so
   for whole sequences from the empty stack the heap view IS the value semantics, stack slots never share a big.Int and
   a pooled big.Int is never on the stack.  (The shapes are a hand abstraction of the Go pointer manipulation; the tie is
   the pointer probe VerifAliasRun on the real Stack/intPool after every step + the value correspondence of sequences.) ---- *)
Theorem C08_aliasing :
  (forall o s s', inv s -> rstep o s = Some s' ->
  inv s' /\ vstep o (view s) = Some (view s')) /\
  (forall ops s s', inv s -> rrun ops s = Some s' -> inv s' /\ vrun ops (view s) = Some (view s')) /\
  (forall ops s s', inv s -> rrun ops s = Some s' ->
  NoDup (rs_stack s') /\ (forall r, In r (rs_pool s') -> ~ In r (rs_stack s'))) /\
  (forall h, inv (mk_rstate h 0 [] [])).
Proof. exact aliasing_all. Qed.
Print Assumptions C08_aliasing.

(* ---- 4. the instruction tables of the current source are the prescribed ones; fork selection; constants ---- *)

Theorem C08_table_is_spec :
  forall s op, 0 <= op < 256 ->
  nth_error (gen_table s) (Z.to_nat op) = Some (spec_op s op).
Proof. exact table_is_spec. Qed.
Print Assumptions C08_table_is_spec.

Theorem C08_valid_set_spec :
  forall s op, 0 <= op < 256 ->
  option_map oi_valid (nth_error (gen_table s) (Z.to_nat op)) = Some (spec_valid s op).
Proof. exact valid_set_spec. Qed.
Print Assumptions C08_valid_set_spec.

Theorem C08_arith_gas_table :
  forall s op g, 0 <= op < 256 -> arith_const_gas op = Some g -> spec_valid s op = true ->
  oi_gas (spec_op s op) = "constGasFunc" /\ oi_gas_arg (spec_op s op) = g.
Proof. exact arith_gas_table. Qed.
Print Assumptions C08_arith_gas_table.

Theorem C08_fork_selection_spec :
  forall c n,
  (select_iset c n = Spring <-> active (cc_hf5 c) n) /\
  (select_iset c n = Constantinople <-> ~ active (cc_hf5 c) n /\ active (cc_constantinople c) n) /\
  (select_iset c n = Byzantium <->
     ~ active (cc_hf5 c) n /\ ~ active (cc_constantinople c) n /\ active (cc_byzantium c) n) /\
  (select_iset c n = Homestead <->
     ~ active (cc_hf5 c) n /\ ~ active (cc_constantinople c) n /\ ~ active (cc_byzantium c) n /\ active (cc_homestead c) n) /\
  (select_iset c n = Frontier <->
     ~ active (cc_hf5 c) n /\ ~ active (cc_constantinople c) n /\ ~ active (cc_byzantium c) n /\ ~ active (cc_homestead c) n).
Proof. exact fork_selection_spec. Qed.
Print Assumptions C08_fork_selection_spec.

Theorem C08_selection_observed :
  forall g h name e, In g gen_configs -> In (h, name, e) (gc_observed g) ->
  iset_name (select_iset (cfg_of g) h) = name /\ gt_ExpByte (select_gastable (cfg_of g) h) = e.
Proof. exact selection_observed. Qed.
Print Assumptions C08_selection_observed.

Theorem C08_fork_selection_mainnet :
  exists g, mainnet_cfg = Some g /\
  forall n, 0 <= n ->
    select_iset (cfg_of g) n = (if n <? 22800 then Homestead else Spring) /\
    select_gastable (cfg_of g) n = (if n <? 3600 then GasTableHomestead else GasTableHF1).
Proof. exact fork_selection_mainnet. Qed.
Print Assumptions C08_fork_selection_mainnet.

Theorem C08_params_match :
  MemoryGas = gp_MemoryGas /\ QuadCoeffDiv = gp_QuadCoeffDiv /\ CopyGas = gp_CopyGas /\
  Sha3Gas = gp_Sha3Gas /\ Sha3WordGas = gp_Sha3WordGas /\ LogGas = gp_LogGas /\
  LogTopicGas = gp_LogTopicGas /\ LogDataGas = gp_LogDataGas /\ CreateGas = gp_CreateGas /\
  StackLimit = gp_StackLimit /\
  GasQuickStep = gp_GasQuickStep /\ GasFastestStep = gp_GasFastestStep /\ GasFastStep = gp_GasFastStep /\
  GasMidStep = gp_GasMidStep /\ GasSlowStep = gp_GasSlowStep /\ GasExtStep = gp_GasExtStep /\
  GasSlowStep = gp_ExpGas /\
  GasTableHomestead = {| gt_ExpByte := gp_Homestead_ExpByte; gt_CreateBySuicide := gp_Homestead_CreateBySuicide;
                         gt_Calls := gp_Homestead_Calls; gt_ExtcodeCopy := gp_Homestead_ExtcodeCopy |} /\
  GasTableHF1 = {| gt_ExpByte := gp_HF1_ExpByte; gt_CreateBySuicide := gp_HF1_CreateBySuicide;
                   gt_Calls := gp_HF1_Calls; gt_ExtcodeCopy := gp_HF1_ExtcodeCopy |} /\
  (* the Yellow-Paper tiers used by spec_op are the vm.Gas*Step constants *)
  Gbase = gp_GasQuickStep /\ Gverylow = gp_GasFastestStep /\ Glow = gp_GasFastStep /\
  Gmid = gp_GasMidStep /\ Ghigh = gp_GasSlowStep /\ Gblockhash = gp_GasExtStep.
Proof. exact params_match. Qed.
Print Assumptions C08_params_match.

(* the chain rules NewEVM stores and the write protection enforceRestrictions applies, observed on the code for the seven built-in configurations, are the model's *)
Theorem C08_rules_observed :
  forall g h t sp cp, In g gen_rules -> In (h, t, sp, cp) (gr_observed g) ->
  rules_tuple (select_rules (rcfg_of g) h) = t /\
  enforceRestrictions (r_byzantium (select_rules (rcfg_of g) h)) true true false 0 = sp /\
  enforceRestrictions (r_byzantium (select_rules (rcfg_of g) h)) true false true 1 = cp.
Proof. exact rules_observed. Qed.
Print Assumptions C08_rules_observed.

(* WHAT THE CODE DOES between HF5 and HF7 on the main network: Spring instruction set (STATICCALL, REVERT valid), HF1 gas table, pre-Byzantium rules, no write protection in read-only mode *)
Theorem C08_mainnet_hf5_hf7_window :
  exists g gr, mainnet_cfg = Some g /\ mainnet_rules = Some gr /\
  forall n, 22800 <= n < 36050 ->
    select_iset (cfg_of g) n = Spring /\
    select_gastable (cfg_of g) n = GasTableHF1 /\
    rules_tuple (select_rules (rcfg_of gr) n) = (true, true, false, false, false) /\
    (forall readOnly writes isCall value,
        enforceRestrictions (r_byzantium (select_rules (rcfg_of gr) n)) readOnly writes isCall value = false) /\
    spec_valid Spring 0xfa = true /\ spec_valid Spring 0xfd = true /\ spec_valid Spring 0x3e = true /\ spec_valid Spring 0x1d = true.
Proof. exact mainnet_hf5_hf7_window. Qed.
Print Assumptions C08_mainnet_hf5_hf7_window.

Theorem C08_mainnet_after_hf7 :
  exists gr, mainnet_rules = Some gr /\
  forall n, 36050 <= n ->
    rules_tuple (select_rules (rcfg_of gr) n) = (true, true, true, true, true) /\
    enforceRestrictions (r_byzantium (select_rules (rcfg_of gr) n)) true true false 0 = true.
Proof. exact mainnet_after_hf7. Qed.
Print Assumptions C08_mainnet_after_hf7.

Theorem C08_params_match_state :
  SstoreSetGas = gp_SstoreSetGas /\ SstoreClearGas = gp_SstoreClearGas /\ SstoreResetGas = gp_SstoreResetGas /\
  SstoreRefundGas = gp_SstoreRefundGas /\ CallNewAccountGas = gp_CallNewAccountGas /\
  CallValueTransferGas = gp_CallValueTransferGas /\ SuicideRefundGas = gp_SuicideRefundGas /\ CallStipend = gp_CallStipend /\
  GasTableHomestead_full = {| gf_ExtcodeSize := gp_Homestead_ExtcodeSize; gf_ExtcodeCopy := gp_Homestead_ExtcodeCopy;
      gf_Balance := gp_Homestead_Balance; gf_SLoad := gp_Homestead_SLoad; gf_Calls := gp_Homestead_Calls;
      gf_Suicide := gp_Homestead_Suicide; gf_ExpByte := gp_Homestead_ExpByte; gf_CreateBySuicide := gp_Homestead_CreateBySuicide |} /\
  GasTableHF1_full = {| gf_ExtcodeSize := gp_HF1_ExtcodeSize; gf_ExtcodeCopy := gp_HF1_ExtcodeCopy;
      gf_Balance := gp_HF1_Balance; gf_SLoad := gp_HF1_SLoad; gf_Calls := gp_HF1_Calls;
      gf_Suicide := gp_HF1_Suicide; gf_ExpByte := gp_HF1_ExpByte; gf_CreateBySuicide := gp_HF1_CreateBySuicide |} /\
  gt_of_full GasTableHomestead_full = GasTableHomestead /\ gt_of_full GasTableHF1_full = GasTableHF1.
Proof. exact params_match_state. Qed.
Print Assumptions C08_params_match_state.

(* non-vacuity: concrete words meet the hypotheses; the boundary operands give the specified results;
   the memory-gas domain and a valid jump destination behind PUSH data are inhabited *)
Example C08_example :
  word (2^255) /\ word (2^256 - 1) /\
  op_SDIV (2^255) (2^256 - 1) = 2^255 /\ spec_SDIV (2^255) (2^256 - 1) = 2^255 /\
  op_SIGNEXTEND 0 0xff = 2^256 - 1 /\ op_SAR 255 (2^255) = 2^256 - 1 /\
  exec_arith 0x08 [2^256 - 1; 2^256 - 1; 7] = Ok [(2 * (2^256 - 1)) mod 7] /\
  memoryGasCost 64 (Cmem 2) 1000 = Ok (Cmem 32 - Cmem 2, Cmem 32) /\
  has [0x60; 0x5b; 0x5b] 2 = Ok true /\ has [0x60; 0x5b; 0x5b] 1 = Ok false /\
  oi_valid (spec_op Homestead 0x1d) = false /\ oi_valid (spec_op Spring 0x1d) = true.
Proof. vm_compute. repeat split; try reflexivity; discriminate. Qed.

(* non-vacuity of 2d / 2e: an MLOAD across the end of a 32-byte memory succeeds, reads zero-extended bytes and grows the
   memory to 64 bytes; an offset of 2^64 is refused; 2^32 words are accepted and undercharged *)
Example C08_example_memory_step :
  run_MLOAD 100 (repeat 0 31 ++ [7]) 3 31 = Ok (7 * 2^248, repeat 0 31 ++ [7] ++ repeat 0 32, 6, 6) /\
  run_MLOAD 100 [] 0 (2^64) = Err ErrGasUintOverflow /\
  run_MLOAD 100 [] 0 100000 = Err ErrOutOfGas /\
  memoryGasCost 0 0 (2^37) = Ok (Cmem_code (2^32), Cmem_code (2^32)) /\ Cmem_code (2^32) < Cmem (2^32).
Proof. vm_compute. repeat split; reflexivity. Qed.

(* non-vacuity of 3f: PUSH 5; DUP1; PUSH 7; ADD (in place on the top, 5's copy goes to the pool); SWAP1 on references *)
Example C08_example_aliasing :
  option_map view (rrun [R_push 5; R_dup 1; R_push 7; R_bin Z.add; R_swap 1] (mk_rstate (fun _ => 0) 0 [] [])) = Some [5; 12] /\
  vrun [R_push 5; R_dup 1; R_push 7; R_bin Z.add; R_swap 1] [] = Some [5; 12].
Proof. vm_compute. split; reflexivity. Qed.

(* non-vacuity of 2f: there are four generated rule sets; under the post-HF7 mainnet one a CALLCODE with value charges
   700 + 9000 + forwarded gas, forwards min(63/64 of the rest, requested) and the 2300 stipend stays below the 9000 *)
Example C08_example_gas_rules :
  length gen_rulesets = 4%nat /\ In (rs_nth 2) gen_rulesets /\ grs_eip158 (rs_nth 2) = true /\
  gasCallCode (gt_of_gen (rs_nth 2)) 1 64 6 0 100000 50000 = Ok (700 + 9000 + 50000, 50000, 6) /\
  gasCall (gt_of_gen (rs_nth 2)) true 1 true false 64 6 0 100000 (2^200) = Ok (34700 + (65300 - 65300 / 64), 65300 - 65300 / 64, 6) /\
  stipend 1 = 2300 /\ C_xfer 1 = 9000.
Proof. vm_compute. repeat split; try reflexivity. right. right. left. reflexivity. Qed.

(* Interp is imported only here: it reuses some names of OpsSpec / OpsModel (G_log, CallStipend, ...) *)
From AQ Require Import Evm.Interp Evm.OpsProofsState.

(* ---- 3e. execution of the state-touching instructions, stated about the instruction bodies `exec` of the interpreter
   model AQ.Evm.Interp (C07) with its world's getters as the abstract state: the world obeys the storage / balance / log
   laws; SLOAD SSTORE BALANCE EXTCODESIZE EXTCODECOPY LOGn SELFDESTRUCT do what the Yellow Paper defines; evm.Call's
   entry conditions, the return tail of the CALL family, the stipend, the 63/64 rule of CREATE.  NOT stated here: an
   end-to-end specification of a CALL / CREATE including the callee's run (C07's invariants cover gas, depth, revert). ---- *)
Theorem C08_state_laws :
  (forall w a k v a' k',
  get_state (set_state w a k v) a' k' = if (a' =? a) && (k' =? k) then v else get_state w a' k') /\
  (forall w a k v a',
  get_balance (set_state w a k v) a' = get_balance w a' /\
  get_code (set_state w a k v) a' = get_code w a' /\
  get_nonce (set_state w a k v) a' = get_nonce w a') /\
  (forall w a x a',
  get_balance (add_balance w a x) a' = if a' =? a then get_balance w a + x else get_balance w a') /\
  (forall w l,
  w_logs (add_log w l) = l :: w_logs w /\ w_accts (add_log w l) = w_accts w /\ w_refund (add_log w l) = w_refund w).
Proof. exact state_laws_all. Qed.
Print Assumptions C08_state_laws.

Theorem C08_state_ops :
  (forall rec e w fr temp loc r, f_stack fr = loc :: r -> word loc ->
  exec rec e w fr E_sload temp = X_ok w (set_stack fr (get_state w (f_self fr) loc :: r)) []) /\
  (forall rec e w fr temp loc v r, f_stack fr = loc :: v :: r -> word loc -> word v ->
  exec rec e w fr E_sstore temp = X_ok (set_state w (f_self fr) loc v) (set_stack fr r) []) /\
  (forall rec e w fr temp a r, f_stack fr = a :: r -> word a ->
  exec rec e w fr E_balance temp = X_ok w (set_stack fr (get_balance w (a mod 2 ^ 160) :: r)) []) /\
  (forall rec e w fr temp a r, f_stack fr = a :: r -> word a ->
  exec rec e w fr E_extcodesize temp = X_ok w (set_stack fr (blen (get_code w (a mod 2 ^ 160)) :: r)) []) /\
  (forall rec e w fr temp a memOff codeOff len r,
  f_stack fr = a :: memOff :: codeOff :: len :: r -> word a -> word codeOff ->
  0 <= memOff -> 0 <= len -> memOff + len <= blen (f_mem fr) -> blen (f_mem fr) < 2 ^ 62 ->
  blen (get_code w (a mod 2 ^ 160)) < 2 ^ 62 ->
  exec rec e w fr E_extcodecopy temp =
    X_ok w (set_stack_mem fr r (spec_DATACOPY (f_mem fr) (get_code w (a mod 2 ^ 160)) memOff codeOff len)) []) /\
  (forall rec e w fr temp n mStart mSize topics r,
  0 <= n <= 4 -> Z.of_nat (length topics) = n -> Forall word topics ->
  f_stack fr = mStart :: mSize :: topics ++ r ->
  blen (f_mem fr) < 2 ^ 62 -> 0 <= mStart -> 0 < mSize -> mStart + mSize <= blen (f_mem fr) ->
  exec rec e w fr (E_log n) temp =
    X_ok (add_log w (mk_log (f_self fr) topics (spec_data (f_mem fr) mStart (Z.to_nat mSize)))) (set_stack fr r) []) /\
  (forall rec e w fr temp n mStart topics r,
  0 <= n <= 4 -> Z.of_nat (length topics) = n -> Forall word topics ->
  f_stack fr = mStart :: 0 :: topics ++ r ->
  exec rec e w fr (E_log n) temp = X_ok (add_log w (mk_log (f_self fr) topics [])) (set_stack fr r) []) /\
  (forall rec e w fr temp a r, f_stack fr = a :: r -> word a ->
  let b := a mod 2 ^ 160 in
  exists w', exec rec e w fr E_suicide temp = X_ok w' (set_stack fr r) [] /\
    get_balance w' (f_self fr) = 0 /\
    (b <> f_self fr -> get_balance w' b = get_balance w b + get_balance w (f_self fr)) /\
    (forall c, c <> b -> c <> f_self fr -> get_balance w' c = get_balance w c) /\
    (exist w (f_self fr) = true \/ b = f_self fr -> has_suicided w' (f_self fr) = true)).
Proof. exact state_ops_all. Qed.
Print Assumptions C08_state_ops.

Theorem C08_call_ops :
  (forall rec e w rd tr depth ro caller addr input gas value, depth > CallCreateDepth ->
  let o := do_call rec e w rd tr depth ro caller addr input gas value in
  o_res o = R_err IE_Depth [] /\ o_gas o = gas /\ o_world o = w) /\
  (forall rec e w rd tr depth ro caller addr input gas value,
  depth <= CallCreateDepth -> get_balance w caller < value ->
  let o := do_call rec e w rd tr depth ro caller addr input gas value in
  o_res o = R_err IE_InsufficientBalance [] /\ o_gas o = gas /\ o_world o = w) /\
  (forall rec e w rd tr depth ro caller addr input gas,
  depth <= CallCreateDepth -> 0 <= get_balance w caller -> exist w addr = false -> is_precompile e addr = false -> e_eip158 e = true ->
  let o := do_call rec e w rd tr depth ro caller addr input gas 0 in
  o_res o = R_ok [] /\ o_gas o = gas /\ o_world o = w) /\
  (forall rec e w rd tr depth ro caller addr input gas value,
  depth <= CallCreateDepth -> value <= get_balance w caller -> exist w addr = true ->
  do_call rec e w rd tr depth ro caller addr input gas value =
    let w2 := transfer w caller addr value in
    finish_call w (run_contract rec e w2 addr
       (new_frame (get_code w2 addr) input addr caller value gas ro (depth + 1) tr) rd)) /\
  (forall w fr rest ro rs o ret m, o_res o = R_ok ret ->
  mem_set (f_mem fr) (big_Uint64 ro) (big_Uint64 rs) ret = Ok m ->
  call_return w fr rest ro rs o =
    X_ok (o_world o) (after_child fr (1 :: rest) m (wrap64 (f_gas fr + o_gas o)) (o_rd o) (o_trace o) (o_ro o)) ret) /\
  (forall w fr rest ro rs o ret m, o_res o = R_revert ret ->
  mem_set (f_mem fr) (big_Uint64 ro) (big_Uint64 rs) ret = Ok m ->
  call_return w fr rest ro rs o =
    X_ok (o_world o) (after_child fr (0 :: rest) m (wrap64 (f_gas fr + o_gas o)) (o_rd o) (o_trace o) (o_ro o)) ret) /\
  (forall w fr rest ro rs o er x, o_res o = R_err er x ->
  call_return w fr rest ro rs o =
    X_ok (o_world o) (after_child fr (0 :: rest) (f_mem fr) (wrap64 (f_gas fr + o_gas o)) (o_rd o) (o_trace o) (o_ro o)) x) /\
  (forall rec e w fr temp g addr value inOffset inSize retOffset retSize r,
  f_stack fr = g :: addr :: value :: inOffset :: inSize :: retOffset :: retSize :: r ->
  word addr -> word value -> blen (f_mem fr) < 2 ^ 62 -> 0 <= inOffset -> 0 < inSize -> inOffset + inSize <= blen (f_mem fr) ->
  exec rec e w fr E_call temp =
    call_return w fr r retOffset retSize
      (do_call rec e w (f_rdata fr) (f_trace fr) (f_depth fr) (f_ro fr) (f_self fr) (addr mod 2 ^ 160)
               (spec_data (f_mem fr) inOffset (Z.to_nat inSize))
               (if value =? 0 then temp else wrap64 (temp + CallStipend)) value)) /\
  (forall rec e w fr temp value offset size r input,
  f_stack fr = value :: offset :: size :: r -> e_eip150 e = true ->
  mem_get (f_mem fr) (big_Int64 offset) (big_Int64 size) = Ok input ->
  let o := do_create rec e w (f_rdata fr) (f_trace fr) (f_depth fr) (f_ro fr) (f_self fr) input (f_gas fr - f_gas fr / 64) value in
  forall w' fr' res, exec rec e w fr E_create temp = X_ok w' fr' res ->
    w' = o_world o /\ f_gas fr' = wrap64 (f_gas fr - (f_gas fr - f_gas fr / 64) + o_gas o)).
Proof. exact call_ops_all. Qed.
Print Assumptions C08_call_ops.

