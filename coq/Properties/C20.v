(* Properties/C20.v — Keystore encryption round-trips and rejects wrong passphrases
   and tampering.  Only statements closed by `exact`, with Print Assumptions under each.

   Model: Keystore/KeystoreModel.v (keystore_passphrase.go EncryptKey, DecryptKey,
   decryptKeyV3/V1, getKDFKey, ensureInt, GetKey).  kdf (scrypt / PBKDF2), aes_ctr,
   aes_cbc_dec, H (Keccak-256) and pub_addr (key -> address) are universally
   quantified; what a theorem needs of them is one of its premises. *)
From AQ Require Import Lib.Bytes Lib.Keccak Keystore.KeystoreModel Keystore.KeystoreProofs
  Keystore.StoreModel Keystore.StoreProofs Keystore.KeystorePanic.
Local Open Scope N_scope.

(* 1. Round trip, for every key (any number of leading zero bytes: the key is
      re-encoded as 32 zero-padded bytes), passphrase, salt, IV and scrypt
      parameters for which EncryptKey succeeds.  Premise: AES-CTR is an involution. *)
Theorem C20_roundtrip :
  forall kdf aes_ctr aes_cbc_dec H pub_addr (d : N) (addr id auth salt iv : bytes) (n p : Z) (f : keyfile),
    (forall k i x y, aes_ctr k i x = POk y -> aes_ctr k i y = POk x) ->
    encrypt_key kdf aes_ctr H d addr id auth salt iv n p = Ok f ->
    decrypt_key kdf aes_ctr aes_cbc_dec H pub_addr f auth =
      Ok (padded_big_bytes 32 d, pub_addr (padded_big_bytes 32 d)).
Proof. exact roundtrip. Qed.
Print Assumptions C20_roundtrip.

Theorem C20_key_encoding :
  forall d : N, d < 2 ^ 256 ->
    length (padded_big_bytes 32 d) = 32%nat /\ N_of_be (padded_big_bytes 32 d) = d.
Proof. exact (fun d Hd => conj (padded_big_bytes_32 d Hd) (padded_big_bytes_value d Hd)). Qed.
Print Assumptions C20_key_encoding.

(* 2. Another passphrase: an error, provided the KDF separates the two passphrases
      on the MAC half of its output (bytes 16..32) — else a Keccak collision. *)
Theorem C20_wrong_passphrase_fails :
  forall kdf aes_ctr aes_cbc_dec H pub_addr (d : N) (addr id auth auth' salt iv : bytes) (n p : Z)
         (f : keyfile) (dk dk' mk mk' : bytes),
    encrypt_key kdf aes_ctr H d addr id auth salt iv n p = Ok f ->
    kdf (KScrypt n 8 p) auth salt 32%Z = POk dk -> slice 16 32 dk = Some mk ->
    kdf (KScrypt n 8 p) auth' salt 32%Z = POk dk' -> slice 16 32 dk' = Some mk' ->
    mk' <> mk ->
    decrypt_key kdf aes_ctr aes_cbc_dec H pub_addr f auth' = Err \/
    exists ct, collision H (mk' ++ ct) (mk ++ ct).
Proof. exact wrong_passphrase_fails. Qed.
Print Assumptions C20_wrong_passphrase_fails.

Theorem C20_wrong_passphrase_kdf_error :
  forall kdf aes_ctr aes_cbc_dec H pub_addr (d : N) (addr id auth auth' salt iv : bytes) (n p : Z) (f : keyfile),
    encrypt_key kdf aes_ctr H d addr id auth salt iv n p = Ok f ->
    kdf (KScrypt n 8 p) auth' salt 32%Z = PErr ->
    decrypt_key kdf aes_ctr aes_cbc_dec H pub_addr f auth' = Err.
Proof. exact wrong_passphrase_kdf_error. Qed.
Print Assumptions C20_wrong_passphrase_kdf_error.

(* 1b/2b. The two other formats DecryptKey accepts (EncryptKey never writes them):
   PBKDF2 v3 and scrypt version-1 (AES-CBC under Keccak(dk[:16])[:16]). *)
Theorem C20_roundtrip_pbkdf2 :
  forall kdf aes_ctr aes_cbc_dec H pub_addr (kb addr id auth salt iv : bytes) (c : Z) (dk ek mk ct : bytes),
    (forall k i x y, aes_ctr k i x = POk y -> aes_ctr k i y = POk x) ->
    kdf (KPbkdf2 c) auth salt 32%Z = POk dk -> slice 0 16 dk = Some ek -> slice 16 32 dk = Some mk ->
    aes_ctr ek iv kb = POk ct ->
    decrypt_key kdf aes_ctr aes_cbc_dec H pub_addr (v3_pbkdf2_file addr id ct iv (H (mk ++ ct)) salt c) auth =
      Ok (kb, pub_addr kb).
Proof. exact roundtrip_pbkdf2. Qed.
Print Assumptions C20_roundtrip_pbkdf2.

Theorem C20_roundtrip_v1 :
  forall kdf aes_ctr aes_cbc_dec H pub_addr (kb addr id cipher auth salt iv : bytes) (n r p : Z) (dk dk16 mk ct : bytes),
    kdf (KScrypt n r p) auth salt 32%Z = POk dk -> slice 0 16 dk = Some dk16 -> slice 16 32 dk = Some mk ->
    aes_cbc_dec (firstn 16 (H dk16)) iv ct = POk kb ->
    decrypt_key kdf aes_ctr aes_cbc_dec H pub_addr (v1_scrypt_file addr id cipher ct iv (H (mk ++ ct)) salt n r p) auth =
      Ok (kb, pub_addr kb).
Proof. exact roundtrip_v1. Qed.
Print Assumptions C20_roundtrip_v1.

Theorem C20_wrong_passphrase_fails_pbkdf2 :
  forall kdf aes_ctr aes_cbc_dec H pub_addr (addr id auth' salt iv : bytes) (c : Z) (ct mk dk' mk' : bytes),
    kdf (KPbkdf2 c) auth' salt 32%Z = POk dk' -> slice 16 32 dk' = Some mk' -> mk' <> mk ->
    decrypt_key kdf aes_ctr aes_cbc_dec H pub_addr (v3_pbkdf2_file addr id ct iv (H (mk ++ ct)) salt c) auth' = Err \/
    collision H (mk' ++ ct) (mk ++ ct).
Proof. exact wrong_passphrase_fails_pbkdf2. Qed.
Print Assumptions C20_wrong_passphrase_fails_pbkdf2.

Theorem C20_wrong_passphrase_fails_v1 :
  forall kdf aes_ctr aes_cbc_dec H pub_addr (addr id cipher auth' salt iv : bytes) (n r p : Z) (ct mk dk' mk' : bytes),
    kdf (KScrypt n r p) auth' salt 32%Z = POk dk' -> slice 16 32 dk' = Some mk' -> mk' <> mk ->
    decrypt_key kdf aes_ctr aes_cbc_dec H pub_addr (v1_scrypt_file addr id cipher ct iv (H (mk ++ ct)) salt n r p) auth' = Err \/
    collision H (mk' ++ ct) (mk ++ ct).
Proof. exact wrong_passphrase_fails_v1. Qed.
Print Assumptions C20_wrong_passphrase_fails_v1.

(* 3. Tampering, through unlocking (GetKey): for ANY document found in place of
      the stored one (so for any modification of ciphertext, MAC, salt, IV, KDF
      parameters, or anything else) and any passphrase, GetKey for the account of
      key k never yields another address, and yields key k itself unless two keys
      with one address are exhibited. *)
Theorem C20_tamper_safe_getkey :
  forall kdf aes_ctr aes_cbc_dec H pub_addr (k : bytes) (f' : keyfile) (auth' k' a' : bytes),
    get_key kdf aes_ctr aes_cbc_dec H pub_addr (pub_addr k) f' auth' = Ok (k', a') ->
    a' = pub_addr k /\ (k' = k \/ (k' <> k /\ pub_addr k' = pub_addr k)).
Proof. exact tamper_safe_getkey. Qed.
Print Assumptions C20_tamper_safe_getkey.

(* 3b. For EVERY document and passphrase: what bare DecryptKey accepts carries the MAC
       H(mk ++ ciphertext) for the 16 bytes mk = derived[16:32] of the key derived from the bytes of THIS
       passphrase (get_kdf_key is applied to `auth` itself).  A MAC recomputed without the passphrase -
       for an empty, shorter or all-zero MAC key, whatever dklen says - is accepted only through a Keccak
       collision or if derived[16:32] happens to equal that key. *)
Theorem C20_accepted_mac_key :
  forall kdf aes_ctr aes_cbc_dec H pub_addr (f : keyfile) (auth k a : bytes),
    decrypt_key kdf aes_ctr aes_cbc_dec H pub_addr f auth = Ok (k, a) ->
    exists machex cthex kdfname mac ct d mk,
      as_string (kf_mac f) = Some machex /\ as_string (kf_ciphertext f) = Some cthex /\
      as_string (kf_kdf f) = Some kdfname /\
      hex_decode machex = Some mac /\ hex_decode cthex = Some ct /\
      get_kdf_key kdf f kdfname auth = Ok d /\ slice 16 32 d = Some mk /\ length mk = 16%nat /\
      H (mk ++ ct) = mac.
Proof. exact accepted_mac_key. Qed.
Print Assumptions C20_accepted_mac_key.

(* Bare DecryptKey (used by Import / Export without an address comparison): a
   changed ciphertext under the unchanged MAC is an error or a Keccak collision. *)
Theorem C20_ciphertext_tamper_detected :
  forall kdf aes_ctr aes_cbc_dec H pub_addr (d : N) (addr id auth salt iv : bytes) (n p : Z)
         (f : keyfile) (dk mk ct ct' : bytes),
    encrypt_key kdf aes_ctr H d addr id auth salt iv n p = Ok f ->
    kdf (KScrypt n 8 p) auth salt 32%Z = POk dk -> slice 16 32 dk = Some mk ->
    f = v3_scrypt_file addr id ct iv (H (mk ++ ct)) salt n p ->
    ct' <> ct ->
    decrypt_key kdf aes_ctr aes_cbc_dec H pub_addr (v3_scrypt_file addr id ct' iv (H (mk ++ ct)) salt n p) auth = Err \/
    collision H (mk ++ ct') (mk ++ ct).
Proof. exact ciphertext_tamper_detected. Qed.
Print Assumptions C20_ciphertext_tamper_detected.

(* Full-strength "tamper_safe" for bare DecryptKey would be
     forall f' differing from the stored file in ciphertext, MAC, salt, IV or KDF parameters,
       decrypt_key f' auth = Ok (k', a') -> k' = k.
   It is false for the IV: the Web3 secret-storage MAC is Keccak(dk[16:32] || ciphertext)
   and does not cover it.  Concrete witness (real scrypt / AES-CTR / address answers,
   Keccak computed in Coq): the same file with another IV decrypts, with the right
   passphrase, to a different key and address — and GetKey rejects it. *)
Theorem C20_decrypt_iv_tamper_refuted :
  same_but_iv w_file w_file_iv /\
  exists k a k' a',
    w_decrypt w_file w_pass = Ok (k, a) /\ w_decrypt w_file_iv w_pass = Ok (k', a') /\
    bytes_eqb k k' = false /\ bytes_eqb a a' = false /\
    w_get_key a w_file w_pass = Ok (k, a) /\ w_get_key a w_file_iv w_pass = Err.
Proof. exact decrypt_iv_witness. Qed.
Print Assumptions C20_decrypt_iv_tamper_refuted.

(* … and false for the version member (the MAC covers neither version nor cipher):
   a file written by EncryptKey whose version is changed to "1" passes the MAC check
   and its CTR ciphertext is AES-CBC-decrypted; whenever aesCBCDecrypt accepts it
   (valid PKCS7 padding: about 1 file in 256; the harness exhibits one on every run)
   bare DecryptKey returns those bytes as the key.  GetKey is covered by 3. *)
Theorem C20_decrypt_version_tamper_refuted :
  forall kdf aes_ctr aes_cbc_dec H pub_addr (addr id auth salt iv : bytes) (n p : Z) (dk dk16 mk ct kb' : bytes),
    kdf (KScrypt n 8 p) auth salt 32%Z = POk dk -> slice 0 16 dk = Some dk16 -> slice 16 32 dk = Some mk ->
    aes_cbc_dec (firstn 16 (H dk16)) iv ct = POk kb' ->
    let f := v3_scrypt_file addr id ct iv (H (mk ++ ct)) salt n p in
    let f' := v1_scrypt_file addr id ascii_aes_128_ctr ct iv (H (mk ++ ct)) salt n 8 p in
    same_but_version f f' /\
    decrypt_key kdf aes_ctr aes_cbc_dec H pub_addr f' auth = Ok (kb', pub_addr kb').
Proof. exact version_downgrade. Qed.
Print Assumptions C20_decrypt_version_tamper_refuted.

(* "DecryptKey returns an error on a malformed file" (never panics) is false:
   a document without kdfparams.salt panics in getKDFKey whatever the primitives. *)
Theorem C20_decrypt_never_panics_refuted :
  exists f : keyfile, forall kdf aes_ctr aes_cbc_dec H pub_addr auth,
    decrypt_key kdf aes_ctr aes_cbc_dec H pub_addr f auth = Panic.
Proof. exact (ex_intro _ panic_file decrypt_panics). Qed.
Print Assumptions C20_decrypt_never_panics_refuted.

(* … but it does not panic when every kdfparams member the code type-asserts has the asserted JSON
   type (salt, prf strings; dklen, n, r, p, c numbers) and the primitives themselves return or fail
   with at least 32 bytes of derived-key capacity (that is: the dklen <= 0, r/p = 0 and IV-length
   panics are panics of / after the primitives, recorded as separate findings). *)
Theorem C20_decrypt_no_panic_partial :
  forall kdf aes_ctr aes_cbc_dec H pub_addr (f : keyfile) (auth : bytes),
    kdfparams_typed f -> prims_total kdf aes_ctr aes_cbc_dec ->
    decrypt_key kdf aes_ctr aes_cbc_dec H pub_addr f auth <> Panic.
Proof. exact decrypt_no_panic. Qed.
Print Assumptions C20_decrypt_no_panic_partial.

(* Full form (supersedes the partial statement above, which is kept): for EVERY key-file value
   the JSON layer can produce, every passphrase and all primitives, DecryptKey panics EXACTLY on
   panic_cond: the document passes every check made before getKDFKey (`parsed`: struct typing,
   version dispatch, cipher name, the three hex strings) and then
     - a kdfparams type assertion fails (malformed_kdfparams: salt not a string; or salt is hex and
       dklen is not a number, or kdf = scrypt and one of n, r, p is not a number, or kdf = pbkdf2
       and c is not a number or prf not a string)       [decryptkey-panics-malformed-kdfparams], or
     - the KDF call those members lead to panics inside the primitive, or returns a slice with
       fewer than 32 bytes of capacity                  [decryptkey-panics-dklen-out-of-range], or
     - the MAC matches and the AES primitive panics     [decryptkey-panics-bad-iv-length]. *)
Theorem C20_decrypt_panics_exactly :
  forall kdf aes_ctr aes_cbc_dec H pub_addr (f : keyfile) (auth : bytes),
    decrypt_key kdf aes_ctr aes_cbc_dec H pub_addr f auth = Panic <->
    panic_cond kdf aes_ctr aes_cbc_dec H f auth.   (* Keystore/KeystorePanic.v: the three classes above, spelled out *)
Proof. exact decrypt_panic_iff. Qed.
Print Assumptions C20_decrypt_panics_exactly.

Theorem C20_decrypt_no_panic :
  forall kdf aes_ctr aes_cbc_dec H pub_addr (f : keyfile) (auth : bytes),
    ~ panic_cond kdf aes_ctr aes_cbc_dec H f auth ->
    decrypt_key kdf aes_ctr aes_cbc_dec H pub_addr f auth = Err \/
    exists kb, decrypt_key kdf aes_ctr aes_cbc_dec H pub_addr f auth = Ok (kb, pub_addr kb).
Proof. exact decrypt_value_or_error. Qed.
Print Assumptions C20_decrypt_no_panic.

(* the hypotheses of the partial theorem lie outside the carve-out (the full theorem implies it) *)
Theorem C20_decrypt_no_panic_covers_partial :
  forall kdf aes_ctr aes_cbc_dec H (pub_addr : bytes -> bytes) (f : keyfile) (auth : bytes),
    kdfparams_typed f -> prims_total kdf aes_ctr aes_cbc_dec -> ~ panic_cond kdf aes_ctr aes_cbc_dec H f auth.
Proof. exact typed_total_not_panic_cond. Qed.
Print Assumptions C20_decrypt_no_panic_covers_partial.

(* Each carve-out is a real panic of the model.  Class 1: seven documents, one per type assertion
   (salt missing, dklen a string, n null, r an object, p an array/bool, c a string, prf a number),
   whatever the primitives and the passphrase. *)
Theorem C20_decrypt_no_panic_refuted_malformed :
  forall kdf aes_ctr aes_cbc_dec H pub_addr auth,
    Forall (fun f => decrypt_key kdf aes_ctr aes_cbc_dec H pub_addr f auth = Panic) malformed_witnesses.
Proof. exact malformed_witnesses_panic. Qed.
Print Assumptions C20_decrypt_no_panic_refuted_malformed.

(* Classes 2-4: well-typed documents; the premise is what the implementation's primitive does on
   that one call (dklen = -1: pbkdf2 makes a slice of negative capacity; dklen = 0: capacity 0;
   empty IV: cipher.NewCTR panics) - recorded by the harness on every run. *)
Theorem C20_decrypt_no_panic_refuted_kdf_panic :
  forall kdf aes_ctr aes_cbc_dec H pub_addr auth,
    kdf (KScrypt 2 8 1) auth [] (-1)%Z = PPanic ->
    decrypt_key kdf aes_ctr aes_cbc_dec H pub_addr kdf_panic_witness auth = Panic.
Proof. exact kdf_panic_witness_panics. Qed.
Print Assumptions C20_decrypt_no_panic_refuted_kdf_panic.

Theorem C20_decrypt_no_panic_refuted_short_key :
  forall kdf aes_ctr aes_cbc_dec H pub_addr auth d,
    kdf (KScrypt 2 8 1) auth [] 0%Z = POk d -> (length d < 32)%nat ->
    decrypt_key kdf aes_ctr aes_cbc_dec H pub_addr short_key_witness auth = Panic.
Proof. exact short_key_witness_panics. Qed.
Print Assumptions C20_decrypt_no_panic_refuted_short_key.

Theorem C20_decrypt_no_panic_refuted_bad_iv :
  forall kdf aes_ctr aes_cbc_dec H pub_addr auth d,
    kdf (KScrypt 2 8 1) auth [] 32%Z = POk d -> (32 <= length d)%nat ->
    aes_ctr (firstn 16 d) [] [] = PPanic ->
    decrypt_key kdf aes_ctr aes_cbc_dec H pub_addr (bad_iv_witness (H (firstn 16 (skipn 16 d) ++ []))) auth = Panic.
Proof. exact bad_iv_witness_panics. Qed.
Print Assumptions C20_decrypt_no_panic_refuted_bad_iv.

(* 4. Unlocking as a history (keystore.go Unlock / TimedUnlock / Lock / Update / Export /
      Delete / SignHash, SignTx): the lock-state machine ks_step of KeystoreModel.v, tied to the
      KeyStore by random operation histories on every run.  For EVERY history ops from
      any state: an operation given a passphrase other than its account's is an error
      and leaves the whole state (lock states, passphrases, clock) unchanged; one given
      the right passphrase succeeds; signing succeeds exactly on unlocked accounts; and,
      from a fresh KeyStore, an account that can sign was unlocked earlier in the
      history by an Unlock / TimedUnlock carrying its then-current passphrase. *)
Theorem C20_wrong_passphrase_never_changes_state :
  forall (s0 : ks_state) (ops : list ks_op) (op : ks_op),
    let s := fst (ks_run s0 ops) in
    wrong_passphrase s op -> ks_step s op = (s, false).
Proof. exact wrong_passphrase_never_changes_state. Qed.
Print Assumptions C20_wrong_passphrase_never_changes_state.

Theorem C20_right_passphrase_succeeds :
  forall (s0 : ks_state) (ops : list ks_op) (op : ks_op),
    right_passphrase (fst (ks_run s0 ops)) op -> snd (ks_step (fst (ks_run s0 ops)) op) = true.
Proof. exact right_passphrase_succeeds. Qed.
Print Assumptions C20_right_passphrase_succeeds.

Theorem C20_sign_iff_unlocked :
  forall (s : ks_state) (i : nat) (a : acct),
    nth_error (ks_accts s) i = Some a -> ks_step s (OSign i) = (s, is_unlocked (ks_now s) a).
Proof. exact sign_iff_unlocked. Qed.
Print Assumptions C20_sign_iff_unlocked.

Theorem C20_unlocked_only_by_right_passphrase :
  forall (ops : list ks_op) (i : nat) (a : acct),
    let s := fst (ks_run ks_init ops) in
    nth_error (ks_accts s) i = Some a -> is_unlocked (ks_now s) a = true -> granted ks_init ops i = true.
Proof. exact unlocked_only_by_right_passphrase. Qed.
Print Assumptions C20_unlocked_only_by_right_passphrase.

(* non-vacuity: a history with a right unlock, wrong attempts while unlocked, lock, timed unlock and expiry *)
Example C20_history_example :
  let p := [x61] in let w := [x62] in
  snd (ks_run ks_init [OCreate p; OTimedUnlock 0 w 0; OTimedUnlock 0 p 0; OTimedUnlock 0 w 0; OSign 0;
                       OLock 0; OSign 0; OTimedUnlock 0 p 10; OSign 0; OWait 20; OSign 0])
  = [true; false; true; false; true; true; false; true; true; true; false] /\
  wrong_passphrase (fst (ks_run ks_init [OCreate p; OTimedUnlock 0 p 0])) (OTimedUnlock 0 w 0).
Proof. split; [vm_compute; reflexivity|]. exists 0%nat, [x62]. split; reflexivity. Qed.

(* 5. The KeyStore on top of the file model (StoreModel.cstep: every passphrase operation runs get_key
      - DecryptKey and the address comparison - on the key file the account has on disk; every writing
      operation runs encrypt_key; ks.unlocked is keyed by address; tied to keystore.go by histories whose
      key files are compared after every writing step).  Here the abstract `authenticates` of 4 is DERIVED. *)

(* 5a. Any state, any file on disk: a passphrase operation whose passphrase does not open the account's
       file returns an error (or panics) and leaves the whole state unchanged. *)
Theorem C20_store_not_opened_no_change :
  forall kdf aes_ctr aes_cbc_dec H pub_addr (n p : Z) (s : cstate) (op : cop) (i : nat) (pw : bytes),
    cop_auth op = Some (i, pw) ->
    (forall k a, get_decrypted_key kdf aes_ctr aes_cbc_dec H pub_addr s i pw <> Ok (k, a)) ->
    exists r, cstep kdf aes_ctr aes_cbc_dec H pub_addr n p s op = (s, r, None) /\ r <> ROk.
Proof. exact not_opened_no_change. Qed.
Print Assumptions C20_store_not_opened_no_change.

(* 5b. After ANY history of the KeyStore's own operations (create, unlock, lock, update, export, delete,
       sign, wait) from the empty store, every account's file is one the KeyStore wrote under some
       passphrase p0, and through getDecryptedKey: p0 opens it to the account's key and address (premise:
       AES-CTR involution), and no passphrase the KDF separates from p0 on bytes 16..32 opens it (else a
       Keccak collision).  Premise: key -> address is injective. *)
Theorem C20_store_history_authenticates :
  forall kdf aes_ctr aes_cbc_dec H pub_addr (n p : Z),
    (forall k1 k2, pub_addr k1 = pub_addr k2 -> k1 = k2) ->
    forall (ops : list cop) (i : nat) (a : cacct) (f : keyfile),
    Forall (store_only) ops ->
    let s := crun kdf aes_ctr aes_cbc_dec H pub_addr n p cs_init ops in
    nth_error (cs_accts s) i = Some a -> c_file a = Some f ->
    exists d p0 salt iv,
      store_key kdf aes_ctr H n p d (c_addr a) (c_id a) p0 salt iv = Ok f /\
      ((forall k j x y, aes_ctr k j x = POk y -> aes_ctr k j y = POk x) ->
         get_decrypted_key kdf aes_ctr aes_cbc_dec H pub_addr s i p0 = Ok (padded_big_bytes 32 d, c_addr a)) /\
      (forall p' dk dk' mk mk',
         kdf (KScrypt n 8 p) p0 salt 32%Z = POk dk -> slice 16 32 dk = Some mk ->
         kdf (KScrypt n 8 p) p' salt 32%Z = POk dk' -> slice 16 32 dk' = Some mk' -> mk' <> mk ->
         get_decrypted_key kdf aes_ctr aes_cbc_dec H pub_addr s i p' = Err \/
         exists ct, collision H (mk' ++ ct) (mk ++ ct)).
Proof. exact store_history_authenticates. Qed.
Print Assumptions C20_store_history_authenticates.

(* 5c. For EVERY history - key files replaced from outside and foreign files imported included - an
       unlocked entry holds a key whose address is the account's: a KeyStore account never signs with
       another key. *)
Theorem C20_unlocked_key_is_the_accounts :
  forall kdf aes_ctr aes_cbc_dec H pub_addr (n p : Z) (ops : list cop) (s : cstate),
    Forall (unlocked_key_ok pub_addr) (cs_accts s) ->
    Forall (unlocked_key_ok pub_addr) (cs_accts (crun kdf aes_ctr aes_cbc_dec H pub_addr n p s ops)).
Proof. exact unlocked_key_is_the_accounts. Qed.
Print Assumptions C20_unlocked_key_is_the_accounts.

(* non-vacuity: the recorded file as the result of creating an account in the concrete model, then a
   wrong and a right unlock, signing, the file replaced by its IV-tampered twin, and a refused unlock *)
Example C20_store_example :
  let step := cstep w_kdf w_ctr w_cbc keccak256 w_addr 2 1 in
  let d := N_of_be (fst (match w_decrypt w_file w_pass with Ok x => x | _ => ([], []) end)) in
  let id := match kf_id w_file with JStr s => s | _ => [] end in
  let iv := match hex_decode (match kf_iv w_file with JStr s => s | _ => [] end) with Some b => b | None => [] end in
  let '(s1, r1, f1) := step cs_init (CCreate d id w_pass w_salt iv) in
  let '(s2, r2, _) := step s1 (CTimedUnlock 0 [x61] 0) in
  let '(s3, r3, _) := step s2 (CTimedUnlock 0 w_pass 0) in
  let '(s4, r4, _) := step s3 (CSign 0) in
  let '(s5, r5, _) := step s4 (CLock 0) in
  let '(s6, r6, _) := step s5 (CPutFile 0 w_file_iv) in
  let '(s7, r7, _) := step s6 (CTimedUnlock 0 w_pass 0) in
  f1 = Some w_file /\ (r1, r2, r3, r4, r5, r6, r7) = (ROk, RErr, ROk, ROk, ROk, ROk, RErr) /\ s2 = s1 /\ s7 = s6.
Proof. vm_compute. repeat split. Qed.

(* Non-vacuity: the recorded file is what the model's EncryptKey produces from
   the recorded primitive answers (so the hypotheses of 1-3 are met by a real
   case), and it round-trips. *)
Example C20_example :
  exists d addr id salt iv,
    encrypt_key w_kdf w_ctr keccak256 d addr id w_pass salt iv 2 1 = Ok w_file /\
    w_decrypt w_file w_pass = Ok (padded_big_bytes 32 d, w_addr (padded_big_bytes 32 d)) /\
    hex_decode (hex_encode salt) = Some salt.
Proof.
  exists (N_of_be (fst (match w_decrypt w_file w_pass with Ok x => x | _ => ([], []) end))).
  exists (match hex_decode (match kf_address w_file with JStr s => s | _ => [] end) with Some b => b | None => [] end).
  exists (match kf_id w_file with JStr s => s | _ => [] end).
  exists w_salt.
  exists (match hex_decode (match kf_iv w_file with JStr s => s | _ => [] end) with Some b => b | None => [] end).
  vm_compute. repeat split.
Qed.
