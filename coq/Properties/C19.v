(* Properties/C19.v — Event feeds deliver every value exactly once to every live subscriber.
   Statements over the LTS of aqua/event/feed.go (Feed/FeedLTS.v): any number of Send calls (sid;
   the value sent is the sid), subscriber channels (chan) and unsubscribers, every interleaving.
   `reachable st` is `exists tr, run init tr = Some st`; `log st` is the ghost list of deliveries
   (send, channel), newest first; `count_log s c` counts the deliveries of send s to channel c.
   Only statements closed by `exact`. *)
From Coq Require Import List.
From AQ Require Import Feed.FeedLTS Feed.FeedProofs Feed.FeedInvA Feed.FeedInvB Feed.FeedExact Feed.FeedOrder Feed.FeedRecv Feed.FeedStuck Feed.FeedBlocked.
From AQ Require Import Feed.MuxLTS Feed.MuxProofs Feed.MuxExact Feed.MuxPath Feed.MuxClosed Feed.PostMuLTS Feed.PostMuProofs.
From AQ Require Import Feed.DupLTS Feed.DupProofs Feed.DupDeliver Feed.DupPath.
From AQ Require Import Feed.ScopeLTS Feed.ScopeProofs.
Import ListNotations.

(* exactly_once: on every path of the LTS, a Send that has completed (put the sendLock token back;
   this precedes its return) has delivered its value exactly once to every channel that was
   subscribed before Send was called and on which Unsubscribe was not called before the Send completed *)
Theorem C19_exactly_once : forall t1 c cp t2 s t3 t4 st,
  run init (t1 ++ LSubscribe c cp :: t2 ++ LSendCall s :: t3 ++ LSendUnlock s :: t4) = Some st ->
  ~ In (LUnsubCall c) (t2 ++ t3) ->
  count_log s c (log st) = 1.
Proof. exact exactly_once. Qed.
Print Assumptions C19_exactly_once.

(* ... and at most once to any channel whatsoever (in particular those unsubscribing meanwhile) *)
Theorem C19_at_most_once : forall st s c, reachable st -> count_log s c (log st) <= 1.
Proof. exact at_most_once. Qed.
Print Assumptions C19_at_most_once.

(* nsent_counts: the value returned by Send is the number of deliveries that Send made *)
Theorem C19_nsent_counts : forall st s n st', reachable st -> step st (LSendRet s n) = Some st' ->
  n = count_snd s (log st') /\ log st' = log st.
Proof. exact nsent_counts. Qed.
Print Assumptions C19_nsent_counts.

(* no_delivery_after_unsubscribe_returned: after Unsubscribe on c has returned, no TrySend and no
   Select of any Send delivers to c *)
Theorem C19_no_delivery_after_unsubscribe_returned : forall t1 c t2 st s,
  run init (t1 ++ LUnsubRet c :: t2) = Some st ->
  ~ In (LTryOk s c) t2 /\ ~ In (LSelSent s c) t2.
Proof. exact no_delivery_after_unsubscribe_returned. Qed.
Print Assumptions C19_no_delivery_after_unsubscribe_returned.

(* common_order: if a channel got a before b, Send a acquired sendLock before Send b
   (rank st s = index of s's acquisition of sendLock) ... *)
Theorem C19_common_order_rank : forall st a b c l1 l2 l3, reachable st ->
  log st = l1 ++ (b, c) :: l2 ++ (a, c) :: l3 -> rank st a < rank st b.
Proof. exact common_order_rank. Qed.
Print Assumptions C19_common_order_rank.

(* ... hence no two channels get two sends in different orders *)
Theorem C19_common_order : forall st a b c1 c2 l1 l2 l3 m1 m2 m3, reachable st ->
  log st = l1 ++ (b, c1) :: l2 ++ (a, c1) :: l3 ->
  log st = m1 ++ (a, c2) :: m2 ++ (b, c2) :: m3 -> False.
Proof. exact common_order. Qed.
Print Assumptions C19_common_order.

(* what a subscriber has received (c_recvd, newest first) followed by what is still in its channel is
   exactly the sequence of deliveries to that channel (chan_log, oldest first): nothing lost, duplicated
   or reordered between delivery and receipt *)
Theorem C19_received_is_delivered : forall st c, reachable st ->
  rev (c_recvd (chs st c)) ++ c_buf (chs st c) = chan_log st c.
Proof. exact received_is_delivered. Qed.
Print Assumptions C19_received_is_delivered.

(* sendcases_consistent: the slice manipulations on f.sendCases and its alias `cases` (append of the
   inbox, deactivate = swap + shrink, delete = shift, `cases = f.sendCases[:len(cases)-1]`) never panic,
   never lose or duplicate a case: inbox ++ sendCases has no duplicates and is exactly the set of channels
   subscribed and not yet removed; `cases` = sendCases[:k] are exactly the channels the running Send has
   not served yet and sendCases[k:] exactly those it has served *)
Theorem C19_sendcases_consistent : forall st, reachable st ->
  panicked st = false /\
  NoDup (inbox st ++ arr st) /\
  (forall c, In c (inbox st ++ arr st) <-> (c_subd (chs st c) = true /\ removed (rem st c) = false)) /\
  (forall s, active (s_pc (sndr st s)) = true ->
     s_k (sndr st s) <= length (arr st) /\
     forall c, (In c (firstn (s_k (sndr st s)) (arr st)) -> count_log s c (log st) = 0) /\
               (In c (skipn (s_k (sndr st s)) (arr st)) -> count_log s c (log st) = 1)).
Proof. exact sendcases_consistent. Qed.
Print Assumptions C19_sendcases_consistent.

(* sendLock is a lock: at most one Send (between `<-f.sendLock` and `f.sendLock <- struct{}{}`) or one
   remove holds the token *)
Theorem C19_sendlock_exclusive : forall st, reachable st ->
  (forall s1 s2, holding (s_pc (sndr st s1)) = true -> holding (s_pc (sndr st s2)) = true -> s1 = s2) /\
  (forall c1 c2, rem st c1 = RLocked -> rem st c2 = RLocked -> c1 = c2) /\
  (forall s c, holding (s_pc (sndr st s)) = true -> rem st c = RLocked -> False).
Proof. exact sendlock_exclusive. Qed.
Print Assumptions C19_sendlock_exclusive.

(* no_stuck_state (deadlock freedom under receiver fairness): in every reachable state in which a Send or
   an Unsubscribe is under way (`busy`) and every channel in sendCases can accept a value (buffer space or
   a receiver waiting), some internal step (not a new call, not a receiver action) is enabled.
   Holds at full strength since the fix "event.Feed.Send releases f.mu before panicking on a value of the
   wrong type" (LSendBadType now leaves nothing locked). *)
Theorem C19_no_stuck_state : forall st, reachable st -> busy st ->
  (forall c, In c (arr st) -> can_accept (chs st c) = true) ->
  exists l, internal l = true /\ enabled st l = true.
Proof. exact no_stuck_state. Qed.
Print Assumptions C19_no_stuck_state.

(* non-vacuity: two senders, an unbuffered and a buffered subscriber, an unsubscription handed to the
   running Send while it is blocked in Select on that very channel: a path of the LTS, with one delivery by
   each send (to channel 2), matching the premises of C19_exactly_once for (s, c) = (1, 2) and (2, 2). *)
Example C19_example :
  exists st, run init ([] ++ LSubscribe 2 1 :: [LSubscribe 1 0] ++ LSendCall 1 :: [LSendCall 2; LSendLock 1; LSendMerge 1;
                       LTryFail 1 2; LTryFail 1 1; LSelectEnter 1; LUnsubCall 1; LRemoveNotInbox 1;
                       LSelRemove 1 1; LRemoveHandoff 1; LUnsubRet 1; LTryOk 1 2] ++ LSendUnlock 1 :: [LSendRet 1 1;
                       LSendLock 2; LSendMerge 2; LTryFail 2 2; LSelectEnter 2; LRecvBegin 2; LRecvEnd 2 1;
                       LSelSent 2 2; LSendUnlock 2; LSendRet 2 1]) = Some st
             /\ log st = [(2, 2); (1, 2)] /\ arr st = [2] /\ panicked st = false /\ rank st 1 = 1 /\ rank st 2 = 2.
Proof. eexists. vm_compute. repeat split; reflexivity. Qed.

(* a blocked Send blocks nobody (the liveness-shaped half as a safety statement; generalises fix 7e25422): in every
   reachable state in which Send s sits in reflect.Select — the only place where Send waits for receivers — the
   sendLock token is held by exactly that Send, no remove holds it, and every step of Subscribe and of an
   Unsubscribe under way is enabled; a remover that found nothing in the inbox can hand its channel to this Send *)
Theorem C19_blocked_send_blocks_nobody : forall st s, reachable st -> s_pc (sndr st s) = SSelect ->
  lock st = Some (OSend s) /\
  (forall s', holding (s_pc (sndr st s')) = true -> s' = s) /\
  (forall c cap, c_subd (chs st c) = false -> enabled st (LSubscribe c cap) = true) /\
  (forall c, c_subd (chs st c) = true -> rem st c = RNone -> enabled st (LUnsubCall c) = true) /\
  (forall c, rem st c = RCalled -> enabled st (LRemoveInbox c) = true \/ enabled st (LRemoveNotInbox c) = true) /\
  (forall c, rem st c = RSelecting -> enabled st (LSelRemove s c) = true) /\
  (forall c, rem st c = RHanded -> enabled st (LRemoveHandoff c) = true) /\
  (forall c, rem st c = RDone -> enabled st (LUnsubRet c) = true) /\
  (forall c, rem st c <> RLocked).
Proof. exact blocked_send_blocks_nobody. Qed.
Print Assumptions C19_blocked_send_blocks_nobody.

(* ======================================================================== one channel subscribed several times
   Feed/DupLTS.v is the Feed LTS without the restriction "a channel value is subscribed at most once" (which
   FeedLTS.step imposes and all theorems above live under): sendCases may contain the same channel several
   times, `find`/`delete` work by channel identity, removers of one channel are counted per program point.
   `cnt c l` = number of cases of channel c in l; `dreachable st` = `exists tr, drun dinit tr = Some st`;
   a trace element is (label, hint) where the hint tells which ready case reflect.Select chose. *)

(* multiset form of sendcases_consistent: no slice operation panics; (cases of c in inbox ++ sendCases) +
   (completed removals of c) = (Subscribe calls on c); removers belong to distinct subscriptions; a remover
   that found nothing in the inbox finds a case in sendCases; for the running Send every served case has been
   delivered to, and deliveries + unserved cases never exceed the cases it started with *)
Theorem C19_dup_sendcases_consistent : forall st, dreachable st ->
  d_panicked st = false /\
  (forall c, cnt c (d_inbox st ++ d_arr st) + gone st c = d_nsub st c) /\
  (forall c, r_total (d_rem st c) + locked_by st c <= d_nsub st c) /\
  (forall c, r_sel (d_rem st c) <= cnt c (d_arr st)) /\
  (forall s c, active (s_pc (d_sndr st s)) = true ->
     s_k (d_sndr st s) <= length (d_arr st) /\
     cnt c (skipn (s_k (d_sndr st s)) (d_arr st)) <= count_log s c (d_log st) /\
     count_log s c (d_log st) + cnt c (firstn (s_k (d_sndr st s)) (d_arr st)) <= cnt c (d_cases0 st s)).
Proof. exact dup_sendcases_consistent. Qed.
Print Assumptions C19_dup_sendcases_consistent.

(* never more copies than the channel had cases when the Send merged the inbox (d_cases0) *)
Theorem C19_dup_copies_upper : forall st s c, dreachable st ->
  (active (s_pc (d_sndr st s)) = true \/ s_pc (d_sndr st s) = SUnlocked \/ s_pc (d_sndr st s) = SDone) ->
  count_log s c (d_log st) <= cnt c (d_cases0 st s).
Proof. exact dup_copies_upper. Qed.
Print Assumptions C19_dup_copies_upper.

(* exactly-once, generalised: a completed Send of a well-typed value delivered to channel c at least as many copies
   as c had cases (= live subscriptions) in state m right after SendCall, minus the removers of c already under way
   in m (`inflight`), minus the Unsubscribe calls on c made while the Send ran (`ncalls c t3`).  With one
   subscription and no Unsubscribe this is "at least once", and C19_dup_copies_upper gives "at most once". *)
Theorem C19_dup_copies_lower : forall t1 m0 s h1 m t3 m5 h2 m6 t4 st c,
  drun dinit t1 = Some m0 -> dstep m0 (LSendCall s) h1 = Some m ->
  drun m t3 = Some m5 -> dstep m5 (LSendUnlock s) h2 = Some m6 -> drun m6 t4 = Some st ->
  (forall x, In x t3 -> fst x <> LSendBadType s) ->
  cnt c (d_inbox m ++ d_arr m) <= count_log s c (d_log st) + inflight m c + ncalls c t3.
Proof. exact dup_copies_lower. Qed.
Print Assumptions C19_dup_copies_lower.

(* non-vacuity: channel 1 subscribed twice (cap 8) and channel 2 once; Send 1 delivers two copies to channel 1;
   one of the two subscriptions is unsubscribed (by channel identity); Send 2 delivers one copy *)
Example C19_dup_example :
  exists st, drun dinit [(LSubscribe 1 8, 0); (LSubscribe 1 8, 0); (LSubscribe 2 8, 0); (LSendCall 1, 0); (LSendLock 1, 0); (LSendMerge 1, 0);
                         (LTryOk 1 1, 0); (LTryOk 1 2, 0); (LTryOk 1 1, 0); (LSendUnlock 1, 0); (LSendRet 1 3, 0);
                         (LUnsubCall 1, 0); (LRemoveNotInbox 1, 0); (LRemoveLock 1, 0); (LRemoveUnlock 1, 0); (LUnsubRet 1, 0);
                         (LSendCall 2, 0); (LSendLock 2, 0); (LSendMerge 2, 0); (LTryOk 2 2, 0); (LTryOk 2 1, 0); (LSendUnlock 2, 0); (LSendRet 2 2, 0)] = Some st
    /\ count_log 1 1 (d_log st) = 2 /\ count_log 2 1 (d_log st) = 1 /\ cnt 1 (d_arr st) = 1 /\ d_nsub st 1 = 2 /\ d_panicked st = false.
Proof. eexists. vm_compute. repeat split; reflexivity. Qed.

(* ======================================================================== SubscriptionScope (subscription.go)
   Feed/ScopeLTS.v: Track / Close / scopeSub.Unsubscribe as interleavings of atomic steps with sc.mu explicit
   (`k_mu`); `k_added` = every subscription Track ever accepted, `k_unsubd x` = x's own Unsubscribe has returned;
   `k_cpc st k = CDone` = Close call k has finished (either it did the work or it found the scope closed). *)

(* when ANY Close call has finished: the scope is closed, sc.mu is free, nothing is tracked, every subscription
   ever tracked has been unsubscribed, and Track can only return nil from then on *)
Theorem C19_scope_close_complete : forall st k, kreachable st -> k_cpc st k = CDone ->
  k_closed st = true /\ k_mu st = None /\ k_tracked st = [] /\
  (forall x, In x (k_added st) -> k_unsubd st x = true) /\
  (forall x, kstep st (KTrackAdd x) = None).
Proof. exact scope_close_complete. Qed.
Print Assumptions C19_scope_close_complete.

(* sc.mu is held across the whole loop of Close: meanwhile no Track, no second Close and no map deletion pass *)
Theorem C19_scope_mu_excludes : forall st k todo, kreachable st -> k_cpc st k = CLoop todo ->
  k_mu st = Some k /\ (forall x, kstep st (KTrackAdd x) = None) /\ (forall x, kstep st (KTrackNil x) = None) /\
  (forall k', kstep st (KCloseSkip k') = None) /\ (forall k', kstep st (KCloseBegin k') = None) /\ (forall x, kstep st (KWDel x) = None).
Proof. exact scope_mu_excludes. Qed.
Print Assumptions C19_scope_mu_excludes.

(* non-vacuity: two tracked subscriptions, one unsubscribes itself through its wrapper, Close 1 does the work,
   Close 2 finds the scope closed, a later Track is refused *)
Example C19_scope_example :
  exists st, krun kinit [KTrackAdd 1; KTrackAdd 2; KWUnsub 2; KCloseBegin 1; KCloseUnsub 1 2; KCloseUnsub 1 1; KCloseDone 1;
                         KCloseSkip 2; KTrackNil 3; KWDel 2] = Some st
    /\ k_cpc st 2 = CDone /\ k_added st = [2; 1] /\ k_unsubd st 1 = true /\ k_unsubd st 2 = true
    /\ krun kinit [KTrackAdd 1; KCloseBegin 1; KCloseSkip 2] = None.
Proof. eexists. vm_compute. repeat split; reflexivity. Qed.

(* ======================================================================== TypeMux (aqua/event/event.go)
   LTS Feed/MuxLTS.v: slices are (array id, length) over a heap of arrays; `mreachable st` is
   `exists tr, mrun minit tr = Some st`; `mlog` is the ghost list of deliveries (post, subscription). *)

(* copy-on-write, part 1: no step ever writes an array that has been published (a < nexta);
   Subscribe and posdelete allocate a fresh one *)
Theorem C19_mux_published_arrays_immutable : forall st l st', mstep st l = Some st' ->
  nexta st <= nexta st' /\ forall a, a < nexta st -> heap st' a = heap st a.
Proof. exact heap_stable. Qed.
Print Assumptions C19_mux_published_arrays_immutable.

(* copy-on-write, part 2: the slice a running Post iterates over WITHOUT the lock is still exactly the
   snapshot it took under RLock, and has no duplicates *)
Theorem C19_mux_snapshot_never_mutated : forall st p a len i, mreachable st -> ppcs st p = PIter a len i ->
  firstn len (heap st a) = snap st p /\ NoDup (snap st p).
Proof. exact mux_snapshot_never_mutated. Qed.
Print Assumptions C19_mux_snapshot_never_mutated.

Theorem C19_mux_snapshot_is_subm : forall st p st', mstep st (MPostSnap p) = Some st' ->
  snap st' p = slice_of st (subm st (ptyp st p)).
Proof. exact mux_snapshot_is_subm. Qed.
Print Assumptions C19_mux_snapshot_is_subm.

(* exactly once: a Post that returned nil delivered exactly once to each member of its snapshot that is
   still subscribed (no closewait begun by Unsubscribe / Stop) and was created before the Post began, at
   most once to the other members of the snapshot, and never to anybody outside it *)
Theorem C19_mux_exactly_once : forall st p s, mreachable st -> ppcs st p = PDone ->
  mcount p s (mlog st) <= 1 /\
  (mcount p s (mlog st) = 1 -> In s (snap st p)) /\
  (In s (snap st p) -> sstat st s = UCreated -> created st s <= ptime st p -> mcount p s (mlog st) = 1).
Proof. exact mux_exactly_once. Qed.
Print Assumptions C19_mux_exactly_once.

(* ... the same on paths: a subscription added to type t before Post p of type t was called, and neither
   deleted (Unsubscribe's del) nor closed (closewait of Unsubscribe / Stop, or a Stop completing) before the
   Post returned, received the event exactly once *)
Theorem C19_mux_exactly_once_path : forall t1 s t t2 p t3 t4 st,
  mrun minit (t1 ++ MSubAdd s t :: t2 ++ MPostCall p t :: t3 ++ MPostRet p :: t4) = Some st ->
  (forall l, In l (t2 ++ t3) -> l <> MDel s t /\ l <> MStopEnd /\ l <> MClosing s /\ l <> MSubStopped s) ->
  mcount p s (mlog st) = 1.
Proof. exact mux_exactly_once_path. Qed.
Print Assumptions C19_mux_exactly_once_path.

Theorem C19_mux_at_most_once : forall st p s, mreachable st -> mcount p s (mlog st) <= 1.
Proof. exact mux_at_most_once. Qed.
Print Assumptions C19_mux_at_most_once.

(* nothing is delivered to a subscription after its closewait finished (Unsubscribe / Stop returned) *)
Theorem C19_mux_no_delivery_after_close : forall t1 s t2 st p,
  mrun minit (t1 ++ MPostcClose s :: t2) = Some st -> ~ In (MDeliverSent p s) t2.
Proof. exact mux_no_delivery_after_close. Qed.
Print Assumptions C19_mux_no_delivery_after_close.

(* Stop closes every subscription that is in mux.subm when it finishes, and leaves the mux empty and stopped *)
Theorem C19_mux_stop_closes_all : forall st st', mreachable st -> mstep st MStopEnd = Some st' ->
  stopped st' = true /\ (forall t, subm st' t = None) /\
  (forall t s, In s (slice_of st (subm st t)) -> sstat st' s = UClosed).
Proof. exact mux_stop_closes_all. Qed.
Print Assumptions C19_mux_stop_closes_all.

Theorem C19_mux_stopped_no_subscribers : forall st, mreachable st -> stopped st = true -> forall t, subm st t = None.
Proof. exact mux_stopped_no_subscribers. Qed.
Print Assumptions C19_mux_stopped_no_subscribers.

(* no stuck state for TypeMux (one-step progress, readers assumed willing: MDeliverSent has no reader-side
   guard; `mpanic` = Subscribe was called with a duplicate type): whenever a Post or a Stop is under way, one of
   their own next synchronisation points (`minternal`) is enabled *)
Theorem C19_mux_no_stuck_state : forall st, mreachable st -> mpanic st = false -> mbusy st ->
  exists l, minternal l = true /\ mstep st l <> None.
Proof. exact mux_no_stuck_state. Qed.
Print Assumptions C19_mux_no_stuck_state.

(* non-vacuity: three subscribers of one type; Post 1 blocked on the first one, which is unsubscribed
   meanwhile (posdelete publishes array 3, the snapshot array 2 is untouched): the Post still delivers
   to subscribers 2 and 3, exactly once each *)
Example C19_mux_example :
  exists st, mrun minit [MSubNew 1; MSubAdd 1 0; MSubNew 2; MSubAdd 2 0; MSubNew 3; MSubAdd 3 0; MPostCall 1 0; MPostSnap 1;
                         MDel 1 0; MClosing 1; MDeliverClosed 1 1; MPostcClose 1; MDeliverSent 1 2; MDeliverSent 1 3; MPostRet 1] = Some st
    /\ ppcs st 1 = PDone /\ snap st 1 = [1; 2; 3] /\ heap st 2 = [1; 2; 3] /\ subm st 0 = Some (3, 2) /\ heap st 3 = [2; 3]
    /\ mlog st = [(1, 3); (1, 2)] /\ sstat st 2 = UCreated /\ created st 2 <= ptime st 1.
Proof. eexists. vm_compute. repeat split; try reflexivity. auto. Qed.

(* ---------------------------------------------------------------- Post racing Stop and Unsubscribe *)

(* Post returns ErrMuxClosed (pc PErr) exactly when it observed the mux stopped at its read point (the RLock section):
   the error outcome comes only from a stopped mux, is final and carries no delivery; at the read point the branch is
   decided by mux.stopped alone; a Post that took a snapshot never returns the error; mux.stopped is permanent *)
Theorem C19_mux_post_closed_iff_stopped : forall st p, mreachable st ->
  (ppcs st p = PErr -> stopped st = true /\ (forall s, mcount p s (mlog st) = 0) /\
                      (forall l st', mstep st l = Some st' -> ppcs st' p = PErr)) /\
  (mpanic st = false -> ppcs st p = PCalled -> wlock st = false ->
     (stopped st = true  -> mstep st (MPostStopped p) <> None /\ mstep st (MPostSnap p) = None) /\
     (stopped st = false -> mstep st (MPostSnap p) <> None /\ mstep st (MPostStopped p) = None)) /\
  (forall a len i, ppcs st p = PIter a len i \/ ppcs st p = PDone -> ppcs st p <> PErr) /\
  (stopped st = true -> forall l st', mstep st l = Some st' -> stopped st' = true).
Proof. exact mux_post_closed_iff_stopped. Qed.
Print Assumptions C19_mux_post_closed_iff_stopped.

(* each delivery step of a Post that observed the mux running: the current element of its snapshot is delivered to if
   it is open and was created before the Post; it is never sent to once its postC is closed; nobody else is touched
   (with C19_mux_snapshot_is_subm and C19_mux_exactly_once: exactly the subscribers of the type present at the read
   point that are not closed before their delivery step) *)
Theorem C19_mux_delivery_step_determined : forall st p a len i s, mpanic st = false -> cur st p = Some (a, len, i, s) ->
  (sstat st s = UCreated -> created st s <= ptime st p ->
     mstep st (MDeliverSent p s) <> None /\ mstep st (MDeliverClosed p s) = None /\ mstep st (MDeliverStale p s) = None) /\
  (sstat st s = UClosed -> mstep st (MDeliverSent p s) = None /\ mstep st (MDeliverClosed p s) <> None) /\
  (forall s', s' <> s -> mstep st (MDeliverSent p s') = None /\ mstep st (MDeliverClosed p s') = None /\ mstep st (MDeliverStale p s') = None).
Proof. exact mux_delivery_step_determined. Qed.
Print Assumptions C19_mux_delivery_step_determined.

(* Subscribe after Stop: nothing is added to mux.subm and the subscription comes back closed *)
Theorem C19_mux_subscribe_after_stop : forall st, mreachable st -> stopped st = true ->
  (forall s t, mstep st (MSubAdd s t) = None) /\
  (forall s st', mstep st (MSubStopped s) = Some st' -> sstat st' s = UClosed) /\
  (forall s, mpanic st = false -> wlock st = false -> sstat st s = UCreated -> mstep st (MSubStopped s) <> None).
Proof. exact mux_subscribe_after_stop. Qed.
Print Assumptions C19_mux_subscribe_after_stop.

(* the closewait / deliver protocol of one subscription (Feed/PostMuLTS.v: postMu as a reader/writer lock, closing, postC;
   p_bad = a send completed on the closed channel, Go's "send on closed channel" panic): no interleaving sends on a
   closed channel ... *)
Theorem C19_postmu_no_send_on_closed : forall st, preachable st ->
  p_bad st = false /\ (forall st', pstep st PSent = Some st' -> p_closed st = false /\ p_bad st' = false).
Proof. exact postmu_no_send_on_closed. Qed.
Print Assumptions C19_postmu_no_send_on_closed.

(* ... and nobody blocks forever because of a concurrent Unsubscribe / Stop: once closing is closed every deliver holding
   the read lock can leave through `case <-s.closing`, and when none is left closewait's postMu.Lock() is granted *)
Theorem C19_postmu_no_block : forall st, preachable st -> p_closing st = true ->
  (0 < p_ro st + p_rn st -> pstep st PClosedCase <> None) /\
  (p_ro st + p_rn st = 0 -> p_closed st = false -> pstep st PClose <> None).
Proof. exact postmu_no_block. Qed.
Print Assumptions C19_postmu_no_block.

(* non-vacuity: a Post racing Stop gets ErrMuxClosed and delivers nothing; a deliver blocked on an unread subscriber is
   released by closewait, which then closes the channel; a later deliver sees nil and leaves through closing *)
Example C19_mux_closed_example :
  (exists st, mrun minit [MSubNew 1; MSubAdd 1 0; MPostCall 1 0; MStopBegin; MClosing 1; MPostcClose 1; MStopEnd; MPostStopped 1;
                          MSubNew 2; MSubStopped 2] = Some st
     /\ ppcs st 1 = PErr /\ stopped st = true /\ mlog st = [] /\ sstat st 2 = UClosed) /\
  (exists st, prun pinit [PBegin; PClosing; PClosedCase; PClose; PBegin; PClosedCase] = Some st /\ p_closed st = true /\ p_bad st = false) /\
  prun pinit [PBegin; PClosing; PClose] = None.
Proof. split; [|split]; try (eexists; vm_compute; repeat split; reflexivity); reflexivity. Qed.
