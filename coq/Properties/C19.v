(* Properties/C19.v — Event feeds deliver every value exactly once to every live subscriber.
   Statements over the LTS of aqua/event/feed.go (Feed/FeedLTS.v); `reachable st`
   means `exists tr, run init tr = Some st`.  Only statements closed by `exact`. *)
From Coq Require Import List.
From AQ Require Import Feed.FeedLTS Feed.FeedProofs.
Import ListNotations.

(* nsent_counts: the value returned by Send is the number of deliveries that Send made
   (count_snd s = number of entries (s, _) of the ghost delivery log) *)
Theorem C19_nsent_counts : forall st s n st', reachable st -> step st (LSendRet s n) = Some st' ->
  n = count_snd s (log st') /\ log st' = log st.
Proof. exact nsent_counts. Qed.
Print Assumptions C19_nsent_counts.

(* sendLock is a lock: at most one Send (pc between `<-f.sendLock` and `f.sendLock <- struct{}{}`)
   or one remove holds the token, so f.sendCases and `cases` are only ever touched by one goroutine *)
Theorem C19_sendlock_exclusive : forall st, reachable st ->
  (forall s1 s2, holding (s_pc (sndr st s1)) = true -> holding (s_pc (sndr st s2)) = true -> s1 = s2) /\
  (forall c1 c2, rem st c1 = RLocked -> rem st c2 = RLocked -> c1 = c2) /\
  (forall s c, holding (s_pc (sndr st s)) = true -> rem st c = RLocked -> False).
Proof. exact sendlock_exclusive. Qed.
Print Assumptions C19_sendlock_exclusive.

(* no_stuck_state at full strength would say: in every reachable state in which some call is
   under way and every subscriber can accept a value, some internal step is enabled.
   The code refutes it: Send with a value of the wrong type panics while holding f.mu
   (feed.go, Send: `f.sendLock <- struct{}{}; panic(...)` without f.mu.Unlock()), after which
   an Unsubscribe that is under way can never take its next step, nor can any Subscribe. *)
Theorem C19_no_stuck_state_refuted : exists tr st c,
  run init tr = Some st /\ rem st c = RCalled /\
  (forall c', can_accept (chs st c') = true \/ c_subd (chs st c') = false) /\
  enabled st (LRemoveInbox c) = false /\ enabled st (LRemoveNotInbox c) = false /\
  enabled st (LSubscribe 2 1) = false.
Proof. exact mu_leak_refuted. Qed.
Print Assumptions C19_no_stuck_state_refuted.

(* ... and the leak is permanent *)
Theorem C19_mu_leak_is_permanent : forall st l st', mu_leaked st = true -> step st l = Some st' -> mu_leaked st' = true.
Proof. exact mu_leaked_forever. Qed.
Print Assumptions C19_mu_leak_is_permanent.

(* non-vacuity: two senders, an unbuffered and a buffered subscriber, an unsubscription handed
   to the running Send while it is blocked in Select on that very channel: a path of the LTS,
   with 1 delivery by send 1 (to channel 2), and Send returning 1. *)
Example C19_example :
  exists st, run init [LSubscribe 1 0; LSubscribe 2 1; LSendCall 1; LSendCall 2; LSendLock 1; LSendMerge 1;
                       LTryFail 1 1; LTryOk 1 2; LSelectEnter 1; LUnsubCall 1; LRemoveNotInbox 1;
                       LSelRemove 1 1; LRemoveHandoff 1; LUnsubRet 1; LSendUnlock 1; LSendRet 1 1;
                       LSendLock 2; LSendMerge 2; LTryFail 2 2; LSelectEnter 2; LRecvBegin 2; LRecvEnd 2 1;
                       LSelSent 2 2; LSendUnlock 2; LSendRet 2 1] = Some st
             /\ log st = [(2, 2); (1, 2)] /\ arr st = [2] /\ panicked st = false.
Proof. eexists. vm_compute. repeat split; reflexivity. Qed.
