(* Properties/C04.v — The chain database survives a crash at any write boundary.
   Only statements closed by `exact`, with Print Assumptions under each.

   Model: every database mutation of Chain/Store.v goes through [emit], which
   logs it ([wop] = direct Put / direct Delete / atomic Batch).  A crash after k
   writes leaves [crash_disk d0 log k] = replay of the first k log entries;
   the restart is [open_db] (Chain/Crash.v: NewHeaderChain + loadLastState with
   its Reset and repair paths).  Archive mode; the state trie is one record per
   root ([KState r]), so "children before parents" inside trie.Database.Commit is
   below the model's resolution (checked on the Go side by full state iteration
   at every prefix); pruning is not modelled.

   Full-strength statement: for every history, every k:
       fst (open_db (crash_disk d0 log k)) = SOk                     (A)
       /\ its head is the block of the last LastBlock write among the first k  (B)
       /\ canon_below holds for that head                              (C)
       /\ block data / state referenced from disk is complete          (D)
       /\ re-importing the history converges to the crash-free head    (E)
   (A) and (C) are FALSE of the faithful model as of the Go code:
   C04_open_total_refuted (signature crash-window-head-pointer-before-batch) and
   C04_canon_below_refuted (signature crash-window-canon-before-head).
   (B) is proved in the form: pointer = last write (C04_crash_head_pointer) and
   open returns the block under the pointer (C04_open_head).  (D) is proved for
   all import-only histories and all prefixes at the block level
   (C04_block_data_complete_every_prefix).  (E) is proved from any reopened state that satisfies the chain invariant K
   (C04_replay_converges) and, with no premise on the reopened state, for crash points at operation
   boundaries (C04_replay_converges_at_boundary_partial); inside an operation K must be assumed (false
   in the two known windows); every prefix is checked on the implementation. *)
From Coq Require Import NArith List Bool.
From AQ Require Import Chain.Store Chain.ChainSpec Chain.ChainProofs Chain.ChainWitness Chain.Crash Chain.CrashProofs Chain.ChainReopen Chain.CommitOrder Chain.CommitOrderProofs Chain.FailWrite Chain.ChainCanon Chain.CrashReplay Chain.ChainAllOpsWitness.
Import ListNotations.
Local Open Scope N_scope.

(* (A) refuted: 6 of the 35 crash points of a shorter-but-heavier reorganisation panic on restart *)
Theorem C04_open_total_refuted :
  exists (g : header) (ops : list op),
  let l := log_of (run ops (init_state g)) in
  length l = 34%nat /\
  nth_error l 25 = Some (Put KHeadBlock (VHash 5)) /\
  forallb (fun k => let d := crash_disk (genesis_disk g) l k in
                    (head_ptr d KHeadBlock =? 5) && (match block_by_hash d 5 with None => true | Some _ => false end)
                    && is_panic (fst (open_db d))) [26; 27; 28; 29; 30; 31]%nat = true /\
  is_ok (fst (open_db (crash_disk (genesis_disk g) l 32))) = true.
Proof. exact (ex_intro _ wg (ex_intro _ ops_shorter_heavier crash_window_head_pointer)). Qed.
Print Assumptions C04_open_total_refuted.

(* (C) refuted: the number index is re-pointed before the head pointer *)
Theorem C04_canon_below_refuted :
  exists (g : header) (ops : list op) (k : nat),
  let l := log_of (run ops (init_state g)) in
  let r := open_db (crash_disk (genesis_disk g) l k) in
  fst r = SOk /\ s_hash (cur_block (snd r)) = 4 /\ s_num (cur_block (snd r)) = 3 /\
  ancestor_at (dsk (snd r)) 4 1 = Some 2 /\ canon (dsk (snd r)) 1 = 5.
Proof. exact (ex_intro _ wg (ex_intro _ ops_shorter_heavier (ex_intro _ 25%nat crash_window_canon_before_head))). Qed.
Print Assumptions C04_canon_below_refuted.

(* (B), part 1: whatever the history, the LastBlock pointer a crash leaves behind
   is the last value written to it within the surviving prefix *)
Theorem C04_crash_head_pointer : forall (d0 : disk) (l : list wop) (n : nat),
  get (crash_disk d0 l n) KHeadBlock = val_of (last_write KHeadBlock (firstn n l) None) d0 KHeadBlock.
Proof. exact crash_head_pointer. Qed.
Print Assumptions C04_crash_head_pointer.

(* (B), part 2: a successful restart makes its head the block stored under that
   pointer (or, if that block has no state, an ancestor that has), with state *)
Theorem C04_open_head : forall (d : disk) (s : st), open_db d = (SOk, s) ->
  exists cb0, block_by_hash d (head_ptr d KHeadBlock) = Some cb0 /\
              has_state d (s_root (cur_block s)) = true /\
              (has_state d (s_root cb0) = true -> cur_block s = cb0).
Proof. exact open_db_head. Qed.
Print Assumptions C04_open_head.

(* (D): at EVERY crash point of EVERY import-only history over a well-formed block
   universe, a header on disk has its body, its total difficulty, the state of
   its root and its hash->number record on disk *)
Theorem C04_block_data_complete_every_prefix : forall (U : N -> sblock) (g : header),
  U (h_hash g) = (g, []) -> h_number g = 0 ->
  forall (d0 : disk) (ops : list op),
  inserts_only ops -> (forall b, In b (blocks_of ops) -> wf_block U b) ->
  d0 = genesis_disk g ->
  forall k, block_data_complete (crash_disk d0 (log_of (run ops (pre_open g))) k).
Proof. exact block_data_complete_every_prefix. Qed.
Print Assumptions C04_block_data_complete_every_prefix.

(* (D) also for histories in which the node is closed and reopened anywhere *)
Theorem C04_block_data_complete_every_prefix_with_reopen : forall (U : N -> sblock) (g : header),
  U (h_hash g) = (g, []) -> h_number g = 0 ->
  forall (d0 : disk), h_hash g <> 0 -> d0 = genesis_disk g ->
  forall ops,
  imports_and_reopens ops ->
  (forall b, In b (blocks_of ops) -> wf_block U b /\ h_hash (b_hdr b) <> 0) ->
  forall k, block_data_complete (crash_disk d0 (log_of (run ops (pre_open g))) k).
Proof. exact every_prefix_with_reopen. Qed.
Print Assumptions C04_block_data_complete_every_prefix_with_reopen.

(* a failing write: if the n-th write of any history of imports and restarts fails and the
   process dies there, the disk left behind (= the first n-1 writes) has complete block data
   and its LastBlock pointer is the last one written before.  A process that swallows the error
   and carries on is not modelled (implementation-side check only). *)
Theorem C04_failed_write_disk : forall (U : N -> sblock) (g : header),
  U (h_hash g) = (g, []) -> h_number g = 0 -> h_hash g <> 0 ->
  forall ops, imports_and_reopens ops ->
  (forall b, In b (blocks_of ops) -> wf_block U b /\ h_hash (b_hdr b) <> 0) ->
  forall n,
  let l := log_of (run ops (pre_open g)) in
  block_data_complete (fail_disk (genesis_disk g) l n) /\
  get (fail_disk (genesis_disk g) l n) KHeadBlock
    = val_of (last_write KHeadBlock (firstn (pred n) l) None) (genesis_disk g) KHeadBlock.
Proof. exact failed_write_disk. Qed.
Print Assumptions C04_failed_write_disk.

(* (E) replay converges.  [ops]: a parent-closed history of linked batches of valid well-formed blocks with
   enough coins ([closed_hist]).  Feeding it to ANY state s0 that satisfies the chain invariant K (store
   invariant + number index below the head + receipts + lookup soundness) and stores only blocks of the
   history reaches the same stored set, the same total difficulties and the same head TD as the crash-free
   run; if the heaviest block is unique (otherwise the tie-break coin may legitimately pick another head of
   the same TD) also the same head and the same number index up to the head. *)
Theorem C04_replay_converges : forall (U : N -> sblock) (g : header),
  U (h_hash g) = (g, []) -> h_number g = 0 -> forall (ops : list op) (s0 : st),
  closed_hist U [h_hash g] ops -> K U g s0 ->
  (forall h, header_of (dsk s0) h <> None -> h = h_hash g \/ exists b, In b (blocks_of ops) /\ h_hash (b_hdr b) = h) ->
  let sA := run ops (pre_open g) in let sB := run ops s0 in
  (forall h, header_of (dsk sA) h <> None <-> header_of (dsk sB) h <> None) /\
  (forall h, header_of (dsk sA) h <> None -> td_of (dsk sA) h = td_of (dsk sB) h) /\
  head_td sA = head_td sB /\
  ((forall h, header_of (dsk sA) h <> None -> td_or0 (dsk sA) h = head_td sA -> h = s_hash (cur_block sA)) ->
   s_hash (cur_block sB) = s_hash (cur_block sA) /\
   forall n, n <= s_num (cur_block sA) -> canon (dsk sB) n = canon (dsk sA) n).
Proof. exact replay_converges. Qed.
Print Assumptions C04_replay_converges.

(* ... for the crash points at operation boundaries (the process dies between two InsertChain calls): the
   crash disk opens (SOk) and re-feeding the whole history converges, with no premise on the reopened state.
   `_partial`: for crash points INSIDE an operation the reopened state must still be assumed to satisfy K
   (replay_converges_after_crash in Chain/CrashReplay.v carries that premise); it is false inside the two
   known crash windows (C04_open_total_refuted, C04_canon_below_refuted) and unproved outside them. *)
Theorem C04_replay_converges_at_boundary_partial : forall (U : N -> sblock) (g : header),
  U (h_hash g) = (g, []) -> h_number g = 0 -> h_hash g <> 0 ->
  forall (ops : list op) (j : nat), closed_hist U [h_hash g] ops ->
  (forall b, In b (blocks_of ops) -> h_hash (b_hdr b) <> 0) ->
  let sA := run ops (pre_open g) in
  let k := length (log_of (run (firstn j ops) (pre_open g))) in
  let r := open_db (crash_disk (genesis_disk g) (log_of sA) k) in
  let sB := run ops (snd r) in
  fst r = SOk /\
  (forall h, header_of (dsk sA) h <> None <-> header_of (dsk sB) h <> None) /\
  (forall h, header_of (dsk sA) h <> None -> td_of (dsk sA) h = td_of (dsk sB) h) /\
  head_td sA = head_td sB /\
  ((forall h, header_of (dsk sA) h <> None -> td_or0 (dsk sA) h = head_td sA -> h = s_hash (cur_block sA)) ->
   s_hash (cur_block sB) = s_hash (cur_block sA) /\
   forall n, n <= s_num (cur_block sA) -> canon (dsk sB) n = canon (dsk sA) n).
Proof. exact replay_converges_at_boundary. Qed.
Print Assumptions C04_replay_converges_at_boundary_partial.

(* non-vacuity: a parent-closed history of valid batches over the witness universe *)
Example C04_closed_history_example : closed_hist Uw [h_hash wg] ops_closed.
Proof. exact ops_closed_ok. Qed.

(* closure of the trie store: the commit method of trie.Database emits its puts in post-order (children
   before parents); whatever prefix [p] of that sequence reached the disk - batch
   boundaries anywhere - every node key in [p] has the keys of all its children in
   [p] or among the nodes that were on disk before ([d0]).  Premises: nodes with equal
   hashes have equal children (Merkle), and the references the memory layer treats as
   already committed are on disk. *)
Theorem C04_commit_closure_every_prefix : forall (n : tnode) (d0 : list N),
  merkle n ->
  (forall h, sub (Stored h) n -> In h d0) ->
  forall p suf, post n = p ++ suf ->
  forall h cs, sub (Dirty h cs) n -> In h p ->
  forall c, In c cs -> In (th c) (d0 ++ p).
Proof. exact closure_every_prefix. Qed.
Print Assumptions C04_commit_closure_every_prefix.

(* the memory layer: a commit that completes uncaches exactly what it wrote, a commit that
   fails after any prefix of its batches uncaches nothing: every node of the universe stays
   in memory or on disk (so no later commit can mistake a lost node for a committed one).
   Dropping nodes from memory as they are put into the batch breaks it (example below). *)
Theorem C04_uncache_after_successful_write : forall (univ w p : list N) (s : tdb),
  covered univ s -> covered univ (commit_ok w s) /\ covered univ (commit_failed p s).
Proof. exact uncache_discipline. Qed.
Print Assumptions C04_uncache_after_successful_write.

Example C04_eager_uncache_loses_nodes :
  covered [7] (mkTdb [7] []) /\ ~ covered [7] (commit_failed_eager [] [7] (mkTdb [7] [])).
Proof. exact eager_uncache_loses_nodes. Qed.

(* non-vacuity of the premises, and the order that would break it (node first) *)
Example C04_commit_order_example :
  post t3 = [2; 3; 1] /\ pre_order t3 = [1; 2; 3] /\
  (forall h, sub (Stored h) t3 -> In h [9]) /\ merkle t3.
Proof. exact t3_orders. Qed.

(* non-vacuity: every crash point of a plain two-batch extension restarts on the
   last head written, with the number index naming it *)
Example C04_extension_prefixes_fine :
  let l := log_of (run ops_longer (init_state wg)) in
  forallb (fun k => let r := open_db (crash_disk (genesis_disk wg) l k) in
                    match fst r with
                    | SOk => (s_hash (cur_block (snd r)) =? head_ptr (crash_disk (genesis_disk wg) l k) KHeadBlock)
                             && (canon (dsk (snd r)) (s_num (cur_block (snd r))) =? s_hash (cur_block (snd r)))
                    | _ => false
                    end) (seq 0 (S (length l))) = true.
Proof. exact crash_prefixes_of_extension_fine. Qed.
