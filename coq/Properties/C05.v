(* Properties/C05.v — Coins are created only by the block reward schedule.
   Only statements closed by `exact`, with Print Assumptions under each.
   `supply s` is the sum of all account balances of the state (Tx/Transition.v);
   `issuance` is written from the property text (Tx/Supply.v); accumulate_rewards,
   apply_hf4, process follow consensus/aquahash/consensus.go, consensus/misc/hf.go and
   core/state_processor.go over the generated constants (Generated/GenParamsTx.v).
   The EVM interpreter is the parameter `run`; what C05 needs from it is the premise
   run_no_inflation (it keeps balances non-negative and does not create value) —
   that premise is the C07/C08 side of the property and is checked on the real EVM by
   the C05 harness (sum of balances before/after every transaction and block). *)
From AQ Require Import Lib.Bytes Tx.Transition Tx.Supply Tx.TxProofs Tx.SupplyProofs Generated.GenParamsTx.
From AQ Require Evm.Interp Evm.InterpProofs Evm.InterpProofs3 Tx.InterpSupply Tx.Compose.
Import ListNotations.
Local Open Scope Z_scope.

(* Transfer = SubBalance + AddBalance moves value, never creates it *)
Theorem C05_transfer_conserves_supply : forall s a b v, supply (transfer s a b v) = supply s.
Proof. exact transfer_conserves_supply. Qed.
Print Assumptions C05_transfer_conserves_supply.

(* gas purchase, refund and fee are balanced: executing a transaction never increases the total *)
Theorem C05_tx_no_inflation : forall cfg num coinbase run idx s pool cum m r,
  gas_bounded run -> (m_gas m < two64)%N ->
  apply_transaction cfg num coinbase run idx s pool cum m = TxOk r ->
  nonneg s ->
  run_no_inflation run ->
  supply (x_state r) <= supply s /\ nonneg (x_state r).
Proof. exact tx_no_inflation. Qed.
Print Assumptions C05_tx_no_inflation.

(* ... and leaves it unchanged when the execution conserves value and destroys no account *)
Theorem C05_tx_supply_exact : forall cfg num coinbase run idx s pool cum m r,
  gas_bounded run -> (m_gas m < two64)%N ->
  apply_transaction cfg num coinbase run idx s pool cum m = TxOk r ->
  nonneg s ->
  run_conserves run ->
  supply (x_state r) = supply s.
Proof. exact tx_supply_exact. Qed.
Print Assumptions C05_tx_supply_exact.

(* the constants of the schedule as the code has them today *)
Theorem C05_reward_constants : block_reward = aqua /\ uncle_div = 8 /\ nephew_div = 32 /\ max_money = 42000000%N.
Proof. exact reward_constants. Qed.
Print Assumptions C05_reward_constants.

(* accumulateRewards pays exactly the schedule: 1 AQUA below 42,000,000, (8+u-n)/8 per uncle to its
   miner, 1/32 per uncle to the block's miner; nothing from 42,000,000 on *)
Theorem C05_rewards_are_schedule : forall h uncles s,
  supply (accumulate_rewards h uncles s) = supply s + issuance (h_number h) uncles.
Proof. exact rewards_are_schedule. Qed.
Print Assumptions C05_rewards_are_schedule.

(* the one protocol exception: hard fork 4 can only lower the total *)
Theorem C05_hf4_only_lowers : forall dealloc s, nonneg s ->
  supply (apply_hf4 dealloc s) <= supply s /\ nonneg (apply_hf4 dealloc s).
Proof. exact hf4_only_lowers. Qed.
Print Assumptions C05_hf4_only_lowers.

(* a block changes the total by at most the issuance, and by exactly the issuance when nothing
   self-destructs / burns and the block is not the hard-fork-4 block *)
Theorem C05_block_supply : forall cfg dealloc run s h txs uncles s' rs used,
  gas_bounded run -> run_no_inflation run ->
  Forall (fun m => (m_gas m < two64)%N) txs -> nonneg s ->
  process cfg dealloc run s h txs uncles = BlockOk s' rs used ->
  supply s' <= supply s + issuance (h_number h) uncles /\
  (run_conserves run -> at_fork (c_hf4 cfg) (h_number h) = false ->
   supply s' = supply s + issuance (h_number h) uncles).
Proof. exact block_supply. Qed.
Print Assumptions C05_block_supply.

(* The premise run_no_inflation, at the level of the C07 interpreter (AQ.Evm.Interp: the real instruction set,
   jump tables, gas, CALL / CALLCODE / DELEGATECALL / STATICCALL, reverts, SELFDESTRUCT, precompiles), for every
   code, fuel and world: balances stay non-negative and the sum of all balances does not grow — it can only
   shrink, by a SELFDESTRUCT naming the contract itself.  `_partial`: the CREATE instruction is excluded (no byte
   0xf0 in the code of the frame or of any account): Interp's stack holds unbounded integers and carries no
   theorem that entries are >= 0, which evm.Create's value operand needs (see Tx/InterpSupply.v).  Full strength
   would drop `wcf` / `cf` and instantiate `run` of C05_tx_no_inflation with the interpreter. *)
Theorem C05_exec_no_inflation_partial : forall fuel e w fr,
  (exists s, Interp.e_tbl e = Interp.ctbl_of s) ->
  InterpSupply.winv w -> InterpSupply.wcf w -> InterpSupply.cf (Interp.f_code fr) ->
  let o := Interp.interp fuel e w fr in
  InterpSupply.winv (Interp.o_world o) /\ InterpSupply.wcf (Interp.o_world o) /\
  InterpSupply.wsupply (Interp.o_world o) <= InterpSupply.wsupply w.
Proof. exact InterpSupply.exec_no_inflation. Qed.
Print Assumptions C05_exec_no_inflation_partial.

Theorem C05_call_no_inflation_partial : forall fuel e w caller addr input gas value,
  (exists s, Interp.e_tbl e = Interp.ctbl_of s) ->
  InterpSupply.winv w -> InterpSupply.wcf w -> 0 <= value ->
  let o := Interp.call_top fuel e w caller addr input gas value in
  InterpSupply.winv (Interp.o_world o) /\ InterpSupply.wcf (Interp.o_world o) /\
  InterpSupply.wsupply (Interp.o_world o) <= InterpSupply.wsupply w.
Proof. exact InterpSupply.call_top_no_inflation. Qed.
Print Assumptions C05_call_no_inflation_partial.

(* "... and by exactly that amount whenever no contract self-destructs", at the interpreter level: when neither
   CREATE (excluded as above) nor SELFDESTRUCT (0xff) occurs in any code, a message call conserves the sum
   exactly; no sign condition on balances or value is needed *)
Theorem C05_call_supply_exact_partial : forall fuel e w caller addr input gas value,
  (exists s, Interp.e_tbl e = Interp.ctbl_of s) -> InterpSupply.wnf w ->
  let o := Interp.call_top fuel e w caller addr input gas value in
  InterpSupply.wnf (Interp.o_world o) /\ InterpSupply.wsupply (Interp.o_world o) = InterpSupply.wsupply w.
Proof. exact InterpSupply.call_top_supply_exact. Qed.
Print Assumptions C05_call_supply_exact_partial.

(* The composition: C05_tx_no_inflation / C05_block_supply with `run` instantiated by the C07 interpreter
   (Compose.interp_runner) — no interpreter premise is left except a well-formed environment and the CREATE
   exclusion of C05_exec_no_inflation_partial, here as a condition on the code store: no code contains byte 0xf0.
   `_partial` for that exclusion and because creation transactions run a failing stub (Tx/Compose.v). *)
Theorem C05_tx_no_inflation_evm_partial : forall fuel e code_of stor_of dg sg,
  InterpProofs.wf_env e ->
  forall cfg num coinbase idx s pool cum m r,
  (forall d, InterpSupply.cf (code_of d)) ->
  (m_gas m < two64)%N -> nonneg s ->
  apply_transaction cfg num coinbase (Compose.interp_runner fuel e code_of stor_of dg sg) idx s pool cum m = TxOk r ->
  supply (x_state r) <= supply s /\ nonneg (x_state r).
Proof. exact Compose.tx_no_inflation_evm. Qed.
Print Assumptions C05_tx_no_inflation_evm_partial.

Theorem C05_block_supply_evm_partial : forall fuel e code_of stor_of dg sg,
  InterpProofs.wf_env e ->
  forall cfg dealloc s h txs uncles s' rs used,
  (forall d, InterpSupply.cf (code_of d)) ->
  Forall (fun m => (m_gas m < two64)%N) txs -> nonneg s ->
  process cfg dealloc (Compose.interp_runner fuel e code_of stor_of dg sg) s h txs uncles = BlockOk s' rs used ->
  supply s' <= supply s + issuance (h_number h) uncles.
Proof. exact Compose.block_supply_evm. Qed.
Print Assumptions C05_block_supply_evm_partial.

(* non-vacuity: a contract holding 10 that pays 3 to its caller and then self-destructs to itself, called with
   value 5 under mainnet rules at height 40000: the premises hold, and the sum goes from 1015 to 1003 (12 burnt) *)
Example C05_interp_example :
  let e := InterpProofs3.demo_env 40000 in
  let code := [0x60; 0; 0x60; 0; 0x60; 0; 0x60; 0; 0x60; 3; 0x33; 0x60; 0; 0xf1; 0x50; 0x30; 0xff] in
  let w := Interp.mk_world [(0xaa, Interp.mk_account 0 1000 [] [] false); (0xbb, Interp.mk_account 1 10 code [] false)] [] 0 in
  (exists s, Interp.e_tbl e = Interp.ctbl_of s) /\ InterpSupply.winv w /\ InterpSupply.wcf w /\
  let o := Interp.call_top 200 e w 0xaa 0xbb [] 100000 5 in
  Interp.o_res o = Interp.R_ok [] /\ InterpSupply.wsupply w = 1010 /\ InterpSupply.wsupply (Interp.o_world o) = 998.
Proof.
  cbv zeta. split; [eexists; reflexivity|].
  split; [apply InterpSupply.winvb_winv; reflexivity|].
  split; [apply InterpSupply.wcfb_wcf; reflexivity|].
  vm_compute. repeat split; reflexivity.
Qed.

(* non-vacuity: a block at height 100 with one uncle at depth 2 and one value transfer, on a
   non-negative state, with an interpreter meeting the premises: total grows by 1 + 6/8 + 1/32 AQUA *)
Local Open Scope N_scope.
Example C05_example :
  let run := simple_run 0 0 in
  let s := [(10, mkAcc 1000000%Z 0 0 0); (12, mkAcc 3%Z 0 0 0)] in
  let h := mkHeader 100 12 8000000 21000 in
  let txs := [mkMsg 10 (Some 11) 0 2 21000 5 [] true] in
  let uncles := [mkUncle 98 13] in
  gas_bounded run /\ run_no_inflation run /\ run_conserves run /\ nonneg s /\
  Forall (fun m => (m_gas m < two64)%N) txs /\
  issuance 100 uncles = 1781250000000000000%Z /\
  exists s' rs, process all_forks [] run s h txs uncles = BlockOk s' rs 21000 /\
                supply s' = (supply s + 1781250000000000000)%Z /\
                block_valid all_forks [] run s h txs uncles = true.
Proof.
  cbv zeta. split; [apply simple_run_gas_bounded|].
  split; [intros ri st Hn; split; [exact Hn|cbn; lia]|].
  split; [intros ri st; split; reflexivity|].
  split; [intros a; cbn [get]; destruct (10 =? a); [cbn; lia|]; destruct (12 =? a); cbn; lia|].
  split; [repeat constructor|].
  split; [vm_compute; reflexivity|].
  eexists. eexists. split; [vm_compute; reflexivity|]. split; vm_compute; reflexivity.
Qed.

(* the uncle schedule at its edges: depth 7 pays 1/8 AQUA, depth 8 pays nothing to the uncle's miner (the nephew
   reward is still paid), two uncles of one miner add up, and an uncle ABOVE the block (which only VerifyUncles,
   property C13, keeps out: accumulateRewards has no guard of its own) would be paid more than a block *)
Example C05_uncle_edges :
  issuance 100 [mkUncle 93 7] = (1000000000000000000 + 125000000000000000 + 31250000000000000)%Z /\
  issuance 100 [mkUncle 92 7] = (1000000000000000000 + 0 + 31250000000000000)%Z /\
  issuance 100 [mkUncle 99 7; mkUncle 98 7] = (1000000000000000000 + 875000000000000000 + 750000000000000000 + 2 * 31250000000000000)%Z /\
  issuance 100 [mkUncle 102 7] = (1000000000000000000 + 1250000000000000000 + 31250000000000000)%Z /\
  bal (get 7 (accumulate_rewards (mkHeader 100 7 0 0) [mkUncle 93 7; mkUncle 92 7] [])) = (1000000000000000000 + 125000000000000000 + 2 * 31250000000000000)%Z /\
  issuance 42000000 [mkUncle 41999999 7] = 0%Z.
Proof. vm_compute. repeat split; reflexivity. Qed.
