(* Property C18 — No RPC endpoint can make the node sign unless explicitly opted in.

   Model: Rpc/Registry.v (rpc.RegisterName / isProtectedMethodName / NewServer, node.start*,
   sense.EnvBool); data: Generated/GenApis.v, regenerated from the current tree on every run
   (services and method sets as suitableCallbacks sees them on a live node, per-method
   "reaches a keystore signing entry point" bit [e_signs] from a VTA call graph, the runtime
   names of the functions calling RegisterName, isProtectedMethodName on every name).

   gen_exposed f t c gen_apis = the registry served on transport t (InProc | IPC | HTTP | WS)
   when the five UNSAFE_* variables read as f and the module whitelists are c; None = the
   start function fails.

   FULL-STRENGTH STATEMENT (false of the unchanged tree, see the _refuted theorems):

     default_env_no_signing :
       forall t c r e, gen_exposed all_off t c gen_apis = Some r ->
                       In e (r_entries r) -> e_signs e = false.

   What holds instead: every served signing method on a transport that is not opted in is one
   of the four in [unprotected_signers] (personal_signAndSendTransaction, miner_start,
   aqua_getWork, testing_getBlockTemplate); no method with a protected NAME is served; and
   the opt-in is strictly per transport. *)
From AQ Require Import Lib.Bytes Rpc.Registry Generated.GenApis Rpc.RpcModel Rpc.RpcProofs.
Import ListNotations.

(* --- generic: RegisterName, for any service, any registry, any caller, any environment --- *)

Theorem C18_register_removes_exactly_protected :
  forall (f : flags) (caller : bytes) (r : registry) (a : api) (r' : registry),
  register f caller r a = Some r' ->
  (forall e, In e (r_entries r') ->
     In e (r_entries r) \/
     exists m, In m (a_methods a) /\ e = mk_entry a m /\
               (m_sub m = true \/ is_protected (m_name m) = false \/ is_allowed f caller = true))
  /\ (forall m, In m (a_methods a) ->
        (m_sub m = true \/ is_protected (m_name m) = false \/ is_allowed f caller = true) ->
        exists e, In e (r_entries r') /\ same_key e (mk_entry a m) = true)
  /\ (forall x, In x (r_entries r) -> exists e, In e (r_entries r') /\ same_key e x = true)
  /\ (forall m, In m (a_methods a) -> m_sub m = false -> is_protected (m_name m) = true ->
        is_allowed f caller = false ->
        In (mk_entry a m) (r_entries r') -> In (mk_entry a m) (r_entries r)).
Proof. exact register_removes_exactly_protected. Qed.
Print Assumptions C18_register_removes_exactly_protected.

(* --- generic in the API list: without opt-in no callback with a protected name is served --- *)

Theorem C18_no_optin_no_protected_name :
  forall (f : flags) (t : transport) (c : config) (r : registry) (e : entry),
  flag_of f t = false ->
  gen_exposed f t c gen_apis = Some r -> In e (r_entries r) ->
  e_sub e = true \/ is_protected (e_go e) = false.
Proof. exact no_optin_no_protected_gen. Qed.
Print Assumptions C18_no_optin_no_protected_name.

(* --- the central clause, refuted at full strength --- *)

Theorem C18_default_env_no_signing_refuted :
  exists t c r e, gen_exposed all_off t c gen_apis = Some r /\ In e (r_entries r) /\
                  e_signs e = true /\ wire_name e = n_personal_sasT.
Proof. exact default_env_no_signing_refuted. Qed.
Print Assumptions C18_default_env_no_signing_refuted.

Theorem C18_default_env_no_signing_refuted_inproc :
  exists r e, gen_exposed all_off InProc gen_default_config gen_apis = Some r /\ In e (r_entries r) /\
              e_signs e = true /\ wire_name e = n_personal_sasT.
Proof. exact default_env_no_signing_refuted_inproc. Qed.
Print Assumptions C18_default_env_no_signing_refuted_inproc.

Theorem C18_default_env_no_signing_refuted_http_ws :
  (exists r e, gen_exposed all_off HTTP cfg_personal gen_apis = Some r /\ In e (r_entries r) /\
               e_signs e = true /\ wire_name e = n_personal_sasT)
  /\ (exists r e, gen_exposed all_off WS cfg_personal gen_apis = Some r /\ In e (r_entries r) /\
               e_signs e = true /\ wire_name e = n_personal_sasT).
Proof. exact default_env_no_signing_refuted_http_ws. Qed.
Print Assumptions C18_default_env_no_signing_refuted_http_ws.

Theorem C18_default_env_no_signing_refuted_public_getwork :
  (exists r e, gen_exposed all_off HTTP gen_default_config gen_apis = Some r /\ In e (r_entries r) /\
               e_signs e = true /\ wire_name e = n_aqua_getWork)
  /\ (exists r e, gen_exposed all_off WS gen_default_config gen_apis = Some r /\ In e (r_entries r) /\
               e_signs e = true /\ wire_name e = n_aqua_getWork).
Proof. exact default_env_no_signing_refuted_public_getwork. Qed.
Print Assumptions C18_default_env_no_signing_refuted_public_getwork.

(* --- the remainder: for every environment (all 32), every transport whose own flag is off,
       every whitelist configuration, the served signing methods are exactly accounted for --- *)

Theorem C18_default_env_no_signing_partial :
  forall (t : transport) (c : config) (r : registry) (e : entry),
  gen_exposed all_off t c gen_apis = Some r -> In e (r_entries r) -> e_signs e = true ->
  In (e_ns e, e_wire e) unprotected_signers.
Proof. exact default_env_no_signing_partial. Qed.
Print Assumptions C18_default_env_no_signing_partial.

Theorem C18_no_optin_signers_listed_partial :
  forall (f : flags) (t : transport) (c : config) (r : registry) (e : entry),
  flag_of f t = false ->
  gen_exposed f t c gen_apis = Some r -> In e (r_entries r) -> e_signs e = true ->
  In (e_ns e, e_wire e) unprotected_signers.
Proof. exact no_optin_signers_listed. Qed.
Print Assumptions C18_no_optin_signers_listed_partial.

(* --- opting in for one transport affects that transport only --- *)

Theorem C18_optin_is_per_transport :
  forall (f f' : flags) (t : transport) (c : config) (apis : list api),
  flag_of f t = flag_of f' t ->
  gen_exposed f t c apis = gen_exposed f' t c apis.
Proof. exact optin_is_per_transport. Qed.
Print Assumptions C18_optin_is_per_transport.

(* --- ties of the hand-written model to the generated facts --- *)

Theorem C18_protected_predicate_agrees :
  forallb (fun p => Bool.eqb (is_protected (fst p)) (snd p)) gen_protected_table = true.
Proof. exact gen_protected_agrees. Qed.
Print Assumptions C18_protected_predicate_agrees.

Theorem C18_register_callers_modelled :
  forallb (fun c => mem_bytes c [gen_caller_inproc; gen_caller_ipc; gen_caller_http; gen_caller_ws; gen_caller_newserver])
          gen_register_callers = true.
Proof. exact gen_register_callers_modelled. Qed.
Print Assumptions C18_register_callers_modelled.

Theorem C18_callers_select_own_flag :
  forall (f : flags) (t : transport),
  is_allowed f (caller_of gen_callers t) = flag_of f t /\ is_allowed f (caller_newserver gen_callers) = false.
Proof. exact (fun f t => conj (gen_callers_allowed f t) (gen_newserver_allowed f)). Qed.
Print Assumptions C18_callers_select_own_flag.

(* --- non-vacuity --- *)

Example C18_default_env_serves_something :
  (100 <=? count_entries (gen_exposed all_off InProc gen_default_config gen_apis))%N = true /\
  (100 <=? count_entries (gen_exposed all_off IPC gen_default_config gen_apis))%N = true /\
  (40 <=? count_entries (gen_exposed all_off HTTP gen_default_config gen_apis))%N = true /\
  (40 <=? count_entries (gen_exposed all_off WS gen_default_config gen_apis))%N = true.
Proof. vm_compute. repeat split; reflexivity. Qed.

Example C18_optin_ipc_enables_ipc_only :
  serves_signing only_ipc IPC gen_default_config n_personal_sign = true /\
  serves_signing only_ipc IPC gen_default_config n_aqua_sign = true /\
  serves only_ipc InProc gen_default_config n_personal_sign = false /\
  serves only_ipc HTTP cfg_personal n_personal_sign = false /\
  serves only_ipc WS cfg_personal n_personal_sign = false /\
  serves all_off IPC gen_default_config n_personal_sign = false /\
  serves_signing only_http HTTP gen_default_config n_aqua_sign = true /\
  serves only_http IPC gen_default_config n_aqua_sign = false.
Proof. vm_compute. repeat split; reflexivity. Qed.
