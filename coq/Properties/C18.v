(* Property C18 — No RPC endpoint can make the node sign unless explicitly opted in.

   Model: Rpc/Registry.v (rpc.RegisterName / isProtectedMethodName / NewServer, node.start*,
   sense.EnvBool); data: Generated/GenApis.v, regenerated from the current tree on every run:
   the API lists of a live node on an aquahash chain (gen_apis) and on a clique chain
   (gen_apis_clique), method sets as suitableCallbacks sees them, per-method "reaches a keystore
   signing entry point" bit [e_signs] and the set of entry points reached (VTA call graph), the
   runtime names of the functions calling RegisterName, isProtectedMethodName on every name.

   gen_exposed f t c apis = the registry served on transport t (InProc | IPC | HTTP | WS) when
   the five UNSAFE_* variables read as f and the module whitelists are c (universally
   quantified: this covers admin_startRPC / admin_startWS, which re-enter startHTTP / startWS
   with caller-chosen whitelists at run time); None = the start function fails.

   FULL-STRENGTH STATEMENT (false of the current tree, see C18_default_env_no_signing_refuted):

     default_env_no_signing :
       forall apis t c r e, In apis gen_api_sets -> gen_exposed all_off t c apis = Some r ->
                            In e (r_entries r) -> e_signs e = false.

   It holds for every method except miner_start, aqua_getWork and testing_getBlockTemplate,
   which start the miner and thereby (on a clique chain only) block sealing through the
   keystore entry point SignHashAllowed — and reach no other entry point. *)
From AQ Require Import Lib.Bytes Rpc.Registry Rpc.Dispatch Rpc.Invoke Generated.GenApis Rpc.RpcModel Rpc.RpcProofs Rpc.InvokeProofs Rpc.ExposureProofs Rpc.ConeProofs.
From Coq Require Strings.String.
Import String.StringSyntax.
Import ListNotations.

(* --- the main theorem: default environment, every chain kind, transport and whitelist --- *)

Theorem C18_default_env_no_signing_partial :
  forall (apis : list api) (t : transport) (c : config) (r : registry) (e : entry),
  In apis gen_api_sets ->
  gen_exposed all_off t c apis = Some r -> In e (r_entries r) ->
  e_signs e = false \/
  In (e_ns e, e_wire e) [ (bs "miner", bs "start"); (bs "aqua", bs "getWork"); (bs "testing", bs "getBlockTemplate") ].
Proof. exact default_env_no_signing_partial. Qed.
Print Assumptions C18_default_env_no_signing_partial.

(* request level (Rpc/Dispatch.v: json.go parseRequest / parseBatchRequest + server.go readRequest):
   on a transport whose flag is off, whatever the other variables and the whitelists are, NO request —
   plain, eth_-aliased, prefix-less, *_subscribe, or an element of a batch — resolves to a method that
   can reach a keystore signing entry point, the three sealing methods excepted *)
Theorem C18_no_optin_request_cannot_sign_partial :
  forall (apis : list api) (f : flags) (t : transport) (c : config) (r : registry)
         (batch : bool) (meth : bytes) (first_param : option bytes) (e : entry),
  In apis gen_api_sets ->
  flag_of f t = false ->
  gen_exposed f t c apis = Some r ->
  resolve r batch meth first_param = RCallback e \/ resolve r batch meth first_param = RSubscription e ->
  e_signs e = false \/
  In (e_ns e, e_wire e) [ (bs "miner", bs "start"); (bs "aqua", bs "getWork"); (bs "testing", bs "getBlockTemplate") ].
Proof. exact no_optin_request_cannot_sign. Qed.
Print Assumptions C18_no_optin_request_cannot_sign_partial.

Theorem C18_resolve_only_registered :
  forall (r : registry) (batch : bool) (meth : bytes) (first_param : option bytes) (e : entry),
  resolve r batch meth first_param = RCallback e \/ resolve r batch meth first_param = RSubscription e ->
  In e (r_entries r).
Proof. exact resolve_only_registered. Qed.
Print Assumptions C18_resolve_only_registered.

(* --- the request path (Rpc/Invoke.v: json.go parse*, parsePositionalArguments; server.go readRequest,
       handle, exec/execBatch): what a MESSAGE gets called.  A message is a list of requests (method
       string, id validity, params shape with the decode oracle per element) sent singly or as a batch;
       [argtab] gives every entry's argument list.  All universally quantified. --- *)

(* invoked(message, registry) is a subset of the registry *)
Theorem C18_invoked_subset_registry :
  forall (r : registry) (argtab : entry -> list bool) (batch : bool) (qs : list request) (e : entry),
  In e (invoke_message r argtab batch qs) -> In e (r_entries r).
Proof. exact invoked_subset_registry. Qed.
Print Assumptions C18_invoked_subset_registry.

(* against ANY registry built by a sequence of RegisterName calls from one caller: whatever gets called
   was registered before the sequence or is a method that passed the filter; a protected callback of a
   caller that is not opted in is never called *)
Theorem C18_invoked_passed_the_filter :
  forall (f : flags) (caller : bytes) (r0 : registry) (apis : list api) (r : registry)
         (argtab : entry -> list bool) (batch : bool) (qs : list request) (e : entry),
  register_all f caller r0 apis = Some r ->
  In e (invoke_message r argtab batch qs) ->
  In e (r_entries r0) \/
  exists a m, In a apis /\ In m (a_methods a) /\ e = mk_entry a m /\
              (m_sub m = true \/ is_protected (m_name m) = false \/ is_allowed f caller = true).
Proof. exact invoked_passed_the_filter. Qed.
Print Assumptions C18_invoked_passed_the_filter.

Theorem C18_no_optin_message_cannot_invoke_protected :
  forall (apis : list api) (f : flags) (t : transport) (c : config) (r : registry)
         (argtab : entry -> list bool) (batch : bool) (qs : list request) (e : entry),
  flag_of f t = false ->
  gen_exposed f t c apis = Some r ->
  In e (invoke_message r argtab batch qs) ->
  e_sub e = true \/ is_protected (e_go e) = false.
Proof. exact no_optin_message_cannot_invoke_protected. Qed.
Print Assumptions C18_no_optin_message_cannot_invoke_protected.

Theorem C18_no_optin_message_cannot_invoke_signer_partial :
  forall (apis : list api) (f : flags) (t : transport) (c : config) (r : registry)
         (argtab : entry -> list bool) (batch : bool) (qs : list request) (e : entry),
  In apis gen_api_sets ->
  flag_of f t = false ->
  gen_exposed f t c apis = Some r ->
  In e (invoke_message r argtab batch qs) ->
  e_signs e = false \/
  In (e_ns e, e_wire e) [ (bs "miner", bs "start"); (bs "aqua", bs "getWork"); (bs "testing", bs "getBlockTemplate") ].
Proof. exact no_optin_message_cannot_invoke_signer. Qed.
Print Assumptions C18_no_optin_message_cannot_invoke_signer_partial.

Theorem C18_arg_table_complete :
  forallb (forallb has_args) gen_api_sets && has_args gen_meta_api = true.
Proof. exact gen_arg_table_complete. Qed.
Print Assumptions C18_arg_table_complete.

(* the same for all 32 environments: only the transport's own flag matters *)
Theorem C18_no_optin_signers_listed_partial :
  forall (apis : list api) (f : flags) (t : transport) (c : config) (r : registry) (e : entry),
  In apis gen_api_sets ->
  flag_of f t = false ->
  gen_exposed f t c apis = Some r -> In e (r_entries r) -> e_signs e = true ->
  In (e_ns e, e_wire e) unprotected_signers.
Proof. exact no_optin_signers_listed. Qed.
Print Assumptions C18_no_optin_signers_listed_partial.

(* the exceptions reach no keystore entry point other than SignHashAllowed, and none at all once
   clique.Clique.Seal is cut out of the call graph: every signing path of theirs is block sealing
   (targets_check: for (ns, wire) in unprotected_signers, targets = [SignHashAllowed] and
   targets-without-Seal = []) *)
Theorem C18_exceptions_only_seal :
  forallb targets_check gen_sign_targets = true.
Proof. exact gen_exceptions_only_seal. Qed.
Print Assumptions C18_exceptions_only_seal.

(* the full statement is refuted: default environment, default whitelist, HTTP, clique chain *)
Theorem C18_default_env_no_signing_refuted :
  exists apis t c r e, In apis gen_api_sets /\ gen_exposed all_off t c apis = Some r /\ In e (r_entries r) /\
                       e_signs e = true /\ wire_name e = n_aqua_getWork.
Proof. exact default_env_no_signing_refuted. Qed.
Print Assumptions C18_default_env_no_signing_refuted.

Theorem C18_default_env_exceptions_served :
  serves_signing gen_apis_clique all_off IPC gen_default_config n_miner_start = true /\
  serves_signing gen_apis_clique all_off IPC gen_default_config n_aqua_getWork = true /\
  serves_signing gen_apis_clique all_off IPC gen_default_config n_testing_gbt = true /\
  serves_signing gen_apis_clique all_off WS gen_default_config n_aqua_getWork = true /\
  serves_signing gen_apis all_off HTTP gen_default_config n_aqua_getWork = true.
Proof. exact default_env_exceptions_served. Qed.
Print Assumptions C18_default_env_exceptions_served.

(* --- generic: RegisterName, for any service, any registry, any caller, any environment --- *)

Theorem C18_register_removes_exactly_protected :
  forall (f : flags) (caller : bytes) (r : registry) (a : api) (r' : registry),
  register f caller r a = Some r' ->
  (forall e, In e (r_entries r') ->
     In e (r_entries r) \/
     exists m, In m (a_methods a) /\ e = mk_entry a m /\
               (m_sub m = true \/ is_protected (m_name m) = false \/ is_allowed f caller = true))
  /\ (forall m, In m (a_methods a) ->
        (m_sub m = true \/ is_protected (m_name m) = false \/ is_allowed f caller = true) ->
        exists e, In e (r_entries r') /\ same_key e (mk_entry a m) = true)
  /\ (forall x, In x (r_entries r) -> exists e, In e (r_entries r') /\ same_key e x = true)
  /\ (forall m, In m (a_methods a) -> m_sub m = false -> is_protected (m_name m) = true ->
        is_allowed f caller = false ->
        In (mk_entry a m) (r_entries r') -> In (mk_entry a m) (r_entries r)).
Proof. exact register_removes_exactly_protected. Qed.
Print Assumptions C18_register_removes_exactly_protected.

(* --- generic in the API list: without opt-in no callback with a protected name is served --- *)

Theorem C18_no_optin_no_protected_name :
  forall (apis : list api) (f : flags) (t : transport) (c : config) (r : registry) (e : entry),
  flag_of f t = false ->
  gen_exposed f t c apis = Some r -> In e (r_entries r) ->
  e_sub e = true \/ is_protected (e_go e) = false.
Proof. exact no_optin_no_protected_gen. Qed.
Print Assumptions C18_no_optin_no_protected_name.

(* --- what a transport serves is exactly what its start function selects and RegisterName keeps --- *)

Theorem C18_exposed_sound :
  forall (apis : list api) (f : flags) (t : transport) (c : config) (r : registry) (e : entry),
  gen_exposed f t c apis = Some r -> In e (r_entries r) ->
  (exists m, In m (a_methods gen_meta_api) /\ e = mk_entry gen_meta_api m)
  \/ (exists a m, In a apis /\ selected t c a = true /\ In m (a_methods a) /\ e = mk_entry a m
                  /\ (m_sub m = true \/ is_protected (m_name m) = false \/ flag_of f t = true)).
Proof. exact gen_exposed_sound. Qed.
Print Assumptions C18_exposed_sound.

Theorem C18_exposed_complete :
  forall (apis : list api) (f : flags) (t : transport) (c : config) (r : registry) (a : api) (m : method),
  gen_exposed f t c apis = Some r ->
  In a apis -> selected t c a = true -> In m (a_methods a) ->
  (m_sub m = true \/ is_protected (m_name m) = false \/ flag_of f t = true) ->
  exists e, In e (r_entries r) /\ same_key e (mk_entry a m) = true.
Proof. exact gen_exposed_complete. Qed.
Print Assumptions C18_exposed_complete.

(* --- node-level composition: EXACTLY which slots (namespace, wire name, callback/subscription) a
       transport serves, for every environment, every module whitelist and both chain kinds:
       metadata service, or selected by the start function (HTTP: whitelisted, or Public when the
       whitelist is empty; WS: the same or WSExposeAll; in-proc/IPC: everything) AND kept by RegisterName --- *)

Theorem C18_served_slots_characterised :
  forall (apis : list api) (f : flags) (t : transport) (c : config) (r : registry) (ns wire : bytes) (sub : bool),
  gen_exposed f t c apis = Some r ->
  ((exists e, In e (r_entries r) /\ slot_of ns wire sub e) <->
   ((exists m, In m (a_methods gen_meta_api) /\ slot_of ns wire sub (mk_entry gen_meta_api m)) \/
    (exists a m, In a apis /\ selected t c a = true /\ In m (a_methods a) /\
                 slot_of ns wire sub (mk_entry a m) /\
                 (m_sub m = true \/ is_protected (m_name m) = false \/ flag_of f t = true)))).
Proof. exact served_slots_characterised. Qed.
Print Assumptions C18_served_slots_characterised.

Theorem C18_http_exposure :
  forall (apis : list api) (f : flags) (c : config) (r : registry) (ns wire : bytes) (sub : bool),
  gen_exposed f HTTP c apis = Some r ->
  ((exists e, In e (r_entries r) /\ slot_of ns wire sub e) <->
   ((exists m, In m (a_methods gen_meta_api) /\ slot_of ns wire sub (mk_entry gen_meta_api m)) \/
    (exists a m, In a apis /\ whitelisted (c_http_modules c) a = true /\ In m (a_methods a) /\
                 slot_of ns wire sub (mk_entry a m) /\
                 (m_sub m = true \/ is_protected (m_name m) = false \/ f_http f = true)))).
Proof. exact http_exposure. Qed.
Print Assumptions C18_http_exposure.

Theorem C18_ws_exposure :
  forall (apis : list api) (f : flags) (c : config) (r : registry) (ns wire : bytes) (sub : bool),
  gen_exposed f WS c apis = Some r ->
  ((exists e, In e (r_entries r) /\ slot_of ns wire sub e) <->
   ((exists m, In m (a_methods gen_meta_api) /\ slot_of ns wire sub (mk_entry gen_meta_api m)) \/
    (exists a m, In a apis /\ (c_ws_expose_all c || whitelisted (c_ws_modules c) a) = true /\ In m (a_methods a) /\
                 slot_of ns wire sub (mk_entry a m) /\
                 (m_sub m = true \/ is_protected (m_name m) = false \/ f_ws f = true)))).
Proof. exact ws_exposure. Qed.
Print Assumptions C18_ws_exposure.

(* of a whitelist only membership of the registered namespaces and emptiness matter *)
Theorem C18_exposure_depends_on_membership :
  forall (apis : list api) (f : flags) (t : transport) (c c' : config),
  (forall a, In a apis -> mem_bytes (a_ns a) (c_http_modules c) = mem_bytes (a_ns a) (c_http_modules c')) ->
  (forall a, In a apis -> mem_bytes (a_ns a) (c_ws_modules c) = mem_bytes (a_ns a) (c_ws_modules c')) ->
  is_nil (c_http_modules c) = is_nil (c_http_modules c') ->
  is_nil (c_ws_modules c) = is_nil (c_ws_modules c') ->
  c_ws_expose_all c = c_ws_expose_all c' ->
  gen_exposed f t c apis = gen_exposed f t c' apis.
Proof. exact exposure_depends_on_membership. Qed.
Print Assumptions C18_exposure_depends_on_membership.

(* --- static reachability as a checked artefact (Rpc/ConeProofs.v over the generated key-use cone:
       gen_cone_nodes / gen_cone_edges = every function from which a keystore signing entry point is
       reachable in the VTA call graph, with the edges among them).  Coq computes the closure itself:
       every call path from an RPC callback WITHOUT a protected name to a signing entry point passes
       (after its first node) through clique.Clique.Seal or an RPC callback WITH a protected name --- *)

Theorem C18_unprotected_paths_pass_the_gate :
  forall (p : list N) (a t : N),
  In a cone_unprotected_callbacks ->
  is_path gen_cone_edges (a :: p) = true ->
  In t (a :: p) -> cone_target t = true ->
  existsb cone_gate p = true.
Proof. exact unprotected_paths_pass_the_gate. Qed.
Print Assumptions C18_unprotected_paths_pass_the_gate.

(* generic: any graph, any gate predicate, any closed set without targets *)
Theorem C18_paths_meet_a_gate :
  forall (edges : list (N * N)) (gate : N -> bool) (S : list N) (target : N -> bool),
  closed edges gate S = true ->
  (forall x, memN x S = true -> target x = false) ->
  forall (p : list N) (a t : N), is_path edges (a :: p) = true -> memN a S = true ->
  In t (a :: p) -> target t = true ->
  existsb gate p = true.
Proof. exact paths_meet_a_gate. Qed.
Print Assumptions C18_paths_meet_a_gate.

(* the cone agrees with the other generated tables: its unprotected callbacks are exactly the three
   sealing methods, every method marked signing is a cone node, six entry points, one Seal *)
Theorem C18_cone_consistent :
  cone_names_of_kind 4 = [bs "miner_start"; bs "aqua_getWork"; bs "testing_getBlockTemplate"] /\
  forallb (fun x => match x with (ns, wire, _, _, _) =>
             existsb (fun c => bytes_eqb (snd c) (ns ++ ("_"%byte :: wire))) gen_cone_callbacks end) gen_sign_targets = true /\
  List.length (filter (fun n => N.eqb (snd n) 1) gen_cone_nodes) = 6%nat /\
  List.length (filter (fun n => N.eqb (snd n) 2) gen_cone_nodes) = 1%nat /\
  forallb (fun e => memN (fst e) (map fst gen_cone_nodes) && memN (snd e) (map fst gen_cone_nodes)) gen_cone_edges = true.
Proof. exact cone_consistent. Qed.
Print Assumptions C18_cone_consistent.

(* --- opting in for one transport affects that transport only --- *)

Theorem C18_optin_is_per_transport :
  forall (f f' : flags) (t : transport) (c : config) (apis : list api),
  flag_of f t = flag_of f' t ->
  gen_exposed f t c apis = gen_exposed f' t c apis.
Proof. exact optin_is_per_transport. Qed.
Print Assumptions C18_optin_is_per_transport.

(* --- ties of the hand-written model to the generated facts --- *)

Theorem C18_protected_predicate_agrees :
  forallb (fun p => Bool.eqb (is_protected (fst p)) (snd p)) gen_protected_table = true.
Proof. exact gen_protected_agrees. Qed.
Print Assumptions C18_protected_predicate_agrees.

Theorem C18_register_callers_modelled :
  forallb (fun c => mem_bytes c [gen_caller_inproc; gen_caller_ipc; gen_caller_http; gen_caller_ws; gen_caller_newserver])
          gen_register_callers = true.
Proof. exact gen_register_callers_modelled. Qed.
Print Assumptions C18_register_callers_modelled.

Theorem C18_callers_select_own_flag :
  forall (f : flags) (t : transport),
  is_allowed f (caller_of gen_callers t) = flag_of f t /\ is_allowed f (caller_newserver gen_callers) = false.
Proof. exact (fun f t => conj (gen_callers_allowed f t) (gen_newserver_allowed f)). Qed.
Print Assumptions C18_callers_select_own_flag.

(* --- non-vacuity --- *)

Example C18_default_env_serves_something :
  (100 <=? count_entries (gen_exposed all_off InProc gen_default_config gen_apis))%N = true /\
  (100 <=? count_entries (gen_exposed all_off IPC gen_default_config gen_apis_clique))%N = true /\
  (40 <=? count_entries (gen_exposed all_off HTTP gen_default_config gen_apis))%N = true /\
  (40 <=? count_entries (gen_exposed all_off WS gen_default_config gen_apis_clique))%N = true.
Proof. vm_compute. repeat split; reflexivity. Qed.

Example C18_optin_ipc_enables_ipc_only :
  serves_signing gen_apis only_ipc IPC gen_default_config n_personal_sign = true /\
  serves_signing gen_apis only_ipc IPC gen_default_config n_personal_sasT = true /\
  serves gen_apis only_ipc InProc gen_default_config n_personal_sign = false /\
  serves gen_apis only_ipc HTTP cfg_personal n_personal_sign = false /\
  serves gen_apis only_ipc WS cfg_personal n_personal_sasT = false /\
  serves gen_apis all_off IPC gen_default_config n_personal_sasT = false /\
  serves gen_apis all_off HTTP cfg_personal n_personal_sasT = false /\
  serves_signing gen_apis_clique only_http HTTP gen_default_config n_aqua_sign = true /\
  serves gen_apis_clique only_http IPC gen_default_config n_aqua_sign = false.
Proof. vm_compute. repeat split; reflexivity. Qed.

(* eth_X is rewritten to aqua_X for single requests only (not inside a batch), and lands in the filtered registry *)
Example C18_eth_alias_single_only :
  is_callback_named (resolve_on gen_apis all_off HTTP gen_default_config false n_eth_getWork) n_aqua_getWork = true /\
  resolve_on gen_apis all_off HTTP gen_default_config true n_eth_getWork = RNotFound /\
  resolve_on gen_apis all_off IPC gen_default_config false n_eth_sign = RNotFound /\
  is_callback_named (resolve_on gen_apis only_ipc_flags IPC gen_default_config false n_eth_sign) n_aqua_sign = true /\
  resolve_on gen_apis only_ipc_flags IPC gen_default_config true n_eth_sign = RNotFound /\
  resolve_on gen_apis only_ipc_flags HTTP gen_default_config false n_eth_sign = RNotFound.
Proof. vm_compute. repeat split; reflexivity. Qed.

(* messages that do and do not get something called (default environment, IPC, generated argument table):
   no params needed when the callback has no arguments, even garbage params are ignored then; eth_ is an
   alias for single requests only; missing optional (pointer) arguments are fine in an array but not when
   params are absent; one bad id rejects a whole batch *)
Example C18_invoke_examples :
  names_of (invoke_message ipc_default gen_argtab false [q_getWork]) = [n_aqua_getWork] /\
  names_of (invoke_message ipc_default gen_argtab false [q_eth_getWork_garbage_params]) = [n_aqua_getWork] /\
  names_of (invoke_message ipc_default gen_argtab true [q_eth_getWork_garbage_params]) = [] /\
  invoke_single ipc_default gen_argtab q_personal_sign = VNotFound /\
  invoke_single ipc_default gen_argtab q_getBalance_short = VInvalidParams /\
  names_of (invoke_message ipc_default gen_argtab false [q_startRPC_optional]) = [bs "admin_startRPC"] /\
  invoke_single ipc_default gen_argtab q_startRPC_absent = VInvalidParams /\
  names_of (invoke_message ipc_default gen_argtab true [q_getWork; q_personal_sign; q_getBalance_ok]) = [n_aqua_getWork; bs "aqua_getBalance"] /\
  invoke_batch ipc_default gen_argtab [q_getWork; q_bad_id] = None.
Proof. vm_compute. repeat split; reflexivity. Qed.

(* duplicates / order / unknown names do not matter; matching is case-sensitive; a non-empty list of
   unknown names serves the metadata service only (not the Public default); WSExposeAll = everything *)
Example C18_whitelist_examples :
  gen_exposed all_off HTTP (cfg [bs "aqua"; bs "net"] [] false) gen_apis
    = gen_exposed all_off HTTP (cfg [bs "net"; bs "nosuch"; bs "aqua"; bs "aqua"; bs ""] [] false) gen_apis /\
  count_served (gen_exposed all_off HTTP (cfg [bs "Aqua"; bs "PERSONAL"; bs " aqua"] [] false) gen_apis) = 1%N /\
  count_served (gen_exposed all_off HTTP (cfg [bs "nosuch"] [] false) gen_apis) = 1%N /\
  (40 <=? count_served (gen_exposed all_off HTTP (cfg [] [] false) gen_apis))%N = true /\
  count_served (gen_exposed all_off WS (cfg [] [bs "nosuch"] true) gen_apis)
    = count_served (gen_exposed all_off IPC (cfg [] [] false) gen_apis).
Proof. vm_compute. repeat split; reflexivity. Qed.

Example C18_cone_nonvacuous :
  negb (is_nil cone_unprotected_callbacks) = true /\
  existsb cone_target closure_ignoring_seal = true /\
  existsb cone_target cone_reach = false.
Proof. vm_compute. repeat split; reflexivity. Qed.
