(* Property C18 — No RPC endpoint can make the node sign unless explicitly opted in.

   Model: Rpc/Registry.v (rpc.RegisterName / isProtectedMethodName / NewServer, node.start*,
   sense.EnvBool); data: Generated/GenApis.v, regenerated from the current tree on every run:
   the API lists of a live node on an aquahash chain (gen_apis) and on a clique chain
   (gen_apis_clique), method sets as suitableCallbacks sees them, per-method "reaches a keystore
   signing entry point" bit [e_signs] and the set of entry points reached (VTA call graph), the
   runtime names of the functions calling RegisterName, isProtectedMethodName on every name.

   gen_exposed f t c apis = the registry served on transport t (InProc | IPC | HTTP | WS) when
   the five UNSAFE_* variables read as f and the module whitelists are c (universally
   quantified: this covers admin_startRPC / admin_startWS, which re-enter startHTTP / startWS
   with caller-chosen whitelists at run time); None = the start function fails.

   FULL-STRENGTH STATEMENT (false of the current tree, see C18_default_env_no_signing_refuted):

     default_env_no_signing :
       forall apis t c r e, In apis gen_api_sets -> gen_exposed all_off t c apis = Some r ->
                            In e (r_entries r) -> e_signs e = false.

   It holds for every method except miner_start, aqua_getWork and testing_getBlockTemplate,
   which start the miner and thereby (on a clique chain only) block sealing through the
   keystore entry point SignHashAllowed — and reach no other entry point. *)
From AQ Require Import Lib.Bytes Rpc.Registry Rpc.Dispatch Generated.GenApis Rpc.RpcModel Rpc.RpcProofs.
From Coq Require Strings.String.
Import String.StringSyntax.
Import ListNotations.

(* --- the main theorem: default environment, every chain kind, transport and whitelist --- *)

Theorem C18_default_env_no_signing_partial :
  forall (apis : list api) (t : transport) (c : config) (r : registry) (e : entry),
  In apis gen_api_sets ->
  gen_exposed all_off t c apis = Some r -> In e (r_entries r) ->
  e_signs e = false \/
  In (e_ns e, e_wire e) [ (bs "miner", bs "start"); (bs "aqua", bs "getWork"); (bs "testing", bs "getBlockTemplate") ].
Proof. exact default_env_no_signing_partial. Qed.
Print Assumptions C18_default_env_no_signing_partial.

(* request level (Rpc/Dispatch.v: json.go parseRequest / parseBatchRequest + server.go readRequest):
   on a transport whose flag is off, whatever the other variables and the whitelists are, NO request —
   plain, eth_-aliased, prefix-less, *_subscribe, or an element of a batch — resolves to a method that
   can reach a keystore signing entry point, the three sealing methods excepted *)
Theorem C18_no_optin_request_cannot_sign_partial :
  forall (apis : list api) (f : flags) (t : transport) (c : config) (r : registry)
         (batch : bool) (meth : bytes) (first_param : option bytes) (e : entry),
  In apis gen_api_sets ->
  flag_of f t = false ->
  gen_exposed f t c apis = Some r ->
  resolve r batch meth first_param = RCallback e \/ resolve r batch meth first_param = RSubscription e ->
  e_signs e = false \/
  In (e_ns e, e_wire e) [ (bs "miner", bs "start"); (bs "aqua", bs "getWork"); (bs "testing", bs "getBlockTemplate") ].
Proof. exact no_optin_request_cannot_sign. Qed.
Print Assumptions C18_no_optin_request_cannot_sign_partial.

Theorem C18_resolve_only_registered :
  forall (r : registry) (batch : bool) (meth : bytes) (first_param : option bytes) (e : entry),
  resolve r batch meth first_param = RCallback e \/ resolve r batch meth first_param = RSubscription e ->
  In e (r_entries r).
Proof. exact resolve_only_registered. Qed.
Print Assumptions C18_resolve_only_registered.

(* the same for all 32 environments: only the transport's own flag matters *)
Theorem C18_no_optin_signers_listed_partial :
  forall (apis : list api) (f : flags) (t : transport) (c : config) (r : registry) (e : entry),
  In apis gen_api_sets ->
  flag_of f t = false ->
  gen_exposed f t c apis = Some r -> In e (r_entries r) -> e_signs e = true ->
  In (e_ns e, e_wire e) unprotected_signers.
Proof. exact no_optin_signers_listed. Qed.
Print Assumptions C18_no_optin_signers_listed_partial.

(* the exceptions reach no keystore entry point other than SignHashAllowed, and none at all once
   clique.Clique.Seal is cut out of the call graph: every signing path of theirs is block sealing
   (targets_check: for (ns, wire) in unprotected_signers, targets = [SignHashAllowed] and
   targets-without-Seal = []) *)
Theorem C18_exceptions_only_seal :
  forallb targets_check gen_sign_targets = true.
Proof. exact gen_exceptions_only_seal. Qed.
Print Assumptions C18_exceptions_only_seal.

(* the full statement is refuted: default environment, default whitelist, HTTP, clique chain *)
Theorem C18_default_env_no_signing_refuted :
  exists apis t c r e, In apis gen_api_sets /\ gen_exposed all_off t c apis = Some r /\ In e (r_entries r) /\
                       e_signs e = true /\ wire_name e = n_aqua_getWork.
Proof. exact default_env_no_signing_refuted. Qed.
Print Assumptions C18_default_env_no_signing_refuted.

Theorem C18_default_env_exceptions_served :
  serves_signing gen_apis_clique all_off IPC gen_default_config n_miner_start = true /\
  serves_signing gen_apis_clique all_off IPC gen_default_config n_aqua_getWork = true /\
  serves_signing gen_apis_clique all_off IPC gen_default_config n_testing_gbt = true /\
  serves_signing gen_apis_clique all_off WS gen_default_config n_aqua_getWork = true /\
  serves_signing gen_apis all_off HTTP gen_default_config n_aqua_getWork = true.
Proof. exact default_env_exceptions_served. Qed.
Print Assumptions C18_default_env_exceptions_served.

(* --- generic: RegisterName, for any service, any registry, any caller, any environment --- *)

Theorem C18_register_removes_exactly_protected :
  forall (f : flags) (caller : bytes) (r : registry) (a : api) (r' : registry),
  register f caller r a = Some r' ->
  (forall e, In e (r_entries r') ->
     In e (r_entries r) \/
     exists m, In m (a_methods a) /\ e = mk_entry a m /\
               (m_sub m = true \/ is_protected (m_name m) = false \/ is_allowed f caller = true))
  /\ (forall m, In m (a_methods a) ->
        (m_sub m = true \/ is_protected (m_name m) = false \/ is_allowed f caller = true) ->
        exists e, In e (r_entries r') /\ same_key e (mk_entry a m) = true)
  /\ (forall x, In x (r_entries r) -> exists e, In e (r_entries r') /\ same_key e x = true)
  /\ (forall m, In m (a_methods a) -> m_sub m = false -> is_protected (m_name m) = true ->
        is_allowed f caller = false ->
        In (mk_entry a m) (r_entries r') -> In (mk_entry a m) (r_entries r)).
Proof. exact register_removes_exactly_protected. Qed.
Print Assumptions C18_register_removes_exactly_protected.

(* --- generic in the API list: without opt-in no callback with a protected name is served --- *)

Theorem C18_no_optin_no_protected_name :
  forall (apis : list api) (f : flags) (t : transport) (c : config) (r : registry) (e : entry),
  flag_of f t = false ->
  gen_exposed f t c apis = Some r -> In e (r_entries r) ->
  e_sub e = true \/ is_protected (e_go e) = false.
Proof. exact no_optin_no_protected_gen. Qed.
Print Assumptions C18_no_optin_no_protected_name.

(* --- what a transport serves is exactly what its start function selects and RegisterName keeps --- *)

Theorem C18_exposed_sound :
  forall (apis : list api) (f : flags) (t : transport) (c : config) (r : registry) (e : entry),
  gen_exposed f t c apis = Some r -> In e (r_entries r) ->
  (exists m, In m (a_methods gen_meta_api) /\ e = mk_entry gen_meta_api m)
  \/ (exists a m, In a apis /\ selected t c a = true /\ In m (a_methods a) /\ e = mk_entry a m
                  /\ (m_sub m = true \/ is_protected (m_name m) = false \/ flag_of f t = true)).
Proof. exact gen_exposed_sound. Qed.
Print Assumptions C18_exposed_sound.

Theorem C18_exposed_complete :
  forall (apis : list api) (f : flags) (t : transport) (c : config) (r : registry) (a : api) (m : method),
  gen_exposed f t c apis = Some r ->
  In a apis -> selected t c a = true -> In m (a_methods a) ->
  (m_sub m = true \/ is_protected (m_name m) = false \/ flag_of f t = true) ->
  exists e, In e (r_entries r) /\ same_key e (mk_entry a m) = true.
Proof. exact gen_exposed_complete. Qed.
Print Assumptions C18_exposed_complete.

(* --- opting in for one transport affects that transport only --- *)

Theorem C18_optin_is_per_transport :
  forall (f f' : flags) (t : transport) (c : config) (apis : list api),
  flag_of f t = flag_of f' t ->
  gen_exposed f t c apis = gen_exposed f' t c apis.
Proof. exact optin_is_per_transport. Qed.
Print Assumptions C18_optin_is_per_transport.

(* --- ties of the hand-written model to the generated facts --- *)

Theorem C18_protected_predicate_agrees :
  forallb (fun p => Bool.eqb (is_protected (fst p)) (snd p)) gen_protected_table = true.
Proof. exact gen_protected_agrees. Qed.
Print Assumptions C18_protected_predicate_agrees.

Theorem C18_register_callers_modelled :
  forallb (fun c => mem_bytes c [gen_caller_inproc; gen_caller_ipc; gen_caller_http; gen_caller_ws; gen_caller_newserver])
          gen_register_callers = true.
Proof. exact gen_register_callers_modelled. Qed.
Print Assumptions C18_register_callers_modelled.

Theorem C18_callers_select_own_flag :
  forall (f : flags) (t : transport),
  is_allowed f (caller_of gen_callers t) = flag_of f t /\ is_allowed f (caller_newserver gen_callers) = false.
Proof. exact (fun f t => conj (gen_callers_allowed f t) (gen_newserver_allowed f)). Qed.
Print Assumptions C18_callers_select_own_flag.

(* --- non-vacuity --- *)

Example C18_default_env_serves_something :
  (100 <=? count_entries (gen_exposed all_off InProc gen_default_config gen_apis))%N = true /\
  (100 <=? count_entries (gen_exposed all_off IPC gen_default_config gen_apis_clique))%N = true /\
  (40 <=? count_entries (gen_exposed all_off HTTP gen_default_config gen_apis))%N = true /\
  (40 <=? count_entries (gen_exposed all_off WS gen_default_config gen_apis_clique))%N = true.
Proof. vm_compute. repeat split; reflexivity. Qed.

Example C18_optin_ipc_enables_ipc_only :
  serves_signing gen_apis only_ipc IPC gen_default_config n_personal_sign = true /\
  serves_signing gen_apis only_ipc IPC gen_default_config n_personal_sasT = true /\
  serves gen_apis only_ipc InProc gen_default_config n_personal_sign = false /\
  serves gen_apis only_ipc HTTP cfg_personal n_personal_sign = false /\
  serves gen_apis only_ipc WS cfg_personal n_personal_sasT = false /\
  serves gen_apis all_off IPC gen_default_config n_personal_sasT = false /\
  serves gen_apis all_off HTTP cfg_personal n_personal_sasT = false /\
  serves_signing gen_apis_clique only_http HTTP gen_default_config n_aqua_sign = true /\
  serves gen_apis_clique only_http IPC gen_default_config n_aqua_sign = false.
Proof. vm_compute. repeat split; reflexivity. Qed.

(* eth_X is rewritten to aqua_X for single requests only (not inside a batch), and lands in the filtered registry *)
Example C18_eth_alias_single_only :
  is_callback_named (resolve_on gen_apis all_off HTTP gen_default_config false n_eth_getWork) n_aqua_getWork = true /\
  resolve_on gen_apis all_off HTTP gen_default_config true n_eth_getWork = RNotFound /\
  resolve_on gen_apis all_off IPC gen_default_config false n_eth_sign = RNotFound /\
  is_callback_named (resolve_on gen_apis only_ipc_flags IPC gen_default_config false n_eth_sign) n_aqua_sign = true /\
  resolve_on gen_apis only_ipc_flags IPC gen_default_config true n_eth_sign = RNotFound /\
  resolve_on gen_apis only_ipc_flags HTTP gen_default_config false n_eth_sign = RNotFound.
Proof. vm_compute. repeat split; reflexivity. Qed.
