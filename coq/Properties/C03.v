(* Properties/C03.v — The canonical index describes exactly the chain that ends at the head.
   Only statements closed by `exact`, with Print Assumptions under each.

   Full-strength statement (for every history of InsertChain / InsertHeaderChain /
   SetHead over a well-formed block universe):
       forall ops, CanonOK (run ops (init_state g))
   where CanonOK = canon_below /\ canon_above_empty /\ canon_data_present /\ lookup_exact
   (Chain/ChainSpec.v).  Two clauses are FALSE of the faithful model, as they are of
   the Go code (the harness reproduces both on core.BlockChain):
     canon_above_empty  after a reorganisation to a shorter, heavier branch
                        (oracle signature reorg-shorter-heavier-stale-canon);
     lookup_exact       after SetHead: lookup entries and receipts of rewound blocks
                        survive (oracle signature sethead-leaves-lookups-receipts);
   and "after every ... rewind" hides a third defect: importing a header on top of a
   side header whose ancestors SetHead removed panics (nil dereference in
   HeaderChain.WriteHeader; oracle signature chain-op-panics/headers/...), and
   re-importing a known side block whose parent SetHead removed panics in
   insertChain2 (parent.Root() on nil; oracle signature chain-op-panics/insert/...).
   What is PROVED for all histories of imports (and of imports + restarts): canon_below
   (C03_canon_below_imports / _with_reopen), canon_data_present (header, body, receipts, TD of
   every canonical block up to the head), and the soundness half of lookup_exact (a lookup entry
   points at a canonical block at or below the head that contains the transaction at that
   index).  NOT proved: the completeness half of lookup_exact (every transaction of a canonical
   block has its entry; in the model it additionally needs "no transaction id twice on one
   chain"), and anything about histories with SetHead or header imports beyond the refutations
   (checked by the direct oracle and the correspondence after every operation). *)
From Coq Require Import NArith List.
From AQ Require Import Chain.Store Chain.ChainSpec Chain.ChainProofs Chain.Crash Chain.ChainReopen Chain.ChainCanon Chain.ChainLookup Chain.ChainAllOps Chain.ChainAllOpsWitness Chain.ChainWitness.
Import ListNotations.
Local Open Scope N_scope.

Theorem C03_canon_above_empty_refuted :
  exists (g : header) (ops : list op),
    let s := run ops (init_state g) in
    s_hash (cur_block s) = 5 /\ s_num (cur_block s) = 1 /\ canon (dsk s) 2 = 3 /\ canon (dsk s) 3 = 4.
Proof. exact (ex_intro _ wg (ex_intro _ ops_shorter_heavier shorter_heavier_stale)). Qed.
Print Assumptions C03_canon_above_empty_refuted.

Theorem C03_lookup_exact_refuted :
  exists (g : header) (ops : list op),
    let s := run ops (init_state g) in
    s_hash (cur_block s) = 2 /\ canon (dsk s) 2 = 0 /\
    lookup_of (dsk s) 9 = Some (3, 2, 0) /\ receipts_of (dsk s) 3 = Some [9] /\
    get_receipt (dsk s) 9 = Some (3, 2, 0) /\ body_of (dsk s) 3 = None.
Proof. exact (ex_intro _ wg (ex_intro _ ops_sethead sethead_stale)). Qed.
Print Assumptions C03_lookup_exact_refuted.

Theorem C03_header_import_total_refuted :
  exists (g : header) (ops : list op) (hd : header),
    let s := run ops (init_state g) in
    h_hash (cur_header s) = 2 /\ td_of (dsk s) 5 = Some 350 /\ header_of (dsk s) 3 = None /\
    fst (step (OpHeaders [hd] []) s) = SPanic.
Proof. exact (ex_intro _ wg (ex_intro _ ops_orphan_header (ex_intro _ (hh 6 5 4 500) orphan_header_panics))). Qed.
Print Assumptions C03_header_import_total_refuted.

Theorem C03_block_import_total_refuted :
  exists (g : header) (ops : list op) (b : block),
    let s := run ops (init_state g) in
    s_hash (cur_block s) = 2 /\ block_of (dsk s) 6 <> None /\ block_of (dsk s) 3 = None /\
    fst (step (OpInsert [b] []) s) = SPanic.
Proof. exact (ex_intro _ wg (ex_intro _ ops_orphan_side (ex_intro _ w6 orphan_side_block_panics))). Qed.
Print Assumptions C03_block_import_total_refuted.

(* canon_below: every height up to the head maps to the head's ancestor at that height *)
Theorem C03_canon_below_imports : forall (U : N -> sblock) (g : header),
  U (h_hash g) = (g, []) -> h_number g = 0 ->
  forall ops, inserts_only ops -> (forall b, In b (blocks_of ops) -> wf_block U b) ->
  canon_below (run ops (pre_open g)).
Proof. exact canon_below_imports. Qed.
Print Assumptions C03_canon_below_imports.

(* header, body, receipts and total difficulty are retrievable for every canonical block up to the head *)
Theorem C03_canon_data_present_imports : forall (U : N -> sblock) (g : header),
  U (h_hash g) = (g, []) -> h_number g = 0 ->
  forall ops, inserts_only ops -> (forall b, In b (blocks_of ops) -> wf_block U b) ->
  canon_data_present (run ops (pre_open g)).
Proof. exact canon_data_present_imports. Qed.
Print Assumptions C03_canon_data_present_imports.

(* lookup_exact, soundness half: a lookup entry names a canonical block at or below the head
   whose body holds the transaction at that index.  `_partial`: the completeness half is open. *)
Theorem C03_lookup_sound_imports_partial : forall (U : N -> sblock) (g : header),
  U (h_hash g) = (g, []) -> h_number g = 0 ->
  forall ops, inserts_only ops -> (forall b, In b (blocks_of ops) -> wf_block U b) ->
  let s := run ops (pre_open g) in
  forall t h n i, lookup_of (dsk s) t = Some (h, n, i) ->
    n <= s_num (cur_block s) /\ canon (dsk s) n = h /\
    exists l, body_of (dsk s) h = Some l /\ nth_error l (N.to_nat i) = Some t.
Proof. exact lookup_sound_imports. Qed.
Print Assumptions C03_lookup_sound_imports_partial.

(* the same three with close/reopen anywhere in the history *)
Theorem C03_canon_below_with_reopen : forall (U : N -> sblock) (g : header),
  U (h_hash g) = (g, []) -> h_number g = 0 ->
  forall (d0 : disk), h_hash g <> 0 -> d0 = genesis_disk g ->
  forall ops, imports_and_reopens ops ->
  (forall b, In b (blocks_of ops) -> wf_block U b /\ h_hash (b_hdr b) <> 0) ->
  canon_below (run ops (pre_open g)).
Proof. exact canon_below_with_reopen. Qed.
Print Assumptions C03_canon_below_with_reopen.

Theorem C03_canon_data_present_with_reopen : forall (U : N -> sblock) (g : header),
  U (h_hash g) = (g, []) -> h_number g = 0 ->
  forall (d0 : disk), h_hash g <> 0 -> d0 = genesis_disk g ->
  forall ops, imports_and_reopens ops ->
  (forall b, In b (blocks_of ops) -> wf_block U b /\ h_hash (b_hdr b) <> 0) ->
  canon_data_present (run ops (pre_open g)).
Proof. exact canon_data_present_with_reopen. Qed.
Print Assumptions C03_canon_data_present_with_reopen.

(* ---- what survives EVERY operation: InsertChain, InsertHeaderChain, SetHead, Rollback, close/reopen in
   any order, any validity oracle and coins, including the state an operation leaves when it ends in an
   error, a panic or an unmodelled branch.  Given the refuted clauses (stale entries above the head, lookup
   entries and receipts of rewound blocks, orphaned side headers) presence/absence cannot be promised;
   what holds is that no record on disk is ever wrong about content ([Sound], Chain/ChainAllOps.v):
     header / body / hash->number records are the universe's; a stored TD is the universe's TD;
     the number index maps a height only to a block of that height;
     a lookup entry names a block that contains the transaction at that index, with its number;
     a stored non-genesis header is one above its parent (number and TD);
   and the in-memory heads are universe blocks ([MemOK]).  The debris the known findings leave is
   therefore always *well-formed* debris: entries of real blocks at their own heights. *)
Theorem C03_content_sound_all_ops : forall (U : N -> sblock) (utd : N -> N) (g : header),
  U (h_hash g) = (g, []) -> h_number g = 0 -> utd (h_hash g) = h_diff g -> h_parent g = 0 ->
  forall ops, wf_ops U utd ops ->
  Sound U utd g (dsk (run ops (pre_open g))) /\ MemOK U (run ops (pre_open g)).
Proof. exact sound_all_ops. Qed.
Print Assumptions C03_content_sound_all_ops.

Theorem C03_canon_height_all_ops : forall (U : N -> sblock) (utd : N -> N) (g : header),
  U (h_hash g) = (g, []) -> h_number g = 0 -> utd (h_hash g) = h_diff g -> h_parent g = 0 ->
  forall ops, wf_ops U utd ops ->
  forall n h, canon (dsk (run ops (pre_open g))) n = h -> h <> 0 -> h_number (fst (U h)) = n.
Proof. exact canon_height_all_ops. Qed.
Print Assumptions C03_canon_height_all_ops.

Theorem C03_lookup_content_all_ops : forall (U : N -> sblock) (utd : N -> N) (g : header),
  U (h_hash g) = (g, []) -> h_number g = 0 -> utd (h_hash g) = h_diff g -> h_parent g = 0 ->
  forall ops, wf_ops U utd ops ->
  forall t h n i, lookup_of (dsk (run ops (pre_open g))) t = Some (h, n, i) ->
    n = h_number (fst (U h)) /\ nth_error (snd (U h)) (N.to_nat i) = Some t.
Proof. exact lookup_content_all_ops. Qed.
Print Assumptions C03_lookup_content_all_ops.

(* non-vacuity: the premises are met by a history that uses all five operations, and it leaves a
   populated database behind *)
Example C03_all_ops_example : wf_ops Uw utdw ops_all /\
  Uw (h_hash wg) = (wg, []) /\ h_number wg = 0 /\ utdw (h_hash wg) = h_diff wg /\ h_parent wg = 0.
Proof. exact ops_all_wf. Qed.
Example C03_all_ops_result :
  let s := run ops_all (init_state wg) in
  s_hash (cur_block s) = 5 /\ td_of (dsk s) 6 = Some 350 /\ canon (dsk s) 1 = 5 /\ lookup_of (dsk s) 7 = Some (5, 1, 0).
Proof. exact ops_all_result. Qed.

(* import-only histories: the head block and every stored block come with body,
   state and total difficulty, and their stored ancestry reaches genesis one number
   at a time (so header, body, receipts' batch and TD of every ancestor of the head
   are retrievable) *)
Theorem C03_stored_ancestry_partial : forall (U : N -> sblock) (g : header),
  U (h_hash g) = (g, []) -> h_number g = 0 ->
  forall ops, inserts_only ops -> (forall b, In b (blocks_of ops) -> wf_block U b) ->
  let s := run ops (pre_open g) in
  block_of (dsk s) (s_hash (cur_block s)) = Some (cur_block s) /\
  has_state (dsk s) (s_root (cur_block s)) = true /\
  (forall h x, block_of (dsk s) h = Some x -> has_state (dsk s) (s_root x) = true /\ grounded g (dsk s) x) /\
  (forall h t, header_of (dsk s) h <> None -> td_of (dsk s) h = Some t -> t <= head_td s).
Proof. exact head_heaviest. Qed.
Print Assumptions C03_stored_ancestry_partial.

(* the top clause of canon_below, for every history of imports and restarts: the number
   index at the head's own height names the head, and so does the LastBlock pointer.
   (canon_below for the heights BELOW the head and lookup_exact remain unproved: they need
   the characterisation of the entries reorg rewrites.) *)
Theorem C03_head_named_partial : forall (U : N -> sblock) (g : header),
  U (h_hash g) = (g, []) -> h_number g = 0 ->
  forall (d0 : disk), h_hash g <> 0 -> d0 = genesis_disk g ->
  forall ops,
  imports_and_reopens ops ->
  (forall b, In b (blocks_of ops) -> wf_block U b /\ h_hash (b_hdr b) <> 0) ->
  let s := run ops (pre_open g) in
  canon (dsk s) (s_num (cur_block s)) = s_hash (cur_block s) /\ hb (dsk s) = s_hash (cur_block s).
Proof. exact head_named. Qed.
Print Assumptions C03_head_named_partial.

(* round 6, full forms of the two partial statements above, for every history of imports AND
   restarts: (a) all of canon_below, its top clause, the LastBlock pointer and the head block's
   own record; (b) the stored ancestry of the head reaches every height down to genesis through
   stored parent links, is what the number index names, and header, body, receipts and total
   difficulty of each ancestor are retrievable.  The `_partial` ones are kept (the first also
   carries the C02 clauses has_state / grounded / heaviest for import-only histories). *)
Theorem C03_head_named : forall (U : N -> sblock) (g : header),
  U (h_hash g) = (g, []) -> h_number g = 0 ->
  forall (d0 : disk), h_hash g <> 0 -> d0 = genesis_disk g ->
  forall ops,
  imports_and_reopens ops ->
  (forall b, In b (blocks_of ops) -> wf_block U b /\ h_hash (b_hdr b) <> 0) ->
  let s := run ops (pre_open g) in
  canon_below s /\
  canon (dsk s) (s_num (cur_block s)) = s_hash (cur_block s) /\ hb (dsk s) = s_hash (cur_block s) /\
  block_of (dsk s) (s_hash (cur_block s)) = Some (cur_block s).
Proof. exact head_named_full. Qed.
Print Assumptions C03_head_named.

Theorem C03_stored_ancestry : forall (U : N -> sblock) (g : header),
  U (h_hash g) = (g, []) -> h_number g = 0 ->
  forall (d0 : disk), h_hash g <> 0 -> d0 = genesis_disk g ->
  forall ops,
  imports_and_reopens ops ->
  (forall b, In b (blocks_of ops) -> wf_block U b /\ h_hash (b_hdr b) <> 0) ->
  let s := run ops (pre_open g) in
  block_of (dsk s) (s_hash (cur_block s)) = Some (cur_block s) /\
  (forall n, n <= s_num (cur_block s) ->
     exists h, ancestor_at (dsk s) (s_hash (cur_block s)) n = Some h /\ canon (dsk s) n = h /\
       header_of (dsk s) h <> None /\ body_of (dsk s) h <> None /\
       receipts_of (dsk s) h <> None /\ td_of (dsk s) h <> None).
Proof. exact stored_ancestry_full. Qed.
Print Assumptions C03_stored_ancestry.

(* round 6, completeness half of lookup_exact: NOT closed.  What is proved: given the soundness
   half (above), completeness follows for every history of imports and restarts from two facts
   about the final state: no transaction twice on the canonical chain ([canon_txs_once]; in the
   Go code: nonces) and every canonical transaction has SOME entry ([lookup_nonempty]).  Open:
   [lookup_nonempty] as an invariant of reorg (it deletes only deleted \ added).  The example
   shows that the first premise is needed in the model (validity is an oracle there). *)
Theorem C03_lookup_complete_given_nonempty_partial : forall (U : N -> sblock) (g : header),
  U (h_hash g) = (g, []) -> h_number g = 0 ->
  forall (d0 : disk), h_hash g <> 0 -> d0 = genesis_disk g ->
  forall ops,
  imports_and_reopens ops ->
  (forall b, In b (blocks_of ops) -> wf_block U b /\ h_hash (b_hdr b) <> 0) ->
  let s := run ops (pre_open g) in
  canon_txs_once s -> lookup_nonempty s ->
  forall n l i t, n <= s_num (cur_block s) -> body_of (dsk s) (canon (dsk s) n) = Some l ->
    nth_error l (N.to_nat i) = Some t -> lookup_of (dsk s) t = Some (canon (dsk s) n, n, i).
Proof. exact lookup_complete_given_nonempty. Qed.
Print Assumptions C03_lookup_complete_given_nonempty_partial.

Example C03_lookup_complete_needs_unique_txs :
  let s := run ops_tx_twice (init_state (mkH 1 0 0 100 1)) in
  s_num (cur_block s) = 2 /\ canon (dsk s) 1 = 2 /\ body_of (dsk s) 2 = Some [7; 8] /\
  lookup_of (dsk s) 7 = Some (3, 2, 0) /\ lookup_of (dsk s) 8 = Some (2, 1, 1).
Proof. exact tx_twice_owned_by_later. Qed.

(* non-vacuity + the tie C04 builds on: the write log replays to the disk *)
Example C03_log_replays :
  let chk ops := let s := run ops (init_state wg) in
                 map (get (replay (log_of s) (genesis_disk wg)))
                     [KCanon 1; KCanon 2; KCanon 3; KHeadBlock; KHeadHeader; KHeadFast; KTd 5; KBody 3; KHeader 3; KLookup 7; KLookup 9; KReceipts 3]
                 = map (get (dsk s))
                     [KCanon 1; KCanon 2; KCanon 3; KHeadBlock; KHeadHeader; KHeadFast; KTd 5; KBody 3; KHeader 3; KLookup 7; KLookup 9; KReceipts 3] in
  chk ops_longer /\ chk ops_shorter_heavier /\ chk ops_sethead.
Proof. exact log_replays. Qed.
