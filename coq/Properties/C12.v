(* Properties/C12.v — A transaction is bound to its signer and to its chain.
   Only statements closed by `exact`, with Print Assumptions under each.

   Model: Signing/SigningModel.v (core/types/transaction_signing.go, transaction.go,
   crypto.ValidateSignatureValues).  H (Keccak-256), ecrecover / sign / pub_addr
   (secp256k1) are universally quantified functions: nothing is assumed about
   them.  Where the security of a primitive is what the property rests on, the
   conclusion exhibits the break of the primitive instead (an H collision, or a
   signature that recovers to the victim's address on a hash / with components
   the victim never produced — an ECDSA forgery). *)
From AQ Require Import Lib.Bytes Lib.Keccak Rlp.RlpSpec Signing.SigningModel Signing.SigningProofs
  Generated.GenSigners Signing.SigningGen Signing.SigningHighS.
Local Open Scope N_scope.

(* 1. The signing hash covers nonce, price, limit, recipient, value, data and the
      chain id of the signer kind. *)
Theorem C12_sighash_injective :
  forall (H : bytes -> bytes) (sg1 sg2 : signer) (t1 t2 : tx),
    to_wf t1 -> to_wf t2 ->
    fits (sighash_item sg1 t1) = true -> fits (sighash_item sg2 t2) = true ->
    sighash H sg1 t1 = sighash H sg2 t2 ->
    (same_signed_fields t1 t2 /\ hash_domain sg1 = hash_domain sg2) \/
    collision H (encode (sighash_item sg1 t1)) (encode (sighash_item sg2 t2)).
Proof. exact sighash_injective. Qed.
Print Assumptions C12_sighash_injective.

(* 2a. What SignTx returns is attributed to the signing key's address and carries
       the fields that were given. *)
Theorem C12_signed_tx_sender :
  forall H ecrecover sign pub_addr (sg : signer) (key : bytes) (t t' : tx),
    sign_tx H ecrecover sign pub_addr sg key t = SOk t' ->
    sender_signer H ecrecover sg t' = Ok (pub_addr key) /\ same_signed_fields t t'.
Proof. exact signed_tx_sender. Qed.
Print Assumptions C12_signed_tx_sender.

(* 2b. Changing a signed field (or the chain id committed to): if the result is
       still attributed to address a, a signature recovering to a exists on a hash
       other than the one that was signed, or H collides. *)
Theorem C12_mutation_changes_sender :
  forall H ecrecover (sg0 : signer) (t0 : tx) (sg : signer) (t : tx) (a : bytes),
    to_wf t0 -> to_wf t ->
    fits (sighash_item sg0 t0) = true -> fits (sighash_item (eff_signer sg t) t) = true ->
    ~ (same_signed_fields t0 t /\ hash_domain sg0 = hash_domain (eff_signer sg t)) ->
    sender_signer H ecrecover sg t = Ok a ->
    (exists h r s v, h <> sighash H sg0 t0 /\ recover_addr H ecrecover h r s v = Ok a) \/
    collision H (encode (sighash_item sg0 t0)) (encode (sighash_item (eff_signer sg t) t)).
Proof. exact mutation_changes_sender. Qed.
Print Assumptions C12_mutation_changes_sender.

(* 2c. Changing V, R or S: two different signatures on one hash recover to a; under
       Homestead rules both have S <= N/2 (not the trivial malleation). *)
Theorem C12_signature_mutation :
  forall H ecrecover (sg : signer) (t1 t2 : tx) (a : bytes),
    same_signed_fields t1 t2 -> eff_signer sg t1 = eff_signer sg t2 ->
    (t_v t1, t_r t1, t_s t1) <> (t_v t2, t_r t2, t_s t2) ->
    sender_signer H ecrecover sg t1 = Ok a -> sender_signer H ecrecover sg t2 = Ok a ->
    exists h v1 v2,
      (v1, t_r t1, t_s t1) <> (v2, t_r t2, t_s t2) /\
      recover_addr H ecrecover h (t_r t1) (t_s t1) v1 = Ok a /\
      recover_addr H ecrecover h (t_r t2) (t_s t2) v2 = Ok a /\
      (enforces_low_s (eff_signer sg t1) = true -> t_s t1 <= secp_half_n /\ t_s t2 <= secp_half_n).
Proof. exact signature_mutation. Qed.
Print Assumptions C12_signature_mutation.

(* 3. Replay protection. *)
Theorem C12_eip155_chain_bound :
  forall H ecrecover (c : N) (t : tx),
    is_protected_v (t_v t) = true -> derive_chain_id (t_v t) <> c ->
    sender_signer H ecrecover (EIP155 c) t = Err EChain.
Proof. exact eip155_chain_bound. Qed.
Print Assumptions C12_eip155_chain_bound.

Theorem C12_eip155_replay_protected :
  forall H ecrecover (c1 c2 v : N) (t : tx),
    v < 2 -> t_v t = 35 + 2 * c1 + v -> c1 <> c2 ->
    sender_signer H ecrecover (EIP155 c2) t = Err EChain.
Proof. exact eip155_replay_protected. Qed.
Print Assumptions C12_eip155_replay_protected.

(* 3c. Chain ids are unbounded naturals in the model (the signing preimage carries be_of_N c, the chain
       check compares the whole number): integer width never enters.  Two different chain ids - however
       large, however congruent modulo 2^32 or 2^64 - never share a signing hash short of an H collision;
       and a transaction carrying the fields signed for c1 that is attributed under the EIP-155 signer of
       c2 <> c1 (V rewritten to c2's encoding or not) exhibits a signature on another hash, or a collision. *)
Theorem C12_sighash_differs_across_chains :
  forall (H : bytes -> bytes) (c1 c2 : N) (t : tx),
    c1 <> c2 -> to_wf t ->
    fits (sighash_item (EIP155 c1) t) = true -> fits (sighash_item (EIP155 c2) t) = true ->
    sighash H (EIP155 c1) t = sighash H (EIP155 c2) t ->
    collision H (encode (sighash_item (EIP155 c1) t)) (encode (sighash_item (EIP155 c2) t)).
Proof. exact sighash_differs_across_chains. Qed.
Print Assumptions C12_sighash_differs_across_chains.

Theorem C12_cross_chain_replay :
  forall H ecrecover (c1 c2 : N) (t1 t2 : tx) (a : bytes),
    c1 <> c2 -> to_wf t1 -> to_wf t2 ->
    fits (sighash_item (EIP155 c1) t1) = true -> fits (sighash_item (EIP155 c2) t2) = true ->
    is_protected_v (t_v t2) = true ->
    sender_signer H ecrecover (EIP155 c2) t2 = Ok a ->
    (exists h r s v, h <> sighash H (EIP155 c1) t1 /\ recover_addr H ecrecover h r s v = Ok a) \/
    collision H (encode (sighash_item (EIP155 c1) t1)) (encode (sighash_item (EIP155 c2) t2)).
Proof. exact cross_chain_replay. Qed.
Print Assumptions C12_cross_chain_replay.

(* non-vacuity: for the recorded transaction, chain ids 61717561 and 2^64 + 61717561 give different
   signing hashes (Keccak computed in Coq), and its V moved to the second chain's encoding is refused by
   the first chain's signer and attributed to somebody else - not the recorded sender - by nobody here *)
Example C12_wide_chain_example :
  let c1 := 61717561 in let c2 := 18446744073709551616 + 61717561 in
  bytes_eqb (sighash keccak256 (EIP155 c1) w_tx) (sighash keccak256 (EIP155 c2) w_tx) = false /\
  fits (sighash_item (EIP155 c2) w_tx) = true /\
  derive_chain_id (35 + 2 * c2 + 1) = c2 /\ is_protected_v (35 + 2 * c2 + 1) = true /\
  sender_signer keccak256 (table_ecrecover w_table) (EIP155 c1)
    (mkTx (t_nonce w_tx) (t_price w_tx) (t_gas w_tx) (t_to w_tx) (t_value w_tx) (t_data w_tx) (35 + 2 * c2 + 1) (t_r w_tx) (t_s w_tx))
  = Err EChain.
Proof. vm_compute. repeat split. Qed.

(* 4. Signature ranges. *)
Theorem C12_validate_spec :
  forall v r s (hs : bool),
    validate_sig v r s hs = true <->
    (v = 0 \/ v = 1) /\ 1 <= r < secp_n /\ 1 <= s < secp_n /\ (hs = true -> s <= secp_half_n).
Proof. exact validate_spec. Qed.
Print Assumptions C12_validate_spec.

Theorem C12_sender_sig_in_range :
  forall H ecrecover (sg : signer) (t : tx) (a : bytes),
    sender_signer H ecrecover sg t = Ok a ->
    1 <= t_r t < secp_n /\ 1 <= t_s t < secp_n /\
    (enforces_low_s (eff_signer sg t) = true -> t_s t <= secp_half_n).
Proof. exact sender_sig_in_range. Qed.
Print Assumptions C12_sender_sig_in_range.

(* Full-strength clause "malleable (high-S) signatures are rejected" would be
     forall sg t a, sg <> Frontier -> secp_half_n < t_s t -> sender_signer H ecrecover sg t <> Ok a.
   It holds where Homestead rules are applied (HomesteadSigner, and EIP155Signer on
   an unprotected V) … *)
Theorem C12_high_s_rejected_partial :
  forall H ecrecover (sg : signer) (t : tx) (a : bytes),
    enforces_low_s (eff_signer sg t) = true -> secp_half_n < t_s t ->
    sender_signer H ecrecover sg t <> Ok a.
Proof. exact high_s_rejected. Qed.
Print Assumptions C12_high_s_rejected_partial.

(* … and is false for EIP155Signer.Sender on a protected transaction (it passes
   homestead=false to recoverPlain): for every recovery function with the ECDSA
   symmetry (r, N-s, 1-v) ~ (r, s, v), the malleated form of an accepted
   transaction is accepted for the same sender, with S > N/2. *)
Theorem C12_eip155_accepts_malleated :
  forall H ecrecover (c : N) (t : tx) (a : bytes),
    (forall h r s v, v < 2 -> 1 <= s < secp_n ->
       ecrecover h (sig65 r (secp_n - s) (1 - v)) = ecrecover h (sig65 r s v)) ->
    is_protected_v (t_v t) = true -> sender_signer H ecrecover (EIP155 c) t = Ok a ->
    sender_signer H ecrecover (EIP155 c) (malleate c t) = Ok a /\
    (t_s t <= secp_half_n -> secp_half_n < t_s (malleate c t)) /\ malleate c t <> t.
Proof. exact eip155_accepts_malleated. Qed.
Print Assumptions C12_eip155_accepts_malleated.

(* Concrete witness (Keccak-256 computed in Coq; the Ecrecover answers are the
   ones the real secp256k1 code gave for this transaction): a replay-protected
   transaction with S > N/2 is attributed to a sender by the EIP-155 signer. *)
Theorem C12_eip155_high_s_refuted :
  exists (t : tx) (a : bytes),
    sender_signer keccak256 (table_ecrecover w_table) (EIP155 3) t = Ok a /\
    is_protected_v (t_v t) = true /\ secp_half_n < t_s t.
Proof. exact (ex_intro _ w_tx (ex_intro _ w_sender eip155_high_s_witness)). Qed.
Print Assumptions C12_eip155_high_s_refuted.

(* Full form with the exact carve-out: the only signers that attribute a sender to a transaction
   with S > N/2 are FrontierSigner (no low-S rule, by specification) and EIP155Signer on a
   replay-protected V (finding eip155-accepts-high-s).  Everything else rejects. *)
Theorem C12_high_s_rejected :
  forall H ecrecover (sg : signer) (t : tx) (a : bytes),
    ~ (sg = Frontier \/ exists c, sg = EIP155 c /\ is_protected_v (t_v t) = true) ->
    secp_half_n < t_s t -> sender_signer H ecrecover sg t <> Ok a.
Proof. exact high_s_rejected_full. Qed.
Print Assumptions C12_high_s_rejected.

Theorem C12_high_s_accepted_only_in_carve_out :
  forall H ecrecover (sg : signer) (t : tx) (a : bytes),
    sender_signer H ecrecover sg t = Ok a -> secp_half_n < t_s t ->
    sg = Frontier \/ exists c, sg = EIP155 c /\ is_protected_v (t_v t) = true.
Proof. exact high_s_accepted_only_in_carve_out. Qed.
Print Assumptions C12_high_s_accepted_only_in_carve_out.

(* The clause without the EIP-155 carve-out is false of the code (witness: w_tx above,
   Keccak in Coq, Ecrecover answers recorded from secp256k1). *)
Theorem C12_high_s_rejected_refuted :
  ~ (forall H ecrecover (sg : signer) (t : tx) (a : bytes),
       sg <> Frontier -> secp_half_n < t_s t -> sender_signer H ecrecover sg t <> Ok a).
Proof. exact high_s_rejected_refuted. Qed.
Print Assumptions C12_high_s_rejected_refuted.

(* 5. The `from` cache answers only what the signer itself would answer. *)
Theorem C12_cache_sound :
  forall H ecrecover (sg : signer) (t : tx) (c : cache) (r : res bytes) (c' : cache),
    cache_valid H ecrecover t c -> sender_cached H ecrecover sg t c = (r, c') ->
    r = sender_signer H ecrecover sg t /\ cache_valid H ecrecover t c'.
Proof. exact cache_sound. Qed.
Print Assumptions C12_cache_sound.

(* 6. RLP re-encoding returns the same transaction (hence the same hash and sender,
      which are functions of it). *)
Theorem C12_rlp_roundtrip :
  forall t : tx, tx_rlp_wf t -> decode_tx (encode_tx t) = Some t.
Proof. exact decode_encode_tx. Qed.
Print Assumptions C12_rlp_roundtrip.

(* 6a. ... and conversely whatever byte string decodes as a transaction is that transaction's one
       canonical encoding (so a transaction has one hash, whichever way it arrived). *)
Theorem C12_decode_tx_canonical :
  forall (b : bytes) (t : tx), decode_tx b = Some t -> b = encode_tx t.
Proof. exact decode_tx_canonical. Qed.
Print Assumptions C12_decode_tx_canonical.

(* 6b. JSON: every quantity field (nonce, gas as hexutil.Uint64: 16 digits; price,
       value, V, R, S as hexutil.Big: 64 digits) decodes to the value it was
       encoded from.  encoding/json's object syntax is library code (tied by the
       direct MarshalJSON/UnmarshalJSON round-trip oracle of the harness). *)
Theorem C12_json_quantity_roundtrip :
  forall maxlen n : N, 1 <= maxlen -> n < 16 ^ maxlen -> dec_quantity maxlen (enc_quantity n) = Some n.
Proof. exact quantity_roundtrip. Qed.
Print Assumptions C12_json_quantity_roundtrip.

(* 6c. Transaction.UnmarshalJSON member by member (tx_of_json, tied to the code by field-patched
       documents on every run): the VALUE of the "hash" member has no influence on the decoded
       transaction - its hash is tx_hash of its own content - and whatever is accepted has every
       required member, decoded by the quantity / bytes codecs, and a valid signature range. *)
Theorem C12_json_hash_member_ignored :
  forall (j : tx_json) (h1 h2 : jfield),
    hash_member_ok h1 = true -> hash_member_ok h2 = true ->
    tx_of_json (set_hash j h1) = tx_of_json (set_hash j h2).
Proof. exact json_hash_member_ignored. Qed.
Print Assumptions C12_json_hash_member_ignored.

Theorem C12_json_accepted_fields :
  forall (j : tx_json) (t : tx),
    tx_of_json j = Some t ->
    req_quantity 16 (j_nonce j) = Some (t_nonce t) /\ req_quantity 64 (j_price j) = Some (t_price t) /\
    req_quantity 16 (j_gas j) = Some (t_gas t) /\ req_quantity 64 (j_value j) = Some (t_value t) /\
    req_quantity 64 (j_v j) = Some (t_v t) /\ req_quantity 64 (j_r j) = Some (t_r t) /\
    req_quantity 64 (j_s j) = Some (t_s t) /\
    (exists s, j_input j = JS s /\ dec_hexbytes s = Some (t_data t)) /\
    json_accepts t = true /\ hash_member_ok (j_hash j) = true.
Proof. exact json_accepted_fields. Qed.
Print Assumptions C12_json_accepted_fields.

(* 1b. The size hypothesis `fits` follows from plain bounds (256-bit numbers, recipient of at most 20
       bytes, less than 4 GiB of data); 1 and 2b restated with those bounds. *)
Theorem C12_tx_bounded_fits :
  forall (sg : signer) (t : tx),
    tx_bounded t -> signer_bounded sg -> fits (sighash_item sg t) = true /\ fits (tx_item t) = true.
Proof. exact tx_bounded_fits. Qed.
Print Assumptions C12_tx_bounded_fits.

Theorem C12_sighash_injective_bounded :
  forall (H : bytes -> bytes) (sg1 sg2 : signer) (t1 t2 : tx),
    to_wf t1 -> to_wf t2 -> tx_bounded t1 -> tx_bounded t2 -> signer_bounded sg1 -> signer_bounded sg2 ->
    sighash H sg1 t1 = sighash H sg2 t2 ->
    (same_signed_fields t1 t2 /\ hash_domain sg1 = hash_domain sg2) \/
    collision H (encode (sighash_item sg1 t1)) (encode (sighash_item sg2 t2)).
Proof. exact sighash_injective_bounded. Qed.
Print Assumptions C12_sighash_injective_bounded.

Theorem C12_mutation_changes_sender_bounded :
  forall H ecrecover (sg0 : signer) (t0 : tx) (sg : signer) (t : tx) (a : bytes),
    to_wf t0 -> to_wf t -> tx_bounded t0 -> tx_bounded t -> signer_bounded sg0 -> signer_bounded sg ->
    ~ (same_signed_fields t0 t /\ hash_domain sg0 = hash_domain (eff_signer sg t)) ->
    sender_signer H ecrecover sg t = Ok a ->
    (exists h r s v, h <> sighash H sg0 t0 /\ recover_addr H ecrecover h r s v = Ok a) \/
    collision H (encode (sighash_item sg0 t0)) (encode (sighash_item (eff_signer sg t) t)).
Proof. exact mutation_changes_sender_bounded. Qed.
Print Assumptions C12_mutation_changes_sender_bounded.

(* 2a'. Liveness of SignTx: if crypto.Sign returns [R || S || recid] in range, low-S and recovering
        to the key's address (sign_correct), SignTx succeeds under Frontier, Homestead and every
        EIP-155 signer with a non-zero chain id, and the result is attributed to the key.
        (NewEIP155Signer(0) is excluded: its hash covers chain id 0 while V is 27/28, so its own
        Sender recovers over the Homestead hash and SignTx reports a mismatch.) *)
Theorem C12_sign_tx_succeeds :
  forall H ecrecover sign pub_addr (sg : signer) (key : bytes) (t : tx) (sig : bytes),
    sign_correct H ecrecover sign pub_addr -> sg <> EIP155 0 -> sign key (sighash H sg t) = Some sig ->
    exists t', sign_tx H ecrecover sign pub_addr sg key t = SOk t' /\ same_signed_fields t t' /\
               sender_signer H ecrecover sg t' = Ok (pub_addr key).
Proof. exact sign_tx_succeeds. Qed.
Print Assumptions C12_sign_tx_succeeds.

(* 6d. MarshalJSON (json_of_tx) then UnmarshalJSON (tx_of_json) returns the same transaction - hence
       the same hash and sender - for 64-bit nonce / gas, 256-bit amounts (hexutil.Big's limit) and a
       signature UnmarshalJSON's own check accepts. *)
Theorem C12_json_roundtrip :
  forall (t : tx) (h : bytes),
    t_nonce t < 2 ^ 64 -> t_gas t < 2 ^ 64 ->
    t_price t < 2 ^ 256 -> t_value t < 2 ^ 256 -> t_v t < 2 ^ 256 -> t_r t < 2 ^ 256 -> t_s t < 2 ^ 256 ->
    (match t_to t with Some a => lenN a = 20 | None => True end) -> lenN h = 32 ->
    json_accepts t = true ->
    tx_of_json (json_of_tx t h) = Some t.
Proof. exact json_roundtrip. Qed.
Print Assumptions C12_json_roundtrip.

(* 3b. An EIP-155 signer attributes a replay-protected transaction only when the chain id derived
       from its V is the signer's, and then V = 35 + 2c + recovery id exactly (V arithmetic is over
       Z with the narrowing recoverPlain performs: no negative or wrapped V' slips through). *)
Theorem C12_eip155_sender_chain :
  forall H ecrecover (c : N) (t : tx) (a : bytes),
    sender_signer H ecrecover (EIP155 c) t = Ok a -> is_protected_v (t_v t) = true ->
    derive_chain_id (t_v t) = c /\ exists v, v < 2 /\ t_v t = 35 + 2 * c + v.
Proof. exact eip155_sender_chain. Qed.
Print Assumptions C12_eip155_sender_chain.

(* 5b. The cache on a transaction OBJECT under any number of callers.  Sequentially: any list of Sender
       calls with any signers on one object answers, call by call, what the signer passed computes from
       the fields.  Concurrently (atomic.Value: Load and Store are separate atomic events that interleave
       freely): a hit is sound for a valid cache, and any sequence of Stores of pairs callers computed
       keeps it valid - so every answer, hit or computed, is the signer's own under every interleaving. *)
Theorem C12_sender_seq_sound :
  forall H ecrecover (sgs : list signer) (t : tx) (c : cache),
    cache_valid H ecrecover t c ->
    fst (sender_seq H ecrecover t c sgs) = map (fun sg => sender_signer H ecrecover sg t) sgs /\
    cache_valid H ecrecover t (snd (sender_seq H ecrecover t c sgs)).
Proof. exact sender_seq_sound. Qed.
Print Assumptions C12_sender_seq_sound.

Theorem C12_cache_hit_sound :
  forall H ecrecover (t : tx) (c : cache) (sg : signer) (a : bytes),
    cache_valid H ecrecover t c -> cache_load c sg = Some a -> sender_signer H ecrecover sg t = Ok a.
Proof. exact cache_hit_sound. Qed.
Print Assumptions C12_cache_hit_sound.

Theorem C12_interleaved_stores_valid :
  forall H ecrecover (t : tx) (stores : list (signer * bytes)) (c : cache),
    cache_valid H ecrecover t c ->
    Forall (fun p => sender_signer H ecrecover (fst p) t = Ok (snd p)) stores ->
    cache_valid H ecrecover t (fold_left cache_store stores c).
Proof. exact interleaved_stores_valid. Qed.
Print Assumptions C12_interleaved_stores_valid.

(* WithSignature copies the fields, never the cache: the copy answers from its own signature. *)
Theorem C12_with_signature_fresh_cache :
  forall H ecrecover (sg : signer) (o : tx * cache) (sig : bytes) (t' : tx) (c' : cache) (sgs : list signer),
    with_signature_obj sg o sig = Ok (t', c') ->
    c' = None /\ fst (sender_seq H ecrecover t' c' sgs) = map (fun s => sender_signer H ecrecover s t') sgs.
Proof. exact with_signature_fresh_cache. Qed.
Print Assumptions C12_with_signature_fresh_cache.

(* 6e. The two entrances.  RLP decoding checks nothing about V, R, S; UnmarshalJSON range-checks them
       (not low-S).  Whatever entrance a transaction came through, an attributed sender is the address
       recovered from an in-range signature over exactly the hash of the chain domain that applies (low-S
       where Homestead rules apply). *)
Theorem C12_entrance_sender_sound :
  forall H ecrecover (e : entrance) (t : tx) (sg : signer) (a : bytes),
    enter e = Some t -> sender_signer H ecrecover sg t = Ok a ->
    exists v, v < 2 /\ t_v t = v_of (eff_signer sg t) v /\
      1 <= t_r t < secp_n /\ 1 <= t_s t < secp_n /\
      (enforces_low_s (eff_signer sg t) = true -> t_s t <= secp_half_n) /\
      recover_addr H ecrecover (sighash H (eff_signer sg t) t) (t_r t) (t_s t) v = Ok a.
Proof. exact entrance_sender_sound. Qed.
Print Assumptions C12_entrance_sender_sound.

Theorem C12_json_entrance_admits :
  forall (j : tx_json) (t : tx),
    enter (EntJSON j) = Some t -> validate_sig (json_v_byte (t_v t)) (t_r t) (t_s t) false = true.
Proof. exact json_entrance_admits. Qed.
Print Assumptions C12_json_entrance_admits.

Theorem C12_rlp_entrance_admits_everything :
  forall t : tx, tx_rlp_wf t -> enter (EntRLP (encode_tx t)) = Some t.
Proof. exact rlp_entrance_admits_everything. Qed.
Print Assumptions C12_rlp_entrance_admits_everything.

(* non-vacuity: the recorded high-S transaction enters through both entrances; queried under EIP155(3),
   Homestead, EIP155(3) on one object it answers the sender, an error, the sender; a transaction with
   R = 0 enters through RLP only *)
Example C12_objects_example :
  let e := table_ecrecover w_table in
  enter (EntRLP (encode_tx w_tx)) = Some w_tx /\
  enter (EntJSON (json_of_tx w_tx (tx_hash keccak256 w_tx))) = Some w_tx /\
  fst (sender_seq keccak256 e w_tx None [EIP155 3; Homestead; EIP155 3]) = [Ok w_sender; Err ESig; Ok w_sender] /\
  (let z := mkTx 1 1 21000 None 0 [] 27 0 1 in
   enter (EntRLP (encode_tx z)) = Some z /\ enter (EntJSON (json_of_tx z (tx_hash keccak256 z))) = None).
Proof. vm_compute. repeat split. Qed.

(* 7. Which signer the node applies.  On every probed height of every built-in
      configuration (table regenerated from the source by the translator on each
      run) the model's make_signer is the signer types.MakeSigner returns. *)
Theorem C12_make_signer_spec :
  forall i h kind cid, In (i, h, kind, cid) gen_signer_probes ->
    exists x, nth_error gen_signer_configs i = Some x /\
              signer_code (make_signer (cfg_of x) h) = (kind, cid).
Proof. exact make_signer_spec. Qed.
Print Assumptions C12_make_signer_spec.

Theorem C12_make_signer_eip155_iff :
  forall (cfg : chain_cfg) (n c : N),
    make_signer cfg n = EIP155 c <-> is_forked (cc_eip155 cfg) n = true /\ c = cc_chain_id cfg.
Proof. exact make_signer_eip155_iff. Qed.
Print Assumptions C12_make_signer_eip155_iff.

(* ApplyTransaction / AsMessage at height n, and TxPool.validateTx at any height,
   attribute a replay-protected transaction only under the node's own chain id
   (and the state processor only once EIP-155 is active). *)
Theorem C12_applied_sender_chain :
  forall H ecrecover (cfg : chain_cfg) (n : N) (t : tx) (a : bytes),
    sender_signer H ecrecover (make_signer cfg n) t = Ok a ->
    is_protected_v (t_v t) = true ->
    is_forked (cc_eip155 cfg) n = true /\ derive_chain_id (t_v t) = cc_chain_id cfg.
Proof. exact applied_sender_chain. Qed.
Print Assumptions C12_applied_sender_chain.

Theorem C12_pool_sender_chain :
  forall H ecrecover (cfg : chain_cfg) (t : tx) (a : bytes),
    sender_signer H ecrecover (pool_signer cfg) t = Ok a ->
    is_protected_v (t_v t) = true -> derive_chain_id (t_v t) = cc_chain_id cfg.
Proof. exact pool_sender_chain. Qed.
Print Assumptions C12_pool_sender_chain.

Example C12_generated_nonempty :
  gen_signer_configs <> [] /\ gen_signer_probes <> [] /\
  forallb (fun x => match cc_eip155 (cfg_of x) with Some _ => true | None => false end) gen_signer_configs = true.
Proof. exact builtin_configs_protected. Qed.

(* Non-vacuity: the recorded transaction is well-formed in the sense of every
   hypothesis above, and its unmalleated twin has the low S. *)
Example C12_example :
  to_wf w_tx /\ tx_rlp_wf w_tx /\ fits (sighash_item (EIP155 3) w_tx) = true /\
  eff_signer (EIP155 3) w_tx = EIP155 3 /\
  t_s (malleate 3 w_tx) <= secp_half_n /\ t_v (malleate 3 w_tx) = 41 /\
  decode_tx (encode_tx w_tx) = Some w_tx /\
  tx_of_json (json_of_tx w_tx (tx_hash keccak256 w_tx)) = Some w_tx.
Proof. vm_compute. repeat split; try discriminate; reflexivity. Qed.
