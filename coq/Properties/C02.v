(* Properties/C02.v — The head is always a heaviest fully validated block.
   Only statements closed by `exact`, with Print Assumptions under each.

   Setting: any history [ops] of InsertChain calls (any batching, any arrival
   order - blocks whose parent is unknown are simply refused -, any validity
   oracle, any tie-break coins) over a well-formed block universe [U]
   (wf_block: one block per hash, number = parent number + 1), started on the
   database Genesis.Commit leaves ([pre_open g]; NewBlockChain adds one
   redundant LastHeader write to it, see C02_example).
   C02_with_reopen extends monotonicity, additivity and "no stored block is heavier
   than the head" to histories that also close and reopen the database anywhere
   (the LastBlock pointer always names the in-memory head, so loadLastState finds
   it again).  Not covered: SetHead (which makes the head lighter by design) and
   pruning nodes (direct oracle only). *)
From Coq Require Import NArith List.
From AQ Require Import Chain.Store Chain.ChainSpec Chain.ChainProofs Chain.ChainAccept Chain.Crash Chain.ChainReopen Chain.ChainAllOps Chain.ChainAllOpsWitness Chain.ChainWitness.
Import ListNotations.
Local Open Scope N_scope.

(* every stored block's total difficulty is its parent's plus its own difficulty *)
Theorem C02_td_additive : forall (U : N -> sblock) (g : header),
  U (h_hash g) = (g, []) -> h_number g = 0 ->
  forall ops, inserts_only ops -> (forall b, In b (blocks_of ops) -> wf_block U b) ->
  let d := dsk (run ops (pre_open g)) in
  forall h hd, header_of d h = Some hd -> h <> h_hash g ->
    exists t pt, td_of d h = Some t /\ td_of d (h_parent hd) = Some pt /\ t = pt + h_diff hd.
Proof. exact td_additive. Qed.
Print Assumptions C02_td_additive.

(* the head's total difficulty never decreases as further blocks are imported *)
Theorem C02_head_td_monotone : forall (U : N -> sblock) (g : header),
  U (h_hash g) = (g, []) -> h_number g = 0 ->
  forall ops1 ops2, inserts_only (ops1 ++ ops2) -> (forall b, In b (blocks_of (ops1 ++ ops2)) -> wf_block U b) ->
  head_td (run ops1 (pre_open g)) <= head_td (run (ops1 ++ ops2) (pre_open g)).
Proof. exact head_td_monotone. Qed.
Print Assumptions C02_head_td_monotone.

(* the head is a stored block with its state; every stored block has its state and a
   stored ancestry down to genesis (it and all its ancestors were fully validated);
   no stored block has a greater total difficulty than the head.  Together with
   C02_valid_batch_accepted below (every valid block the node is given on top of
   a stored parent IS stored, and stays stored) this is the full statement: the
   head is heaviest among all fully validated blocks the node has been given. *)
Theorem C02_head_heaviest : forall (U : N -> sblock) (g : header),
  U (h_hash g) = (g, []) -> h_number g = 0 ->
  forall ops, inserts_only ops -> (forall b, In b (blocks_of ops) -> wf_block U b) ->
  let s := run ops (pre_open g) in
  block_of (dsk s) (s_hash (cur_block s)) = Some (cur_block s) /\
  has_state (dsk s) (s_root (cur_block s)) = true /\
  (forall h x, block_of (dsk s) h = Some x -> has_state (dsk s) (s_root x) = true /\ grounded g (dsk s) x) /\
  (forall h t, header_of (dsk s) h <> None -> td_of (dsk s) h = Some t -> t <= head_td s).
Proof. exact head_heaviest. Qed.
Print Assumptions C02_head_heaviest.

(* acceptance completeness: a batch of valid, well-formed blocks that is linked
   (contiguous_prefix keeps all of it) and whose first parent is stored is stored
   entirely - whatever the tie-break coins, provided the oracle list is long
   enough - stays stored under any further imports, and is never heavier than
   the head *)
Theorem C02_valid_batch_accepted : forall (U : N -> sblock) (g : header),
  U (h_hash g) = (g, []) -> h_number g = 0 ->
  forall ops1 b0 r cs ops2,
  inserts_only (ops1 ++ OpInsert (b0 :: r) cs :: ops2) ->
  (forall b, In b (blocks_of (ops1 ++ OpInsert (b0 :: r) cs :: ops2)) -> wf_block U b) ->
  header_of (dsk (run ops1 (pre_open g))) (h_parent (b_hdr b0)) <> None ->
  contiguous_prefix b0 r = r ->
  (forall b, In b (b0 :: r) -> b_valid b = true) ->
  (length (b0 :: r) <= length cs)%nat ->
  let s := run (ops1 ++ OpInsert (b0 :: r) cs :: ops2) (pre_open g) in
  forall b, In b (b0 :: r) ->
    header_of (dsk s) (h_hash (b_hdr b)) <> None /\ td_or0 (dsk s) (h_hash (b_hdr b)) <= head_td s.
Proof. exact valid_batch_accepted. Qed.
Print Assumptions C02_valid_batch_accepted.

(* the same guarantees when the node is closed and reopened anywhere in the history:
   monotone head TD, additive TDs, the head is stored and named by LastBlock, no
   stored block is heavier; plus block-data completeness at every crash prefix *)
Theorem C02_with_reopen : forall (U : N -> sblock) (g : header),
  U (h_hash g) = (g, []) -> h_number g = 0 ->
  forall (d0 : disk), h_hash g <> 0 -> d0 = genesis_disk g ->
  forall ops1 ops2,
  imports_and_reopens (ops1 ++ ops2) ->
  (forall b, In b (blocks_of (ops1 ++ ops2)) -> wf_block U b /\ h_hash (b_hdr b) <> 0) ->
  let s1 := run ops1 (pre_open g) in
  let s := run (ops1 ++ ops2) (pre_open g) in
  head_td s1 <= head_td s /\
  (forall h hd, header_of (dsk s) h = Some hd -> h <> h_hash g ->
     exists t pt, td_of (dsk s) h = Some t /\ td_of (dsk s) (h_parent hd) = Some pt /\ t = pt + h_diff hd) /\
  block_of (dsk s) (s_hash (cur_block s)) = Some (cur_block s) /\
  hb (dsk s) = s_hash (cur_block s) /\
  (forall h t, header_of (dsk s) h <> None -> td_of (dsk s) h = Some t -> t <= head_td s) /\
  (forall k, block_data_complete (crash_disk d0 (log_of s) k)).
Proof. exact c02_with_reopen. Qed.
Print Assumptions C02_with_reopen.

(* TD bookkeeping over EVERY history - InsertChain (reorganisations, side blocks, re-import of known
   blocks), InsertHeaderChain, SetHead, Rollback, close/reopen in any order, including the states an
   operation leaves when it ends in an error or a panic: every stored total difficulty is the
   universe's ([utd], with utd b = utd (parent b) + difficulty b), so td(b) = td(parent) + difficulty(b)
   whenever both are stored.  Premises: the genesis facts and [wf_ops] (delivered blocks / headers are the
   universe's, number = parent number + 1 < 2^64, utd additive). *)
Theorem C02_td_sound_all_ops : forall (U : N -> sblock) (utd : N -> N) (g : header),
  U (h_hash g) = (g, []) -> h_number g = 0 -> utd (h_hash g) = h_diff g -> h_parent g = 0 ->
  forall ops, wf_ops U utd ops ->
  let d := dsk (run ops (pre_open g)) in
  (forall h t, td_of d h = Some t -> t = utd h) /\
  (forall h t pt, td_of d h = Some t -> td_of d (h_parent (fst (U h))) = Some pt ->
     h <> h_hash g -> header_of d h <> None -> t = pt + h_diff (fst (U h))).
Proof. exact td_sound_all_ops. Qed.
Print Assumptions C02_td_sound_all_ops.

(* non-vacuity: a universe and a history using all five operations satisfy the premises *)
Example C02_all_ops_example : wf_ops Uw utdw ops_all /\
  Uw (h_hash wg) = (wg, []) /\ h_number wg = 0 /\ utdw (h_hash wg) = h_diff wg /\ h_parent wg = 0.
Proof. exact ops_all_wf. Qed.

(* a reorganisation never fails on blocks whose stored ancestry reaches genesis *)
Theorem C02_reorg_total : forall (g : header) (fuel : nat) (o n : sblock) (s : st),
  grounded g (dsk s) o -> grounded g (dsk s) n ->
  (N.to_nat (N.max (s_num o) (s_num n)) + 1 < fuel)%nat ->
  fst (reorg fuel o n s) = SOk.
Proof. exact reorg_ok. Qed.
Print Assumptions C02_reorg_total.

(* non-vacuity: a concrete universe and history (two batches, a longer chain wins) *)
Example C02_example :
  let s := run ops_longer (init_state wg) in
  s_hash (cur_block s) = 4 /\ head_td s = 400 /\
  canon (dsk s) 1 = 2 /\ canon (dsk s) 2 = 3 /\ canon (dsk s) 3 = 4 /\ canon (dsk s) 4 = 0 /\
  lookup_of (dsk s) 9 = Some (3, 2, 0) /\ td_of (dsk s) 3 = Some 300.
Proof. exact longer_fine. Qed.

Example C02_init_is_pre_open :
  dsk (init_state wg) = put KHeadHeader (VHash 1) (dsk (pre_open wg)) /\
  cur_block (init_state wg) = cur_block (pre_open wg) /\ cur_header (init_state wg) = cur_header (pre_open wg).
Proof. exact init_is_pre_open. Qed.
