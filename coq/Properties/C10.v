(* Properties/C10.v — The Merkle-Patricia trie commits to exactly its content.
   Only statements closed by `exact`, with Print Assumptions under each.

   Full-strength statement (properties.jsonl C10): for all key/value sets and all
   histories of update / delete / get / hash / commit / reopen / cache-limit
   changes / iteration / prove: the root equals the specification's
   Merkle-Patricia root of the content; lookups and iteration return exactly
   the content; a trie reopened from a committed root reproduces it; proofs
   verify to the content and no altered proof verifies to a different value;
   nothing panics.

   What is proved here (`_partial` = restricted to histories of update / delete /
   get on a loaded trie, hashed at the end; the hasher's reuse of cached hashes
   across intermediate Hash/Commit calls, unloading to hash nodes, reloading
   through the node database, iteration and proof generation/verification are
   tied to the code by the correspondence runs and direct oracles of
   harness/cmd/c10 only — no theorem covers them yet).  The clause "nothing
   panics" is false of the code: see the two `_refuted` theorems.

   Vocabulary: `fresh_trie t` = canonical shape (TrieInv.canon: no short->short,
   no single-child branch, no empty value, no unresolved hash node) and no cached
   hash; `tmap t k` = lookup of byte key k in the abstract content; `tcontent t`
   = abstract content (terminated nibble keys); `mpt_root_hex H J` / `mpt_root H c`
   = the Yellow-Paper root of a content (Trie/MptSpec.v). *)
From Coq Require Import Permutation.
From AQ Require Import Lib.Bytes Lib.Keccak Rlp.RlpSpec Trie.MptSpec Trie.TrieModel Trie.TrieInv
  Trie.MptSpecProofs Trie.TrieTheorems.
Local Open Scope N_scope.

(* TryGet returns exactly the content and leaves the trie unchanged *)
Theorem C10_get_is_content_partial : forall t d k,
  canon_trie t -> trie_get t d k = Ok (tmap t k, t).
Proof. exact trie_get_spec. Qed.
Print Assumptions C10_get_is_content_partial.

(* TryUpdate: never fails, keeps the canonical shape, is the finite-map update *)
Theorem C10_update_refines_map_partial : forall t d k v, fresh_trie t -> v <> [] ->
  exists t', trie_update t d k v = Ok t' /\ fresh_trie t' /\ tgen t' = tgen t /\ tlimit t' = tlimit t /\
    forall k', tmap t' k' = if bytes_eqb k k' then Some v else tmap t k'.
Proof. exact trie_update_spec. Qed.
Print Assumptions C10_update_refines_map_partial.

(* TryDelete (and TryUpdate with an empty value): same, removing the key *)
Theorem C10_delete_refines_map_partial : forall t d k, fresh_trie t ->
  exists t', trie_delete t d k = Ok t' /\ fresh_trie t' /\ tgen t' = tgen t /\ tlimit t' = tlimit t /\
    forall k', tmap t' k' = if bytes_eqb k k' then None else tmap t k'.
Proof. exact trie_delete_spec. Qed.
Print Assumptions C10_delete_refines_map_partial.

(* every history from the empty trie succeeds, ends in a canonical trie, and
   denotes the finite map obtained by replaying it on a map *)
Theorem C10_history_refines_map_partial : forall ops d,
  exists t, apply_ops empty_trie d ops = Ok t /\ fresh_trie t /\
            forall k, tmap t k = map_ops (fun _ => None) ops k.
Proof. exact history_spec. Qed.
Print Assumptions C10_history_refines_map_partial.

(* Trie.Hash of a canonical trie is the specification's root of its content
   (inline rule for encodings shorter than 32 bytes, hex-prefix keys, H above) *)
Theorem C10_root_is_spec_root_partial : forall H : bytes -> bytes,
  (forall x, length (H x) = 32%nat) ->
  forall t, fresh_trie t ->
  exists t', trie_hash H t = Ok (mpt_root_hex H (tcontent t), t') /\ erase (troot t') = erase (troot t).
Proof. exact trie_hash_spec. Qed.
Print Assumptions C10_root_is_spec_root_partial.

(* the root is a function of the content alone: any two histories of updates
   and deletes (any order, any intermediate values, any databases) that end with
   the same content end with the same root — the specification's *)
Theorem C10_root_depends_on_content_only_partial : forall H : bytes -> bytes,
  (forall x, length (H x) = 32%nat) ->
  forall ops1 ops2 d1 d2 t1 t2,
  apply_ops empty_trie d1 ops1 = Ok t1 -> apply_ops empty_trie d2 ops2 = Ok t2 ->
  (forall k, lookup (tcontent t1) k = lookup (tcontent t2) k) ->
  exists r t1' t2', trie_hash H t1 = Ok (r, t1') /\ trie_hash H t2 = Ok (r, t2') /\
                    r = mpt_root_hex H (tcontent t1).
Proof. exact history_root_content_only. Qed.
Print Assumptions C10_root_depends_on_content_only_partial.

(* the specification root itself does not depend on the order in which the
   content is listed (full) *)
Theorem C10_spec_root_order_independent : forall (H : bytes -> bytes) c c',
  NoDup (map fst c) -> Permutation c c' -> mpt_root H c = mpt_root H c'.
Proof. exact mpt_root_perm. Qed.
Print Assumptions C10_spec_root_order_independent.

(* ... and depends only on the finite map a listing represents (full) *)
Theorem C10_spec_root_extensional : forall (H : bytes -> bytes) J J',
  wf_content J -> wf_content J' -> (forall k, lookup J k = lookup J' k) ->
  mpt_root_hex H J = mpt_root_hex H J'.
Proof. exact mpt_root_hex_ext. Qed.
Print Assumptions C10_spec_root_extensional.

(* "decodeNode / VerifyProof never panic on arbitrary node bytes":
     forall buf, decode_node_top None buf 0 <> Panic
     forall H root key nodes, verify_proof root key (proof_db_of H nodes) <> Panic
   Both are FALSE of the code (trie/encoding.go compactToHex indexes base[0] of
   an empty compact key; reached from decodeShort): witness node c2 80 76. *)
Theorem C10_decode_never_panics_refuted : exists buf, decode_node_top None buf 0 = Panic.
Proof. exact decode_node_panics. Qed.
Print Assumptions C10_decode_never_panics_refuted.

Theorem C10_verify_never_panics_refuted : forall H : bytes -> bytes,
  exists root key nodes, verify_proof root key (proof_db_of H nodes) = Panic.
Proof. exact verify_proof_panics. Qed.
Print Assumptions C10_verify_never_panics_refuted.

(* "VerifyProof (root, k, Prove k) = the content's answer for k (value or absence)":
     forall H t d k p root, fresh_trie t -> trie_hash H t = Ok (root, _) -> trie_prove H t d k = Ok p ->
       verify_proof root k p = Ok (tmap t k)
   is FALSE of the code for the empty trie: Prove emits no node, VerifyProof
   reports the root node missing (an error, not a proof of absence). *)
Theorem C10_empty_trie_absence_proof_refuted : forall (H : bytes -> bytes) d k,
  exists root p, trie_hash H empty_trie = Ok (root, empty_trie) /\
                 trie_prove H empty_trie d k = Ok p /\ tmap empty_trie k = None /\
                 verify_proof root k p = Err.
Proof. exact empty_trie_absence_not_provable. Qed.
Print Assumptions C10_empty_trie_absence_proof_refuted.

(* non-vacuity: a history with keys that are prefixes of one another, an
   overwrite and a delete ends in a trie that satisfies `fresh_trie`, and (with
   the Gallina Keccak-256) hashes to the specification root of its content:
   the classical do/dog/doge/horse root 5991bb8c... *)
Example C10_example :
  let s2b := map (fun n => n2b n) in
  let do_ := s2b [100; 111] in let dog := s2b [100; 111; 103] in
  let doge := s2b [100; 111; 103; 101] in let horse := s2b [104; 111; 114; 115; 101] in
  let verb := s2b [118; 101; 114; 98] in let puppy := s2b [112; 117; 112; 112; 121] in
  let coin := s2b [99; 111; 105; 110] in let stallion := s2b [115; 116; 97; 108; 108; 105; 111; 110] in
  let ops := [(doge, coin); (horse, verb); (do_, verb); (dog, puppy); (horse, stallion);
              (s2b [100], coin); (s2b [100], [])] in
  match apply_ops empty_trie [] ops with
  | Ok t =>
    canon_root (troot t) && nohash (troot t) &&
    match trie_hash keccak256 t with
    | Ok (r, _) =>
      bytes_eqb r (mpt_root keccak256 [(do_, verb); (dog, puppy); (doge, coin); (horse, stallion)])
      && bytes_eqb (firstn 4 r) (s2b [89; 145; 187; 140])
    | _ => false
    end
  | _ => false
  end = true.
Proof. vm_compute. reflexivity. Qed.
