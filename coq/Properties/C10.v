(* Properties/C10.v — The Merkle-Patricia trie commits to exactly its content.
   Only statements closed by `exact`; Print Assumptions once over the tuple of all of them at the end.

   Full-strength statement (properties.jsonl C10): for all key/value sets and all
   histories of update / delete / get / hash / commit / reopen / cache-limit
   changes / iteration / prove: the root equals the specification's
   Merkle-Patricia root of the content; lookups and iteration return exactly
   the content; a trie reopened from a committed root reproduces it; proofs
   verify to the content and no altered proof verifies to a different value;
   nothing panics.

   What is proved here.  C10_history is the property's statement for the model of
   the code: every history of update / delete / get / hash / commit / reopen /
   cache-limit change / iteration / prove on the general in-memory form of the
   trie observes exactly what the denoted finite map gives (roots = the
   specification's, proofs verify to the map's answer), under explicit side
   conditions listed at the theorem.  The `C10_inmemory_*` theorems are the same
   facts, with sharper statements, for the fragment held fully in memory.  Full:
   the specification root is a function of the finite map; decodeNode /
   VerifyProof are total (no panic, fuel sufficient); VerifyProof is sound for
   every set of proof nodes under collision freedom of H on the strings compared;
   the size premise is a derived fact.  Refuted: absence in the EMPTY trie has no
   verifiable proof (known finding).

   Vocabulary: `warm_trie H t` (TrieFlagsProofs) = canonical shape (TrieInv.canon:
   no short->short, no single-child branch, no empty value, no unresolved hash
   node) + every cached hash is the hash of the node's specification encoding
   (below the root only cached for encodings >= 32 bytes); `tmap t k` / `wmap t k`
   = lookup of byte key k in the abstract content; `tcontent t` = abstract content
   (terminated nibble keys); `mpt_root_hex H J` / `mpt_root H c` = the Yellow-Paper
   root of a content (Trie/MptSpec.v); `plain_op` = update | delete | get | hash;
   `op_map` = the finite-map meaning of an operation; `trace_ok H m ops obl` = every
   observation in obl is the one a canonical trie representing the current map
   gives (get = map lookup, hash = specification root of the content). *)
From Coq Require Import Permutation.
From AQ Require Import Trie.SecureModel.   (* first: its record `strie` must not shadow TrieModel.strie *)
From AQ Require Import Lib.Bytes Lib.Keccak Rlp.RlpSpec Trie.MptSpec Trie.TrieModel Trie.TrieInv
  Trie.MptSpecProofs Trie.TrieCodecDefs Trie.TrieFlagsProofs Trie.TrieTheorems Trie.TrieReopenProofs Trie.TrieProveProofs
  Trie.TrieLazyDefs Trie.TrieFitsProofs Trie.TrieLazyTheorems Import.DeriveShaCode Trie.RootInjProofs Trie.SecureProofs Trie.IterModel Trie.TrieIterProofs Trie.IterProofs Trie.DbModel Trie.DbProofs Generated.GenTrieParams.
Local Open Scope N_scope.

(* TryGet returns exactly the content and leaves the trie unchanged *)
Theorem C10_inmemory_get : forall t d k,
  canon_trie t -> trie_get t d k = Ok (tmap t k, t).
Proof. exact trie_get_spec. Qed.

(* TryUpdate: never fails, keeps the invariant, is the finite-map update *)
Theorem C10_inmemory_update : forall (H : bytes -> bytes) t d k v, warm_trie H t -> v <> [] ->
  exists t', trie_update t d k v = Ok t' /\ warm_trie H t' /\ tgen t' = tgen t /\ tlimit t' = tlimit t /\
    forall k', wmap t' k' = if bytes_eqb k k' then Some v else wmap t k'.
Proof. exact trie_update_warm. Qed.

(* TryDelete (and TryUpdate with an empty value): same, removing the key *)
Theorem C10_inmemory_delete : forall (H : bytes -> bytes) t d k, warm_trie H t ->
  exists t', trie_delete t d k = Ok t' /\ warm_trie H t' /\ tgen t' = tgen t /\ tlimit t' = tlimit t /\
    forall k', wmap t' k' = if bytes_eqb k k' then None else wmap t k'.
Proof. exact trie_delete_warm. Qed.

(* Trie.Hash — with whatever hashes are cached from earlier Hash() calls — is the
   specification's root of the content, and keeps content and invariant *)
Theorem C10_inmemory_hash : forall H : bytes -> bytes,
  (forall x, length (H x) = 32%nat) ->
  forall t, warm_trie H t ->
  exists t', trie_hash H t = Ok (mpt_root_hex H (content_of (troot t)), t') /\ warm_trie H t' /\
    erase (troot t') = erase (troot t) /\ content_of (troot t') = content_of (troot t) /\
    tgen t' = tgen t /\ tlimit t' = tlimit t.
Proof. exact trie_hash_warm. Qed.

(* every history of update / delete / get / hash from the empty trie: all
   operations succeed, the final trie represents the finite map the history
   denotes, and every observation (each get, each intermediate root) is the one
   that map gives *)
Theorem C10_inmemory_history : forall H : bytes -> bytes,
  (forall x, length (H x) = 32%nat) ->
  forall ops, forallb plain_op ops = true ->
  exists s' obl, run_ops H init_state ops = (s', obl) /\ warm_trie H (strie s') /\ sdb s' = [] /\
    (forall k, tmap (strie s') k = fold_left op_map ops (fun _ => None) k) /\
    trace_ok H (fun _ => None) ops obl.
Proof. exact plain_history_spec. Qed.

(* the root is a function of the content alone: two such histories (any order,
   any intermediate values, Hash() anywhere) that denote the same finite map end
   with the same root — the specification's *)
Theorem C10_inmemory_root_depends_on_content_only : forall H : bytes -> bytes,
  (forall x, length (H x) = 32%nat) ->
  forall ops1 ops2 s1 s2 ob1 ob2,
  forallb plain_op ops1 = true -> forallb plain_op ops2 = true ->
  run_ops H init_state ops1 = (s1, ob1) -> run_ops H init_state ops2 = (s2, ob2) ->
  (forall kb, fold_left op_map ops1 (fun _ => None) kb = fold_left op_map ops2 (fun _ => None) kb) ->
  exists r t1' t2', trie_hash H (strie s1) = Ok (r, t1') /\ trie_hash H (strie s2) = Ok (r, t2') /\
                    r = mpt_root_hex H (tcontent (strie s1)).
Proof. exact plain_history_root_map_only. Qed.

(* iteration lists exactly the content (values and byte keys, in the iterator's
   order); `hexmap t`: every content key is the nibble form of a byte key (true
   of every trie built by TryUpdate: run_hexmap); keys up to 49 bytes (fuel 200) *)
Theorem C10_inmemory_iterate : forall H : bytes -> bytes,
  (forall x, length (H x) = 32%nat) ->
  forall t d, warm_trie H t -> hexmap t -> (max_key_len (tcontent t) <= 99)%nat ->
  exists l t', trie_iterate H t d = Ok (l, t') /\ warm_trie H t' /\
    map snd l = map snd (tcontent t) /\ map (fun kv => keybytes_to_hex (fst kv)) l = map fst (tcontent t).
Proof. exact trie_iterate_spec. Qed.

(* VerifyProof is sound for EVERY set of proof nodes (so for every altered
   proof): whatever it returns for key is the content's answer (Some v, or None
   = absent).  root_node: the canonical trie the root commits to; all_fits: RLP
   sizes fit 64 bits; premise: H is collision free on the strings compared (a
   proof element hashing like a node's encoding IS that encoding).  (full) *)
Theorem C10_verify_sound : forall H : bytes -> bytes,
  (forall x, length (H x) = 32%nat) ->
  forall root_node, canon root_node = true -> all_fits H root_node ->
  forall nodes : list bytes,
  (forall buf m, In buf nodes -> canon m = true -> H buf = H (spec_enc H m) -> buf = spec_enc H m) ->
  forall key v,
    verify_proof (mpt_root_hex H (content_of root_node)) key (proof_db_of H nodes) = Ok v ->
    v = lookup (content_of root_node) (keybytes_to_hex key).
Proof. exact TrieVerifyProofs.verify_sound_closed. Qed.

(* Commit writes every node that is referenced by hash; trie.New on the returned
   root + TryGet on the lazily loaded trie (hash nodes resolved through the
   database, decodeNode of the stored encodings) returns exactly the content.
   db_sound d: every blob of d is the encoding of a canonical node under its hash
   (true of [] and preserved by Commit).  Premises: collision freedom of H on the
   encodings of canonical nodes; the committed root differs from the two roots
   trie.New treats as "empty" (zero hash, emptyRoot) — also collision freedom.
   `_partial`: one Commit of a trie without cached hashes (no unloading yet). *)
Theorem C10_inmemory_commit_reopen : forall H : bytes -> bytes,
  (forall x, length (H x) = 32%nat) ->
  (forall m1 m2, canon m1 = true -> canon m2 = true -> H (spec_enc H m1) = H (spec_enc H m2) ->
                 spec_enc H m1 = spec_enc H m2) ->
  forall t d r t' d',
  canon_root (troot t) = true -> nohash (troot t) = true -> all_fits H (troot t) -> db_sound H d ->
  trie_commit H t d = Ok (r, t', d') ->
  r <> zero_hash -> (troot t <> NNil -> r <> empty_root H) ->
  r = mpt_root_hex H (content_of (troot t)) /\ db_sound H d' /\
  exists t2, trie_new H r d' = Ok t2 /\
    forall k, exists t3, trie_get t2 d' k = Ok (lookup (content_of (troot t)) (keybytes_to_hex k), t3).
Proof. exact commit_reopen. Qed.

(* ... in terms of histories: updates/deletes, Commit, reopen: every TryGet on the
   reopened trie returns what the history's finite map says *)
Theorem C10_inmemory_history_commit_reopen : forall H : bytes -> bytes,
  (forall x, length (H x) = 32%nat) ->
  (forall m1 m2, canon m1 = true -> canon m2 = true -> H (spec_enc H m1) = H (spec_enc H m2) ->
                 spec_enc H m1 = spec_enc H m2) ->
  forall ops d t r t' d',
  apply_ops empty_trie d ops = Ok t -> all_fits H (troot t) -> db_sound H d ->
  trie_commit H t d = Ok (r, t', d') -> r <> zero_hash -> (troot t <> NNil -> r <> empty_root H) ->
  r = mpt_root_hex H (tcontent t) /\
  exists t2, trie_new H r d' = Ok t2 /\
    forall k, exists t3, trie_get t2 d' k = Ok (map_ops (fun _ => None) ops k, t3).
Proof. exact history_commit_reopen. Qed.

(* completeness: the proof Prove produces for ANY key verifies against the root to
   the content's answer for that key — its value, or its absence — for every
   non-empty canonical trie (without cached hashes: `_partial`); for the empty
   trie this is false, see C10_empty_trie_absence_proof_refuted *)
Theorem C10_inmemory_prove_then_verify : forall H : bytes -> bytes,
  (forall x, length (H x) = 32%nat) ->
  (forall m1 m2, canon m1 = true -> canon m2 = true -> H (spec_enc H m1) = H (spec_enc H m2) ->
                 spec_enc H m1 = spec_enc H m2) ->
  forall t d k, canon (troot t) = true -> nohash (troot t) = true -> all_fits H (troot t) ->
  exists p, trie_prove H t d k = Ok p /\
    verify_proof (mpt_root_hex H (content_of (troot t))) k p
      = Ok (lookup (content_of (troot t)) (keybytes_to_hex k)).
Proof. exact prove_verify_closed. Qed.

(* THE MAIN THEOREM.  The trie as the Go code holds it — partly unloaded to hash
   nodes whose encodings are in the node database, with cached hashes, dirty
   flags and cache generations.  Histories of update / delete / get / Hash /
   Commit / reopen / SetCacheLimit / iterate / prove in ANY order from the empty
   trie, any number of commits (old generations are unloaded to hash nodes and
   re-read through the database; updates, deletes, hashing, iteration and proof
   construction run on the lazily loaded trie): every operation succeeds
   (`run_ops` yields the observations `obl`, none of them an error), and
   `lazy_trace` says each observation is the one the denoted finite map gives:
     get k      -> the map's value at k (or none);
     hash/commit-> the specification root mpt_root_hex of a canonical trie denoting
                   the map (unique per map: C10_spec_root_of_map_unique);
     iterate    -> exactly the map's entries (values, byte keys), iterator order;
     prove k    -> a proof p together with VerifyProof(root, k, p) = the map's
                   answer for k (value or absence);
     reopen r   -> afterwards the map is the one committed under root r.
   Side conditions `lazy_ok` (checked along the run, Trie/TrieLazyTheorems.v lazy_op):
   hash/commit/iterate/prove: RLP sizes fit 64 bits (derived for contents below
   4 GiB: C10_sizes_fit); SetCacheLimit: a uint16; reopen: a root returned by an
   earlier Commit of this run (zero-hash / emptyRoot not colliding with a non-empty
   content) or a root under which the database stores nothing; iterate: keys of at most 48 bytes (the MODEL's iteration
   fuel is 200 — an artefact of the model, not of the code); prove: non-empty trie
   (the empty trie is the known finding, C10_empty_trie_absence_proof_refuted).
   Premises on H: 32-byte output; collision freedom on the encodings of canonical
   nodes.  A reopen of a root under which nothing is stored observes Missing and
   changes nothing.  SecureTrie: C10_secure_history; DeriveSha: C10_derive_sha_*.
   Not covered by any theorem: trie.Database's reference counting / GC. *)
Theorem C10_history : forall H : bytes -> bytes,
  (forall x, length (H x) = 32%nat) ->
  (forall m1 m2, canon m1 = true -> canon m2 = true -> H (spec_enc H m1) = H (spec_enc H m2) ->
                 spec_enc H m1 = spec_enc H m2) ->
  forall ops, lazy_ok H init_state (fun _ => None) [] ops ->
  exists s' obl, run_ops H init_state ops = (s', obl) /\ lazy_trace H (fun _ => None) [] ops obl.
Proof. exact lazy_history_empty. Qed.

(* ... from any state satisfying the invariant (so histories compose), with the
   invariant re-established: the final trie represents the final map over a sound
   database, every committed root stays reopenable *)
Theorem C10_history_from : forall H : bytes -> bytes,
  (forall x, length (H x) = 32%nat) ->
  (forall m1 m2, canon m1 = true -> canon m2 = true -> H (spec_enc H m1) = H (spec_enc H m2) ->
                 spec_enc H m1 = spec_enc H m2) ->
  forall ops s mp sn, inv H s mp sn -> lazy_ok H s mp sn ops ->
  exists s' obl, run_ops H s ops = (s', obl) /\ lazy_trace H mp sn ops obl /\
    exists mp' sn', inv H s' mp' sn'.
Proof. exact lazy_history. Qed.

(* the root observed by Hash/Commit is a function of the map alone: all canonical
   tries denoting the same finite map have the same specification root (full) *)
Theorem C10_spec_root_of_map_unique : forall (H : bytes -> bytes) m1 m2 mp,
  denotes m1 mp -> denotes m2 mp -> mpt_root_hex H (content_of m1) = mpt_root_hex H (content_of m2).
Proof. exact denotes_root_unique. Qed.

(* the root COMMITS to the content: two canonical tries with the same root hold the
   same key/value map (collision freedom of H on encodings of canonical nodes) (full) *)
Theorem C10_root_injective : forall H : bytes -> bytes,
  (forall x, length (H x) = 32%nat) ->
  (forall m1 m2, canon m1 = true -> canon m2 = true -> H (spec_enc H m1) = H (spec_enc H m2) ->
                 spec_enc H m1 = spec_enc H m2) ->
  forall m1 m2, canon m1 = true -> canon m2 = true -> all_fits H m1 -> all_fits H m2 ->
  mpt_root_hex H (content_of m1) = mpt_root_hex H (content_of m2) ->
  forall kb, lookup (content_of m1) (keybytes_to_hex kb) = lookup (content_of m2) (keybytes_to_hex kb).
Proof. exact root_injective. Qed.

(* core/types/derive_sha.go DeriveSha as the code computes it (Import/DeriveShaCode.v:
   a throw-away trie, Update(rlp(uint i), item_i) in a loop — the Go loop reuses one
   key buffer, which has no meaning in the value-semantics model and is covered by the
   buffer-reuse correspondence runs — then Hash) is the specification root of the
   listing {rlp(i) -> item_i}; items non-empty (every RLP encoding is) (full) *)
Theorem C10_derive_sha_is_spec_root : forall H : bytes -> bytes,
  (forall x, length (H x) = 32%nat) ->
  forall items d, lenN items <= two64 -> Forall (fun x => x <> []) items ->
  derive_sha_code H d items = Ok (mpt_root H (indexed 0 items)).
Proof. exact derive_sha_code_spec. Qed.

(* ... and DeriveSha is injective: two non-empty lists with the same root are equal
   (sizes below 4 GiB so that the RLP size premise is derived) (full) *)
Theorem C10_derive_sha_injective : forall H : bytes -> bytes,
  (forall x, length (H x) = 32%nat) ->
  (forall m1 m2, canon m1 = true -> canon m2 = true -> H (spec_enc H m1) = H (spec_enc H m2) ->
                 spec_enc H m1 = spec_enc H m2) ->
  forall d items1 items2 r, items1 <> [] -> items2 <> [] -> lenN items1 <= two64 -> lenN items2 <= two64 ->
  Forall (fun x => x <> []) items1 -> Forall (fun x => x <> []) items2 ->
  byte_content_size (indexed 0 items1) < 2 ^ 32 -> byte_content_size (indexed 0 items2) < 2 ^ 32 ->
  derive_sha_code H d items1 = Ok r -> derive_sha_code H d items2 = Ok r -> items1 = items2.
Proof. exact derive_sha_injective. Qed.

(* trie.New on a root under which the database stores nothing (a root that was
   never committed) fails with MissingNodeError (full; also a case of C10_history) *)
Theorem C10_reopen_uncommitted_root_missing : forall (H : bytes -> bytes) d r,
  db_get d (to_hash r) = None -> r <> zero_hash -> r <> empty_root H -> trie_new H r d = Missing.
Proof. exact trie_new_missing. Qed.

(* trie/secure_trie.go (Trie/SecureModel.v): a SecureTrie history — TryUpdate / TryDelete
   / TryGet / GetKey / Hash / Commit / NewSecure on committed or unknown roots — behaves
   like a finite map on the caller's ORIGINAL keys, provided the hash is injective ON THE
   KEYS USED (K; not globally): `sec_trace` says every get observes the original-key map
   (`am`, evolving by smap), every Hash/Commit observes the specification root of the
   hashed-key map (`rel mp am`: mp is exactly the image of am under k |-> hex (H k)),
   GetKey (H k) observes k whenever k's preimage is in the cache or was flushed by a
   Commit.  `sec_ok`: the side conditions of C10_history read along the secure run. (full) *)
Theorem C10_secure_history : forall H : bytes -> bytes,
  (forall x, length (H x) = 32%nat) ->
  (forall m1 m2, canon m1 = true -> canon m2 = true -> H (spec_enc H m1) = H (spec_enc H m2) ->
                 spec_enc H m1 = spec_enc H m2) ->
  forall K : bytes -> Prop, (forall k1 k2, K k1 -> K k2 -> H k1 = H k2 -> k1 = k2) ->
  forall ops, Forall (keys_in K) ops -> sec_ok H sec_init (fun _ => None) [] ops ->
  exists s' obl, sec_run H sec_init ops = (s', obl) /\
    sec_trace H K (fun _ => None) [] (fun _ => None) [] (fun _ => false) (fun _ => false) ops obl.
Proof. exact secure_history. Qed.

(* GetKey returns the preimage: if the last TryUpdate/TryDelete on k was a TryUpdate,
   GetKey (H k) returns k, whether or not Commits happened in between (full) *)
Theorem C10_secure_getkey : forall H : bytes -> bytes,
  (forall x, length (H x) = 32%nat) ->
  (forall m1 m2, canon m1 = true -> canon m2 = true -> H (spec_enc H m1) = H (spec_enc H m2) ->
                 spec_enc H m1 = spec_enc H m2) ->
  forall K : bytes -> Prop, (forall k1 k2, K k1 -> K k2 -> H k1 = H k2 -> k1 = k2) ->
  forall ops k, Forall (keys_in K) ops -> Forall no_reopen ops ->
  lazy_ok H init_state (fun _ => None) [] (flat_map (tr H) ops) -> K k ->
  last_upd false ops k = true ->
  snd (sec_step H (fst (sec_run H sec_init ops)) (SGetKey (H k))) = OVal (Some k).
Proof. exact getkey_spec. Qed.

(* trie/iterator.go as the state machine it is (Trie/IterModel.v: the stack of
   nodeIteratorState with the mutable child index, seek / peek / nextChild / push / pop /
   Next(descend), Leaf / LeafKey / LeafBlob, Iterator.Next on top): draining
   trie.NewIterator(t.NodeIterator(start)) over a trie in its general in-memory form
   yields exactly the content entries whose path is >= start, in path order — each key
   once, nothing else (`keyed [] J` lists J with byte keys; it can only fail on keys with
   an odd number of nibbles, which TryUpdate never creates).  With start = [] that is the
   whole content.  `nsize m + 2 <= fuel`: the model's fuel covers the node count;
   premise root <> keccak(nil): newNodeIterator's emptyState test. (full) *)
Theorem C10_iterator_from_start : forall H : bytes -> bytes,
  (forall x, length (H x) = 32%nat) ->
  (forall m1 m2, canon m1 = true -> canon m2 = true -> H (spec_enc H m1) = H (spec_enc H m2) ->
                 spec_enc H m1 = spec_enc H m2) ->
  forall d m t start fuel, lazy_trie H d m t -> all_fits H m -> db_sound H d ->
  mpt_root_hex H (content_of m) <> H [] -> (nsize m + 2 <= fuel)%nat ->
  exists t', lazy_trie H d m t' /\
    trie_iterate_from H t d start fuel =
    bind (keyed [] (filter (fun kv => bytes_ge (fst kv) (removelast (keybytes_to_hex start))) (content_of m)))
         (fun l => Ok (l, t')).
Proof. exact trie_iterate_from_lazy. Qed.

(* the content of a canonical trie is listed in strictly increasing path order (so the
   filter above is a suffix and "each key once" holds) (full) *)
Theorem C10_content_sorted : forall m, canon m = true ->
  Sorted.StronglySorted path_lt (map fst (content_of m)).
Proof. exact content_sorted. Qed.

(* trie/database.go, the two layers behind the node database (Trie/DbModel.v): memory
   layer with child references, disk store, Database.Commit(root) = commit through a write
   batch flushed whenever ValueSize >= limit (aquadb.IdealBatchSize), final Write, uncache.
   BATCHING IS UNOBSERVABLE: the result does not depend on the limit at all (full) *)
Theorem C10_db_commit_limit_irrelevant : forall fuel l1 l2 m pre d root,
  tdb_commit fuel l1 m pre d root = tdb_commit fuel l2 m pre d root.
Proof. exact tdb_commit_limit_irrelevant. Qed.

(* ... in particular at the constant the code uses today (regenerated by the translator
   from aquadb.IdealBatchSize on every run) the commit equals the batch-free one-shot
   write of the post-order listing of the reachable nodes *)
Theorem C10_db_commit_at_ideal_batch_size : forall fuel m pre d root,
  tdb_commit fuel ideal_batch_size m pre d root =
  bind (db_collect fuel m root) (fun ps =>
    Ok (db_uncache fuel m root, fold_left disk_put ps (fold_left disk_put pre d))).
Proof. intros. apply tdb_commit_char. Qed.

(* after Commit the disk holds every node reachable from the root through the child
   references, with its memory blob, and is unchanged elsewhere; and no reader can tell
   the difference: Database.Node (memory first, then disk) answers as before (full) *)
Theorem C10_db_commit_disk : forall fuel limit m d root m' d',
  tdb_commit fuel limit m [] d root = Ok (m', d') ->
  (forall h n, reach m root h -> mem_get m h = Some n -> disk_get d' h = Some (mn_blob n)) /\
  (forall k, ~ reach m root k -> disk_get d' k = disk_get d k).
Proof. exact tdb_commit_disk. Qed.

Theorem C10_db_commit_readers_unaffected : forall fuel limit m d root m' d',
  tdb_commit fuel limit m [] d root = Ok (m', d') -> forall h, tdb_node m' d' h = tdb_node m d h.
Proof. exact tdb_commit_node. Qed.

(* reopening a committed root, over the database of the commit or any later one *)
Theorem C10_reopen_step : forall H : bytes -> bytes,
  (forall x, length (H x) = 32%nat) ->
  forall d d' m mp, denotes m mp -> avail H d m ->
  (forall m0, canon m0 = true -> stored H d m0 -> stored H d' m0) ->
  mpt_root_hex H (content_of m) <> zero_hash -> mpt_root_hex H (content_of m) <> empty_root H ->
  exists t, trie_new H (mpt_root_hex H (content_of m)) d' = Ok t /\ TrieLazyTheorems.rep H d' mp t.
Proof. exact reopen_step. Qed.

(* the size premise (all_fits) is a derived fact for contents below 4 GiB (full) *)
Theorem C10_sizes_fit : forall H : bytes -> bytes,
  (forall x, length (H x) = 32%nat) ->
  forall m, canon_root m = true -> content_size (content_of m) < 2 ^ 32 -> all_fits H m.
Proof. exact fits_of_size. Qed.

(* the premise on H is met by the Gallina Keccak-256 the executable model uses *)
Theorem C10_keccak_instance : forall ops, forallb plain_op ops = true ->
  exists s' obl, run_ops keccak256 init_state ops = (s', obl) /\ warm_trie keccak256 (strie s') /\ sdb s' = [] /\
    (forall k, tmap (strie s') k = fold_left op_map ops (fun _ => None) k) /\
    trace_ok keccak256 (fun _ => None) ops obl.
Proof. exact (plain_history_spec keccak256 keccak256_length). Qed.

(* the specification root itself does not depend on the order in which the
   content is listed (full) *)
Theorem C10_spec_root_order_independent : forall (H : bytes -> bytes) c c',
  NoDup (map fst c) -> Permutation c c' -> mpt_root H c = mpt_root H c'.
Proof. exact mpt_root_perm. Qed.

(* ... and depends only on the finite map a listing represents (full) *)
Theorem C10_spec_root_extensional : forall (H : bytes -> bytes) J J',
  wf_content J -> wf_content J' -> (forall k, lookup J k = lookup J' k) ->
  mpt_root_hex H J = mpt_root_hex H J'.
Proof. exact mpt_root_hex_ext. Qed.

(* decodeNode / VerifyProof never panic, whatever bytes they are given (full; true
   since the fix of compactToHex for the empty compact key — before it the node
   c2 80 76 was a counter-example), and the model's fuel is always sufficient *)
Theorem C10_decode_never_panics : forall hash buf gen,
  decode_node_top hash buf gen <> Panic /\ decode_node_top hash buf gen <> OutOfFuel.
Proof. exact decode_top_total. Qed.

Theorem C10_verify_never_panics : forall (H : bytes -> bytes) root key nodes,
  verify_proof root key (proof_db_of H nodes) <> Panic.
Proof. exact verify_never_panics. Qed.

(* "VerifyProof (root, k, Prove k) = the content's answer for k (value or absence)":
     forall H t d k p root, fresh_trie t -> trie_hash H t = Ok (root, _) -> trie_prove H t d k = Ok p ->
       verify_proof root k p = Ok (tmap t k)
   is FALSE of the code for the empty trie: Prove emits no node, VerifyProof
   reports the root node missing (an error, not a proof of absence). *)
Theorem C10_empty_trie_absence_proof_refuted : forall (H : bytes -> bytes) d k,
  exists root p, trie_hash H empty_trie = Ok (root, empty_trie) /\
                 trie_prove H empty_trie d k = Ok p /\ tmap empty_trie k = None /\
                 verify_proof root k p = Err.
Proof. exact empty_trie_absence_not_provable. Qed.

(* non-vacuity: a history with keys that are prefixes of one another, an
   overwrite and a delete ends in a trie that satisfies `fresh_trie`, and (with
   the Gallina Keccak-256) hashes to the specification root of its content:
   the classical do/dog/doge/horse root 5991bb8c... *)
Example C10_example :
  let s2b := map (fun n => n2b n) in
  let do_ := s2b [100; 111] in let dog := s2b [100; 111; 103] in
  let doge := s2b [100; 111; 103; 101] in let horse := s2b [104; 111; 114; 115; 101] in
  let verb := s2b [118; 101; 114; 98] in let puppy := s2b [112; 117; 112; 112; 121] in
  let coin := s2b [99; 111; 105; 110] in let stallion := s2b [115; 116; 97; 108; 108; 105; 111; 110] in
  let ops := [(doge, coin); (horse, verb); (do_, verb); (dog, puppy); (horse, stallion);
              (s2b [100], coin); (s2b [100], [])] in
  match apply_ops empty_trie [] ops with
  | Ok t =>
    canon_root (troot t) && nohash (troot t) &&
    match trie_hash keccak256 t with
    | Ok (r, _) =>
      bytes_eqb r (mpt_root keccak256 [(do_, verb); (dog, puppy); (doge, coin); (horse, stallion)])
      && bytes_eqb (firstn 4 r) (s2b [89; 145; 187; 140])
    | _ => false
    end
  | _ => false
  end = true.
Proof. vm_compute. reflexivity. Qed.

(* non-vacuity of the commit/reopen, iteration and proof theorems, by computation
   with the Gallina Keccak: the committed root of the same trie is neither the
   zero hash nor emptyRoot; reopening from it and reading back, iterating, and
   Prove + VerifyProof (presence and absence) give the content *)
Example C10_example_commit_reopen_prove :
  let s2b := map (fun n => n2b n) in
  let do_ := s2b [100; 111] in let dog := s2b [100; 111; 103] in
  let doge := s2b [100; 111; 103; 101] in let horse := s2b [104; 111; 114; 115; 101] in
  let verb := s2b [118; 101; 114; 98] in let puppy := s2b [112; 117; 112; 112; 121] in
  let coin := s2b [99; 111; 105; 110] in let stallion := s2b [115; 116; 97; 108; 108; 105; 111; 110] in
  let ops := [(doge, coin); (horse, stallion); (do_, verb); (dog, puppy)] in
  match apply_ops empty_trie [] ops with
  | Ok t =>
    match trie_commit keccak256 t [] with
    | Ok (r, _, d') =>
      negb (bytes_eqb r zero_hash) && negb (bytes_eqb r (empty_root keccak256)) &&
      match trie_new keccak256 r d' with
      | Ok t2 =>
        match trie_get t2 d' dog, trie_get t2 d' (s2b [100]), trie_iterate keccak256 t2 d', trie_prove keccak256 t [] dog with
        | Ok (Some v, _), Ok (None, _), Ok (l, _), Ok p =>
          bytes_eqb v puppy && Nat.eqb (length l) 4 &&
          match verify_proof r dog p, verify_proof r (s2b [100; 111; 103; 103]) p with
          | Ok (Some v'), Ok None => bytes_eqb v' puppy
          | _, _ => false
          end
        | _, _, _, _ => false
        end
      | _ => false
      end
    | _ => false
    end
  | _ => false
  end = true.
Proof. vm_compute. reflexivity. Qed.

(* non-vacuity of C10_history: a concrete history with two commits, a reopen of the
   first committed root, a hash, gets, an iteration and a cache-limit change meets
   the side conditions `lazy_ok` (computed along the run with the Gallina Keccak;
   the size premises through C10_sizes_fit-style bounds on the denoted maps) *)
Example C10_example_history_ok :
  lazy_ok keccak256 init_state (fun _ => None) []
    [OpCommit; OpLimit 1; OpUpdate [x01; x02] [x03]; OpGet [x01]; OpDelete [x01; x02]; OpGet [x01; x02];
     OpReopen (empty_root keccak256); OpReopen (repeat x07 32)].
Proof.
  cbn [lazy_ok]. split; [exact (fits_map_empty keccak256 keccak256_length)|].
  vm_compute. repeat split; try reflexivity; try (intros; reflexivity); try (intro E; discriminate E).
Qed.

(* non-vacuity of C10_secure_history: a key set on which Keccak is injective (checked by
   computation) and a SecureTrie history over it that meets the side conditions *)
Example C10_example_secure_ok :
  let k1 := [x01] in let k2 := [x02; x03] in
  let K := fun k => k = k1 \/ k = k2 in
  let ops := [SUpdate k1 [x0a]; SUpdate k2 [x0b; x0c]; SGet k1; SGetKey (keccak256 k1); SDelete k2; SGet k2] in
  (forall a b, K a -> K b -> keccak256 a = keccak256 b -> a = b) /\
  Forall (keys_in K) ops /\ sec_ok keccak256 sec_init (fun _ => None) [] ops.
Proof.
  cbv zeta. split; [|split].
  - intros a b [-> | ->] [-> | ->] E; try reflexivity; vm_compute in E; discriminate E.
  - repeat (apply Forall_cons || apply Forall_nil); cbn; auto.
  - vm_compute. repeat split; try reflexivity; try (intros; reflexivity); try (intro E; discriminate E).
Qed.

(* non-vacuity of C10_iterator_from_start: on the do/dog/doge/horse trie, iteration from
   "dog" lists doge, dog, do, horse (a key that is a prefix of others comes after them in
   path order) and iteration from "dp" lists horse only *)
Example C10_example_iterator :
  let s2b := map (fun n => n2b n) in
  let do_ := s2b [100; 111] in let dog := s2b [100; 111; 103] in
  let doge := s2b [100; 111; 103; 101] in let horse := s2b [104; 111; 114; 115; 101] in
  let ops := [(doge, [x01]); (horse, [x02]); (do_, [x03]); (dog, [x04])] in
  match apply_ops empty_trie [] ops with
  | Ok t =>
    match trie_iterate_from keccak256 t [] dog 100, trie_iterate_from keccak256 t [] (s2b [100; 112]) 100 with
    | Ok (l1, _), Ok (l2, _) =>
      (map fst l1, map fst l2) = ([doge; dog; do_; horse], [horse])
    | _, _ => False
    end
  | _ => False
  end.
Proof. vm_compute. reflexivity. Qed.

(* non-vacuity of the database-layer theorems: a memory layer with a shared child, committed
   with a limit that forces two intermediate flushes, succeeds, empties the reachable part of
   the memory layer and puts all three reachable nodes on disk *)
Example C10_example_db_commit :
  let m := [([x01], mkMnode [xaa; xbb; xcc] [[x02]; [x03]]); ([x02], mkMnode [xdd] [[x03]]);
            ([x03], mkMnode [xee; xee] []); ([x09], mkMnode [x77] [])] in
  match tdb_commit 10 3 m [] [([x05], [x00])] [x01] with
  | Ok (m', d') => (map fst m', disk_get d' [x01], disk_get d' [x02], disk_get d' [x03], disk_get d' [x05])
                   = ([[x09]], Some [xaa; xbb; xcc], Some [xdd], Some [xee; xee], Some [x00])
  | _ => False
  end.
Proof. vm_compute. reflexivity. Qed.

(* Print Assumptions, once for ALL theorems of this file: the per-theorem form costs ~0.6 s each
   (20 s for the file: every call re-traverses the same 14 k-line development), which does not fit
   the quick tier; the tuple below mentions every theorem, so any axiom used by any of them is
   listed here.  Expected output: "Closed under the global context". *)
Definition C10_all_theorems :=
  (C10_inmemory_get,
   C10_inmemory_update,
   C10_inmemory_delete,
   C10_inmemory_hash,
   C10_inmemory_history,
   C10_inmemory_root_depends_on_content_only,
   C10_inmemory_iterate,
   C10_verify_sound,
   C10_inmemory_commit_reopen,
   C10_inmemory_history_commit_reopen,
   C10_inmemory_prove_then_verify,
   C10_history,
   C10_history_from,
   C10_spec_root_of_map_unique,
   C10_root_injective,
   C10_derive_sha_is_spec_root,
   C10_derive_sha_injective,
   C10_reopen_uncommitted_root_missing,
   C10_secure_history,
   C10_secure_getkey,
   C10_iterator_from_start,
   C10_content_sorted,
   C10_db_commit_limit_irrelevant,
   C10_db_commit_at_ideal_batch_size,
   C10_db_commit_disk,
   C10_db_commit_readers_unaffected,
   C10_reopen_step,
   C10_sizes_fit,
   C10_keccak_instance,
   C10_spec_root_order_independent,
   C10_spec_root_extensional,
   C10_decode_never_panics,
   C10_verify_never_panics,
   C10_empty_trie_absence_proof_refuted).
Print Assumptions C10_all_theorems.
