(* Properties/C13.v — Headers and uncles are accepted iff they satisfy the consensus rules.
   Only statements closed by `exact`, with Print Assumptions under each. *)
From AQ Require Import Lib.Bytes Generated.GenParamsConsensus
  Consensus.HeaderModel Consensus.HeaderSpec Consensus.HeaderProofs Consensus.BatchProofs Consensus.ChainModel Consensus.ChainProofs Consensus.DifficultyExtraModel Consensus.DifficultyProofs Consensus.AbortModel Consensus.AbortProofs Consensus.KnownProofs Consensus.MinimumProofs.
Local Open Scope Z_scope.

(* verifyHeader accepts exactly when, relative to the parent: number = parent + 1, timestamp strictly later and
   within the bound, extra data <= 32 bytes, gasUsed <= gasLimit <= 2^63-1, gasLimit >= 5000 and moved by less
   than parent/1024, the difficulty equals the scheduled one (and the seal verifies when it is checked).
   Hypothesis on the parent's gas limit: < 2^63, which every accepted header satisfies (only a genesis block can
   violate it: see C13_gas_limit_wrap_refuted). *)
Theorem C13_verify_header_iff :
  forall (c : cfg) (chain : list header) (now : Z) (h p : header) (gp : option header) (uncle seal : bool),
    0 <= h_gas_limit p < 2 ^ 63 -> 0 <= h_gas_limit h ->
    (verify_header c chain now h (Some p) gp uncle seal = Ok tt <->
     exists expected,
       engine_calc_difficulty c chain (big_uint64 (h_time h)) p gp = Ok expected /\
       rules_ok now h p uncle expected /\
       (seal = true -> h_seal h = 0)).
Proof. exact verify_header_iff. Qed.
Print Assumptions C13_verify_header_iff.

(* Full-strength clause of the statement: "an uncle header's timestamp is not more than 15 s ahead of the clock".
   False of the code (rules_ok's time_bound_ok says what the code does: uncles only need Time <= 2^256-1): *)
Theorem C13_uncle_future_time_refuted :
  exists c chain now u p gp,
    verify_header c chain now u (Some p) gp true true = Ok tt /\ h_time u > now + 15.
Proof. exact uncle_future_time_refuted. Qed.
Print Assumptions C13_uncle_future_time_refuted.

(* ... and an uncle's difficulty is checked against its timestamp modulo 2^64 (header.Time.Uint64()) *)
Theorem C13_uncle_time_truncated_refuted :
  exists c chain now u p gp,
    verify_header c chain now u (Some p) gp true true = Ok tt /\ h_time u >= 2 ^ 64 /\
    calc_difficulty c (h_time u) p gp <> Ok (h_diff u).
Proof. exact uncle_time_truncated_refuted. Qed.
Print Assumptions C13_uncle_time_truncated_refuted.

(* without the hypothesis on the parent's gas limit the int64 subtraction wraps *)
Theorem C13_gas_limit_wrap_refuted :
  exists c chain now h p gp,
    verify_header c chain now h (Some p) gp false false = Ok tt /\
    ~ Z.abs (h_gas_limit p - h_gas_limit h) < h_gas_limit p / 1024.
Proof. exact gas_limit_wrap_refuted. Qed.
Print Assumptions C13_gas_limit_wrap_refuted.

(* the difficulty adjustment is the fork table (divisor / minimum / duration limit per fork, resets at fork blocks),
   for every fork map, chain id, timestamp, parent and grandparent *)
Theorem C13_difficulty_is_spec :
  forall (c : cfg) (time : Z) (p : header) (gp : option header),
    calc_difficulty c time p gp = match difficulty_spec c time p gp with Some d => Ok d | None => Panic end.
Proof. exact difficulty_is_spec. Qed.
Print Assumptions C13_difficulty_is_spec.

Theorem C13_difficulty_fork_reset :
  forall (c : cfg) (time : Z) (p : header) (gp : option header) (f : Z),
    spec_algo c (h_number p + 1) = AReset f -> calc_difficulty c time p gp = Ok (reset_value f).
Proof. exact difficulty_fork_reset. Qed.
Print Assumptions C13_difficulty_fork_reset.

Theorem C13_builtin_fork_resets :
  forall (time : Z) (p : header) (gp : option header),
    ((h_number p + 1 = 3600 -> calc_difficulty mainnet_cfg time p gp = Ok 100001792) /\
     (h_number p + 1 = 13026 -> calc_difficulty mainnet_cfg time p gp = Ok 30959185800) /\
     (h_number p + 1 = 22800 -> calc_difficulty mainnet_cfg time p gp = Ok 46039386)) /\
    ((h_number p + 1 = 1 -> calc_difficulty testnet_cfg time p gp = Ok 100001792) /\
     (h_number p + 1 = 3 -> calc_difficulty testnet_cfg time p gp = Ok 30959185800) /\
     (h_number p + 1 = 5 -> calc_difficulty testnet_cfg time p gp = Ok 46039386) /\
     (h_number p + 1 = 650 -> calc_difficulty testnet_cfg time p gp = Ok 46039386)) /\
    (h_number p + 1 = 8 -> calc_difficulty testnet2_cfg time p gp = Ok 46039386).
Proof. exact builtin_fork_resets. Qed.
Print Assumptions C13_builtin_fork_resets.

(* never below the active minimum — wherever the rule in force enforces a minimum (minimum_enforced, HeaderSpec.v) *)
Theorem C13_difficulty_ge_minimum_partial :
  forall (c : cfg) (time : Z) (p : header) (gp : option header) (d : Z),
    calc_difficulty c time p gp = Ok d ->
    minimum_enforced c (h_number p + 1) gp = true ->
    spec_minimum c (h_number p + 1) <= d.
Proof. exact difficulty_ge_minimum. Qed.
Print Assumptions C13_difficulty_ge_minimum_partial.

(* FULL: the exact criterion.  For every fork configuration c, every block number `next` and both shapes of the
   grandparent argument (b = a grandparent is passed; only the HF10 rule reads it), the calculator's result is >= the
   minimum selected for `next` for EVERY parent and timestamp exactly when minimum_holds c next b (MinimumProofs.v: a
   decidable table on the rule in force).  minimum_enforced (the partial theorem's premise) implies it; where it is
   false, a parent of difficulty 0 is a witness. *)
Theorem C13_difficulty_ge_minimum :
  forall (c : cfg) (next : Z) (b : bool),
    minimum_holds c next b = true <->
    (forall (time : Z) (p : header) (gp : option header) (d : Z),
       h_number p + 1 = next -> is_some gp = b ->
       calc_difficulty c time p gp = Ok d -> spec_minimum c next <= d).
Proof. exact difficulty_ge_minimum_full. Qed.
Print Assumptions C13_difficulty_ge_minimum.

Theorem C13_minimum_enforced_implies_holds :
  forall (c : cfg) (next : Z) (gp : option header),
    minimum_enforced c next gp = true -> minimum_holds c next (is_some gp) = true.
Proof. exact minimum_enforced_holds. Qed.
Print Assumptions C13_minimum_enforced_implies_holds.

(* ... decided on every configuration of the generated parameters (all_cfgs: mainnet, testnet, testnet2, testnet3,
   dev, devclique, test) and every block number >= 1: the result is >= the applicable minimum for every parent,
   timestamp and grandparent, except on testnet2 (every height but the HF8 reset at 8) and on testnet3 (every
   height), where for either grandparent shape some parent is sent below it. *)
Theorem C13_generated_cfgs_difficulty_ge_minimum :
  forall c : cfg, In c generated_cfgs ->
  forall next : Z, 1 <= next ->
    if generated_minimum_table c next
    then forall time p gp d, h_number p + 1 = next -> calc_difficulty c time p gp = Ok d -> spec_minimum c next <= d
    else forall b, exists time p gp d,
           h_number p + 1 = next /\ is_some gp = b /\ calc_difficulty c time p gp = Ok d /\ d < spec_minimum c next.
Proof. exact generated_cfgs_difficulty_ge_minimum. Qed.
Print Assumptions C13_generated_cfgs_difficulty_ge_minimum.

Theorem C13_generated_cfgs_are_the_builtin :
  generated_cfgs = [mainnet_cfg; testnet_cfg; testnet2_cfg; testnet3_cfg; dev_cfg; devclique_cfg; test_cfg] /\
  (forall c next, generated_minimum_table c next =
     if chain_id c =? testnet2_chain_id then next =? 8 else if chain_id c =? testnet3_chain_id then false else true).
Proof. split; [exact generated_cfgs_eq | reflexivity]. Qed.
Print Assumptions C13_generated_cfgs_are_the_builtin.

(* the testnet3 witness replayed on the Go CalcDifficulty by the directed case (1) of harness/cmd/c13
   (signature difficulty-below-active-minimum-no-hf2); the testnet2 one is C13_difficulty_ge_minimum_refuted below *)
Theorem C13_difficulty_ge_minimum_testnet3_refuted :
  exists time p gp d,
    In testnet3_cfg generated_cfgs /\
    calc_difficulty testnet3_cfg time p gp = Ok d /\ h_diff p = spec_minimum testnet3_cfg (h_number p) /\
    d < spec_minimum testnet3_cfg (h_number p + 1).
Proof. exact difficulty_ge_minimum_testnet3_refuted. Qed.
Print Assumptions C13_difficulty_ge_minimum_testnet3_refuted.

(* ... which on the generated mainnet schedule is every height *)
Theorem C13_mainnet_difficulty_ge_minimum :
  forall (time : Z) (p : header) (gp : option header) (d : Z),
    calc_difficulty mainnet_cfg time p gp = Ok d -> spec_minimum mainnet_cfg (h_number p + 1) <= d.
Proof. exact mainnet_difficulty_ge_minimum. Qed.
Print Assumptions C13_mainnet_difficulty_ge_minimum.

(* Full-strength clause "never below the active minimum, for every built-in schedule":
     forall c in built-in configs, calc_difficulty c time p gp = Ok d -> spec_minimum c (h_number p + 1) <= d
   is false of the code for testnet2 (and testnet3): HF5 active without HF2 falls through to calcDifficultyStarting. *)
Theorem C13_difficulty_ge_minimum_refuted :
  exists time p gp d,
    calc_difficulty testnet2_cfg time p gp = Ok d /\ h_diff p = spec_minimum testnet2_cfg (h_number p) /\
    d < spec_minimum testnet2_cfg (h_number p + 1).
Proof. exact difficulty_ge_minimum_refuted. Qed.
Print Assumptions C13_difficulty_ge_minimum_refuted.

(* totality: outside the (unscheduled, experimental) HF10 rule the adjustment never panics; under it, it can *)
Theorem C13_difficulty_total :
  forall (c : cfg) (time : Z) (p : header) (gp : option header),
    is_hf c 10 (h_number p + 1) = false -> exists d, calc_difficulty c time p gp = Ok d.
Proof. exact difficulty_total. Qed.
Print Assumptions C13_difficulty_total.

Theorem C13_grandparent_panic_refuted : exists c time p g, calc_difficulty c time p (Some g) = Panic.
Proof. exact grandparent_panic_refuted. Qed.
Print Assumptions C13_grandparent_panic_refuted.

(* size of one adjustment step.  Simple rule (from HF2): at most parent/divisor up or down, never below the minimum;
   homestead-style rules (before HF2): up by at most parent/2048, down by at most 99*(parent/2048) *)
Theorem C13_simple_step_bound :
  forall (c : cfg) (time : Z) (p : header) (gp : option header) (d : Z),
    spec_algo c (h_number p + 1) = ASimple ->
    calc_difficulty c time p gp = Ok d ->
    0 <= h_diff p ->
    spec_minimum c (h_number p + 1) <= d /\
    h_diff p - h_diff p / spec_divisor c (h_number p + 1) <= d /\
    d <= Z.max (spec_minimum c (h_number p + 1)) (h_diff p + h_diff p / spec_divisor c (h_number p + 1)) /\
    (spec_minimum c (h_number p + 1) <= h_diff p -> Z.abs (d - h_diff p) <= h_diff p / spec_divisor c (h_number p + 1)).
Proof. exact simple_step_bound. Qed.
Print Assumptions C13_simple_step_bound.

Theorem C13_homestead_step_bound :
  forall (c : cfg) (time : Z) (p : header) (gp : option header) (d : Z) (hf1 : bool),
    spec_algo c (h_number p + 1) = AHomestead hf1 ->
    calc_difficulty c time p gp = Ok d ->
    0 <= h_diff p -> h_time p <= time ->
    h_diff p - 99 * (h_diff p / 2048) <= d /\
    d <= Z.max (if hf1 then 100001792 else 99999999) (h_diff p + h_diff p / 2048).
Proof. exact homestead_step_bound. Qed.
Print Assumptions C13_homestead_step_bound.

(* never below the active minimum on every built-in proof-of-work schedule with HF2 (mainnet, testnet, test, dev):
   every height, parent, timestamp and grandparent (testnet2 / testnet3: C13_difficulty_ge_minimum_refuted) *)
Theorem C13_builtin_difficulty_ge_minimum :
  forall (time : Z) (p : header) (gp : option header) (d : Z),
    0 <= h_number p ->
    (calc_difficulty mainnet_cfg time p gp = Ok d -> spec_minimum mainnet_cfg (h_number p + 1) <= d) /\
    (calc_difficulty testnet_cfg time p gp = Ok d -> spec_minimum testnet_cfg (h_number p + 1) <= d) /\
    (calc_difficulty test_cfg time p gp = Ok d -> spec_minimum test_cfg (h_number p + 1) <= d) /\
    (calc_difficulty dev_cfg time p gp = Ok d -> spec_minimum dev_cfg (h_number p + 1) <= d).
Proof. exact builtin_difficulty_ge_minimum. Qed.
Print Assumptions C13_builtin_difficulty_ge_minimum.

(* calcDifficultyTestnet3 (unreferenced in this tree): on increasing timestamps it raises the difficulty by 1000 for a
   block within 10 s and otherwise keeps it — the grandparent difference is taken as grandparent - parent, so the
   lowering and halving branches are never taken; it has no minimum *)
Theorem C13_testnet3_on_increasing_timestamps :
  forall (time : Z) (p g : header),
    h_time g < h_time p ->
    calc_testnet3 time p (Some g) = if time - h_time p <? 10 then h_diff p + 1000 else h_diff p.
Proof. exact testnet3_on_increasing_timestamps. Qed.
Print Assumptions C13_testnet3_on_increasing_timestamps.

Theorem C13_testnet3_cases :
  forall (time : Z) (p : header) (gp : option header),
    calc_testnet3 time p gp = h_diff p \/ calc_testnet3 time p gp = h_diff p + 1000 \/
    calc_testnet3 time p gp = h_diff p - 1000 \/ calc_testnet3 time p gp = Z.quot (h_diff p) 2.
Proof. exact testnet3_cases. Qed.
Print Assumptions C13_testnet3_cases.

(* uncles: accepted iff at most max(fork) (2, then 1 from HF5), the block's version is set, and every uncle is
   not already included / not the block / not repeated, not an ancestor, has its parent among the up-to-7 ancestors
   (or, as the code allows, the block itself) and not the block's own parent, and is a valid header on it —
   outside the historic window of hard-coded mainnet exceptions (loop counter above 15000) *)
Theorem C13_uncles_iff :
  forall (c : cfg) (chain : list header) (blocks : list block) (now : Z) (b : block),
    let bh := bl_header b in
    let '(number, anc, unc) := gather 7 blocks (h_parent bh) (u64 (big_uint64 (h_number bh) - 1)) [] [] in
    number > 15000 ->
    (verify_uncles c chain blocks now b = Ok tt <->
     Z.of_nat (length (bl_uncles b)) <= max_uncles_at c (h_number bh) /\
     bl_version b <> 0 /\
     uncles_ok_from c chain now (h_parent bh) ((h_hash bh, bh) :: anc) (h_hash bh :: unc) (bl_uncles b)).
Proof. exact uncles_iff. Qed.
Print Assumptions C13_uncles_iff.

(* inside that window (block number below ~15008, on ANY chain configuration) an uncle carrying a hard-coded
   parent hash and number is accepted without any validation *)
Theorem C13_uncles_whitelist_skips_validation_refuted :
  exists c chain blocks now b,
    verify_uncles c chain blocks now b = Ok tt /\
    c = testnet_cfg /\
    (forall u, In u (bl_uncles b) -> forall p gp, verify_header c chain now u (Some p) gp true true <> Ok tt).
Proof. exact uncles_whitelist_skips_validation_refuted. Qed.
Print Assumptions C13_uncles_whitelist_skips_validation_refuted.

(* batch verification: for EVERY schedule of dispatches and completions of the result collector of VerifyHeaders,
   what is delivered is — in input order — what the workers compute for indices 0,1,2,...; after the collector
   returns it is all n of them, so the first failure read by the caller does not depend on the schedule *)
Theorem C13_batch_delivers_in_order :
  forall (v : nat -> res unit) (n : nat) (sched : list event) (s : bstate),
    brun v n b_init sched = Some s ->
    (exists k, b_delivered s = map v (seq 0 k)) /\
    (b_finished s = true -> b_delivered s = map v (seq 0 n)).
Proof. exact batch_delivers_in_order. Qed.
Print Assumptions C13_batch_delivers_in_order.

Theorem C13_batch_first_failure_schedule_independent :
  forall (v : nat -> res unit) (n : nat) (sched1 sched2 : list event) (s1 s2 : bstate),
    brun v n b_init sched1 = Some s1 -> brun v n b_init sched2 = Some s2 ->
    b_finished s1 = true -> b_finished s2 = true ->
    b_delivered s1 = b_delivered s2 /\
    first_failure (b_delivered s1) 0 = first_failure (map v (seq 0 n)) 0.
Proof. exact batch_first_failure_schedule_independent. Qed.
Print Assumptions C13_batch_first_failure_schedule_independent.
(* contiguous batch (what ValidateHeaderChain checks before calling VerifyHeaders) of headers not yet known to the
   chain, numbers in [1, 2^64): the per-index worker results have the same first failure (index and error) as
   verifying one by one with each accepted header inserted before the next is checked *)
Theorem C13_workers_equal_sequential :
  forall (c : cfg) (chain : list header) (now : Z) (hs : list header) (seals : list bool),
    batch_ok chain hs ->
    first_failure (map (verify_worker c chain now hs seals) (seq 0 (length hs))) 0 = sequential c chain now hs seals 0.
Proof. exact workers_equal_sequential. Qed.
Print Assumptions C13_workers_equal_sequential.

(* batch_equals_sequential, in full: for EVERY schedule of the collector that runs to completion, the caller of
   VerifyHeaders reads the same first failure as one-by-one VerifyHeader *)
Theorem C13_batch_equals_sequential :
  forall (c : cfg) (chain : list header) (now : Z) (hs : list header) (seals : list bool) (sched : list event) (s : bstate),
    batch_ok chain hs ->
    brun (verify_worker c chain now hs seals) (length hs) b_init sched = Some s ->
    b_finished s = true ->
    first_failure (b_delivered s) 0 = sequential c chain now hs seals 0.
Proof. exact batch_equals_sequential. Qed.
Print Assumptions C13_batch_equals_sequential.

(* progress: in every reachable state in which the collector has not returned, an event is enabled (no deadlock);
   so every maximal run ends with b_finished = true, i.e. all n results delivered *)
Theorem C13_collector_progress :
  forall (v : nat -> res unit) (n : nat), (0 < n)%nat ->
  forall (sched : list event) (s : bstate),
    brun v n b_init sched = Some s -> b_finished s = false -> exists e, bstep v n s e <> None.
Proof. exact collector_progress. Qed.
Print Assumptions C13_collector_progress.

(* the collector cannot run for ever: every run has at most 2n events (n dispatches, n completions), and from every
   reachable state it can be run on to the state in which it has returned — with progress: whatever the scheduler does,
   VerifyHeaders delivers all n results after at most 2n events *)
Theorem C13_collector_run_length :
  forall (v : nat -> res unit) (n : nat) (sched : list event) (s : bstate),
    brun v n b_init sched = Some s -> (length sched <= 2 * n)%nat.
Proof. exact run_length_bound. Qed.
Print Assumptions C13_collector_run_length.

Theorem C13_collector_terminates :
  forall (v : nat -> res unit) (n : nat), (0 < n)%nat ->
  forall (sched : list event) (s : bstate),
    brun v n b_init sched = Some s ->
    exists rest s', brun v n b_init (sched ++ rest) = Some s' /\ b_finished s' = true /\
                    (length (sched ++ rest) <= 2 * n)%nat.
Proof. exact collector_terminates. Qed.
Print Assumptions C13_collector_terminates.

(* the "already known" short cut is a function of the stored header set: it fires only for a header that IS stored (same
   hash and number).  For a header that is not stored the verdict of VerifyHeader does not depend on what is stored at its
   height — a near-twin of a stored block (other nonce / mix digest / extra / time) is judged as on a chain that only has
   its ancestors *)
Theorem C13_verify_header_ignores_stored_twins :
  forall (c : cfg) (chain : list header) (now : Z) (h : header) (seal : bool),
    get_header chain (h_hash h) (big_uint64 (h_number h)) = None ->
    verify_header_top c chain now h seal =
    verify_header_top c (drop_height chain (big_uint64 (h_number h))) now h seal.
Proof. exact verify_header_top_ignores_height. Qed.
Print Assumptions C13_verify_header_ignores_stored_twins.

Theorem C13_twin_verdict_independent_of_store :
  forall (c : cfg) (chain1 chain2 : list header) (now : Z) (h : header) (seal : bool),
    get_header chain1 (h_hash h) (big_uint64 (h_number h)) = None ->
    get_header chain2 (h_hash h) (big_uint64 (h_number h)) = None ->
    drop_height chain1 (big_uint64 (h_number h)) = drop_height chain2 (big_uint64 (h_number h)) ->
    verify_header_top c chain1 now h seal = verify_header_top c chain2 now h seal.
Proof. exact twin_verdict_independent_of_store. Qed.
Print Assumptions C13_twin_verdict_independent_of_store.

(* the same for the batch worker, for the lookups it makes *)
Theorem C13_verify_worker_ignores_stored_twins :
  forall (c : cfg) (chain : list header) (now : Z) (hs : list header) (seals : list bool) (i : nat) (h h0 : header),
    nth_error hs i = Some h -> nth_error hs 0 = Some h0 ->
    get_header chain (h_hash h) (big_uint64 (h_number h)) = None ->
    (i = 1%nat -> big_uint64 (h_number h) <> u64 (big_uint64 (h_number h0) - 1)) ->
    verify_worker c chain now hs seals i =
    verify_worker c (drop_height chain (big_uint64 (h_number h))) now hs seals i.
Proof. exact verify_worker_ignores_height. Qed.
Print Assumptions C13_verify_worker_ignores_stored_twins.

(* with seal checking on, a header that is not stored is never accepted unless its seal verifies *)
Theorem C13_unknown_header_accepted_only_with_seal :
  forall (c : cfg) (chain : list header) (now : Z) (h : header),
    get_header chain (h_hash h) (big_uint64 (h_number h)) = None ->
    verify_header_top c chain now h true = Ok tt -> h_seal h = 0.
Proof. exact unknown_header_accepted_only_with_seal. Qed.
Print Assumptions C13_unknown_header_accepted_only_with_seal.

(* the abort channel of VerifyHeaders as a logical operation: whenever the caller aborts — at any point of any schedule —
   what has been delivered so far is, in input order, what the workers compute for the first k headers, i.e. a prefix of
   what the un-aborted run delivers; nothing is delivered after the abort *)
Theorem C13_abort_prefix :
  forall (v : nat -> res unit) (n : nat) (es : list aevent) (s : bstate) (ab : bool),
    arun v n b_init false es = Some (s, ab) ->
    exists k, b_delivered s = map v (seq 0 k) /\
              (b_finished s = true -> b_delivered s = map v (seq 0 n)).
Proof. exact abort_prefix. Qed.
Print Assumptions C13_abort_prefix.

Theorem C13_aborted_collector_is_inert :
  forall (v : nat -> res unit) (n : nat) (s : bstate) (es : list aevent), arun v n s true es = Some (s, true).
Proof. exact arun_aborted. Qed.
Print Assumptions C13_aborted_collector_is_inert.

(* header-first import (core/headerchain.go ValidateHeaderChain).  The seal sample, for EVERY stream of random numbers:
   one flag per header, the last header always sampled, every complete window of checkFreq headers contains a sampled one;
   it panics exactly for checkFreq = 0 or an empty chain *)
Theorem C13_seal_sample_spec :
  forall (len freq : nat) (rands : list nat) (seals : list bool),
    pick_seals len freq rands = Some seals ->
    length seals = len /\
    nth (len - 1) seals false = true /\
    forall w, (w < len / freq)%nat -> window_hit len freq seals w.
Proof. exact pick_seals_spec. Qed.
Print Assumptions C13_seal_sample_spec.

Theorem C13_seal_sample_panics_iff :
  forall (len freq : nat) (rands : list nat), pick_seals len freq rands = None <-> freq = O \/ len = O.
Proof. exact pick_seals_panics. Qed.
Print Assumptions C13_seal_sample_panics_iff.

(* accepted by ValidateHeaderChain iff contiguous, no blacklisted hash, and every header passes its worker with the
   sampled seal flags; and then (unknown headers, numbers in [1,2^64)) it is accepted by one-by-one VerifyHeader *)
Theorem C13_validate_header_chain_ok_iff :
  forall (c : cfg) (chain : list header) (now : Z) (hs : list header) (seals : list bool) (bad : bytes -> bool),
    validate_with_seals c chain now hs seals bad = VOk <->
    contiguous_b hs = true /\
    (forall h, In h hs -> bad (h_hash h) = false) /\
    (forall i, (i < length hs)%nat -> verify_worker c chain now hs seals i = Ok tt).
Proof. exact validate_ok_iff. Qed.
Print Assumptions C13_validate_header_chain_ok_iff.

Theorem C13_validate_header_chain_ok_sequential :
  forall (c : cfg) (chain : list header) (now : Z) (hs : list header) (seals : list bool) (bad : bytes -> bool),
    batch_ok chain hs ->
    validate_with_seals c chain now hs seals bad = VOk ->
    sequential c chain now hs seals 0 = None.
Proof. exact validate_ok_sequential. Qed.
Print Assumptions C13_validate_header_chain_ok_sequential.

(* ValidateHeaderChain consumes exactly one result per header — also for headers already in the chain, whose worker
   answers Ok in its own slot: the verdict is the first failure of the per-index results, at its own index *)
Theorem C13_validate_header_chain_is_first_failure :
  forall (c : cfg) (chain : list header) (now : Z) (hs : list header) (seals : list bool),
    contiguous_b hs = true ->
    validate_with_seals c chain now hs seals (fun _ => false) =
    match first_failure (map (verify_worker c chain now hs seals) (seq 0 (length hs))) 0 with
    | None => VOk
    | Some (j, Err e) => VFail j e
    | Some (j, _) => VPanic
    end.
Proof. exact validate_is_first_failure. Qed.
Print Assumptions C13_validate_header_chain_is_first_failure.

(* uncles at ANY height, the hard-coded historic exceptions stated explicitly (uncles_spec, HeaderSpec.v) *)
Theorem C13_uncles_iff_any_height :
  forall (c : cfg) (chain : list header) (blocks : list block) (now : Z) (b : block),
    let bh := bl_header b in
    let '(number, anc, unc) := gather 7 blocks (h_parent bh) (u64 (big_uint64 (h_number bh) - 1)) [] [] in
    (verify_uncles c chain blocks now b = Ok tt <->
     Z.of_nat (length (bl_uncles b)) <= max_uncles_at c (h_number bh) /\
     bl_version b <> 0 /\
     uncles_spec c chain now number (h_hash bh) (h_parent bh) ((h_hash bh, bh) :: anc) (h_hash bh :: unc) (bl_uncles b)).
Proof. exact uncles_iff_any_height. Qed.
Print Assumptions C13_uncles_iff_any_height.

(* the exceptions: exactly these, and only while the loop counter is <= 15000 *)
Theorem C13_historic_exceptions_iff :
  forall (number : Z) (block_hash uparent uhash : bytes) (unum : Z),
    (dup_allowed number block_hash unum = true <-> number <= 15000 /\ In (block_hash, big_uint64 unum) dup_wl) /\
    (dangling_allowed number uparent uhash unum = true <->
     number <= 15000 /\ (In (uparent, big_uint64 unum) dangling_parent_wl \/ In (uhash, big_uint64 unum) dangling_hash_wl)).
Proof. exact historic_exceptions_iff. Qed.
Print Assumptions C13_historic_exceptions_iff.

(* identity of the uncles already included by the ancestors: the code takes it under the version of the uncle's OWN
   height (it re-stamps what the chain reader returns).  core.BlockChain.GetBlock hands past uncles over stamped with
   the INCLUDING block's version; hashing them as handed over is the same only when the two stamps agree ... *)
Theorem C13_past_uncle_identity_same_when_stamps_agree :
  forall (c : cfg) (chain : list header) (blocks : list block) (now : Z) (b : block),
    (forall a, In a blocks -> bl_uncles_stamped a = map h_hash (bl_uncles a)) ->
    verify_uncles_v AsStamped c chain blocks now b = verify_uncles c chain blocks now b.
Proof. exact verify_uncles_v_same. Qed.
Print Assumptions C13_past_uncle_identity_same_when_stamps_agree.

(* ... and across a version fork only the code's choice recognises a second inclusion *)
Theorem C13_past_uncle_identity_matters :
  exists c chain blocks now b,
    verify_uncles c chain blocks now b = Err EDuplicateUncle /\
    verify_uncles_v AsStamped c chain blocks now b = Ok tt.
Proof. exact uncle_identity_matters. Qed.
Print Assumptions C13_past_uncle_identity_matters.

(* non-vacuity: a valid header on the generated mainnet schedule at the HF5 fork block, rejected when any rule is
   missed by one; three completion orders of a batch of four *)
Example C13_example :
  let p := {| h_hash := [x01]; h_parent := [x00]; h_number := 22799; h_time := 1530000000; h_diff := 4000000000000;
              h_gas_limit := 4712388; h_gas_used := 0; h_extra_len := 5; h_seal := 0 |} in
  let h d gl t := {| h_hash := [x02]; h_parent := [x01]; h_number := 22800; h_time := t; h_diff := d;
                     h_gas_limit := gl; h_gas_used := 21000; h_extra_len := 32; h_seal := 0 |} in
  verify_header mainnet_cfg [] 1530000300 (h 46039386 (4712388 + 4600) 1530000315) (Some p) None false true = Ok tt /\
  verify_header mainnet_cfg [] 1530000300 (h 46039386 (4712388 + 4600) 1530000316) (Some p) None false true = Err EFuture /\
  verify_header mainnet_cfg [] 1530000300 (h 46039387 (4712388 + 4600) 1530000315) (Some p) None false true = Err EDifficulty /\
  verify_header mainnet_cfg [] 1530000300 (h 46039386 (4712388 + 4601) 1530000315) (Some p) None false true = Err EGasLimit /\
  verify_header mainnet_cfg [] 1530000300 (h 46039386 (4712388 + 4600) 1530000000) (Some p) None false true = Err EZeroTime.
Proof. exact header_example. Qed.

Example C13_batch_example :
  let v := fun i : nat => if Nat.eqb i 2 then @Err unit EZeroTime else Ok tt in
  option_map (fun s => (b_delivered s, b_finished s)) (brun v 4 b_init (sched_in_order 4)) = Some ([Ok tt; Ok tt; Err EZeroTime; Ok tt], true) /\
  option_map (fun s => (b_delivered s, b_finished s))
    (brun v 4 b_init [Dispatch; Dispatch; Dispatch; Dispatch; Complete 3; Complete 2; Complete 1; Complete 0]) = Some ([Ok tt; Ok tt; Err EZeroTime; Ok tt], true) /\
  option_map (fun s => (b_delivered s, b_finished s))
    (brun v 4 b_init [Dispatch; Dispatch; Complete 1; Dispatch; Complete 0; Dispatch; Complete 3]) = Some ([Ok tt; Ok tt], false).
Proof. exact batch_example. Qed.

Example C13_testnet3_example :
  let p := {| h_hash := []; h_parent := []; h_number := 9; h_time := 1000; h_diff := 5000; h_gas_limit := 0; h_gas_used := 0; h_extra_len := 0; h_seal := 0 |} in
  let g t := {| h_hash := []; h_parent := []; h_number := 8; h_time := t; h_diff := 7; h_gas_limit := 0; h_gas_used := 0; h_extra_len := 0; h_seal := 0 |} in
  map (fun '(t, gt) => calc_testnet3 t p (Some (g gt))) [(1005, 900); (1010, 900); (1030, 1030); (1030, 900); (1200, 1200); (1015, 1015)]
  = [6000; 5000; 4000; 5000; 4000; 5000] /\ calc_testnet3 1005 p None = 5000.
Proof. exact testnet3_example. Qed.

Example C13_abort_example :
  let v := fun i : nat => if Nat.eqb i 2 then @Err unit EZeroTime else Ok tt in
  option_map (fun '(s, ab) => (b_delivered s, ab))
    (arun v 4 b_init false [AEv Dispatch; AEv Dispatch; AEv (Complete 1); AEv (Complete 0); AAbort; AEv Dispatch; AEv (Complete 2)])
  = Some ([Ok tt; Ok tt], true).
Proof. exact abort_example. Qed.

Example C13_known_twin_example :
  let mk := fun hash parent num t d s => {| h_hash := hash; h_parent := parent; h_number := num; h_time := t; h_diff := d;
                                            h_gas_limit := 4712388; h_gas_used := 0; h_extra_len := 0; h_seal := s |} in
  let g := mk [x10] [x00] 20000 1000 46039386 0 in
  let a1 := mk [x11] [x10] 20001 1100 46399068 0 in
  let b := mk [x12] [x11] 20002 1200 46761560 1 in
  let twin := mk [x77] [x11] 20002 1200 46761560 1 in
  verify_header_top test_cfg [b; a1; g] 5000 b true = Ok tt /\
  verify_header_top test_cfg [b; a1; g] 5000 twin true = Err (ESeal 1) /\
  verify_header_top test_cfg [a1; g] 5000 twin true = Err (ESeal 1).
Proof. exact known_twin_example. Qed.
